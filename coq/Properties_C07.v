(** C07 — every distribution's density, CDF, quantile and likelihood are mutually coherent.
    Property theorems only; each is closed by [exact] of lemmas proved in C07_Proofs_*.v.
    All statements are about the Gallina model C07_Model.v at the real instance [ROps] (erf = [Rerf], defined by
    its integral; M_PI := PI).  [val r] is the value of a call that returned ([Ok v]), [returns r] says it did;
    a guard that terminates the process is [Exit].  The functions of Special_Functions.cpp that Statistics.cpp only
    calls (GammaQ, GammaP, Inv_GammaQ, GammaLn, Inv_Erf, Binomial_Coefficient) are parameters; what a theorem needs
    about them is an explicit hypothesis (non-vacuity: C07_Proofs_Ex.v).
    Clauses of one family are grouped in one theorem (one [Print Assumptions] per theorem). *)
From Coq Require Import Reals ZArith List Permutation Sorted.
From Coquelicot Require Import Coquelicot.
From LP Require Import Num NumR C07_Model C07_Proofs_Cont C07_Proofs_ErfBound C07_Proofs_Disc C07_Proofs_Chi C07_Proofs_Ex C07_Proofs_Kde C07_Proofs_Coh C07_Proofs_Int Gen_C07_Formulas C07_GenTie C07_Proofs_Gen.
Import ListNotations.
Local Open Scope R_scope.

(** ** Uniform on [a,b], a < b *)
Theorem C07_uniform_density_and_cdf a b : a < b ->
  (* the density is non-negative *)
  (forall x, 0 <= pdf_uniform ROps x a b) /\
  (* CDF' = density inside each of the three support pieces *)
  (forall x, x <> a -> x <> b -> is_derive (fun x => cdf_uniform ROps x a b) x (pdf_uniform ROps x a b)) /\
  (* the CDF is non-decreasing from 0 to 1; the limits are attained at the ends of the support *)
  (forall x y, x <= y -> cdf_uniform ROps x a b <= cdf_uniform ROps y a b) /\
  (forall x, 0 <= cdf_uniform ROps x a b <= 1) /\
  (forall x, x <= a -> cdf_uniform ROps x a b = 0) /\ (forall x, b <= x -> cdf_uniform ROps x a b = 1).
Proof.
  exact (fun H => conj (uniform_pdf_nonneg a b H) (conj (uniform_cdf_derive a b H) (conj (uniform_cdf_monotone a b H)
          (conj (uniform_cdf_range a b H) (conj (cdf_u_low a b H) (cdf_u_high a b H)))))).
Qed.
Print Assumptions C07_uniform_density_and_cdf.

(** "the CDF difference over any interval equals the integral of the density over it" — any u, v, across the support ends *)
Theorem C07_uniform_cdf_difference_is_integral a b : a < b -> forall u v,
  is_RInt (fun x => pdf_uniform ROps x a b) u v (cdf_uniform ROps v a b - cdf_uniform ROps u a b).
Proof. exact (uniform_is_RInt a b). Qed.
Print Assumptions C07_uniform_cdf_difference_is_integral.

(** ** Exponential, mean m > 0 *)
Theorem C07_exponential_density_and_cdf m : 0 < m ->
  (forall x, returns (pdf_exponential ROps x m) /\ returns (cdf_exponential ROps x m)) /\
  (forall x, 0 <= val (pdf_exponential ROps x m)) /\
  (forall x, x <> 0 -> is_derive (fun x => val (cdf_exponential ROps x m)) x (val (pdf_exponential ROps x m))) /\
  (forall x y, x <= y -> val (cdf_exponential ROps x m) <= val (cdf_exponential ROps y m)) /\
  (forall x, 0 <= val (cdf_exponential ROps x m) < 1) /\
  (* limits: 0 on the whole negative axis, 1 at +infinity *)
  (forall x, x <= 0 -> val (cdf_exponential ROps x m) = 0) /\
  is_lim (fun x => val (cdf_exponential ROps x m)) p_infty 1.
Proof.
  exact (fun H => conj (expo_returns m H) (conj (expo_pdf_nonneg m H) (conj (expo_cdf_derive m H) (conj (expo_cdf_monotone m H)
          (conj (expo_cdf_range m H) (conj (cdf_e_neg m) (expo_cdf_limit m H))))))).
Qed.
Print Assumptions C07_exponential_density_and_cdf.
Theorem C07_exponential_cdf_difference_is_integral m : 0 < m -> forall u v,
  is_RInt (fun x => val (pdf_exponential ROps x m)) u v (val (cdf_exponential ROps v m) - val (cdf_exponential ROps u m)).
Proof. exact (expo_is_RInt m). Qed.
Print Assumptions C07_exponential_cdf_difference_is_integral.

(** ** Normal, sigma > 0 *)
Theorem C07_gauss_density_and_cdf mu s : 0 < s ->
  (forall x, 0 < pdf_gauss ROps PI x mu s) /\
  (forall x, is_derive (fun x => cdf_gauss ROps x mu s) x (pdf_gauss ROps PI x mu s)) /\
  (forall x y, x <= y -> cdf_gauss ROps x mu s <= cdf_gauss ROps y mu s).
Proof. exact (fun H => conj (gauss_pdf_pos mu s H) (conj (gauss_cdf_derive mu s H) (gauss_cdf_monotone mu s H))). Qed.
Print Assumptions C07_gauss_density_and_cdf.
Theorem C07_gauss_cdf_difference_is_integral mu s : 0 < s -> forall u v,
  is_RInt (fun x => pdf_gauss ROps PI x mu s) u v (cdf_gauss ROps v mu s - cdf_gauss ROps u mu s).
Proof. exact (gauss_is_RInt mu s). Qed.
Print Assumptions C07_gauss_cdf_difference_is_integral.
(** The error function of the real instance ([Rerf x] = 2/sqrt(PI) * RInt (fun t => exp (-(t*t))) 0 x, a definition,
    not an axiom) is bounded by 1 in absolute value at EVERY real x.  Proved without improper integrals from
      (int_0^x e^(-t^2) dt)^2 = PI/4 - int_0^1 e^(-x^2 (1+t^2)) / (1+t^2) dt        ([gauss_square_identity])
    (the derivative of the sum of both sides' terms vanishes — differentiation under the integral sign on [0,1] —
    and at x = 0 it is atan 1 = PI/4); the last integral is > 0. *)
Theorem C07_erf_bounded x : -1 < Rerf x < 1.
Proof. exact (Rerf_bounded x). Qed.
Print Assumptions C07_erf_bounded.
Theorem C07_gauss_square_identity x :
  Rsqr (RInt (fun t => exp (- (t * t))) 0 x) = PI / 4 - RInt (fun t => exp (- (x * x * (1 + t * t))) / (1 + t * t)) 0 1.
Proof. exact (gauss_square_identity x). Qed.
Print Assumptions C07_gauss_square_identity.
(** the tail: 1 - e^(-x^2) <= erf x for x >= 0 (from the identity, J(x) <= e^(-x^2) PI/4), hence the limits +-1 —
    the Gaussian integral int_0^inf e^(-t^2) dt = sqrt(PI)/2 *)
Theorem C07_erf_limits :
  (forall x, 0 <= x -> 1 - exp (- (x * x)) <= Rerf x) /\ is_lim Rerf p_infty 1 /\ is_lim Rerf m_infty (-1).
Proof. exact (conj Rerf_tail (conj Rerf_lim_p Rerf_lim_m)). Qed.
Print Assumptions C07_erf_limits.
(** "the CDF runs from 0 to 1": strictly inside (0,1) at every x (|erf| < 1), limit 1 at +infinity and 0 at -infinity,
    the median, and the point symmetry CDF(mu+d) + CDF(mu-d) = 1 (erf is odd); monotone: C07_gauss_density_and_cdf *)
Theorem C07_gauss_cdf_range mu s : 0 < s ->
  (forall x, 0 < cdf_gauss ROps x mu s < 1) /\
  is_lim (fun x => cdf_gauss ROps x mu s) p_infty 1 /\ is_lim (fun x => cdf_gauss ROps x mu s) m_infty 0 /\
  cdf_gauss ROps mu mu s = 1 / 2 /\ forall d, cdf_gauss ROps (mu + d) mu s + cdf_gauss ROps (mu - d) mu s = 1.
Proof.
  exact (fun H => conj (gauss_cdf_range mu s) (conj (proj1 (gauss_cdf_limits mu s H)) (conj (proj2 (gauss_cdf_limits mu s H))
          (conj (gauss_cdf_median mu s H) (gauss_cdf_symmetry mu s H))))).
Qed.
Print Assumptions C07_gauss_cdf_range.

(** ** Maxwell-Boltzmann, a > 0 *)
Theorem C07_maxwell_boltzmann_density_and_cdf a : 0 < a ->
  (forall x, returns (pdf_maxwell_boltzmann ROps PI x a) /\ returns (cdf_maxwell_boltzmann ROps PI x a)) /\
  (forall x, 0 <= val (pdf_maxwell_boltzmann ROps PI x a)) /\
  (* the check of the closed form: the derivative of erf(x/(sqrt2 a)) - sqrt(2/pi) x/a exp(-x^2/2a^2) is the density *)
  (forall x, x <> 0 ->
     is_derive (fun x => val (cdf_maxwell_boltzmann ROps PI x a)) x (val (pdf_maxwell_boltzmann ROps PI x a))) /\
  (forall x y, x <= y -> val (cdf_maxwell_boltzmann ROps PI x a) <= val (cdf_maxwell_boltzmann ROps PI y a)).
Proof. exact (fun H => conj (mb_returns a H) (conj (mb_pdf_nonneg a H) (conj (mb_cdf_derive a H) (mb_cdf_monotone a H)))). Qed.
Print Assumptions C07_maxwell_boltzmann_density_and_cdf.
Theorem C07_maxwell_boltzmann_cdf_difference_is_integral a : 0 < a -> forall u v,
  is_RInt (fun x => val (pdf_maxwell_boltzmann ROps PI x a)) u v
          (val (cdf_maxwell_boltzmann ROps PI v a) - val (cdf_maxwell_boltzmann ROps PI u a)).
Proof. exact (mb_is_RInt a). Qed.
Print Assumptions C07_maxwell_boltzmann_cdf_difference_is_integral.
(** "from 0 to 1": 0 below the support, 0 <= CDF < 1 everywhere (erf < 1 and the subtracted term is >= 0 for x >= 0),
    limit 1 at +infinity *)
Theorem C07_maxwell_boltzmann_cdf_range a : 0 < a ->
  (forall x, x <= 0 -> val (cdf_maxwell_boltzmann ROps PI x a) = 0) /\
  (forall x, 0 <= val (cdf_maxwell_boltzmann ROps PI x a) < 1) /\
  is_lim (fun x => val (cdf_maxwell_boltzmann ROps PI x a)) p_infty 1.
Proof. exact (fun H => conj (cdf_mb_neg a) (conj (mb_cdf_range a H) (mb_cdf_limit a H))). Qed.
Print Assumptions C07_maxwell_boltzmann_cdf_range.

(** non-positive mean / scale, p outside [0,1], negative Poisson mean, cdf outside [0,1] terminate the process *)
Theorem C07_parameter_guards :
  (forall x m, m <= 0 -> pdf_exponential ROps x m = Exit /\ cdf_exponential ROps x m = Exit) /\
  (forall x a, a <= 0 -> pdf_maxwell_boltzmann ROps PI x a = Exit /\ cdf_maxwell_boltzmann ROps PI x a = Exit) /\
  (forall binom n p k, p < 0 \/ 1 < p -> pmf_binomial ROps binom n p k = Exit /\ cdf_binomial ROps binom n p k = Exit) /\
  (forall mu k, mu < 0 -> pmf_poisson ROps mu k = Exit) /\
  (forall gammaQ mu n, mu < 0 -> cdf_poisson ROps gammaQ mu n = Exit) /\
  (forall inv_gammaQ n c, c < 0 \/ 1 < c -> inv_cdf_poisson ROps inv_gammaQ n c = Exit).
Proof.
  exact (conj expo_guard (conj mb_guard (conj binomial_guard (conj (proj2 (proj2 pmf_poisson_conventions))
          (conj cdf_poisson_guard inv_cdf_poisson_guard))))).
Qed.
Print Assumptions C07_parameter_guards.

(** ** Binomial.  Hypothesis on the Binomial_Coefficient parameter: it returns C(n,k), and 0 for n < k
    ([binom_R] is an instance: ex_binomial).  [pmfv n p k] is C(n,k) p^k (1-p)^(n-k) for k <= n and 0 beyond. *)
Definition binom_spec (binom : Z -> Z -> res R) : Prop :=
  forall n k : nat, binom (Z.of_nat n) (Z.of_nat k) = Ok (if (n <? k)%nat then 0 else Binomial.C n k).
Theorem C07_binomial_pmf_and_cdf binom : binom_spec binom ->
  forall (n : nat) p (k : nat), 0 <= p <= 1 -> (Z.of_nat n < 4294967296)%Z ->
  (* the mass function, non-negative, zero beyond the number of trials *)
  pmf_binomial ROps binom (Z.of_nat n) p (Z.of_nat k) = Ok (pmfv n p k) /\ 0 <= pmfv n p k /\ ((n < k)%nat -> pmfv n p k = 0) /\
  (* the CDF is the partial sum of the masses *)
  cdf_binomial ROps binom (Z.of_nat n) p (Z.of_nat k) = Ok (sum_f_R0 (pmfv n p) k).
Proof.
  exact (fun Hb n p k Hp Hn => conj (pmf_binomial_val binom Hb n p k Hp Hn) (conj (pmfv_nonneg n p k Hp)
          (conj (pmfv_beyond n p k) (cdf_binomial_val binom Hb n p k Hp Hn)))).
Qed.
Print Assumptions C07_binomial_pmf_and_cdf.
(** the masses sum to one (the partial sums stay 1 beyond the trials), partial sums are non-decreasing within [0,1] *)
Theorem C07_binomial_pmf_sums_to_one (n : nat) p :
  (forall d, sum_f_R0 (pmfv n p) (n + d) = 1) /\
  (0 <= p <= 1 -> forall k, sum_f_R0 (pmfv n p) k <= sum_f_R0 (pmfv n p) (S k) /\ 0 <= sum_f_R0 (pmfv n p) k <= 1).
Proof. exact (conj (pmfv_sum_beyond n p) (fun H k => conj (pmfv_sum_monotone n p k H) (pmfv_sum_range n p k H))). Qed.
Print Assumptions C07_binomial_pmf_sums_to_one.

(** ** Poisson.  [poisv mu k] = e^-mu mu^k / k! *)
Theorem C07_poisson_pmf :
  (* the log-sum exp(k ln mu - mu - sum_{i=2..k} ln i) is the mass function *)
  (forall mu (k : nat), 0 < mu -> pmf_poisson ROps mu (Z.of_nat k) = Ok (poisv mu k) /\ 0 <= poisv mu k) /\
  (* mean 0: all mass at 0 *)
  pmf_poisson ROps 0 0 = Ok 1 /\ (forall k, (0 < k)%Z -> pmf_poisson ROps 0 k = Ok 0).
Proof.
  exact (conj (fun mu k H => conj (pmf_poisson_val mu k H) (poisv_nonneg mu k (Rlt_le _ _ H)))
          (conj (proj1 pmf_poisson_conventions) (proj1 (proj2 pmf_poisson_conventions)))).
Qed.
Print Assumptions C07_poisson_pmf.
(** sum_{k<=n} e^-mu mu^k/k! = 1 - (1/n!) int_0^mu t^n e^-t dt = Q(n+1, mu): the regularised upper incomplete gamma
    function at integer a is the partial Poisson sum — what justifies CDF_Poisson = GammaQ(mu, n+1);
    the partial sums lie in [0,1] and increase by the mass *)
Theorem C07_poisson_partial_sum_is_Q (n : nat) mu :
  sum_f_R0 (poisv mu) n = 1 - RInt (fun t => exp (- t) * t ^ n / INR (fact n)) 0 mu /\
  (0 <= mu -> 0 <= sum_f_R0 (poisv mu) n <= 1) /\
  sum_f_R0 (poisv mu) (S n) - sum_f_R0 (poisv mu) n = poisv mu (S n).
Proof. exact (conj (pois_sum_is_Q n mu) (conj (pois_sum_range n mu) (pois_sum_step n mu))). Qed.
Print Assumptions C07_poisson_partial_sum_is_Q.
(** CDF_Poisson is max(0, GammaQ(mu, n+1)); if GammaQ returns the function above it is the sum of the masses *)
Theorem C07_poisson_cdf gammaQ mu :  0 <= mu ->
  (forall n q, gammaQ mu (IZR (u32 (n + 1))) = Ok q -> cdf_poisson ROps gammaQ mu n = Ok (Rmax 0 q)) /\
  (forall n : nat, (Z.of_nat n + 1 < 4294967296)%Z ->
     gammaQ mu (INR (S n)) = Ok (1 - RInt (fun t => exp (- t) * t ^ n / INR (fact n)) 0 mu) ->
     cdf_poisson ROps gammaQ mu (Z.of_nat n) = Ok (sum_f_R0 (poisv mu) n)).
Proof. exact (fun H => conj (fun n q => cdf_poisson_clamp gammaQ mu n q H) (fun n => cdf_poisson_is_sum gammaQ mu n H)). Qed.
Print Assumptions C07_poisson_cdf.
(** Inv_CDF_Poisson: the exact inverse of CDF_Poisson(.,0) = e^-mu for 0 observed events; otherwise Inv_GammaQ(cdf, n+1) *)
Theorem C07_inv_cdf_poisson inv_gammaQ :
  (forall c, 0 < c <= 1 -> exists mu, inv_cdf_poisson ROps inv_gammaQ 0 c = Ok mu /\ 0 <= mu /\ poisv mu 0 = c) /\
  (forall n c, 0 <= c <= 1 -> (0 < n)%Z -> inv_cdf_poisson ROps inv_gammaQ n c = inv_gammaQ c (IZR (u32 (n + 1)))).
Proof. exact (conj (inv_cdf_poisson_zero inv_gammaQ) (inv_cdf_poisson_delegates inv_gammaQ)). Qed.
Print Assumptions C07_inv_cdf_poisson.

(** ** Likelihoods: "the Poisson likelihoods equal the mass function at signal plus background
    (binned: the product over bins; log versions: the logarithm)" *)
Theorem C07_likelihood_poisson s (n : nat) b : 0 < s + b ->
  Ok (likelihood_poisson ROps s (Z.of_nat n) b) = pmf_poisson ROps (s + b) (Z.of_nat n) /\
  log_likelihood_poisson ROps s (Z.of_nat n) b = ln (poisv (s + b) n) /\
  log_likelihood_poisson ROps s (Z.of_nat n) b = ln (likelihood_poisson ROps s (Z.of_nat n) b).
Proof. exact (fun H => conj (likelihood_is_pmf s n b H) (log_likelihood_is_log s n b H)). Qed.
Print Assumptions C07_likelihood_poisson.
(** [bins] pairs prediction, observation and background (zeros if the background list is empty);
    [sizes_ok]: observed has the size of the prediction, background is empty or has that size *)
Theorem C07_likelihood_poisson_binned pred obs bg :
  (sizes_ok pred obs bg ->
     log_likelihood_poisson_binned ROps pred obs bg = Ok (fold_right Rplus 0 (map bin_ll (bins pred obs bg))) /\
     likelihood_poisson_binned ROps pred obs bg = Ok (fold_right Rmult 1 (map bin_l (bins pred obs bg)))) /\
  (* a size mismatch terminates the process *)
  (~ sizes_ok pred obs bg ->
     log_likelihood_poisson_binned ROps pred obs bg = Exit /\ likelihood_poisson_binned ROps pred obs bg = Exit) /\
  (* an empty background means zeros *)
  log_likelihood_poisson_binned ROps pred obs [] = log_likelihood_poisson_binned ROps pred obs (repeat 0 (length pred)).
Proof.
  exact (conj (fun H => conj (binned_log_is_sum pred obs bg H) (binned_is_product pred obs bg H))
          (conj (binned_size_mismatch pred obs bg) (binned_empty_background pred obs))).
Qed.
Print Assumptions C07_likelihood_poisson_binned.
(** the sum over the bins does not depend on how the histogram is cut into consecutive blocks of bins (of any sizes, so for histograms
    of any length): the log-likelihood of the whole is the sum of the blocks' log-likelihoods, the likelihood the product *)
Theorem C07_likelihood_poisson_binned_blocks p1 o1 b1 p2 o2 b2 :
  length o1 = length p1 -> length b1 = length p1 -> length o2 = length p2 -> length b2 = length p2 ->
  exists l1 l2,
    log_likelihood_poisson_binned ROps p1 o1 b1 = Ok l1 /\ log_likelihood_poisson_binned ROps p2 o2 b2 = Ok l2 /\
    log_likelihood_poisson_binned ROps (p1 ++ p2) (o1 ++ o2) (b1 ++ b2) = Ok (l1 + l2) /\
    likelihood_poisson_binned ROps (p1 ++ p2) (o1 ++ o2) (b1 ++ b2) = Ok (exp l1 * exp l2).
Proof. exact (binned_blocks p1 o1 b1 p2 o2 b2). Qed.
Print Assumptions C07_likelihood_poisson_binned_blocks.
(** a bin in which nothing was observed contributes -(s+b) to the log-likelihood and the factor e^-(s+b), however the mean is split
    into signal and background: a bin without predicted signal (s = 0) still contributes -b, a factor < 1 for b > 0 *)
Theorem C07_likelihood_bin_without_events s b :
  log_likelihood_poisson ROps s 0 b = - (s + b) /\ likelihood_poisson ROps s 0 b = exp (- (s + b)) /\
  (0 <= b -> log_likelihood_poisson ROps 0 0 b = - b /\ likelihood_poisson ROps 0 0 b = exp (- b) /\
             (0 < b -> likelihood_poisson ROps 0 0 b < 1)).
Proof. exact (conj (log_likelihood_no_events s b) (conj (likelihood_no_events s b) (binned_no_signal_no_events_bin b))). Qed.
Print Assumptions C07_likelihood_bin_without_events.
(** the same clause for requests made one after the other in one process (likelihood scans): [lik_session] answers a list of single-bin
    and binned requests in order.  Whatever was asked before a request — any number of requests of either kind, in or out of the
    property's ranges, e.g. the first point of a signal-strength scan with total expectation 0 — and whatever follows, its answer is
    the answer the request gets alone; two histories give the same answer; single-bin requests never end the session *)
Theorem C07_likelihood_session_history_independent pre pre' post post' (q : lik_req) l l' :
  lik_session ROps (pre ++ q :: post) = Ok l -> lik_session ROps (pre' ++ q :: post') = Ok l' ->
  (exists a, nth_error l (length pre) = Some a /\ lik_answer ROps q = Ok a) /\
  nth_error l (length pre) = nth_error l' (length pre').
Proof.
  exact (fun H H' => conj (lik_session_answer ROps pre q post l H)
                          (proj1 (lik_session_history_independent ROps pre pre' post post' q l l' H H'))).
Qed.
Print Assumptions C07_likelihood_session_history_independent.
(** and for a single-bin request with s + b > 0 anywhere in a session the answer is (ln PMF(s+b; n), PMF(s+b; n)) *)
Theorem C07_likelihood_session_in_range pre post s (n : nat) b l : 0 < s + b ->
  lik_session ROps (pre ++ ReqLik s (Z.of_nat n) b :: post) = Ok l ->
  exists ll lk, nth_error l (length pre) = Some (ll, lk) /\
    Ok lk = pmf_poisson ROps (s + b) (Z.of_nat n) /\ ll = ln (poisv (s + b) n) /\ ll = ln lk.
Proof. exact (lik_session_in_range pre post s n b l). Qed.
Print Assumptions C07_likelihood_session_in_range.
Theorem C07_likelihood_session_scalar_requests (cs : list (R * Z * R)) :
  lik_session ROps (map (fun c => ReqLik (fst (fst c)) (snd (fst c)) (snd c)) cs) =
  Ok (map (fun c => (log_likelihood_poisson ROps (fst (fst c)) (snd (fst c)) (snd c),
                     likelihood_poisson ROps (fst (fst c)) (snd (fst c)) (snd c))) cs).
Proof. exact (lik_session_scalar ROps cs). Qed.
Print Assumptions C07_likelihood_session_scalar_requests.

(** ** Chi-square (dof >= 1e-6; smaller dof is the dof-0 convention) *)
Theorem C07_chi2_pdf gammaLn x dof :
  (* the log-space expression is x^(k/2-1) e^(-x/2) / (2^(k/2) Gamma(k/2)), given GammaLn(k/2) = ln G, G = Gamma(k/2) > 0 *)
  (forall G, 0 < x -> 1 / 1000000 <= dof -> 0 < G -> gammaLn (dof / 2) = Ok (ln G) ->
     pdf_chi_square ROps gammaLn x dof = Ok (Rpower x (dof / 2 - 1) * exp (- x / 2) / (Rpower 2 (dof / 2) * G))) /\
  (forall v, pdf_chi_square ROps gammaLn x dof = Ok v -> 0 <= v) /\
  (x <= 0 \/ dof < 1 / 1000000 -> pdf_chi_square ROps gammaLn x dof = Ok 0).
Proof. exact (conj (chi2_pdf_formula gammaLn x dof) (conj (chi2_pdf_nonneg gammaLn x dof) (chi2_pdf_zero gammaLn x dof))). Qed.
Print Assumptions C07_chi2_pdf.
(** CDF = 0 below 0, the unit step for |dof| < 1e-6 (dof 0: CDF(x,0) = 1 for x >= 0, no density), otherwise GammaP(x/2, dof/2) *)
Theorem C07_chi2_cdf_is_P gammaLn gammaP x dof :
  (x < 0 -> cdf_chi_square ROps gammaP x dof = Ok 0) /\
  (0 <= x -> Rabs dof < 1 / 1000000 -> cdf_chi_square ROps gammaP x dof = Ok 1) /\
  (0 <= x -> 1 / 1000000 <= Rabs dof -> cdf_chi_square ROps gammaP x dof = gammaP (x / 2) (dof / 2)) /\
  (0 <= x -> cdf_chi_square ROps gammaP x 0 = Ok 1) /\ pdf_chi_square ROps gammaLn x 0 = Ok 0.
Proof.
  exact (conj (proj1 (chi2_cdf_cases gammaP x dof)) (conj (proj1 (proj2 (chi2_cdf_cases gammaP x dof)))
          (conj (proj2 (proj2 (chi2_cdf_cases gammaP x dof))) (chi2_dof0 gammaLn gammaP x)))).
Qed.
Print Assumptions C07_chi2_cdf_is_P.
(** CDF' = density for x > 0 and CDF(v) - CDF(u) = integral of the density for 0 < u <= v, given that GammaP returns a
    function whose derivative in its first argument is t^(a-1) e^-t / Gamma(a) (the definition of the regularised lower
    incomplete gamma function) and GammaLn = ln Gamma *)
Theorem C07_chi2_cdf_derivative_and_integral gammaLn gammaP (P : R -> R -> R) dof G :
  1 / 1000000 <= dof -> 0 < G ->
  (forall t a, gammaP t a = Ok (P t a)) -> gammaLn (dof / 2) = Ok (ln G) ->
  (forall t, 0 < t -> is_derive (fun t => P t (dof / 2)) t (Rpower t (dof / 2 - 1) * exp (- t) / G)) ->
  (forall x, 0 < x -> is_derive (fun x => val (cdf_chi_square ROps gammaP x dof)) x (val (pdf_chi_square ROps gammaLn x dof))) /\
  (forall u v, 0 < u -> u <= v ->
     is_RInt (fun x => val (pdf_chi_square ROps gammaLn x dof)) u v
             (val (cdf_chi_square ROps gammaP v dof) - val (cdf_chi_square ROps gammaP u dof))).
Proof.
  exact (fun Hd HG HP HL HD => conj (fun x Hx => chi2_cdf_derive gammaLn gammaP P dof G x Hx Hd HG HP HL HD)
          (fun u v Hu Huv => chi2_is_RInt gammaLn gammaP P dof G u v Hu Huv Hd HG HP HL HD)).
Qed.
Print Assumptions C07_chi2_cdf_derivative_and_integral.

(** ** Chi-bar-square: mixtures sum_d w_d * chi2_d ([mixsum g ws d0] = sum_i ws[i] * g (d0 + i)) *)
Theorem C07_chibar_mixtures gammaLn gammaP x ws :
  (forall p : Z -> R, 0 < x -> (forall d, pdf_chi_square ROps gammaLn x (IZR d) = Ok (p d)) ->
     pdf_chi_bar_square ROps gammaLn x ws = Ok (mixsum p (tl ws) 1)) /\
  (forall c : Z -> R, 0 <= x -> (forall d, cdf_chi_square ROps gammaP x (IZR d) = Ok (c d)) ->
     cdf_chi_bar_square ROps gammaP x ws = Ok (Rmin 1 (mixsum c ws 0))) /\
  (x <= 0 -> pdf_chi_bar_square ROps gammaLn x ws = Ok 0) /\ (x < 0 -> cdf_chi_bar_square ROps gammaP x ws = Ok 0) /\
  (* the clamp *)
  (forall v, cdf_chi_bar_square ROps gammaP x ws = Ok v -> v <= 1).
Proof.
  exact (conj (fun p => chibar_pdf_mixture gammaLn x ws p) (conj (fun c => chibar_cdf_mixture gammaP x ws c)
          (conj (proj1 (chibar_outside gammaLn gammaP x ws)) (conj (proj2 (chibar_outside gammaLn gammaP x ws)) (chibar_cdf_le_1 gammaP x ws))))).
Qed.
Print Assumptions C07_chibar_mixtures.
(** linearity carries CDF' = density from the components to the mixture; the dof-0 step has weight w0 in the CDF
    and no density *)
Theorem C07_chibar_mixture_derivative (c p : Z -> R -> R) ws d x :
  ((forall k, is_derive (c k) x (p k x)) ->
     is_derive (fun y => mixsum (fun k => c k y) ws d) x (mixsum (fun k => p k x) ws d)) /\
  (forall (c0 : Z -> R) w0 r, c0 0%Z = 1 -> mixsum c0 (w0 :: r) 0 = w0 + mixsum c0 r 1).
Proof. exact (conj (mixsum_derive c p ws d x) mixsum_dof0). Qed.
Print Assumptions C07_chibar_mixture_derivative.

(** ** Quantile_Gauss = mu + sqrt2 sigma Inv_Erf(2p-1) *)
Theorem C07_quantile_gauss inv_erf p mu s :
  (* with the exact inverse error function the quantile inverts the CDF exactly *)
  (forall t, 0 < s -> inv_erf (2 * p - 1) = Ok t -> Rerf t = 2 * p - 1 ->
     exists q, quantile_gauss ROps inv_erf p mu s = Ok q /\ cdf_gauss ROps q mu s = p) /\
  (* |Inv_Erf q - erfinv q| <= delta  ==>  |Quantile - true quantile| <= sqrt2 sigma delta *)
  (forall e t delta, 0 <= s -> inv_erf (2 * p - 1) = Ok e -> Rabs (e - t) <= delta ->
     exists q, quantile_gauss ROps inv_erf p mu s = Ok q /\ Rabs (q - (mu + sqrt 2 * s * t)) <= sqrt 2 * s * delta) /\
  (inv_erf (2 * p - 1) = Exit -> quantile_gauss ROps inv_erf p mu s = Exit).
Proof.
  exact (conj (quantile_exact inv_erf p mu s) (conj (fun e t delta => quantile_error inv_erf p mu s e t delta)
          (quantile_exit inv_erf p mu s))).
Qed.
Print Assumptions C07_quantile_gauss.

(** ** KDE.  Full clause: "the kernel density estimate is a non-negative density integrating to one over its window".
    Proved part: the tabulation (sorting, pseudo-data indices 2i and 3i for i < N/3, 150 abscissae) never reads outside the
    sample and, for non-negative weights and positive bandwidth * weight sum, every tabulated ordinate is >= 0
    (with C01's no-overshoot the interpolant is then >= 0).
    Not proved: the normalisation (division by an approximate adaptive-Simpson integral of the Steffen interpolant). *)
Theorem C07_kde_table_partial data xmin xmax bw :
  List.Forall (fun d => 0 <= snd d) data ->
  let wsum := fold_left (fun acc d => acc + snd d) data 0 in
  0 < kde_bandwidth ROps data wsum bw * wsum ->
  perform_kde ROps PI data xmin xmax bw = Exit \/
  exists t, perform_kde ROps PI data xmin xmax bw = Ok t /\ length t = 150%nat /\ List.Forall (fun q => 0 <= snd q) t.
Proof. exact (perform_kde_ok data xmin xmax bw). Qed.
Print Assumptions C07_kde_table_partial.

(** the automatic (rule-of-thumb) bandwidth, bw = 0 or omitted: sqrt(V) (4/3/N)^(1/5) with the two-pass weighted variance
    V = sum w (x - mean)^2 / W.  For non-negative weights with positive sum V >= 0, the bandwidth is >= 0, and > 0 as soon as one
    positively weighted sample differs from the weighted mean; shifting every sample by a common offset c (a window far from the
    origin) leaves it unchanged; a non-zero manual bandwidth is used as given.
    ([wsum_of data 0] is the weight sum Perform_KDE computes, [shift c data] adds c to every sample value.) *)
Theorem C07_kde_automatic_bandwidth data :
  (List.Forall (fun d => 0 <= snd d) data -> 0 < wsum_of data 0 ->
     let wsum := wsum_of data 0 in
     0 <= wvar data wsum (wmean_sum data 0 / wsum) 0 /\
     0 <= kde_bandwidth ROps data wsum 0 /\
     (List.Exists (fun d => 0 < snd d /\ fst d <> wmean_sum data 0 / wsum) data -> 0 < kde_bandwidth ROps data wsum 0)) /\
  (forall c, wsum_of data 0 <> 0 ->
     wsum_of (shift c data) 0 = wsum_of data 0 /\
     kde_bandwidth ROps (shift c data) (wsum_of data 0) 0 = kde_bandwidth ROps data (wsum_of data 0) 0) /\
  (forall wsum bw, bw <> 0 -> kde_bandwidth ROps data wsum bw = bw).
Proof.
  exact (conj (kde_bandwidth_auto_nonneg data)
          (conj (fun c H => conj (wsum_of_shift c data 0) (kde_bandwidth_shift c data H))
                (fun wsum bw => kde_bandwidth_manual data wsum bw))).
Qed.
Print Assumptions C07_kde_automatic_bandwidth.

(** ** Fourth pass (C07_Proofs_Coh.v; non-vacuity examples at the end of that file) *)

(** Poisson, "the CDF is non-decreasing from 0 to 1" in the count: the partial sums of the masses are non-decreasing in n (any number of steps)
    and converge to 1 — the masses sum to one — for every mean *)
Theorem C07_poisson_cdf_from_0_to_1 mu :
  is_lim_seq (fun n => sum_f_R0 (poisv mu) n) 1 /\
  (0 <= mu -> forall n d, sum_f_R0 (poisv mu) n <= sum_f_R0 (poisv mu) (n + d)%nat).
Proof. exact (conj (pois_sum_lim mu) (fun H n d => pois_sum_mono_n mu n d H)). Qed.
Print Assumptions C07_poisson_cdf_from_0_to_1.

(** CDF_Poisson(., n) as a function of the mean: derivative = minus the mass at n, so it is non-increasing, strictly decreasing, 1-Lipschitz,
    and a mean with a given CDF value is unique (what Inv_CDF_Poisson looks for) *)
Theorem C07_poisson_cdf_in_the_mean (n : nat) :
  (forall mu, is_derive (fun m => sum_f_R0 (poisv m) n) mu (- poisv mu n)) /\
  (forall m1 m2, 0 <= m1 -> m1 <= m2 -> sum_f_R0 (poisv m2) n <= sum_f_R0 (poisv m1) n) /\
  (forall m1 m2, 0 <= m1 -> m1 < m2 -> sum_f_R0 (poisv m2) n < sum_f_R0 (poisv m1) n) /\
  (forall m1 m2, 0 <= m1 -> 0 <= m2 -> Rabs (sum_f_R0 (poisv m1) n - sum_f_R0 (poisv m2) n) <= Rabs (m1 - m2)) /\
  (forall m1 m2, 0 <= m1 -> 0 <= m2 -> sum_f_R0 (poisv m1) n = sum_f_R0 (poisv m2) n -> m1 = m2).
Proof.
  exact (conj (pois_sum_derive n) (conj (pois_sum_decr_mu n) (conj (pois_sum_strict n) (conj (pois_sum_lipschitz n) (pois_sum_inverse_unique n))))).
Qed.
Print Assumptions C07_poisson_cdf_in_the_mean.

(** "Inv_CDF_Poisson inverts its CDF to its stated accuracy", n > 0: if GammaQ(mu, n+1) returns Q(n+1, mu) = 1 - (1/n!) int_0^mu t^n e^-t dt and
    Inv_GammaQ(c, n+1) returns a mean within delta of the root mu*, then CDF_Poisson(Inv_CDF_Poisson(n, c), n) is within delta of c *)
Theorem C07_inv_cdf_poisson_accuracy gammaQ inv_gammaQ (n : nat) c m mustar delta :
  (0 < n)%nat -> (Z.of_nat n + 1 < 4294967296)%Z -> 0 <= c <= 1 ->
  (forall mu, 0 <= mu -> gammaQ mu (INR (S n)) = Ok (1 - RInt (fun t => exp (- t) * t ^ n / INR (fact n)) 0 mu)) ->
  inv_gammaQ c (INR (S n)) = Ok m -> 0 <= m ->
  0 <= mustar -> 1 - RInt (fun t => exp (- t) * t ^ n / INR (fact n)) 0 mustar = c -> Rabs (m - mustar) <= delta ->
  inv_cdf_poisson ROps inv_gammaQ (Z.of_nat n) c = Ok m /\
  exists q, cdf_poisson ROps gammaQ m (Z.of_nat n) = Ok q /\ q = sum_f_R0 (poisv m) n /\ Rabs (q - c) <= delta.
Proof. exact (inv_cdf_poisson_accuracy gammaQ inv_gammaQ n c m mustar delta). Qed.
Print Assumptions C07_inv_cdf_poisson_accuracy.

(** "Quantile_Gauss inverts its CDF to its stated accuracy" in probability units: CDF_Gauss is 1/(sqrt(2 pi) sigma)-Lipschitz (the density's peak), hence
    |Inv_Erf(2p-1) - erfinv(2p-1)| <= delta gives |CDF_Gauss(Quantile_Gauss(p)) - p| <= delta/sqrt(pi), whatever mu and sigma > 0 *)
Theorem C07_quantile_gauss_probability_accuracy mu s : 0 < s ->
  (forall x, pdf_gauss ROps PI x mu s <= 1 / sqrt (2 * PI) / s) /\
  (forall x y, Rabs (cdf_gauss ROps x mu s - cdf_gauss ROps y mu s) <= 1 / sqrt (2 * PI) / s * Rabs (x - y)) /\
  (forall inv_erf p e t delta, inv_erf (2 * p - 1) = Ok e -> Rerf t = 2 * p - 1 -> Rabs (e - t) <= delta ->
     exists q, quantile_gauss ROps inv_erf p mu s = Ok q /\ Rabs (cdf_gauss ROps q mu s - p) <= delta / sqrt PI).
Proof.
  exact (fun H => conj (gauss_pdf_le_peak mu s H) (conj (gauss_cdf_lipschitz mu s H)
          (fun inv_erf p e t delta => quantile_probability_error inv_erf p mu s e t delta H))).
Qed.
Print Assumptions C07_quantile_gauss_probability_accuracy.

(** Inv_Erf (Special_Functions.cpp), the function behind Quantile_Gauss, with Find_Root as a parameter: +-10 within 1e-16 of +-1, otherwise the
    process is terminated for |p| >= 1, otherwise Find_Root(erf(x) - p, -10, 10, 1e-4) *)
Theorem C07_inv_erf_guards find_root p :
  (Rabs (p - 1) < 1 / 10000000000000000 -> inv_erf_fn ROps find_root p = Ok 10) /\
  (Rabs (p + 1) < 1 / 10000000000000000 -> inv_erf_fn ROps find_root p = Ok (- 10)) /\
  (1 / 10000000000000000 <= Rabs (p - 1) -> 1 / 10000000000000000 <= Rabs (p + 1) -> 1 <= Rabs p -> inv_erf_fn ROps find_root p = Exit) /\
  (Rabs p < 1 -> 1 / 10000000000000000 <= Rabs (p - 1) -> 1 / 10000000000000000 <= Rabs (p + 1) ->
     inv_erf_fn ROps find_root p = find_root (fun x => Rerf x - p) (- 10) 10 (1 / 10000)).
Proof. exact (inv_erf_cases find_root p). Qed.
Print Assumptions C07_inv_erf_guards.

(** the bracket [-10, 10]: for |p| <= 1 - 2^-53 (every double strictly between -1 and 1) the function handed to Find_Root changes sign over it
    (1 - erf 10 <= e^-100 < 2^-53), and erf t = p has exactly one solution, strictly inside *)
Theorem C07_inv_erf_bracket p : Rabs p <= 1 - 1 / 9007199254740992 ->
  Rerf (- 10) - p < 0 < Rerf 10 - p /\
  exists t, - 10 < t < 10 /\ Rerf t = p /\ forall t', Rerf t' = p -> t' = t.
Proof. exact (inv_erf_bracket p). Qed.
Print Assumptions C07_inv_erf_bracket.

(** the accuracy chain Find_Root -> Inv_Erf -> Quantile_Gauss -> CDF_Gauss for the library's own Inv_Erf: if Find_Root meets its request
    (returns e within 1e-4 of the root t of erf(x) - (2p-1); property C02), Quantile_Gauss(p) is within sqrt2 sigma 1e-4 of the true quantile and
    CDF_Gauss(Quantile_Gauss(p)) within 1e-4/sqrt(pi) < 5.78e-5 of p, for 2^-54 <= p <= 1 - 2^-54 *)
Theorem C07_quantile_gauss_lib_accuracy find_root p mu s e t : 0 < s ->
  1 / 18014398509481984 <= p <= 1 - 1 / 18014398509481984 ->
  find_root (fun x => Rerf x - (2 * p - 1)) (- 10) 10 (1 / 10000) = Ok e ->
  Rerf t = 2 * p - 1 -> Rabs (e - t) <= 1 / 10000 ->
  inv_erf_fn ROps find_root (2 * p - 1) = Ok e /\
  exists q, quantile_gauss_lib ROps find_root p mu s = Ok q /\
            Rabs (q - (mu + sqrt 2 * s * t)) <= sqrt 2 * s * (1 / 10000) /\
            cdf_gauss ROps (mu + sqrt 2 * s * t) mu s = p /\
            Rabs (cdf_gauss ROps q mu s - p) <= 1 / 10000 / sqrt PI /\ 1 / 10000 / sqrt PI < 578 / 10000000.
Proof. exact (quantile_gauss_lib_accuracy find_root p mu s e t). Qed.
Print Assumptions C07_quantile_gauss_lib_accuracy.

(** p = 1 and p = 0 are answered mu +- 10 sqrt2 sigma, where the CDF is within e^-100/2 of 1 resp. 0; p outside [0,1] by 5e-17 or more terminates the process *)
Theorem C07_quantile_gauss_lib_ends find_root mu s : 0 < s ->
  quantile_gauss_lib ROps find_root 1 mu s = Ok (mu + sqrt 2 * s * 10) /\
  quantile_gauss_lib ROps find_root 0 mu s = Ok (mu + sqrt 2 * s * - 10) /\
  1 - exp (- 100) / 2 <= cdf_gauss ROps (mu + sqrt 2 * s * 10) mu s < 1 /\
  0 < cdf_gauss ROps (mu + sqrt 2 * s * - 10) mu s <= exp (- 100) / 2 /\
  (forall p, p <= - (1 / 10000000000000000) \/ 1 + 1 / 10000000000000000 <= p -> quantile_gauss_lib ROps find_root p mu s = Exit).
Proof. exact (quantile_gauss_lib_ends find_root mu s). Qed.
Print Assumptions C07_quantile_gauss_lib_ends.

(** PDF_Gauss_2D: positive, the product of the two one-dimensional normal densities, and its iterated integral over any rectangle
    [a,b] x [c,d] is the product of the two CDF differences *)
Theorem C07_gauss_2d mx my sx sy : 0 < sx -> 0 < sy ->
  (forall x y, 0 < pdf_gauss_2d ROps PI x y mx my sx sy /\
               pdf_gauss_2d ROps PI x y mx my sx sy = pdf_gauss ROps PI x mx sx * pdf_gauss ROps PI y my sy) /\
  (forall a b c d,
     (forall x, is_RInt (fun y => pdf_gauss_2d ROps PI x y mx my sx sy) c d
                  (pdf_gauss ROps PI x mx sx * (cdf_gauss ROps d my sy - cdf_gauss ROps c my sy))) /\
     is_RInt (fun x => RInt (fun y => pdf_gauss_2d ROps PI x y mx my sx sy) c d) a b
       ((cdf_gauss ROps b mx sx - cdf_gauss ROps a mx sx) * (cdf_gauss ROps d my sy - cdf_gauss ROps c my sy))).
Proof.
  exact (fun Hx Hy => conj (fun x y => conj (gauss2d_pos x y mx my sx sy Hx Hy)
                                            (gauss2d_factor x y mx my sx sy (Rgt_not_eq _ _ Hx) (Rgt_not_eq _ _ Hy)))
                           (fun a b c d => gauss2d_rectangle mx my sx sy a b c d Hx Hy)).
Qed.
Print Assumptions C07_gauss_2d.

(** chi-bar-square with non-negative weights (any number of them): the density is >= 0 whatever GammaLn returns; if the weights sum to at most 1 and
    the component CDFs the library computes lie in [0,1] and are non-decreasing on [0, inf), the clamp is inactive, the mixture CDF lies in [0,1]
    and is non-decreasing on the whole real line *)
Theorem C07_chibar_nonnegative_weights gammaLn gammaP ws : List.Forall (fun w => 0 <= w) ws ->
  (forall x v, pdf_chi_bar_square ROps gammaLn x ws = Ok v -> 0 <= v) /\
  (forall c : Z -> R -> R,
     (forall d x, 0 <= x -> cdf_chi_square ROps gammaP x (IZR d) = Ok (c d x)) ->
     (forall d x, 0 <= x -> 0 <= c d x <= 1) -> (forall d x y, 0 <= x -> x <= y -> c d x <= c d y) -> wtotal ws <= 1 ->
     (forall x, 0 <= x -> cdf_chi_bar_square ROps gammaP x ws = Ok (mixsum (fun k => c k x) ws 0)) /\
     (forall x, 0 <= val (cdf_chi_bar_square ROps gammaP x ws) <= 1) /\
     (forall x y, x <= y -> val (cdf_chi_bar_square ROps gammaP x ws) <= val (cdf_chi_bar_square ROps gammaP y ws))).
Proof.
  exact (fun Hw => conj (chibar_pdf_nonneg gammaLn ws Hw)
          (fun c Hc Hr Hm Ht => conj (chibar_cdf_val gammaP ws Hw c Hc Hr Ht)
             (conj (chibar_cdf_range gammaLn gammaP ws Hw c Hc Hr Ht) (chibar_cdf_monotone gammaLn gammaP ws Hw c Hc Hr Hm Ht)))).
Qed.
Print Assumptions C07_chibar_nonnegative_weights.

(** "the CDF difference over any interval equals the integral of the density" for the mixture, 0 < u <= v: carried from the components of
    non-zero weight (zero-padded weight vectors need nothing for the padding); the dof-0 step is constant on (0, inf) and has no density *)
Theorem C07_chibar_cdf_difference_is_integral gammaLn gammaP ws (c p : Z -> R -> R) u v :
  List.Forall (fun w => 0 <= w) ws -> wtotal ws <= 1 ->
  (forall d x, 0 <= x -> cdf_chi_square ROps gammaP x (IZR d) = Ok (c d x)) -> (forall d x, 0 <= x -> 0 <= c d x <= 1) ->
  (forall d x, 0 < x -> pdf_chi_square ROps gammaLn x (IZR d) = Ok (p d x)) ->
  0 < u -> u <= v ->
  (forall k, (1 <= k < Z.of_nat (length ws))%Z -> nth (Z.to_nat k) ws 0 <> 0 -> is_RInt (p k) u v (c k v - c k u)) ->
  is_RInt (fun x => val (pdf_chi_bar_square ROps gammaLn x ws)) u v
          (val (cdf_chi_bar_square ROps gammaP v ws) - val (cdf_chi_bar_square ROps gammaP u ws)).
Proof. exact (fun Hw Ht Hc Hr Hp => chibar_is_RInt gammaLn gammaP ws Hw c Hc Hr Ht p Hp u v). Qed.
Print Assumptions C07_chibar_cdf_difference_is_integral.

(** KDE.  Full clause: "the kernel density estimate is a non-negative density integrating to one over its window".
    Proved here: what Perform_KDE tabulates.  If the table is accepted, all 150 rows sample ONE function f(x) = sum_e w_e K((x - p_e)/h) / (h W) on the
    grid x_k = xmin + k (xmax - xmin)/149, where e runs over the sorted sample extended by the Cowling-Hall pseudo data ([kde_ext], independent of x);
    K((x-p)/h)/h is the normal density, so int_u^v f = sum_e w_e (Phi((v-p_e)/h) - Phi((u-p_e)/h)) / W, which for non-negative weights lies between 0 and
    W_ext / W (sample of any size).  NOT proved: that the returned interpolant integrates to one (the division by the adaptive-Simpson integral of the Steffen interpolant). *)
Theorem C07_kde_estimate_is_mixture_partial data xmin xmax bw t :
  perform_kde ROps PI data xmin xmax bw = Ok t ->
  let wsum := fold_left (fun acc d => acc + snd d) data 0 in
  let h := kde_bandwidth ROps data wsum bw in
  let sorted := sort_dp ROps data in
  let ext := kde_ext sorted sorted 0 (ntrunc ROps (IZR (Z.of_nat (length data)) / 3)) xmin in
  let f := fun x => ksum ext x h / (h * wsum) in
  (forall k, (k < 150)%nat -> nth k t dflt = (xmin + IZR (Z.of_nat k) * ((xmax - xmin) / 149), f (xmin + IZR (Z.of_nat k) * ((xmax - xmin) / 149)))) /\
  (0 < h -> wsum <> 0 -> forall u v, is_RInt f u v (kmass ext u v h / wsum)) /\
  (0 < h -> 0 < wsum -> List.Forall (fun d => 0 <= snd d) data ->
     forall u v, u <= v -> 0 <= kmass ext u v h / wsum <= wtotal (map snd ext) / wsum).
Proof. exact (perform_kde_mixture data xmin xmax bw t). Qed.
Print Assumptions C07_kde_estimate_is_mixture_partial.

(** ** Sixth pass (C07_Proofs_Int.v; non-vacuity examples at the end of that file) *)

(** binomial, "the CDF difference over any interval equals the sum of the mass over it", for the model functions themselves and intervals of any
    length: CDF_Binomial(k+d+1) - CDF_Binomial(k) = sum_{i=k+1..k+d+1} PMF_Binomial(i); hence non-decreasing over any number of steps, within [0,1],
    and exactly 1 from the number of trials on.  Exchanging success and failure: PMF(n, p, k) = PMF(n, 1-p, n-k), and
    CDF(n, p, x) + CDF(n, 1-p, n-x-1) = 1 for x < n *)
Theorem C07_binomial_cdf_difference_is_sum binom : binom_spec binom ->
  forall (n : nat) p (k d : nat), 0 <= p <= 1 -> (Z.of_nat n < 4294967296)%Z ->
  val (cdf_binomial ROps binom (Z.of_nat n) p (Z.of_nat (k + S d))) - val (cdf_binomial ROps binom (Z.of_nat n) p (Z.of_nat k))
    = sum_f_R0 (fun i => val (pmf_binomial ROps binom (Z.of_nat n) p (Z.of_nat (S k + i)))) d /\
  val (cdf_binomial ROps binom (Z.of_nat n) p (Z.of_nat k)) <= val (cdf_binomial ROps binom (Z.of_nat n) p (Z.of_nat (k + d))) /\
  0 <= val (cdf_binomial ROps binom (Z.of_nat n) p (Z.of_nat k)) <= 1 /\
  ((n <= k)%nat -> cdf_binomial ROps binom (Z.of_nat n) p (Z.of_nat k) = Ok 1) /\
  ((k <= n)%nat -> pmfv n p k = pmfv n (1 - p) (n - k)) /\
  ((k < n)%nat -> sum_f_R0 (pmfv n p) k + sum_f_R0 (pmfv n (1 - p)) (n - k - 1) = 1).
Proof.
  exact (fun Hb n p k d Hp Hn => conj (cdf_binomial_interval binom Hb n p k d Hp Hn) (conj (cdf_binomial_mono_steps binom Hb n p k d Hp Hn)
          (conj (cdf_binomial_range binom Hb n p k Hp Hn) (conj (cdf_binomial_top binom Hb n p k Hp Hn)
          (conj (pmfv_reflect n p k) (pmfv_cdf_reflect n p k)))))).
Qed.
Print Assumptions C07_binomial_cdf_difference_is_sum.

(** Poisson, the same clause for the model functions: if GammaQ(mu, a) returns Q(a, mu) at the integers a <= k+d+2,
    CDF_Poisson(mu, k+d+1) - CDF_Poisson(mu, k) = sum_{i=k+1..k+d+1} PMF_Poisson(mu, i) (mean 0 included), and the CDF does not decrease *)
Theorem C07_poisson_cdf_difference_is_sum gammaQ mu (k d : nat) : 0 <= mu -> (Z.of_nat (k + S d) + 1 < 4294967296)%Z ->
  (forall n : nat, (n <= k + S d)%nat -> gammaQ mu (INR (S n)) = Ok (1 - RInt (fun t => exp (- t) * t ^ n / INR (fact n)) 0 mu)) ->
  val (cdf_poisson ROps gammaQ mu (Z.of_nat (k + S d))) - val (cdf_poisson ROps gammaQ mu (Z.of_nat k))
    = sum_f_R0 (fun i => val (pmf_poisson ROps mu (Z.of_nat (S k + i)))) d /\
  val (cdf_poisson ROps gammaQ mu (Z.of_nat k)) <= val (cdf_poisson ROps gammaQ mu (Z.of_nat (k + S d))).
Proof. exact (cdf_poisson_interval gammaQ mu k d). Qed.
Print Assumptions C07_poisson_cdf_difference_is_sum.

(** the binned likelihoods do not depend on the order of the bins: any permutation of the (prediction, observation, background) triples,
    histograms of any length *)
Theorem C07_likelihood_poisson_binned_any_bin_order p o b p' o' b' : sizes_ok p o b -> sizes_ok p' o' b' ->
  Permutation (bins p o b) (bins p' o' b') ->
  log_likelihood_poisson_binned ROps p o b = log_likelihood_poisson_binned ROps p' o' b' /\
  likelihood_poisson_binned ROps p o b = likelihood_poisson_binned ROps p' o' b'.
Proof. exact (binned_permutation p o b p' o' b'). Qed.
Print Assumptions C07_likelihood_poisson_binned_any_bin_order.

(** chi-square, "the CDF is non-decreasing from 0 to 1" on the whole real line (dof >= 1e-6), from what defines the regularised lower incomplete
    gamma function P(., dof/2) that GammaP is to return: its derivative on (0, inf), P(0) = 0, values in [0,1] (and P -> 1 for the limit);
    the monotonicity on (0, inf) comes from CDF(y) - CDF(x) = RInt density x y >= 0, not from a hypothesis *)
Theorem C07_chi2_cdf_monotone_from_0_to_1 gammaLn gammaP (P : R -> R -> R) dof G :
  1 / 1000000 <= dof -> 0 < G -> (forall t a, gammaP t a = Ok (P t a)) -> gammaLn (dof / 2) = Ok (ln G) ->
  (forall t, 0 < t -> is_derive (fun t => P t (dof / 2)) t (Rpower t (dof / 2 - 1) * exp (- t) / G)) ->
  P 0 (dof / 2) = 0 -> (forall t, 0 <= t -> 0 <= P t (dof / 2) <= 1) ->
  (forall x y, x <= y -> val (cdf_chi_square ROps gammaP x dof) <= val (cdf_chi_square ROps gammaP y dof)) /\
  (forall x, 0 <= val (cdf_chi_square ROps gammaP x dof) <= 1) /\
  (forall x, x <= 0 -> val (cdf_chi_square ROps gammaP x dof) = 0) /\
  (is_lim (fun t => P t (dof / 2)) p_infty 1 -> is_lim (fun x => val (cdf_chi_square ROps gammaP x dof)) p_infty 1).
Proof.
  exact (fun Hd HG HP HL HD H0 HR =>
    conj (chi2_cdf_monotone gammaLn gammaP P dof G Hd HG HP HL HD H0 HR)
   (conj (chi2_cdf_range gammaP P dof Hd HP HR)
   (conj (chi2_cdf_low gammaP P dof Hd HP H0) (chi2_cdf_limit gammaP P dof Hd HP)))).
Qed.
Print Assumptions C07_chi2_cdf_monotone_from_0_to_1.

(** KDE: when Perform_KDE's table is accepted.  For every sample (any size, any weights, any bandwidth) the tabulation reads inside the sample and
    the table of 150 rows is accepted by the Interpolation constructor exactly for xMin < xMax; xMax <= xMin terminates the process.  This removes
    the alternative "Exit" of C07_kde_table_partial.  The sort it uses returns an ascending permutation of the sample.
    A common offset c of all samples and of the window (a window far from the origin) moves the 150 abscissae by c and leaves every tabulated
    ordinate unchanged — sorting, pseudo data, automatic or manual bandwidth included (weight sum <> 0).
    Samples without spread (all values equal; one sample, or any number of them) get the automatic bandwidth 0, so the hypothesis 0 < h of
    C07_kde_estimate_is_mixture_partial fails for them — in the library the division by bw gives NaN (known finding K-C07-2). *)
Theorem C07_kde_table_accepted_and_offset data xmin xmax bw :
  (xmin < xmax -> exists t, perform_kde ROps PI data xmin xmax bw = Ok t /\ length t = 150%nat) /\
  (xmax <= xmin -> perform_kde ROps PI data xmin xmax bw = Exit) /\
  Permutation (sort_dp ROps data) data /\ StronglySorted le_value (sort_dp ROps data) /\
  (forall c t t', wsum_of data 0 <> 0 ->
     perform_kde ROps PI data xmin xmax bw = Ok t -> perform_kde ROps PI (shift c data) (xmin + c) (xmax + c) bw = Ok t' ->
     forall k, (k < 150)%nat -> nth k t' dflt = (fst (nth k t dflt) + c, snd (nth k t dflt))) /\
  (forall v, List.Forall (fun d => fst d = v) data -> wsum_of data 0 <> 0 -> kde_bandwidth ROps data (wsum_of data 0) 0 = 0).
Proof.
  exact (conj (proj1 (perform_kde_accepts data xmin xmax bw)) (conj (proj2 (perform_kde_accepts data xmin xmax bw))
          (conj (sort_dp_perm data) (conj (sort_dp_sorted data)
          (conj (fun c t t' => perform_kde_shift c data xmin xmax bw t t') (fun v => kde_bandwidth_no_spread v data)))))).
Qed.
Print Assumptions C07_kde_table_accepted_and_offset.

(** ** T-tie: the definitions regenerated from src/Statistics.cpp on every run are the model the theorems above are about.
    [Gen_C07_Formulas.v] is written by tools/cxx2gallina.py from clang's AST of the current source before this file is
    rebuilt.  For every arithmetic satisfying the literal laws ([LitLaws]: a literal is the quotient num/den it spells,
    0 and 1 are the ring constants) each regenerated function is the hand-written model function, for all arguments and
    whatever the functions of Special_Functions.cpp it calls return.  The reals satisfy the laws ([ROps_LitLaws], part of
    the statement: non-vacuity), so every theorem of this file about [pdf_uniform ROps], [cdf_gauss ROps], ... is a theorem
    about the term generated from the code.  A changed formula, comparison, guard, literal or operand order in one of the
    fourteen C++ functions breaks this theorem before any case is run. *)
Theorem C07_generated_closed_forms_are_model :
  LitLaws ROps /\
  forall (T : Type) (Ops : NumOps T), LitLaws Ops ->
  forall (pi_c : T) (gammaQ gammaP inv_gammaQ : T -> T -> res T) (gammaLn inv_erf : T -> res T) (binom : Z -> Z -> res T),
  let G := fun (X : Type) (g : T -> (T -> T -> res T) -> (T -> T -> res T) -> (T -> T -> res T) -> (T -> res T) -> (T -> res T) -> (Z -> Z -> res T) -> X) =>
             g pi_c gammaQ gammaP inv_gammaQ gammaLn inv_erf binom in
  (forall x a b, G _ (g_PDF_Uniform Ops) x a b = pdf_uniform Ops x a b) /\
  (forall x a b, G _ (g_CDF_Uniform Ops) x a b = cdf_uniform Ops x a b) /\
  (forall x mu sigma, G _ (g_PDF_Gauss Ops) x mu sigma = pdf_gauss Ops pi_c x mu sigma) /\
  (forall x mu sigma, G _ (g_CDF_Gauss Ops) x mu sigma = cdf_gauss Ops x mu sigma) /\
  (forall p mu sigma, G _ (g_Quantile_Gauss Ops) p mu sigma = quantile_gauss Ops inv_erf p mu sigma) /\
  (forall trials p x, G _ (g_PMF_Binomial Ops) trials p x = pmf_binomial Ops binom trials p x) /\
  (forall mu n, (0 <= n)%Z -> G _ (g_CDF_Poisson Ops) mu n = cdf_poisson Ops gammaQ mu n) /\
  (forall n c, G _ (g_Inv_CDF_Poisson Ops) n c = inv_cdf_poisson Ops inv_gammaQ n c) /\
  (forall x dof, G _ (g_PDF_Chi_Square Ops) x dof = pdf_chi_square Ops gammaLn x dof) /\
  (forall x dof, G _ (g_CDF_Chi_Square Ops) x dof = cdf_chi_square Ops gammaP x dof) /\
  (forall x mean, G _ (g_PDF_Exponential Ops) x mean = pdf_exponential Ops x mean) /\
  (forall x mean, G _ (g_CDF_Exponential Ops) x mean = cdf_exponential Ops x mean) /\
  (forall x a, G _ (g_PDF_Maxwell_Boltzmann Ops) x a = pdf_maxwell_boltzmann Ops pi_c x a) /\
  (forall x a, G _ (g_CDF_Maxwell_Boltzmann Ops) x a = cdf_maxwell_boltzmann Ops pi_c x a).
Proof.
  exact (conj ROps_LitLaws (fun T Ops LL pi_c gQ gP igQ gL ie bn =>
    conj (tie_PDF_Uniform Ops LL pi_c gQ gP igQ gL ie bn) (conj (tie_CDF_Uniform Ops LL pi_c gQ gP igQ gL ie bn)
    (conj (tie_PDF_Gauss Ops LL pi_c gQ gP igQ gL ie bn) (conj (tie_CDF_Gauss Ops LL pi_c gQ gP igQ gL ie bn)
    (conj (tie_Quantile_Gauss Ops LL pi_c gQ gP igQ gL ie bn) (conj (tie_PMF_Binomial Ops LL pi_c gQ gP igQ gL ie bn)
    (conj (tie_CDF_Poisson Ops LL pi_c gQ gP igQ gL ie bn) (conj (tie_Inv_CDF_Poisson Ops LL pi_c gQ gP igQ gL ie bn)
    (conj (tie_PDF_Chi_Square Ops LL pi_c gQ gP igQ gL ie bn) (conj (tie_CDF_Chi_Square Ops LL pi_c gQ gP igQ gL ie bn)
    (conj (tie_PDF_Exponential Ops LL pi_c gQ gP igQ gL ie bn) (conj (tie_CDF_Exponential Ops LL pi_c gQ gP igQ gL ie bn)
    (conj (tie_PDF_Maxwell_Boltzmann Ops LL pi_c gQ gP igQ gL ie bn) (tie_CDF_Maxwell_Boltzmann Ops LL pi_c gQ gP igQ gL ie bn))))))))))))))).
Qed.
Print Assumptions C07_generated_closed_forms_are_model.

(** ** T-tie, second part (seventh pass): the functions with loops, std::vector and std::pair parameters.
    tools/cxx2gallina_C07.py translates the counted loops  for(unsigned i = A; i <= B; i++) acc OP= e;  of CDF_Binomial, PMF_Poisson,
    PDF/CDF_Chi_Bar_Square, Log_Likelihood_Poisson and Log_Likelihood_Poisson_Binned into the fold combinators [g_for] / [g_forp] of
    Gen_C07_Formulas.v (fuel = trip count computed from the bounds in the source, vector elements read by index as in the source).
    Each generated fold is the hand model's Fixpoint / fold over the zipped bins, proved by induction for every trip count and every
    vector length, under the same literal laws.  PDF_Gauss_2D: the two std::pair reference parameters are Gallina pairs.
    So the theorems above about [cdf_binomial], [pmf_poisson], the chi-bar mixtures and the four likelihoods are theorems about the
    terms generated from the code; a changed bound, start index, accumulation, guard or index expression breaks this theorem. *)
Theorem C07_generated_loops_are_model :
  forall (T : Type) (Ops : NumOps T), LitLaws Ops ->
  forall (pi_c : T) (gammaQ gammaP inv_gammaQ : T -> T -> res T) (gammaLn inv_erf : T -> res T) (binom : Z -> Z -> res T),
  let G := fun (X : Type) (g : T -> (T -> T -> res T) -> (T -> T -> res T) -> (T -> T -> res T) -> (T -> res T) -> (T -> res T) -> (Z -> Z -> res T) -> X) =>
             g pi_c gammaQ gammaP inv_gammaQ gammaLn inv_erf binom in
  (forall x y mean sigma, G _ (g_PDF_Gauss_2D Ops) x y mean sigma = pdf_gauss_2d Ops pi_c x y (fst mean) (snd mean) (fst sigma) (snd sigma)) /\
  (forall trials p x, G _ (g_CDF_Binomial Ops) trials p x = cdf_binomial Ops binom trials p x) /\
  (forall mu k, (0 <= k)%Z -> G _ (g_PMF_Poisson Ops) mu k = pmf_poisson Ops mu k) /\
  (forall x ws, G _ (g_PDF_Chi_Bar_Square Ops) x ws = pdf_chi_bar_square Ops gammaLn x ws) /\
  (forall x ws, G _ (g_CDF_Chi_Bar_Square Ops) x ws = cdf_chi_bar_square Ops gammaP x ws) /\
  (forall s n b, G _ (g_Log_Likelihood_Poisson Ops) s n b = log_likelihood_poisson Ops s n b) /\
  (forall s n b, G _ (g_Likelihood_Poisson Ops) s n b = likelihood_poisson Ops s n b) /\
  (forall ps os bs, G _ (g_Log_Likelihood_Poisson_Binned Ops) ps os bs = log_likelihood_poisson_binned Ops ps os bs) /\
  (forall ps os bs, G _ (g_Likelihood_Poisson_Binned Ops) ps os bs = likelihood_poisson_binned Ops ps os bs).
Proof.
  exact (fun T Ops LL pi_c gQ gP igQ gL ie bn =>
    conj (tie_PDF_Gauss_2D Ops LL pi_c gQ gP igQ gL ie bn) (conj (tie_CDF_Binomial Ops LL pi_c gQ gP igQ gL ie bn)
    (conj (tie_PMF_Poisson Ops LL pi_c gQ gP igQ gL ie bn) (conj (tie_PDF_Chi_Bar_Square Ops LL pi_c gQ gP igQ gL ie bn)
    (conj (tie_CDF_Chi_Bar_Square Ops LL pi_c gQ gP igQ gL ie bn) (conj (tie_Log_Likelihood_Poisson Ops LL pi_c gQ gP igQ gL ie bn)
    (conj (tie_Likelihood_Poisson Ops LL pi_c gQ gP igQ gL ie bn) (conj (tie_Log_Likelihood_Poisson_Binned Ops LL pi_c gQ gP igQ gL ie bn)
    (tie_Likelihood_Poisson_Binned Ops LL pi_c gQ gP igQ gL ie bn))))))))).
Qed.
Print Assumptions C07_generated_loops_are_model.

(** The interval clause "the CDF difference over any interval equals the sum of the mass over it", stated directly about the terms
    generated from the C++ of CDF_Binomial and PMF_Binomial (no hand model in the statement), intervals of any length, with
    monotonicity over any number of steps and the range [0,1]; given that Binomial_Coefficient returns C(n,k). *)
Theorem C07_generated_binomial_cdf_difference_is_sum pi_c gQ gP igQ gL ie binom : binom_spec binom ->
  forall (n : nat) p (k d : nat), 0 <= p <= 1 -> (Z.of_nat n < 4294967296)%Z ->
  let CDF := fun x => val (g_CDF_Binomial ROps pi_c gQ gP igQ gL ie binom (Z.of_nat n) p (Z.of_nat x)) in
  let PMF := fun x => val (g_PMF_Binomial ROps pi_c gQ gP igQ gL ie binom (Z.of_nat n) p (Z.of_nat x)) in
  CDF (k + S d)%nat - CDF k = sum_f_R0 (fun i => PMF (S k + i)%nat) d /\ CDF k <= CDF (k + d)%nat /\ 0 <= CDF k <= 1.
Proof. exact (gen_binomial_interval pi_c gQ gP igQ gL ie binom). Qed.
Print Assumptions C07_generated_binomial_cdf_difference_is_sum.

(* non-vacuity: the exact binomial coefficient satisfies binom_spec, n = 3, p = 1/2 *)
Example C07_generated_binomial_ex : exists binom, binom_spec binom /\ 0 <= 1/2 <= 1 /\ (Z.of_nat 3 < 4294967296)%Z.
Proof. exact gen_binomial_ex. Qed.
