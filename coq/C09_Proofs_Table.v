(** * C09: from the constructor's checks to the premise [increasing] of the history theorems.

    The 1-D constructor converts the units first (x_values[i] *= x_dim when x_dim > 0) and tests
    x_values[i] <= x_values[i-1]  on the CONVERTED abscissae — the table the searches run on (repair F45 of the
    former finding K-C09-2; before it the test ran on the abscissae as given and a rounding multiplication could
    afterwards map neighbouring abscissae to one).  Hence every object a 1-D constructor returns holds a strictly
    increasing table, from the order laws alone: whatever the unit arguments are and whatever the multiplication
    does (doubles, rounding included); a unit argument that collapses two abscissae ends the process in the
    constructor.  The 2-D constructor scales first as well and builds its helper objects from the scaled
    abscissae with the default unit arguments -1.0; the only fact about numbers its theorems use is that this
    default is not > 0 ([dflt_inactive]: the helper constructors do not scale a second time).
    The witness of the old defect is kept at the end as a lemma about the OLD order ([construct1_old_order]),
    together with the fact that the repaired constructor exits on it. *)
From Coq Require Import ZArith List Bool Lia Reals Lra.
From LP Require Import Num NumR OrdLaws C09_Model C09_Proofs C09_Proofs_Ctor.
Import ListNotations.
Local Open Scope Z_scope.

Section Table.
Context {T : Type} (Ops : NumOps T).

Lemma si_adjacent : forall (l : list T) (n : nat) (d : T), strictly_increasing Ops l = true ->
  (S n < length l)%nat -> nleb Ops (nth (S n) l d) (nth n l d) = false.
Proof.
  induction l as [|a r IH]; intros n d H Hn; [cbn in Hn; lia|].
  destruct r as [|b r']; [cbn in Hn; lia|].
  cbn [strictly_increasing] in H. destruct (nleb Ops b a) eqn:E; [discriminate|].
  destruct n as [|n]; [exact E|].
  change (nth (S (S n)) (a :: b :: r') d) with (nth (S n) (b :: r') d).
  change (nth (S n) (a :: b :: r') d) with (nth n (b :: r') d).
  apply IH; auto. cbn in Hn |- *. lia.
Qed.

Lemma si_map (f : T -> T) : forall l,
  (forall a b, In a l -> In b l -> nleb Ops b a = false -> nleb Ops (f b) (f a) = false) ->
  strictly_increasing Ops l = true -> strictly_increasing Ops (map f l) = true.
Proof.
  induction l as [|a r IH]; intros Hf H; [reflexivity|].
  destruct r as [|b r']; [reflexivity|].
  cbn [strictly_increasing] in H. destruct (nleb Ops b a) eqn:E; [discriminate|].
  change (map f (a :: b :: r')) with (f a :: map f (b :: r')).
  change (map f (b :: r')) with (f b :: map f r') at 1.
  cbn [strictly_increasing].
  rewrite (Hf a b) by (cbn; auto).
  change (f b :: map f r') with (map f (b :: r')).
  apply IH; auto. intros x y Hx Hy. apply Hf; right; auto.
Qed.

Context (OL : OrdLaws Ops).

Lemma nleb_false_lt a b : nleb Ops b a = false <-> lt Ops a b.
Proof.
  rewrite (ol_le _ OL). unfold lt. destruct (nltb Ops a b); cbn; split; congruence.
Qed.

Lemma si_increasing (l : list T) :
  strictly_increasing Ops l = true -> increasing Ops (Z.of_nat (length l)) (table_of Ops l).
Proof.
  intros H. apply (increasing_of_adjacent Ops OL). intros i Hi. unfold table_of, nth0.
  replace (Z.to_nat i) with (S (Z.to_nat (i - 1))) by lia.
  apply si_adjacent; auto. lia.
Qed.

(** every object the 1-D constructor returns: the check ran on the table the object holds *)
Theorem ctor1_table (xs fs : list T) (x_dim f_dim : T) (o : object1 T) :
  construct1 Ops xs fs x_dim f_dim = Ok o ->
  increasing Ops (Z.of_nat (length (o_xs o))) (table_of Ops (o_xs o)) /\
  2 <= Z.of_nat (length (o_xs o)) /\ length (o_xs o) = length xs.
Proof.
  intros H. apply construct1_spec in H. destruct H as (_ & E & _ & _ & _ & H2 & Hsi).
  split; [apply si_increasing; exact Hsi|].
  rewrite E, scale_units_length. split; [lia|reflexivity].
Qed.

Theorem ctor1_rows_table (data : list (list T)) (x_dim f_dim : T) (o : object1 T) :
  construct1_rows Ops data x_dim f_dim = Ok o ->
  increasing Ops (Z.of_nat (length (o_xs o))) (table_of Ops (o_xs o)) /\ 2 <= Z.of_nat (length (o_xs o)).
Proof.
  unfold construct1_rows. destruct (split_rows2 data) as [xf| | |]; cbn [rbind]; try discriminate.
  intros H. apply ctor1_table in H. tauto.
Qed.

Theorem ctor1_default_table (o : object1 T) :
  construct1_default Ops = Ok o ->
  increasing Ops (Z.of_nat (length (o_xs o))) (table_of Ops (o_xs o)) /\ 2 <= Z.of_nat (length (o_xs o)).
Proof. unfold construct1_default. intros H. apply ctor1_table in H. tauto. Qed.

(** the history theorem for a CONSTRUCTED object: no premise on the table left *)
Theorem constructed_history_free (xs fs : list T) (x_dim f_dim : T) (o : object1 T) :
  construct1 Ops xs fs x_dim f_dim = Ok o ->
  Z.of_nat (length xs) <= 1073741824 ->
  let N := Z.of_nat (length (o_xs o)) in
  let xv := table_of Ops (o_xs o) in
  forall (E : evals T) (h : list (op T)) (q : op T),
    prefactor (runE Ops N xv E h (o_state o)) = prefactor_after Ops h (n1 Ops) /\
    snd (stepE Ops N xv E (runE Ops N xv E h (o_state o)) q) =
    snd (stepE Ops N xv E (fresh (prefactor_after Ops h (n1 Ops))) q) /\
    snd (stepE Ops N xv E (runE Ops N xv E h (o_state o)) q) <> @OOOB T /\
    snd (stepE Ops N xv E (runE Ops N xv E h (o_state o)) q) <> @OFuel T.
Proof.
  intros H Hlen N xv E h q.
  destruct (ctor1_table _ _ _ _ _ H) as (Hinc & H2 & Hl).
  assert (Hn : size_ok N) by (unfold size_ok, N; rewrite Hl; lia).
  destruct (units_not_in_prefactor Ops OL xs fs x_dim f_dim o H Hinc Hn E h q) as (A & B).
  split; [exact A|]. split; [exact B|].
  apply construct1_spec in H. destruct H as (-> & _).
  exact (no_oob_no_fuel Ops OL N xv Hinc Hn _ _ _ _ _ _ q
           (inv_run Ops OL N xv Hinc Hn _ _ _ _ _ h (init Ops) (inv_fresh N Hn (n1 Ops)))).
Qed.

(** the default unit argument -1.0 is not > 0.0 (arithmetic of [Ops] is uninterpreted, so this fact about the
    literal is a premise of the 2-D theorems; it holds for doubles, reals and integers: [dflt_inactive_examples]) *)
Definition dflt_inactive : Prop := ngtb Ops (dflt_dim Ops) (n0 Ops) = false.

(** Interpolation_2D: the helper objects are built from the SCALED abscissae, so the check covers them *)
Theorem ctor2_tables (xs ys : list T) (f : list (list T)) (x_dim y_dim f_dim : T) (o : object2 T) :
  dflt_inactive ->
  construct2 Ops xs ys f x_dim y_dim f_dim = Ok o ->
  increasing Ops (Z.of_nat (length (o2_xs o))) (table_of Ops (o2_xs o)) /\
  increasing Ops (Z.of_nat (length (o2_ys o))) (table_of Ops (o2_ys o)) /\
  2 <= Z.of_nat (length (o2_xs o)) /\ 2 <= Z.of_nat (length (o2_ys o)) /\
  length (o2_xs o) = length xs /\ length (o2_ys o) = length ys.
Proof.
  intros Hd. unfold construct2.
  destruct (negb _); [discriminate|].
  destruct (construct1 Ops (scale_units Ops x_dim xs) _ _ _) as [xi| | |] eqn:Ex; cbn [rbind]; try discriminate.
  destruct (construct1 Ops (scale_units Ops y_dim ys) _ _ _) as [yi| | |] eqn:Ey; cbn [rbind]; try discriminate.
  intros H. injection H as <-. cbn [o2_xs o2_ys].
  apply construct1_spec in Ex. apply construct1_spec in Ey.
  destruct Ex as (_ & Exs & _ & _ & _ & Hx2 & Hxs). destruct Ey as (_ & Eys & _ & _ & _ & Hy2 & Hys).
  rewrite Exs, (scale_units_inactive Ops _ _ Hd) in Hxs. rewrite Eys, (scale_units_inactive Ops _ _ Hd) in Hys.
  split; [apply si_increasing; exact Hxs|]. split; [apply si_increasing; exact Hys|].
  rewrite !scale_units_length in *. repeat split; lia.
Qed.

Theorem constructed2_history_free (xs ys : list T) (f : list (list T)) (x_dim y_dim f_dim : T) (o : object2 T) :
  dflt_inactive ->
  construct2 Ops xs ys f x_dim y_dim f_dim = Ok o ->
  Z.of_nat (length xs) <= 1073741824 -> Z.of_nat (length ys) <= 1073741824 ->
  let Nx := Z.of_nat (length (o2_xs o)) in let xv := table_of Ops (o2_xs o) in
  let Ny := Z.of_nat (length (o2_ys o)) in let yv := table_of Ops (o2_ys o) in
  forall (fv : Z -> Z -> T) (h : list (op2 T)) (q : op2 T),
    snd (step2 Ops Nx xv Ny yv fv (run2 Ops Nx xv Ny yv fv h (o2_state o)) q) =
    snd (step2 Ops Nx xv Ny yv fv (mkState2 (init Ops) (init Ops) (prefactor2_after Ops h (n1 Ops))) q) /\
    snd (step2 Ops Nx xv Ny yv fv (run2 Ops Nx xv Ny yv fv h (o2_state o)) q) <> @O2OOB T /\
    snd (step2 Ops Nx xv Ny yv fv (run2 Ops Nx xv Ny yv fv h (o2_state o)) q) <> @O2Fuel T.
Proof.
  intros Hd H Hlx Hly Nx xv Ny yv fv h q.
  destruct (ctor2_tables _ _ _ _ _ _ _ Hd H) as (Hix & Hiy & Hx2 & Hy2 & Elx & Ely).
  assert (Hnx : size_ok Nx) by (unfold size_ok, Nx; rewrite Elx; lia).
  assert (Hny : size_ok Ny) by (unfold size_ok, Ny; rewrite Ely; lia).
  apply construct2_spec in H. destruct H as (-> & _).
  split; [exact (history_free2 Ops OL Nx xv Ny yv fv Hix Hiy Hnx Hny h q)|].
  exact (no_oob_no_fuel2 Ops OL Nx xv Ny yv fv Hix Hiy Hnx Hny h q).
Qed.

Theorem ctor2_rows_tables (data : list (list T)) (x_dim y_dim f_dim : T) (o : object2 T) :
  dflt_inactive ->
  construct2_rows Ops data x_dim y_dim f_dim = Ok o ->
  increasing Ops (Z.of_nat (length (o2_xs o))) (table_of Ops (o2_xs o)) /\
  increasing Ops (Z.of_nat (length (o2_ys o))) (table_of Ops (o2_ys o)) /\
  2 <= Z.of_nat (length (o2_xs o)) /\ 2 <= Z.of_nat (length (o2_ys o)).
Proof.
  intros Hd. unfold construct2_rows. destruct (cols3 data) as [xy| | |]; cbn [rbind]; try discriminate.
  destruct (negb _); [discriminate|].
  destruct (fill_table _ _ _ _) as [g| | |]; cbn [rbind]; try discriminate.
  intros H. apply (ctor2_tables _ _ _ _ _ _ _ Hd) in H. tauto.
Qed.
End Table.

(** ** The old defect (K-C09-2, repaired: F45), kept as a lemma about the OLD order of the constructor.
    The instance: integers, the product rounded down to a multiple of 1/4 of the unit (a*b/4): the order laws hold, the
    multiplication by a positive factor is monotone — as for doubles — but not strictly so. *)
Definition RndOps : NumOps Z :=
  mkNumOps Z 0 1 Z.add Z.sub (fun a b => a * b / 4) Z.div Z.opp Z.abs Z.sqrt Z.ltb Z.leb Z.eqb (fun z => z) (fun _ => false)
           (fun z => z) (fun z => z) (fun z => z) (fun z => z) (fun z => z) (fun z => z) (fun z => z) (fun z => z)
           (fun x _ => x) (fun x _ => x) (fun a _ _ _ => a) (fun z => z).

Lemma RndOps_OrdLaws : OrdLaws RndOps.
Proof.
  constructor; cbn; intros.
  - apply Z.ltb_irrefl.
  - apply Z.ltb_lt in H, H0. apply Z.ltb_lt. lia.
  - destruct (Z.lt_trichotomy x y) as [H|[H|H]].
    + left. now apply Z.ltb_lt.
    + right; left. now apply Z.eqb_eq.
    + right; right. now apply Z.ltb_lt.
  - destruct (Z.leb_spec x y), (Z.ltb_spec y x); cbn; try reflexivity; lia.
  - rewrite Z.eqb_eq, !Z.ltb_ge. lia.
  - apply Z.eqb_eq in H. now subst.
  - apply Z.eqb_eq in H. now subst.
Qed.

Lemma RndOps_mul_monotone a b d : a <= b -> 0 <= d -> nmul RndOps a d <= nmul RndOps b d.
Proof. intros Hab Hd. cbn. apply Z.div_le_mono; [lia|]. apply Z.mul_le_mono_nonneg_r; lia. Qed.

(** the constructor as it was BEFORE the repair: strict-increase test on the abscissae as given, unit conversion after it.
    NOT the model of the code; used by [old_order_history_dependent] only. *)
Definition construct1_old_order {T} (Ops : NumOps T) (xs fs : list T) (x_dim f_dim : T) : res (object1 T) :=
  if negb (Nat.eqb (length xs) (length fs)) then Exit
  else if Nat.ltb (length xs) 2 then Exit
  else if negb (strictly_increasing Ops xs) then Exit
  else
    let xs' := scale_units Ops x_dim xs in
    let fs' := scale_units Ops f_dim fs in
    Ok (mkObject1 xs' fs' (nth0 Ops xs' 0, nth0 Ops xs' (length xs - 1)) (init Ops)).

(** the raw table 0,4,5,8 passed the old check; the unit argument 2 turns it into 0,2,2,4; after Locate(1) (segment 0,
    the next call hunts) Locate(2) returns 1, on a fresh object (bisection) it returns 2. *)
Definition cx_xs : list Z := [0; 4; 5; 8].
Definition cx_fs : list Z := [0; 1; 2; 3].
Definition cx_obj : object1 Z := mkObject1 [0; 2; 2; 4] [0; 1; 2; 3] (0, 4) (mkState 0 false 1).
Lemma cx_constructed_old_order : construct1_old_order RndOps cx_xs cx_fs 2 (-1) = Ok cx_obj.
Proof. reflexivity. Qed.

(** the repaired constructor ends the process on this table *)
Lemma cx_exits : construct1 RndOps cx_xs cx_fs 2 (-1) = Exit.
Proof. reflexivity. Qed.

Lemma old_order_history_dependent :
  exists (T : Type) (Ops : NumOps T),
    OrdLaws Ops /\
    (forall a b d, le Ops a b -> le Ops (n0 Ops) d -> le Ops (nmul Ops a d) (nmul Ops b d)) /\
    exists (xs fs : list T) (x_dim f_dim : T) (o : object1 T) (E : evals T) (h : list (op T)) (x : T) (j j' : Z),
      construct1_old_order Ops xs fs x_dim f_dim = Ok o /\
      construct1 Ops xs fs x_dim f_dim = Exit /\
      let N := Z.of_nat (length (o_xs o)) in
      let xv := table_of Ops (o_xs o) in
      size_ok N /\
      snd (stepE Ops N xv E (runE Ops N xv E h (o_state o)) (OpLocate x)) = OIndex j /\
      snd (stepE Ops N xv E (fresh (prefactor_after Ops h (n1 Ops))) (OpLocate x)) = OIndex j' /\
      j <> j'.
Proof.
  exists Z, RndOps. split; [exact RndOps_OrdLaws|]. split.
  - intros a b d Hab Hd. unfold le in *. cbn [nltb RndOps] in *. apply Z.ltb_ge in Hab, Hd. apply Z.ltb_ge.
    apply RndOps_mul_monotone; assumption.
  - exists cx_xs, cx_fs, 2, (-1), cx_obj, ex_evals, [OpLocate 1], 2, 1, 2.
    split; [exact cx_constructed_old_order|]. split; [exact cx_exits|]. cbv zeta.
    split; [unfold size_ok; cbn; lia|].
    split; [vm_compute; reflexivity|]. split; [vm_compute; reflexivity|lia].
Qed.

(** ** Non-vacuity (integer instance of C09_Proofs.v) *)
Example ex_ctor_table_hypotheses :
  construct1 ZOps [1; 2; 4] [5; 6; 7] 3 2 = Ok (mkObject1 [3; 6; 12] [10; 12; 14] (3, 12) (mkState 0 false 1)) /\
  ngtb ZOps 3 (n0 ZOps) = true /\
  (exists o, construct1 RndOps [0; 4; 6; 8] [0; 1; 2; 3] 2 (-1) = Ok o /\ o_xs o = [0; 2; 3; 4]) /\
  (exists o, construct2 ZOps [1; 3] [10; 20] [[5; 6]; [7; 8]] 2 (-1) 10 = Ok o) /\
  construct2 RndOps [0; 4; 5; 8] [10; 20] [[1; 2]; [3; 4]; [5; 6]; [7; 8]] 2 (-1) (-1) = Exit.
Proof.
  split; [reflexivity|]. split; [reflexivity|]. split; [eexists; split; reflexivity|].
  split; [eexists; reflexivity|reflexivity].
Qed.

(** the premise of the 2-D theorems: -1 is not > 0, in the integers, the rounding instance and the reals *)
Example dflt_inactive_examples : dflt_inactive ZOps /\ dflt_inactive RndOps /\ dflt_inactive ROps.
Proof.
  split; [reflexivity|]. split; [reflexivity|].
  unfold dflt_inactive, ngtb, dflt_dim. cbn. apply Rltb_false. lra.
Qed.

(** Global_Minimum / Global_Maximum of a 2 x 3 table with prefactor -2: the entries are 0 -2 -10 / 10 8 0 *)
Example ex_glob2 :
  glob2 ZOps 2 3 (fun i j => 10 * i - 3 * j * j + j) false (-2) = Ok (-20) /\
  glob2 ZOps 2 3 (fun i j => 10 * i - 3 * j * j + j) true (-2) = Ok 20 /\
  (forall a b, le ZOps a b -> le ZOps (nmul ZOps (-2) b) (nmul ZOps (-2) a)).
Proof.
  split; [reflexivity|]. split; [reflexivity|].
  intros a b H. unfold le in *. change (Z.ltb b a = false) in H. change (Z.ltb (-2 * a) (-2 * b) = false).
  apply Z.ltb_ge in H. apply Z.ltb_ge. lia.
Qed.

(** a continuation of three calls after the history of C09_Proofs.v: the same answers, call by call *)
Example ex_continuation :
  traceE ZOps 40 ex_xv ex_evals [OpInterpolate 250; OpLocate 251; OpDerivative 30 2] (runE ZOps 40 ex_xv ex_evals ex_history (init ZOps)) =
    [OValue [25] (-16500); OIndex 25; OValue [3] (-30)] /\
  traceE ZOps 40 ex_xv ex_evals [OpInterpolate 250; OpLocate 251; OpDerivative 30 2] (fresh (-6)) =
    [OValue [25] (-16500); OIndex 25; OValue [3] (-30)].
Proof. vm_compute. split; reflexivity. Qed.
