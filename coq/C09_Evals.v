(** * C09: the evaluation parameters of C09_Model.v instantiated with the spline of C01_Model.v /
    C08_Model.v (Steffen coefficients, segment polynomial and derivatives, the Integrate loop, the
    knot scan of Local_Minimum and Local_Maximum, the global extrema), so that the extracted C09 model also
    predicts the 1-D *values*.  No theorem depends on this file: the C09 theorems hold for every
    choice of the evaluation functions.  An out-of-bounds read inside an evaluator (excluded for the
    indices Locate returns by C09_no_out_of_bounds and the C01/C08 theorems) would surface as the
    value 0/0. *)
From Coq Require Import ZArith List Bool.
From LP Require Import Num C01_Model C08_Model C09_Model.
Local Open Scope Z_scope.

Section Evals.
Context {T : Type} (Ops : NumOps T).
Variable o : @itab T.     (* build xs ys: the object with prefactor 1 *)

Definition sf_bad : T := ndiv Ops (n0 Ops) (n0 Ops).
Definition sf_unres (r : res T) : T := match r with Ok v => v | _ => sf_bad end.
Definition sf_with_pre (p : T) : @itab T :=
  mk_itab (iN o) (ixs o) (iys o) p (ia o) (ib o) (ic o) (id o) (idom0 o) (idom1 o).

Definition sf_seg (j : Z) (x : T) : T :=
  sf_unres (rbind (segment o (Z.to_nat j)) (fun sg => Ok (C01_Model.seg_eval Ops sg x))).
Definition sf_deriv (j : Z) (x : T) (k : Z) : T :=
  sf_unres (rbind (segment o (Z.to_nat j)) (fun sg =>
    Ok (if k =? 1 then seg_d1 Ops sg x else if k =? 2 then seg_d2 Ops sg x else seg_d3 Ops sg))).
Definition sf_integ (i1 i2 : Z) (a b p : T) : T :=
  let n1 := Z.to_nat i1 in let n2 := Z.to_nat i2 in
  sf_unres (integrate_loop Ops (sf_with_pre p) a b n1 n2 (S n2 - n1) 0 (n0 Ops)).
Definition sf_ext (mx : bool) (fl fr : T) (i1 i2 : Z) (x1 x2 p : T) : T :=
  let n1 := Z.to_nat i1 in let n2 := Z.to_nat i2 in
  let pick := if mx then nmax Ops else nmin Ops in
  sf_unres (knot_scan Ops pick (sf_with_pre p) x1 x2 (n2 + 2 - n1) n1 (pick fl fr)).
Definition sf_glob (mx : bool) (p : T) : T :=
  sf_unres (if mx then global_maximum Ops (sf_with_pre p) else global_minimum Ops (sf_with_pre p)).

Definition step_steffen (N : Z) (xv : Z -> T) : state T -> op T -> state T * out T :=
  step Ops N xv sf_seg sf_deriv sf_integ sf_ext sf_glob.
End Evals.
