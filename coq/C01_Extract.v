From Coq Require Import Extraction ExtrOcamlBasic ZArith List.
From LP Require Import Num C01_Model C01_Model2.
Extraction Language OCaml.
Extraction "C01_m.ml" construct construct_rows locate interpolate derivative construct2 construct2_table interpolate2
  default1 default2 call1 call2
  session_run answer_1d answer_2d ixs iN jxs jys Z.of_nat Z.to_nat.
