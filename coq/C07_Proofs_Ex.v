(** * C07: the hypotheses of the conditional theorems are satisfiable (non-vacuity examples) *)
From Coq Require Import Reals ZArith List Bool Lra Lia.
From Coquelicot Require Import Coquelicot.
From LP Require Import Num NumR C07_Model C07_Proofs_Cont C07_Proofs_Disc C07_Proofs_Chi.
Import ListNotations.
Local Open Scope R_scope.

(* binomial: the real binomial coefficient is an instance of the Binomial_Coefficient parameter *)
Example ex_binomial : cdf_binomial ROps binom_R 3 (1 / 2) 3 = Ok 1.
Proof.
  change 3%Z with (Z.of_nat 3). rewrite (cdf_binomial_val binom_R binom_R_spec) by (try lra; lia).
  f_equal. apply pmfv_sum_n.
Qed.

(* Poisson: a GammaQ returning the regularised upper incomplete gamma function at (mu, n+1) = (1, 3) *)
Example ex_poisson_cdf :
  let gq := fun (_ _ : R) => Ok (1 - RInt (fun t => exp (- t) * t ^ 2 / INR (fact 2)) 0 1) in
  cdf_poisson ROps gq 1 2 = Ok (poisv 1 0 + poisv 1 1 + poisv 1 2).
Proof.
  intros gq. change 2%Z with (Z.of_nat 2). rewrite (cdf_poisson_is_sum gq 1 2); [reflexivity|lra|lia|reflexivity].
Qed.

(* chi-square with two degrees of freedom: Gamma(1) = 1, P(t,1) = 1 - e^-t *)
Example ex_chi2 x : 0 < x ->
  let gl := fun _ : R => Ok (ln 1) in
  let gp := fun (t _ : R) => Ok (1 - exp (- t)) in
  pdf_chi_square ROps gl x 2 = Ok (Rpower x (2 / 2 - 1) * exp (- x / 2) / (Rpower 2 (2 / 2) * 1)) /\
  is_derive (fun x => val (cdf_chi_square ROps gp x 2)) x (val (pdf_chi_square ROps gl x 2)).
Proof.
  intros Hx gl gp. split.
  - apply chi2_pdf_formula; auto; lra.
  - apply (chi2_cdf_derive gl gp (fun t _ => 1 - exp (- t)) 2 1 x); auto; try lra.
    intros t Ht. auto_derive; auto.
    replace (2 / 2 - 1) with 0 by field. rewrite Rpower_O by auto. field.
Qed.

(* Quantile_Gauss at p = 1/2 with an exact Inv_Erf *)
Example ex_quantile mu s : 0 < s ->
  exists q, quantile_gauss ROps (fun _ => Ok 0) (1 / 2) mu s = Ok q /\ cdf_gauss ROps q mu s = 1 / 2.
Proof. intros Hs. apply (quantile_exact (fun _ => Ok 0) (1 / 2) mu s 0); auto. rewrite Rerf_0. field. Qed.

(* KDE: one sample of weight 1, bandwidth 1 *)
Example ex_kde : perform_kde ROps PI [(0, 1)] 0 1 1 <> OOB.
Proof.
  destruct (perform_kde_ok [(0, 1)] 0 1 1) as [H|[t [H _]]].
  - repeat constructor; cbn; lra.
  - cbn. unfold kde_bandwidth. cbn. destruct (Reqb_spec 1 0); lra.
  - rewrite H; discriminate.
  - rewrite H; discriminate.
Qed.
