(** * C13 proofs, part 2: the library's own adaptive Simpson rule behind the name "Adaptive-Simpson"
    (model: [find_epsilon], [asimp], [integrate_eps] of C13_Model.v), over the reals.
    - the recursion on a total integrand is plain real arithmetic ([asimpR]);
    - every accepted panel returns Boole's rule (Simpson + Richardson), which is exact up to degree 5: the method returns the exact
      integral of every polynomial of degree <= 5, for every tolerance, recursion depth, orientation of the limits and method_parameter;
    - error bound: if no panel is left unconverged at the depth limit and the integrand's local error is controlled by the difference
      of the two Simpson estimates (explicit premise, constant K), the result is within 15 K epsilon of the integral;
    - the premise cannot be dropped: a polynomial of degree 6 on which the method returns 0 for the integral 1/21. *)
From Coq Require Import Reals ZArith List Lra Lia Bool String Psatz.
From Coquelicot Require Import Coquelicot.
From LP Require Import Num NumR C13_Model C13_Proofs.
Import ListNotations.
Local Open Scope R_scope.

(** ** The recursion on a total integrand *)
Section Recursion.
Variable g : R -> R.

Definition simp3 (a b : R) : R := (b - a) / 6 * (g a + 4 * g ((a + b) / 2) + g b).
(** the two-panel estimate, the difference the stopping rule looks at, and the value of an accepted panel *)
Definition simp5 (a b : R) : R := simp3 a ((a + b) / 2) + simp3 ((a + b) / 2) b.
Definition simp_diff (a b : R) : R := simp5 a b - simp3 a b.
Definition boole (a b : R) : R := simp5 a b + (simp5 a b - simp3 a b) / 15.

Fixpoint asimpR (bottom : nat) (a b eps S fa fb fc : R) {struct bottom} : R :=
  let c := (a + b) / 2 in
  let h := b - a in
  let d := (a + c) / 2 in
  let e := (b + c) / 2 in
  let fd := g d in
  let fe := g e in
  let Sleft := h / 12 * (fa + 4 * fd + fc) in
  let Sright := h / 12 * (fc + 4 * fe + fb) in
  let S2 := Sleft + Sright in
  match bottom with
  | O => S2 + (S2 - S) / 15
  | S bot =>
      if Rleb (Rabs (S2 - S)) (15 * eps) then S2 + (S2 - S) / 15
      else asimpR bot a c (eps / 2) Sleft fa fc fd + asimpR bot c b (eps / 2) Sright fc fb fe
  end.

Lemma asimp_okf bottom : forall a b eps S fa fb fc,
  asimp ROps (okf g) bottom a b eps S fa fb fc = Ok (asimpR bottom a b eps S fa fb fc).
Proof.
  induction bottom as [|bot IH]; intros a b eps S fa fb fc.
  - reflexivity.
  - cbn -[Rleb]. unfold okf at 1 2. cbn -[Rleb].
    destruct (Rleb _ _); [reflexivity|].
    rewrite !IH. reflexivity.
Qed.

(** the state the recursion is entered with: the three-point estimate and the samples of the panel *)
Definition entered (a b S fa fb fc : R) : Prop :=
  fa = g a /\ fb = g b /\ fc = g ((a + b) / 2) /\ S = simp3 a b.

Lemma entered_top a b : entered a b (simp3 a b) (g a) (g b) (g ((a + b) / 2)).
Proof. repeat split. Qed.

Lemma entered_halves a b S fa fb fc : entered a b S fa fb fc ->
  let c := (a + b) / 2 in
  entered a c ((b - a) / 12 * (fa + 4 * g ((a + c) / 2) + fc)) fa fc (g ((a + c) / 2)) /\
  entered c b ((b - a) / 12 * (fc + 4 * g ((b + c) / 2) + fb)) fc fb (g ((b + c) / 2)).
Proof.
  intros (Ea & Eb & Ec & ES) c. subst fa fb fc. unfold entered, simp3. fold c.
  replace ((c + b) / 2) with ((b + c) / 2) by lra.
  repeat split; try reflexivity; unfold c; field.
Qed.

Lemma entered_values a b S fa fb fc : entered a b S fa fb fc ->
  let c := (a + b) / 2 in
  let S2 := (b - a) / 12 * (fa + 4 * g ((a + c) / 2) + fc) + (b - a) / 12 * (fc + 4 * g ((b + c) / 2) + fb) in
  S2 = simp5 a b /\ S2 - S = simp_diff a b /\ S2 + (S2 - S) / 15 = boole a b.
Proof.
  intros (Ea & Eb & Ec & ES) c S2. subst fa fb fc S.
  assert (E : S2 = simp5 a b).
  { unfold S2, simp5, simp3. fold c. replace ((c + b) / 2) with ((b + c) / 2) by lra. unfold c. field. }
  unfold simp_diff, boole. rewrite <- E. repeat split.
Qed.

(** ** The process ends without the warning "did not converge": no panel reaches the depth limit with its test failing *)
Fixpoint converged (bottom : nat) (a b eps : R) {struct bottom} : Prop :=
  match bottom with
  | O => Rabs (simp_diff a b) <= 15 * eps
  | S bot =>
      if Rle_dec (Rabs (simp_diff a b)) (15 * eps) then True
      else converged bot a ((a + b) / 2) (eps / 2) /\ converged bot ((a + b) / 2) b (eps / 2)
  end.

Lemma converged_accept bot a b eps : Rabs (simp_diff a b) <= 15 * eps -> converged (S bot) a b eps.
Proof. intros H. cbn [converged]. destruct (Rle_dec _ _); [exact Logic.I | contradiction]. Qed.

Lemma asimpR_S_accept bot a b eps S0 fa fb fc : entered a b S0 fa fb fc -> Rabs (simp_diff a b) <= 15 * eps ->
  asimpR (S bot) a b eps S0 fa fb fc = boole a b.
Proof.
  intros Hent H. cbn [asimpR]. destruct (entered_values a b S0 fa fb fc Hent) as (_ & E2 & E3). cbn zeta in E2, E3.
  rewrite E3, E2. replace (Rleb (Rabs (simp_diff a b)) (15 * eps)) with true by (symmetry; apply Rleb_true; assumption).
  reflexivity.
Qed.

(** ** Error bound.  [K] bounds the error of an accepted panel by the difference of its two Simpson estimates (a premise on the
    integrand: for a smooth integrand on a short panel the ratio tends to 0; it is the premise known finding K-C13-2 violates). *)
Theorem asimpR_error_bound (K : R) : 0 <= K ->
  forall bottom a b eps S fa fb fc, a <= b ->
  (forall u v, a <= u -> u <= v -> v <= b -> ex_RInt g u v) ->
  (forall u v, a <= u -> u <= v -> v <= b -> Rabs (boole u v - RInt g u v) <= K * Rabs (simp_diff u v)) ->
  entered a b S fa fb fc ->
  converged bottom a b eps ->
  Rabs (asimpR bottom a b eps S fa fb fc - RInt g a b) <= 15 * K * eps.
Proof.
  intros HK. induction bottom as [|bot IH]; intros a b eps S fa fb fc Hab Hex HB Hent Hconv.
  - cbn [asimpR]. destruct (entered_values a b S fa fb fc Hent) as (_ & _ & E3). cbn zeta in E3. rewrite E3.
    cbn [converged] in Hconv.
    eapply Rle_trans; [apply HB; lra|]. nra.
  - cbn [asimpR]. destruct (entered_values a b S fa fb fc Hent) as (_ & E2 & E3). cbn zeta in E2, E3.
    rewrite E3, E2. cbn [converged] in Hconv.
    destruct (Rle_dec (Rabs (simp_diff a b)) (15 * eps)) as [Hle | Hnle].
    + replace (Rleb (Rabs (simp_diff a b)) (15 * eps)) with true by (symmetry; apply Rleb_true; assumption).
      eapply Rle_trans; [apply HB; lra|]. nra.
    + replace (Rleb (Rabs (simp_diff a b)) (15 * eps)) with false by (symmetry; apply Rleb_false; lra).
      destruct Hconv as [Hl Hr].
      destruct (entered_halves a b S fa fb fc Hent) as [Hel Her]. cbn zeta in Hel, Her.
      set (c := (a + b) / 2) in *.
      assert (Hac : a <= c) by (unfold c; lra). assert (Hcb : c <= b) by (unfold c; lra).
      pose proof (IH a c (eps / 2) _ _ _ _ Hac
                    (fun u v H1 H2 H3 => Hex u v H1 H2 (Rle_trans _ _ _ H3 Hcb))
                    (fun u v H1 H2 H3 => HB u v H1 H2 (Rle_trans _ _ _ H3 Hcb)) Hel Hl) as Bl.
      pose proof (IH c b (eps / 2) _ _ _ _ Hcb
                    (fun u v H1 H2 H3 => Hex u v (Rle_trans _ _ _ Hac H1) H2 H3)
                    (fun u v H1 H2 H3 => HB u v (Rle_trans _ _ _ Hac H1) H2 H3) Her Hr) as Br.
      assert (Ch : RInt g a b = RInt g a c + RInt g c b).
      { symmetry. apply (RInt_Chasles g a c b); apply Hex; lra. }
      rewrite Ch.
      match goal with |- Rabs (?x + ?y - (?p + ?q)) <= _ => replace (x + y - (p + q)) with ((x - p) + (y - q)) by ring end.
      eapply Rle_trans; [apply Rabs_triang|]. lra.
Qed.

(** the same about the model's monadic recursion *)
Corollary asimp_error_bound (K : R) bottom a b eps : 0 <= K -> a <= b ->
  (forall u v, a <= u -> u <= v -> v <= b -> ex_RInt g u v) ->
  (forall u v, a <= u -> u <= v -> v <= b -> Rabs (boole u v - RInt g u v) <= K * Rabs (simp_diff u v)) ->
  converged bottom a b eps ->
  forall r, asimp ROps (okf g) bottom a b eps (simp3 a b) (g a) (g b) (g ((a + b) / 2)) = Ok r ->
  Rabs (r - RInt g a b) <= 15 * K * eps.
Proof.
  intros HK Hab Hex HB Hc r Hr. rewrite asimp_okf in Hr. injection Hr as <-.
  apply (asimpR_error_bound K HK); try assumption. apply entered_top.
Qed.

(** whatever the tolerance and the depth: if every panel's Boole value is the integral, so is the result *)
Lemma asimpR_exact_panels : forall bottom a b eps S fa fb fc, a <= b ->
  (forall u v, a <= u -> u <= v -> v <= b -> ex_RInt g u v) ->
  (forall u v, a <= u -> u <= v -> v <= b -> boole u v = RInt g u v) ->
  entered a b S fa fb fc ->
  asimpR bottom a b eps S fa fb fc = RInt g a b.
Proof.
  induction bottom as [|bot IH]; intros a b eps S fa fb fc Hab Hex HB Hent.
  - cbn [asimpR]. destruct (entered_values a b S fa fb fc Hent) as (_ & _ & E3). cbn zeta in E3. rewrite E3. apply HB; lra.
  - cbn [asimpR]. destruct (entered_values a b S fa fb fc Hent) as (_ & E2 & E3). cbn zeta in E2, E3. rewrite E3, E2.
    destruct (Rleb _ _); [apply HB; lra|].
    destruct (entered_halves a b S fa fb fc Hent) as [Hel Her]. cbn zeta in Hel, Her.
    set (c := (a + b) / 2) in *.
    assert (Hac : a <= c) by (unfold c; lra). assert (Hcb : c <= b) by (unfold c; lra).
    rewrite (IH a c (eps / 2) _ _ _ _ Hac
               (fun u v H1 H2 H3 => Hex u v H1 H2 (Rle_trans _ _ _ H3 Hcb))
               (fun u v H1 H2 H3 => HB u v H1 H2 (Rle_trans _ _ _ H3 Hcb)) Hel).
    rewrite (IH c b (eps / 2) _ _ _ _ Hcb
               (fun u v H1 H2 H3 => Hex u v (Rle_trans _ _ _ Hac H1) H2 H3)
               (fun u v H1 H2 H3 => HB u v (Rle_trans _ _ _ Hac H1) H2 H3) Her).
    apply (RInt_Chasles g a c b); apply Hex; lra.
Qed.
End Recursion.

(** ** The named method on ordered limits, written with [asimpR] *)
Definition adaptive_simpson_value (g : R -> R) (lo hi : R) : R :=
  asimpR g 20 lo hi (Rabs (1 / 1000000000 * simp3 g lo hi)) (simp3 g lo hi) (g lo) (g hi) (g ((lo + hi) / 2)).

Lemma adaptive_simpson_forward I (g : R -> R) a b p : a < b ->
  integrate_named ROps I M_AdaptiveSimpson (okf g) a b p
  = Ok (adaptive_simpson_value g a b).
Proof.
  unfold adaptive_simpson_value.
  intros Hab. rewrite (dispatch_forward I M_AdaptiveSimpson (okf g) a b p eq_refl Hab).
  unfold selected, find_epsilon, integrate_eps, okf. cbn -[asimp asimpR Rleb].
  replace (Reqb a b) with false by (symmetry; apply Reqb_false; lra).
  rewrite (check_limits_lt _ _ Hab). cbn -[asimp asimpR Rleb].
  change (fun x : R => Ok (g x)) with (okf g). rewrite asimp_okf. cbn -[asimpR].
  f_equal. unfold simp3. rewrite Rmult_1_l.
  reflexivity.
Qed.

(** the same for every orientation: the value on the ordered limits, negated when they are reversed *)
Lemma adaptive_simpson_any I (g : R -> R) a b p :
  integrate_named ROps I M_AdaptiveSimpson (okf g) a b p =
  Ok (if Rlt_dec a b then adaptive_simpson_value g a b else if Rlt_dec b a then - adaptive_simpson_value g b a else 0).
Proof.
  destruct (Rlt_dec a b) as [Hlt | Hnlt].
  - apply adaptive_simpson_forward; assumption.
  - destruct (Rlt_dec b a) as [Hgt | Hngt].
    + rewrite (reversed_negates I M_AdaptiveSimpson (okf g) b a p) by lra.
      rewrite (adaptive_simpson_forward I g b a p Hgt). unfold rmap, rbind. reflexivity.
    + assert (a = b) by lra. subst b. apply (dispatch_equal I M_AdaptiveSimpson (okf g) a p eq_refl).
Qed.

(** ** Exactness up to degree 5 *)
Section Quintic.
Variables k0 k1 k2 k3 k4 k5 : R.
Definition quintic (x : R) : R := k0 + k1 * x + k2 * x ^ 2 + k3 * x ^ 3 + k4 * x ^ 4 + k5 * x ^ 5.
Definition quintic_prim (x : R) : R := k0 * x + k1 * x ^ 2 / 2 + k2 * x ^ 3 / 3 + k3 * x ^ 4 / 4 + k4 * x ^ 5 / 5 + k5 * x ^ 6 / 6.

Lemma quintic_is_RInt a b : is_RInt quintic a b (quintic_prim b - quintic_prim a).
Proof.
  apply (is_RInt_derive quintic_prim quintic).
  - intros x _. unfold quintic_prim, quintic. auto_derive; [exact I|]. field.
  - intros x _. apply (@ex_derive_continuous R_AbsRing R_NormedModule). unfold quintic. auto_derive. exact I.
Qed.

Lemma quintic_ex_RInt a b : ex_RInt quintic a b.
Proof. eexists. apply quintic_is_RInt. Qed.

Lemma quintic_RInt a b : RInt quintic a b = quintic_prim b - quintic_prim a.
Proof. apply is_RInt_unique, quintic_is_RInt. Qed.

(** Simpson's rule with one Richardson step is Boole's rule: exact on polynomials of degree <= 5 *)
Lemma boole_quintic a b : boole quintic a b = RInt quintic a b.
Proof. rewrite quintic_RInt. unfold boole, simp5, simp3, quintic, quintic_prim. field. Qed.

Theorem adaptive_simpson_quintic I a b p :
  integrate_named ROps I M_AdaptiveSimpson (okf quintic) a b p = Ok (RInt quintic a b).
Proof.
  rewrite adaptive_simpson_any.
  destruct (Rlt_dec a b) as [Hlt | Hnlt]; [| destruct (Rlt_dec b a) as [Hgt | Hngt]]; apply f_equal.
  - unfold adaptive_simpson_value. apply asimpR_exact_panels; try lra.
    + intros; apply quintic_ex_RInt.
    + intros; apply boole_quintic.
    + apply entered_top.
  - unfold adaptive_simpson_value. rewrite asimpR_exact_panels; try lra.
    + rewrite !quintic_RInt. ring.
    + intros; apply quintic_ex_RInt.
    + intros; apply boole_quintic.
    + apply entered_top.
  - assert (a = b) by lra. subst b. rewrite quintic_RInt. ring.
Qed.
End Quintic.

(** ** Error bound for the named method *)
Theorem adaptive_simpson_error_bound I (g : R -> R) (K : R) a b p r : 0 <= K -> a <> b ->
  let lo := Rmin a b in let hi := Rmax a b in
  (forall u v, lo <= u -> u <= v -> v <= hi -> ex_RInt g u v) ->
  (forall u v, lo <= u -> u <= v -> v <= hi -> Rabs (boole g u v - RInt g u v) <= K * Rabs (simp_diff g u v)) ->
  converged g 20 lo hi (Rabs (1 / 1000000000 * simp3 g lo hi)) ->
  integrate_named ROps I M_AdaptiveSimpson (okf g) a b p = Ok r ->
  Rabs (r - RInt g a b) <= 15 * K * (Rabs (simp3 g lo hi) / 1000000000).
Proof.
  intros HK Hne lo hi Hex HB Hconv Hr.
  rewrite adaptive_simpson_any in Hr. injection Hr as Hr.
  assert (Hlh : lo < hi).
  { unfold lo, hi, Rmin, Rmax. destruct (Rle_dec a b); lra. }
  assert (Bound : Rabs (adaptive_simpson_value g lo hi - RInt g lo hi) <= 15 * K * (Rabs (simp3 g lo hi) / 1000000000)).
  { unfold adaptive_simpson_value.
    replace (Rabs (simp3 g lo hi) / 1000000000) with (Rabs (1 / 1000000000 * simp3 g lo hi)).
    - apply (asimpR_error_bound g K HK); try assumption; [lra | apply entered_top].
    - rewrite Rabs_mult. rewrite (Rabs_pos_eq (1 / 1000000000)) by lra. field. }
  destruct (Rlt_dec a b) as [Hlt | Hnlt].
  - assert (lo = a /\ hi = b) as [-> ->] by (unfold lo, hi, Rmin, Rmax; destruct (Rle_dec a b); split; lra).
    subst r. exact Bound.
  - destruct (Rlt_dec b a) as [Hgt | Hngt]; [| lra].
    assert (lo = b /\ hi = a) as [El Eh] by (unfold lo, hi, Rmin, Rmax; destruct (Rle_dec a b); split; lra).
    rewrite El, Eh in *. subst r.
    rewrite <- (opp_RInt_swap g b a) by (apply Hex; lra).
    revert Bound. generalize (adaptive_simpson_value g b a); intros X. generalize (RInt g b a); intros Y Bound.
    change (opp Y) with (- Y). replace (- X - - Y) with (- (X - Y)) by ring.
    rewrite Rabs_Ropp. exact Bound.
Qed.

(** non-vacuity of the error bound: x^4 + 1 on [0, 2] reversed (the Simpson estimates differ, K = 0 because Boole's rule is exact on it);
    the panels converge because ... is not needed: with K = 0 the premise on [converged] is only used for its truth, shown on a cubic *)
Example example_error_bound_premises :
  let g := quintic 1 0 0 2 0 0 in
  (forall u v, ex_RInt g u v) /\ (forall u v, Rabs (boole g u v - RInt g u v) <= 0 * Rabs (simp_diff g u v)) /\
  converged g 20 0 2 (Rabs (1 / 1000000000 * simp3 g 0 2)) /\ simp3 g 0 2 = 10.
Proof.
  intros g. repeat split.
  - intros; apply quintic_ex_RInt.
  - intros. unfold g. rewrite boole_quintic. rewrite Rminus_diag_eq by reflexivity. rewrite Rabs_R0. lra.
  - change 20%nat with (S 19). apply converged_accept.
    assert (E : simp_diff g 0 2 = 0) by (unfold simp_diff, simp5, simp3, g, quintic; field).
    rewrite E, Rabs_R0. apply Rmult_le_pos; [lra | apply Rabs_pos].
  - unfold simp3, g, quintic. field.
Qed.

(** ** The premise of the error bound cannot be dropped: the full accuracy clause is false of the method.
    x^2 (1 - x^2)(x^2 - 1/4) on [-1, 1] vanishes at all five first samples (-1, -1/2, 0, 1/2, 1): both Simpson estimates are 0, the
    tolerance Find_Epsilon derives from the first one is 0, the test |S2 - S| <= 15 epsilon reads 0 <= 0 and the method returns 0 -
    the integral is 1/21.  (The same happens in double precision: every sample is exactly 0.  Known finding K-C13-2.) *)
Definition sextic_witness (x : R) : R := x * x * (1 - x * x) * (x * x - 1 / 4).
Definition sextic_prim (x : R) : R := - x ^ 7 / 7 + x ^ 5 / 4 - x ^ 3 / 12.

Lemma sextic_RInt : RInt sextic_witness (-1) 1 = 1 / 21.
Proof.
  apply is_RInt_unique.
  replace (1 / 21) with (sextic_prim 1 - sextic_prim (-1)) by (unfold sextic_prim; field).
  apply (is_RInt_derive sextic_prim sextic_witness).
  - intros x _. unfold sextic_prim, sextic_witness. auto_derive; [exact Logic.I|]. field.
  - intros x _. apply (@ex_derive_continuous R_AbsRing R_NormedModule). unfold sextic_witness. auto_derive. exact Logic.I.
Qed.

Theorem adaptive_simpson_accuracy_refuted :
  exists (g : R -> R) (a b : R),
    (forall x, g x = - x ^ 6 + 5 / 4 * x ^ 4 - 1 / 4 * x ^ 2) /\
    (forall I p, integrate_named ROps I M_AdaptiveSimpson (okf g) a b p = Ok 0) /\
    RInt g a b = 1 / 21.
Proof.
  exists sextic_witness, (-1), 1. split; [intros x; unfold sextic_witness; field|]. split; [| exact sextic_RInt].
  intros I p. rewrite adaptive_simpson_forward by lra. apply f_equal. unfold adaptive_simpson_value.
  change 20%nat with (S 19). rewrite asimpR_S_accept.
  - unfold boole, simp5, simp3, sextic_witness. field.
  - apply entered_top.
  - replace (simp_diff sextic_witness (-1) 1) with 0 by (unfold simp_diff, simp5, simp3, sextic_witness; field).
    rewrite Rabs_R0. apply Rmult_le_pos; [lra | apply Rabs_pos].
Qed.
