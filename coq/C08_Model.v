(** * C08 model: Interpolation::Set_Prefactor / Multiply / Integrate / Local_Minimum / Local_Maximum /
    Global_Minimum / Global_Maximum and the Interpolation_2D counterparts (src/Numerics.cpp), over the
    object model of C01_Model.v ([itab] carries the prefactor).  Hand-written, line by line; tied to the
    code by the differential correspondence check (harness/C08.cpp vs the extraction of this file).
    [locate] is the search of a fresh object (history independence is property C09). *)
From Coq Require Import ZArith List Bool.
From LP Require Import Num C01_Model.
Import ListNotations.

Section Model.
Context {T : Type} (Ops : NumOps T).
Declare Scope num_scope.
Delimit Scope num_scope with num.
Local Notation "x + y" := (nadd Ops x y) : num_scope.
Local Notation "x - y" := (nsub Ops x y) : num_scope.
Local Notation "x * y" := (nmul Ops x y) : num_scope.
Local Notation "x / y" := (ndiv Ops x y) : num_scope.
Local Notation lit k := (nofZ Ops k).

(** prefactor = factor;   prefactor *= factor; *)
Definition set_prefactor (o : itab) (f : T) : itab :=
  mk_itab (iN o) (ixs o) (iys o) f (ia o) (ib o) (ic o) (id o) (idom0 o) (idom1 o).
Definition multiply (o : itab) (f : T) : itab := set_prefactor o (ipre o * f)%num.

(** prefactor * (a[j] / 4.0 * pow((x - x_j), 4.0) + b[j] / 3.0 * pow((x - x_j), 3.0) + c[j] / 2.0 * pow((x - x_j), 2.0) + d[j] * x) *)
Definition stemfunc (pre : T) (sg : T * (T * T * T * T)) (xq : T) : T :=
  let '(xj, (a, b, c, d)) := sg in
  let dx := (xq - xj)%num in
  (pre * (a / lit 4 * npowi Ops dx 4 + b / lit 3 * npowi Ops dx 3 + c / lit 2 * npowi Ops dx 2 + d * xq))%num.

(** the loop  for(int i = 0; i < (i_2 - i_1 + 1); i++)  of Integrate; [cnt] = iterations left *)
Fixpoint integrate_loop (o : itab) (x1 x2 : T) (i1 i2 : nat) (cnt i : nat) (acc : T) : res T :=
  match cnt with
  | O => Ok acc
  | S cnt' =>
      let j := (i1 + i)%nat in
      rbind (segment o j) (fun sg =>
      let x_left := if Nat.eqb i 0 then x1 else fst sg in
      rbind (if Nat.eqb i (i2 - i1) then Ok x2 else get (ixs o) (S j)) (fun x_right =>
      let stem_left := stemfunc (ipre o) sg x_left in
      let stem_right := stemfunc (ipre o) sg x_right in
      integrate_loop o x1 x2 i1 i2 cnt' (S i) (acc + (stem_right - stem_left))%num))
  end.

Definition integrate (o : itab) (x_1 x_2 : T) : res T :=
  let swap := ngtb Ops x_1 x_2 in
  let x1 := if swap then x_2 else x_1 in
  let x2 := if swap then x_1 else x_2 in
  let sign := if swap then lit (-1) else lit 1 in
  rbind (locate Ops o x1) (fun i1 =>
  rbind (locate Ops o x2) (fun i2 =>
  rbind (integrate_loop o x1 x2 i1 i2 (S i2 - i1) 0 (n0 Ops)) (fun integral =>
    Ok (sign * integral)%num))).

(** the loop  for(int i = i_1; i <= i_2 + 1; i++) if(x_values[i] >= x_1 && x_values[i] <= x_2) m = std::min/max(m, prefactor * function_values[i]) *)
Fixpoint knot_scan (pick : T -> T -> T) (o : itab) (x1 x2 : T) (cnt i : nat) (m : T) : res T :=
  match cnt with
  | O => Ok m
  | S cnt' =>
      rbind (get (ixs o) i) (fun xi =>
        if ngeb Ops xi x1 && nleb Ops xi x2
        then rbind (get (iys o) i) (fun yi => knot_scan pick o x1 x2 cnt' (S i) (pick m (ipre o * yi)%num))
        else knot_scan pick o x1 x2 cnt' (S i) m)
  end.

Definition local_extremum (pick : T -> T -> T) (o : itab) (x_1 x_2 : T) : res T :=
  if nltb Ops x_2 x_1 then Exit      (* Check_For_Error(x_2 < x_1, ...) *)
  else
    rbind (interpolate Ops o x_1) (fun f_left =>
    rbind (interpolate Ops o x_2) (fun f_right =>
    rbind (locate Ops o x_1) (fun i1 =>
    rbind (locate Ops o x_2) (fun i2 =>
      knot_scan pick o x_1 x_2 (i2 + 2 - i1) i1 (pick f_left f_right))))).
Definition local_minimum := local_extremum (nmin Ops).
Definition local_maximum := local_extremum (nmax Ops).

(** *std::min_element / *std::max_element: the first smallest / first largest element *)
Definition min_element (l : list T) : res T :=
  match l with [] => OOB | a :: r => Ok (fold_left (fun cur x => if nltb Ops x cur then x else cur) r a) end.
Definition max_element (l : list T) : res T :=
  match l with [] => OOB | a :: r => Ok (fold_left (fun cur x => if nltb Ops cur x then x else cur) r a) end.

Definition global_minimum (o : itab) : res T :=
  rbind (min_element (iys o)) (fun f_min => rbind (max_element (iys o)) (fun f_max =>
    Ok (nmin Ops (ipre o * f_min) (ipre o * f_max))%num)).
Definition global_maximum (o : itab) : res T :=
  rbind (min_element (iys o)) (fun f_min => rbind (max_element (iys o)) (fun f_max =>
    Ok (nmax Ops (ipre o * f_min) (ipre o * f_max))%num)).

(** Interpolation_2D *)
Definition set_prefactor2 (o : itab2) (f : T) : itab2 :=
  mk_itab2 (jxs o) (jys o) (jf o) f (jxint o) (jyint o).
Definition multiply2 (o : itab2) (f : T) : itab2 := set_prefactor2 o (jpre o * f)%num.

Fixpoint map_res {A B} (f : A -> res B) (l : list A) : res (list B) :=
  match l with
  | [] => Ok []
  | a :: r => rbind (f a) (fun b => rbind (map_res f r) (fun bs => Ok (b :: bs)))
  end.
Definition global_minimum2 (o : itab2) : res T :=
  rbind (map_res min_element (jf o)) (fun row_minima =>
  rbind (map_res max_element (jf o)) (fun row_maxima =>
  rbind (min_element row_minima) (fun f_min => rbind (max_element row_maxima) (fun f_max =>
    Ok (nmin Ops (jpre o * f_min) (jpre o * f_max))%num)))).
Definition global_maximum2 (o : itab2) : res T :=
  rbind (map_res min_element (jf o)) (fun row_minima =>
  rbind (map_res max_element (jf o)) (fun row_maxima =>
  rbind (min_element row_minima) (fun f_min => rbind (max_element row_maxima) (fun f_max =>
    Ok (nmax Ops (jpre o * f_min) (jpre o * f_max))%num)))).

(** Numerics.hpp:45-48 / 80-83:  double operator()(double x) { return Interpolate(x); }   double operator()(double x, double y) { return Interpolate(x, y); } *)
Definition call1 (o : itab) (x : T) : res T := interpolate Ops o x.
Definition call2 (o : itab2) (x y : T) : res T := interpolate2 Ops o x y.
(** the public data member "the whole domain":  domain = {x_values[0], x_values[N - 1]};  (1-D constructor)
    domain = {x_int.domain, y_int.domain};  (2-D constructor) -- as a list, so that a change of its length is seen *)
Definition domain1 (o : itab) : list T := [idom0 o; idom1 o].
Definition domain2 (o : itab2) : list (list T) := [domain1 (jxint o); domain1 (jyint o)].

(** ** The part of an object that Locate, the knot scan of Local_Minimum/Maximum and Global_Minimum/Maximum read:
    N, x_values, function_values, prefactor and domain (no Steffen coefficients).  The driver uses it for tables too long
    to materialise the coefficient lists of at once (C08_Proofs_Life.v: the functions named agree on it with the full object). *)
Definition skeleton (xs ys : list T) (pre : T) : itab :=
  mk_itab (length xs) xs ys pre [] [] [] [] (xat Ops xs 0) (xat Ops xs (length xs - 1)).

(** ** The other constructors (the objects the queries above may be made on).
    Interpolation():  x_val = {-1.0, 0.0, 1.0}, y_val = {0.0, 0.0, 0.0};  *this = Interpolation(x_val, y_val);
    Interpolation_2D():  the same abscissae in both directions, a 3x3 table of 0.0 *)
Definition default_xs : list T := [lit (-1); lit 0; lit 1].
Definition construct_default : res itab :=
  construct Ops default_xs (repeat (lit 0) 3) (nneg Ops (n1 Ops)) (nneg Ops (n1 Ops)).
Definition construct2_default : res itab2 :=
  let m1 := nneg Ops (n1 Ops) in
  construct2 Ops default_xs default_xs (repeat (repeat (lit 0) 3) 3) m1 m1 m1.

(** Interpolation_2D(data_table, x_dim, y_dim, f_dim): rows (x, y, f), x-major.
    first loop: every row must have 3 entries; the first two columns are collected *)
Fixpoint split_rows3 (data : list (list T)) : res (list T * list T) :=
  match data with
  | [] => Ok ([], [])
  | r :: rest =>
      match r with
      | [x; y; _] => rbind (split_rows3 rest) (fun xy => Ok (x :: fst xy, y :: snd xy))
      | _ => Exit
      end
  end.
(** std::sort on doubles without NaN: the non-decreasing rearrangement (modelled by specification, as an insertion sort) *)
Fixpoint sort_insert (x : T) (l : list T) : list T :=
  match l with
  | [] => [x]
  | a :: r => if nltb Ops x a then x :: l else a :: sort_insert x r
  end.
Definition sort_list (l : list T) : list T := fold_right sort_insert [] l.
(** x.erase(unique(x.begin(), x.end()), x.end()): the first element of every run of == elements *)
Fixpoint unique_from (a : T) (r : list T) : list T :=
  match r with
  | [] => [a]
  | b :: r' => if neqb Ops a b then unique_from a r' else a :: unique_from b r'
  end.
Definition unique_list (l : list T) : list T := match l with [] => [] | a :: r => unique_from a r end.
(** the double loop  for i_x, for i_y:  if(x[i_x] != data_table[i][0] || y[i_y] != data_table[i][1]) exit;  f[i_x][i_y] = data_table[i][2]; i++ *)
Fixpoint fill_row (xv : T) (ys : list T) (data : list (list T)) : res (list T * list (list T)) :=
  match ys with
  | [] => Ok ([], data)
  | yv :: ys' =>
      match data with
      | [] => OOB
      | row :: rest =>
          match row with
          | [dx; dy; dz] =>
              if nneb Ops xv dx || nneb Ops yv dy then Exit
              else rbind (fill_row xv ys' rest) (fun fr => Ok (dz :: fst fr, snd fr))
          | _ => Exit
          end
      end
  end.
Fixpoint fill_table (xs ys : list T) (data : list (list T)) : res (list (list T)) :=
  match xs with
  | [] => Ok []
  | xv :: xs' =>
      rbind (fill_row xv ys data) (fun fr =>
      rbind (fill_table xs' ys (snd fr)) (fun rows => Ok (fst fr :: rows)))
  end.
Definition construct2_table (data : list (list T)) (x_dim y_dim f_dim : T) : res itab2 :=
  rbind (split_rows3 data) (fun xy =>
    let x := unique_list (sort_list (fst xy)) in
    let y := unique_list (sort_list (snd xy)) in
    if negb (Nat.eqb (length x * length y) (length data)) then Exit
    else rbind (fill_table x y data) (fun f => construct2 Ops x y f x_dim y_dim f_dim)).
End Model.

(** ** Several objects in one program: copy construction / copy assignment, move, destruction, swap.
    Every data member of Interpolation and Interpolation_2D is a value (vectors, doubles, ints), so the C++ objects have value
    semantics: a slot holds a table object or nothing (destroyed / moved-from). *)
Section Store.
Context {A : Type}.
Definition store := list (option A).
Definition st_get (s : store) (k : nat) : option A := nth k s None.
Fixpoint st_put (s : store) (k : nat) (v : option A) : store :=
  match s with
  | [] => []
  | a :: r => match k with O => v :: r | S k' => a :: st_put r k' v end
  end.
Inductive lop :=
| LPut (k : nat) (v : A)       (* slot[k] = T(...)  /  new T(...) *)
| LCopy (k j : nat)            (* slot[k] = slot[j]  /  new T(slot[j]),  also through a by-value parameter or a std::vector element *)
| LMove (k j : nat)            (* slot[k] = std::move(slot[j]): the source keeps no table *)
| LDrop (k : nat)              (* delete *)
| LSwap (k j : nat).           (* std::swap *)
Definition lstep (s : store) (op : lop) : store :=
  match op with
  | LPut k v => st_put s k (Some v)
  | LCopy k j => st_put s k (st_get s j)
  | LMove k j => st_put (st_put s k (st_get s j)) j None
  | LDrop k => st_put s k None
  | LSwap k j => st_put (st_put s k (st_get s j)) j (st_get s k)
  end.
(** the slots an operation writes *)
Definition writes (op : lop) (i : nat) : bool :=
  match op with
  | LPut k _ => Nat.eqb k i
  | LCopy k _ => Nat.eqb k i
  | LMove k j => Nat.eqb k i || Nat.eqb j i
  | LDrop k => Nat.eqb k i
  | LSwap k j => Nat.eqb k i || Nat.eqb j i
  end.
End Store.
Arguments store A : clear implicits.
Arguments lop A : clear implicits.

