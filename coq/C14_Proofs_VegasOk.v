(** * C14, seventh pass: Integrate_MC_Vegas comes to an end and stays inside its containers (over the reals).
    The for(;;) loop over the cells of the stratification is an odometer kg[ndim-1], ..., kg[0] with digits 1..ng: it makes exactly ng^ndim passes
    ([kg_advance_val]), which is the fuel the model gives it; every sample falls into a bin in use, so the accumulation into d never leaves its nd entries;
    the refinement never fails (C14_vegas_refine_keeps_grid).  Hence every iteration, and the whole call, has the outcome [Ok]. *)
From Coq Require Import Reals ZArith NArith Nnat List Lia Lra Bool.
From LP Require Import Num NumR C13_Model C14_Model C14_Proofs C14_Proofs_Rebin.
Import ListNotations.
Local Open Scope R_scope.

(** ** the odometer *)
Fixpoint kval (ng : Z) (kg : list Z) : Z := match kg with [] => 0%Z | g :: r => ((g - 1) + ng * kval ng r)%Z end.

Lemma zpow_ge_1 ng : (1 <= ng)%Z -> forall n, (1 <= zpow ng n)%Z.
Proof. intros H. induction n as [| n IH]; cbn [zpow]; nia. Qed.

Lemma kval_bound ng : (1 <= ng)%Z -> forall kg, Forall (fun g => (1 <= g <= ng)%Z) kg -> (0 <= kval ng kg < zpow ng (length kg))%Z.
Proof.
  intros H. induction kg as [| g kg IH]; intros F; [cbn; lia |].
  inversion F as [| ? ? Hg F']; subst. specialize (IH F'). cbn [kval length zpow]. nia.
Qed.

Lemma kval_ones ng : forall kg, Forall (fun g => g = 1%Z) kg -> kval ng kg = 0%Z.
Proof. induction kg as [| g kg IH]; intros F; [reflexivity |]. inversion F; subst. cbn [kval]. rewrite IH by assumption. lia. Qed.

Lemma kg_advance_val ng : (1 <= ng)%Z -> forall kg, Forall (fun g => (1 <= g <= ng)%Z) kg ->
  ((kval ng kg + 1 < zpow ng (length kg))%Z -> snd (kg_advance kg ng) = false /\ kval ng (fst (kg_advance kg ng)) = (kval ng kg + 1)%Z) /\
  ((kval ng kg + 1 = zpow ng (length kg))%Z -> snd (kg_advance kg ng) = true).
Proof.
  intros H. induction kg as [| g kg IH]; intros F.
  - cbn. split; [lia | reflexivity].
  - inversion F as [| ? ? Hg F']; subst. specialize (IH F'). pose proof (kval_bound ng H kg F') as B.
    cbn [kg_advance kval length zpow].
    destruct (Z.eq_dec g ng) as [-> | Ne].
    + rewrite Z.rem_same by lia. change (0 + 1 =? 1)%Z with true. cbv iota.
      destruct (kg_advance kg ng) as [r dn]. cbn [fst snd kval] in *. destruct IH as [I1 I2]. split.
      * intros L. assert (L' : (kval ng kg + 1 < zpow ng (length kg))%Z) by nia. destruct (I1 L') as [Ed Ev]. subst dn. cbn [fst snd kval]. split; [reflexivity | rewrite Ev; lia].
      * intros L. apply I2. nia.
    + rewrite Z.rem_small by lia.
      destruct (g + 1 =? 1)%Z eqn:E; [apply Z.eqb_eq in E; lia |]. cbn [fst snd kval]. split; [intros _; split; [reflexivity | lia] | intros L; nia].
Qed.

(** ** accumulation into d stays inside the bins in use *)
Lemma add_at_ok : forall (col : list R) i v, (i < length col)%nat -> exists c, add_at ROps col i v = Ok c.
Proof.
  induction col as [| a col IH]; intros i v H; [cbn in H; lia |].
  destruct i as [| i]; cbn [add_at]; [eexists; reflexivity |].
  destruct (IH i v ltac:(cbn in H; lia)) as [c E]. rewrite E. cbn [rbind]. eexists; reflexivity.
Qed.

Lemma d_add_ok (n : nat) : forall (d : list (list R)) ias v, Forall (fun col => length col = n) d -> Forall (fun ia => (1 <= ia <= Z.of_nat n)%Z) ias ->
  exists d', d_add ROps d ias v = Ok d'.
Proof.
  induction d as [| col d IH]; intros ias v Fd Fi; [destruct ias; eexists; reflexivity |].
  destruct ias as [| ia ias]; [eexists; reflexivity |].
  inversion Fd as [| ? ? Hc Fd']; subst. inversion Fi as [| ? ? Hi Fi']; subst. cbn [d_add].
  destruct (ia <? 1)%Z eqn:E; [apply Z.ltb_lt in E; lia |].
  destruct (add_at_ok col (Z.to_nat (ia - 1)) v ltac:(lia)) as [c Ec]. rewrite Ec. cbn [rbind].
  destruct (IH ias v Fd' Fi') as [d' Ed]. rewrite Ed. cbn [rbind]. eexists; reflexivity.
Qed.

Section VegasOk.
Variable us : Z -> R.
Hypothesis us_open : forall k, 0 < us k < 1.
Variable region : list R.
Variable dxs : list R.
Variable f : list R -> R.
Variable n : nat.
Notation live := (vlive_ok region dxs n).
Notation dok := (d_ok region n).
Notation kok := (kgs_ok region).
Definition ias_ok (ias : list Z) : Prop := Forall (fun ia => (1 <= ia <= Z.of_nat n)%Z) ias.

Lemma vegas_cell_ok s : live s -> forall kgs, kok s kgs -> forall m fb f2b d ias pos, dok d -> ias_ok ias ->
  exists fb' f2b' d' ias' pos', vegas_cell ROps us m f s (v_xi s) region kgs fb f2b d ias pos = Ok (fb', f2b', d', ias', pos') /\ dok d' /\ ias_ok ias'.
Proof.
  intros (Hn & Hnd & Hxnd & Hng & Hdxg & Hxl & Hrows & Hdx & Hdl & Hdp) kgs [Hk Hkl].
  induction m as [| m IH]; intros fb f2b d ias pos D I; [cbn [vegas_cell]; do 5 eexists; split; [reflexivity | split; assumption] |].
  cbn [vegas_cell]. rewrite Hdx, Hdxg, Hxnd.
  destruct (vegas_sample_inside us us_open (v_ng s) n ltac:(lia) Hng kgs (v_xi s) (lows region) dxs (v_xjac s) pos Hk Hrows Hdp
              ltac:(lia) ltac:(rewrite lows_length; lia) ltac:(lia)) as (xs & ias' & w & p & E & _ & Hi).
  rewrite E. cbn [rbind].
  destruct (v_mds s >=? 0)%Z.
  - destruct D as [D1 D2]. destruct (d_add_ok n d ias' (nmul ROps (nmul ROps w (f xs)) (nmul ROps w (f xs))) D1 Hi) as [d1 E1].
    rewrite E1. cbn [rbind]. apply IH; [| exact Hi]. destruct (d_add_cols n _ _ _ _ E1 D1) as [A B]. split; [exact A | lia].
  - cbn [rbind]. apply IH; assumption.
Qed.

Definition K (s : @vstate R) : Z := zpow (v_ng s) (rdim region).

Lemma vegas_cells_step_ok s : live s -> forall kgs ti tsi d pos, kok s kgs -> dok d ->
  exists dn' kgs' ti' tsi' d' pos',
    vegas_cells_step ROps us f s (v_xi s) region (Ok (false, kgs, ti, tsi, d, pos)) = Ok (dn', kgs', ti', tsi', d', pos') /\ kok s kgs' /\ dok d' /\
    ((kval (v_ng s) (rev kgs) + 1 < K s)%Z -> dn' = false /\ kval (v_ng s) (rev kgs') = (kval (v_ng s) (rev kgs) + 1)%Z) /\
    ((kval (v_ng s) (rev kgs) + 1 = K s)%Z -> dn' = true).
Proof.
  intros L kgs ti tsi d pos Kk D. unfold vegas_cells_step. cbn [rbind].
  destruct (vegas_cell_ok s L kgs Kk (Z.to_nat (v_npg s)) (n0 ROps) (n0 ROps) d [] pos D ltac:(constructor)) as (fb & f2b & d1 & ias & pos' & E & D1 & I1).
  rewrite E. cbn [rbind].
  match goal with |- context [if (v_mds s <? 0)%Z then ?a else ?b] => assert (E2 : exists d2, (if (v_mds s <? 0)%Z then a else b) = Ok d2 /\ dok d2) end.
  { destruct (v_mds s <? 0)%Z; [| eexists; split; [reflexivity | exact D1]].
    destruct D1 as [D11 D12]. match goal with |- context [d_add ROps d1 ias ?v] => destruct (d_add_ok n d1 ias v D11 I1) as [d2 E2] end.
    exists d2. split; [exact E2 |]. destruct (d_add_cols n _ _ _ _ E2 D11) as [A B]. split; [exact A | lia]. }
  destruct E2 as (d2 & E2 & D2). rewrite E2. cbn [rbind].
  pose proof L as (_ & _ & _ & Hng & _). destruct Kk as [K1 K2].
  assert (Fr : Forall (fun g => (1 <= g <= v_ng s)%Z) (rev kgs)) by (apply Forall_rev; exact K1).
  pose proof (kg_advance_ok (v_ng s) Hng (rev kgs) Fr) as [A B].
  pose proof (kg_advance_val (v_ng s) Hng (rev kgs) Fr) as [V1 V2].
  rewrite rev_length, K2 in V1, V2. fold (K s) in V1, V2.
  destruct (kg_advance (rev kgs) (v_ng s)) as [kg' dn']. cbn [fst snd] in *.
  do 6 eexists. split; [reflexivity |]. rewrite rev_involutive.
  split; [split; [apply Forall_rev; exact A | rewrite rev_length, B, rev_length; exact K2] |].
  split; [exact D2 |]. split; [exact V1 | exact V2].
Qed.

Lemma vegas_cells_iter_ok s : live s -> forall (i : nat) d0 pos0, dok d0 -> (Z.of_nat i <= K s)%Z ->
  let st := Nat.iter i (vegas_cells_step ROps us f s (v_xi s) region) (Ok (false, repeat 1%Z (rdim region), n0 ROps, n0 ROps, d0, pos0)) in
  ((Z.of_nat i < K s)%Z -> exists kgs ti tsi d pos, st = Ok (false, kgs, ti, tsi, d, pos) /\ kok s kgs /\ dok d /\ kval (v_ng s) (rev kgs) = Z.of_nat i) /\
  ((Z.of_nat i = K s)%Z -> exists kgs ti tsi d pos, st = Ok (true, kgs, ti, tsi, d, pos) /\ dok d).
Proof.
  intros L. pose proof L as (_ & _ & _ & Hng & _).
  induction i as [| i IH]; intros d0 pos0 D0 Hi; cbv zeta.
  - split.
    + intros _. do 5 eexists. split; [reflexivity |]. split; [split; [| apply repeat_length] |].
      * apply Forall_forall. intros g Hg. apply repeat_spec in Hg. subst g. lia.
      * split; [exact D0 |]. apply kval_ones. apply Forall_rev. apply Forall_forall. intros g Hg. apply repeat_spec in Hg. exact Hg.
    + intros E. pose proof (zpow_ge_1 (v_ng s) Hng (rdim region)). unfold K in E. lia.
  - change (Nat.iter (S i) ?g ?x) with (g (Nat.iter i g x)).
    destruct (IH d0 pos0 D0 ltac:(lia)) as [I1 _]. destruct (I1 ltac:(lia)) as (kgs & ti & tsi & d & pos & E & Kk & D & V).
    cbv zeta in E. rewrite E.
    destruct (vegas_cells_step_ok s L kgs ti tsi d pos Kk D) as (dn' & kgs' & ti' & tsi' & d' & pos' & E' & Kk' & D' & V1 & V2).
    rewrite E'. rewrite V in V1, V2. split.
    + intros Hlt. destruct (V1 ltac:(lia)) as [-> V']. do 5 eexists. split; [reflexivity |]. repeat split; try apply Kk'; try apply D'. lia.
    + intros Heq. rewrite (V2 ltac:(lia)). do 5 eexists. split; [reflexivity | exact D'].
Qed.

Lemma vegas_cells_ok s d pos : live s -> dok d ->
  exists ti tsi d' pos', vegas_cells ROps us f s (v_xi s) region d pos = Ok (ti, tsi, d', pos') /\ dok d'.
Proof.
  intros L D. pose proof L as (_ & _ & _ & Hng & _). unfold vegas_cells.
  pose proof (zpow_ge_1 (v_ng s) Hng (rdim region)) as HK.
  rewrite N2Nat.inj_iter.
  destruct (vegas_cells_iter_ok s L (N.to_nat (Z.to_N (zpow (v_ng s) (rdim region)))) d pos D) as [_ I2].
  { rewrite N_nat_Z, Z2N.id by lia. unfold K. lia. }
  destruct I2 as (kgs & ti & tsi & d' & pos' & E & D').
  { rewrite N_nat_Z, Z2N.id by lia. reflexivity. }
  cbv zeta in E. rewrite E. cbn [rbind]. do 4 eexists. split; [reflexivity | exact D'].
Qed.

Theorem vegas_iterations_ok : forall itmx s integral pos, live s ->
  exists v s' pos', vegas_iterations ROps us itmx f s region integral pos = Ok (v, s', pos').
Proof.
  induction itmx as [| itmx IH]; intros s integral pos L; [do 3 eexists; reflexivity |].
  cbn [vegas_iterations].
  pose proof L as (Hn & Hnd & Hxnd & Hng & Hdxg & Hxl & Hrows & Hdx & Hdl & Hdp).
  assert (D0 : dok (repeat (repeat (n0 ROps) (Z.to_nat (v_nd s))) (rdim region))).
  { split; [| apply repeat_length]. apply Forall_forall. intros c Hc. apply repeat_spec in Hc. subst c. rewrite repeat_length, Hnd. lia. }
  destruct (vegas_cells_ok s _ pos L D0) as (ti & tsi & d & pos1 & E & D). rewrite E. cbn [rbind].
  match goal with |- context [nisnan ROps ?x] => change (nisnan ROps x) with false end. cbv iota.
  destruct D as [D1 D2].
  destruct (vegas_refine_keeps_grid s n ltac:(lia) Hnd Hxnd d (v_xi s) ltac:(lia) D1 Hrows) as (rows' & E2 & L2 & F2).
  rewrite E2. cbn [rbind]. apply IH.
  repeat split; cbn [v_nd v_xnd v_ng v_dxg v_xi v_dx]; try assumption; try lia.
Qed.
End VegasOk.

(** ** the whole call *)
Lemma vegas_init_ok s region ncall : wf_statics s -> (1 <= rdim region <= 10)%nat -> (2 <= ncall)%Z ->
  exists s1, vegas_init ROps s region 0 ncall = Ok s1.
Proof.
  intros [L1 N1] Hd Hnc.
  unfold vegas_init.
  change (0 <=? 0)%Z with true. change (0 <=? 1)%Z with true. change (0 <=? 2)%Z with true. cbv beta iota zeta.
  change (negb (1 =? 0)%Z) with true. cbv beta iota zeta.
  set (ng0 := ntrunc ROps _).
  destruct (2 * ng0 - NDMX >=? 0)%Z eqn:G; cbv beta iota zeta.
  all: match goal with |- context [vegas_grid_reset ROps ?nd 1 _ _ _] =>
    destruct (grid_reset_live nd (rdim region) (v_xi s) ltac:(lia) N1) as (xa & Ea & Fa) end.
  all: match goal with |- context [dx_jac ROps ?a ?b ?c] => destruct (dx_jac ROps a b c) as [dx xjac] end.
  all: rewrite Ea; cbn [rbind]; eexists; reflexivity.
Qed.

Theorem integrate_mc_vegas_ok (us : Z -> R) (us_open : forall k, 0 < us k < 1) s f region ncalls :
  wf_statics s -> (1 <= rdim region <= 10)%nat -> (2 <= ncalls)%Z -> ordered (lows region) (highs region) ->
  exists v s', integrate_mc ROps us s M_Vegas f region ncalls = Ok (v, s').
Proof.
  intros W Hd Hnc Hord. unfold integrate_mc, vegas.
  destruct (vegas_init_ok s region ncalls W Hd Hnc) as [s1 E]. rewrite E. cbn [rbind].
  destruct (vegas_init_live_ok s region ncalls s1 W Hd Hnc Hord E) as (n & L).
  destruct (vegas_iterations_ok us us_open region (widths region) f n 5 (vegas_live region s1) (n0 ROps) 0%Z L) as (v & s2 & p & E2).
  rewrite E2. cbn [rbind]. do 2 eexists. reflexivity.
Qed.
