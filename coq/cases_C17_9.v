From Coq Require Import Reals Lra.
From Coquelicot Require Import Coquelicot.
From Interval Require Import Tactic.
From LP Require Import NumR C17_Defs.
Open Scope R_scope.
Lemma s3_9 : Rabs (dawson_def (IZR (1152921504606847) * powerRZ 2 (-60)) - (IZR (576460367996409) * powerRZ 2 (-59))) <= 2 / 10000000.
Proof. unfold dawson_def. integral with (i_prec 60). Qed.
Lemma s3_19 : Rabs (dawson_def (IZR (7205759210299979) * powerRZ 2 (-55)) - (IZR (3508322480981161) * powerRZ 2 (-54))) <= 2 / 10000000.
Proof. unfold dawson_def. integral with (i_prec 60). Qed.
Lemma s3_29 : Rabs (dawson_def (IZR (-8805773637421707) * powerRZ 2 (-52)) - (IZR (-1399469716127817) * powerRZ 2 (-52))) <= 2 / 10000000.
Proof. unfold dawson_def. integral with (i_prec 60). Qed.
Lemma s3_39 : Rabs (dawson_def (IZR (83869920598283) * powerRZ 2 (-43)) - (IZR (7599508173266697) * powerRZ 2 (-57))) <= 2 / 10000000.
Proof. unfold dawson_def. integral with (i_prec 60). Qed.
Lemma s3_49 : Rabs ((IZR (5875086717797941) * powerRZ 2 (15)) - erfi_def (IZR (493669494453425) * powerRZ 2 (-46))) <= 1 / 1000000 * Rabs (erfi_def (IZR (493669494453425) * powerRZ 2 (-46))).
Proof. apply rel_error_from_enclosure; [lra|interval|]. unfold erfi_def. split; integral with (i_prec 80). Qed.
Lemma s3_59 : Rerf ((IZR (239388266602297) * powerRZ 2 (-49)) - 1 / 10000) < (IZR (1018741806733921) * powerRZ 2 (-51)) < Rerf ((IZR (239388266602297) * powerRZ 2 (-49)) + 1 / 10000).
Proof. unfold Rerf. split; integral with (i_prec 80). Qed.
