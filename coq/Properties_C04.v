(** C04 — property theorems only.  Each is closed by [exact] of a lemma proved in C04_Proofs_*.v.
    Model: coq/C04_Model.v (the term that is extracted and run against libphysica).
    Conventions: [mk_mat r c f] is the r x c table with entry f i j (theorem [C04_table]); [ment A i j] reads
    entry (i,j); [wf_mat] is the class invariant (components.size()==rows, every row has `columns`
    entries).  [T], [Ops] = any number type with any operations (so also IEEE doubles); [R] = any
    commutative ring (MathComp [comRingType]), [ROps R ...] = the model's operations instantiated with
    the ring operations, the uninterpreted ones (division, sqrt, fabs, <) arbitrary. *)
From mathcomp Require Import all_ssreflect all_algebra.
From LP Require Import Num C04_Model C04_State C04_Life C04_Proofs_Struct C04_Proofs_Laws C04_Proofs_Block C04_Proofs_State C04_Proofs_Life C04_Proofs_Hist C04_Proofs_Alg C04_Amb C04_Proofs_Amb C04_Proofs_Made C04_Print C04_Proofs_Print C04_Proofs_Cache.
Import GRing.Theory.
Local Open Scope ring_scope.

Section AnyNumberType.
Context {T : Type} (Ops : NumOps T).
Local Notation ment := (ment Ops).
Local Notation vent := (vent Ops).

(** "rows, columns, components ... invariant components.size()==rows and each row has columns entries":
    a table satisfies the invariant, has the stated shape and entries; a well-formed matrix is the table
    of its entries; shape and entries determine a well-formed matrix. *)
Theorem C04_table r c (f : nat -> nat -> T) :
  [/\ wf_mat (mk_mat r c f), mrows (mk_mat r c f) = r, mcols (mk_mat r c f) = c &
      forall i j, (i < r)%N -> (j < c)%N -> ment (mk_mat r c f) i j = f i j].
Proof. exact (And4 (wf_mk r c f) erefl erefl (@ment_mk T Ops r c f)). Qed.
Print Assumptions C04_table.
Theorem C04_matrix_extensionality (A B : mat T) : wf_mat A -> wf_mat B -> mrows A = mrows B -> mcols A = mcols B ->
  (forall i j, (i < mrows A)%N -> (j < mcols A)%N -> ment A i j = ment B i j) -> A = B.
Proof. exact (@mat_ext T Ops A B). Qed.
Print Assumptions C04_matrix_extensionality.
(** the constructor from a table: accepted tables satisfy the invariant, ragged ones exit *)
Theorem C04_constructor (e : seq (seq T)) :
  match mat_of_entries e with
  | Ok A => wf_mat A /\ mcomps A = e /\ mrows A = size e /\ mcols A = size (head [::] e)
  | Exit => ~ (forall i, (i < size e)%N -> size (nth [::] e i) = size (head [::] e))
  | _ => False
  end.
Proof. exact (mat_of_entries_spec e). Qed.
Print Assumptions C04_constructor.

(** every operation re-establishes the class invariant on whatever it returns *)
Theorem C04_invariant_preserved (A B : mat T) (s : T) (k l : nat) (u v : vec T) : wf_mat A -> wf_mat B ->
  (forall r C, List.In r
     [:: m_plus Ops A B; m_minus Ops A B; m_op_plus Ops A B; m_op_minus Ops A B; m_add_assign Ops A B;
         m_sub_assign Ops A B; m_product Ops A B; m_op_mul Ops A B; m_product_s Ops A s; m_op_mul_s Ops A s;
         s_mul_m Ops s A; m_division Ops A s; m_op_div Ops A s; transpose Ops A; sub_matrix A k l;
         delete_row A k; delete_column A k; Ok (outer Ops u v); Ok (identity Ops k); Ok (mat_fill k l s);
         Ok (mat_diag Ops (vcomps u)); mat_of_entries (mcomps A)] -> r = Ok C -> wf_mat C) /\
  (forall r w, List.In r
     [:: vadd Ops u v; vsub Ops u v; vadd_assign Ops u v; vsub_assign Ops u v; vcross Ops u v;
         Ok (vscale Ops u s); Ok (vdivs Ops u s); Ok (s_mul_v Ops s u);
         m_product_v Ops A v; m_op_mul_v Ops A v; v_mul_m Ops v A] -> r = Ok w -> wf_vec w).
Proof. exact (fun HA HB => conj (@wf_preserved T Ops A B s k l u v HA HB) (@wf_vec_preserved T Ops A s k u v)). Qed.
Print Assumptions C04_invariant_preserved.

(** "sums and differences are element-wise": closed form of Plus / Minus (at least one row) *)
Theorem C04_sum_entrywise (A B : mat T) : (0 < mrows A)%N ->
  m_plus Ops A B = (if same_shape A B
                    then Ok (mk_mat (mrows A) (mcols A) (fun i j => nadd Ops (ment A i j) (ment B i j))) else Exit) /\
  m_minus Ops A B = (if same_shape A B
                     then Ok (mk_mat (mrows A) (mcols A) (fun i j => nsub Ops (ment A i j) (ment B i j))) else Exit).
Proof. exact (fun H => conj (m_plus_spec Ops B H) (m_minus_spec Ops B H)). Qed.
Print Assumptions C04_sum_entrywise.
(** "are defined exactly when the two shapes are equal": Plus, Minus, operator+, operator-, operator+=, operator-= *)
Theorem C04_sum_defined_iff_same_shape (A B : mat T) : (0 < mrows A)%N ->
  forall op, List.In op [:: m_plus Ops; m_minus Ops; m_op_plus Ops; m_op_minus Ops; m_add_assign Ops; m_sub_assign Ops] ->
  ((exists C, op A B = Ok C) <-> (mrows A = mrows B /\ mcols A = mcols B)) /\
  (~~ same_shape A B -> op A B = Exit).
Proof. exact (@sum_defined_iff T Ops A B). Qed.
Print Assumptions C04_sum_defined_iff_same_shape.
(** "and agree with their compound-assignment forms" (and with the operator spellings) *)
Theorem C04_sum_spellings_agree (A B : mat T) : (0 < mrows A)%N ->
  [/\ m_op_plus Ops A B = m_plus Ops A B, m_add_assign Ops A B = m_plus Ops A B,
      m_op_minus Ops A B = m_minus Ops A B & m_sub_assign Ops A B = m_minus Ops A B].
Proof. exact (@sum_spellings_agree T Ops A B). Qed.
Print Assumptions C04_sum_spellings_agree.
(** the same for vectors: operator+, operator-, operator+=, operator-= *)
Theorem C04_vector_sums (u v : vec T) :
  [/\ vadd Ops u v = (if vdim u == vdim v
                      then Ok (vec_of (tab (vdim u) (fun i => nadd Ops (vent u i) (vent v i)))) else Exit),
      vsub Ops u v = (if vdim u == vdim v
                      then Ok (vec_of (tab (vdim u) (fun i => nsub Ops (vent u i) (vent v i)))) else Exit),
      vadd_assign Ops u v = vadd Ops u v & vsub_assign Ops u v = vsub Ops u v].
Proof. exact (vsum_spec Ops u v). Qed.
Print Assumptions C04_vector_sums.

(** "scalar multiplication and division distribute over entries": Product(s), M*s, s*M, Division(s), M/s *)
Theorem C04_scalar_entrywise (A : mat T) (s : T) : (0 < mrows A)%N ->
  let sA := mk_mat (mrows A) (mcols A) (fun i j => nmul Ops s (ment A i j)) in
  let As := mk_mat (mrows A) (mcols A) (fun i j => ndiv Ops (ment A i j) s) in
  [/\ m_product_s Ops A s = Ok sA, m_op_mul_s Ops A s = Ok sA, s_mul_m Ops s A = Ok sA,
      m_division Ops A s = Ok As & m_op_div Ops A s = Ok As].
Proof. exact (@scalar_spec T Ops A s). Qed.
Print Assumptions C04_scalar_entrywise.
Theorem C04_vector_scalar (v : vec T) (s : T) :
  [/\ vscale Ops v s = vec_of (tab (vdim v) (fun i => nmul Ops (vent v i) s)),
      s_mul_v Ops s v = vscale Ops v s &
      vdivs Ops v s = vec_of (tab (vdim v) (fun i => ndiv Ops (vent v i) s))].
Proof. exact (vscale_spec Ops v s). Qed.
Print Assumptions C04_vector_scalar.

(** "transposition is an involution" *)
Theorem C04_transpose_involutive (A : mat T) : wf_mat A -> (0 < mrows A)%N -> (0 < mcols A)%N ->
  rbind (transpose Ops A) (transpose Ops) = Ok A.
Proof. exact (@transpose_involutive T Ops A). Qed.
Print Assumptions C04_transpose_involutive.
Theorem C04_transpose_entries (A : mat T) : (0 < mcols A)%N ->
  transpose Ops A = Ok (mk_mat (mcols A) (mrows A) (fun j i => ment A i j)).
Proof. exact (@transpose_spec T Ops A). Qed.
Print Assumptions C04_transpose_entries.

(** "transpose(A*B) equals transpose(B)*transpose(A)" for all conformable shapes — needs only x*y = y*x,
    no associativity, the code's own summation order: exact for doubles as well *)
Theorem C04_transpose_product (mulC : forall x y : T, nmul Ops x y = nmul Ops y x) (A B : mat T) :
  mcols A = mrows B -> (0 < mrows B)%N -> (0 < mcols B)%N ->
  rbind (m_product Ops A B) (transpose Ops)
  = rbind (transpose Ops B) (fun Bt => rbind (transpose Ops A) (fun At => m_product Ops Bt At)) /\
  exists C, rbind (m_product Ops A B) (transpose Ops) = Ok C.
Proof. exact (@transpose_product T Ops mulC A B). Qed.
Print Assumptions C04_transpose_product.

(** "A*I equals A exactly": laws used  0+x = x, x+0 = x, x*1 = x, x*0 = 0  (resp. 1*x = x, 0*x = 0 for I*A) *)
Theorem C04_mul_identity
  (add0l : forall x, nadd Ops (n0 Ops) x = x) (add0r : forall x, nadd Ops x (n0 Ops) = x)
  (mul1 : forall x, nmul Ops x (n1 Ops) = x) (mul0 : forall x, nmul Ops x (n0 Ops) = n0 Ops) (A : mat T) :
  wf_mat A -> m_product Ops A (identity Ops (mcols A)) = Ok A.
Proof. exact (@mul_identity T Ops add0l add0r mul1 mul0 A). Qed.
Print Assumptions C04_mul_identity.
Theorem C04_identity_mul
  (add0l : forall x, nadd Ops (n0 Ops) x = x) (add0r : forall x, nadd Ops x (n0 Ops) = x)
  (mul1l : forall x, nmul Ops (n1 Ops) x = x) (mul0l : forall x, nmul Ops (n0 Ops) x = n0 Ops) (A : mat T) :
  wf_mat A -> m_product Ops (identity Ops (mrows A)) A = Ok A.
Proof. exact (@identity_mul T Ops add0l add0r mul1l mul0l A). Qed.
Print Assumptions C04_identity_mul.

(** "Matrix-vector, vector-matrix, outer, dot ... products coincide with the matrix product of the
    corresponding row and column matrices": the very same left-to-right sums [dotk] (no law needed; outer: 0+x = x) *)
Theorem C04_matvec_is_product (A : mat T) (v : vec T) :
  m_product_v Ops A v = (if vdim v == mcols A
                         then Ok (vec_of (tab (mrows A) (fun i => dotk Ops A (col_mat Ops v) i 0))) else Exit) /\
  m_op_mul_v Ops A v = m_product_v Ops A v.
Proof. exact (conj (matvec_is_product Ops A v) erefl). Qed.
Print Assumptions C04_matvec_is_product.
Theorem C04_vecmat_is_product (v : vec T) (A : mat T) :
  v_mul_m Ops v A = if vdim v == mrows A
                    then Ok (vec_of (tab (mcols A) (fun j => dotk Ops (row_mat Ops v) A 0 j))) else Exit.
Proof. exact (vecmat_is_product Ops v A). Qed.
Print Assumptions C04_vecmat_is_product.
Theorem C04_dot_is_product (u v : vec T) :
  vdot Ops u v = (if vdim u == vdim v then Ok (dotk Ops (row_mat Ops u) (col_mat Ops v) 0 0) else Exit) /\
  v_op_mul Ops u v = vdot Ops u v.
Proof. exact (conj (dot_is_product Ops u v) erefl). Qed.
Print Assumptions C04_dot_is_product.
Theorem C04_outer_is_product (add0l : forall x, nadd Ops (n0 Ops) x = x) (u v : vec T) :
  m_product Ops (col_mat Ops u) (row_mat Ops v) = Ok (outer Ops u v) /\
  outer Ops u v = mk_mat (vdim u) (vdim v) (fun i j => nmul Ops (vent u i) (vent v j)).
Proof. exact (conj (@outer_is_product T Ops add0l u v) erefl). Qed.
Print Assumptions C04_outer_is_product.

(** cross product: defined iff both operands have size 3; component formula *)
Theorem C04_cross_formula (u v : vec T) :
  vcross Ops u v =
  if (vdim u == 3%N) && (vdim v == 3%N)
  then Ok (vec_of [:: nsub Ops (nmul Ops (vent u 1) (vent v 2)) (nmul Ops (vent u 2) (vent v 1));
                      nsub Ops (nmul Ops (vent u 2) (vent v 0)) (nmul Ops (vent u 0) (vent v 2));
                      nsub Ops (nmul Ops (vent u 0) (vent v 1)) (nmul Ops (vent u 1) (vent v 0))])
  else Exit.
Proof. exact (vcross_spec Ops u v). Qed.
Print Assumptions C04_cross_formula.

(** "Square, Sub_Matrix, Return_Row/Column ... agree with their definitions" *)
Theorem C04_square (A : mat T) : square A = (mrows A == mcols A).
Proof. exact (squareE A). Qed.
Print Assumptions C04_square.
(** Sub_Matrix(r,c) = the matrix without row r and column c ([skip k i] = i below k, i+1 from k on) *)
Theorem C04_sub_matrix (A : mat T) (r c : nat) : wf_mat A -> (0 < mrows A)%N ->
  sub_matrix A r c =
  if (r < mrows A)%N then
    if (c < mcols A)%N then Ok (mk_mat (mrows A).-1 (mcols A).-1 (fun i j => ment A (skip r i) (skip c j)))
    else Exit
  else Exit.
Proof. exact (@sub_matrix_spec T Ops A r c). Qed.
Print Assumptions C04_sub_matrix.
(** with the int arguments of the C++ signature: a negative index exits *)
Theorem C04_sub_matrix_int (A : mat T) (r c : BinNums.Z) : wf_mat A -> (0 < mrows A)%N ->
  sub_matrix_int A r c =
  if (BinInt.Z.ltb r BinNums.Z0 || BinInt.Z.ltb c BinNums.Z0) then Exit
  else sub_matrix A (BinInt.Z.to_nat r) (BinInt.Z.to_nat c).
Proof. exact (@sub_matrix_int_spec T Ops A r c). Qed.
Print Assumptions C04_sub_matrix_int.
Theorem C04_delete_row_column (A : mat T) (k : nat) : wf_mat A ->
  delete_row A k = (if (k < mrows A)%N
                    then Ok (mk_mat (mrows A).-1 (mcols A) (fun i j => ment A (skip k i) j)) else Exit) /\
  delete_column A k = (if (k < mcols A)%N
                       then Ok (mk_mat (mrows A) (mcols A).-1 (fun i j => ment A i (skip k j))) else Exit).
Proof. exact (fun H => conj (@delete_row_spec T Ops A k H) (@delete_column_spec T Ops A k H)). Qed.
Print Assumptions C04_delete_row_column.
Theorem C04_return_row_column (A : mat T) (k : nat) : wf_mat A -> (0 < mcols A)%N ->
  return_row A k = (if (k < mrows A)%N then Ok (vec_of (tab (mcols A) (fun j => ment A k j))) else Exit) /\
  return_column Ops A k = (if (k < mcols A)%N then Ok (vec_of (tab (mrows A) (fun i => ment A i k))) else Exit).
Proof. exact (fun H H' => conj (@return_row_spec T Ops A k H) (@return_column_spec T Ops A k H H')). Qed.
Print Assumptions C04_return_row_column.

(** "Symmetric ... Diagonal ... agree with their definitions", whenever == decides equality.
    Symmetric() scans only j >= i, yet decides A = A^T. *)
Theorem C04_symmetric_iff (eqbP : forall x y : T, reflect (x = y) (neqb Ops x y)) (A : mat T) :
  symmetric Ops A <->
  (mrows A = mcols A /\ forall i j, (i < mrows A)%N -> (j < mrows A)%N -> ment A i j = ment A j i).
Proof. exact (@symmetric_iff T Ops eqbP A). Qed.
Print Assumptions C04_symmetric_iff.
Theorem C04_diagonal_iff (eqbP : forall x y : T, reflect (x = y) (neqb Ops x y)) (A : mat T) :
  diagonal Ops A <->
  (mrows A = mcols A /\ forall i j, (i < mrows A)%N -> (j < mrows A)%N -> i != j -> ment A i j = n0 Ops).
Proof. exact (@diagonal_iff T Ops eqbP A). Qed.
Print Assumptions C04_diagonal_iff.
Theorem C04_equality_operators (eqbP : forall x y : T, reflect (x = y) (neqb Ops x y)) :
  (forall A B : mat T, wf_mat A -> wf_mat B -> (m_eq Ops A B <-> A = B)) /\
  (forall u v : vec T, wf_vec u -> wf_vec v -> (veq Ops u v <-> u = v)).
Proof. exact (conj (@m_eq_iff T Ops eqbP) (@veq_iff T Ops eqbP)). Qed.
Print Assumptions C04_equality_operators.

(** "the block constructor agree[s] with [its] definition", general block grids.
    [grid_ok g]: the grid is non-empty and rectangular, all blocks of a grid row have the same number of
    rows, all blocks of a grid column the same number of columns.  The code tests only neighbouring
    blocks; that decides [grid_ok].  [ioff g R] / [joff g C] = sum of the block heights above grid row R /
    of the block widths left of grid column C. *)
Theorem C04_block_constructor (g : seq (seq (mat T))) :
  (grid_ok g ->
   exists2 M, mat_block Ops g = Ok M &
     [/\ wf_mat M, mrows M = sumn (block_rows g), mcols M = sumn (block_cols g) &
         forall R C i j, (R < size g)%N -> (C < size (nth [::] g 0))%N ->
           (i < mrows (blk g R C))%N -> (j < mcols (blk g R C))%N ->
           ment M (ioff g R + i) (joff g C + j) = ment (blk g R C) i j]) /\
  (~ grid_ok g -> mat_block Ops g = Exit) /\
  (block_valid g <-> grid_ok g).
Proof.
  exact (conj (@mat_block_valid T Ops g) (conj (@mat_block_invalid T Ops g)
        (conj (elimT (block_validP g)) (introT (block_validP g))))).
Qed.
Print Assumptions C04_block_constructor.
(** the same clause on one block: Matrix({{A}}) is A, for every well-formed A whatever its entries are (no entry is
    skipped or tested on the way: the result does not depend on the size of the entries of a block). *)
Theorem C04_block_single (A : mat T) : wf_mat A -> mat_block Ops [:: [:: A]] = Ok A.
Proof. exact (@mat_block_single T Ops A). Qed.
Print Assumptions C04_block_single.
(** Call history ("all operator spellings", objects that reached their shape through Resize / Assign / writes /
    copies; model coq/C04_State.v).  Resize(r,c) yields, from EVERY previous state of the object (also one whose
    storage does not match rows/columns), the r x c table of the old reads - for a well-formed object the old
    top-left block and 0.0 elsewhere - and re-establishes the invariant; hence the storage-based accessors
    Return_Row ( = Vector(components[row]) ) and Sub_Matrix ( = Matrix(components) minus a row and a column )
    of a resized matrix are those of an r x c matrix. *)
Theorem C04_resize (A : mat T) (r c : nat) :
  [/\ m_resize Ops A r c = mk_mat r c (ment A), wf_mat (m_resize Ops A r c) &
      wf_mat A -> forall i j, (i < r)%N -> (j < c)%N ->
        ment (m_resize Ops A r c) i j = if (i < mrows A)%N && (j < mcols A)%N then ment A i j else n0 Ops].
Proof. exact (And3 (m_resize_spec Ops A r c) (m_resize_wf Ops A r c) (fun H i j => @m_resize_entries T Ops A r c i j H)). Qed.
Print Assumptions C04_resize.
Theorem C04_resize_accessors (A : mat T) (r c k l : nat) : (0 < r)%N ->
  return_row (m_resize Ops A r c) k = (if (k < r)%N then Ok (vec_of (tab c (fun j => ment A k j))) else Exit) /\
  sub_matrix (m_resize Ops A r c) k l =
    (if (k < r)%N then if (l < c)%N then Ok (mk_mat r.-1 c.-1 (fun i j => ment A (skip k i) (skip l j))) else Exit
     else Exit).
Proof. exact (fun H => conj (return_row_resize Ops A r c k) (@sub_matrix_resize T Ops A r c k l H)). Qed.
Print Assumptions C04_resize_accessors.
(** Assign(r,c,e) is the fill constructor whatever the object was; M[i][j] = x changes exactly that entry;
    copy construction and operator= reproduce the object *)
Theorem C04_assign_set_copy (A old : mat T) (r c i j : nat) (e x : T) :
  [/\ m_assign A r c e = mat_fill r c e,
      wf_mat A -> m_set A i j x =
        (if (i < mrows A)%N then
           if (j < mcols A)%N
           then Ok (mk_mat (mrows A) (mcols A) (fun a b => if (a == i) && (b == j) then x else ment A a b))
           else OOB
         else Exit),
      m_copy A = A & m_assign_from old A = A].
Proof. exact (And4 (m_assign_spec A r c e) (@m_set_spec T Ops A i j x) (m_copy_spec A) (m_assign_from_spec old A)). Qed.
Print Assumptions C04_assign_set_copy.
(** the same for Vector::Resize / Assign / v[i] = x / copies *)
Theorem C04_vector_state (v old : vec T) (n i : nat) (e x : T) :
  [/\ v_resize Ops v n = vec_of (tab n (vent v)), v_assign v n e = vfill n e,
      wf_vec v -> v_set v i x =
        (if (i < vdim v)%N then Ok (vec_of (tab (vdim v) (fun k => if k == i then x else vent v k))) else Exit),
      v_copy v = v & v_assign_from old v = v].
Proof. exact (And5 (v_resize_spec Ops v n) (v_assign_spec v n e) (@v_set_spec T Ops v i x) (v_copy_spec v) (v_assign_from_spec old v)). Qed.
Print Assumptions C04_vector_state.
(** Sessions ("all operator spellings" on objects that live on: several matrices / vectors in one process, member calls on
    them one after the other, operands written out or other live objects, possibly the object itself; model coq/C04_Life.v,
    the term the driver runs for `life` cases).  The data members are (rows, columns, components) and nothing else, so the
    const members are functions of the current value of the object (C04_Model.v) whatever was called before.
    A call on object k replaces it by [m_mut] of its current value and leaves every other live object untouched: *)
Theorem C04_life_step (ms ms' : seq (mat T)) (k : nat) (o : @mmut T) : life_m Ops ms k o = Ok ms' ->
  [/\ (k < size ms)%N, size ms' = size ms,
      m_mut Ops ms (nth (mkMat 0 0 [::]) ms k) o = Ok (nth (mkMat 0 0 [::]) ms' k) &
      forall j, j != k -> nth (mkMat 0 0 [::]) ms' j = nth (mkMat 0 0 [::]) ms j].
Proof. exact (@life_m_spec T Ops ms k o ms'). Qed.
Print Assumptions C04_life_step.
(** every call that changes an object (Resize, Assign, Delete_Row/Column, M[i][j] = x, copies, =, +=, -=, = A + B, = A - B,
    = A.Transpose(), = A * s, = A / s, = Matrix(r,c), = Matrix()) re-establishes the class invariant; hence all live objects
    satisfy it at every point of every session, and the theorems above apply to an object of any past *)
Theorem C04_life_invariant (ms ms' : seq (mat T)) (A A' : mat T) (k : nat) (o : @mmut T) :
  all (@wf_mat T) ms -> mmut_ok o ->
  (wf_mat A -> m_mut Ops ms A o = Ok A' -> wf_mat A') /\
  (life_m Ops ms k o = Ok ms' -> all (@wf_mat T) ms').
Proof. exact (fun H Ho => conj (fun HA => @m_mut_wf T Ops ms A A' o H HA Ho) (@life_m_wf T Ops ms k o ms' H Ho)). Qed.
Print Assumptions C04_life_invariant.
(** "sums and differences ... agree with their compound-assignment forms", as objects: A += B and A = A + B (A -= B and
    A = A - B) leave the same object behind - and so the same answers of every member afterwards - also when B is A itself
    or another live object *)
Theorem C04_life_compound (ms : seq (mat T)) (A : mat T) (a : @marg T) : (0 < mrows A)%N ->
  m_mut Ops ms A (MuAddAssign a) = m_mut Ops ms A (MuPlus a) /\
  m_mut Ops ms A (MuSubAssign a) = m_mut Ops ms A (MuMinus a).
Proof. exact (@m_mut_compound T Ops ms A a). Qed.
Print Assumptions C04_life_compound.
(** the same for Vector *)
Theorem C04_life_vector (vs vs' : seq (vec T)) (v v' : vec T) (k : nat) (o : @vmut T) (a : @varg T) :
  [/\ life_v Ops vs k o = Ok vs' ->
      [/\ (k < size vs)%N, size vs' = size vs,
          v_mut Ops vs (nth (mkVec 0 [::]) vs k) o = Ok (nth (mkVec 0 [::]) vs' k) &
          forall j, j != k -> nth (mkVec 0 [::]) vs' j = nth (mkVec 0 [::]) vs j],
      all (@wf_vec T) vs -> vmut_ok o ->
        (wf_vec v -> v_mut Ops vs v o = Ok v' -> wf_vec v') /\
        (life_v Ops vs k o = Ok vs' -> all (@wf_vec T) vs'),
      v_mut Ops vs v (VuAddAssign a) = v_mut Ops vs v (VuPlus a) &
      v_mut Ops vs v (VuSubAssign a) = v_mut Ops vs v (VuMinus a)].
Proof.
  exact (And4 (@life_v_spec T Ops vs k o vs')
              (fun H Ho => conj (fun Hv => @v_mut_wf T Ops vs v v' o H Hv Ho) (@life_v_wf T Ops vs k o vs' H Ho))
              (proj1 (@v_mut_compound T Ops vs v a)) (proj2 (@v_mut_compound T Ops vs v a))).
Qed.
Print Assumptions C04_life_vector.
(** Whole sessions of ANY length ("all operator spellings" on objects that live on; [life_run] = the calls of a session made one
    after the other, the function the driver advances the live objects of a `life` case with; induction over the list of calls).
    A session splits at every point; an undefined call ends it. *)
Theorem C04_session_composition (st : @lstate T) (s : @lstep T) (l1 l2 : seq (@lstep T)) :
  [/\ life_run Ops st [::] = Ok st,
      life_run Ops st (s :: l1) = rbind (life_step Ops st s) (fun st1 => life_run Ops st1 l1) &
      life_run Ops st (l1 ++ l2) = rbind (life_run Ops st l1) (fun st1 => life_run Ops st1 l2)].
Proof. exact (And3 (life_run_nil Ops st) (life_run_cons Ops st s l1) (life_run_cat Ops st l1 l2)). Qed.
Print Assumptions C04_session_composition.
(** the class invariant holds for every live matrix and vector at the end of every session and after every prefix of it
    (operands written out in the calls being well-formed values), and no object appears or disappears *)
Theorem C04_session_invariant (steps : seq (@lstep T)) (n : nat) (st st' : @lstate T) :
  lstate_wf st -> all (@lstep_ok T) steps -> life_run Ops st steps = Ok st' ->
  [/\ lstate_wf st', size st'.1 = size st.1, size st'.2 = size st.2 &
      exists2 stn, life_run Ops st (take n steps) = Ok stn & lstate_wf stn].
Proof.
  exact (fun H1 H2 H3 => let: And3 a b c := @life_run_invariant T Ops steps st st' H1 H2 H3 in
                         And4 a b c (@life_run_prefix_invariant T Ops steps n st st' H1 H2 H3)).
Qed.
Print Assumptions C04_session_invariant.
(** frame: an object that no call of the session addresses holds at the end the value it had at the start - whatever the
    session did to the other objects, also with this object as their operand *)
Theorem C04_session_frame (steps : seq (@lstep T)) (st st' : @lstate T) : life_run Ops st steps = Ok st' ->
  (forall j, ~~ has (targets_m j) steps -> nth (mkMat 0 0 [::]) st'.1 j = nth (mkMat 0 0 [::]) st.1 j) /\
  (forall j, ~~ has (targets_v j) steps -> nth (mkVec 0 [::]) st'.2 j = nth (mkVec 0 [::]) st.2 j).
Proof. exact (@life_run_frame T Ops steps st st'). Qed.
Print Assumptions C04_session_frame.
(** "sums and differences ... agree with their compound-assignment forms" along whole sessions: writing v = v + b for every
    v += b and v = v - b for every v -= b, anywhere in a session of any length, changes nothing in the state the process ends
    in (nor whether it ends in exit); the same for matrices in sessions where a matrix has at least one row whenever += / -= is
    called on it ([rows_ok]; shapes with zero rows are outside the property's quantifier) *)
Theorem C04_session_compound (steps : seq (@lstep T)) (st : @lstate T) :
  life_run Ops st (map (@desugar_v T) steps) = life_run Ops st steps /\
  (rows_ok Ops st steps -> life_run Ops st (map (@desugar_m T) steps) = life_run Ops st steps).
Proof. exact (conj (life_run_desugar_v Ops steps st) (@life_run_desugar_m T Ops steps st)). Qed.
Print Assumptions C04_session_compound.

(** observers are functions of the current value only (the objects carry no cache): after ANY session every live object IS the
    fresh object built from its current entries - Vector(components) / Matrix(components) - so every observer (Norm, Trace, ...;
    any function [obs] of the object) answers on an object with a past - observer; mutator; observer, copies taken in between -
    what it answers on a fresh object of equal value.  This is what the `observer-cache` sessions compare on the implementation. *)
Theorem C04_session_observers_fresh (steps : seq (@lstep T)) (st st' : @lstate T) :
  lstate_wf st -> all (@lstep_ok T) steps -> life_run Ops st steps = Ok st' ->
  [/\ forall j, (j < size st'.2)%N -> vec_of (vcomps (nth (mkVec 0 [::]) st'.2 j)) = nth (mkVec 0 [::]) st'.2 j,
      forall j, (j < size st'.1)%N -> (0 < mrows (nth (mkMat 0 0 [::]) st'.1 j))%N ->
        mat_of_entries (mcomps (nth (mkMat 0 0 [::]) st'.1 j)) = Ok (nth (mkMat 0 0 [::]) st'.1 j) &
      forall B (obs : vec T -> B) j, (j < size st'.2)%N ->
        obs (nth (mkVec 0 [::]) st'.2 j) = obs (vec_of (vcomps (nth (mkVec 0 [::]) st'.2 j)))].
Proof.
  exact (fun H1 H2 H3 => And3 (proj1 (@session_objects_fresh T Ops steps st st' H1 H2 H3))
                              (proj2 (@session_objects_fresh T Ops steps st st' H1 H2 H3))
                              (fun B obs j Hj => @session_observers_fresh T Ops B obs steps st st' j H1 H2 H3 Hj)).
Qed.
Print Assumptions C04_session_observers_fresh.

(** Further algebraic laws "for every conformable shape", exact for every number type (no law of the scalars is used: the two
    sides perform the same operations on the same operands): transposition is additive and homogeneous, the trace of the
    transpose is the trace (both exit for a non-square matrix) *)
Theorem C04_transpose_linear (A B : mat T) (s : T) : (0 < mrows A)%N -> (0 < mcols A)%N -> (0 < mcols B)%N ->
  [/\ rbind (m_plus Ops A B) (transpose Ops)
      = rbind (transpose Ops A) (fun At => rbind (transpose Ops B) (fun Bt => m_plus Ops At Bt)),
      rbind (m_minus Ops A B) (transpose Ops)
      = rbind (transpose Ops A) (fun At => rbind (transpose Ops B) (fun Bt => m_minus Ops At Bt)),
      rbind (m_product_s Ops A s) (transpose Ops) = rbind (transpose Ops A) (fun At => m_product_s Ops At s),
      rbind (m_division Ops A s) (transpose Ops) = rbind (transpose Ops A) (fun At => m_division Ops At s) &
      rbind (transpose Ops A) (trace Ops) = trace Ops A].
Proof.
  exact (fun Hr Hc HcB => And5 (proj1 (@transpose_sum T Ops A B Hr Hc HcB)) (proj2 (@transpose_sum T Ops A B Hr Hc HcB))
                               (proj1 (@transpose_scale T Ops A s Hr Hc)) (proj2 (@transpose_scale T Ops A s Hr Hc))
                               (@trace_transpose T Ops A Hc)).
Qed.
Print Assumptions C04_transpose_linear.
(** Symmetric(A) holds exactly when Transpose() returns A itself (whenever == decides equality) *)
Theorem C04_symmetric_is_transpose_fixed (eqbP : forall x y : T, reflect (x = y) (neqb Ops x y)) (A : mat T) :
  wf_mat A -> (0 < mrows A)%N -> (0 < mcols A)%N -> (symmetric Ops A <-> transpose Ops A = Ok A).
Proof. exact (@symmetric_transpose T Ops eqbP A). Qed.
Print Assumptions C04_symmetric_is_transpose_fixed.
(** laws that need only x*y = y*x (so exact for doubles): u.v = v.u; v*A = transpose(A)*v and A*v = v*transpose(A) (the
    vector-matrix product IS the matrix-vector product with the transpose, guards included);
    transpose(outer(u,v)) = outer(v,u); transpose(A)*A is symmetric for every shape of A *)
Theorem C04_commutative_product_laws (mulC : forall x y : T, nmul Ops x y = nmul Ops y x) (A : mat T) (u v : vec T) :
  [/\ vdot Ops u v = vdot Ops v u,
      (0 < mcols A)%N -> v_mul_m Ops v A = rbind (transpose Ops A) (fun At => m_product_v Ops At v) /\
                         m_product_v Ops A v = rbind (transpose Ops A) (fun At => v_mul_m Ops v At),
      (0 < vdim v)%N -> transpose Ops (outer Ops u v) = Ok (outer Ops v u) &
      (forall x y : T, reflect (x = y) (neqb Ops x y)) -> forall G, (0 < mcols A)%N ->
        rbind (transpose Ops A) (fun At => m_product Ops At A) = Ok G -> symmetric Ops G].
Proof.
  exact (And4 (@dot_comm T Ops mulC u v) (@vecmat_transpose T Ops mulC v A) (@outer_transpose T Ops mulC u v)
              (fun eqbP G => @gram_symmetric T Ops mulC eqbP A G)).
Qed.
Print Assumptions C04_commutative_product_laws.
(** laws that need only x+y = y+x: A + B = B + A in every spelling, u + v = v + u (equal results, defined for the same pairs) *)
Theorem C04_sum_commutative (addC : forall x y : T, nadd Ops x y = nadd Ops y x) :
  (forall A B : mat T, m_plus Ops A B = m_plus Ops B A /\ m_op_plus Ops A B = m_op_plus Ops B A /\
                       m_add_assign Ops A B = m_add_assign Ops B A) /\
  (forall u v : vec T, vadd Ops u v = vadd Ops v u).
Proof. exact (@sum_comm T Ops addC). Qed.
Print Assumptions C04_sum_commutative.
(** Vector::Normalized() is the vector divided by its Norm() entry by entry, is always defined, keeps the size and the
    invariant; Normalize() leaves exactly that value in the object *)
Theorem C04_normalized (v : vec T) :
  [/\ v_normalized Ops v = rbind (vnorm Ops v) (fun nrm => Ok (vdivs Ops v nrm)),
      v_normalize Ops v = v_normalized Ops v,
      forall w, v_normalized Ops v = Ok w -> wf_vec w /\ vdim w = vdim v &
      exists w, v_normalized Ops v = Ok w].
Proof. exact (normalized_spec Ops v). Qed.
Print Assumptions C04_normalized.
(** "Sub_Matrix, Return_Row/Column ... agree with their definitions" for matrices RETURNED by the library.  [made Ops C]: C is
    handed out by a composition, of any depth, of the constructor from a table and the members / free functions listed in
    [C04_invariant_preserved] (sums, products, scalar forms, Transpose, Sub_Matrix, Delete_Row/Column, Outer_Vector_Product,
    Identity_Matrix, the fill / diagonal constructors) applied to returned objects.  Return_Row and Sub_Matrix read the
    storage wholesale (Vector(components[row]), Matrix(components)): on every returned object the row handed out has exactly
    Columns() entries (the stored row itself), and the minor is again a returned object with one row and one column less -
    induction over the derivation.  (Inverse, Rotation_Matrix, the QR factors and Round are outside the model: for them this
    is tested only, by the `made` cases of checks/C04.py.) *)
Theorem C04_returned_objects (C : mat T) : made Ops C ->
  wf_mat C /\ (forall i w, return_row C i = Ok w -> vdim w = mcols C /\ wf_vec w /\ vcomps w = nth [::] (mcomps C) i)
           /\ (forall k l S, (0 < mrows C)%N -> sub_matrix C k l = Ok S ->
                 [/\ made Ops S, mrows S = (mrows C).-1 & mcols S = (mcols C).-1]).
Proof.
  exact (fun H => conj (made_wf H) (conj (fun i w => @made_return_row T Ops C i w H)
                                         (fun k l S => @made_sub_matrix T Ops C k l S H))).
Qed.
Print Assumptions C04_returned_objects.
(** the invariant alone suffices for Return_Row, whatever produced the object *)
Theorem C04_return_row_size (C : mat T) (i : nat) (w : vec T) : wf_mat C -> return_row C i = Ok w ->
  vdim w = mcols C /\ wf_vec w /\ vcomps w = nth [::] (mcomps C) i.
Proof. exact (@return_row_size T C i w). Qed.
Print Assumptions C04_return_row_size.
(** "all public Vector and Matrix members and free operators" (observe_at): the stream insertion operators
    (model coq/C04_Print.v: the list of items `output << ...` inserts, [PNum x] = a number, the others the fixed
    strings of the source).  operator<<(ostream, Vector) on an object that satisfies the class invariant never exits or
    reads outside the storage and inserts exactly  "(" e_0 " , " e_1 " , " ... e_{n-1} ")"  - every component
    once, in order, for every dimension (n = 0: "()"). *)
Theorem C04_print_vector (v : vec T) : wf_vec v ->
  v_print v = Ok (PLP :: List.app (commas (vcomps v)) (PRP :: nil)) /\
  nums (PLP :: List.app (commas (vcomps v)) (PRP :: nil)) = vcomps v.
Proof. exact (@v_print_spec T Ops v). Qed.
Print Assumptions C04_print_vector.
(** operator<<(ostream, Matrix) on an object that satisfies the invariant (any shape, zero sizes included) never exits
    or reads outside the storage; the numbers it inserts are the stored entries in row-major order, each once,
    and it inserts Rows()-1 line ends; the printout is the concatenation of the rounds [m_round] of the outer loop. *)
Theorem C04_print_matrix (M : mat T) : wf_mat M ->
  m_print M = Ok (List.flat_map (m_round Ops M) (List.seq 0 (mrows M))) /\
  exists l, m_print M = Ok l /\ nums l = List.concat (mcomps M) /\ newlines l = (mrows M - 1)%coq_nat.
Proof. exact (fun H => conj (@m_print_rounds T Ops M H) (@m_print_nums T Ops M H)). Qed.
Print Assumptions C04_print_matrix.
End AnyNumberType.

(** Non-vacuity of the laws assumed above: the natural numbers satisfy them; a 2x3 * 3x2 instance,
    and the shape rule on 2x3 + 2x3 (defined), 2x3 + 3x2 and 2x3 + 2x2 (exit) - the witnesses of the
    defect fixed earlier. *)
Theorem C04_examples :
  (rbind (m_product NOps exA exB) (transpose NOps)
   = rbind (transpose NOps exB) (fun Bt => rbind (transpose NOps exA) (fun At => m_product NOps Bt At)) /\
   rbind (m_product NOps exA exB) (transpose NOps) = Ok (mkMat 2 2 [:: [:: 36; 48]; [:: 42; 57]]%N)) /\
  (m_product NOps exA (identity NOps 3) = Ok exA /\ m_product NOps (identity NOps 2) exA = Ok exA) /\
  (m_plus NOps exA exA = Ok (mk_mat 2 3 (fun i j => (i + 2 * j + (i + 2 * j))%N)) /\
   m_plus NOps exA exB = Exit /\ m_add_assign NOps exA exB = Exit /\
   m_plus NOps exA (mk_mat 2 2 (fun _ _ => 1%N)) = Exit).
Proof. exact (conj transpose_product_instance (conj mul_identity_instance sum_shape_instance)). Qed.
Print Assumptions C04_examples.

(** non-vacuity of [made]: transpose(minor(exA*exB)) is a returned object of depth 3, its row 0 has one entry *)
Theorem C04_examples_returned_objects :
  exists P S C w, [/\ m_product NOps exA exB = Ok P, sub_matrix P 0 1 = Ok S, transpose NOps S = Ok C &
                      made NOps C /\ return_row C 0 = Ok w /\ vdim w = 1%N].
Proof. exact made_instance. Qed.
Print Assumptions C04_examples_returned_objects.

(** non-vacuity of the printing theorems: a 3-vector, a 2x2 and a 3x1 matrix over nat, item for item; objects that break
    the invariant (storage shorter than the shape members say) are answered OOB by the model *)
Theorem C04_examples_print :
  v_print (mkVec 3 [:: 1; 2; 3]%N) = Ok [:: PLP; PNum 1; PCM; PNum 2; PCM; PNum 3; PRP]%N /\
  m_print (mkMat 2 2 [:: [:: 1; 2]; [:: 3; 4]]%N) = Ok [:: PLC; PNum 1; PTAB; PNum 2; PRC; PNL; PLF; PNum 3; PTAB; PNum 4; PRF]%N /\
  m_print (mkMat 3 1 [:: [:: 1]; [:: 2]; [:: 3]]%N) = Ok [:: PLC; PNum 1; PRC; PNL; PBAR; PNum 2; PBAR; PNL; PLF; PNum 3; PRF]%N /\
  wf_mat (mkMat 2 2 [:: [:: 1; 2]; [:: 3; 4]]%N) = true /\ wf_vec (mkVec 3 [:: 1; 2; 3]%N) = true /\
  v_print (mkVec 3 [:: 1; 2]%N) = OOB /\ m_print (mkMat 2 2 [:: [:: 1; 2]; [:: 3]]%N) = OOB.
Proof. exact print_instance. Qed.
Print Assumptions C04_examples_print.

Section CommutativeRing.
Variable R : comRingType.
Variables (divR : R -> R -> R) (absR sqrtR : R -> R) (ltR leR : R -> R -> bool).
Local Notation Ops := (ROps divR absR sqrtR ltR leR).
Local Notation ment := (ment Ops).
Local Notation vent := (vent Ops).

(** "products have entries sum_k a_ik*b_kj" and are defined exactly for conformable shapes *)
Theorem C04_product_entries (A B : mat R) : mcols A = mrows B ->
  exists2 C, m_product Ops A B = Ok C &
    [/\ wf_mat C, mrows C = mrows A, mcols C = mcols B &
        forall i j, (i < mrows A)%N -> (j < mcols B)%N ->
          ment C i j = \sum_(0 <= k < mcols A) ment A i k * ment B k j].
Proof. exact (@product_entries R divR absR sqrtR ltR leR A B). Qed.
Print Assumptions C04_product_entries.
Theorem C04_product_defined_iff (A B : mat R) :
  ((exists C, m_product Ops A B = Ok C) <-> mcols A = mrows B) /\
  (mcols A <> mrows B -> m_product Ops A B = Exit) /\ m_op_mul Ops A B = m_product Ops A B.
Proof. exact (let (a, b) := @product_defined_iff R divR absR sqrtR ltR leR A B in conj a (conj b erefl)). Qed.
Print Assumptions C04_product_defined_iff.
(** the same statements against MathComp's matrix algebra *)
Theorem C04_product_is_mulmx m p n (A B C : mat R) :
  mrows A = m -> mcols A = p -> mrows B = p -> mcols B = n -> m_product Ops A B = Ok C ->
  mx_of divR absR sqrtR ltR leR m n C = mx_of divR absR sqrtR ltR leR m p A *m mx_of divR absR sqrtR ltR leR p n B.
Proof. exact (@mx_of_product R divR absR sqrtR ltR leR m p n A B C). Qed.
Print Assumptions C04_product_is_mulmx.
Theorem C04_refinements (A B C : mat R) (s : R) :
  let mx := mx_of divR absR sqrtR ltR leR in
  [/\ (0 < mcols A)%N -> transpose Ops A = Ok C -> mx (mcols A) (mrows A) C = (mx (mrows A) (mcols A) A)^T,
      (0 < mrows A)%N -> m_plus Ops A B = Ok C -> mx (mrows A) (mcols A) C = mx (mrows A) (mcols A) A + mx (mrows A) (mcols A) B,
      (0 < mrows A)%N -> m_minus Ops A B = Ok C -> mx (mrows A) (mcols A) C = mx (mrows A) (mcols A) A - mx (mrows A) (mcols A) B,
      (0 < mrows A)%N -> m_product_s Ops A s = Ok C -> mx (mrows A) (mcols A) C = s *: mx (mrows A) (mcols A) A &
      forall n, mx n n (identity Ops n) = 1%:M].
Proof.
  exact (And5 (@mx_of_transpose R divR absR sqrtR ltR leR A C) (@mx_of_plus R divR absR sqrtR ltR leR A B C)
              (@mx_of_minus R divR absR sqrtR ltR leR A B C) (@mx_of_scale R divR absR sqrtR ltR leR A s C)
              (@mx_of_identity R divR absR sqrtR ltR leR)).
Qed.
Print Assumptions C04_refinements.
Theorem C04_sub_matrix_is_minor m n (A C : mat R) (i : 'I_m.+1) (j : 'I_n.+1) :
  wf_mat A -> mrows A = m.+1 -> mcols A = n.+1 -> sub_matrix A i j = Ok C ->
  mx_of divR absR sqrtR ltR leR m n C = row' i (col' j (mx_of divR absR sqrtR ltR leR m.+1 n.+1 A)).
Proof. exact (@mx_of_sub_matrix R divR absR sqrtR ltR leR m n A i j C). Qed.
Print Assumptions C04_sub_matrix_is_minor.

(** mat-vec, vec-mat, dot as sums; mat-vec as MathComp product with the column vector *)
Theorem C04_vector_products (A : mat R) (u v : vec R) :
  [/\ vdim v = mcols A -> m_product_v Ops A v
        = Ok (vec_of (tab (mrows A) (fun i => \sum_(0 <= j < mcols A) ment A i j * vent v j))),
      vdim v = mrows A -> v_mul_m Ops v A
        = Ok (vec_of (tab (mcols A) (fun j => \sum_(0 <= i < mrows A) vent v i * ment A i j))),
      vdim u = vdim v -> vdot Ops u v = Ok (\sum_(0 <= i < vdim u) vent u i * vent v i) &
      forall w, vdim v = mcols A -> m_product_v Ops A v = Ok w ->
        cv_of divR absR sqrtR ltR leR (mrows A) w
        = mx_of divR absR sqrtR ltR leR (mrows A) (mcols A) A *m cv_of divR absR sqrtR ltR leR (mcols A) v].
Proof.
  exact (And4 (@matvec_entries R divR absR sqrtR ltR leR A v) (@vecmat_entries R divR absR sqrtR ltR leR v A)
              (@dot_sum R divR absR sqrtR ltR leR u v) (@mx_of_matvec R divR absR sqrtR ltR leR A v)).
Qed.
Print Assumptions C04_vector_products.

(** cross product orthogonal to both factors *)
Theorem C04_cross_orthogonal (u v w : vec R) : vcross Ops u v = Ok w ->
  vdot Ops u w = Ok 0 /\ vdot Ops v w = Ok 0.
Proof. exact (@cross_orthogonal R divR absR sqrtR ltR leR u v w). Qed.
Print Assumptions C04_cross_orthogonal.

(** "Trace, Norm ... agree with their definitions": Trace = sum of the diagonal (= \tr), defined iff square;
    Norm = sqrt of the sum of the squared entries (sqrt uninterpreted) *)
Theorem C04_trace (A : mat R) :
  (mrows A = mcols A -> trace Ops A = Ok (\sum_(0 <= i < mrows A) ment A i i)) /\
  (mrows A <> mcols A -> trace Ops A = Exit) /\
  (forall n, mrows A = n -> mcols A = n -> trace Ops A = Ok (\tr (mx_of divR absR sqrtR ltR leR n n A))).
Proof.
  exact (conj (@trace_sum R divR absR sqrtR ltR leR A)
        (conj (@trace_nonsquare R Ops A)
              (fun n => @mx_of_trace R divR absR sqrtR ltR leR n A))).
Qed.
Print Assumptions C04_trace.
Theorem C04_norm (A : mat R) (v : vec R) :
  m_norm Ops A = sqrtR (\sum_(0 <= i < mrows A) \sum_(0 <= j < mcols A) ment A i j * ment A i j) /\
  vnorm Ops v = Ok (sqrtR (\sum_(0 <= i < vdim v) vent v i * vent v i)).
Proof. exact (conj (@norm_spec R divR absR sqrtR ltR leR A) (@vnorm_sum R divR absR sqrtR ltR leR v)). Qed.
Print Assumptions C04_norm.

(** Antisymmetric() scans j >= i including the diagonal and decides A = -A^T *)
Theorem C04_antisymmetric_iff (A : mat R) :
  antisymmetric Ops A <->
  (mrows A = mcols A /\ forall i j, (i < mrows A)%N -> (j < mrows A)%N -> ment A i j = - ment A j i).
Proof. exact (@antisymmetric_iff R divR absR sqrtR ltR leR A). Qed.
Print Assumptions C04_antisymmetric_iff.
(** "Vector and matrix algebra obeys the algebraic laws for every conformable shape": the laws that reorder sums, over the
    ring.  (A*B)*C = A*(B*C) for every conformable triple (m x n, n x p, p x q); both distributive laws; (s*A)*B = s*(A*B) *)
Theorem C04_product_associative (A B C : mat R) : mcols A = mrows B -> mcols B = mrows C ->
  rbind (m_product Ops A B) (fun AB => m_product Ops AB C) = rbind (m_product Ops B C) (fun BC => m_product Ops A BC) /\
  exists D, rbind (m_product Ops A B) (fun AB => m_product Ops AB C) = Ok D.
Proof. exact (@product_assoc R divR absR sqrtR ltR leR A B C). Qed.
Print Assumptions C04_product_associative.
Theorem C04_product_distributive (A B C : mat R) (s : R) :
  [/\ mcols A = mrows B -> same_shape B C -> (0 < mrows A)%N -> (0 < mrows B)%N ->
      rbind (m_plus Ops B C) (fun S => m_product Ops A S)
      = rbind (m_product Ops A B) (fun AB => rbind (m_product Ops A C) (fun AC => m_plus Ops AB AC)),
      mcols A = mrows C -> same_shape A B -> (0 < mrows A)%N ->
      rbind (m_plus Ops A B) (fun S => m_product Ops S C)
      = rbind (m_product Ops A C) (fun AC => rbind (m_product Ops B C) (fun BC => m_plus Ops AC BC)) &
      (0 < mrows A)%N -> mcols A = mrows B ->
      rbind (m_product_s Ops A s) (fun sA => m_product Ops sA B) = rbind (m_product Ops A B) (fun AB => m_product_s Ops AB s)].
Proof.
  exact (And3 (proj1 (@product_distr R divR absR sqrtR ltR leR A B C)) (proj2 (@product_distr R divR absR sqrtR ltR leR A B C))
              (@scale_product R divR absR sqrtR ltR leR A B s)).
Qed.
Print Assumptions C04_product_distributive.
(** Trace(A*B) = Trace(B*A) for A m x n and B n x m (both products square, of different sizes);
    Norm(transpose(A)) = Norm(A) *)
Theorem C04_trace_norm_laws (A B At : mat R) :
  (mcols A = mrows B -> mcols B = mrows A ->
   rbind (m_product Ops A B) (trace Ops) = rbind (m_product Ops B A) (trace Ops) /\
   exists t, rbind (m_product Ops A B) (trace Ops) = Ok t) /\
  ((0 < mcols A)%N -> transpose Ops A = Ok At -> m_norm Ops At = m_norm Ops A).
Proof. exact (conj (@trace_product_comm R divR absR sqrtR ltR leR A B) (@norm_transpose R divR absR sqrtR ltR leR A At)). Qed.
Print Assumptions C04_trace_norm_laws.
(** the dot product is additive and homogeneous (and symmetric, C04_commutative_product_laws); u x v = -(v x u) *)
Theorem C04_dot_cross_laws (u u' v w : vec R) (s : R) :
  [/\ vdim u = vdim v -> vdim u' = vdim v ->
      rbind (vadd Ops u u') (fun x => vdot Ops x v)
      = rbind (vdot Ops u v) (fun a => rbind (vdot Ops u' v) (fun b => Ok (a + b))),
      vdim u = vdim v -> vdim u' = vdim v -> vdot Ops (vscale Ops u s) v = rbind (vdot Ops u v) (fun a => Ok (a * s)) &
      vcross Ops u v = Ok w -> vcross Ops v u = Ok (vscale Ops w (-1))].
Proof.
  exact (And3 (fun H1 H2 => proj1 (@dot_bilinear R divR absR sqrtR ltR leR u u' v s H1 H2))
              (fun H1 H2 => proj2 (@dot_bilinear R divR absR sqrtR ltR leR u u' v s H1 H2))
              (@cross_anticomm R divR absR sqrtR ltR leR u v w)).
Qed.
Print Assumptions C04_dot_cross_laws.
End CommutativeRing.

Section RealClosedField.
Variable R : rcfType.
Variables (ltR leR : R -> R -> bool).
Local Notation Ops := (ROps (fun x y : R => x / y) Num.norm Num.sqrt ltR leR).
(** Normalized() of a vector with a non-zero entry is a unit vector: over a real closed field, with the field's division and
    square root as the model's / and sqrt, its dot product with itself and its Norm() are exactly 1 *)
Theorem C04_normalized_unit (v w : vec R) :
  (exists2 i, (i < vdim v)%N & vent Ops v i != 0) -> v_normalized Ops v = Ok w ->
  [/\ vdim w = vdim v, vdot Ops w w = Ok 1 & vnorm Ops w = Ok 1].
Proof. exact (@normalized_unit R ltR leR v w). Qed.
Print Assumptions C04_normalized_unit.
End RealClosedField.

(** Non-vacuity of the hypotheses of the session theorems (a session of eight calls on two matrices and two vectors over the
    natural numbers: well-formed start, admissible calls, [rows_ok], an untouched object, the state it ends in), of the
    commutative laws (nat), of the shape hypotheses of the ring laws (2x3, 3x4, 4x2, 3x2 over any ring) and of
    C04_normalized_unit (the vector (3,4) over any real closed field) *)
Theorem C04_examples_sessions_laws :
  [/\ lstate_wf exSt, all (@lstep_ok nat) exSteps, rows_ok NOps exSt exSteps, ~~ has (targets_m 1) exSteps &
      life_run NOps exSt exSteps
      = Ok ([:: mkMat 3 2 [:: [:: 0; 0]; [:: 0; 0]; [:: 0; 0]]; exB], [:: vec_of [:: 1; 2; 7]; vec_of [:: 4; 6; 8]])%N] /\
  inhabited (forall x y : nat, reflect (x = y) (neqb NOps x y)) /\
  (let v := vec_of [:: 1; 2]%N in
   [/\ v_mul_m NOps v exA = Ok (vec_of [:: 2; 8; 14]%N),
       rbind (transpose NOps exA) (fun At => m_product_v NOps At v) = Ok (vec_of [:: 2; 8; 14]%N),
       rbind (transpose NOps exA) (fun At => m_product NOps At exA)
         = Ok (mkMat 3 3 [:: [:: 1; 3; 5]; [:: 3; 13; 23]; [:: 5; 23; 41]]%N),
       symmetric NOps (mkMat 3 3 [:: [:: 1; 3; 5]; [:: 3; 13; 23]; [:: 5; 23; 41]]%N) &
       rbind (m_plus NOps exA exA) (transpose NOps)
         = rbind (transpose NOps exA) (fun At => rbind (transpose NOps exA) (fun Bt => m_plus NOps At Bt))]).
Proof. exact (conj history_instance (conj (inhabits NeqbP) comm_laws_instance)). Qed.
Print Assumptions C04_examples_sessions_laws.
Theorem C04_examples_ring_rcf :
  (forall R : comRingType,
   let A := mk_mat 2 3 (fun i j => (i + 2 * j)%:R) : mat R in
   let B := mk_mat 3 4 (fun i j => (3 * i + j + 1)%:R) : mat R in
   let C := mk_mat 4 2 (fun i j => (i * j)%:R) : mat R in
   let D := mk_mat 3 2 (fun i j => (i + j)%:R) : mat R in
   [/\ mcols A = mrows B, mcols B = mrows C, mcols A = mrows D /\ mcols D = mrows A,
       same_shape B B /\ (0 < mrows A)%N /\ (0 < mrows B)%N & mrows A <> mcols A]) /\
  (forall (R : rcfType) (ltR leR : R -> R -> bool),
   let Ops := ROps (fun x y : R => x / y) Num.norm Num.sqrt ltR leR in
   let v := vec_of [:: 3%:R; 4%:R] : vec R in
   (exists2 i, (i < vdim v)%N & vent Ops v i != 0) /\ exists w, v_normalized Ops v = Ok w).
Proof. exact (conj ring_shapes_instance normalized_instance). Qed.
Print Assumptions C04_examples_ring_rcf.

(** The ambient floating-point control state (model coq/C04_Amb.v: flush-to-zero, denormals-are-zero, rounding direction; the
    calls of OTHER facilities of the library an `amb` case makes before its request, [foreign_step] = what each of them does to that
    state as the library is now).  "A*I equals A exactly", "products have entries sum_k a_ik*b_kj", "scalar multiplication and
    division distribute over entries" are clauses about IEEE arithmetic in the state the process started with: they survive any
    sequence of calls of the other facilities because no such sequence, of any length, changes the state; a request made after it is
    answered as a pristine process answers it, and the number the driver prints next to the two answers is 0 exactly when the
    state is unchanged.  (That the C++ facilities do what [foreign_step] says is what the `amb` cases test on every run: the harness
    prints the control state the calls really leave and the answer of a pristine forked process.) *)
Theorem C04_foreign_calls_keep_control_state (cs : list foreign) (e : fenv) : foreign_run e cs = e.
Proof. exact (foreign_run_id cs e). Qed.
Print Assumptions C04_foreign_calls_keep_control_state.
Theorem C04_foreign_calls_compose (cs1 cs2 : list foreign) (e : fenv) :
  foreign_run e (cs1 ++ cs2) = foreign_run (foreign_run e cs1) cs2.
Proof. exact (foreign_run_app cs1 cs2 e). Qed.
Print Assumptions C04_foreign_calls_compose.
Theorem C04_ambient_answer (A : Type) (e0 : fenv) (cs : list foreign) (request : fenv -> A) :
  amb_answer e0 cs request = (request e0, request e0, 0%N).
Proof. exact (@amb_answer_pristine A e0 cs request). Qed.
Print Assumptions C04_ambient_answer.
Theorem C04_control_state_diff (a b : fenv) : (fenv_diff a b = 0%N) <-> (a = b).
Proof. exact (fenv_diff_zero a b). Qed.
Print Assumptions C04_control_state_diff.
Theorem C04_examples_control_state :
  (fenv_diff (mkFenv true false RNearest) fenv_default = 1%N) /\
  (fenv_diff (mkFenv false true RNearest) fenv_default = 2%N) /\
  (fenv_diff (mkFenv false false RTowardZero) fenv_default = 4%N) /\
  (foreign_run fenv_default (FEigenvalues :: FIntegrate :: FSample :: nil) = fenv_default).
Proof. exact fenv_diff_instances. Qed.
Print Assumptions C04_examples_control_state.

(** * Rounding: the "to rounding" clauses as theorems (coq/C04_Proofs_Round.v).
    "products have entries sum_k a_ik*b_kj", "dot ... coincide with the matrix product", "Norm ... agree with their definitions":
    for doubles these hold to rounding only.  The SAME model terms are instantiated at [FOpsOf fadd fsub fmul]: real numbers
    whose +, -, * are ANY functions satisfying the standard model of floating-point arithmetic with unit roundoff u
    (fl(x op y) = (x op y)(1+d), |d| <= u; adding to the accumulator's initial 0.0 is exact) - hypotheses of the Section,
    satisfied by IEEE doubles with u = 2^-53 as long as nothing underflows or overflows, by the exact arithmetic with u = 0
    and by an arithmetic that really rounds (C04_rounding_hypotheses_satisfiable).  [lsum f l] = sum of f over the list l.
    The S4 predicates of checks/C04.py (close_sum) use this very expression, ((1+u)^n - 1) * sum |x_i||y_i|, as their slack
    (plus an absolute term for products that underflow, which the hypotheses here exclude). *)
From Coq Require Import Reals.
From LP Require Import NumR C04_Proofs_Round.
Local Close Scope ring_scope.
Local Open Scope R_scope.

Section StandardModelOfRounding.
Variables (fadd fsub fmul : R -> R -> R) (u : R).
Hypothesis u_nonneg : 0 <= u.
Hypothesis fadd_model : forall x y, exists d, Rabs d <= u /\ fadd x y = (x + y) * (1 + d).
Hypothesis fsub_model : forall x y, exists d, Rabs d <= u /\ fsub x y = (x - y) * (1 + d).
Hypothesis fmul_model : forall x y, exists d, Rabs d <= u /\ fmul x y = (x * y) * (1 + d).
Hypothesis fadd_0_l : forall z, fadd 0 z = z.
Local Notation FOps := (FOpsOf fadd fsub fmul).
Local Notation ment := (ment FOps).
Local Notation vent := (vent FOps).

(** Vector::Dot / operator*(Vector), every dimension n:  |fl(u.v) - sum u_i v_i| <= ((1+u)^n - 1) sum |u_i||v_i|
    (so also Vector::Norm()^2 before the square root, p = q) *)
Theorem C04_dot_rounding_bound (p q : vec R) : vdim p = vdim q ->
  exists d, vdot FOps p q = Ok d /\
    Rabs (d - lsum (fun i => vent p i * vent q i) (List.seq 0 (vdim p)))
    <= ((1 + u) ^ vdim p - 1) * lsum (fun i => Rabs (vent p i) * Rabs (vent q i)) (List.seq 0 (vdim p)).
Proof. exact (dot_rounding_bound fadd fsub fmul u u_nonneg fadd_model fmul_model fadd_0_l p q). Qed.
Print Assumptions C04_dot_rounding_bound.

(** "products have entries sum_k a_ik*b_kj" to rounding: entry (i,j) of Product / operator* for every conformable shape
    m x n x k; likewise the components of Matrix*Vector and Vector*Matrix *)
Theorem C04_product_entry_rounding_bound (A B : mat R) (v : vec R) (i j : nat) :
  (mcols A = mrows B -> (i < mrows A)%coq_nat -> (j < mcols B)%coq_nat ->
   exists C, m_product FOps A B = Ok C /\ mrows C = mrows A /\ mcols C = mcols B /\
     Rabs (ment C i j - lsum (fun k => ment A i k * ment B k j) (List.seq 0 (mcols A)))
     <= ((1 + u) ^ mcols A - 1) * lsum (fun k => Rabs (ment A i k) * Rabs (ment B k j)) (List.seq 0 (mcols A))) /\
  (vdim v = mcols A -> (i < mrows A)%coq_nat ->
   exists w, m_product_v FOps A v = Ok w /\ vdim w = mrows A /\
     Rabs (vent w i - lsum (fun j => ment A i j * vent v j) (List.seq 0 (mcols A)))
     <= ((1 + u) ^ mcols A - 1) * lsum (fun j => Rabs (ment A i j) * Rabs (vent v j)) (List.seq 0 (mcols A))) /\
  (vdim v = mrows A -> (i < mcols A)%coq_nat ->
   exists w, v_mul_m FOps v A = Ok w /\ vdim w = mcols A /\
     Rabs (vent w i - lsum (fun j => vent v j * ment A j i) (List.seq 0 (mrows A)))
     <= ((1 + u) ^ mrows A - 1) * lsum (fun j => Rabs (vent v j) * Rabs (ment A j i)) (List.seq 0 (mrows A))).
Proof.
  exact (conj (product_entry_rounding_bound fadd fsub fmul u u_nonneg fadd_model fmul_model fadd_0_l A B i j)
        (conj (matvec_entry_rounding_bound fadd fsub fmul u u_nonneg fadd_model fmul_model fadd_0_l A v i)
              (vecmat_entry_rounding_bound fadd fsub fmul u u_nonneg fadd_model fmul_model fadd_0_l v A i))).
Qed.
Print Assumptions C04_product_entry_rounding_bound.

(** "Norm ... agree with their definitions" to rounding: the accumulator of squares of Matrix::Norm() (one accumulator over all
    rows*columns entries, row-major), before the square root *)
Theorem C04_norm2_rounding_bound (A : mat R) :
  let idx := List.list_prod (List.seq 0 (mrows A)) (List.seq 0 (mcols A)) in
  Rabs (m_norm2 FOps A - lsum (fun p => ment A (fst p) (snd p) * ment A (fst p) (snd p)) idx)
  <= ((1 + u) ^ (mrows A * mcols A)%coq_nat - 1) * lsum (fun p => Rabs (ment A (fst p) (snd p)) * Rabs (ment A (fst p) (snd p))) idx.
Proof. exact (norm2_rounding_bound fadd fsub fmul u u_nonneg fadd_model fmul_model fadd_0_l A). Qed.
Print Assumptions C04_norm2_rounding_bound.

(** "sums and differences are element-wise": every entry of += / -= (by C04_sum_spellings_agree also of Plus / Minus /
    operator+ / operator-) is the exact sum / difference of the two entries within one rounding, u * |a +- b| *)
Theorem C04_sum_entry_rounding_bound (A B : mat R) (i j : nat) :
  mrows A = mrows B -> mcols A = mcols B -> (i < mrows A)%coq_nat -> (j < mcols A)%coq_nat ->
  (exists C, m_add_assign FOps A B = Ok C /\
     Rabs (ment C i j - (ment A i j + ment B i j)) <= u * Rabs (ment A i j + ment B i j)) /\
  (exists C, m_sub_assign FOps A B = Ok C /\
     Rabs (ment C i j - (ment A i j - ment B i j)) <= u * Rabs (ment A i j - ment B i j)).
Proof. exact (sum_entry_rounding_bound fadd fsub fmul u fadd_model fsub_model A B i j). Qed.
Print Assumptions C04_sum_entry_rounding_bound.
End StandardModelOfRounding.

(** corollary: an exact arithmetic (u = 0) computes the exact sum *)
Theorem C04_dot_exact_arithmetic (p q : vec R) : vdim p = vdim q ->
  vdot (FOpsOf Rplus Rminus Rmult) p q = Ok (lsum (fun i => vent ROps p i * vent ROps q i) (List.seq 0 (vdim p))).
Proof. exact (dot_exact p q). Qed.
Print Assumptions C04_dot_exact_arithmetic.

(** non-vacuity: the exact arithmetic satisfies the hypotheses with u = 0; an arithmetic that inflates every non-trivial
    result by (1 + u/2) satisfies them with u = 1/4 > 0, and its dot product (1,1).(1,1) is not the exact 2 *)
Theorem C04_rounding_hypotheses_satisfiable :
  ((forall x y, exists d, Rabs d <= 0 /\ x + y = (x + y) * (1 + d)) /\
   (forall x y, exists d, Rabs d <= 0 /\ x - y = (x - y) * (1 + d)) /\
   (forall x y, exists d, Rabs d <= 0 /\ x * y = (x * y) * (1 + d)) /\ (forall z, 0 + z = z)) /\
  ((forall x y, exists d, Rabs d <= /4 /\ infl_add (/4) x y = (x + y) * (1 + d)) /\
   (forall x y, exists d, Rabs d <= /4 /\ infl_sub (/4) x y = (x - y) * (1 + d)) /\
   (forall x y, exists d, Rabs d <= /4 /\ infl_mul (/4) x y = (x * y) * (1 + d)) /\ (forall z, infl_add (/4) 0 z = z) /\
   vdot (FOpsOf (infl_add (/4)) (infl_sub (/4)) (infl_mul (/4))) (mkVec 2 (1 :: 1 :: nil)) (mkVec 2 (1 :: 1 :: nil)) <> Ok 2).
Proof. exact rounding_hypotheses_satisfiable. Qed.
Print Assumptions C04_rounding_hypotheses_satisfiable.
