(** * C18 proofs, part 4 (reals): Sample_Metropolis on a bounded domain with a target density that draws random numbers
    itself (section [ModelSt]): every returned sample lies in the domain, whatever the density does with the
    generator, as long as what it leaves in the generator is still a stream of canonical uniforms (>= 0). *)
From Coq Require Import ZArith List Bool Lia Arith Reals Lra Psatz.
From LP Require Import Num NumR C18_Model C18_Proofs C18_Proofs_R C18_Proofs_St.
Import ListNotations.
Local Open Scope R_scope.

Section StR.
Context {A : Type}.
Notation st := (@st R A).
Definition stream_ok (s : st) : Prop := Forall (fun u => 0 <= u) (fst s).
(** the user function may consume, skip or reorder: all that is needed is that it leaves canonical uniforms behind *)
Definition keeps_stream (PDF : @sfun1 R A) : Prop :=
  forall x s v s', PDF x s = Ok (v, s') -> stream_ok s -> stream_ok s'.

Lemma draw_ok (s : st) u s' : draw s = Ok (u, s') -> stream_ok s -> 0 <= u /\ stream_ok s'.
Proof.
  destruct s as [[|u0 r] a]; simpl; [discriminate|]. intros H; inversion H; subst.
  unfold stream_ok; simpl. intros Hs; inversion Hs; subst. now split.
Qed.

Lemma accept1_st_outside PDF lo hi x y (s : st) a s' : y < lo \/ hi < y ->
  accept1_st ROps PDF (Some (lo, hi)) x y s = Ok (a, s') -> a = 0 /\ s' = s.
Proof.
  intros Hy. unfold accept1_st, inside1, ngtb. cbn [nltb ROps n0].
  destruct (Rltb_spec y lo), (Rltb_spec hi y); simpl orb; simpl negb; cbv iota; try (intros H; inversion H; now split); lra.
Qed.

Lemma accept1_st_ok PDF dom x y (s : st) a s' : keeps_stream PDF ->
  accept1_st ROps PDF dom x y s = Ok (a, s') -> stream_ok s -> stream_ok s'.
Proof.
  intros HP. unfold accept1_st. destruct (inside1 ROps dom y).
  - destruct (PDF y s) as [[fc s1]| | |] eqn:E1; try discriminate; cbn [rbind fst snd].
    destruct (PDF x s1) as [[fx s2]| | |] eqn:E2; try discriminate; cbn [rbind fst snd].
    intros H Hs; inversion H; subst. eapply HP; [exact E2|]. eapply HP; [exact E1|exact Hs].
  - intros H Hs; inversion H; subst; exact Hs.
Qed.

Lemma metro_loop_st_in_domain PDF sigma lo hi burn thin imax fuel : keeps_stream PDF ->
  forall (s : st) i x acc l s',
  stream_ok s -> lo <= x <= hi -> Forall (fun z => lo <= z <= hi) acc ->
  metro_loop_st ROps fuel PDF sigma (Some (lo, hi)) burn thin imax s i x acc = Ok (l, s') ->
  Forall (fun z => lo <= z <= hi) l.
Proof.
  intros HP. induction fuel as [|fuel IH]; intros s i x acc l s' Hs Hx Hacc; cbn [metro_loop_st];
    destruct (i <? imax)%Z; try discriminate;
    try (intros H; inversion H; subst; apply Forall_rev; assumption).
  destruct (draw s) as [[u1 t1]| | |] eqn:D1; try discriminate; cbn [rbind fst snd].
  destruct (draw_ok _ _ _ D1 Hs) as [Hu1 Ht1].
  destruct (gauss_of ROps u1 x sigma) as [cand| | |]; try discriminate; cbn [rbind fst snd].
  destruct (accept1_st ROps PDF (Some (lo, hi)) x cand t1) as [[a t2]| | |] eqn:EA; try discriminate; cbn [rbind fst snd].
  pose proof (accept1_st_ok _ _ _ _ _ _ _ HP EA Ht1) as Ht2.
  destruct (draw t2) as [[u2 t3]| | |] eqn:D2; try discriminate; cbn [rbind fst snd].
  destruct (draw_ok _ _ _ D2 Ht2) as [Hu2 Ht3].
  set (x' := if nltb ROps (unif ROps u2 (n0 ROps) (n1 ROps)) a then cand else x).
  assert (Hx' : lo <= x' <= hi).
  { unfold x'. rewrite unif01_R. cbn [nltb ROps]. destruct (Rltb_spec u2 a) as [Hlt|]; [|assumption].
    destruct (Rlt_dec cand lo) as [H1|H1];
      [destruct (accept1_st_outside _ _ _ _ _ _ _ _ (or_introl H1) EA) as [-> _]; lra|].
    destruct (Rlt_dec hi cand) as [H2|H2];
      [destruct (accept1_st_outside _ _ _ _ _ _ _ _ (or_intror H2) EA) as [-> _]; lra|].
    lra. }
  intros H. eapply IH; [exact Ht3|exact Hx'| |exact H]. destruct (metro_keep burn thin i); [constructor|]; assumption.
Qed.

Theorem metropolis_st_in_domain PDF sigma sample thin burn lo hi (s : st) l s' :
  keeps_stream PDF -> lo <= hi -> Forall (fun u => 0 <= u < 1) (fst s) ->
  sample_metropolis_st ROps PDF sigma sample thin burn [lo; hi] s = Ok (l, s') ->
  Forall (fun z => lo <= z <= hi) l.
Proof.
  intros HP Hd Hus. unfold sample_metropolis_st.
  destruct s as [[|u r] a]; simpl draw; [discriminate|]. cbn [rbind fst snd].
  simpl in Hus. inversion Hus as [|? ? Hu Hus']; subst.
  apply metro_loop_st_in_domain; auto.
  - unfold stream_ok; simpl. eapply Forall_impl; [|exact Hus']. intros; simpl in *; lra.
  - destruct (unif_range u lo hi Hd Hu) as (H & _). exact H.
Qed.
End StR.
