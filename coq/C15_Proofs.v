(** * C15 proofs: the Householder reflection and the similarity step of the QR iteration, over the reals, any dimension. *)
From Coq Require Import Reals ZArith List Lra Lia Psatz Bool Arith.
From LP Require Import Num NumR C15_Model.
Import ListNotations.
Local Open Scope R_scope.

(** ** Finite sums  rsum f n = f 0 + ... + f (n-1) *)
Fixpoint rsum (f : nat -> R) (n : nat) : R := match n with O => 0 | S k => rsum f k + f k end.
Definition dlt (i j : nat) : R := if Nat.eqb i j then 1 else 0.

Lemma rsum_ext f g n : (forall k, (k < n)%nat -> f k = g k) -> rsum f n = rsum g n.
Proof. induction n; cbn; intros H; [reflexivity|]. rewrite IHn, H; auto. Qed.
Lemma rsum_plus f g n : rsum (fun k => f k + g k) n = rsum f n + rsum g n.
Proof. induction n; cbn; [ring|]. rewrite IHn. ring. Qed.
Lemma rsum_minus f g n : rsum (fun k => f k - g k) n = rsum f n - rsum g n.
Proof. induction n; cbn; [ring|]. rewrite IHn. ring. Qed.
Lemma rsum_scal c f n : rsum (fun k => c * f k) n = c * rsum f n.
Proof. induction n; cbn; [ring|]. rewrite IHn. ring. Qed.
Lemma rsum_scal_r c f n : rsum (fun k => f k * c) n = rsum f n * c.
Proof. induction n; cbn; [ring|]. rewrite IHn. ring. Qed.
Lemma rsum_zero n : rsum (fun _ => 0) n = 0.
Proof. induction n; cbn; [reflexivity|]. rewrite IHn. ring. Qed.
Lemma rsum_switch (f : nat -> nat -> R) n m :
  rsum (fun i => rsum (fun j => f i j) m) n = rsum (fun j => rsum (fun i => f i j) n) m.
Proof.
  induction n; cbn.
  - symmetry. apply rsum_zero.
  - rewrite IHn, <- rsum_plus. reflexivity.
Qed.
Lemma rsum_nonneg f n : (forall k, (k < n)%nat -> 0 <= f k) -> 0 <= rsum f n.
Proof. induction n; cbn; intros H; [lra|]. pose proof (IHn (fun k Hk => H k (Nat.lt_lt_succ_r _ _ Hk))). pose proof (H n (Nat.lt_succ_diag_r n)). lra. Qed.
Lemma rsum_pos_term f n k : (forall j, (j < n)%nat -> 0 <= f j) -> (k < n)%nat -> 0 < f k -> 0 < rsum f n.
Proof.
  induction n; cbn; intros H Hk Hp; [lia|].
  destruct (Nat.eq_dec k n) as [-> | Hne].
  - pose proof (rsum_nonneg f n (fun j Hj => H j (Nat.lt_lt_succ_r _ _ Hj))). lra.
  - assert (0 < rsum f n) by (apply IHn; [intros; apply H; lia | lia | exact Hp]).
    pose proof (H n (Nat.lt_succ_diag_r n)). lra.
Qed.
(** sum against a Kronecker delta *)
Lemma rsum_dlt_l f n i : (i < n)%nat -> rsum (fun k => dlt k i * f k) n = f i.
Proof.
  induction n; intros Hi; [lia|]. cbn. unfold dlt at 2. destruct (Nat.eqb_spec n i) as [-> | Hne].
  - rewrite (rsum_ext _ (fun _ => 0)), rsum_zero; [ring|].
    intros k Hk. unfold dlt. destruct (Nat.eqb_spec k i); [lia | ring].
  - rewrite IHn by lia. ring.
Qed.
Lemma rsum_dlt_r f n i : (i < n)%nat -> rsum (fun k => dlt i k * f k) n = f i.
Proof.
  intros Hi. rewrite <- (rsum_dlt_l f n i Hi). apply rsum_ext. intros k _. unfold dlt. rewrite Nat.eqb_sym. reflexivity.
Qed.
Lemma dlt_sym i j : dlt i j = dlt j i.
Proof. unfold dlt. rewrite Nat.eqb_sym. reflexivity. Qed.

(** ** The list model, entry by entry *)
Lemma nth_map_seq {A} (f : nat -> A) n i d : (i < n)%nat -> nth i (map f (seq 0 n)) d = f i.
Proof.
  intros Hi. rewrite (nth_indep _ d (f 0%nat)) by (rewrite map_length, seq_length; exact Hi).
  rewrite map_nth. rewrite seq_nth by exact Hi. reflexivity.
Qed.
Lemma ment_mk r c f i j : (i < r)%nat -> (j < c)%nat -> ment ROps (mk r c f) i j = f i j.
Proof.
  intros Hi Hj. unfold ment, mk, nth0. rewrite nth_map_seq by exact Hi. cbn. apply nth_map_seq. exact Hj.
Qed.
Lemma fold_dot_acc (l : list (R * R)) acc :
  fold_left (fun a p => a + fst p * snd p) l acc = acc + fold_left (fun a p => a + fst p * snd p) l 0.
Proof.
  revert acc. induction l as [| p l IH]; intros acc; cbn; [ring|].
  rewrite IH, (IH (0 + fst p * snd p)). ring.
Qed.
Lemma combine_snoc {A B} (a : list A) (b : list B) x y : length a = length b ->
  combine (a ++ [x]) (b ++ [y]) = combine a b ++ [(x, y)].
Proof.
  revert b. induction a as [| h a IH]; intros [| g b] H; cbn in *; try discriminate; [reflexivity|].
  rewrite IH by lia. reflexivity.
Qed.
(** Vector::Dot of two lists of length n is the finite sum of the products *)
Lemma vdot_rsum (a b : list R) n : length a = n -> length b = n ->
  vdot ROps a b = rsum (fun k => nth k a 0 * nth k b 0) n.
Proof.
  unfold vdot. cbn [n0 ROps nadd nmul]. revert b n.
  induction a as [| x a IH] using rev_ind; intros b n Ha Hb.
  - cbn in Ha. subst n. reflexivity.
  - rewrite app_length in Ha. cbn in Ha. destruct n as [| n]; [lia|].
    assert (length a = n) as Han by lia.
    destruct (@exists_last _ b) as (b' & y & ->); [intro E; subst b; cbn in Hb; lia|].
    rewrite app_length in Hb. cbn in Hb. assert (length b' = n) as Hbn by lia.
    rewrite combine_snoc by lia. rewrite fold_left_app. cbn [combine fold_left fst snd].
    rewrite (IH b' n Han Hbn). cbn [rsum]. f_equal.
    + apply rsum_ext. intros k Hk. rewrite !app_nth1 by lia. reflexivity.
    + rewrite !app_nth2 by lia. rewrite Han, Hbn, Nat.sub_diag. reflexivity.
Qed.

(** ** The Householder reflection, as index functions (any dimension n >= 1) *)
Section Householder.
Variable n : nat.
Hypothesis Hn : (0 < n)%nat.
Variable x : nat -> R.
Let S2 := rsum (fun k => x k * x k) n.
Hypothesis HS : 0 < S2.
Variable alpha : R.
Hypothesis Ha2 : alpha * alpha = S2.
Hypothesis Hax : alpha * x 0%nat <= 0.
Let v (i : nat) := x i - dlt i 0 * alpha.
Let N2 := rsum (fun k => v k * v k) n.

Lemma hh_N2_eq : N2 = 2 * (S2 - alpha * x 0%nat).
Proof.
  unfold N2.
  rewrite (rsum_ext _ (fun k => x k * x k - (2 * alpha) * (dlt k 0 * x k) + (alpha * alpha) * (dlt k 0 * dlt k 0)))
    by (intros; unfold v; ring).
  rewrite rsum_plus, rsum_minus, !rsum_scal, (rsum_dlt_l x n 0 Hn), (rsum_dlt_l (fun k => dlt k 0) n 0 Hn).
  fold S2. unfold dlt. cbn. rewrite Ha2. ring.
Qed.
Lemma hh_N2_pos : 0 < N2.
Proof. rewrite hh_N2_eq. lra. Qed.
Lemma hh_N2_ge : 2 * S2 <= N2.
Proof. rewrite hh_N2_eq. lra. Qed.

Let u (i : nat) := v i / sqrt N2.
Lemma hh_sq : sqrt N2 * sqrt N2 = N2.
Proof. apply sqrt_sqrt. pose proof hh_N2_pos. lra. Qed.
Lemma hh_sqrt_pos : 0 < sqrt N2.
Proof. apply sqrt_lt_R0, hh_N2_pos. Qed.
Lemma hh_u_unit : rsum (fun k => u k * u k) n = 1.
Proof.
  pose proof hh_sqrt_pos as P. pose proof hh_sq as Q. pose proof hh_N2_pos as NP.
  assert (forall k, (k < n)%nat -> u k * u k = / N2 * (v k * v k)) as E.
  { intros k _. unfold u. replace (v k / sqrt N2 * (v k / sqrt N2)) with (v k * v k / (sqrt N2 * sqrt N2)) by (field; lra).
    rewrite Q. field. lra. }
  rewrite (rsum_ext _ _ n E), rsum_scal. change (rsum (fun k => v k * v k) n) with N2. field. lra.
Qed.

Let H (i j : nat) := dlt i j - 2 * (u i * u j).
Lemma hh_sym i j : H i j = H j i.
Proof. unfold H. rewrite dlt_sym. ring. Qed.
Lemma hh_orth i j : (i < n)%nat -> (j < n)%nat -> rsum (fun k => H k i * H k j) n = dlt i j.
Proof.
  intros Hi Hj.
  rewrite (rsum_ext _ (fun k => dlt k i * dlt k j - (2 * u j) * (dlt k i * u k) - (2 * u i) * (dlt k j * u k) + (4 * u i * u j) * (u k * u k)))
    by (intros; unfold H; ring).
  rewrite rsum_plus, !rsum_minus, !rsum_scal, hh_u_unit.
  rewrite (rsum_dlt_l (fun k => dlt k j) n i Hi), (rsum_dlt_l u n i Hi), (rsum_dlt_l u n j Hj). ring.
Qed.
Lemma hh_vx : rsum (fun j => v j * x j) n = N2 / 2.
Proof.
  rewrite (rsum_ext _ (fun k => x k * x k - alpha * (dlt k 0 * x k))) by (intros; unfold v; ring).
  rewrite rsum_minus, rsum_scal, (rsum_dlt_l x n 0 Hn). fold S2. rewrite hh_N2_eq. field.
Qed.
Lemma hh_reflects i : (i < n)%nat -> rsum (fun j => H i j * x j) n = dlt i 0 * alpha.
Proof.
  intros Hi. pose proof hh_sqrt_pos as P. pose proof hh_sq as Q. pose proof hh_N2_pos as NP.
  assert (forall j, (j < n)%nat -> H i j * x j = dlt i j * x j - (2 * u i / sqrt N2) * (v j * x j)) as E.
  { intros j _. unfold H, u. field. lra. }
  rewrite (rsum_ext _ _ n E), rsum_minus, rsum_scal, (rsum_dlt_r x n i Hi), hh_vx. unfold u.
  replace (2 * (v i / sqrt N2) / sqrt N2 * (N2 / 2)) with (v i * (N2 / (sqrt N2 * sqrt N2))) by (field; lra).
  rewrite Q. unfold v. field. lra.
Qed.
End Householder.

(** ** The list model of Householder_Matrix *)
Lemma nth_map_lt {A B} (f : A -> B) l i d d' : (i < length l)%nat -> nth i (map f l) d' = f (nth i l d).
Proof. intros H. rewrite (nth_indep _ d' (f d)) by (rewrite map_length; exact H). apply map_nth. Qed.

Lemma delta_dlt i j : delta ROps i j = dlt i j.
Proof. reflexivity. Qed.

Section HouseholderModel.
Variable m : list (list R).
Let x := mcol ROps m 0.
Let n := length x.
Let xf (k : nat) := nth k x 0.
Hypothesis Hx : exists k, (k < n)%nat /\ xf k <> 0.
Let alpha := householder_alpha ROps x.
Let w := map (fun i => xf i - dlt i 0 * alpha) (seq 0 n).
Let Hm := householder ROps m.

Lemma hm_n_pos : (0 < n)%nat.
Proof. destruct Hx as (k & Hk & _). lia. Qed.
Lemma hm_S2 : vdot ROps x x = rsum (fun k => xf k * xf k) n.
Proof. apply vdot_rsum; reflexivity. Qed.
Lemma hm_S2_pos : 0 < rsum (fun k => xf k * xf k) n.
Proof.
  destruct Hx as (k & Hk & Hne). apply (rsum_pos_term _ n k); [| exact Hk |].
  - intros j _. apply Rle_0_sqr.
  - fold (Rsqr (xf k)). apply Rlt_0_sqr. exact Hne.
Qed.
Lemma hm_alpha : alpha * alpha = rsum (fun k => xf k * xf k) n /\ alpha * xf 0%nat <= 0.
Proof.
  pose proof hm_S2_pos as P. pose proof hm_S2 as E.
  unfold alpha, householder_alpha, vnorm, sign2, sign1, ngtb, nth0. cbn [ROps nsqrt n0 n1 nltb neqb nmul nneg].
  rewrite E. set (S2 := rsum _ n) in *. fold (xf 0%nat).
  assert (0 < sqrt S2) as SP by (apply sqrt_lt_R0; exact P).
  assert (sqrt S2 * sqrt S2 = S2) as SQ by (apply sqrt_sqrt; lra).
  destruct (Rltb_spec 0 (sqrt S2)) as [_ | N]; [| lra].
  destruct (Rltb_spec 0 (- xf 0%nat)) as [Q | Q].
  - cbn. split; [exact SQ | nra].
  - destruct (Reqb_spec (- xf 0%nat) 0) as [Z | Z]; cbn; split; nra.
Qed.

Let v (i : nat) := xf i - dlt i 0 * alpha.
Let N2 := rsum (fun k => v k * v k) n.
Lemma hm_w_len : length w = n.
Proof. unfold w. rewrite map_length, seq_length. reflexivity. Qed.
Lemma hm_w_nth k : (k < n)%nat -> nth k w 0 = v k.
Proof. intros Hk. unfold w. apply nth_map_seq. exact Hk. Qed.
Lemma hm_ww : vdot ROps w w = N2.
Proof.
  rewrite (vdot_rsum w w n hm_w_len hm_w_len). apply rsum_ext. intros k Hk. rewrite hm_w_nth by exact Hk. reflexivity.
Qed.
Lemma hm_N2_pos : 0 < N2.
Proof. destruct hm_alpha as [A1 A2]. exact (hh_N2_pos n hm_n_pos xf hm_S2_pos alpha A1 A2). Qed.
(** the vector that is normalised is not zero: u is well defined *)
Lemma hm_u_well_defined : 0 < vdot ROps w w /\ 2 * vdot ROps x x <= vdot ROps w w.
Proof.
  rewrite hm_ww, hm_S2. split; [exact hm_N2_pos|]. destruct hm_alpha as [A1 A2].
  exact (hh_N2_ge n hm_n_pos xf alpha A1 A2).
Qed.
Lemma hm_u_nth i : (i < n)%nat -> nth i (householder_u ROps x) 0 = v i / sqrt N2.
Proof.
  intros Hi. unfold householder_u, vnormalize, vnorm, nth0. cbn [ROps nsqrt ndiv nsub nmul].
  change (map (fun i0 => nth i0 x (n0 ROps) - delta ROps i0 0 * householder_alpha ROps x) (seq 0 (length x))) with w.
  rewrite (nth_map_lt _ w i 0 0) by (rewrite hm_w_len; exact Hi). rewrite hm_ww, hm_w_nth by exact Hi. reflexivity.
Qed.
Lemma hm_entry i j : (i < n)%nat -> (j < n)%nat ->
  ment ROps Hm i j = dlt i j - 2 * (v i / sqrt N2 * (v j / sqrt N2)).
Proof.
  intros Hi Hj. unfold Hm, householder. fold x. fold n. rewrite ment_mk by assumption.
  unfold nth0. cbn [ROps n0 nsub nmul nofZ]. rewrite !hm_u_nth by assumption. reflexivity.
Qed.

Lemma hm_symmetric i j : (i < n)%nat -> (j < n)%nat -> ment ROps Hm i j = ment ROps Hm j i.
Proof. intros Hi Hj. rewrite !hm_entry by assumption. rewrite dlt_sym. ring. Qed.
Lemma hm_orthogonal i j : (i < n)%nat -> (j < n)%nat ->
  rsum (fun k => ment ROps Hm k i * ment ROps Hm k j) n = dlt i j.
Proof.
  intros Hi Hj. destruct hm_alpha as [A1 A2].
  rewrite <- (hh_orth n hm_n_pos xf hm_S2_pos alpha A1 A2 i j Hi Hj).
  apply rsum_ext. intros k Hk. rewrite !hm_entry by assumption. reflexivity.
Qed.
Lemma hm_reflects i : (i < n)%nat -> rsum (fun j => ment ROps Hm i j * xf j) n = dlt i 0 * alpha.
Proof.
  intros Hi. destruct hm_alpha as [A1 A2].
  rewrite <- (hh_reflects n hm_n_pos xf hm_S2_pos alpha A1 A2 i Hi).
  apply rsum_ext. intros j Hj. rewrite hm_entry by assumption. reflexivity.
Qed.
End HouseholderModel.

(** ** One sweep of the QR iteration is a similarity transformation (index functions, any n) *)
Section Similarity.
Variable n : nat.
Variables q r a : nat -> nat -> R.
Hypothesis HA : forall i j, (i < n)%nat -> (j < n)%nat -> a i j = rsum (fun k => q i k * r k j) n.          (* A = Q R *)
Hypothesis HQ : forall i j, (i < n)%nat -> (j < n)%nat -> rsum (fun k => q k i * q k j) n = dlt i j.        (* Q^T Q = 1 *)

Lemma sim_entries i j : (i < n)%nat -> (j < n)%nat ->
  rsum (fun k => r i k * q k j) n = rsum (fun k => q k i * rsum (fun l => a k l * q l j) n) n.
Proof.
  intros Hi Hj. set (t := fun m => rsum (fun l => r m l * q l j) n).
  assert (forall k, (k < n)%nat -> rsum (fun l => a k l * q l j) n = rsum (fun m => q k m * t m) n) as E1.
  { intros k Hk.
    rewrite (rsum_ext _ (fun l => rsum (fun m => q k m * r m l * q l j) n)).
    - rewrite rsum_switch. apply rsum_ext. intros m _. unfold t. rewrite <- rsum_scal. apply rsum_ext. intros l _. ring.
    - intros l Hl. rewrite (HA k l Hk Hl), <- rsum_scal_r. reflexivity. }
  symmetry. rewrite (rsum_ext _ (fun k => rsum (fun m => q k i * q k m * t m) n)).
  - rewrite rsum_switch.
    rewrite (rsum_ext _ (fun m => dlt i m * t m)).
    + rewrite rsum_dlt_r by exact Hi. reflexivity.
    + intros m Hm. rewrite <- (HQ i m Hi Hm), <- rsum_scal_r. reflexivity.
  - intros k Hk. rewrite (E1 k Hk), <- rsum_scal. apply rsum_ext. intros m _. ring.
Qed.

(** trace(R Q) = trace(Q R) = trace(A): needs no orthogonality *)
Lemma sim_trace : rsum (fun i => rsum (fun k => r i k * q k i) n) n = rsum (fun i => a i i) n.
Proof.
  rewrite rsum_switch. apply rsum_ext. intros k Hk. rewrite (HA k k Hk Hk). apply rsum_ext. intros i _. ring.
Qed.
End Similarity.

(** if A is symmetric, Q^T A Q is symmetric *)
Lemma sim_symmetric n (q a : nat -> nat -> R) :
  (forall i j, (i < n)%nat -> (j < n)%nat -> a i j = a j i) ->
  forall i j, rsum (fun k => q k i * rsum (fun l => a k l * q l j) n) n = rsum (fun k => q k j * rsum (fun l => a k l * q l i) n) n.
Proof.
  intros HS i j.
  rewrite (rsum_ext _ (fun k => rsum (fun l => q k i * a k l * q l j) n)) by (intros; rewrite <- rsum_scal; apply rsum_ext; intros; ring).
  rewrite rsum_switch.
  apply rsum_ext. intros l Hl. rewrite <- rsum_scal. apply rsum_ext. intros k Hk. rewrite (HS k l Hk Hl). ring.
Qed.

(** ** Entries of the model's matrix product *)
Definition wf (n : nat) (a : list (list R)) : Prop := length a = n /\ forall i, (i < n)%nat -> length (nth i a []) = n.

Lemma ment_mmul n a b i j : (0 < n)%nat -> wf n a -> wf n b -> (i < n)%nat -> (j < n)%nat ->
  ment ROps (mmul ROps a b) i j = rsum (fun k => ment ROps a i k * ment ROps b k j) n.
Proof.
  intros Hn [La Ra] [Lb Rb] Hi Hj. unfold ment at 1, mmul, nth0.
  rewrite (nth_map_lt _ a i [] []) by lia.
  assert (ncols b = n) as Cb.
  { unfold ncols. destruct b as [| r0 b']; [cbn in Lb; lia|]. exact (Rb 0%nat Hn). }
  rewrite Cb. cbn [n0 ROps]. rewrite nth_map_seq by exact Hj.
  rewrite (vdot_rsum _ _ n (Ra i Hi)).
  - apply rsum_ext. intros k Hk. unfold ment, mcol, nth0. cbn [n0 ROps].
    rewrite (nth_map_lt _ b k [] 0) by lia. reflexivity.
  - unfold mcol. rewrite map_length. exact Lb.
Qed.

(** the similarity step on the model's product: A' = R Q as computed by Eigenvalues *)
Lemma qr_step_similarity_model n (A Q Rm : list (list R)) : (0 < n)%nat -> wf n Q -> wf n Rm ->
  (forall i j, (i < n)%nat -> (j < n)%nat -> ment ROps A i j = rsum (fun k => ment ROps Q i k * ment ROps Rm k j) n) ->
  (forall i j, (i < n)%nat -> (j < n)%nat -> rsum (fun k => ment ROps Q k i * ment ROps Q k j) n = dlt i j) ->
  let A' := mmul ROps Rm Q in
  (forall i j, (i < n)%nat -> (j < n)%nat ->
     ment ROps A' i j = rsum (fun k => ment ROps Q k i * rsum (fun l => ment ROps A k l * ment ROps Q l j) n) n) /\
  rsum (fun i => ment ROps A' i i) n = rsum (fun i => ment ROps A i i) n /\
  ((forall i j, (i < n)%nat -> (j < n)%nat -> ment ROps A i j = ment ROps A j i) ->
   forall i j, (i < n)%nat -> (j < n)%nat -> ment ROps A' i j = ment ROps A' j i).
Proof.
  intros Hn WQ WR HA HQ A'.
  assert (forall i j, (i < n)%nat -> (j < n)%nat ->
     ment ROps A' i j = rsum (fun k => ment ROps Q k i * rsum (fun l => ment ROps A k l * ment ROps Q l j) n) n) as E.
  { intros i j Hi Hj. unfold A'. rewrite (ment_mmul n Rm Q i j Hn WR WQ Hi Hj).
    exact (sim_entries n (ment ROps Q) (ment ROps Rm) (ment ROps A) HA HQ i j Hi Hj). }
  split; [exact E|]. split.
  - rewrite (rsum_ext _ (fun i => rsum (fun k => ment ROps Rm i k * ment ROps Q k i) n)).
    + exact (sim_trace n (ment ROps Q) (ment ROps Rm) (ment ROps A) HA).
    + intros i Hi. unfold A'. apply (ment_mmul n Rm Q i i Hn WR WQ Hi Hi).
  - intros HS i j Hi Hj. rewrite (E i j Hi Hj), (E j i Hj Hi). apply sim_symmetric. exact HS.
Qed.

(** ** The inverse iteration of Find_Eigenvector_Rayleigh *)
(** the returned eigenvalue is the Rayleigh quotient b . (M b) of the returned vector *)
Lemma rbind_ok {A B} (x : res A) (f : A -> res B) y : rbind x f = Ok y -> exists a, x = Ok a /\ f a = Ok y.
Proof. destruct x; cbn; try discriminate. intros H. eexists. split; [reflexivity | exact H]. Qed.
Lemma ok_pair_inj {A B} (a a' : A) (b b' : B) : @Ok (A * B) (a, b) = Ok (a', b') -> a = a' /\ b = b'.
Proof. intros H. inversion H. split; reflexivity. Qed.
Lemma rayleigh_quotient_returned (m : list (list R)) ev lam b :
  find_eigenvector_rayleigh ROps m ev = Ok (lam, b) -> lam = vdot ROps b (mvec ROps m b).
Proof.
  unfold find_eigenvector_rayleigh. intros H. apply rbind_ok in H. destruct H as (minv & _ & H).
  apply ok_pair_inj in H. destruct H as [H1 H2]. rewrite <- H2. symmetry. exact H1.
Qed.

(** Normalize() returns a unit vector whenever the vector is not zero *)
Lemma vnormalize_unit (w : list R) : 0 < vdot ROps w w -> vdot ROps (vnormalize ROps w) (vnormalize ROps w) = 1.
Proof.
  intros P. unfold vnormalize, vnorm. cbn [ROps nsqrt ndiv].
  set (N := sqrt (vdot ROps w w)). assert (0 < N) as NP by (apply sqrt_lt_R0; exact P).
  assert (N * N = vdot ROps w w) as NQ by (apply sqrt_sqrt; lra).
  rewrite (vdot_rsum _ _ (length w)) by (rewrite ?map_length; reflexivity).
  rewrite (rsum_ext _ (fun k => / (N * N) * (nth k w 0 * nth k w 0))).
  - rewrite rsum_scal, <- (vdot_rsum w w (length w) eq_refl eq_refl), NQ. field. lra.
  - intros k Hk. rewrite (nth_map_lt _ w k 0 0 Hk). field. lra.
Qed.
Lemma vdot_flip (b : list R) : vdot ROps (map (fun c => c * (- 1)) b) (map (fun c => c * (- 1)) b) = vdot ROps b b.
Proof.
  rewrite (vdot_rsum _ _ (length b)) by (rewrite ?map_length; reflexivity).
  rewrite (vdot_rsum b b (length b) eq_refl eq_refl). apply rsum_ext. intros k Hk.
  rewrite (nth_map_lt _ b k 0 0 Hk). ring.
Qed.
(** every iterate that the loop returns has unit norm, provided M_inv maps no unit vector to zero *)
Lemma inverse_iteration_unit (minv : list (list R)) :
  (forall b, vdot ROps b b = 1 -> 0 < vdot ROps (mvec ROps minv b) (mvec ROps minv b)) ->
  forall k b, vdot ROps b b = 1 -> vdot ROps (inverse_iteration ROps k minv b) (inverse_iteration ROps k minv b) = 1.
Proof.
  intros HM. induction k as [| k IH]; intros b Hb; [exact Hb|].
  cbn [inverse_iteration].
  set (b1 := vnormalize ROps (mvec ROps minv b)).
  assert (vdot ROps b1 b1 = 1) as U1 by (apply vnormalize_unit, HM, Hb).
  set (b2 := if nltb ROps (vdot ROps b1 b) (n0 ROps) then map (fun c => nmul ROps c (nneg ROps (n1 ROps))) b1 else b1).
  assert (vdot ROps b2 b2 = 1) as U2.
  { unfold b2. destruct (nltb ROps (vdot ROps b1 b) (n0 ROps)); [| exact U1]. cbn [ROps nmul nneg n1]. rewrite vdot_flip. exact U1. }
  clearbody b2. destruct (nltb ROps _ _); [exact U2 | apply IH; exact U2].
Qed.

(** one step of inverse iteration keeps the direction of an exact eigenvector: if M v = lambda v and M_inv is a left inverse of
    M - s 1 with s <> lambda, then M_inv v = v / (lambda - s)  (index functions, any n) *)
Lemma inverse_iteration_eigenvector n (mm minv : nat -> nat -> R) (s lam : R) (v : nat -> R) :
  (forall i j, (i < n)%nat -> (j < n)%nat -> rsum (fun k => minv i k * (mm k j - s * dlt k j)) n = dlt i j) ->
  (forall i, (i < n)%nat -> rsum (fun j => mm i j * v j) n = lam * v i) ->
  lam <> s ->
  forall i, (i < n)%nat -> rsum (fun j => minv i j * v j) n = v i / (lam - s).
Proof.
  intros HI HE Hne i Hi.
  assert ((lam - s) * rsum (fun j => minv i j * v j) n = v i) as E.
  { rewrite <- rsum_scal.
    rewrite (rsum_ext _ (fun j => rsum (fun k => minv i j * (mm j k - s * dlt j k) * v k) n)).
    - rewrite rsum_switch. rewrite (rsum_ext _ (fun k => dlt i k * v k)).
      + apply rsum_dlt_r. exact Hi.
      + intros k Hk. rewrite <- (HI i k Hi Hk), <- rsum_scal_r. reflexivity.
    - intros j Hj.
      rewrite (rsum_ext _ (fun k => minv i j * (mm j k * v k) - (minv i j * s) * (dlt j k * v k))) by (intros; ring).
      rewrite rsum_minus, !rsum_scal, (HE j Hj), (rsum_dlt_r v n j Hj). ring. }
  rewrite <- E. field. lra.
Qed.

(** ** Non-vacuity *)
Definition ex_M : list (list R) := [[3; 1]; [4; 2]].
Example ex_householder_hyp : exists k, (k < length (mcol ROps ex_M 0%nat))%nat /\ nth k (mcol ROps ex_M 0%nat) 0 <> 0.
Proof. exists 0%nat. cbn. split; [lia | lra]. Qed.
Example ex_similarity_hyp :
  let Q := [[0; 1]; [1; 0]] in let Rm := [[2; 3]; [0; 5]] in let A := [[0; 5]; [2; 3]] in
  wf 2 Q /\ wf 2 Rm /\
  (forall i j, (i < 2)%nat -> (j < 2)%nat -> ment ROps A i j = rsum (fun k => ment ROps Q i k * ment ROps Rm k j) 2) /\
  (forall i j, (i < 2)%nat -> (j < 2)%nat -> rsum (fun k => ment ROps Q k i * ment ROps Q k j) 2 = dlt i j).
Proof.
  cbv zeta. repeat split.
  - intros [| [| i]] Hi; cbn; try reflexivity; lia.
  - intros [| [| i]] Hi; cbn; try reflexivity; lia.
  - intros [| [| i]] [| [| j]] Hi Hj; try lia; unfold ment, nth0, dlt; cbn; ring.
  - intros [| [| i]] [| [| j]] Hi Hj; try lia; unfold ment, nth0, dlt; cbn; ring.
Qed.
