(** * C03 proofs, part 2: the remainder of Simpson's rule from a bounded fourth derivative,
    and with it the 4*epsilon error bound of the adaptive integrator without any analytic premise.

    Route: for a function g whose third derivative is non-decreasing on [u,v] (a "4-convex" function) the
    Simpson estimate is not below the integral.  With c the midpoint and
      E(t) = t/3 (g(c-t) + 4 g(c) + g(c+t)) - (P(c+t) - P(c-t)),   P' = g,
    one has E(0) = E'(0) = E''(0) = 0 and E'''(t) = t/3 (g'''(c+t) - g'''(c-t)) >= 0, so E >= 0 by three
    applications of the mean value theorem.  Applied to f - m x^4/24 and M x^4/24 - f (Simpson's error on
    x^4/24 is exactly (v-u)^5/2880) this gives  m K <= S - I <= M K,  K = (v-u)^5/2880, whenever
    m <= f'''' <= M on [u,v]. *)
From Coq Require Import Reals ZArith Lra Lia List Psatz Bool.
From Coquelicot Require Import Coquelicot.
From LP Require Import Num NumR C03_Model C03_Proofs.
Local Open Scope R_scope.

(** a function with non-negative derivative on [0,H] that vanishes at 0 is non-negative on [0,H] *)
Lemma nonneg_from_deriv (F F' : R -> R) (H : R) :
  (forall t, 0 <= t <= H -> is_derive F t (F' t)) ->
  (forall t, 0 <= t <= H -> 0 <= F' t) -> F 0 = 0 ->
  forall t, 0 <= t <= H -> 0 <= F t.
Proof.
  intros HD HP H0 t Ht.
  destruct (Req_dec t 0) as [->|Hne]; [lra|].
  destruct (MVT_cor2 F F' 0 t) as (c & Ec & Hc); [lra| |].
  - intros x Hx. apply is_derive_Reals. apply HD. lra.
  - rewrite H0 in Ec. assert (0 <= F' c) by (apply HP; lra). nra.
Qed.

Section Core.
(** all derivative hypotheses on the open interval (lo', hi'), which contains [u,v] *)
Variables (P g g1 g2 g3 : R -> R) (lo' hi' u v : R).
Hypothesis Hu : lo' < u.
Hypothesis Huv : u <= v.
Hypothesis Hv : v < hi'.
Hypothesis DP : forall x, lo' < x < hi' -> is_derive P x (g x).
Hypothesis D0 : forall x, lo' < x < hi' -> is_derive g x (g1 x).
Hypothesis D1 : forall x, lo' < x < hi' -> is_derive g1 x (g2 x).
Hypothesis D2 : forall x, lo' < x < hi' -> is_derive g2 x (g3 x).
Hypothesis Mono : forall x y, u <= x -> x <= y -> y <= v -> g3 x <= g3 y.

Let c := (u + v) / 2.
Let H := (v - u) / 2.
Definition E0 (t : R) := t / 3 * (g (c - t) + 4 * g c + g (c + t)) - (P (c + t) - P (c - t)).
Definition E1 (t : R) := 1 / 3 * (g (c - t) + 4 * g c + g (c + t)) + t / 3 * (g1 (c + t) - g1 (c - t)) - (g (c + t) + g (c - t)).
Definition E2 (t : R) := - (1 / 3) * (g1 (c + t) - g1 (c - t)) + t / 3 * (g2 (c + t) + g2 (c - t)).
Definition E3 (t : R) := t / 3 * (g3 (c + t) - g3 (c - t)).

Lemma exP x : lo' < x < hi' -> ex_derive (fun x => P x) x. Proof. intros; exists (g x); apply DP; assumption. Qed.
Lemma exg x : lo' < x < hi' -> ex_derive (fun x => g x) x. Proof. intros; exists (g1 x); apply D0; assumption. Qed.
Lemma exg1 x : lo' < x < hi' -> ex_derive (fun x => g1 x) x. Proof. intros; exists (g2 x); apply D1; assumption. Qed.
Lemma exg2 x : lo' < x < hi' -> ex_derive (fun x => g2 x) x. Proof. intros; exists (g3 x); apply D2; assumption. Qed.

Lemma DeP x : lo' < x < hi' -> Derive (fun x => P x) x = g x. Proof. intros; apply is_derive_unique, DP; assumption. Qed.
Lemma Deg x : lo' < x < hi' -> Derive (fun x => g x) x = g1 x. Proof. intros; apply is_derive_unique, D0; assumption. Qed.
Lemma Deg1 x : lo' < x < hi' -> Derive (fun x => g1 x) x = g2 x. Proof. intros; apply is_derive_unique, D1; assumption. Qed.
Lemma Deg2 x : lo' < x < hi' -> Derive (fun x => g2 x) x = g3 x. Proof. intros; apply is_derive_unique, D2; assumption. Qed.
Lemma in_p t : 0 <= t <= H -> lo' < c + t < hi'. Proof. unfold c, H. lra. Qed.
Lemma in_m t : 0 <= t <= H -> lo' < c + - t < hi'. Proof. unfold c, H. lra. Qed.

Ltac exd Ht := repeat split; first [apply exP | apply exg | apply exg1 | apply exg2]; first [apply (in_p _ Ht) | apply (in_m _ Ht)].

Lemma dE0 t : 0 <= t <= H -> is_derive E0 t (E1 t).
Proof.
  intros Ht. pose proof (in_p t Ht) as Ip. pose proof (in_m t Ht) as Im.
  unfold E0, E1. auto_derive.
  - exd Ht.
  - rewrite ?(Deg _ Ip), ?(Deg _ Im), ?(DeP _ Ip), ?(DeP _ Im).
    replace (c + - t) with (c - t) by ring. field.
Qed.
Lemma dE1 t : 0 <= t <= H -> is_derive E1 t (E2 t).
Proof.
  intros Ht. pose proof (in_p t Ht) as Ip. pose proof (in_m t Ht) as Im.
  unfold E1, E2. auto_derive.
  - exd Ht.
  - rewrite ?(Deg _ Ip), ?(Deg _ Im), ?(Deg1 _ Ip), ?(Deg1 _ Im).
    replace (c + - t) with (c - t) by ring. field.
Qed.
Lemma dE2 t : 0 <= t <= H -> is_derive E2 t (E3 t).
Proof.
  intros Ht. pose proof (in_p t Ht) as Ip. pose proof (in_m t Ht) as Im.
  unfold E2, E3. auto_derive.
  - exd Ht.
  - rewrite ?(Deg1 _ Ip), ?(Deg1 _ Im), ?(Deg2 _ Ip), ?(Deg2 _ Im).
    replace (c + - t) with (c - t) by ring. field.
Qed.

Lemma simpson_positive : 0 <= (v - u) / 6 * (g u + 4 * g ((u + v) / 2) + g v) - (P v - P u).
Proof.
  assert (HH : 0 <= H) by (unfold H; lra).
  assert (P3 : forall t, 0 <= t <= H -> 0 <= E3 t).
  { intros t Ht. unfold E3. assert (g3 (c - t) <= g3 (c + t)) by (apply Mono; unfold c, H in *; lra). nra. }
  assert (P2 : forall t, 0 <= t <= H -> 0 <= E2 t).
  { apply (nonneg_from_deriv E2 E3 H); auto using dE2. unfold E2. replace (c + 0) with c by ring. replace (c - 0) with c by ring. field. }
  assert (P1 : forall t, 0 <= t <= H -> 0 <= E1 t).
  { apply (nonneg_from_deriv E1 E2 H); auto using dE1. unfold E1. replace (c + 0) with c by ring. replace (c - 0) with c by ring. field. }
  assert (P0 : forall t, 0 <= t <= H -> 0 <= E0 t).
  { apply (nonneg_from_deriv E0 E1 H); auto using dE0. unfold E0. replace (c + 0) with c by ring. replace (c - 0) with c by ring. field. }
  specialize (P0 H ltac:(lra)). unfold E0 in P0.
  replace (c + H) with v in P0 by (unfold c, H; field). replace (c - H) with u in P0 by (unfold c, H; field).
  fold c. unfold H in P0. lra.
Qed.
End Core.

(** ** Two-sided bound on Simpson's error from bounds on the fourth derivative *)
Section Bounds.
Variables (P f f1 f2 f3 f4 : R -> R) (lo' hi' : R).
Hypothesis DP : forall x, lo' < x < hi' -> is_derive P x (f x).
Hypothesis D0 : forall x, lo' < x < hi' -> is_derive f x (f1 x).
Hypothesis D1 : forall x, lo' < x < hi' -> is_derive f1 x (f2 x).
Hypothesis D2 : forall x, lo' < x < hi' -> is_derive f2 x (f3 x).
Hypothesis D3 : forall x, lo' < x < hi' -> is_derive f3 x (f4 x).

(** increments of f''' from bounds on f'''' (mean value theorem) *)
Lemma f3_incr u v x y : lo' < u -> v < hi' -> u <= x -> x <= y -> y <= v ->
  exists xi, u <= xi <= v /\ f3 y - f3 x = f4 xi * (y - x).
Proof.
  intros Hu Hv Hx Hxy Hy.
  destruct (Req_dec x y) as [->|Hne]. { exists y. split; [lra|ring]. }
  destruct (MVT_cor2 f3 f4 x y) as (xi & E & Hxi); [lra| |].
  - intros z Hz. apply is_derive_Reals. apply D3. lra.
  - exists xi. split; [lra|exact E].
Qed.

Lemma simpson_lower m u v : lo' < u -> u <= v -> v < hi' ->
  (forall x, u <= x <= v -> m <= f4 x) ->
  m * ((v - u) ^ 5 / 2880) <= simp f u v - (P v - P u).
Proof.
  intros Hu Huv Hv Hb.
  pose proof (simpson_positive
    (fun x => P x - m * x ^ 5 / 120) (fun x => f x - m * x ^ 4 / 24) (fun x => f1 x - m * x ^ 3 / 6)
    (fun x => f2 x - m * x ^ 2 / 2) (fun x => f3 x - m * x) lo' hi' u v Hu Huv Hv) as SP.
  cbv beta in SP. unfold simp.
  assert (G : 0 <= (v - u) / 6 * (f u - m * u ^ 4 / 24 + 4 * (f ((u + v) / 2) - m * ((u + v) / 2) ^ 4 / 24) + (f v - m * v ^ 4 / 24)) -
              (P v - m * v ^ 5 / 120 - (P u - m * u ^ 5 / 120))).
  { apply SP.
    - intros x Hx. apply (is_derive_minus P (fun x => m * x ^ 5 / 120) x (f x) (m * x ^ 4 / 24)); [apply DP; exact Hx|].
      auto_derive; auto. field.
    - intros x Hx. apply (is_derive_minus f (fun x => m * x ^ 4 / 24) x (f1 x) (m * x ^ 3 / 6)); [apply D0; exact Hx|].
      auto_derive; auto. field.
    - intros x Hx. apply (is_derive_minus f1 (fun x => m * x ^ 3 / 6) x (f2 x) (m * x ^ 2 / 2)); [apply D1; exact Hx|].
      auto_derive; auto. field.
    - intros x Hx. apply (is_derive_minus f2 (fun x => m * x ^ 2 / 2) x (f3 x) (m * x)); [apply D2; exact Hx|].
      auto_derive; auto. field.
    - intros x y Hx Hxy Hy. destruct (f3_incr u v x y Hu Hv Hx Hxy Hy) as (xi & Hxi & E).
      assert (m <= f4 xi) by (apply Hb; exact Hxi). nra. }
  replace (m * ((v - u) ^ 5 / 2880)) with
    (m * ((v - u) / 6 * (u ^ 4 / 24 + 4 * (((u + v) / 2) ^ 4 / 24) + v ^ 4 / 24) - (v ^ 5 / 120 - u ^ 5 / 120))) by field.
  lra.
Qed.

Lemma simpson_upper M u v : lo' < u -> u <= v -> v < hi' ->
  (forall x, u <= x <= v -> f4 x <= M) ->
  simp f u v - (P v - P u) <= M * ((v - u) ^ 5 / 2880).
Proof.
  intros Hu Huv Hv Hb.
  pose proof (simpson_positive
    (fun x => M * x ^ 5 / 120 - P x) (fun x => M * x ^ 4 / 24 - f x) (fun x => M * x ^ 3 / 6 - f1 x)
    (fun x => M * x ^ 2 / 2 - f2 x) (fun x => M * x - f3 x) lo' hi' u v Hu Huv Hv) as SP.
  cbv beta in SP. unfold simp.
  assert (G : 0 <= (v - u) / 6 * (M * u ^ 4 / 24 - f u + 4 * (M * ((u + v) / 2) ^ 4 / 24 - f ((u + v) / 2)) + (M * v ^ 4 / 24 - f v)) -
              (M * v ^ 5 / 120 - P v - (M * u ^ 5 / 120 - P u))).
  { apply SP.
    - intros x Hx. apply (is_derive_minus (fun x => M * x ^ 5 / 120) P x (M * x ^ 4 / 24) (f x)); [|apply DP; exact Hx].
      auto_derive; auto. field.
    - intros x Hx. apply (is_derive_minus (fun x => M * x ^ 4 / 24) f x (M * x ^ 3 / 6) (f1 x)); [|apply D0; exact Hx].
      auto_derive; auto. field.
    - intros x Hx. apply (is_derive_minus (fun x => M * x ^ 3 / 6) f1 x (M * x ^ 2 / 2) (f2 x)); [|apply D1; exact Hx].
      auto_derive; auto. field.
    - intros x Hx. apply (is_derive_minus (fun x => M * x ^ 2 / 2) f2 x (M * x) (f3 x)); [|apply D2; exact Hx].
      auto_derive; auto. field.
    - intros x y Hx Hxy Hy. destruct (f3_incr u v x y Hu Hv Hx Hxy Hy) as (xi & Hxi & E).
      assert (f4 xi <= M) by (apply Hb; exact Hxi). nra. }
  replace (M * ((v - u) ^ 5 / 2880)) with
    (M * ((v - u) / 6 * (u ^ 4 / 24 + 4 * (((u + v) / 2) ^ 4 / 24) + v ^ 4 / 24) - (v ^ 5 / 120 - u ^ 5 / 120))) by field.
  lra.
Qed.
End Bounds.

(** ** The remainder of Simpson's rule, and the full error bound *)
Section Remainder.
Variables (f f1 f2 f3 f4 : R -> R) (lo' hi' : R).
Hypothesis D0 : forall x, lo' < x < hi' -> is_derive f x (f1 x).
Hypothesis D1 : forall x, lo' < x < hi' -> is_derive f1 x (f2 x).
Hypothesis D2 : forall x, lo' < x < hi' -> is_derive f2 x (f3 x).
Hypothesis D3 : forall x, lo' < x < hi' -> is_derive f3 x (f4 x).

Lemma f_cont x : lo' < x < hi' -> continuous f x.
Proof. intros Hx. apply (ex_derive_continuous f). exists (f1 x). apply D0. exact Hx. Qed.

Lemma f_ex_RInt u v : lo' < u < hi' -> lo' < v < hi' -> ex_RInt f u v.
Proof.
  intros Hu Hv. apply (ex_RInt_continuous (V := R_CompleteNormedModule)).
  intros x Hx. apply f_cont. revert Hx. unfold Rmin, Rmax. destruct (Rle_dec u v); lra.
Qed.

(** an antiderivative on (lo', hi') *)
Lemma antiderivative a0 x : lo' < a0 < hi' -> lo' < x < hi' -> is_derive (fun y => RInt f a0 y) x (f x).
Proof.
  intros Ha Hx. apply (is_derive_RInt f (fun y => RInt f a0 y) a0 x).
  - apply (locally_interval _ x (Finite lo') (Finite hi')); cbn; try lra.
    intros y Hy1 Hy2. apply (RInt_correct (V := R_CompleteNormedModule)). apply f_ex_RInt; lra.
  - apply f_cont. exact Hx.
Qed.

Lemma RInt_antiderivative a0 u v : lo' < a0 < hi' -> lo' < u < hi' -> lo' < v < hi' ->
  RInt f u v = RInt f a0 v - RInt f a0 u.
Proof.
  intros Ha Hu Hv. apply is_RInt_unique.
  apply (is_RInt_derive (fun y => RInt f a0 y) f u v).
  - intros x Hx. apply antiderivative; [exact Ha|]. revert Hx. unfold Rmin, Rmax. destruct (Rle_dec u v); lra.
  - intros x Hx. apply f_cont. revert Hx. unfold Rmin, Rmax. destruct (Rle_dec u v); lra.
Qed.

(** m K <= S - I <= M K *)
Lemma simpson_error_bounds m M u v : lo' < u -> u <= v -> v < hi' ->
  (forall x, u <= x <= v -> m <= f4 x <= M) ->
  m * ((v - u) ^ 5 / 2880) <= simp f u v - RInt f u v <= M * ((v - u) ^ 5 / 2880).
Proof.
  intros Hu Huv Hv Hb.
  rewrite (RInt_antiderivative u u v) by lra.
  split.
  - apply (simpson_lower (fun y => RInt f u y) f f1 f2 f3 f4 lo' hi'); auto.
    + intros x Hx. apply antiderivative; [lra|exact Hx].
    + intros x Hx. apply Hb. exact Hx.
  - apply (simpson_upper (fun y => RInt f u y) f f1 f2 f3 f4 lo' hi'); auto.
    + intros x Hx. apply antiderivative; [lra|exact Hx].
    + intros x Hx. apply Hb. exact Hx.
Qed.
End Remainder.

(** Simpson's remainder in the form used by the leaf algebra: for an integrand with four derivatives on an
    open interval containing [lo,hi] whose fourth derivative has the sign sg and modulus in [m, 4m] on [lo,hi],
    on every sub-interval  I - S = -(v-u)^5/2880 * phi  with  m <= sg*phi <= 4m. *)
Theorem simpson_remainder (f f1 f2 f3 f4 : R -> R) (lo' hi' lo hi m sg : R) :
  lo' < lo -> hi < hi' ->
  (forall x, lo' < x < hi' -> is_derive f x (f1 x)) ->
  (forall x, lo' < x < hi' -> is_derive f1 x (f2 x)) ->
  (forall x, lo' < x < hi' -> is_derive f2 x (f3 x)) ->
  (forall x, lo' < x < hi' -> is_derive f3 x (f4 x)) ->
  sg = 1 \/ sg = -1 ->
  (forall x, lo <= x <= hi -> m <= sg * f4 x <= 4 * m) ->
  forall u v, lo <= u -> u < v -> v <= hi ->
  exists phi, m <= sg * phi <= 4 * m /\ RInt f u v - simp f u v = - ((v - u) ^ 5 / 2880) * phi.
Proof.
  intros Hlo Hhi D0 D1 D2 D3 Hsg Hb u v Hu Huv Hv.
  set (K := (v - u) ^ 5 / 2880).
  assert (HK : 0 < K). { unfold K. apply Rdiv_lt_0_compat; [apply pow_lt; lra|lra]. }
  exists ((simp f u v - RInt f u v) / K).
  split; [|field; lra].
  destruct Hsg as [->| ->].
  - pose proof (simpson_error_bounds f f1 f2 f3 f4 lo' hi' D0 D1 D2 D3 m (4 * m) u v ltac:(lra) ltac:(lra) ltac:(lra)) as B.
    fold K in B. destruct B as [B1 B2]. { intros x Hx. specialize (Hb x ltac:(lra)). lra. }
    rewrite Rmult_1_l. split.
    + apply Rmult_le_reg_r with K; [exact HK|]. unfold Rdiv. rewrite Rmult_assoc, Rinv_l by lra. lra.
    + apply Rmult_le_reg_r with K; [exact HK|]. unfold Rdiv. rewrite Rmult_assoc, Rinv_l by lra. lra.
  - (* negative fourth derivative: bounds for -4m <= f4 <= -m *)
    pose proof (simpson_error_bounds f f1 f2 f3 f4 lo' hi' D0 D1 D2 D3 (- (4 * m)) (- m) u v ltac:(lra) ltac:(lra) ltac:(lra)) as B.
    fold K in B. destruct B as [B1 B2]. { intros x Hx. specialize (Hb x ltac:(lra)). lra. }
    replace (-1 * ((simp f u v - RInt f u v) / K)) with ((RInt f u v - simp f u v) / K) by (field; lra).
    split.
    + apply Rmult_le_reg_r with K; [exact HK|]. unfold Rdiv. rewrite Rmult_assoc, Rinv_l by lra. lra.
    + apply Rmult_le_reg_r with K; [exact HK|]. unfold Rdiv. rewrite Rmult_assoc, Rinv_l by lra. lra.
Qed.

(** ** The error clause without analytic premise *)
Theorem error_bound (f f1 f2 f3 f4 : R -> R) (lo' hi' a b eps m sg : R) (depth : Z) :
  lo' < Rmin a b -> Rmax a b < hi' ->
  (forall x, lo' < x < hi' -> is_derive f x (f1 x)) ->
  (forall x, lo' < x < hi' -> is_derive f1 x (f2 x)) ->
  (forall x, lo' < x < hi' -> is_derive f2 x (f3 x)) ->
  (forall x, lo' < x < hi' -> is_derive f3 x (f4 x)) ->
  sg = 1 \/ sg = -1 -> 0 < m ->
  (forall x, Rmin a b <= x <= Rmax a b -> m <= sg * f4 x <= 4 * m) ->
  wrn (integrate ROps f a b eps depth) = false ->
  Rabs (val (integrate ROps f a b eps depth) - RInt f a b) <= 4 * Rabs eps.
Proof.
  intros Hlo Hhi D0 D1 D2 D3 Hsg Hm Hb W.
  apply (error_bound_partial f a b eps m sg depth); try assumption.
  - intros x Hx. apply (f_cont f f1 lo' hi' D0). lra.
  - intros u v Hu Huv Hv.
    apply (simpson_remainder f f1 f2 f3 f4 lo' hi' (Rmin a b) (Rmax a b) m sg); assumption.
Qed.

(** non-vacuity: exp on [0,1] (fourth derivative exp, between 1 and e <= 4), one level, eps = 1 *)
Example error_bound_exp :
  Rabs (val (integrate ROps exp 0 1 1 1) - RInt exp 0 1) <= 4 * Rabs 1.
Proof.
  apply (error_bound exp exp exp exp exp (-1) 2 0 1 1 1 1 1).
  - rewrite Rmin_left; lra.
  - rewrite Rmax_right; lra.
  - intros; auto_derive; auto; ring.
  - intros; auto_derive; auto; ring.
  - intros; auto_derive; auto; ring.
  - intros; auto_derive; auto; ring.
  - now left.
  - lra.
  - rewrite Rmin_left, Rmax_right by lra. intros x Hx. rewrite Rmult_1_l. split.
    + rewrite <- exp_0. destruct (Req_dec 0 x) as [<-|N]; [lra|]. left. apply exp_increasing. lra.
    + apply Rle_trans with (exp 1).
      * destruct (Req_dec x 1) as [->|N]; [lra|]. left. apply exp_increasing. lra.
      * pose proof exp_le_3. lra.
  - (* accepted at the root: |S2 - S| <= 15 *)
    rewrite integrate_lt by lra. rewrite wrn_t. change (Z.to_nat 1) with 1%nat. rewrite core_S, Rabs_R1.
    destruct (Rleb_spec (Rabs (S2of exp 0 1 - simp exp 0 1)) (15 * 1)) as [_|N]; [reflexivity|].
    exfalso. apply N. unfold S2of, simp.
    assert (E0 : exp 0 = 1) by apply exp_0.
    assert (Hm : forall x, 0 <= x <= 1 -> 1 <= exp x <= 3).
    { intros x Hx. split.
      - rewrite <- exp_0. destruct (Req_dec 0 x) as [<-|N']; [lra|]. left. apply exp_increasing. lra.
      - apply Rle_trans with (exp 1); [|pose proof exp_le_3; lra].
        destruct (Req_dec x 1) as [->|N']; [lra|]. left. apply exp_increasing. lra. }
    pose proof (Hm 0 ltac:(lra)). pose proof (Hm 1 ltac:(lra)).
    pose proof (Hm ((0 + 1) / 2) ltac:(lra)).
    pose proof (Hm ((0 + (0 + 1) / 2) / 2) ltac:(lra)).
    pose proof (Hm (((0 + 1) / 2 + 1) / 2) ltac:(lra)).
    apply Rabs_le. split; lra.
Qed.
