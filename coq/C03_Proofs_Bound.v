(** * C03: a-priori size of every estimate of the adaptive Simpson rule (over the reals).
    When the integrand is bounded by [M] on the interval, the first estimate and every panel estimate are at most
    (b-a) M in modulus, their difference at most 2 (b-a) M, every accepted five-point value S2 + (S2-S)/15 at most
    (17/15) (b-a) M, and so is the value of the whole recursion and of Integrate.  These are the bounds from which the
    check decides, from the request alone, whether an intermediate of the rule as written can reach the largest double
    (checks/C03.py, [estimates_representable]). *)
From Coq Require Import Reals ZArith Lra Lia List Psatz Bool.
From LP Require Import Num NumR C03_Model C03_Proofs.
Import ListNotations.
Local Open Scope R_scope.

Lemma Rabs_le_iff x y : Rabs x <= y <-> - y <= x <= y.
Proof. split; intros H. - unfold Rabs in H. destruct (Rcase_abs x); lra. - apply Rabs_le. exact H. Qed.

Lemma simp_bounded f M a b : a <= b -> (forall x, Rabs (f x) <= M) -> Rabs (simp f a b) <= (b - a) * M.
Proof.
  intros Hab Hf. unfold simp.
  pose proof (proj1 (Rabs_le_iff _ _) (Hf a)) as Ha.
  pose proof (proj1 (Rabs_le_iff _ _) (Hf b)) as Hb.
  pose proof (proj1 (Rabs_le_iff _ _) (Hf ((a + b) / 2))) as Hc.
  apply Rabs_le_iff.
  set (s := f a + 4 * f ((a + b) / 2) + f b).
  assert (Hs : - (6 * M) <= s <= 6 * M) by (unfold s; lra).
  assert (H0 : 0 <= b - a) by lra.
  split; nra.
Qed.

Lemma panel_bounds f M a b : a <= b -> (forall x, Rabs (f x) <= M) ->
  Rabs (simp f a b) <= (b - a) * M /\
  Rabs (S2of f a b) <= (b - a) * M /\
  Rabs (S2of f a b - simp f a b) <= 2 * ((b - a) * M) /\
  Rabs (leafval f a b) <= 17 / 15 * ((b - a) * M).
Proof.
  intros Hab Hf.
  assert (H1 := simp_bounded f M a b Hab Hf).
  assert (H2 := simp_bounded f M a ((a + b) / 2) ltac:(lra) Hf).
  assert (H3 := simp_bounded f M ((a + b) / 2) b ltac:(lra) Hf).
  apply Rabs_le_iff in H1. apply Rabs_le_iff in H2. apply Rabs_le_iff in H3.
  unfold leafval, S2of.
  repeat split; apply Rabs_le_iff; lra.
Qed.

Lemma core_value_bounded f M : (forall x, Rabs (f x) <= M) ->
  forall n a b eps, a <= b -> Rabs (val (core f a b eps n)) <= 17 / 15 * ((b - a) * M).
Proof.
  intros Hf. induction n as [|n IH]; intros a b eps Hab.
  - rewrite core_O, val_t. exact (proj2 (proj2 (proj2 (panel_bounds f M a b Hab Hf)))).
  - rewrite core_S. destruct (Rleb _ _).
    + rewrite val_t. exact (proj2 (proj2 (proj2 (panel_bounds f M a b Hab Hf)))).
    + cbv zeta. rewrite val_t.
      assert (Hl := IH a ((a + b) / 2) (eps / 2) ltac:(lra)).
      assert (Hr := IH ((a + b) / 2) b (eps / 2) ltac:(lra)).
      apply Rabs_le_iff in Hl. apply Rabs_le_iff in Hr. apply Rabs_le_iff. lra.
Qed.

Lemma integrate_value_bounded f M a b eps d : (forall x, Rabs (f x) <= M) ->
  Rabs (val (integrate ROps f a b eps d)) <= 17 / 15 * (Rabs (b - a) * M).
Proof.
  intros Hf.
  assert (HM : 0 <= M) by (pose proof (Hf 0); pose proof (Rabs_pos (f 0)); lra).
  destruct (Rtotal_order a b) as [H|[H|H]].
  - rewrite (integrate_lt f a b eps d H), val_t.
    pose proof (core_value_bounded f M Hf (Z.to_nat d) a b (Rabs eps) ltac:(lra)) as Hc.
    rewrite (Rabs_pos_eq (b - a)) by lra. apply Rabs_le_iff in Hc. apply Rabs_le_iff. lra.
  - subst b. rewrite integrate_eq, val_t. rewrite Rabs_R0.
    pose proof (Rabs_pos (a - a)). nra.
  - rewrite (integrate_gt f a b eps d H), val_t.
    pose proof (core_value_bounded f M Hf (Z.to_nat d) b a (Rabs eps) ltac:(lra)) as Hc.
    rewrite (Rabs_left (b - a)) by lra. apply Rabs_le_iff in Hc. apply Rabs_le_iff.
    replace (- (b - a)) with (a - b) by lra. lra.
Qed.

(** non-vacuity and sharpness of the factor: a constant integrand attains (b-a) M *)
Lemma value_bound_nonvacuous :
  (forall x, Rabs ((fun _ : R => 3) x) <= 3) /\ val (integrate ROps (fun _ => 3) 0 2 1 0) = 6.
Proof.
  split. - intros x. rewrite Rabs_pos_eq; lra.
  - rewrite (integrate_lt _ 0 2 1 0%Z) by lra. rewrite val_t. cbn [Z.to_nat]. rewrite core_O, val_t.
    unfold leafval, S2of, simp. field.
Qed.
