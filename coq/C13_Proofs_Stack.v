(** * C13: stacks of any number of levels over the reals - iterated integral, separable product, orientation of any one axis *)
From Coq Require Import Reals ZArith List Lra Bool FunctionalExtensionality.
From Coquelicot Require Import Coquelicot.
From LP Require Import Num NumR C13_Model C13_Proofs C13_Proofs_AS.
Import ListNotations.
Local Open Scope R_scope.

(** ** 1. the value of a stack under an exact one-dimensional integrator: the iterated integral, outermost pair of limits first *)
Fixpoint iter_int (lims : list (R * R)) (F : list R -> R) (pt : list R) : R :=
  match lims with
  | [] => F pt
  | (a, b) :: rest => RInt (fun x => iter_int rest F (pt ++ [x])) a b
  end.

(** integrability at every level (the premise of C13_nested_2d / C13_nested_3d continued to any depth) *)
Fixpoint iter_ex (lims : list (R * R)) (F : list R -> R) (pt : list R) : Prop :=
  match lims with
  | [] => True
  | (a, b) :: rest => (forall x, iter_ex rest F (pt ++ [x])) /\ ex_RInt (fun x => iter_int rest F (pt ++ [x])) a b
  end.

Lemma nest_nd_exact J (lims : list (R * R)) (F : list R -> R) : exact_on_integrable J ->
  forall pt, iter_ex lims F pt -> nest_nd J lims (fun q => Ok (F q)) pt = Ok (iter_int lims F pt).
Proof.
  intros HJ. induction lims as [|[a b] l IH]; intros pt Hex; cbn.
  - reflexivity.
  - destruct Hex as [Hin Hout].
    replace (fun x : R => nest_nd J l (fun q => Ok (F q)) (pt ++ [x])) with (okf (fun x => iter_int l F (pt ++ [x]))).
    + apply HJ. exact Hout.
    + apply functional_extensionality; intros x. unfold okf. symmetry. apply IH. apply Hin.
Qed.

(** only the values of F on points that continue pt matter *)
Lemma iter_int_ext (lims : list (R * R)) (F F' : list R -> R) : forall pt,
  (forall r, F (pt ++ r) = F' (pt ++ r)) -> iter_int lims F pt = iter_int lims F' pt.
Proof.
  induction lims as [|[a b] l IH]; intros pt H; cbn.
  - generalize (H []). rewrite app_nil_r. exact (fun e => e).
  - apply (f_equal (fun h : R -> R => RInt h a b)).
    apply functional_extensionality; intros x. apply IH. intros r. rewrite <- app_assoc. apply H.
Qed.

Lemma iter_ex_ext (lims : list (R * R)) (F F' : list R -> R) : forall pt,
  (forall r, F (pt ++ r) = F' (pt ++ r)) -> iter_ex lims F pt -> iter_ex lims F' pt.
Proof.
  induction lims as [|[a b] l IH]; intros pt H; cbn.
  - exact (fun t => t).
  - intros [Hin Hout]. split.
    + intros x. apply (IH (pt ++ [x])); [| apply Hin]. intros r. rewrite <- app_assoc. apply H.
    + replace (fun x : R => iter_int l F' (pt ++ [x])) with (fun x : R => iter_int l F (pt ++ [x])); [exact Hout |].
      apply functional_extensionality; intros x. apply iter_int_ext. intros r. rewrite <- app_assoc. apply H.
Qed.

(** ** 2. separable integrands: factor i reads the variable of level i *)
Fixpoint sep_val (gs : list (R -> R)) (q : list R) : R :=
  match gs, q with
  | g :: gs', x :: q' => g x * sep_val gs' q'
  | _, _ => 1
  end.

Fixpoint prod_int (gs : list (R -> R)) (lims : list (R * R)) : R :=
  match gs, lims with
  | g :: gs', (a, b) :: l' => RInt g a b * prod_int gs' l'
  | _, _ => 1
  end.

Definition integrable_on (g : R -> R) (ab : R * R) : Prop := ex_RInt g (fst ab) (snd ab).

Lemma skipn_len_app {A} (p r : list A) : skipn (length p) (p ++ r) = r.
Proof. rewrite skipn_app, Nat.sub_diag, skipn_all. reflexivity. Qed.

Lemma iter_separable (gs : list (R -> R)) (lims : list (R * R)) : Forall2 integrable_on gs lims ->
  forall pt c,
    iter_ex lims (fun q => c * sep_val gs (skipn (length pt) q)) pt /\
    iter_int lims (fun q => c * sep_val gs (skipn (length pt) q)) pt = c * prod_int gs lims.
Proof.
  induction 1 as [| g [a b] gs' l Hg Hrest IH]; intros pt c.
  - cbn. split; [exact Logic.I | reflexivity].
  - unfold integrable_on in Hg; cbn [fst snd] in Hg.
    assert (Hx : forall x r, c * sep_val (g :: gs') (skipn (length pt) ((pt ++ [x]) ++ r))
                       = (c * g x) * sep_val gs' (skipn (length (pt ++ [x])) ((pt ++ [x]) ++ r))).
    { intros x r. rewrite skipn_len_app. rewrite <- app_assoc, skipn_len_app. cbn. ring. }
    assert (Hval : (fun x : R => iter_int l (fun q => c * sep_val (g :: gs') (skipn (length pt) q)) (pt ++ [x]))
                   = (fun x : R => (c * prod_int gs' l) * g x)).
    { apply functional_extensionality; intros x.
      rewrite (iter_int_ext l _ (fun q => (c * g x) * sep_val gs' (skipn (length (pt ++ [x])) q)) (pt ++ [x]) (Hx x)).
      rewrite (proj2 (IH (pt ++ [x]) (c * g x))). ring. }
    cbn [iter_ex iter_int prod_int]. rewrite Hval. split; [split |].
    + intros x. apply (iter_ex_ext l (fun q => (c * g x) * sep_val gs' (skipn (length (pt ++ [x])) q))).
      * intros r. symmetry. apply Hx.
      * apply (proj1 (IH (pt ++ [x]) (c * g x))).
    + apply ex_RInt_scal_l. exact Hg.
    + rewrite (RInt_scal_l g a b (c * prod_int gs' l) Hg). ring.
Qed.

(** "Integrate_2D/Integrate_3D of a separable integrand equal the product of the one-dimensional integrals", any number of levels *)
Theorem nest_nd_separable J (gs : list (R -> R)) (lims : list (R * R)) :
  exact_on_integrable J -> Forall2 integrable_on gs lims ->
  nest_nd J lims (fun q => Ok (sep_val gs q)) [] = Ok (prod_int gs lims).
Proof.
  intros HJ H. destruct (iter_separable gs lims H [] 1) as [Hex Hval]. cbn [length skipn] in Hex, Hval.
  replace (fun q : list R => Ok (sep_val gs q)) with (fun q : list R => Ok (1 * sep_val gs q)).
  - rewrite (nest_nd_exact J lims _ HJ [] Hex), Hval. f_equal. ring.
  - apply functional_extensionality; intros q. f_equal. ring.
Qed.

(** ** 3. orientation of the limits of any one level of a stack of any depth.
    [reversing J]: exchanging the limits of one call negates it (C13_reversed_limits_negate for Integrate);
    [odd J]: the integral of the negated integrand is the negated integral. *)
Definition reversing (J : (R -> res R) -> R -> R -> res R) : Prop := forall f a b, J f b a = rmap Ropp (J f a b).
Definition odd (J : (R -> res R) -> R -> R -> res R) : Prop := forall f a b, J (fun x => rmap Ropp (f x)) a b = rmap Ropp (J f a b).

Theorem nest_nd_reverse_level J (l1 l2 : list (R * R)) a b (f : list R -> res R) : reversing J -> odd J ->
  forall pt, nest_nd J (l1 ++ (b, a) :: l2) f pt = rmap Ropp (nest_nd J (l1 ++ (a, b) :: l2) f pt).
Proof.
  intros Hr Ho. induction l1 as [|[u v] l1 IH]; intros pt; cbn.
  - apply Hr.
  - rewrite <- Ho. f_equal. apply functional_extensionality; intros x. apply IH.
Qed.

(** Integrate itself is [reversing] for every method name and every back end (equal limits included: -0 = 0 over the reals) *)
Lemma named_reversing I m p : reversing (fun g u v => integrate_named ROps I m g u v p).
Proof.
  intros f a b. destruct (Req_dec a b) as [-> | Hne].
  - destruct (is_nested_method m) eqn:H.
    + rewrite (dispatch_equal I m f b p H). cbn. f_equal. ring.
    + rewrite (dispatch_unknown I m f b b p H). reflexivity.
  - apply reversed_negates. exact Hne.
Qed.

(** "Gauss-Legendre_2" is [odd] without any premise, for every number of points: the roots do not depend on the integrand *)
Lemma mapM_opp (f : R -> res R) (l : list R) :
  mapM (fun x => rmap Ropp (f x)) l = rmap (map Ropp) (mapM f l).
Proof.
  induction l as [|x l IH]; cbn; [reflexivity |].
  destruct (f x); cbn; try reflexivity. rewrite IH. destruct (mapM f l); reflexivity.
Qed.

Lemma fold_gl_opp (ws : list R) : forall (fv : list R) (acc : R),
  fold_left (fun acc p => acc + fst p * snd p) (combine (map Ropp fv) ws) (- acc)
  = - fold_left (fun acc p => acc + fst p * snd p) (combine fv ws) acc.
Proof.
  induction ws as [|w ws IH]; intros [|y fv] acc; cbn; try reflexivity.
  replace (- acc + - y * w) with (- (acc + y * w)) by ring. apply IH.
Qed.

Lemma gl_integrate_odd (f : R -> res R) a b n :
  gl_integrate ROps (fun x => rmap Ropp (f x)) a b n = rmap Ropp (gl_integrate ROps f a b n).
Proof.
  unfold gl_integrate. destruct (gl_rule ROps n a b) as [rw | | |]; cbn [rbind rmap]; try reflexivity.
  rewrite mapM_opp. destruct (mapM f (map fst rw)) as [fv | | |]; cbn [rbind rmap]; try reflexivity.
  f_equal. generalize (fold_gl_opp (map snd rw) fv 0). rewrite Ropp_0. exact (fun e => e).
Qed.

Lemma named_gl2_odd I p : odd (fun g u v => integrate_named ROps I M_GaussLegendre2 g u v p).
Proof.
  intros f a b. destruct (Rtotal_order a b) as [Hlt | [-> | Hgt]].
  - rewrite !(dispatch_forward I M_GaussLegendre2 _ a b p eq_refl Hlt). cbn [selected]. rewrite gl_integrate_odd.
    destruct (gl_integrate ROps f a b _); reflexivity.
  - rewrite !(dispatch_equal I M_GaussLegendre2 _ b p eq_refl). cbn. f_equal. ring.
  - rewrite !(dispatch_reversed I M_GaussLegendre2 _ a b p eq_refl Hgt). cbn [selected]. rewrite gl_integrate_odd.
    destruct (gl_integrate ROps f b a _); reflexivity.
Qed.

(** "Adaptive-Simpson" is [odd] without any premise: the stopping test |S2 - S| <= 15 eps and the tolerance |eps| do not see the sign *)
Lemma asimp_opp (f : R -> res R) bottom : forall a b eps S fa fb fc,
  asimp ROps (fun x => rmap Ropp (f x)) bottom a b eps (-S) (-fa) (-fb) (-fc) = rmap Ropp (asimp ROps f bottom a b eps S fa fb fc).
Proof.
  induction bottom as [|bot IH]; intros a b eps S fa fb fc.
  - cbn. destruct (f _) as [fd| | |]; cbn; try reflexivity. destruct (f _) as [fe| | |]; cbn; try reflexivity. f_equal. field.
  - cbn -[Rleb]. destruct (f _) as [fd| | |]; cbn -[Rleb]; try reflexivity. destruct (f _) as [fe| | |]; cbn -[Rleb]; try reflexivity.
    replace ((b - a) / 12 * (- fa + 4 * - fd + - fc)) with (- ((b - a) / 12 * (fa + 4 * fd + fc))) by field.
    replace ((b - a) / 12 * (- fc + 4 * - fe + - fb)) with (- ((b - a) / 12 * (fc + 4 * fe + fb))) by field.
    set (Sl := (b - a) / 12 * (fa + 4 * fd + fc)). set (Sr := (b - a) / 12 * (fc + 4 * fe + fb)).
    replace (- Sl + - Sr - - S) with (- (Sl + Sr - S)) by ring. rewrite Rabs_Ropp.
    destruct (Rleb _ _).
    + cbn. f_equal. field.
    + rewrite !IH. destruct (asimp ROps f bot a _ _ _ _ _ _) as [l| | |]; cbn; try reflexivity.
      destruct (asimp ROps f bot _ b _ _ _ _ _) as [r| | |]; cbn; try reflexivity. f_equal. ring.
Qed.

Lemma integrate_eps_odd (f : R -> res R) a b eps depth :
  integrate_eps ROps (fun x => rmap Ropp (f x)) a b (- eps) depth = rmap Ropp (integrate_eps ROps f a b eps depth).
Proof.
  unfold integrate_eps. cbn -[asimp check_limits]. destruct (Reqb a b).
  - cbn. f_equal. ring.
  - destruct (check_limits ROps a b) as [[lo hi] sign]. cbn -[asimp].
    destruct (f lo) as [fa| | |]; cbn -[asimp]; try reflexivity.
    destruct (f hi) as [fb| | |]; cbn -[asimp]; try reflexivity.
    destruct (f _) as [fc| | |]; cbn -[asimp]; try reflexivity.
    replace ((hi - lo) / 6 * (- fa + 4 * - fc + - fb)) with (- ((hi - lo) / 6 * (fa + 4 * fc + fb))) by field.
    rewrite Rabs_Ropp, asimp_opp. destruct (asimp _ _ _ _ _ _ _ _ _ _); cbn; try reflexivity. f_equal. ring.
Qed.

Lemma find_epsilon_odd (f : R -> res R) a b pr :
  find_epsilon ROps (fun x => rmap Ropp (f x)) a b pr = rmap Ropp (find_epsilon ROps f a b pr).
Proof.
  unfold find_epsilon. cbn.
  destruct (f a) as [fa| | |]; cbn; try reflexivity.
  destruct (f b) as [fb| | |]; cbn; try reflexivity.
  destruct (f _) as [fc| | |]; cbn; try reflexivity. f_equal. field.
Qed.

Lemma selected_as_odd I p (f : R -> res R) a b :
  selected I M_AdaptiveSimpson p (fun x => rmap Ropp (f x)) a b = rmap Ropp (selected I M_AdaptiveSimpson p f a b).
Proof.
  cbn [selected]. rewrite find_epsilon_odd. destruct (find_epsilon ROps f a b _) as [eps| | |]; cbn [rbind rmap]; try reflexivity.
  apply integrate_eps_odd.
Qed.

Lemma named_as_odd I p : odd (fun g u v => integrate_named ROps I M_AdaptiveSimpson g u v p).
Proof.
  intros f a b. destruct (Rtotal_order a b) as [Hlt | [-> | Hgt]].
  - rewrite !(dispatch_forward I M_AdaptiveSimpson _ a b p eq_refl Hlt), selected_as_odd.
    destruct (selected I M_AdaptiveSimpson p f a b); reflexivity.
  - rewrite !(dispatch_equal I M_AdaptiveSimpson _ b p eq_refl). cbn. f_equal. ring.
  - rewrite !(dispatch_reversed I M_AdaptiveSimpson _ a b p eq_refl Hgt), selected_as_odd.
    destruct (selected I M_AdaptiveSimpson p f b a); reflexivity.
Qed.

(** the boost methods are [odd] when the external rule is (premise on the Section variable [I]) *)
Definition backend_odd (I : backend -> (R -> res R) -> R -> R -> res R) : Prop :=
  forall B f a b, I B (fun x => rmap Ropp (f x)) a b = rmap Ropp (I B f a b).

Lemma named_odd I m p : backend_odd I -> odd (fun g u v => integrate_named ROps I m g u v p).
Proof.
  intros HI f a b. destruct (is_nested_method m) eqn:H.
  2:{ rewrite !dispatch_unknown by assumption. reflexivity. }
  destruct m; try discriminate H; try apply named_gl2_odd; try apply named_as_odd;
  (destruct (Rtotal_order a b) as [Hlt | [-> | Hgt]];
   [ rewrite !(dispatch_forward I _ _ a b p H Hlt); cbn [selected]; rewrite HI;
     match goal with |- context [I ?B f a b] => destruct (I B f a b) end; reflexivity
   | rewrite !(dispatch_equal I _ _ b p H); cbn; f_equal; ring
   | rewrite !(dispatch_reversed I _ _ a b p H Hgt); cbn [selected]; rewrite HI;
     match goal with |- context [I ?B f b a] => destruct (I B f b a) end; reflexivity ]).
Qed.

(** the library's own two methods need no premise *)
Lemma named_own_odd I m p : m = M_GaussLegendre2 \/ m = M_AdaptiveSimpson -> odd (fun g u v => integrate_named ROps I m g u v p).
Proof. intros [-> | ->]; [apply named_gl2_odd | apply named_as_odd]. Qed.

(** exchanging the limits of any one axis of Integrate_2D / Integrate_3D / a stack of any depth negates the result *)
Theorem stack_reverse_axis I m p (l1 l2 : list (R * R)) a b (f : list R -> res R) pt :
  (backend_odd I \/ m = M_GaussLegendre2 \/ m = M_AdaptiveSimpson) ->
  let J := fun g u v => integrate_named ROps I m g u v p in
  nest_nd J (l1 ++ (b, a) :: l2) f pt = rmap Ropp (nest_nd J (l1 ++ (a, b) :: l2) f pt).
Proof.
  intros H J. apply nest_nd_reverse_level; [apply named_reversing |].
  destruct H as [H | H]; [apply named_odd; exact H | apply named_own_odd; exact H].
Qed.

Theorem integrate_2d_3d_reverse_axis I MC m p (f2 : R -> R -> R) (f3 : R -> R -> R -> R) x1 x2 y1 y2 z1 z2 :
  (backend_odd I \/ m = M_GaussLegendre2 \/ m = M_AdaptiveSimpson) -> is_nested_method m = true ->
  integrate_2d ROps I MC m f2 x2 x1 y1 y2 p = rmap Ropp (integrate_2d ROps I MC m f2 x1 x2 y1 y2 p) /\
  integrate_2d ROps I MC m f2 x1 x2 y2 y1 p = rmap Ropp (integrate_2d ROps I MC m f2 x1 x2 y1 y2 p) /\
  integrate_3d ROps I MC m f3 x2 x1 y1 y2 z1 z2 p = rmap Ropp (integrate_3d ROps I MC m f3 x1 x2 y1 y2 z1 z2 p) /\
  integrate_3d ROps I MC m f3 x1 x2 y2 y1 z1 z2 p = rmap Ropp (integrate_3d ROps I MC m f3 x1 x2 y1 y2 z1 z2 p) /\
  integrate_3d ROps I MC m f3 x1 x2 y1 y2 z2 z1 p = rmap Ropp (integrate_3d ROps I MC m f3 x1 x2 y1 y2 z1 z2 p).
Proof.
  intros H Hm. unfold integrate_2d, integrate_3d. rewrite Hm.
  pose (F2 := fun q : list R => Ok (f2 (nth 0 q 0) (nth 1 q 0))).
  pose (F3 := fun q : list R => Ok (f3 (nth 0 q 0) (nth 1 q 0) (nth 2 q 0))).
  repeat split.
  - exact (stack_reverse_axis I m p [] [(y1, y2)] x1 x2 F2 [] H).
  - exact (stack_reverse_axis I m p [(x1, x2)] [] y1 y2 F2 [] H).
  - exact (stack_reverse_axis I m p [] [(y1, y2); (z1, z2)] x1 x2 F3 [] H).
  - exact (stack_reverse_axis I m p [(x1, x2)] [(z1, z2)] y1 y2 F3 [] H).
  - exact (stack_reverse_axis I m p [(x1, x2); (y1, y2)] [] z1 z2 F3 [] H).
Qed.

(** a back end that is odd on every integrand (the midpoint rule) *)
Example midpoint_backend_odd : backend_odd (fun _ g u v => rmap (fun y => (v - u) * y) (g ((u + v) / 2))).
Proof. intros B f a b. destruct (f ((a + b) / 2)); cbn; try reflexivity. f_equal. ring. Qed.


(** ** 4. separable integrands on which the one-dimensional integrator is exact factor by factor: no integrability premise, no premise
    on the integrator beyond the factors that occur *)
Definition exact_on_multiples (J : (R -> res R) -> R -> R -> res R) (g : R -> R) (ab : R * R) : Prop :=
  forall c, J (okf (fun x => c * g x)) (fst ab) (snd ab) = Ok (c * RInt g (fst ab) (snd ab)).

Lemma nest_nd_ext J (lims : list (R * R)) (F F' : list R -> res R) : forall pt,
  (forall r, F (pt ++ r) = F' (pt ++ r)) -> nest_nd J lims F pt = nest_nd J lims F' pt.
Proof.
  induction lims as [|[a b] l IH]; intros pt H; cbn.
  - generalize (H []). rewrite app_nil_r. exact (fun e => e).
  - apply (f_equal (fun h => J h a b)).
    apply functional_extensionality; intros x. apply IH. intros r. rewrite <- app_assoc. apply H.
Qed.

Lemma nest_nd_separable_gen J (gs : list (R -> R)) (lims : list (R * R)) : Forall2 (exact_on_multiples J) gs lims ->
  forall pt c, nest_nd J lims (fun q => Ok (c * sep_val gs (skipn (length pt) q))) pt = Ok (c * prod_int gs lims).
Proof.
  induction 1 as [| g [a b] gs' l Hg Hrest IH]; intros pt c.
  - reflexivity.
  - cbn [nest_nd prod_int].
    replace (fun x : R => nest_nd J l (fun q => Ok (c * sep_val (g :: gs') (skipn (length pt) q))) (pt ++ [x]))
      with (okf (fun x => (c * prod_int gs' l) * g x)).
    + generalize (Hg (c * prod_int gs' l)). cbn [fst snd]. intros ->. f_equal. ring.
    + apply functional_extensionality; intros x. unfold okf.
      rewrite (nest_nd_ext J l _ (fun q => Ok ((c * g x) * sep_val gs' (skipn (length (pt ++ [x])) q))) (pt ++ [x])).
      * rewrite IH. f_equal. ring.
      * intros r. rewrite skipn_len_app. rewrite <- app_assoc, skipn_len_app. cbn. f_equal. ring.
Qed.

Theorem nest_nd_separable_on J (gs : list (R -> R)) (lims : list (R * R)) : Forall2 (exact_on_multiples J) gs lims ->
  nest_nd J lims (fun q => Ok (sep_val gs q)) [] = Ok (prod_int gs lims).
Proof.
  intros H. generalize (nest_nd_separable_gen J gs lims H [] 1). cbn [length skipn].
  replace (fun q : list R => Ok (1 * sep_val gs q)) with (fun q : list R => Ok (sep_val gs q)).
  - intros ->. f_equal. ring.
  - apply functional_extensionality; intros q. f_equal. ring.
Qed.

(** "Adaptive-Simpson" is exact on every multiple of every polynomial of degree <= 5, on every pair of limits *)
Definition is_quintic (g : R -> R) : Prop := exists k0 k1 k2 k3 k4 k5, g = quintic k0 k1 k2 k3 k4 k5.

Lemma as_exact_on_quintic_multiples I p g ab : is_quintic g ->
  exact_on_multiples (fun h u v => integrate_named ROps I M_AdaptiveSimpson h u v p) g ab.
Proof.
  intros (k0 & k1 & k2 & k3 & k4 & k5 & ->) c.
  replace (fun x : R => c * quintic k0 k1 k2 k3 k4 k5 x) with (quintic (c * k0) (c * k1) (c * k2) (c * k3) (c * k4) (c * k5)).
  - rewrite adaptive_simpson_quintic. apply f_equal. rewrite !quintic_RInt. unfold quintic_prim. match goal with |- ?x = ?y => change (@eq R x y) end. field.
  - apply functional_extensionality; intros x. unfold quintic. ring.
Qed.

(** Integrate_2D / Integrate_3D / a stack of any depth under "Adaptive-Simpson", factors of degree <= 5: the product of the exact integrals,
    for all limits in every orientation (equal ones included), every method_parameter, whatever the boost back ends are *)
Theorem stack_adaptive_simpson_quintics I p (gs : list (R -> R)) (lims : list (R * R)) :
  List.Forall is_quintic gs -> length gs = length lims ->
  nest_nd (fun h u v => integrate_named ROps I M_AdaptiveSimpson h u v p) lims (fun q => Ok (sep_val gs q)) [] = Ok (prod_int gs lims).
Proof.
  intros Hq Hlen. apply nest_nd_separable_on. revert lims Hlen.
  induction Hq as [| g gs' Hg _ IH]; intros [| ab l] Hlen; try discriminate Hlen; constructor.
  - apply as_exact_on_quintic_multiples. exact Hg.
  - apply IH. injection Hlen. exact (fun e => e).
Qed.

Theorem integrate_2d_3d_adaptive_simpson_quintics I MC p (g h k : R -> R) x1 x2 y1 y2 z1 z2 :
  is_quintic g -> is_quintic h -> is_quintic k ->
  integrate_2d ROps I MC M_AdaptiveSimpson (fun x y => g x * h y) x1 x2 y1 y2 p = Ok (RInt g x1 x2 * RInt h y1 y2) /\
  integrate_3d ROps I MC M_AdaptiveSimpson (fun x y z => g x * h y * k z) x1 x2 y1 y2 z1 z2 p = Ok (RInt g x1 x2 * RInt h y1 y2 * RInt k z1 z2).
Proof.
  intros Hg Hh Hk. split.
  - generalize (stack_adaptive_simpson_quintics I p [g; h] [(x1, x2); (y1, y2)] (Forall_cons _ Hg (Forall_cons _ Hh (Forall_nil _))) eq_refl).
    cbn [prod_int nest_nd app sep_val]. intros E. unfold integrate_2d. cbn [is_nested_method]. unfold nest_2d.
    replace (fun x : R => integrate_named ROps I M_AdaptiveSimpson (fun y : R => Ok (g x * h y)) y1 y2 p)
      with (fun x : R => integrate_named ROps I M_AdaptiveSimpson (fun x0 : R => Ok (g x * (h x0 * 1))) y1 y2 p).
    + rewrite E. apply f_equal. ring.
    + apply functional_extensionality; intros x. apply (f_equal (fun u => integrate_named ROps I M_AdaptiveSimpson u y1 y2 p)).
      apply functional_extensionality; intros y. apply f_equal. ring.
  - generalize (stack_adaptive_simpson_quintics I p [g; h; k] [(x1, x2); (y1, y2); (z1, z2)]
                  (Forall_cons _ Hg (Forall_cons _ Hh (Forall_cons _ Hk (Forall_nil _)))) eq_refl).
    cbn [prod_int nest_nd app sep_val]. intros E. unfold integrate_3d. cbn [is_nested_method]. unfold nest_3d.
    replace (fun x : R => integrate_named ROps I M_AdaptiveSimpson (fun y : R => integrate_named ROps I M_AdaptiveSimpson (fun z : R => Ok (g x * h y * k z)) z1 z2 p) y1 y2 p)
      with (fun x : R => integrate_named ROps I M_AdaptiveSimpson (fun x0 : R => integrate_named ROps I M_AdaptiveSimpson (fun x1 : R => Ok (g x * (h x0 * (k x1 * 1)))) z1 z2 p) y1 y2 p).
    + rewrite E. apply f_equal. ring.
    + apply functional_extensionality; intros x. apply (f_equal (fun u => integrate_named ROps I M_AdaptiveSimpson u y1 y2 p)).
      apply functional_extensionality; intros y. apply (f_equal (fun u => integrate_named ROps I M_AdaptiveSimpson u z1 z2 p)).
      apply functional_extensionality; intros z. apply f_equal. ring.
Qed.

Example example_quintics : is_quintic (fun x => 1 + x ^ 5) /\ is_quintic (fun y => 2 * y - y ^ 3).
Proof.
  split.
  - exists 1, 0, 0, 0, 0, 1. apply functional_extensionality; intros x. unfold quintic. ring.
  - exists 0, 2, 0, (-1), 0, 0. apply functional_extensionality; intros x. unfold quintic. ring.
Qed.

(** ** Examples (non-vacuity) *)
Example ideal_exact : exact_on_integrable (fun g u v => Ok (RInt (fun x => unres (g x)) u v)).
Proof. intros g u v _. reflexivity. Qed.

Example example_separable_four_levels :
  Forall2 integrable_on [(fun x => x); (fun _ => 2); (fun x => x); (fun _ => 1)] [(0, 2); (1, 4); (2, 0); (5, 7)].
Proof.
  repeat (apply Forall2_cons; [unfold integrable_on; cbn [fst snd]; apply (ex_RInt_continuous (V := R_CompleteNormedModule)); intros z _;
    (apply (continuous_id (U := R_UniformSpace)) || apply continuous_const) |]). apply Forall2_nil.
Qed.

Example example_reverse_level :
  let J := fun (h : R -> res R) (a b : R) => rmap (fun y => (b - a) * y) (h ((a + b) / 2)) in
  reversing J /\ odd J /\
  nest_nd J [(0, 2); (3, 1); (0, 4)] (fun q => Ok (nth 0 q 0 + nth 1 q 0 * nth 2 q 0)) [] = Ok (-80).
Proof.
  cbn zeta. split; [| split].
  - intros f a b. replace ((b + a) / 2) with ((a + b) / 2) by lra. destruct (f ((a + b) / 2)); cbn; try reflexivity. f_equal. ring.
  - intros f a b. destruct (f ((a + b) / 2)); cbn; try reflexivity. f_equal. ring.
  - cbn. f_equal. field.
Qed.

(** the premises of C13_stack_is_iterated_integral and C13_stack_separable_product_factorwise are satisfiable: four levels, one reversed *)
Example example_iter_ex :
  iter_ex [(0, 2); (1, 4); (2, 0); (5, 7)] (fun q => 1 * sep_val [(fun x => x); (fun _ => 2); (fun x => x); (fun _ => 1)] (skipn 0 q)) [].
Proof. exact (proj1 (iter_separable _ _ example_separable_four_levels [] 1)). Qed.

Example example_exact_on_multiples I p :
  Forall2 (exact_on_multiples (fun h u v => integrate_named ROps I M_AdaptiveSimpson h u v p)) [(fun x => 1 + x ^ 5); (fun y => 2 * y - y ^ 3)] [(3, 1); (0, 2)].
Proof.
  repeat apply Forall2_cons; try apply Forall2_nil; apply as_exact_on_quintic_multiples; apply example_quintics.
Qed.
