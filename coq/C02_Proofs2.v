(** * C02 proofs, second part: the iteration limit is never the reason for returning; a zero end on every
    instance of the number interface (infinite value at the other end included); histories of requests. *)
From Coq Require Import Reals ZArith Lra Lia List Psatz Bool.
From LP Require Import Num NumR C02_Model C02_Proofs.
Import ListNotations.
Local Open Scope R_scope.

(** ** The iteration limit
    A pass that continues leaves a bracket at most half as wide and not narrower than acc.  Hence the loop can
    only run out of its n iterations when the bracket it started from was at least acc * 2^n wide. *)
Lemma loop_maxiter_wide (f : R -> R) (acc : R) : forall n s x, Inv f s -> (n = 0%nat -> acc <= width s) ->
  fst (loop ROps f acc n s) = Ok (x, HMaxIter) -> acc * 2 ^ n <= width s.
Proof.
  induction n as [|n IH]; intros s x HI H0 E.
  - specialize (H0 eq_refl). cbn [pow]. lra.
  - cbn [loop] in E.
    destruct (step_spec f acc s HI) as (Tr & In3 & In4 & Cases).
    destruct (step ROps f acc s) as [[o|s'] tr] eqn:Est; cbn [fst snd] in *.
    + exfalso.
      destruct Cases as [[Eo _]|(_ & s'' & N & [[Eo _]|[Eo _]])]; congruence.
    + destruct Cases as [[Eo _]|(_ & s'' & N & [[Eo _]|[Eo Hacc]])]; try discriminate. inversion Eo; subst s''.
      destruct N as (HI' & Hr & Hx & Hl' & Hh' & Hw').
      specialize (IH s' x HI' (fun _ => Hacc)).
      destruct (loop ROps f acc n s') as [o tr'] eqn:El. cbn [fst] in *.
      specialize (IH E). cbn [pow]. lra.
Qed.

(** Find_Root returns through the iteration limit (the path that prints "Iterations exceed the maximum") only
    when the bracket is at least acc * 2^2200 wide. *)
Theorem max_iter_needs_wide f a b acc x :
  fst (find_root_h ROps f a b acc) = Ok (x, HMaxIter) -> acc * 2 ^ max_iterations <= Rmax a b - Rmin a b.
Proof.
  rewrite frh_eq. unfold frh_R.
  pose proof (Rmin_Rmax a b) as Hmm. set (lo := Rmin a b) in *. set (hi := Rmax a b) in *.
  destruct (Rleb_spec 0 (f lo * f hi)) as [Hp|Hp].
  - destruct (Reqb_spec (f lo) 0); [|destruct (Reqb_spec (f hi) 0)]; cbn [fst]; discriminate.
  - set (s0 := mkst lo hi (f lo) (f hi) lit0).
    assert (HI : Inv f s0) by (unfold Inv, s0; cbn; repeat split; lra).
    assert (Hne : lo < hi).
    { destruct Hmm as [Hmm|Hmm]; [exact Hmm|]. exfalso. rewrite Hmm in Hp. nra. }
    assert (Wd : width s0 = hi - lo) by (unfold width, s0; cbn; apply Rabs_pos_eq; lra).
    pose proof (loop_maxiter_wide f acc max_iterations s0 x HI ltac:(rewrite max_iterations_S; discriminate)) as L.
    destruct (loop ROps f acc max_iterations s0) as [o tr]. cbn [fst] in *.
    intros E. rewrite <- Wd. apply L. exact E.
Qed.

Theorem iteration_cap_unreached f a b acc :
  Rmax a b - Rmin a b < acc * 2 ^ max_iterations -> forall x, fst (find_root_h ROps f a b acc) <> Ok (x, HMaxIter).
Proof. intros H x E. apply max_iter_needs_wide in E. lra. Qed.

(** ... in particular for every bracket and accuracy that doubles can express: width at most 2^1025 (two
    finite doubles of opposite sign), accuracy at least 2^-1074 (the smallest positive double). *)
Lemma cap_arith : 2 ^ 1025 < / 2 ^ 1074 * 2 ^ max_iterations.
Proof.
  replace max_iterations with (1074 + 1126)%nat by reflexivity.
  rewrite pow_add. rewrite <- Rmult_assoc, Rinv_l, Rmult_1_l by (apply pow_nonzero; lra).
  apply Rlt_pow; [lra|lia].
Qed.

Theorem iteration_cap_unreached_doubles f a b acc :
  Rmax a b - Rmin a b <= 2 ^ 1025 -> / 2 ^ 1074 <= acc ->
  forall x, fst (find_root_h ROps f a b acc) <> Ok (x, HMaxIter).
Proof.
  intros Hw Ha. apply iteration_cap_unreached.
  apply Rle_lt_trans with (1 := Hw). apply Rlt_le_trans with (1 := cap_arith).
  apply Rmult_le_compat_r; [apply pow_le; lra|exact Ha].
Qed.

(** non-vacuity: x - 1 on [0,4] with accuracy 1 *)
Example cap_example : forall x, fst (find_root_h ROps (fun t => t - 1) 0 4 1) <> Ok (x, HMaxIter).
Proof.
  apply iteration_cap_unreached_doubles.
  - rewrite Rmax_right, Rmin_left by lra. replace (4 - 0) with (2 ^ 2) by lra. apply Rle_pow; [lra|lia].
  - apply Rle_trans with (/ 1); [apply Rinv_le_contravar; [lra|apply pow_R1_Rle; lra]|rewrite Rinv_1; lra].
Qed.

(** ** A zero end, on every instance of the number interface
    (so also on IEEE doubles, where the value at the OTHER end may be infinite: x^3 - 8 on [2, 1e200]).
    Hypotheses in the terms the code uses: std::isnan false at both ends, Sign(f(end)) == 0 and f(end) == 0
    (on doubles both hold exactly when f(end) is +0 or -0). *)
Theorem end_zero_any_instance {T : Type} (Ops : NumOps T) (f : T -> T) (a b acc : T) :
  let xl := if ngtb Ops a b then b else a in
  let xr := if ngtb Ops a b then a else b in
  nisnan Ops (f xl) = false -> nisnan Ops (f xr) = false ->
  (sign1 Ops (f xl) = 0%Z -> neqb Ops (f xl) (nofZ Ops 0) = true ->
     find_root Ops f a b acc = (Ok xl, [xl; xr])) /\
  (sign1 Ops (f xr) = 0%Z -> neqb Ops (f xl) (nofZ Ops 0) = false -> neqb Ops (f xr) (nofZ Ops 0) = true ->
     find_root Ops f a b acc = (Ok xr, [xl; xr])).
Proof.
  intros xl xr N1 N2. split.
  - intros S1 Z1. unfold find_root, find_root_h. fold xl xr. rewrite N1, N2, S1, Z1. reflexivity.
  - intros S2 Z1 Z2. unfold find_root, find_root_h. fold xl xr. rewrite N1, N2, S2, Z1, Z2, Z.mul_0_r. reflexivity.
Qed.

(** ** Histories: the k-th request of a history is answered as if it were the only one, as long as the
    process is still alive (every earlier request returned a number) *)
Definition serve {T : Type} (Ops : NumOps T) (q : (T -> T) * T * T * T) : res (T * how) * list T :=
  let '(f, a, b, acc) := q in find_root_h Ops f a b acc.

Theorem seq_history_independent {T : Type} (Ops : NumOps T) : forall (reqs : list ((T -> T) * T * T * T)) (k : nat) q,
  (forall j p, (j < k)%nat -> nth_error reqs j = Some p -> exists v, fst (serve Ops p) = Ok v) ->
  nth_error reqs k = Some q ->
  nth_error (find_root_seq Ops reqs) k = Some (serve Ops q).
Proof.
  induction reqs as [|p rest IH]; intros k q Hal Hk.
  - destruct k; discriminate.
  - destruct p as [[[f a] b] acc]. cbn [find_root_seq].
    destruct k as [|k].
    + cbn in Hk. inversion Hk; subst q. cbn [serve].
      destruct (fst (find_root_h Ops f a b acc)); reflexivity.
    + cbn in Hk.
      destruct (Hal 0%nat (f, a, b, acc) ltac:(lia) eq_refl) as [v Hv]. cbn [serve] in Hv. rewrite Hv.
      cbn [nth_error]. apply IH; [|exact Hk].
      intros j p' Hj Hp. apply (Hal (S j) p'); [lia|exact Hp].
Qed.

(** ... and a history is cut at the first request that ends the process *)
Theorem seq_stops_at_exit {T : Type} (Ops : NumOps T) (f : T -> T) (a b acc : T) rest :
  fst (find_root_h Ops f a b acc) = Exit ->
  find_root_seq Ops ((f, a, b, acc) :: rest) = [find_root_h Ops f a b acc].
Proof. intros H. cbn [find_root_seq]. rewrite H. reflexivity. Qed.

(** ** NaN at an end takes precedence over a zero at the other end (third strengthening pass)
    The NaN test is the FIRST test on the end values: a request whose function is NaN at one end ends the process
    even when the other end is an exact zero (value +0 or -0: [neqb] holds for both) — on every instance of the
    number interface, whatever the order of the ends — and with it the history it is part of. *)
Theorem nan_end_beats_zero_end {T : Type} (Ops : NumOps T) (f : T -> T) (a b acc : T) :
  let xl := if ngtb Ops a b then b else a in
  let xr := if ngtb Ops a b then a else b in
  (neqb Ops (f xl) (nofZ Ops 0) = true /\ nisnan Ops (f xr) = true) \/
  (nisnan Ops (f xl) = true /\ neqb Ops (f xr) (nofZ Ops 0) = true) ->
  find_root Ops f a b acc = (Exit, [xl; xr]) /\
  forall rest, find_root_seq Ops ((f, a, b, acc) :: rest) = [(Exit, [xl; xr])].
Proof.
  intros xl xr H.
  assert (E : nisnan Ops (f xl) || nisnan Ops (f xr) = true).
  { apply orb_true_iff. destruct H as [[_ H]|[H _]]; [right|left]; exact H. }
  assert (Eh : find_root_h Ops f a b acc = (Exit, [xl; xr])).
  { unfold find_root_h. fold xl xr. rewrite E. reflexivity. }
  split.
  - unfold find_root. rewrite Eh. reflexivity.
  - intros rest. cbn [find_root_seq]. rewrite Eh. reflexivity.
Qed.
