(** * C18 proofs, part 11 (reals): the exact law of Sample_Uniform as a statement about preimages, and the
    random-walk proposal of Sample_Metropolis over the reals. *)
From Coq Require Import ZArith List Bool Lia Arith Reals Lra Psatz.
From LP Require Import Num NumR C18_Model C18_Proofs C18_Proofs_R C18_Proofs_Sel.
Import ListNotations.
Local Open Scope R_scope.

(** the law of Sample_Uniform(a,b), a < b: the event {output <= t} IS the event {u <= (t - a) / (b - a)} of the
    canonical uniform -- so for u uniform on [0,1) the output has the distribution function (t - a) / (b - a) on [a,b];
    the map u -> output is strictly increasing (distinct generator outputs give distinct, equally ordered samples) *)
Theorem sample_uniform_law a b u t : a < b ->
  (unif ROps u a b <= t <-> u <= (t - a) / (b - a)).
Proof.
  intros Hab. rewrite unif_R.
  assert (Hd : 0 < b - a) by lra.
  split; intros H.
  - apply (Rmult_le_reg_r (b - a)); [assumption|].
    unfold Rdiv. rewrite Rmult_assoc, Rinv_l by lra. lra.
  - apply (Rmult_le_compat_r (b - a)) in H; [|lra].
    unfold Rdiv in H. rewrite Rmult_assoc, Rinv_l in H by lra. lra.
Qed.

Theorem sample_uniform_increasing a b u v : a < b -> u < v -> unif ROps u a b < unif ROps v a b.
Proof. intros Hab Huv. rewrite !unif_R. nra. Qed.

(** the same deviate proposes the same displacement from every current point *)
Theorem proposal_increment_independent u sigma x x' c :
  gauss_of ROps u x sigma = Ok c -> gauss_of ROps u x' sigma = Ok (c - x + x').
Proof.
  intros H. apply (proposal_is_random_walk ROps) in H. destruct H as (e & He & Hc).
  apply (proposal_is_random_walk ROps). exists e. split; [exact He|].
  rewrite Hc. cbn. ring.
Qed.

Example sample_uniform_law_ex : unif ROps (/4) (-1) 3 <= 0 /\ / 4 <= (0 - -1) / (3 - -1).
Proof. rewrite unif_R. split; lra. Qed.
