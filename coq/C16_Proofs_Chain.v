(** * C16 proofs, fourth part: products of any number of rotations, axes of any length, periods, guards.
    Unbounded statements: inductions over the list of factors of [rot_chain] (the model of
    P = Identity_Matrix(dim); P = P * Rotation_Matrix(alpha_k, dim, axis_k)), over all integers k of periods, and
    case analyses valid for every number type for the guards. *)
From Coq Require Import Reals ZArith List Lra Lia Psatz Nsatz Bool.
From LP Require Import Num NumR C16_Model C16_Proofs.
Import ListNotations.
Local Open Scope R_scope.

(** ** 3x3 matrices as lists of rows *)
Definition is3x3 (m : list (list R)) : Prop :=
  exists a b c d e f g h i, m = [[a; b; c]; [d; e; f]; [g; h; i]].
(** proper orthogonal: transpose equals inverse (both products), determinant one *)
Definition proper3 (m : list (list R)) : Prop :=
  is3x3 m /\ mmul ROps (mtr m) m = I3 /\ mmul ROps m (mtr m) = I3 /\ det3 m = 1.

Ltac open3 H := destruct H as (?a & ?b & ?c & ?d & ?e & ?f & ?g & ?h & ?i & ->).
Ltac mat_ring := unfold mmul, mtr, mcol, vdot, nth0, I3, det3, ent; cbn; list_eq; ring.

Lemma is3x3_mmul A B : is3x3 A -> is3x3 B -> is3x3 (mmul ROps A B).
Proof. intros HA HB. open3 HA. open3 HB. unfold mmul, mcol, vdot, nth0. cbn. repeat eexists. Qed.
Lemma is3x3_mtr A : is3x3 A -> is3x3 (mtr A).
Proof. intros HA. open3 HA. unfold mtr. cbn. repeat eexists. Qed.
Lemma is3x3_I3 : is3x3 I3.
Proof. unfold I3. repeat eexists. Qed.
Lemma mmul_assoc3 A B C : is3x3 A -> is3x3 B -> is3x3 C ->
  mmul ROps (mmul ROps A B) C = mmul ROps A (mmul ROps B C).
Proof. intros HA HB HC. open3 HA. open3 HB. open3 HC. mat_ring. Qed.
Lemma mtr_mmul3 A B : is3x3 A -> is3x3 B -> mtr (mmul ROps A B) = mmul ROps (mtr B) (mtr A).
Proof. intros HA HB. open3 HA. open3 HB. mat_ring. Qed.
Lemma mmul_I3_l A : is3x3 A -> mmul ROps I3 A = A.
Proof. intros HA. open3 HA. mat_ring. Qed.
Lemma mmul_I3_r A : is3x3 A -> mmul ROps A I3 = A.
Proof. intros HA. open3 HA. mat_ring. Qed.
Lemma det3_mmul A B : is3x3 A -> is3x3 B -> det3 (mmul ROps A B) = det3 A * det3 B.
Proof. intros HA HB. open3 HA. open3 HB. unfold mmul, mcol, vdot, nth0, det3, ent. cbn. ring. Qed.
Lemma mvec_mmul3 A B v0 v1 v2 : is3x3 A -> is3x3 B ->
  mvec ROps (mmul ROps A B) [v0; v1; v2] = mvec ROps A (mvec ROps B [v0; v1; v2]).
Proof. intros HA HB. open3 HA. open3 HB. unfold mvec, mmul, mcol, vdot, nth0. cbn. list_eq; ring. Qed.

(** SO(3) is closed under the library's matrix product *)
Lemma proper3_mmul A B : proper3 A -> proper3 B -> proper3 (mmul ROps A B).
Proof.
  intros (SA & LA & RA & DA) (SB & LB & RB & DB).
  pose proof (is3x3_mtr A SA) as SAt. pose proof (is3x3_mtr B SB) as SBt.
  split; [apply is3x3_mmul; assumption|]. split; [| split].
  - rewrite (mtr_mmul3 A B SA SB).
    rewrite (mmul_assoc3 (mtr B) (mtr A) (mmul ROps A B) SBt SAt (is3x3_mmul A B SA SB)).
    rewrite <- (mmul_assoc3 (mtr A) A B SAt SA SB). rewrite LA, (mmul_I3_l B SB). exact LB.
  - rewrite (mtr_mmul3 A B SA SB).
    rewrite (mmul_assoc3 A B (mmul ROps (mtr B) (mtr A)) SA SB (is3x3_mmul _ _ SBt SAt)).
    rewrite <- (mmul_assoc3 B (mtr B) (mtr A) SB SBt SAt). rewrite RB, (mmul_I3_l _ SAt). exact RA.
  - rewrite (det3_mmul A B SA SB), DA, DB. ring.
Qed.
Lemma proper3_I3 : proper3 I3.
Proof. split; [exact is3x3_I3|]. unfold I3, mmul, mtr, mcol, vdot, nth0, det3, ent. cbn. repeat split; list_eq; ring. Qed.

(** a proper orthogonal matrix keeps scalar products (hence lengths and angles) *)
Lemma proper3_isometry A v0 v1 v2 w0 w1 w2 : proper3 A ->
  dot3 (mvec ROps A [v0; v1; v2]) (mvec ROps A [w0; w1; w2]) = dot3 [v0; v1; v2] [w0; w1; w2].
Proof.
  intros (SA & LA & _). open3 SA. revert LA.
  unfold mmul, mtr, mcol, mvec, vdot, nth0, I3, dot3, cx, cy, cz. cbn.
  intros [= E00 E01 E02 E10 E11 E12 E20 E21 E22]. nsatz.
Qed.

(** ** the model's Identity_Matrix and the rotation by the angle zero *)
Lemma midentity3 : midentity ROps 3 = I3.
Proof. reflexivity. Qed.
Lemma midentity2 : midentity ROps 2 = I2.
Proof. reflexivity. Qed.
Lemma rot3_zero a0 a1 a2 : rotation_matrix ROps 0 3 [a0; a1; a2] = Ok I3.
Proof. rewrite rotation3_eq. cbv zeta. rewrite cos_0, sin_0. unfold rodrigues, I3. list_eq; ring. Qed.
Lemma rot2_zero axis : rotation_matrix ROps 0 2 axis = Ok I2.
Proof. rewrite rot2_eq, cos_0, sin_0. unfold I2. list_eq; ring. Qed.

(** ** every 3-D rotation about a non-zero axis is proper orthogonal (one statement) *)
Definition axis3_nonzero (ax : list R) : Prop := exists a0 a1 a2, ax = [a0; a1; a2] /\ nonzero3 a0 a1 a2.
Lemma rot3_proper alpha ax : axis3_nonzero ax -> exists Rm, rotation_matrix ROps alpha 3 ax = Ok Rm /\ proper3 Rm.
Proof.
  intros (a0 & a1 & a2 & -> & Hnz). destruct (rot3_returns alpha a0 a1 a2) as [Rm E]. exists Rm. split; [exact E|].
  destruct (rot3_orthogonal alpha a0 a1 a2 Hnz Rm E) as [L Rr]. pose proof (rot3_det alpha a0 a1 a2 Hnz Rm E) as D.
  split; [| auto]. rewrite rotation3_eq in E. injection E as <-. unfold rodrigues. repeat eexists.
Qed.

(** ** chains: any number of factors, any non-zero axes *)
Lemma rot_chain_fold_exit {T} (Ops : NumOps T) dim (fs : list (T * list T)) :
  fold_left (rot_chain_step Ops dim) fs Exit = Exit.
Proof. induction fs as [| f fs IH]; [reflexivity | exact IH]. Qed.

Lemma rot_chain_fold_proper fs : Forall (fun f => axis3_nonzero (snd f)) fs -> forall P0, proper3 P0 ->
  exists P, fold_left (rot_chain_step ROps 3) fs (Ok P0) = Ok P /\ proper3 P.
Proof.
  induction 1 as [| [alpha ax] fs Hax _ IH]; intros P0 HP0.
  - exists P0. split; [reflexivity | exact HP0].
  - destruct (rot3_proper alpha ax Hax) as (Rm & E & HR). cbn [fold_left]. unfold rot_chain_step at 2. cbn [rbind fst snd].
    rewrite E. cbn [rbind]. apply IH. apply proper3_mmul; assumption.
Qed.
Lemma rot_chain_proper fs : Forall (fun f => axis3_nonzero (snd f)) fs ->
  exists P, rot_chain ROps 3 fs = Ok P /\ proper3 P.
Proof. intros H. unfold rot_chain. change (Z.to_nat 3) with 3%nat. rewrite midentity3. apply rot_chain_fold_proper; [exact H | exact proper3_I3]. Qed.

Lemma rot_chain_proper_isometry fs : Forall (fun f => axis3_nonzero (snd f)) fs ->
  exists P, rot_chain ROps 3 fs = Ok P /\ proper3 P /\
    forall v0 v1 v2 w0 w1 w2, dot3 (mvec ROps P [v0; v1; v2]) (mvec ROps P [w0; w1; w2]) = dot3 [v0; v1; v2] [w0; w1; w2].
Proof.
  intros H. destruct (rot_chain_proper fs H) as (P & E & HP). exists P. split; [exact E|]. split; [exact HP|].
  intros. apply proper3_isometry. exact HP.
Qed.

(** the chain applied to a vector is the factors applied one after the other, the last factor first *)
Lemma rot_chain_snoc {T} (Ops : NumOps T) dim (fs : list (T * list T)) f :
  rot_chain Ops dim (fs ++ [f]) = rot_chain_step Ops dim (rot_chain Ops dim fs) f.
Proof. unfold rot_chain. rewrite fold_left_app. reflexivity. Qed.
Lemma rot_chain_apply_last fs alpha ax P Rm P' v0 v1 v2 : Forall (fun f => axis3_nonzero (snd f)) fs -> axis3_nonzero ax ->
  rot_chain ROps 3 fs = Ok P -> rotation_matrix ROps alpha 3 ax = Ok Rm -> rot_chain ROps 3 (fs ++ [(alpha, ax)]) = Ok P' ->
  mvec ROps P' [v0; v1; v2] = mvec ROps P (mvec ROps Rm [v0; v1; v2]).
Proof.
  intros Hfs Hax EP ER. rewrite rot_chain_snoc, EP. unfold rot_chain_step. cbn [rbind fst snd]. rewrite ER. cbn [rbind].
  intros [= <-]. destruct (rot_chain_proper fs Hfs) as (P2 & E2 & (S2 & _)). rewrite EP in E2. injection E2 as <-.
  destruct (rot3_proper alpha ax Hax) as (R2 & E3 & (S3 & _)). rewrite ER in E3. injection E3 as <-.
  apply mvec_mmul3; assumption.
Qed.

(** ** axes of any length: the matrix depends on the direction of the axis only; the opposite axis turns the other way *)
Lemma nhat_scale k a0 a1 a2 : 0 < k -> nonzero3 a0 a1 a2 -> nhat [k * a0; k * a1; k * a2] = nhat [a0; a1; a2].
Proof.
  intros Hk Hnz. pose proof (nonzero3_pos a0 a1 a2 Hnz) as P. unfold nhat, dot3, cx, cy, cz. cbn.
  replace (k * a0 * (k * a0) + k * a1 * (k * a1) + k * a2 * (k * a2)) with (k * k * (a0 * a0 + a1 * a1 + a2 * a2)) by ring.
  rewrite sqrt_mult by nra. rewrite sqrt_square by lra.
  assert (0 < sqrt (a0 * a0 + a1 * a1 + a2 * a2)) as LP by (apply sqrt_lt_R0; exact P).
  list_eq; field; lra.
Qed.
Lemma nhat_scale_neg k a0 a1 a2 : k < 0 -> nonzero3 a0 a1 a2 ->
  nhat [k * a0; k * a1; k * a2] = [- cx (nhat [a0; a1; a2]); - cy (nhat [a0; a1; a2]); - cz (nhat [a0; a1; a2])].
Proof.
  intros Hk Hnz. pose proof (nonzero3_pos a0 a1 a2 Hnz) as P. unfold nhat, dot3, cx, cy, cz. cbn.
  replace (k * a0 * (k * a0) + k * a1 * (k * a1) + k * a2 * (k * a2)) with ((- k) * (- k) * (a0 * a0 + a1 * a1 + a2 * a2)) by ring.
  rewrite sqrt_mult by nra. rewrite sqrt_square by lra.
  assert (0 < sqrt (a0 * a0 + a1 * a1 + a2 * a2)) as LP by (apply sqrt_lt_R0; exact P).
  list_eq; field; lra.
Qed.
Lemma rot3_axis_scale alpha k a0 a1 a2 : 0 < k -> nonzero3 a0 a1 a2 ->
  rotation_matrix ROps alpha 3 [k * a0; k * a1; k * a2] = rotation_matrix ROps alpha 3 [a0; a1; a2].
Proof. intros Hk Hnz. rewrite !rotation3_eq. cbv zeta. rewrite (nhat_scale k a0 a1 a2 Hk Hnz). reflexivity. Qed.
Lemma rot3_axis_scale_neg alpha k a0 a1 a2 Rm : k < 0 -> nonzero3 a0 a1 a2 ->
  rotation_matrix ROps alpha 3 [a0; a1; a2] = Ok Rm ->
  rotation_matrix ROps alpha 3 [k * a0; k * a1; k * a2] = Ok (mtr Rm) /\
  rotation_matrix ROps (- alpha) 3 [a0; a1; a2] = Ok (mtr Rm).
Proof.
  intros Hk Hnz. rewrite !rotation3_eq. cbv zeta. rewrite (nhat_scale_neg k a0 a1 a2 Hk Hnz). intros [= <-].
  rewrite cos_neg, sin_neg. unfold rodrigues, mtr, cx, cy, cz. cbn. split; list_eq; ring.
Qed.

(** Spherical_Coordinates about an axis of any length: the direction of the axis decides *)
Lemma nonzero3_scale k a0 a1 a2 : k <> 0 -> nonzero3 a0 a1 a2 -> nonzero3 (k * a0) (k * a1) (k * a2).
Proof.
  intros Hk [H | [H | H]]; [left | right; left | right; right]; apply Rmult_integral_contrapositive_currified; assumption.
Qed.
Lemma spherical_axis_scale r t p k a0 a1 a2 : 0 < k -> nonzero3 a0 a1 a2 ->
  spherical_axis ROps Rhypot r t p [k * a0; k * a1; k * a2] = spherical_axis ROps Rhypot r t p [a0; a1; a2].
Proof.
  intros Hk Hnz. assert (nonzero3 (k * a0) (k * a1) (k * a2)) as Hnz' by (apply nonzero3_scale; [lra | exact Hnz]).
  rewrite !spherical_axis_eq. cbv zeta. rewrite (nhat_scale k a0 a1 a2 Hk Hnz).
  assert (forall b0 b1 b2, nonzero3 b0 b1 b2 -> Reqb (sqrt (dot3 [b0; b1; b2] [b0; b1; b2])) 0 = false) as Z.
  { intros b0 b1 b2 H. apply Reqb_false. pose proof (len_pos b0 b1 b2 H) as LP. rewrite Rplus_0_l in LP.
    unfold dot3, cx, cy, cz. cbn. lra. }
  rewrite (Z _ _ _ Hnz), (Z _ _ _ Hnz'). reflexivity.
Qed.

Lemma axis_direction_decides alpha r t p k a0 a1 a2 : nonzero3 a0 a1 a2 ->
  (0 < k ->
     rotation_matrix ROps alpha 3 [k * a0; k * a1; k * a2] = rotation_matrix ROps alpha 3 [a0; a1; a2] /\
     spherical_axis ROps Rhypot r t p [k * a0; k * a1; k * a2] = spherical_axis ROps Rhypot r t p [a0; a1; a2]) /\
  (k < 0 -> forall Rm, rotation_matrix ROps alpha 3 [a0; a1; a2] = Ok Rm ->
     rotation_matrix ROps alpha 3 [k * a0; k * a1; k * a2] = Ok (mtr Rm) /\ rotation_matrix ROps (- alpha) 3 [a0; a1; a2] = Ok (mtr Rm)).
Proof.
  intros Hnz. split.
  - intros Hk. split; [apply rot3_axis_scale | apply spherical_axis_scale]; assumption.
  - intros Hk Rm E. apply rot3_axis_scale_neg; assumption.
Qed.

(** ** chains about one direction: the product is the rotation by the sum of the angles (any number of factors, axes of any lengths) *)
Definition along (a0 a1 a2 : R) (ax : list R) : Prop := exists k, 0 < k /\ ax = [k * a0; k * a1; k * a2].
Lemma angle_sum_fold (l : list R) : forall s, fold_left (fun acc a => nadd ROps acc a) l s = s + angle_sum ROps l.
Proof.
  unfold angle_sum. induction l as [| x l IH]; intros s; cbn [fold_left].
  - cbn. ring.
  - rewrite IH, (IH (nadd ROps (n0 ROps) x)). cbn. ring.
Qed.
Lemma angle_sum_cons x (l : list R) : angle_sum ROps (x :: l) = x + angle_sum ROps l.
Proof. unfold angle_sum at 1. cbn [fold_left]. rewrite angle_sum_fold. cbn. ring. Qed.

Lemma rot_chain_fold_same_axis a0 a1 a2 fs : nonzero3 a0 a1 a2 -> Forall (fun f => along a0 a1 a2 (snd f)) fs -> forall s,
  fold_left (rot_chain_step ROps 3) fs (rotation_matrix ROps s 3 [a0; a1; a2]) =
  rotation_matrix ROps (s + angle_sum ROps (map fst fs)) 3 [a0; a1; a2].
Proof.
  intros Hnz. induction 1 as [| [alpha ax] fs (k & Hk & Hax) _ IH]; intros s.
  - cbn [fold_left map]. replace (s + angle_sum ROps []) with s by (unfold angle_sum; cbn; ring). reflexivity.
  - cbn [fold_left map fst snd] in *. subst ax. rewrite angle_sum_cons.
    destruct (rot3_returns s a0 a1 a2) as [Ra Ea]. destruct (rot3_returns alpha a0 a1 a2) as [Rb Eb].
    destruct (rot3_returns (s + alpha) a0 a1 a2) as [Rab Eab].
    unfold rot_chain_step at 2. rewrite Ea. cbn [rbind fst snd]. rewrite (rot3_axis_scale alpha k a0 a1 a2 Hk Hnz), Eb. cbn [rbind].
    rewrite (rot3_compose s alpha a0 a1 a2 Ra Rb Rab Hnz Ea Eb Eab), <- Eab, IH. f_equal. ring.
Qed.
Lemma rot_chain_same_axis a0 a1 a2 fs : nonzero3 a0 a1 a2 -> Forall (fun f => along a0 a1 a2 (snd f)) fs ->
  rot_chain ROps 3 fs = rotation_matrix ROps (angle_sum ROps (map fst fs)) 3 [a0; a1; a2].
Proof.
  intros Hnz H. unfold rot_chain. change (Z.to_nat 3) with 3%nat. rewrite midentity3, <- (rot3_zero a0 a1 a2).
  rewrite (rot_chain_fold_same_axis a0 a1 a2 fs Hnz H). f_equal. ring.
Qed.

(** 2-D: every chain, whatever the axis arguments *)
Lemma rot_chain_fold_2d fs : forall s,
  fold_left (rot_chain_step ROps 2) fs (rotation_matrix ROps s 2 []) = rotation_matrix ROps (s + angle_sum ROps (map fst fs)) 2 [].
Proof.
  induction fs as [| [alpha ax] fs IH]; intros s.
  - cbn [fold_left map]. replace (s + angle_sum ROps []) with s by (unfold angle_sum; cbn; ring). reflexivity.
  - cbn [fold_left map fst snd]. rewrite angle_sum_cons. unfold rot_chain_step at 2. rewrite (rot2_eq s []). cbn [rbind fst snd].
    rewrite (rot2_eq alpha ax). cbn [rbind].
    rewrite (rot2_compose s alpha [] ax [] _ _ _ (rot2_eq s []) (rot2_eq alpha ax) (rot2_eq (s + alpha) [])).
    rewrite <- (rot2_eq (s + alpha) []), IH. f_equal. ring.
Qed.
Lemma rot_chain_2d fs axis : rot_chain ROps 2 fs = rotation_matrix ROps (angle_sum ROps (map fst fs)) 2 axis.
Proof.
  unfold rot_chain. change (Z.to_nat 2) with 2%nat. rewrite midentity2, <- (rot2_zero []), rot_chain_fold_2d, !rot2_eq.
  repeat f_equal; ring.
Qed.

(** n equal factors: R(alpha)^n = R(n alpha) *)
Lemma angle_sum_repeat alpha n : angle_sum ROps (repeat alpha n) = INR n * alpha.
Proof.
  induction n as [| n IH]; [unfold angle_sum; cbn; ring |].
  change (repeat alpha (S n)) with (alpha :: repeat alpha n). rewrite angle_sum_cons, IH, S_INR. ring.
Qed.
Lemma map_fst_repeat (x : R) (l : list R) n : map fst (repeat (x, l) n) = repeat x n.
Proof. induction n as [| n IH]; [reflexivity | cbn; rewrite IH; reflexivity]. Qed.
Lemma rot_chain_power alpha a0 a1 a2 n : nonzero3 a0 a1 a2 ->
  rot_chain ROps 3 (repeat (alpha, [a0; a1; a2]) n) = rotation_matrix ROps (INR n * alpha) 3 [a0; a1; a2].
Proof.
  intros Hnz. rewrite (rot_chain_same_axis a0 a1 a2).
  - rewrite map_fst_repeat, angle_sum_repeat. reflexivity.
  - exact Hnz.
  - apply Forall_forall. intros f Hf. apply repeat_spec in Hf. subst f. exists 1. split; [lra|]. cbn [snd]. list_eq; ring.
Qed.

(** ** periods: the angle plus any whole number of turns *)
Lemma cos_period_Z x k : cos (x + 2 * IZR k * PI) = cos x.
Proof.
  destruct (Z_le_gt_dec 0 k) as [H | H].
  - rewrite <- (Z2Nat.id k H), <- INR_IZR_INZ. apply cos_period.
  - rewrite <- (cos_period (x + 2 * IZR k * PI) (Z.to_nat (- k))). f_equal.
    rewrite INR_IZR_INZ, Z2Nat.id by lia. rewrite opp_IZR. ring.
Qed.
Lemma sin_period_Z x k : sin (x + 2 * IZR k * PI) = sin x.
Proof.
  destruct (Z_le_gt_dec 0 k) as [H | H].
  - rewrite <- (Z2Nat.id k H), <- INR_IZR_INZ. apply sin_period.
  - rewrite <- (sin_period (x + 2 * IZR k * PI) (Z.to_nat (- k))). f_equal.
    rewrite INR_IZR_INZ, Z2Nat.id by lia. rewrite opp_IZR. ring.
Qed.
Lemma rotation_matrix_cs alpha beta dim (axis : list R) : cos alpha = cos beta -> sin alpha = sin beta ->
  rotation_matrix ROps alpha dim axis = rotation_matrix ROps beta dim axis.
Proof. intros Hc Hs. unfold rotation_matrix. cbn [ncos nsin ROps]. rewrite Hc, Hs. reflexivity. Qed.
Lemma rotation_matrix_period alpha k dim (axis : list R) :
  rotation_matrix ROps (alpha + 2 * IZR k * PI) dim axis = rotation_matrix ROps alpha dim axis.
Proof. apply rotation_matrix_cs; [apply cos_period_Z | apply sin_period_Z]. Qed.
Lemma spherical_axis_cs hyp r t t' p p' (axis : list R) : cos t = cos t' -> sin t = sin t' -> cos p = cos p' -> sin p = sin p' ->
  spherical_axis ROps hyp r t p axis = spherical_axis ROps hyp r t' p' axis /\ spherical ROps r t p = spherical ROps r t' p'.
Proof.
  intros C1 S1 C2 S2. unfold spherical_axis, spherical_general, spherical_antiparallel, spherical. cbn [ncos nsin ROps].
  rewrite C1, S1, C2, S2. split; reflexivity.
Qed.
Lemma spherical_period hyp r t p k m (axis : list R) :
  spherical_axis ROps hyp r (t + 2 * IZR k * PI) (p + 2 * IZR m * PI) axis = spherical_axis ROps hyp r t p axis /\
  spherical ROps r (t + 2 * IZR k * PI) (p + 2 * IZR m * PI) = spherical ROps r t p.
Proof. apply spherical_axis_cs; first [apply cos_period_Z | apply sin_period_Z]. Qed.

(** ** the default axis Vector({0, 0, 1}): the 2-D rotation in the x-y plane; the trace of every 3-D rotation *)
Lemma rot3_default alpha :
  rotation_matrix ROps alpha 3 [0; 0; 1] = Ok [[cos alpha; - sin alpha; 0]; [sin alpha; cos alpha; 0]; [0; 0; 1]].
Proof.
  rewrite rotation3_eq. cbv zeta. unfold nhat, dot3, cx, cy, cz. cbn.
  replace (0 * 0 + 0 * 0 + 1 * 1) with 1 by ring. rewrite sqrt_1. unfold rodrigues. list_eq; field.
Qed.
Lemma rot3_trace alpha a0 a1 a2 Rm : nonzero3 a0 a1 a2 -> rotation_matrix ROps alpha 3 [a0; a1; a2] = Ok Rm ->
  ent Rm 0 0 + ent Rm 1 1 + ent Rm 2 2 = 1 + 2 * cos alpha.
Proof.
  intros Hnz. rewrite rotation3_eq. intros [= <-]. pose proof (nhat_unit a0 a1 a2 Hnz) as U. unfold dot3 in U.
  unfold rodrigues, ent. cbn. nsatz.
Qed.

(** ** guards, for every number type: when the calls return, with which shape, and when they end the process *)
Lemma rotation_matrix_guards {T} (Ops : NumOps T) (alpha : T) (dim : Z) (axis : list T) :
  (dim = 2%Z \/ (dim = 3%Z /\ length axis = 3%nat) ->
     exists Rm, rotation_matrix Ops alpha dim axis = Ok Rm /\ length Rm = Z.to_nat dim /\
                Forall (fun row => length row = Z.to_nat dim) Rm) /\
  (~ (dim = 2%Z \/ (dim = 3%Z /\ length axis = 3%nat)) -> rotation_matrix Ops alpha dim axis = Exit).
Proof.
  split.
  - intros [-> | [-> H]].
    + eexists. split; [reflexivity|]. split; [reflexivity|]. repeat constructor.
    + destruct axis as [| x0 [| x1 [| x2 [| x3 l]]]]; try discriminate H.
      eexists. split; [reflexivity|]. split; [reflexivity|]. repeat constructor.
  - intros H. unfold rotation_matrix. destruct (Z.eqb_spec dim 2) as [E | N2]; [exfalso; auto|].
    destruct (Z.eqb_spec dim 3) as [E | N3]; [| reflexivity].
    destruct axis as [| x0 [| x1 [| x2 [| x3 l]]]]; try reflexivity. exfalso. apply H. right. split; [exact E | reflexivity].
Qed.
Lemma angle_guards {T} (Ops : NumOps T) (a b : list T) :
  (length a = length b -> exists x, angle Ops a b = Ok x) /\ (length a <> length b -> angle Ops a b = Exit).
Proof.
  unfold angle, dot. split; intros H.
  - rewrite (proj2 (Nat.eqb_eq _ _) H). eexists. reflexivity.
  - rewrite (proj2 (Nat.eqb_neq _ _) H). reflexivity.
Qed.
Lemma spherical_axis_guards {T} (Ops : NumOps T) hyp (r t p : T) (axis : list T) :
  ((3 <= length axis)%nat -> exists u, spherical_axis Ops hyp r t p axis = Ok u /\ length u = 3%nat) /\
  (length axis = 2%nat -> spherical_axis Ops hyp r t p axis = if neqb Ops (vnorm Ops axis) (n0 Ops) then Ok (spherical Ops r t p) else Exit) /\
  ((length axis < 2)%nat -> spherical_axis Ops hyp r t p axis = Exit).
Proof.
  split; [| split].
  - intros H. destruct axis as [| x0 [| x1 [| x2 l]]]; cbn in H; try lia.
    unfold spherical_axis. destruct (_ || _); [eexists; split; reflexivity|].
    destruct (neqb _ _ _); eexists; split; reflexivity.
  - intros H. destruct axis as [| x0 [| x1 [| x2 l]]]; try discriminate H. reflexivity.
  - intros H. destruct axis as [| x0 [| x1 l]]; cbn in H; try lia; reflexivity.
Qed.

(** ** non-vacuity *)
Example ex_chain_axes : Forall (fun f => axis3_nonzero (snd f)) [(1, [1; 2; 2]); (-2, [0; 0; -3]); (1 / 2, [3; 0; 4])].
Proof.
  repeat constructor; cbn [snd]; [exists 1, 2, 2 | exists 0, 0, (-3) | exists 3, 0, 4]; (split; [reflexivity|]); unfold nonzero3; lra.
Qed.
Example ex_chain_along : nonzero3 1 2 2 /\ Forall (fun f => along 1 2 2 (snd f)) [(1, [1; 2; 2]); (-2, [3; 6; 6]); (1 / 2, [1 / 2; 1; 1])].
Proof.
  split; [left; lra|]. repeat constructor; cbn [snd]; [exists 1 | exists 3 | exists (1 / 2)]; (split; [lra|]); list_eq; field.
Qed.
