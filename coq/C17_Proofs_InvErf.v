(** * C17 proofs, part 4: Inv_Erf.  |Inv_Erf(p) - erfinv(p)| <= 1e-4 from the root finder's bracket guarantee
    (hypothesis; it is C02's accuracy theorem about Find_Root, instantiated at erf(x) - p on [-10,10]) and the
    strict monotonicity of erf, proved here from its definition as an integral (NumR.Rerf). *)
From Coq Require Import Reals ZArith Lra Lia Bool Psatz.
From Coquelicot Require Import Coquelicot.
From LP Require Import Num NumR Gen_C17_Formulas C17_Model.
Local Open Scope R_scope.

Definition gauss (t : R) := exp (- (t * t)).
Lemma gauss_cont t : continuous gauss t.
Proof. apply (ex_derive_continuous (V := R_NormedModule)). unfold gauss. auto_derive. auto. Qed.
Lemma gauss_pos t : 0 < gauss t.
Proof. apply exp_pos. Qed.
Lemma gauss_ex_RInt a b : ex_RInt gauss a b.
Proof. apply (@ex_RInt_continuous R_CompleteNormedModule). intros z _. apply gauss_cont. Qed.

Lemma two_over_sqrt_pi_pos : 0 < 2 / sqrt PI.
Proof. apply Rdiv_lt_0_compat; [lra|]. apply sqrt_lt_R0, PI_RGT_0. Qed.

Lemma Rerf_diff x y : Rerf y - Rerf x = 2 / sqrt PI * RInt gauss x y.
Proof.
  unfold Rerf. fold gauss.
  rewrite <- (RInt_Chasles gauss 0 x y) by apply gauss_ex_RInt.
  unfold plus; cbn. ring.
Qed.

(** erf is strictly increasing (its derivative 2/sqrt(pi) exp(-x^2) is positive) *)
Theorem Rerf_increasing x y : x < y -> Rerf x < Rerf y.
Proof.
  intros H. apply Rminus_gt_0_lt. rewrite Rerf_diff.
  apply Rmult_lt_0_compat; [apply two_over_sqrt_pi_pos|].
  apply RInt_gt_0; [exact H|intros; apply gauss_pos|intros; apply gauss_cont].
Qed.

Lemma Rerf_injective x y : Rerf x = Rerf y -> x = y.
Proof.
  intros H. destruct (Rtotal_order x y) as [L|[E|L]]; [|exact E|];
    apply Rerf_increasing in L; lra.
Qed.

Lemma Rerf_0 : Rerf 0 = 0.
Proof. unfold Rerf. rewrite RInt_point. unfold zero; cbn. ring. Qed.

(** the criterion the certified samples (S3) establish for the library's y = Inv_Erf(p): an enclosure of p by
    erf(y -+ a) puts y within a of erfinv p *)
Lemma erf_enclosure_accuracy y p z a : Rerf (y - a) < p < Rerf (y + a) -> Rerf z = p -> Rabs (y - z) < a.
Proof.
  intros [H1 H2] Hz. subst p.
  assert (y - a < z).
  { destruct (Rlt_dec (y - a) z); [assumption|]. assert (z <= y - a) as [L|E] by lra; [apply Rerf_increasing in L; lra|subst; lra]. }
  assert (z < y + a).
  { destruct (Rlt_dec z (y + a)); [assumption|]. assert (y + a <= z) as [L|E] by lra; [apply Rerf_increasing in L; lra|rewrite E in H2; lra]. }
  apply Rabs_def1; lra.
Qed.

Section InvErf.
(** the root finder handed to Inv_Erf (the library passes Find_Root) *)
Variable FR : (R -> R) -> R -> R -> R -> res R.
(** C02's accuracy theorem for Find_Root, at the call Inv_Erf makes: a returned value is an exact zero, or an
    end of a sub-bracket of [-10,10] with a sign change whose width is below the accuracy (or, when the
    iteration cap K of Find_Root was hit, below 20/2^K - Ridder's bracket at least halves in every iteration;
    K is 2200 in the source now, it was 50; all that matters here is 20/2^K < 1e-4). *)
Variable K : nat.
Hypothesis K_large : (10 - - (10)) / 2 ^ K < 1 / 10000.
Hypothesis FR_accuracy : forall p r, FR (fun x => Rerf x - p) (- (10)) 10 (1 / 10000) = Ok r ->
  Rerf r - p = 0 \/
  exists x1 x2, - (10) <= x1 /\ x1 < x2 /\ x2 <= 10 /\ (Rerf x1 - p) * (Rerf x2 - p) < 0 /\ (r = x1 \/ r = x2) /\
    (x2 - x1 < 1 / 10000 \/ x2 - x1 <= (10 - - (10)) / 2 ^ K).

Lemma inv_erf_R p : inv_erf ROps FR p =
  if Rlt_dec (Rabs (p - 1)) (1 / 10000000000000000) then Ok 10
  else if Rlt_dec (Rabs (p + 1)) (1 / 10000000000000000) then Ok (- (10))
  else if Rle_dec 1 (Rabs p) then Exit
  else FR (fun x => Rerf x - p) (- (10)) 10 (1 / 10000).
Proof.
  unfold inv_erf. cbn. unfold Rltb, Rleb.
  destruct (Rlt_dec _ _); [reflexivity|]. destruct (Rlt_dec _ _); [reflexivity|]. destruct (Rle_dec _ _); reflexivity.
Qed.

(** the guards: |p| >= 1 exits (unless p is within 1e-16 of 1 or of -1, where 10 resp. -10 is returned with a warning) *)
Lemma inv_erf_guard p : 1 <= Rabs p -> 1 / 10000000000000000 <= Rabs (p - 1) -> 1 / 10000000000000000 <= Rabs (p + 1) ->
  inv_erf ROps FR p = Exit.
Proof.
  intros H1 H2 H3. rewrite inv_erf_R. destruct (Rlt_dec _ _); [lra|]. destruct (Rlt_dec _ _); [lra|].
  destruct (Rle_dec _ _); [reflexivity|lra].
Qed.
Lemma inv_erf_minus_one : inv_erf ROps FR (- (1)) = Ok (- (10)).
Proof.
  rewrite inv_erf_R. replace (- (1) - 1) with (- (2)) by ring. rewrite Rabs_Ropp, (Rabs_pos_eq 2) by lra.
  destruct (Rlt_dec _ _); [lra|]. replace (- (1) + 1) with 0 by ring. rewrite Rabs_R0.
  destruct (Rlt_dec _ _); [reflexivity|lra].
Qed.
Lemma inv_erf_one : inv_erf ROps FR 1 = Ok 10.
Proof.
  rewrite inv_erf_R. replace (1 - 1) with 0 by ring. rewrite Rabs_R0. destruct (Rlt_dec _ _); [reflexivity|lra].
Qed.

(** accuracy: for -1 < p < 1 not within 1e-16 of 1 (every double in (-1,1) qualifies: 1 - 2^-53 is 1.1e-16 below 1),
    whatever Inv_Erf returns is within 1e-4 of the z with erf z = p, i.e. of erfinv p *)
Theorem inv_erf_accuracy p r z : -1 < p < 1 -> 1 / 10000000000000000 <= Rabs (p - 1) -> 1 / 10000000000000000 <= Rabs (p + 1) ->
  inv_erf ROps FR p = Ok r -> Rerf z = p -> Rabs (r - z) <= 1 / 10000.
Proof.
  intros Hp Hp1 Hp2 H Hz. rewrite inv_erf_R in H.
  destruct (Rlt_dec _ _) as [C|_]; [lra|].
  destruct (Rlt_dec _ _) as [C|_]; [lra|].
  destruct (Rle_dec _ _) as [C|_]; [discriminate|].
  destruct (FR_accuracy p r H) as [Z|(x1 & x2 & A1 & A2 & A3 & S & Hr & W)].
  - assert (r = z) by (apply Rerf_injective; lra). subst. replace (z - z) with 0 by ring. rewrite Rabs_R0. lra.
  - pose proof (Rerf_increasing x1 x2 A2) as M.
    assert (F1: Rerf x1 - p < 0) by nra. assert (F2: 0 < Rerf x2 - p) by nra.
    assert (Z1: x1 < z).
    { destruct (Rlt_dec x1 z); [assumption|]. assert (z <= x1) as [L|E] by lra; [apply Rerf_increasing in L; lra|subst; lra]. }
    assert (Z2: z < x2).
    { destruct (Rlt_dec z x2); [assumption|]. assert (x2 <= z) as [L|E] by lra; [apply Rerf_increasing in L; lra|subst; lra]. }
    assert (W': x2 - x1 < 1 / 10000).
    { destruct W as [W|W]; [exact W|]. eapply Rle_lt_trans; [exact W|exact K_large]. }
    apply Rabs_le. destruct Hr as [-> | ->]; lra.
Qed.
End InvErf.

(** non-vacuity: p = 0 is in range and erf 0 = 0 *)
Example inv_erf_example : -1 < 0 < 1 /\ 1 / 10000000000000000 <= Rabs (0 - 1) /\ 1 / 10000000000000000 <= Rabs (0 + 1) /\ Rerf 0 = 0.
Proof.
  repeat split; try lra.
  - replace (0 - 1) with (- (1)) by ring. rewrite Rabs_Ropp, Rabs_R1. lra.
  - replace (0 + 1) with 1 by ring. rewrite Rabs_R1. lra.
  - apply Rerf_0.
Qed.

(** the iteration caps the source has had satisfy the side condition *)
Example cap_50_ok : (10 - - (10)) / 2 ^ 50 < 1 / 10000.
Proof.
  assert (1000000 < 2 ^ 50) by (simpl; lra).
  apply Rmult_lt_reg_r with (2 ^ 50); [lra|]. unfold Rdiv at 1. rewrite Rmult_assoc, Rinv_l by lra. lra.
Qed.
Lemma cap_ge_50_ok (K : nat) : (50 <= K)%nat -> (10 - - (10)) / 2 ^ K < 1 / 10000.
Proof.
  intros H. eapply Rle_lt_trans; [|apply cap_50_ok].
  unfold Rdiv. apply Rmult_le_compat_l; [lra|].
  apply Rinv_le_contravar; [apply pow_lt; lra|]. apply Rle_pow; [lra|exact H].
Qed.
