(** * C08 proofs: several objects in one program (copies, assignments, moves, destruction) and long tables.
    1. The store of objects ([lstep], C08_Model.v): an operation changes only the slots it writes, so a copy keeps answering
       like its source did at the time of the copy, whatever is done to the source (or to any other object) afterwards.
    2. The loops of Integrate and of Local_Minimum/Maximum can be cut anywhere and resumed with the running value
       (the driver walks tables of 10^5 points window by window), and Locate, the knot scan and the global extrema read
       only the [skeleton] of an object. *)
From Coq Require Import ZArith List Bool Lia PeanoNat.
From LP Require Import Num C01_Model C08_Model.
Import ListNotations.

Section StoreLaws.
Context {A : Type}.
Implicit Types (s : store A) (v : option A).

Lemma st_put_length s k v : length (st_put s k v) = length s.
Proof. revert k; induction s as [|a r IH]; intros [|k]; cbn; auto. Qed.

Lemma st_get_put_same s k v : (k < length s)%nat -> st_get (st_put s k v) k = v.
Proof.
  unfold st_get. revert k; induction s as [|a r IH]; intros [|k] H; cbn in *; try lia; auto.
  apply IH; lia.
Qed.

Lemma st_get_put_other s k j v : k <> j -> st_get (st_put s k v) j = st_get s j.
Proof.
  unfold st_get. revert k j; induction s as [|a r IH]; intros [|k] [|j] H; cbn; auto; try congruence;
  try (apply IH; congruence).
Qed.

(** frame: an operation leaves every slot it does not write as it was *)
Lemma lstep_frame s (op : lop A) i : writes op i = false -> st_get (lstep s op) i = st_get s i.
Proof.
  destruct op as [k v|k j|k j|k|k j]; cbn [lstep writes]; intros H.
  - apply st_get_put_other. apply Nat.eqb_neq; exact H.
  - apply st_get_put_other. apply Nat.eqb_neq; exact H.
  - apply orb_false_iff in H as [H1 H2]. apply Nat.eqb_neq in H1, H2.
    rewrite st_get_put_other by exact H2. apply st_get_put_other; exact H1.
  - apply st_get_put_other. apply Nat.eqb_neq; exact H.
  - apply orb_false_iff in H as [H1 H2]. apply Nat.eqb_neq in H1, H2.
    rewrite st_get_put_other by exact H2. apply st_get_put_other; exact H1.
Qed.

Lemma lsteps_frame (ops : list (lop A)) s i :
  forallb (fun op => negb (writes op i)) ops = true -> st_get (fold_left lstep ops s) i = st_get s i.
Proof.
  revert s; induction ops as [|op ops IH]; intros s H; cbn [fold_left forallb] in *; [reflexivity|].
  apply andb_true_iff in H as [H1 H2]. rewrite IH by exact H2.
  apply lstep_frame. apply negb_true_iff; exact H1.
Qed.

Lemma lstep_length s (op : lop A) : length (lstep s op) = length s.
Proof. destruct op; cbn [lstep]; rewrite ?st_put_length; reflexivity. Qed.

(** a copy (construction or assignment) holds what the source held, and keeps it through every later operation that does
    not write the copy itself -- in particular through re-assignment, move-out or destruction of the source *)
Theorem copy_keeps_value s k j (ops : list (lop A)) :
  (k < length s)%nat ->
  forallb (fun op => negb (writes op k)) ops = true ->
  st_get (fold_left lstep ops (lstep s (LCopy k j))) k = st_get s j.
Proof.
  intros Hk H. rewrite lsteps_frame by exact H. cbn [lstep]. apply st_get_put_same; exact Hk.
Qed.

(** the same for an object received by move, and the source of a copy is not changed by it *)
Theorem move_keeps_value s k j (ops : list (lop A)) :
  (k < length s)%nat -> k <> j ->
  forallb (fun op => negb (writes op k)) ops = true ->
  st_get (fold_left lstep ops (lstep s (LMove k j))) k = st_get s j.
Proof.
  intros Hk Hkj H. rewrite lsteps_frame by exact H. cbn [lstep].
  rewrite st_get_put_other by congruence. apply st_get_put_same; exact Hk.
Qed.

Theorem copy_leaves_source s k j : k <> j -> st_get (lstep s (LCopy k j)) j = st_get s j.
Proof. intros H. cbn [lstep]. apply st_get_put_other; exact H. Qed.

Theorem swap_exchanges s k j : (k < length s)%nat -> (j < length s)%nat -> k <> j ->
  st_get (lstep s (LSwap k j)) k = st_get s j /\ st_get (lstep s (LSwap k j)) j = st_get s k.
Proof.
  intros Hk Hj H. cbn [lstep]. split.
  - rewrite st_get_put_other by congruence. apply st_get_put_same; exact Hk.
  - apply st_get_put_same. rewrite st_put_length; exact Hj.
Qed.

(** non-vacuity: two slots, copy 1 := 0, then the source receives another object and is destroyed *)
Example copy_keeps_value_example (a b : A) :
  st_get (fold_left lstep [LPut 0 b; LDrop 0] (lstep [Some a; None] (LCopy 1 0))) 1 = Some a.
Proof. reflexivity. Qed.
End StoreLaws.

Section Long.
Context {T : Type} (Ops : NumOps T).

(** Integrate's loop, cut after [c1] iterations and resumed with the running sum *)
Lemma integrate_loop_split (o : itab) x1 x2 i1 i2 c1 c2 i acc :
  integrate_loop Ops o x1 x2 i1 i2 (c1 + c2) i acc =
  rbind (integrate_loop Ops o x1 x2 i1 i2 c1 i acc) (fun acc' => integrate_loop Ops o x1 x2 i1 i2 c2 (i + c1) acc').
Proof.
  revert i acc; induction c1 as [|c1 IH]; intros i acc.
  - cbn. rewrite Nat.add_0_r. reflexivity.
  - cbn [Nat.add integrate_loop].
    destruct (segment o (i1 + i)) as [sg| | |]; cbn [rbind]; try reflexivity.
    destruct (if Nat.eqb i (i2 - i1) then Ok x2 else get (ixs o) (S (i1 + i))) as [xr| | |]; cbn [rbind]; try reflexivity.
    rewrite IH. replace (S i + c1)%nat with (i + S c1)%nat by lia. reflexivity.
Qed.

(** the knot scan of Local_Minimum / Local_Maximum, cut after [c1] knots and resumed with the running extremum *)
Lemma knot_scan_split pick (o : itab) x1 x2 c1 c2 i m :
  knot_scan Ops pick o x1 x2 (c1 + c2) i m =
  rbind (knot_scan Ops pick o x1 x2 c1 i m) (fun m' => knot_scan Ops pick o x1 x2 c2 (i + c1) m').
Proof.
  revert i m; induction c1 as [|c1 IH]; intros i m.
  - cbn. rewrite Nat.add_0_r. reflexivity.
  - cbn [Nat.add knot_scan].
    destruct (get (ixs o) i) as [xi| | |]; cbn [rbind]; try reflexivity.
    replace (i + S c1)%nat with (S i + c1)%nat by lia.
    destruct (ngeb Ops xi x1 && nleb Ops xi x2).
    + destruct (get (iys o) i) as [yi| | |]; cbn [rbind]; try reflexivity. apply IH.
    + apply IH.
Qed.

(** what Locate, the knot scan and the global extrema read of an object is its skeleton *)
Lemma locate_skeleton xs ys c x :
  locate Ops (skeleton Ops xs ys c) x = locate Ops (set_prefactor (build Ops xs ys) c) x.
Proof. reflexivity. Qed.
Lemma knot_scan_skeleton pick xs ys c x1 x2 cnt i m :
  knot_scan Ops pick (skeleton Ops xs ys c) x1 x2 cnt i m = knot_scan Ops pick (set_prefactor (build Ops xs ys) c) x1 x2 cnt i m.
Proof.
  revert i m; induction cnt as [|cnt IH]; intros i m; [reflexivity|].
  cbn [knot_scan]. change (ixs (skeleton Ops xs ys c)) with xs. change (ixs (set_prefactor (build Ops xs ys) c)) with xs.
  change (iys (skeleton Ops xs ys c)) with ys. change (iys (set_prefactor (build Ops xs ys) c)) with ys.
  change (ipre (skeleton Ops xs ys c)) with c. change (ipre (set_prefactor (build Ops xs ys) c)) with c.
  destruct (get xs i) as [xi| | |]; cbn [rbind]; try reflexivity.
  destruct (ngeb Ops xi x1 && nleb Ops xi x2).
  - destruct (get ys i) as [yi| | |]; cbn [rbind]; try reflexivity. apply IH.
  - apply IH.
Qed.
Lemma global_extrema_skeleton xs ys c :
  global_minimum Ops (skeleton Ops xs ys c) = global_minimum Ops (set_prefactor (build Ops xs ys) c) /\
  global_maximum Ops (skeleton Ops xs ys c) = global_maximum Ops (set_prefactor (build Ops xs ys) c).
Proof. split; reflexivity. Qed.
End Long.
