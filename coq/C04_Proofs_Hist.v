(** * C04 proofs, part 6: whole sessions (coq/C04_Life.v, [life_run]) - statements about call histories of ANY length,
    by induction over the list of calls.  No arithmetic law is used: they hold for every number type.
    - [life_run] is the left fold of [life_step]; a session splits at every point: running l1 ++ l2 is running l1 and
      then l2 from the state reached ([life_run_cat]), an undefined call ends the session;
    - along every session the number of live objects is constant and ALL live matrices / vectors satisfy the class
      invariant after every prefix of the session ([life_run_invariant], [life_run_prefix_invariant]);
    - frame: an object that no call of the session addresses holds, at the end, the value it had at the start
      ([life_run_frame]);
    - writing v = v + b for every v += b (and v = v - b for v -= b) anywhere in a session of any length changes
      nothing in the final state of the process ([life_run_desugar_v]). *)
From mathcomp Require Import all_ssreflect.
From Coq Require List ZArith.
From LP Require Import Num C04_Model C04_State C04_Life C04_Proofs_Struct C04_Proofs_State C04_Proofs_Life.
Set Implicit Arguments. Unset Strict Implicit. Unset Printing Implicit Defensive.
Arguments tab : simpl never.
Arguments tab2 : simpl never.
Arguments upd : simpl never.
Arguments vresize : simpl never.

Section Hist.
Context {T : Type} (Ops : NumOps T).
Local Notation dm := (mkMat 0 0 [::] : mat T).
Local Notation dv := (mkVec 0 [::] : vec T).
Local Notation lstate := (@lstate T).
Local Notation lstep := (@lstep T).

Definition run_from (r : res lstate) (steps : seq lstep) : res lstate :=
  foldl (fun acc s => rbind acc (fun st => life_step Ops st s)) r steps.
Lemma life_runE st steps : life_run Ops st steps = run_from (Ok st) steps.
Proof. by rewrite /life_run foldE. Qed.
Lemma run_from_nok r steps : (forall st, r <> Ok st) -> run_from r steps = r.
Proof. by elim: steps r => //= s l IH r H; rewrite IH; case: r H => // st /(_ st). Qed.

Lemma life_run_nil st : life_run Ops st [::] = Ok st.
Proof. by []. Qed.
Lemma life_run_cons st s steps :
  life_run Ops st (s :: steps) = rbind (life_step Ops st s) (fun st' => life_run Ops st' steps).
Proof.
  rewrite life_runE /=; case E: (life_step Ops st s) => [st'|||] /=; first by rewrite life_runE.
  all: by rewrite run_from_nok.
Qed.
(** a session splits at every point *)
Lemma life_run_cat st l1 l2 :
  life_run Ops st (l1 ++ l2) = rbind (life_run Ops st l1) (fun st1 => life_run Ops st1 l2).
Proof.
  elim: l1 st => [|s l1 IH] st //=; rewrite !life_run_cons.
  by case: (life_step Ops st s) => [st'|||] //=.
Qed.

Definition lstep_ok (s : lstep) : bool :=
  match s with LM _ o => mmut_ok o | LV _ o => vmut_ok o end.
Definition lstate_wf (st : lstate) : bool := all (@wf_mat T) st.1 && all (@wf_vec T) st.2.

Lemma life_step_wf st s st' : lstate_wf st -> lstep_ok s -> life_step Ops st s = Ok st' ->
  [/\ lstate_wf st', size st'.1 = size st.1 & size st'.2 = size st.2].
Proof.
  case: st => ms vs /andP [/= Hm Hv]; case: s => k o /= Ho.
  - case E: (life_m Ops ms k o) => [ms'|||] //= [<-] /=; rewrite /lstate_wf /= Hv andbT.
    by split=> //; [exact: (life_m_wf Hm Ho E) | case: (life_m_spec E)].
  - case E: (life_v Ops vs k o) => [vs'|||] //= [<-] /=; rewrite /lstate_wf /= Hm /=.
    by split=> //; [exact: (life_v_wf Hv Ho E) | case: (life_v_spec E)].
Qed.

(** the class invariant holds for all live objects at the end of every session *)
Theorem life_run_invariant steps st st' : lstate_wf st -> all lstep_ok steps -> life_run Ops st steps = Ok st' ->
  [/\ lstate_wf st', size st'.1 = size st.1 & size st'.2 = size st.2].
Proof.
  elim: steps st => [|s l IH] st Hst; first by move=> _ [<-].
  move=> /= /andP [Hs Hl]; rewrite life_run_cons; case E: (life_step Ops st s) => [st1|||] //= Hrun.
  case: (life_step_wf Hst Hs E) => H1 <- <-; exact: IH.
Qed.
(** ... and at every point of it: after every prefix of the calls *)
Theorem life_run_prefix_invariant steps n st st' : lstate_wf st -> all lstep_ok steps ->
  life_run Ops st steps = Ok st' ->
  exists2 stn, life_run Ops st (take n steps) = Ok stn & lstate_wf stn.
Proof.
  move=> Hst Hok; rewrite -{1}(cat_take_drop n steps) life_run_cat.
  case E: (life_run Ops st (take n steps)) => [stn|||] //= _; exists stn => //.
  have Hok' : all lstep_ok (take n steps).
    by move: Hok; rewrite -{1}(cat_take_drop n steps) all_cat => /andP [].
  by case: (life_run_invariant Hst Hok' E).
Qed.

(** frame: objects that no call of the session addresses keep their value *)
Definition targets_m (j : nat) (s : lstep) : bool := if s is LM k _ then k == j else false.
Definition targets_v (j : nat) (s : lstep) : bool := if s is LV k _ then k == j else false.
Lemma life_step_frame st s st' : life_step Ops st s = Ok st' ->
  (forall j, ~~ targets_m j s -> nth dm st'.1 j = nth dm st.1 j) /\
  (forall j, ~~ targets_v j s -> nth dv st'.2 j = nth dv st.2 j).
Proof.
  case: st => ms vs; case: s => k o /=.
  - case E: (life_m Ops ms k o) => [ms'|||] //= [<-] /=; split=> // j Hj.
    by case: (life_m_spec E) => _ _ _; apply; rewrite eq_sym.
  - case E: (life_v Ops vs k o) => [vs'|||] //= [<-] /=; split=> // j Hj.
    by case: (life_v_spec E) => _ _ _; apply; rewrite eq_sym.
Qed.
Theorem life_run_frame steps st st' : life_run Ops st steps = Ok st' ->
  (forall j, ~~ has (targets_m j) steps -> nth dm st'.1 j = nth dm st.1 j) /\
  (forall j, ~~ has (targets_v j) steps -> nth dv st'.2 j = nth dv st.2 j).
Proof.
  elim: steps st => [|s l IH] st; first by move=> [<-].
  rewrite life_run_cons; case E: (life_step Ops st s) => [st1|||] //= Hrun.
  case: (life_step_frame E) => F1 F2; case: (IH _ Hrun) => G1 G2.
  by split=> j; rewrite negb_or => /andP [Hs Hl]; [rewrite G1 // F1 | rewrite G2 // F2].
Qed.

(** compound assignment = assignment of the sum, anywhere in a session of any length (Vector) *)
Definition desugar_v (s : lstep) : lstep :=
  match s with
  | LV k (VuAddAssign a) => LV k (VuPlus a)
  | LV k (VuSubAssign a) => LV k (VuMinus a)
  | _ => s
  end.
Lemma life_step_desugar_v st s : life_step Ops st (desugar_v s) = life_step Ops st s.
Proof.
  case: s => // k [] //= a; rewrite /life_v; case: (get st.2 k) => //= v.
  - by case: (v_mut_compound Ops st.2 v a) => /= -> _.
  - by case: (v_mut_compound Ops st.2 v a) => /= _ ->.
Qed.
Theorem life_run_desugar_v steps st : life_run Ops st (map desugar_v steps) = life_run Ops st steps.
Proof.
  elim: steps st => [|s l IH] st //=; rewrite !life_run_cons life_step_desugar_v.
  by case: (life_step Ops st s) => //= st1.
Qed.
(** the same for Matrix, for sessions in which no live matrix ever has zero rows when += / -= is called on it *)
Definition desugar_m (s : lstep) : lstep :=
  match s with
  | LM k (MuAddAssign a) => LM k (MuPlus a)
  | LM k (MuSubAssign a) => LM k (MuMinus a)
  | _ => s
  end.
Definition compound_m (s : lstep) : bool :=
  match s with LM _ (MuAddAssign _) | LM _ (MuSubAssign _) => true | _ => false end.
Lemma life_step_desugar_m st s :
  (compound_m s -> forall k o, s = LM k o -> 0 < mrows (nth dm st.1 k)) ->
  life_step Ops st (desugar_m s) = life_step Ops st s.
Proof.
  case: s => // k [] //= a H; rewrite /life_m; case E: (get st.1 k) => [A|||] //=.
  - case: (getP dm E) => _ EA; have HA : 0 < mrows A by rewrite EA; exact: (H isT k _ erefl).
    by case: (m_mut_compound Ops st.1 a HA) => /= -> _.
  - case: (getP dm E) => _ EA; have HA : 0 < mrows A by rewrite EA; exact: (H isT k _ erefl).
    by case: (m_mut_compound Ops st.1 a HA) => /= _ ->.
Qed.
(** [rows_ok st steps]: run the session; whenever the next call is += / -= on matrix k, that matrix has a row *)
Fixpoint rows_ok (st : lstate) (steps : seq lstep) : Prop :=
  match steps with
  | [::] => True
  | s :: l => (compound_m s -> forall k o, s = LM k o -> 0 < mrows (nth dm st.1 k)) /\
              (forall st1, life_step Ops st s = Ok st1 -> rows_ok st1 l)
  end.
Theorem life_run_desugar_m steps st : rows_ok st steps ->
  life_run Ops st (map desugar_m steps) = life_run Ops st steps.
Proof.
  elim: steps st => [|s l IH] st //= [H1 H2]; rewrite !life_run_cons life_step_desugar_m //.
  by case E: (life_step Ops st s) => [st1|||] //=; apply: IH; apply: H2.
Qed.
End Hist.

(** ** Non-vacuity: a session over the natural numbers (two matrices, two vectors, eight calls: compound assignments with
    the object itself / another live object / a written-out operand, a transposition, a Resize, a write, an assignment) *)
From LP Require Import C04_Proofs_Laws.
Definition exSt : @lstate nat := ([:: exA; exB], [:: vec_of [:: 1; 2; 3]; vec_of [:: 4; 5; 6]]).
Definition exSteps : seq (@lstep nat) :=
  [:: LM 0 (MuAddAssign (MObj 0)); LV 1 (VuAddAssign (VObj 0)); LM 0 MuTranspose; LM 0 (MuResize 4 1);
      LV 0 (VuSet 2 7); LM 0 (MuFrom (MObj 1)); LM 0 (MuSubAssign (MLit exB)); LV 1 (VuSubAssign (VLit (vec_of [:: 1; 1; 1])))].
Ltac rows_ok_step :=
  split; [ by move=> // _ k o [<- _]; vm_compute
         | let st1 := fresh "st" in let H := fresh "H" in
           move=> st1 H; vm_compute in H; move: H => [H]; subst st1 ].
Example history_instance :
  [/\ lstate_wf exSt, all (@lstep_ok nat) exSteps, rows_ok NOps exSt exSteps, ~~ has (targets_m 1) exSteps &
      life_run NOps exSt exSteps
      = Ok ([:: mkMat 3 2 [:: [:: 0; 0]; [:: 0; 0]; [:: 0; 0]]; exB], [:: vec_of [:: 1; 2; 7]; vec_of [:: 4; 6; 8]])].
Proof.
  split; try by vm_compute.
  rewrite /exSteps /exSt.
  do 8 rows_ok_step.
  by [].
Qed.
