(** * C06 proofs, part 5: histories of calls to the whole family (call_step / call_run of C06_Model.v).
    The answer to a call does not depend on the calls made before it in the same process. *)
From Coq Require Import Reals ZArith List Lia Bool.
From LP Require Import Num NumR C06_Model C06_Proofs_Fact.
Import ListNotations.

Lemma tbl_inv_R_init : tbl_inv_R (fact_init ROps).
Proof. exact (tbl_inv_init ROps Ffact FR0). Qed.

(** Factorial: same answer from any reachable table, invariant kept *)
Lemma factorial_step_history_free tbl n : tbl_inv_R tbl ->
  snd (factorial_step ROps tbl n) = snd (factorial_step ROps (fact_init ROps) n) /\
  tbl_inv_R (fst (factorial_step ROps tbl n)).
Proof.
  intros Hi. destruct (Z_le_gt_dec 0 n) as [H0|H0]; [destruct (Z_le_gt_dec n 170) as [H1|H1]|].
  - destruct (factorial_step_ok ROps Ffact FRS tbl n Hi (conj H0 H1)) as (A & B & _).
    destruct (factorial_step_ok ROps Ffact FRS _ n tbl_inv_R_init (conj H0 H1)) as (A' & _).
    rewrite A, A'. split; [reflexivity|exact B].
  - rewrite !factorial_step_exit by lia. split; [reflexivity|exact Hi].
  - rewrite !factorial_step_exit by lia. split; [reflexivity|exact Hi].
Qed.

(** Binomial_Coefficient: same answer from any reachable table (for every n, k: also on the GammaLn branch n > 170 and on
    the guards), invariant kept *)
Lemma binomial_step_history_free tbl n k : tbl_inv_R tbl ->
  snd (binomial_step ROps tbl n k) = snd (binomial_step ROps (fact_init ROps) n k) /\
  tbl_inv_R (fst (binomial_step ROps tbl n k)).
Proof.
  intros Hi.
  destruct (Z.lt_ge_cases k 0) as [H|H]; [rewrite !binomial_negative by lia; split; [reflexivity|exact Hi]|].
  destruct (Z.lt_ge_cases n 0) as [H0|H0]; [rewrite !binomial_negative by lia; split; [reflexivity|exact Hi]|].
  destruct (Z.lt_ge_cases n k) as [H1|H1]; [rewrite !binomial_lt by lia; split; [reflexivity|exact Hi]|].
  destruct (Z_le_gt_dec n 170) as [H2|H2].
  - split.
    + rewrite (binomial_history_free tbl n k Hi H2). reflexivity.
    + apply (binomial_step_exact tbl n k Hi); lia.
  - unfold binomial_step.
    replace ((k <? 0)%Z || (n <? 0)%Z) with false by (symmetry; apply orb_false_iff; split; apply Z.ltb_ge; lia).
    replace (n <? k)%Z with false by (symmetry; apply Z.ltb_ge; lia).
    replace (n >? 170)%Z with true by (symmetry; rewrite Z.gtb_ltb; apply Z.ltb_lt; lia).
    split; [reflexivity|exact Hi].
Qed.

(** one call of the family from any reachable table: the answer is that of a fresh process *)
Lemma call_step_history_free tbl (c : call) : tbl_inv_R tbl ->
  snd (call_step ROps tbl c) = call_fresh ROps c /\ tbl_inv_R (fst (call_step ROps tbl c)).
Proof.
  intros Hi. unfold call_fresh.
  destruct c; cbn [call_step fst snd]; try (split; [reflexivity|exact Hi]).
  - apply factorial_step_history_free, Hi.
  - apply binomial_step_history_free, Hi.
Qed.

(** every history: each answer equals the fresh-process answer to the same call *)
Lemma call_run_history_free (cs : list call) : forall tbl, tbl_inv_R tbl ->
  Forall (fun hf => fst hf = snd hf) (snd (call_run ROps tbl cs)) /\ tbl_inv_R (fst (call_run ROps tbl cs)) /\
  length (snd (call_run ROps tbl cs)) = length cs.
Proof.
  induction cs as [|c cs IH]; intros tbl Hi; cbn [call_run].
  - cbn. repeat split; try apply Hi. constructor.
  - destruct (call_step_history_free tbl c Hi) as [A B].
    destruct (call_step ROps tbl c) as [t1 o]. cbn [fst snd] in A, B.
    destruct (IH t1 B) as (C & D & E). destruct (call_run ROps t1 cs) as [t2 os]. cbn [fst snd] in *.
    repeat split; try apply D.
    + constructor; [exact A|exact C].
    + cbn [length]. now rewrite E.
Qed.

Theorem call_history_independent (cs : list call) :
  Forall (fun hf => fst hf = snd hf) (snd (call_run ROps (fact_init ROps) cs)) /\
  length (snd (call_run ROps (fact_init ROps) cs)) = length cs.
Proof. destruct (call_run_history_free cs _ tbl_inv_R_init) as (A & _ & B). split; assumption. Qed.

(** the same call twice, with any calls in between, gets the same answer *)
Theorem call_repeatable (c : call) (before between : list call) :
  let t1 := fst (call_run ROps (fact_init ROps) before) in
  let '(t2, o1) := call_step ROps t1 c in
  let t3 := fst (call_run ROps t2 between) in
  snd (call_step ROps t3 c) = o1.
Proof.
  cbn zeta.
  destruct (call_run_history_free before _ tbl_inv_R_init) as (_ & I1 & _).
  destruct (call_step_history_free _ c I1) as [A B].
  destruct (call_step ROps (fst (call_run ROps (fact_init ROps) before)) c) as [t2 o1]. cbn [fst snd] in *.
  destruct (call_run_history_free between _ B) as (_ & I3 & _).
  destruct (call_step_history_free _ c I3) as [C _]. now rewrite C, A.
Qed.

(** ** Short paths: a call answered through an early return leaves nothing behind.
    Every call of the family except Factorial and the Factorial branch (n <= 170, 0 <= k <= n) of Binomial_Coefficient leaves the
    state of the process exactly as it found it - in particular Binomial_Coefficient(n,k) with k > n (answered 0), with n > 170
    (GammaLn branch) or with a negative argument, and the inverses whatever path they take. *)
Lemma call_leaves_no_trace tbl (c : call) :
  match c with
  | CFact _ => True
  | CBinom n k => (k < 0 \/ n < 0 \/ n < k \/ 170 < n)%Z -> fst (call_step ROps tbl c) = tbl
  | _ => fst (call_step ROps tbl c) = tbl
  end.
Proof.
  destruct c; cbn [call_step fst]; try reflexivity; try exact I.
  intros H. unfold binomial_step.
  destruct ((k <? 0)%Z || (n <? 0)%Z) eqn:E1; [reflexivity|].
  apply orb_false_iff in E1. destruct E1 as [E1 E2]. apply Z.ltb_ge in E1, E2.
  destruct (n <? k)%Z eqn:E3; [reflexivity|]. apply Z.ltb_ge in E3.
  destruct (n >? 170)%Z eqn:E4; [reflexivity|].
  rewrite Z.gtb_ltb in E4. apply Z.ltb_ge in E4. lia.
Qed.

(** Inv_GammaP's Halley loop: an iterate x <= 0 at the loop's test (the initial guess (p/t)^(1/a) underflows for small a) is
    answered 0 on the spot, whatever the other locals hold. *)
Lemma halley_nonpos_returns_zero (p a gln a1 lna1 afac x : R) (n : nat) : (x <= 0)%R ->
  halley ROps p a gln a1 lna1 afac (S n) x = Ok 0%R.
Proof.
  intros H. cbn [halley]. replace (nleb ROps x (n0 ROps)) with true; [reflexivity|].
  symmetry. apply Rleb_true. exact H.
Qed.

Example call_history_example :
  map fst (snd (call_run ZOps (fact_init ZOps) [CFact 5; CFact 3; CFact 6; CFact 5]%Z)) = [Ok 120; Ok 6; Ok 720; Ok 120]%Z.
Proof. vm_compute. reflexivity. Qed.
