(** * C11 proofs: a Minimization object carries nothing from one call into the next
    (every member that outlives a call is assigned before it is read; nfunc is reset) *)
From Coq Require Import ZArith List Bool Lia Arith.
From LP Require Import Num C11_Model.
Import ListNotations.

Section Hist.
Context {T : Type} (Ops : NumOps T).

Lemma rmap_snd_rmap {A B} (g : B -> A * B) (r : res B) : (forall b, snd (g b) = b) -> rmap snd (rmap g r) = r.
Proof. intros H. destruct r; cbn; try reflexivity. now rewrite H. Qed.

(** the answer of minimize(pp, func) on an object in any state is the answer on a fresh object *)
Lemma obj_minimize_general_fresh f ob ftol pp :
  rmap snd (obj_minimize_general Ops f ob ftol pp) = minimize_general Ops f ftol pp.
Proof.
  unfold obj_minimize_general, minimize_general. destruct pp as [|r0 rest]; [reflexivity|].
  destruct (Nat.ltb _ 2); [reflexivity|]. destruct (negb _); [reflexivity|].
  cbn [ob_nfunc ob_mpts ob_ndim ob_fmin ob_y ob_simplex]. apply rmap_snd_rmap. reflexivity.
Qed.

Lemma obj_minimize_deltas_fresh f ob ftol st ds :
  rmap snd (obj_minimize_deltas Ops f ob ftol st ds) = minimize_deltas Ops f ftol st ds.
Proof.
  unfold obj_minimize_deltas, minimize_deltas. destruct (negb _); [reflexivity|]. apply obj_minimize_general_fresh.
Qed.

Lemma obj_call_fresh ob ftol c : rmap snd (obj_call Ops ob ftol c) = fresh_call Ops ftol c.
Proof.
  destruct c; cbn [obj_call fresh_call].
  - apply obj_minimize_general_fresh.
  - apply obj_minimize_deltas_fresh.
  - unfold obj_minimize_delta, minimize_delta. apply obj_minimize_deltas_fresh.
Qed.

(** after a call that returns, the members of the object are what the call reported *)
Lemma obj_minimize_general_state f ob ftol pp ob' o : obj_minimize_general Ops f ob ftol pp = Ok (ob', o) ->
  ob_nfunc ob' = o_nfunc o /\ ob_fmin ob' = o_fmin o /\ ob_y ob' = o_y o /\ ob_simplex ob' = o_simplex o /\
  ob_mpts ob' = length pp /\ ob_ndim ob' = length (nth 0 pp []).
Proof.
  unfold obj_minimize_general. destruct pp as [|r0 rest]; [discriminate|].
  destruct (Nat.ltb _ 2); [discriminate|]. destruct (negb _); [discriminate|].
  cbn [ob_nfunc ob_mpts ob_ndim ob_fmin ob_y ob_simplex].
  destruct (nm_loop _ _ _ _ _ _) as [o1| | |]; cbn; try discriminate.
  intros H; injection H as <- <-. cbn. repeat split; reflexivity.
Qed.

(** a run of calls on one object gives, call by call, the answers of fresh objects *)
Theorem obj_run_fresh : forall cs ob ftol, obj_run Ops ob ftol cs = fresh_run Ops ftol cs.
Proof.
  induction cs as [|c rest IH]; intros ob ftol; [reflexivity|].
  cbn [obj_run fresh_run]. rewrite <- (obj_call_fresh ob ftol c).
  destruct (obj_call Ops ob ftol c) as [[ob' o]| | |]; cbn; try reflexivity.
  now rewrite IH.
Qed.
End Hist.

(** non-vacuity: two calls on one object, computed inside Coq on the integer instance of C11_Proofs *)
From LP Require Import C11_Proofs.
Local Open Scope Z_scope.
Example ex_obj_run : exists o1 o2,
  let fq := fun p : list Z => nth 0 p 0 * nth 0 p 0 + 3 * (nth 1 p 0 - 3) * (nth 1 p 0 - 3) in
  obj_run ZOps (mkObj 4990 7 7 0 [1; 2] [[5]]) 1 [Call1 fq [20; -31] 16; Call1 fq [20; -31] 16] = [Ok o1; Ok o2] /\
  o1 = o2 /\ o_nfunc o2 = 9.
Proof. eexists; eexists. vm_compute. repeat split; reflexivity. Qed.
