(** * C11 proofs: a Minimization object carries nothing from one call into the next
    (every member that outlives a call is assigned before it is read; nfunc is reset) *)
From Coq Require Import ZArith List Bool Lia Arith.
From LP Require Import Num OrdLaws C11_Model.
Import ListNotations.

Section Hist.
Context {T : Type} (Ops : NumOps T).

Lemma rmap_snd_rmap {A B} (g : B -> A * B) (r : res B) : (forall b, snd (g b) = b) -> rmap snd (rmap g r) = r.
Proof. intros H. destruct r; cbn; try reflexivity. now rewrite H. Qed.

(** the answer of minimize(pp, func) on an object in any state is the answer on a fresh object *)
Lemma obj_minimize_general_fresh f ob ftol pp :
  rmap snd (obj_minimize_general Ops f ob ftol pp) = minimize_general Ops f ftol pp.
Proof.
  unfold obj_minimize_general, minimize_general. destruct pp as [|r0 rest]; [reflexivity|].
  destruct (Nat.ltb _ 2); [reflexivity|]. destruct (negb _); [reflexivity|].
  cbn [ob_nfunc ob_mpts ob_ndim ob_fmin ob_y ob_simplex]. apply rmap_snd_rmap. reflexivity.
Qed.

Lemma obj_minimize_deltas_fresh f ob ftol st ds :
  rmap snd (obj_minimize_deltas Ops f ob ftol st ds) = minimize_deltas Ops f ftol st ds.
Proof.
  unfold obj_minimize_deltas, minimize_deltas. destruct (negb _); [reflexivity|]. apply obj_minimize_general_fresh.
Qed.

Lemma obj_call_fresh ob ftol c : rmap snd (obj_call Ops ob ftol c) = fresh_call Ops ftol c.
Proof.
  destruct c; cbn [obj_call fresh_call].
  - apply obj_minimize_general_fresh.
  - apply obj_minimize_deltas_fresh.
  - unfold obj_minimize_delta, minimize_delta. apply obj_minimize_deltas_fresh.
Qed.

(** after a call that returns, the members of the object are what the call reported *)
Lemma obj_minimize_general_state f ob ftol pp ob' o : obj_minimize_general Ops f ob ftol pp = Ok (ob', o) ->
  ob_nfunc ob' = o_nfunc o /\ ob_fmin ob' = o_fmin o /\ ob_y ob' = o_y o /\ ob_simplex ob' = o_simplex o /\
  ob_mpts ob' = length pp /\ ob_ndim ob' = length (nth 0 pp []).
Proof.
  unfold obj_minimize_general. destruct pp as [|r0 rest]; [discriminate|].
  destruct (Nat.ltb _ 2); [discriminate|]. destruct (negb _); [discriminate|].
  cbn [ob_nfunc ob_mpts ob_ndim ob_fmin ob_y ob_simplex].
  destruct (nm_loop _ _ _ _ _ _) as [o1| | |]; cbn; try discriminate.
  intros H; injection H as <- <-. cbn. repeat split; reflexivity.
Qed.

(** a run of calls on one object gives, call by call, the answers of fresh objects *)
Theorem obj_run_fresh : forall cs ob ftol, obj_run Ops ob ftol cs = fresh_run Ops ftol cs.
Proof.
  induction cs as [|c rest IH]; intros ob ftol; [reflexivity|].
  cbn [obj_run fresh_run]. rewrite <- (obj_call_fresh ob ftol c).
  destruct (obj_call Ops ob ftol c) as [[ob' o]| | |]; cbn; try reflexivity.
  now rewrite IH.
Qed.
End Hist.

(** non-vacuity: two calls on one object, computed inside Coq on the integer instance of C11_Proofs *)
From LP Require Import C11_Proofs.
Local Open Scope Z_scope.
Example ex_obj_run : exists o1 o2,
  let fq := fun p : list Z => nth 0 p 0 * nth 0 p 0 + 3 * (nth 1 p 0 - 3) * (nth 1 p 0 - 3) in
  obj_run ZOps (mkObj 4990 7 7 0 [1; 2] [[5]]) 1 [Call1 fq [20; -31] 16; Call1 fq [20; -31] 16] = [Ok o1; Ok o2] /\
  o1 = o2 /\ o_nfunc o2 = 9.
Proof. eexists; eexists. vm_compute. repeat split; reflexivity. Qed.

(** * by-reference arguments that are public members of Minimization objects (restart idioms) *)
Section Members.
Context {T : Type} (Ops : NumOps T).

(** a request whose arguments are members of objects (the called one or others) gives the answer a fresh object gives on the
    values those members hold when the call starts *)
Lemma objs_call_fresh objs ftols ob r :
  rmap snd (objs_call Ops objs ftols ob r) = fresh_call Ops (nth ob ftols (n0 Ops)) (req_call Ops objs r).
Proof.
  unfold objs_call. rewrite <- (obj_call_fresh Ops (obj_at Ops objs ob) (nth ob ftols (n0 Ops)) (req_call Ops objs r)).
  destruct (obj_call _ _ _ _) as [[ob' o]| | |]; reflexivity.
Qed.

Lemma obj_at_set_obj : forall objs k x, (k < length objs)%nat -> obj_at Ops (set_obj objs k x) k = x.
Proof.
  unfold obj_at. induction objs as [|a rest IH]; intros k x Hk; [cbn in Hk; lia|].
  destruct k; cbn; [reflexivity|]. apply IH. cbn in Hk. lia.
Qed.
Lemma obj_at_set_obj_other : forall objs k j x, k <> j -> obj_at Ops (set_obj objs k x) j = obj_at Ops objs j.
Proof.
  unfold obj_at. induction objs as [|a rest IH]; intros k j x Hkj; [reflexivity|].
  destruct k, j; cbn; try reflexivity; [congruence|]. apply IH. congruence.
Qed.

Definition call_f (c : @nmcall T) : list T -> T := match c with CallG f _ => f | CallD f _ _ => f | Call1 f _ _ => f end.

(** after a call that returns (any overload) the members are what the call reported *)
Lemma obj_call_state ob ftol c ob' o : obj_call Ops ob ftol c = Ok (ob', o) ->
  ob_simplex ob' = o_simplex o /\ ob_y ob' = o_y o /\ ob_fmin ob' = o_fmin o /\ fresh_call Ops ftol c = Ok o.
Proof.
  intros H. pose proof (obj_call_fresh Ops ob ftol c) as HF. rewrite H in HF. change (rmap snd (Ok (ob', o))) with (Ok o) in HF.
  assert (forall f pp, obj_minimize_general Ops f ob ftol pp = Ok (ob', o) -> ob_simplex ob' = o_simplex o /\ ob_y ob' = o_y o /\ ob_fmin ob' = o_fmin o) as G.
  { intros f pp Hg. apply obj_minimize_general_state in Hg. tauto. }
  destruct c as [f pp|f st ds|f st d]; cbn [obj_call] in H.
  - destruct (G _ _ H) as (A & B & C). auto.
  - unfold obj_minimize_deltas in H. destruct (negb _); [discriminate|]. destruct (G _ _ H) as (A & B & C). auto.
  - unfold obj_minimize_delta, obj_minimize_deltas in H. destruct (negb _); [discriminate|]. destruct (G _ _ H) as (A & B & C). auto.
Qed.

(** * the caller writes the public members between calls; calls abandoned by a throwing objective *)

Lemma set_obj_length : forall (objs : list (@nmobj T)) k x, length (set_obj objs k x) = length objs.
Proof. induction objs as [|a rest IH]; intros k x; [reflexivity|]. destruct k; cbn; [reflexivity|]. now rewrite IH. Qed.

(** a request with the caller's own arguments does not look at the objects *)
Lemma req_call_given objs objs' r : req_given r = true -> req_call Ops objs r = req_call Ops objs' r.
Proof.
  destruct r as [f pp|f k|f st ds|f st d]; cbn; try discriminate; try reflexivity.
  - destruct st as [l|k i|k]; try discriminate. destruct ds as [[l2|k i|k]|]; try discriminate; reflexivity.
  - destruct st as [l|k i|k]; try discriminate; reflexivity.
Qed.

(** ... so its answer is the same whatever state the objects are in: whatever the caller wrote into nfunc, mpts, ndim, fmin, y,
    current_simplex of any object, and whatever an abandoned call left there *)
Theorem objs_call_any_state objs objs' ftols ob r : req_given r = true ->
  rmap snd (objs_call Ops objs ftols ob r) = rmap snd (objs_call Ops objs' ftols ob r).
Proof. intros H. rewrite !objs_call_fresh. now rewrite (req_call_given objs objs' r H). Qed.

(** the members after a write are what was written (and the other members, and the other objects, are untouched) *)
Lemma objs_put_members objs k p : (k < length objs)%nat ->
  let ob := obj_at Ops objs k in let ob' := obj_at Ops (objs_put Ops objs k p) k in
  match p with
  | PutY y => ob_y ob' = y /\ ob_simplex ob' = ob_simplex ob
  | PutS s => ob_simplex ob' = s /\ ob_y ob' = ob_y ob
  | PutN _ _ _ _ => ob_simplex ob' = ob_simplex ob /\ ob_y ob' = ob_y ob
  end.
Proof. intros Hk. cbv zeta. unfold objs_put. rewrite (obj_at_set_obj objs k _ Hk). destruct p; cbn; auto. Qed.

(** minimize(m.current_simplex, f) after the caller assigned s to m.current_simplex (and anything to the other members, before or
    after): the answer of a fresh object on s *)
Theorem objs_call_written_simplex objs k s ps ftols ob f : (k < length objs)%nat ->
  Forall (fun p => match p with PutS _ => False | _ => True end) ps ->
  rmap snd (objs_call Ops (fold_left (fun os p => objs_put Ops os k p) ps (objs_put Ops objs k (PutS s))) ftols ob (ReqGS f k))
  = fresh_call Ops (nth ob ftols (n0 Ops)) (CallG f s).
Proof.
  intros Hk Hps. rewrite objs_call_fresh. cbn [req_call]. f_equal. f_equal.
  assert (forall os, (k < length os)%nat -> ob_simplex (obj_at Ops os k) = s ->
            ob_simplex (obj_at Ops (fold_left (fun os p => objs_put Ops os k p) ps os) k) = s) as G.
  { induction Hps as [|p ps Hp _ IH]; intros os Hl Hs; [exact Hs|]. cbn [fold_left]. apply IH.
    - unfold objs_put. now rewrite set_obj_length.
    - pose proof (objs_put_members os k p Hl) as M. cbv zeta in M. destruct p as [y0|s0|a b c d]; [destruct M as [_ M]; congruence|cbn in Hp; tauto|destruct M as [M _]; congruence]. }
  apply G.
  - unfold objs_put. now rewrite set_obj_length.
  - pose proof (objs_put_members objs k (PutS s) Hk) as M. cbv beta iota zeta in M. destruct M as [M _]. exact M.
Qed.

(** the trace only grows, and it starts with the vertices of the stated initial simplex in row order: whenever the objective
    throws, the vertices it has been asked for so far are the first rows of pp *)
Lemma amotry_trace f s ndim ihi fac : exists l, nm_tr (fst (amotry Ops f s ndim ihi fac)) = l ++ nm_tr s.
Proof. unfold amotry. destruct (nltb _ _ _); cbn; eexists [_]; reflexivity. Qed.
Lemma shrink_trace_grows : forall (rows : list (list T)) i ilo tr, exists l, shrink_trace rows i ilo tr = l ++ tr.
Proof.
  induction rows as [|r rest IH]; intros i ilo tr; cbn; [exists []; reflexivity|].
  destruct (Nat.eqb i ilo); [apply IH|]. destruct (IH (S i) ilo (r :: tr)) as [l ->]. exists (l ++ [r]). now rewrite <- app_assoc.
Qed.
Lemma nm_iter_trace f ftol ndim s :
  match nm_iter Ops f ftol ndim s with
  | NNext s' => exists l, nm_tr s' = l ++ nm_tr s
  | NDone o => o_tr o = rev (nm_tr s)
  | NExit => True
  end.
Proof.
  unfold nm_iter. destruct (nm_extremes Ops (nm_y s)) as [[ilo ihi] inhi].
  destruct (nltb _ _ _); [reflexivity|]. destruct (Z.geb _ _); [exact I|].
  set (s0 := mkNM (nm_p s) (nm_y s) (nm_psum s) (nm_nfunc s + 2)%Z (nm_tr s)).
  pose proof (amotry_trace f s0 ndim ihi (nneg Ops (one Ops))) as [l1 H1].
  destruct (amotry Ops f s0 ndim ihi (nneg Ops (one Ops))) as [s1 ytry]. cbn [fst] in H1. change (nm_tr s0) with (nm_tr s) in H1.
  destruct (nleb _ _ _).
  - pose proof (amotry_trace f s1 ndim ihi (two Ops)) as [l2 H2]. exists (l2 ++ l1). now rewrite H2, H1, app_assoc.
  - destruct (ngeb _ _ _); [|exists l1; exact H1].
    pose proof (amotry_trace f s1 ndim ihi (half Ops)) as [l2 H2].
    destruct (amotry Ops f s1 ndim ihi (half Ops)) as [s2 ytry2]. cbn [fst] in H2.
    destruct (ngeb _ _ _); [|exists (l2 ++ l1); now rewrite H2, H1, app_assoc].
    cbn [nm_tr]. destruct (shrink_trace_grows (shrink_rows Ops (nm_p s2) 0 ilo (row (nm_p s2) ilo)) 0 ilo (nm_tr s2)) as [l3 ->].
    exists (l3 ++ l2 ++ l1). now rewrite H2, H1, !app_assoc.
Qed.
Lemma nm_loop_trace f : forall fuel ftol ndim s o, nm_loop Ops f fuel ftol ndim s = Ok o -> exists l, o_tr o = rev (nm_tr s) ++ l.
Proof.
  induction fuel as [|k IH]; intros ftol ndim s o H; [discriminate|]. cbn [nm_loop] in H.
  pose proof (nm_iter_trace f ftol ndim s) as HT. destruct (nm_iter Ops f ftol ndim s) as [o'|s'|]; try discriminate.
  - injection H as <-. exists []. now rewrite app_nil_r.
  - destruct HT as [l HT]. apply IH in H. destruct H as [l2 H]. exists (rev l ++ l2). now rewrite H, HT, rev_app_distr, app_assoc.
Qed.
Theorem minimize_general_trace f ftol pp o : minimize_general Ops f ftol pp = Ok o -> exists l, o_tr o = pp ++ l.
Proof.
  unfold minimize_general. destruct pp as [|r0 rest]; [discriminate|]. destruct (Nat.ltb _ _); [discriminate|]. destruct (negb _); [discriminate|].
  intros H. apply nm_loop_trace in H. cbn [nm_tr] in H. now rewrite rev_involutive in H.
Qed.

(** an abandoned call has asked for the first n points of the trace of the completed call, and nothing else *)
Lemma abandoned_call_spec ftol c n pts : abandoned_call Ops ftol c n = Ok (Some pts) ->
  exists o, fresh_call Ops ftol c = Ok o /\ pts = firstn n (o_tr o) /\ length pts = n.
Proof.
  unfold abandoned_call. destruct (fresh_call Ops ftol c) as [o| | |]; cbn; try discriminate.
  destruct (Nat.leb n (length (o_tr o))) eqn:E; [|discriminate]. intros H. injection H as <-.
  exists o. split; [reflexivity|]. split; [reflexivity|]. apply Nat.leb_le in E. now apply firstn_length_le.
Qed.
Theorem abandoned_general_spec f ftol pp n pts : abandoned_call Ops ftol (CallG f pp) n = Ok (Some pts) ->
  length pts = n /\ exists l, pts = firstn n (pp ++ l).
Proof.
  intros H. apply abandoned_call_spec in H. destruct H as (o & Ho & -> & Hl). split; [exact Hl|].
  cbn [fresh_call] in Ho. apply minimize_general_trace in Ho. destruct Ho as [l ->]. now exists l.
Qed.
End Members.

Section Restart.
Context {T : Type} (Ops : NumOps T) (OL : OrdLaws.OrdLaws Ops).

(** the clauses of C11_minimize_general_spec that a restart uses, for all three overloads *)
Lemma fresh_call_spec ftol c o : fresh_call Ops ftol c = Ok o ->
  o_fmin o = call_f c (nth 0 (o_simplex o) []) /\ o_y o = map (call_f c) (o_simplex o) /\
  match c with
  | CallG f pp => forall k, (k < length pp)%nat -> le Ops (o_fmin o) (f (nth k pp []))
  | CallD f st _ => le Ops (o_fmin o) (f st)
  | Call1 f st _ => le Ops (o_fmin o) (f st)
  end.
Proof.
  assert (forall f st ds, minimize_deltas Ops f ftol st ds = Ok o ->
            o_fmin o = f (nth 0 (o_simplex o) []) /\ o_y o = map f (o_simplex o) /\ le Ops (o_fmin o) (f st)) as D.
  { intros f st ds H. unfold minimize_deltas in H. destruct (negb _); [discriminate|].
    apply (minimize_general_spec Ops OL) in H. destruct H as (A1 & A2 & A3 & A4 & A5 & A6 & A7).
    split; [now rewrite <- A4|]. split; [exact A1|].
    specialize (A7 0%nat). cbn in A7. apply A7. lia. }
  destruct c as [f pp|f st ds|f st d]; cbn [fresh_call call_f]; intros H.
  - apply (minimize_general_spec Ops OL) in H. destruct H as (A1 & A2 & A3 & A4 & A5 & A6 & A7).
    split; [now rewrite <- A4|]. split; [exact A1|exact A7].
  - apply D in H. exact H.
  - unfold minimize_delta in H. apply D in H. exact H.
Qed.

(** restart idioms never end worse than the call they restart from: after any call on object [ob] that returned o1,
    (a) minimize(m.current_simplex, f)  [the member itself is the argument]  and
    (b) minimize(m.current_simplex[0], deltas, f) / minimize(m.current_simplex[0], delta, f)  [the reported point, by reference]
    with the same objective return a value <= o1's fmin, whatever tolerance, displacements and other objects are involved *)
Theorem objs_restart_not_worse objs ftols ob r1 objs1 o1 r2 ftols2 objs2 o2 : (ob < length objs)%nat ->
  objs_call Ops objs ftols ob r1 = Ok (objs1, o1) ->
  let f := call_f (req_call Ops objs r1) in
  (r2 = ReqGS f ob \/ (exists ds, r2 = ReqD f (VRow ob 0) ds) \/ (exists d, r2 = Req1 f (VRow ob 0) d)) ->
  objs_call Ops objs1 ftols2 ob r2 = Ok (objs2, o2) ->
  le Ops (o_fmin o2) (o_fmin o1).
Proof.
  intros Hob H1 f Hr H2.
  unfold objs_call in H1. destruct (obj_call Ops (obj_at Ops objs ob) _ _) as [[ob1 oo1]| | |] eqn:E1; try discriminate.
  cbn in H1. injection H1 as <- <-.
  apply obj_call_state in E1. destruct E1 as (S1 & _ & _ & F1).
  apply (fresh_call_spec _ _ _) in F1. destruct F1 as (V1 & _ & _). fold f in V1.
  pose proof (objs_call_fresh Ops (set_obj objs ob ob1) ftols2 ob r2) as HF. rewrite H2 in HF. change (rmap snd (Ok (objs2, o2))) with (Ok o2) in HF. symmetry in HF.
  apply fresh_call_spec in HF. destruct HF as (_ & _ & HF).
  destruct Hr as [->|[[ds ->]|[d ->]]]; cbn [req_call vsrc_val] in HF; rewrite (obj_at_set_obj Ops objs ob ob1 Hob), S1 in HF.
  - rewrite V1. apply (HF 0%nat).
    (* the restarted call returned, so its simplex is not empty *)
    pose proof (objs_call_fresh Ops (set_obj objs ob ob1) ftols2 ob (ReqGS f ob)) as HG. rewrite H2 in HG. change (rmap snd (Ok (objs2, o2))) with (Ok o2) in HG. cbn [req_call] in HG.
    rewrite (obj_at_set_obj Ops objs ob ob1 Hob), S1 in HG. unfold minimize_general in HG.
    destruct (o_simplex oo1); [discriminate|cbn; lia].
  - rewrite V1. exact HF.
  - rewrite V1. exact HF.
Qed.
End Restart.

(** non-vacuity: a call, then a restart from the object's own simplex with a tighter tolerance on a second object's behalf *)
Example ex_restart : exists objs1 o1 objs2 o2,
  let fq := fun p : list Z => nth 0 p 0 * nth 0 p 0 + 3 * (nth 1 p 0 - 3) * (nth 1 p 0 - 3) in
  objs_call ZOps [obj_fresh ZOps] [1] 0 (Req1 fq (VGiven [20; -31]) 16) = Ok (objs1, o1) /\
  objs_call ZOps objs1 [1] 0 (ReqGS fq 0) = Ok (objs2, o2) /\ o_fmin o2 <= o_fmin o1.
Proof.
  do 4 eexists. cbv zeta. split; [vm_compute; reflexivity|]. split; [vm_compute; reflexivity|]. vm_compute. discriminate.
Qed.

(** non-vacuity: the caller overwrites every public member (y with values "better" than any the objective takes, current_simplex with
    the simplex of the next request, the counters with garbage); a call abandoned at its second evaluation; the calls afterwards *)
Example ex_writes_abandon : exists o pts,
  let fq := fun p : list Z => nth 0 p 0 * nth 0 p 0 + 3 * (nth 1 p 0 - 3) * (nth 1 p 0 - 3) in
  let pp := [[20; -31]; [36; -31]; [20; -15]] in
  let objs := objs_put ZOps (objs_put ZOps (objs_put ZOps [obj_fresh ZOps] 0 (PutS pp)) 0 (PutY [-1000; -1000; -1000])) 0 (PutN 4999 3 2 (-1000)) in
  rmap snd (objs_call ZOps objs [1] 0 (ReqGS fq 0)) = Ok o /\ fresh_call ZOps 1 (CallG fq pp) = Ok o /\
  abandoned_call ZOps 1 (CallG fq pp) 2 = Ok (Some pts) /\ pts = [[20; -31]; [36; -31]] /\
  rmap snd (objs_call ZOps (objs_abandon objs 0 (mkObj 7 3 2 0 [1; 2; 3] pp)) [1] 0 (ReqG fq pp)) = Ok o.
Proof.
  do 2 eexists. cbv zeta. split; [vm_compute; reflexivity|]. split; [vm_compute; reflexivity|]. split; [vm_compute; reflexivity|].
  split; [reflexivity|]. vm_compute; reflexivity.
Qed.
