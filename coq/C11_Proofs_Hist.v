(** * C11 proofs: a Minimization object carries nothing from one call into the next
    (every member that outlives a call is assigned before it is read; nfunc is reset) *)
From Coq Require Import ZArith List Bool Lia Arith.
From LP Require Import Num OrdLaws C11_Model.
Import ListNotations.

Section Hist.
Context {T : Type} (Ops : NumOps T).

Lemma rmap_snd_rmap {A B} (g : B -> A * B) (r : res B) : (forall b, snd (g b) = b) -> rmap snd (rmap g r) = r.
Proof. intros H. destruct r; cbn; try reflexivity. now rewrite H. Qed.

(** the answer of minimize(pp, func) on an object in any state is the answer on a fresh object *)
Lemma obj_minimize_general_fresh f ob ftol pp :
  rmap snd (obj_minimize_general Ops f ob ftol pp) = minimize_general Ops f ftol pp.
Proof.
  unfold obj_minimize_general, minimize_general. destruct pp as [|r0 rest]; [reflexivity|].
  destruct (Nat.ltb _ 2); [reflexivity|]. destruct (negb _); [reflexivity|].
  cbn [ob_nfunc ob_mpts ob_ndim ob_fmin ob_y ob_simplex]. apply rmap_snd_rmap. reflexivity.
Qed.

Lemma obj_minimize_deltas_fresh f ob ftol st ds :
  rmap snd (obj_minimize_deltas Ops f ob ftol st ds) = minimize_deltas Ops f ftol st ds.
Proof.
  unfold obj_minimize_deltas, minimize_deltas. destruct (negb _); [reflexivity|]. apply obj_minimize_general_fresh.
Qed.

Lemma obj_call_fresh ob ftol c : rmap snd (obj_call Ops ob ftol c) = fresh_call Ops ftol c.
Proof.
  destruct c; cbn [obj_call fresh_call].
  - apply obj_minimize_general_fresh.
  - apply obj_minimize_deltas_fresh.
  - unfold obj_minimize_delta, minimize_delta. apply obj_minimize_deltas_fresh.
Qed.

(** after a call that returns, the members of the object are what the call reported *)
Lemma obj_minimize_general_state f ob ftol pp ob' o : obj_minimize_general Ops f ob ftol pp = Ok (ob', o) ->
  ob_nfunc ob' = o_nfunc o /\ ob_fmin ob' = o_fmin o /\ ob_y ob' = o_y o /\ ob_simplex ob' = o_simplex o /\
  ob_mpts ob' = length pp /\ ob_ndim ob' = length (nth 0 pp []).
Proof.
  unfold obj_minimize_general. destruct pp as [|r0 rest]; [discriminate|].
  destruct (Nat.ltb _ 2); [discriminate|]. destruct (negb _); [discriminate|].
  cbn [ob_nfunc ob_mpts ob_ndim ob_fmin ob_y ob_simplex].
  destruct (nm_loop _ _ _ _ _ _) as [o1| | |]; cbn; try discriminate.
  intros H; injection H as <- <-. cbn. repeat split; reflexivity.
Qed.

(** a run of calls on one object gives, call by call, the answers of fresh objects *)
Theorem obj_run_fresh : forall cs ob ftol, obj_run Ops ob ftol cs = fresh_run Ops ftol cs.
Proof.
  induction cs as [|c rest IH]; intros ob ftol; [reflexivity|].
  cbn [obj_run fresh_run]. rewrite <- (obj_call_fresh ob ftol c).
  destruct (obj_call Ops ob ftol c) as [[ob' o]| | |]; cbn; try reflexivity.
  now rewrite IH.
Qed.
End Hist.

(** non-vacuity: two calls on one object, computed inside Coq on the integer instance of C11_Proofs *)
From LP Require Import C11_Proofs.
Local Open Scope Z_scope.
Example ex_obj_run : exists o1 o2,
  let fq := fun p : list Z => nth 0 p 0 * nth 0 p 0 + 3 * (nth 1 p 0 - 3) * (nth 1 p 0 - 3) in
  obj_run ZOps (mkObj 4990 7 7 0 [1; 2] [[5]]) 1 [Call1 fq [20; -31] 16; Call1 fq [20; -31] 16] = [Ok o1; Ok o2] /\
  o1 = o2 /\ o_nfunc o2 = 9.
Proof. eexists; eexists. vm_compute. repeat split; reflexivity. Qed.

(** * by-reference arguments that are public members of Minimization objects (restart idioms) *)
Section Members.
Context {T : Type} (Ops : NumOps T).

(** a request whose arguments are members of objects (the called one or others) gives the answer a fresh object gives on the
    values those members hold when the call starts *)
Lemma objs_call_fresh objs ftols ob r :
  rmap snd (objs_call Ops objs ftols ob r) = fresh_call Ops (nth ob ftols (n0 Ops)) (req_call Ops objs r).
Proof.
  unfold objs_call. rewrite <- (obj_call_fresh Ops (obj_at Ops objs ob) (nth ob ftols (n0 Ops)) (req_call Ops objs r)).
  destruct (obj_call _ _ _ _) as [[ob' o]| | |]; reflexivity.
Qed.

Lemma obj_at_set_obj : forall objs k x, (k < length objs)%nat -> obj_at Ops (set_obj objs k x) k = x.
Proof.
  unfold obj_at. induction objs as [|a rest IH]; intros k x Hk; [cbn in Hk; lia|].
  destruct k; cbn; [reflexivity|]. apply IH. cbn in Hk. lia.
Qed.
Lemma obj_at_set_obj_other : forall objs k j x, k <> j -> obj_at Ops (set_obj objs k x) j = obj_at Ops objs j.
Proof.
  unfold obj_at. induction objs as [|a rest IH]; intros k j x Hkj; [reflexivity|].
  destruct k, j; cbn; try reflexivity; [congruence|]. apply IH. congruence.
Qed.

Definition call_f (c : @nmcall T) : list T -> T := match c with CallG f _ => f | CallD f _ _ => f | Call1 f _ _ => f end.

(** after a call that returns (any overload) the members are what the call reported *)
Lemma obj_call_state ob ftol c ob' o : obj_call Ops ob ftol c = Ok (ob', o) ->
  ob_simplex ob' = o_simplex o /\ ob_y ob' = o_y o /\ ob_fmin ob' = o_fmin o /\ fresh_call Ops ftol c = Ok o.
Proof.
  intros H. pose proof (obj_call_fresh Ops ob ftol c) as HF. rewrite H in HF. change (rmap snd (Ok (ob', o))) with (Ok o) in HF.
  assert (forall f pp, obj_minimize_general Ops f ob ftol pp = Ok (ob', o) -> ob_simplex ob' = o_simplex o /\ ob_y ob' = o_y o /\ ob_fmin ob' = o_fmin o) as G.
  { intros f pp Hg. apply obj_minimize_general_state in Hg. tauto. }
  destruct c as [f pp|f st ds|f st d]; cbn [obj_call] in H.
  - destruct (G _ _ H) as (A & B & C). auto.
  - unfold obj_minimize_deltas in H. destruct (negb _); [discriminate|]. destruct (G _ _ H) as (A & B & C). auto.
  - unfold obj_minimize_delta, obj_minimize_deltas in H. destruct (negb _); [discriminate|]. destruct (G _ _ H) as (A & B & C). auto.
Qed.
End Members.

Section Restart.
Context {T : Type} (Ops : NumOps T) (OL : OrdLaws.OrdLaws Ops).

(** the clauses of C11_minimize_general_spec that a restart uses, for all three overloads *)
Lemma fresh_call_spec ftol c o : fresh_call Ops ftol c = Ok o ->
  o_fmin o = call_f c (nth 0 (o_simplex o) []) /\ o_y o = map (call_f c) (o_simplex o) /\
  match c with
  | CallG f pp => forall k, (k < length pp)%nat -> le Ops (o_fmin o) (f (nth k pp []))
  | CallD f st _ => le Ops (o_fmin o) (f st)
  | Call1 f st _ => le Ops (o_fmin o) (f st)
  end.
Proof.
  assert (forall f st ds, minimize_deltas Ops f ftol st ds = Ok o ->
            o_fmin o = f (nth 0 (o_simplex o) []) /\ o_y o = map f (o_simplex o) /\ le Ops (o_fmin o) (f st)) as D.
  { intros f st ds H. unfold minimize_deltas in H. destruct (negb _); [discriminate|].
    apply (minimize_general_spec Ops OL) in H. destruct H as (A1 & A2 & A3 & A4 & A5 & A6 & A7).
    split; [now rewrite <- A4|]. split; [exact A1|].
    specialize (A7 0%nat). cbn in A7. apply A7. lia. }
  destruct c as [f pp|f st ds|f st d]; cbn [fresh_call call_f]; intros H.
  - apply (minimize_general_spec Ops OL) in H. destruct H as (A1 & A2 & A3 & A4 & A5 & A6 & A7).
    split; [now rewrite <- A4|]. split; [exact A1|exact A7].
  - apply D in H. exact H.
  - unfold minimize_delta in H. apply D in H. exact H.
Qed.

(** restart idioms never end worse than the call they restart from: after any call on object [ob] that returned o1,
    (a) minimize(m.current_simplex, f)  [the member itself is the argument]  and
    (b) minimize(m.current_simplex[0], deltas, f) / minimize(m.current_simplex[0], delta, f)  [the reported point, by reference]
    with the same objective return a value <= o1's fmin, whatever tolerance, displacements and other objects are involved *)
Theorem objs_restart_not_worse objs ftols ob r1 objs1 o1 r2 ftols2 objs2 o2 : (ob < length objs)%nat ->
  objs_call Ops objs ftols ob r1 = Ok (objs1, o1) ->
  let f := call_f (req_call Ops objs r1) in
  (r2 = ReqGS f ob \/ (exists ds, r2 = ReqD f (VRow ob 0) ds) \/ (exists d, r2 = Req1 f (VRow ob 0) d)) ->
  objs_call Ops objs1 ftols2 ob r2 = Ok (objs2, o2) ->
  le Ops (o_fmin o2) (o_fmin o1).
Proof.
  intros Hob H1 f Hr H2.
  unfold objs_call in H1. destruct (obj_call Ops (obj_at Ops objs ob) _ _) as [[ob1 oo1]| | |] eqn:E1; try discriminate.
  cbn in H1. injection H1 as <- <-.
  apply obj_call_state in E1. destruct E1 as (S1 & _ & _ & F1).
  apply (fresh_call_spec _ _ _) in F1. destruct F1 as (V1 & _ & _). fold f in V1.
  pose proof (objs_call_fresh Ops (set_obj objs ob ob1) ftols2 ob r2) as HF. rewrite H2 in HF. change (rmap snd (Ok (objs2, o2))) with (Ok o2) in HF. symmetry in HF.
  apply fresh_call_spec in HF. destruct HF as (_ & _ & HF).
  destruct Hr as [->|[[ds ->]|[d ->]]]; cbn [req_call vsrc_val] in HF; rewrite (obj_at_set_obj Ops objs ob ob1 Hob), S1 in HF.
  - rewrite V1. apply (HF 0%nat).
    (* the restarted call returned, so its simplex is not empty *)
    pose proof (objs_call_fresh Ops (set_obj objs ob ob1) ftols2 ob (ReqGS f ob)) as HG. rewrite H2 in HG. change (rmap snd (Ok (objs2, o2))) with (Ok o2) in HG. cbn [req_call] in HG.
    rewrite (obj_at_set_obj Ops objs ob ob1 Hob), S1 in HG. unfold minimize_general in HG.
    destruct (o_simplex oo1); [discriminate|cbn; lia].
  - rewrite V1. exact HF.
  - rewrite V1. exact HF.
Qed.
End Restart.

(** non-vacuity: a call, then a restart from the object's own simplex with a tighter tolerance on a second object's behalf *)
Example ex_restart : exists objs1 o1 objs2 o2,
  let fq := fun p : list Z => nth 0 p 0 * nth 0 p 0 + 3 * (nth 1 p 0 - 3) * (nth 1 p 0 - 3) in
  objs_call ZOps [obj_fresh ZOps] [1] 0 (Req1 fq (VGiven [20; -31]) 16) = Ok (objs1, o1) /\
  objs_call ZOps objs1 [1] 0 (ReqGS fq 0) = Ok (objs2, o2) /\ o_fmin o2 <= o_fmin o1.
Proof.
  do 4 eexists. cbv zeta. split; [vm_compute; reflexivity|]. split; [vm_compute; reflexivity|]. vm_compute. discriminate.
Qed.
