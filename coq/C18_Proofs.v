(** * C18 proofs, part 1: consumption of the stream, sample counts, acceptance rules.
    Everything in this file holds for an arbitrary number type (no law of arithmetic or order is used):
    it is about the control flow of the samplers, hence valid verbatim for IEEE doubles. *)
From Coq Require Import ZArith List Bool Lia Arith.
From LP Require Import Num C18_Model.
Import ListNotations.
Local Open Scope Z_scope.
Ltac Zify.zify_post_hook ::= Z.div_mod_to_equations.

(** [consumes us r n]: the sampler read exactly the first [n] uniforms of [us] and left [r] *)
Definition consumes {T} (us r : list T) (n : Z) : Prop :=
  exists pre, us = pre ++ r /\ Z.of_nat (length pre) = n.

Lemma consumes_length {T} (us r : list T) n : consumes us r n -> Z.of_nat (length us) = n + Z.of_nat (length r).
Proof. intros (pre & -> & <-). rewrite app_length. lia. Qed.

Lemma consumes_trans {T} (us r r' : list T) n m : consumes us r n -> consumes r r' m -> consumes us r' (n + m).
Proof.
  intros (p & -> & <-) (q & -> & <-). exists (p ++ q). rewrite app_assoc, app_length. split; [reflexivity|lia].
Qed.

(** ** Bookkeeping of Sample_Metropolis: which loop indices are kept (port of prototype P21) *)
Lemma filter_seq_none (p : nat -> bool) a n : (forall i, (a <= i < a + n)%nat -> p i = false) -> filter p (seq a n) = [].
Proof. revert a. induction n as [|n IH]; intros a H; cbn; auto. rewrite H by lia. apply IH. intros; apply H; lia. Qed.

(* a block of [thin] consecutive integers contains exactly one multiple of thin *)
Lemma one_multiple thin k : (1 <= thin)%nat -> length (filter (fun i => (i mod thin =? 0)%nat) (seq k thin)) = 1%nat.
Proof.
  intros Ht. set (r := (k mod thin)%nat). set (d := ((thin - r) mod thin)%nat).
  assert (Hr: (r < thin)%nat) by (apply Nat.mod_upper_bound; lia).
  assert (Hd: (d < thin)%nat) by (apply Nat.mod_upper_bound; lia).
  assert (Hm: ((k + d) mod thin = 0)%nat).
  { unfold d. destruct (Nat.eq_dec r 0) as [E|E].
    - rewrite E, Nat.sub_0_r, Nat.mod_same, Nat.add_0_r by lia. exact E.
    - rewrite (Nat.mod_small (thin - r)) by lia. rewrite (Nat.div_mod k thin) at 1 by lia. fold r.
      replace (thin * (k / thin) + r + (thin - r))%nat with ((k / thin + 1) * thin)%nat by lia. apply Nat.mod_mul; lia. }
  assert (Es: seq k thin = seq k d ++ seq (k + d) (S (thin - d - 1))) by (rewrite <- seq_app; f_equal; lia).
  rewrite Es. clear Es. cbn [seq]. rewrite filter_app, app_length. cbn [filter]. rewrite Hm. cbn [Nat.eqb length].
  assert (Hother: forall i, (k <= i < k + thin)%nat -> i <> (k + d)%nat -> (i mod thin)%nat <> 0%nat).
  { intros i Hi Hne Hz.
    assert (exists q1, (k + d = thin * q1)%nat) as [q1 E1] by (exists ((k+d)/thin)%nat; rewrite (Nat.div_mod (k+d) thin) at 1 by lia; lia).
    assert (exists q2, (i = thin * q2)%nat) as [q2 E2] by (exists (i/thin)%nat; rewrite (Nat.div_mod i thin) at 1 by lia; lia).
    assert (q1 = q2) by nia. subst. lia. }
  rewrite filter_seq_none, (filter_seq_none _ (S (k + d))).
  - reflexivity.
  - intros i Hi. apply Nat.eqb_neq, Hother; lia.
  - intros i Hi. apply Nat.eqb_neq, Hother; lia.
Qed.

Lemma multiples_in_window thin : (1 <= thin)%nat -> forall sample k,
  length (filter (fun i => (i mod thin =? 0)%nat) (seq k (thin * sample))) = sample.
Proof.
  intros Ht. induction sample as [|s IH]; intros k.
  - rewrite Nat.mul_0_r. reflexivity.
  - replace (thin * S s)%nat with (thin + thin * s)%nat by lia.
    rewrite seq_app, filter_app, app_length, one_multiple, IH by lia. reflexivity.
Qed.

Lemma kept_nat burn thin sample : (1 <= thin)%nat ->
  length (filter (fun i => (burn <=? i)%nat && (i mod thin =? 0)%nat) (seq 0 (burn + thin * sample))) = sample.
Proof.
  intros Ht. rewrite seq_app, filter_app, app_length. cbn [Nat.add].
  rewrite filter_seq_none by (intros i Hi; replace (burn <=? i)%nat with false by (symmetry; apply Nat.leb_gt; lia); reflexivity).
  cbn [length Nat.add].
  rewrite (filter_ext_in _ (fun i => (i mod thin =? 0)%nat)).
  - apply multiples_in_window; lia.
  - intros i Hi. apply in_seq in Hi. replace (burn <=? i)%nat with true by (symmetry; apply Nat.leb_le; lia). reflexivity.
Qed.

Lemma count_loop_acc fuel burn thin i c : count_loop fuel burn thin i c = c + count_loop fuel burn thin i 0.
Proof.
  revert i c. induction fuel as [|f IH]; intros i c; simpl; [lia|].
  destruct (metro_keep burn thin i); [rewrite (IH _ (c + 1)), (IH _ (0 + 1))|rewrite (IH _ c)]; lia.
Qed.

Lemma count_loop_filter fuel burn thin (i : nat) :
  count_loop fuel burn thin (Z.of_nat i) 0 =
  Z.of_nat (length (filter (fun j => metro_keep burn thin (Z.of_nat j)) (seq i fuel))).
Proof.
  revert i. induction fuel as [|f IH]; intros i; [reflexivity|].
  cbn [count_loop seq filter]. replace (Z.of_nat i + 1) with (Z.of_nat (S i)) by lia.
  destruct (metro_keep burn thin (Z.of_nat i)).
  - rewrite count_loop_acc, IH. cbn [length]. lia.
  - apply IH.
Qed.

Lemma metro_keep_nat (burn thin j : nat) :
  metro_keep (Z.of_nat burn) (Z.of_nat thin) (Z.of_nat j) = ((burn <=? j)%nat && (j mod thin =? 0)%nat).
Proof.
  unfold metro_keep. f_equal.
  - destruct (Nat.leb_spec burn j); lia.
  - rewrite <- Nat2Z.inj_mod. destruct (Nat.eqb_spec (j mod thin) 0); lia.
Qed.

Lemma wrap32_small z : 0 <= z < 4294967296 -> wrap32 z = z.
Proof. intros H. unfold wrap32. apply Z.mod_small; lia. Qed.

Lemma metro_imax_mod burn thin sample : metro_imax burn thin sample = (burn + thin * sample) mod 4294967296.
Proof. unfold metro_imax, wrap32. rewrite Zplus_mod_idemp_r. reflexivity. Qed.

Lemma metro_imax_small burn thin sample :
  0 <= burn -> 0 <= thin -> 0 <= sample -> burn + thin * sample < 4294967296 ->
  metro_imax burn thin sample = burn + thin * sample.
Proof. intros. rewrite metro_imax_mod. apply Z.mod_small; nia. Qed.

(** the number of kept indices is exactly [sample], for every burn-in *)
Theorem metro_kept_exact burn thin sample :
  1 <= thin -> 0 <= burn -> 0 <= sample -> burn + thin * sample < 4294967296 ->
  metro_kept burn thin sample = sample.
Proof.
  intros Ht Hb Hs Hov. unfold metro_kept. rewrite metro_imax_small by lia.
  assert (exists b, burn = Z.of_nat b) as [b ->] by (exists (Z.to_nat burn); lia).
  assert (exists t, thin = Z.of_nat t) as [t ->] by (exists (Z.to_nat thin); lia).
  assert (exists s, sample = Z.of_nat s) as [s ->] by (exists (Z.to_nat sample); lia).
  rewrite (count_loop_filter _ _ _ 0%nat).
  rewrite (filter_ext _ (fun j => (b <=? j)%nat && (j mod t =? 0)%nat)) by (intros j; apply metro_keep_nat).
  rewrite <- Nat2Z.inj_mul, <- Nat2Z.inj_add, Nat2Z.id. rewrite kept_nat by lia. reflexivity.
Qed.

(** thinning = 0: i_max = burn_in, no index passes `i >= burn_in`, nothing is kept (and nothing is divided) *)
Theorem metro_kept_thin0 burn sample : 0 <= burn < 4294967296 -> metro_kept burn 0 sample = 0.
Proof.
  intros Hb. unfold metro_kept. rewrite metro_imax_mod, Z.mul_0_l, Z.add_0_r, Z.mod_small by lia.
  rewrite (count_loop_filter _ _ _ 0%nat).
  rewrite filter_seq_none; [reflexivity|]. intros j Hj. unfold metro_keep.
  rewrite Z.geb_leb. replace (burn <=? Z.of_nat j) with false by (symmetry; apply Z.leb_gt; lia). reflexivity.
Qed.

(* `count % 1000 == 0` and then `count % 10000 == 0` *)
Lemma exit_test count : ((count mod 1000 =? 0) && (count mod 10000 =? 0)) = (count mod 10000 =? 0).
Proof. destruct (Z.eqb_spec (count mod 1000) 0), (Z.eqb_spec (count mod 10000) 0); simpl; try reflexivity; lia. Qed.

Section Generic.
Context {T : Type} (Ops : NumOps T).

(** ** Sample_Uniform, Sample_Gauss, Inverse_Transform_Sampling: one uniform *)
Theorem sample_uniform_inv a b us v r :
  sample_uniform Ops a b us = Ok (v, r) -> exists u, us = u :: r /\ v = unif Ops u a b.
Proof. destruct us as [|u us']; simpl; intros H; inversion H; subst. now exists u. Qed.

Theorem sample_uniform_total a b us : sample_uniform Ops a b us = Fuel <-> us = [].
Proof. destruct us; simpl; split; intros H; (reflexivity || discriminate). Qed.

Theorem sample_gauss_inv mean sd us v r :
  sample_gauss Ops mean sd us = Ok (v, r) -> exists u, us = u :: r /\ gauss_of Ops u mean sd = Ok v.
Proof.
  destruct us as [|u us']; simpl; [discriminate|]. destruct (gauss_of Ops u mean sd) eqn:E; simpl; intros H; inversion H; subst.
  exists u. split; [reflexivity|exact E].
Qed.

Theorem inverse_transform_inv cdf a b us v r :
  inverse_transform Ops cdf a b us = Ok (v, r) ->
  exists u, us = u :: r /\
    find_root Ops (fun x => nsub Ops (unif Ops u (n0 Ops) (n1 Ops)) (cdf x)) a b
              (nmul Ops (ndec Ops 1 10000000000) (nsub Ops b a)) = Ok v.
Proof.
  destruct us as [|u us']; simpl; [discriminate|].
  match goal with |- rbind ?X _ = _ -> _ => destruct X eqn:E end; simpl; intros H; inversion H; subst.
  exists u. split; [reflexivity|exact E].
Qed.

(** ** Sample_Poisson: the value k is returned after exactly k + 1 uniforms *)
Lemma poisson_loop_consumes fin us : forall k p lam k' r,
  poisson_loop Ops fin us k p lam = Ok (k', r) -> k <= k' /\ consumes us r (k' - k + 1).
Proof.
  induction us as [|u0 us IH]; intros k p lam k' r; simpl; [discriminate|].
  destruct (poisson_inner Ops fin _ lam) as [[p'' lam'']| | |]; try discriminate.
  destruct (ngtb Ops p'' (n1 Ops)).
  - intros H. apply IH in H. destruct H as (Hk & pre & -> & Hl). split; [lia|].
    exists (u0 :: pre). split; [reflexivity|]. simpl length. lia.
  - intros H. inversion H; subst. split; [lia|]. exists [u0]. split; [reflexivity|]. simpl. lia.
Qed.

Theorem sample_poisson_consumes lam us k r :
  sample_poisson Ops lam us = Ok (k, r) -> 0 <= k /\ consumes us r (k + 1).
Proof.
  unfold sample_poisson. intros H. apply poisson_loop_consumes in H. replace (k - 0 + 1) with (k + 1) in H by lia. exact H.
Qed.

(* the vector overload consumes sum (k_i + 1) uniforms *)
Theorem sample_poisson_list_consumes lams : forall us ks r,
  sample_poisson_list Ops lams us = Ok (ks, r) ->
  length ks = length lams /\ Forall (fun k => 0 <= k) ks /\
  consumes us r (fold_right (fun k s => k + 1 + s) 0 ks).
Proof.
  induction lams as [|lam rest IH]; intros us ks r; simpl.
  - intros H; inversion H; subst. split; [reflexivity|]. split; [constructor|]. exists []. now split.
  - destruct (sample_poisson Ops lam us) as [[k r1]| | |] eqn:E1; try discriminate.
    destruct (sample_poisson_list Ops rest r1) as [[ks' r2]| | |] eqn:E2; try discriminate.
    intros H; inversion H; subst. apply sample_poisson_consumes in E1. apply IH in E2.
    destruct E1 as [Hk C1], E2 as (Hl & Hf & C2). split; [simpl; lia|]. split; [constructor; assumption|].
    simpl. eapply consumes_trans; eassumption.
Qed.

(** ** Rejection_Sampling: returns the first trial with y <= pdf(x); two uniforms per trial *)
Section Rejection.
Variables (PDF : T -> T) (xMin xMax yMax : T).
(* a prefix of the stream consisting of rejected trials (u1 for x, u2 for y) that pass the guards *)
Fixpoint all_rejected (pre : list T) : Prop :=
  match pre with
  | [] => True
  | u1 :: u2 :: rest =>
      nleb Ops (unif Ops u2 (n0 Ops) yMax) (PDF (unif Ops u1 xMin xMax)) = false /\ all_rejected rest
  | _ => False
  end.

Lemma rejection_loop_spec n : forall us count x r, (length us <= n)%nat ->
  rejection_loop Ops PDF xMin xMax yMax us count = Ok (x, r) ->
  exists pre u1 u2, us = pre ++ u1 :: u2 :: r /\ all_rejected pre /\
    x = unif Ops u1 xMin xMax /\
    nleb Ops (unif Ops u2 (n0 Ops) yMax) (PDF x) = true /\
    nltb Ops (PDF x) (n0 Ops) = false /\ nisnan Ops (PDF x) = false /\
    (forall j, 1 <= j <= Z.of_nat (length pre) / 2 + 1 -> (count + j) mod 10000 <> 0).
Proof.
  induction n as [|n IH]; intros us count x r Hlen.
  - destruct us; [|simpl in Hlen; lia]. simpl. rewrite exit_test. destruct (_ =? 0); discriminate.
  - destruct us as [|u1 [|u2 us']]; simpl rejection_loop; rewrite exit_test;
      destruct (Z.eqb_spec ((count + 1) mod 10000) 0) as [E0|E0]; try discriminate.
    set (xx := unif Ops u1 xMin xMax). set (pdf := PDF xx).
    destruct (nltb Ops pdf (n0 Ops)) eqn:E1; [discriminate|].
    destruct (nisnan Ops pdf) eqn:E2; [discriminate|]. simpl orb.
    destruct (nisnan Ops (nsub Ops pdf pdf)); [discriminate|].
    destruct (ngtb Ops pdf yMax && ngtb Ops (relative_difference Ops pdf yMax) (ndec Ops 1 100)); [discriminate|].
    destruct (nleb Ops (unif Ops u2 (n0 Ops) yMax) pdf) eqn:E3.
    + intros H; inversion H; subst. exists [], u1, u2. simpl. repeat split; auto.
      intros j Hj. change (0 / 2) with 0 in Hj. replace j with 1 by lia. exact E0.
    + intros H. apply IH in H; [|simpl in Hlen; lia].
      destruct H as (pre & v1 & v2 & -> & Hrej & Hx & Hy & Hg1 & Hg2 & Hc).
      exists (u1 :: u2 :: pre), v1, v2. split; [reflexivity|]. split; [simpl; auto|]. repeat split; auto.
      intros j Hj. simpl length in Hj. rewrite !Nat2Z.inj_succ in Hj.
      destruct (Z.eq_dec j 1) as [->|Hne]; [exact E0|].
      replace (count + j) with (count + 1 + (j - 1)) by lia. apply Hc. lia.
Qed.

(** consumption (2 per trial, fewer than 10000 trials), acceptance rule and guards of the returned point *)
Theorem rejection_sampling_spec us x r :
  rejection_sampling Ops PDF xMin xMax yMax us = Ok (x, r) ->
  exists pre u1 u2, us = pre ++ u1 :: u2 :: r /\ all_rejected pre /\
    x = unif Ops u1 xMin xMax /\
    nleb Ops (unif Ops u2 (n0 Ops) yMax) (PDF x) = true /\
    nltb Ops (PDF x) (n0 Ops) = false /\ nisnan Ops (PDF x) = false /\
    let trials := Z.of_nat (length pre) / 2 + 1 in
    1 <= trials < 10000 /\ consumes us r (2 * trials).
Proof.
  intros H. apply (rejection_loop_spec (length us)) in H; [|lia].
  destruct H as (pre & u1 & u2 & -> & Hrej & Hx & Hy & Hg1 & Hg2 & Hc).
  exists pre, u1, u2. repeat split; auto.
  - assert (0 <= Z.of_nat (length pre) / 2) by (apply Z.div_pos; lia). lia.
  - destruct (Z_lt_le_dec (Z.of_nat (length pre) / 2 + 1) 10000) as [?|Hge]; [assumption|].
    exfalso. apply (Hc 10000); [lia|reflexivity].
  - exists (pre ++ [u1; u2]). split; [rewrite <- app_assoc; reflexivity|].
    rewrite app_length. simpl length.
    assert (Hev : exists m, length pre = (2 * m)%nat).
    { clear - Hrej. assert (G : forall k l, (length l <= k)%nat -> all_rejected l -> exists m, length l = (2 * m)%nat).
      { induction k as [|k IHk]; intros l Hl Hr.
        - destruct l; [exists 0%nat; reflexivity|simpl in Hl; lia].
        - destruct l as [|a [|b l']]; [exists 0%nat; reflexivity|simpl in Hr; contradiction|].
          simpl in Hr. destruct Hr as [_ Hr]. destruct (IHk l') as [m Hm]; [simpl in Hl; lia|exact Hr|].
          exists (S m). simpl. lia. }
      apply (G (length pre)); auto. }
    destruct Hev as [m Hm]. rewrite Hm. lia.
Qed.
End Rejection.

(** ** Rejection_Sampling_2D: three uniforms per trial *)
Section Rejection2.
Variables (PDF : T -> T -> T) (xMin xMax yMin yMax zMax : T).
Fixpoint all_rejected2 (pre : list T) : Prop :=
  match pre with
  | [] => True
  | u1 :: u2 :: u3 :: rest =>
      nleb Ops (unif Ops u3 (n0 Ops) zMax) (PDF (unif Ops u1 xMin xMax) (unif Ops u2 yMin yMax)) = false /\ all_rejected2 rest
  | _ => False
  end.

Lemma all_rejected2_len k : forall l, (length l <= k)%nat -> all_rejected2 l -> exists m, length l = (3 * m)%nat.
Proof.
  induction k as [|k IHk]; intros l Hl Hr.
  - destruct l; [exists 0%nat; reflexivity|simpl in Hl; lia].
  - destruct l as [|a [|b [|c l']]]; [exists 0%nat; reflexivity|simpl in Hr; contradiction|simpl in Hr; contradiction|].
    simpl in Hr. destruct Hr as [_ Hr]. destruct (IHk l') as [m Hm]; [simpl in Hl; lia|exact Hr|].
    exists (S m). simpl. lia.
Qed.

Lemma rejection2_loop_spec n : forall us count xy r, (length us <= n)%nat ->
  rejection2_loop Ops PDF xMin xMax yMin yMax zMax us count = Ok (xy, r) ->
  exists pre u1 u2 u3, us = pre ++ u1 :: u2 :: u3 :: r /\ all_rejected2 pre /\
    xy = (unif Ops u1 xMin xMax, unif Ops u2 yMin yMax) /\
    nleb Ops (unif Ops u3 (n0 Ops) zMax) (PDF (fst xy) (snd xy)) = true /\
    (forall j, 1 <= j <= Z.of_nat (length pre) / 3 + 1 -> (count + j) mod 10000 <> 0).
Proof.
  induction n as [|n IH]; intros us count xy r Hlen.
  - destruct us; [|simpl in Hlen; lia]. simpl. rewrite exit_test. destruct (_ =? 0); discriminate.
  - destruct us as [|u1 [|u2 [|u3 us']]]; simpl rejection2_loop; rewrite exit_test;
      destruct (Z.eqb_spec ((count + 1) mod 10000) 0) as [E0|E0]; try discriminate.
    set (pdf := PDF (unif Ops u1 xMin xMax) (unif Ops u2 yMin yMax)).
    destruct (ngtb Ops pdf zMax && ngtb Ops (relative_difference Ops pdf zMax) (ndec Ops 1 100)); [discriminate|].
    destruct (nleb Ops (unif Ops u3 (n0 Ops) zMax) pdf) eqn:E3.
    + intros H; inversion H; subst. exists [], u1, u2, u3. simpl. repeat split; auto.
      intros j Hj. change (0 / 3) with 0 in Hj. replace j with 1 by lia. exact E0.
    + intros H. apply IH in H; [|simpl in Hlen; lia].
      destruct H as (pre & v1 & v2 & v3 & -> & Hrej & Hx & Hy & Hc).
      exists (u1 :: u2 :: u3 :: pre), v1, v2, v3. split; [reflexivity|]. split; [simpl; auto|]. repeat split; auto.
      intros j Hj. simpl length in Hj. rewrite !Nat2Z.inj_succ in Hj.
      destruct (Z.eq_dec j 1) as [->|Hne]; [exact E0|].
      replace (count + j) with (count + 1 + (j - 1)) by lia. apply Hc. lia.
Qed.

Theorem rejection_sampling_2d_spec us xy r :
  rejection_sampling_2d Ops PDF xMin xMax yMin yMax zMax us = Ok (xy, r) ->
  exists pre u1 u2 u3, us = pre ++ u1 :: u2 :: u3 :: r /\ all_rejected2 pre /\
    xy = (unif Ops u1 xMin xMax, unif Ops u2 yMin yMax) /\
    nleb Ops (unif Ops u3 (n0 Ops) zMax) (PDF (fst xy) (snd xy)) = true /\
    let trials := Z.of_nat (length pre) / 3 + 1 in
    1 <= trials < 10000 /\ consumes us r (3 * trials).
Proof.
  intros H. apply (rejection2_loop_spec (length us)) in H; [|lia].
  destruct H as (pre & u1 & u2 & u3 & -> & Hrej & Hx & Hy & Hc).
  exists pre, u1, u2, u3. repeat split; auto.
  - assert (0 <= Z.of_nat (length pre) / 3) by (apply Z.div_pos; lia). lia.
  - destruct (Z_lt_le_dec (Z.of_nat (length pre) / 3 + 1) 10000) as [?|Hge]; [assumption|].
    exfalso. apply (Hc 10000); [lia|reflexivity].
  - exists (pre ++ [u1; u2; u3]). split; [rewrite <- app_assoc; reflexivity|].
    rewrite app_length. simpl length.
    destruct (all_rejected2_len (length pre) pre) as [m Hm]; auto. rewrite Hm. lia.
Qed.
End Rejection2.

(** ** Sample_Metropolis: 1 + 2 i_max uniforms, as many samples as kept loop indices *)
Section Metro.
Variables (PDF : T -> T) (sigma : T) (dom : option (T * T)) (burn thin imax : Z).

Lemma metro_loop_spec n : forall us i x acc l r, Z.to_nat (imax - i) = n ->
  metro_loop Ops PDF sigma dom burn thin imax us i x acc = Ok (l, r) ->
  consumes us r (2 * Z.of_nat n) /\
  Z.of_nat (length l) = Z.of_nat (length acc) + count_loop n burn thin i 0.
Proof.
  induction n as [|n IH]; intros us i x acc l r Hn.
  - destruct us as [|u1 [|u2 us']]; simpl metro_loop;
      replace (i <? imax) with false by (symmetry; apply Z.ltb_ge; lia);
      intros H; inversion H; subst;
      (split; [exists []; split; [reflexivity|simpl; lia] | rewrite rev_length; simpl; lia]).
  - destruct us as [|u1 [|u2 us']]; simpl metro_loop;
      replace (i <? imax) with true by (symmetry; apply Z.ltb_lt; lia); try discriminate.
    destruct (gauss_of Ops u1 x sigma) as [cand| | |]; try discriminate.
    intros H. apply IH in H; [|lia]. destruct H as [(pre & -> & Hp) Hl]. split.
    + exists (u1 :: u2 :: pre). split; [reflexivity|]. simpl length. lia.
    + rewrite Hl. cbn [count_loop]. destruct (metro_keep burn thin i).
      * rewrite (count_loop_acc n burn thin (i + 1) (0 + 1)). simpl length. lia.
      * lia.
Qed.
End Metro.

Theorem sample_metropolis_spec PDF sigma sample thin burn domain us l r :
  sample_metropolis Ops PDF sigma sample thin burn domain us = Ok (l, r) ->
  (domain = [] \/ exists lo hi, domain = [lo; hi]) /\
  consumes us r (metro_consumed burn thin sample) /\
  Z.of_nat (length l) = metro_kept burn thin sample.
Proof.
  unfold sample_metropolis, metro_consumed, metro_kept.
  set (imax := metro_imax burn thin sample).
  assert (Him : 0 <= imax) by (unfold imax, metro_imax, wrap32; lia).
  assert (G : forall dom u us' x0, metro_loop Ops PDF sigma dom burn thin imax us' 0 x0 [] = Ok (l, r) ->
              consumes (u :: us') r (1 + 2 * imax) /\ Z.of_nat (length l) = count_loop (Z.to_nat imax) burn thin 0 0).
  { intros dom u us' x0 H. apply (metro_loop_spec PDF sigma dom burn thin imax (Z.to_nat imax)) in H; [|f_equal; lia].
    destruct H as [(pre & -> & Hp) Hl]. split; [|simpl in Hl; lia].
    exists (u :: pre). split; [reflexivity|]. simpl length. lia. }
  destruct domain as [|lo [|hi [|? ?]]]; try discriminate.
  - destruct us as [|u us']; [discriminate|].
    destruct (gauss_of Ops u (n0 Ops) sigma) as [x0| | |]; try discriminate. simpl rbind.
    intros H. split; [now left|]. eapply G; eassumption.
  - destruct us as [|u us']; [discriminate|].
    intros H. split; [right; now exists lo, hi|]. eapply G; eassumption.
Qed.

(** ** Sample_Metropolis_2D: 2 + 3 i_max uniforms *)
Section Metro2.
Variables (PDF : T -> T -> T) (s1 s2 : T) (dom : option (T * T * T * T)) (burn thin imax : Z).

Lemma metro2_loop_spec n : forall us i x acc l r, Z.to_nat (imax - i) = n ->
  metro2_loop Ops PDF s1 s2 dom burn thin imax us i x acc = Ok (l, r) ->
  consumes us r (3 * Z.of_nat n) /\
  Z.of_nat (length l) = Z.of_nat (length acc) + count_loop n burn thin i 0.
Proof.
  induction n as [|n IH]; intros us i x acc l r Hn.
  - destruct us as [|u1 [|u2 [|u3 us']]]; simpl metro2_loop;
      replace (i <? imax) with false by (symmetry; apply Z.ltb_ge; lia);
      intros H; inversion H; subst;
      (split; [exists []; split; [reflexivity|simpl; lia] | rewrite rev_length; simpl; lia]).
  - destruct us as [|u1 [|u2 [|u3 us']]]; simpl metro2_loop;
      replace (i <? imax) with true by (symmetry; apply Z.ltb_lt; lia); try discriminate.
    destruct (gauss_of Ops u1 (fst x) s1) as [ca| | |]; try discriminate.
    destruct (gauss_of Ops u2 (snd x) s2) as [cb| | |]; try discriminate.
    intros H. apply IH in H; [|lia]. destruct H as [(pre & -> & Hp) Hl]. split.
    + exists (u1 :: u2 :: u3 :: pre). split; [reflexivity|]. simpl length. lia.
    + rewrite Hl. cbn [count_loop]. destruct (metro_keep burn thin i).
      * rewrite (count_loop_acc n burn thin (i + 1) (0 + 1)). simpl length. lia.
      * lia.
Qed.
End Metro2.

Theorem sample_metropolis_2d_spec PDF s1 s2 sample thin burn domain us l r :
  sample_metropolis_2d Ops PDF s1 s2 sample thin burn domain us = Ok (l, r) ->
  (domain = [] \/ exists x0 x1 y0 y1, domain = [x0; x1; y0; y1]) /\
  consumes us r (metro2_consumed burn thin sample) /\
  Z.of_nat (length l) = metro_kept burn thin sample.
Proof.
  unfold sample_metropolis_2d, metro2_consumed, metro_kept.
  set (imax := metro_imax burn thin sample).
  assert (Him : 0 <= imax) by (unfold imax, metro_imax, wrap32; lia).
  assert (G : forall dom u1 u2 us' x0, metro2_loop Ops PDF s1 s2 dom burn thin imax us' 0 x0 [] = Ok (l, r) ->
              consumes (u1 :: u2 :: us') r (2 + 3 * imax) /\ Z.of_nat (length l) = count_loop (Z.to_nat imax) burn thin 0 0).
  { intros dom u1 u2 us' x0 H. apply (metro2_loop_spec PDF s1 s2 dom burn thin imax (Z.to_nat imax)) in H; [|f_equal; lia].
    destruct H as [(pre & -> & Hp) Hl]. split; [|simpl in Hl; lia].
    exists (u1 :: u2 :: pre). split; [reflexivity|]. simpl length. lia. }
  destruct domain as [|x0 [|x1 [|y0 [|y1 [|? ?]]]]]; try discriminate.
  - destruct us as [|u1 [|u2 us']]; try discriminate.
    destruct (gauss_of Ops u1 (n0 Ops) s1) as [a| | |]; try discriminate. simpl rbind.
    destruct (gauss_of Ops u2 (n0 Ops) s2) as [b| | |]; try discriminate. simpl rbind.
    intros H. split; [now left|]. eapply G; eassumption.
  - destruct us as [|u1 [|u2 us']]; try discriminate.
    intros H. split; [right; now exists x0, x1, y0, y1|]. eapply G; eassumption.
Qed.

(** exactly [sample] elements, for every burn-in, every thinning >= 1 and no 32-bit overflow *)
Theorem metropolis_count PDF sigma sample thin burn domain us l r :
  1 <= thin -> 0 <= burn -> 0 <= sample -> burn + thin * sample < 4294967296 ->
  sample_metropolis Ops PDF sigma sample thin burn domain us = Ok (l, r) ->
  Z.of_nat (length l) = sample.
Proof.
  intros Ht Hb Hs Hov H. apply sample_metropolis_spec in H. destruct H as (_ & _ & ->).
  now apply metro_kept_exact.
Qed.

Theorem metropolis_2d_count PDF s1 s2 sample thin burn domain us l r :
  1 <= thin -> 0 <= burn -> 0 <= sample -> burn + thin * sample < 4294967296 ->
  sample_metropolis_2d Ops PDF s1 s2 sample thin burn domain us = Ok (l, r) ->
  Z.of_nat (length l) = sample.
Proof.
  intros Ht Hb Hs Hov H. apply sample_metropolis_2d_spec in H. destruct H as (_ & _ & ->).
  now apply metro_kept_exact.
Qed.
End Generic.

(** non-vacuity of the counting theorems *)
Example metro_kept_ex : metro_kept 7 3 4 = 4 /\ metro_kept 0 1 5 = 5 /\ metro_kept 200 200 200 = 200.
Proof. vm_compute. repeat split; reflexivity. Qed.
Example metro_kept_ex_hyp : 1 <= 3 /\ 0 <= 7 /\ 0 <= 4 /\ 7 + 3 * 4 < 4294967296.
Proof. lia. Qed.
(* 32-bit wrap-around outside the premise: thinning * sample = 2^32 wraps to 0, nothing is kept *)
Example metro_kept_wrap : metro_kept 5 2147483648 2 = 0.
Proof. vm_compute. reflexivity. Qed.
