(** * C05 proofs, rounding: forward error of Matrix::Determinant in ANY arithmetic that obeys the standard model
      fl(x op y) = (x op y)(1 + d), |d| <= u        for op in { +, -, * }
    (IEEE double, round to nearest: u = 2^-53, as long as no operation overflows or underflows).
    [R] is any real field (e.g. the rationals, in which every double has its exact value); the model's + - * are
    instantiated with ARBITRARY functions fadd fsub fmul that satisfy the three inequalities, so the theorem covers
    every rounding mode, fused or extended intermediate precision etc.
    Result: for every size N >= 1 the value the model's Laplace recursion computes differs from the determinant by at most
      ((1+u)^(det_err_exp N) - 1) * perm |M|,     perm |M| = sum over all permutations s of prod_i |M_{i,s(i)}|
    (the sum of the magnitudes of the N! Leibniz terms - the quantity the S4 predicate 'lu-reference' scales its slack with),
    det_err_exp 1 = 0, det_err_exp 2 = 2, det_err_exp N = det_err_exp (N-1) + N + 2  (<= N^2; 37 for N = 7).
    Proof: induction on the size; the loop  det += factors[j] * Sub_Matrix(0,j).Determinant()  is handled by a loop
    invariant over fold_left. *)
From mathcomp Require Import all_ssreflect all_fingroup all_algebra.
From mathcomp Require Import ring zify.
From Coq Require List ZArith.
From LP Require Import Num C04_Model C05_Model C04_Proofs_Struct C04_Proofs_Laws C05_Proofs.
Set Implicit Arguments. Unset Strict Implicit. Unset Printing Implicit Defensive.
Arguments tab : simpl never.
Arguments tab2 : simpl never.
Import Order.TTheory GRing.Theory Num.Theory.
Local Open Scope ring_scope.

(** ** The permanent of |A| and its Laplace expansion (MathComp has the determinant only) *)
Section Permanent.
Variable R : realFieldType.
Definition pm n (A : 'M[R]_n) : R := \sum_(s : 'S_n) \prod_i `|A i (s i)|.

Lemma pm_ge0 n (A : 'M[R]_n) : 0 <= pm A.
Proof. by apply: sumr_ge0 => s _; apply: prodr_ge0 => i _. Qed.

Lemma det_le_pm n (A : 'M[R]_n) : `|\det A| <= pm A.
Proof.
  rewrite /determinant /pm; apply: le_trans (ler_norm_sum _ _ _) _.
  by apply: ler_sum => s _; rewrite normrM normrX normrN1 expr1n mul1r normr_prod.
Qed.

Lemma expand_pcofactor n (A : 'M[R]_n) i j :
  pm (row' i (col' j A)) = \sum_(s : 'S_n | s i == j) \prod_(k | i != k) `|A k (s k)|.
Proof.
case: n A i j => [|n] A i0 j0; first by case: i0.
rewrite (reindex (lift_perm i0 j0)); last first.
  pose ulsf i (s : 'S_n.+1) k := odflt k (unlift (s i) (s (lift i k))).
  have ulsfK i (s : 'S_n.+1) k: lift (s i) (ulsf i s k) = s (lift i k).
    rewrite /ulsf; have:= neq_lift i k.
    by rewrite -(can_eq (permK s)) => /unlift_some[] ? ? ->.
  have inj_ulsf: injective (ulsf i0 _).
    move=> s; apply: can_inj (ulsf (s i0) s^-1%g) _ => k'.
    by rewrite {1}/ulsf ulsfK !permK liftK.
  exists (fun s => perm (inj_ulsf s)) => [s _ | s].
    by apply/permP=> k'; rewrite permE /ulsf lift_perm_lift lift_perm_id liftK.
  move/(s _ =P _) => si0; apply/permP=> k.
  case: (unliftP i0 k) => [k'|] ->; rewrite ?lift_perm_id //.
  by rewrite lift_perm_lift -si0 permE ulsfK.
rewrite /pm.
apply: eq_big => [s | s _]; first by rewrite lift_perm_id eqxx.
case: (pickP 'I_n) => [k0 _ | n0]; last first.
  by rewrite !big1 // => [j /unlift_some[i] | i _]; have:= n0 i.
rewrite (reindex (lift i0)).
  by apply: eq_big => [k | k _] /=; rewrite ?neq_lift // !mxE lift_perm_lift.
exists (fun k => odflt k0 (unlift i0 k)) => k; first by rewrite liftK.
by case/unlift_some=> k' -> ->.
Qed.

Lemma expand_pm_row n (A : 'M[R]_n) i0 :
  pm A = \sum_j `|A i0 j| * pm (row' i0 (col' j A)).
Proof.
rewrite {1}/pm (partition_big (fun s : 'S_n => s i0) predT) //=.
apply: eq_bigr => j0 _; rewrite expand_pcofactor big_distrr /=.
apply: eq_bigr => s /eqP Dsi0.
rewrite (bigID (pred1 i0)) /= big_pred1_eq Dsi0; congr (_ * _).
by apply: eq_bigl => i; rewrite eq_sym.
Qed.
Lemma pm11 (A : 'M[R]_1) : pm A = `|A 0 0|.
Proof.
  rewrite (expand_pm_row _ ord0) big_ord_recl big_ord0 addr0 /pm (eq_bigr (fun=> 1)); last by move=> s _; rewrite big_ord0.
  by rewrite sumr_const card_Sn fact0 mulr1.
Qed.
Lemma pm22 (A : 'M[R]_2) : pm A = `|A 0 0| * `|A 1 1| + `|A 0 1| * `|A 1 0|.
Proof.
  rewrite (expand_pm_row _ ord0) !big_ord_recl big_ord0 addr0 !pm11 !mxE.
  have L (a : 'I_1) : lift (ord0 : 'I_2) a = 1 by apply: val_inj; rewrite /= [a]ord1.
  have L2 (a : 'I_1) : lift (1 : 'I_2) a = 0 by apply: val_inj; rewrite /= [a]ord1.
  by rewrite !L !L2.
Qed.
End Permanent.

(** ** x^ approximates x: |x^ - x| <= (g - 1) B  and  |x| <= B   (g >= 1: accumulated factor (1+u)^k) *)
Section Approx.
Variable R : realFieldType.
Variable u : R.
Hypothesis u0 : 0 <= u.
Definition app (g B xh x : R) : Prop := [/\ 1 <= g, `|xh - x| <= (g - 1) * B & `|x| <= B].

Lemma app_B g B xh x : app g B xh x -> 0 <= B.
Proof. by case=> _ _; apply: le_trans. Qed.
Lemma app_hat g B xh x : app g B xh x -> `|xh| <= g * B.
Proof.
  case=> Hg H1 H2; rewrite -[xh](subrK x); apply: le_trans (ler_norm_add _ _) _.
  by rewrite -[g](subrK 1) mulrDl mul1r ler_add.
Qed.
Lemma app_exact x : app 1 `|x| x x.
Proof. by split; rewrite // !subrr normr0 mul0r. Qed.
Lemma app_weak g g' B xh x : g <= g' -> app g B xh x -> app g' B xh x.
Proof.
  move=> Hgg H; case: (H) => Hg H1 H2; split=> //; first by apply: le_trans Hgg.
  by apply: le_trans H1 _; rewrite ler_wpmul2r ?(app_B H) // ler_sub.
Qed.
Lemma app_eq g g' B B' xh x x' : g = g' -> B = B' -> x = x' -> app g B xh x -> app g' B' xh x'.
Proof. by move=> -> -> ->. Qed.

Lemma u1 : 1 <= 1 + u.  Proof. by rewrite ler_addl. Qed.
Lemma u1k k : 1 <= (1 + u) ^+ k.  Proof. by rewrite exprn_ege1 // u1. Qed.

Variables (fadd fsub fmul : R -> R -> R).
Hypothesis Hadd : forall x y, `|fadd x y - (x + y)| <= u * `|x + y|.
Hypothesis Hsub : forall x y, `|fsub x y - (x - y)| <= u * `|x - y|.
Hypothesis Hmul : forall x y, `|fmul x y - (x * y)| <= u * `|x * y|.

Lemma app_mul g1 g2 B1 B2 ah a bh b : app g1 B1 ah a -> app g2 B2 bh b ->
  app ((1 + u) * (g1 * g2)) (B1 * B2) (fmul ah bh) (a * b).
Proof.
  move=> Ha Hb; have B1p := app_B Ha; have B2p := app_B Hb.
  case: (Ha) => Hg1 Ha1 Ha2; case: (Hb) => Hg2 Hb1 Hb2.
  have g1p : 0 <= g1 by apply: le_trans Hg1.
  have g2p : 0 <= g2 by apply: le_trans Hg2.
  split.
  - by rewrite !mulr_ege1 // u1.
  - have -> : fmul ah bh - a * b = (fmul ah bh - ah * bh) + (ah * (bh - b) + (ah - a) * b) by ring.
    apply: le_trans (ler_norm_add _ _) _.
    have -> : ((1 + u) * (g1 * g2) - 1) * (B1 * B2) =
              u * ((g1 * B1) * (g2 * B2)) + ((g1 * B1) * ((g2 - 1) * B2) + ((g1 - 1) * B1) * B2) by ring.
    apply: ler_add.
      apply: le_trans (Hmul _ _) _; rewrite ler_wpmul2l // normrM.
      by apply: ler_pmul; rewrite ?normr_ge0 // ?(app_hat Ha) ?(app_hat Hb).
    apply: le_trans (ler_norm_add _ _) _; rewrite !normrM; apply: ler_add.
      by apply: ler_pmul; rewrite ?normr_ge0 // (app_hat Ha).
    by apply: ler_pmul; rewrite ?normr_ge0.
  - by rewrite normrM ler_pmul.
Qed.

Lemma app_add g B1 B2 ah a bh b : app g B1 ah a -> app g B2 bh b ->
  app ((1 + u) * g) (B1 + B2) (fadd ah bh) (a + b).
Proof.
  move=> Ha Hb; have B1p := app_B Ha; have B2p := app_B Hb.
  case: (Ha) => Hg Ha1 Ha2; case: (Hb) => _ Hb1 Hb2.
  have gp : 0 <= g by apply: le_trans Hg.
  split.
  - by rewrite mulr_ege1 // u1.
  - have -> : fadd ah bh - (a + b) = (fadd ah bh - (ah + bh)) + ((ah - a) + (bh - b)) by ring.
    apply: le_trans (ler_norm_add _ _) _.
    have -> : ((1 + u) * g - 1) * (B1 + B2) = u * (g * B1 + g * B2) + ((g - 1) * B1 + (g - 1) * B2) by ring.
    apply: ler_add.
      apply: le_trans (Hadd _ _) _; rewrite ler_wpmul2l //; apply: le_trans (ler_norm_add _ _) _.
      by apply: ler_add; rewrite ?(app_hat Ha) ?(app_hat Hb).
    by apply: le_trans (ler_norm_add _ _) _; apply: ler_add.
  - by apply: le_trans (ler_norm_add _ _) _; apply: ler_add.
Qed.

Lemma app_sub g B1 B2 ah a bh b : app g B1 ah a -> app g B2 bh b ->
  app ((1 + u) * g) (B1 + B2) (fsub ah bh) (a - b).
Proof.
  move=> Ha Hb; have B1p := app_B Ha; have B2p := app_B Hb.
  case: (Ha) => Hg Ha1 Ha2; case: (Hb) => _ Hb1 Hb2.
  have gp : 0 <= g by apply: le_trans Hg.
  split.
  - by rewrite mulr_ege1 // u1.
  - have -> : fsub ah bh - (a - b) = (fsub ah bh - (ah - bh)) + ((ah - a) - (bh - b)) by ring.
    apply: le_trans (ler_norm_add _ _) _.
    have -> : ((1 + u) * g - 1) * (B1 + B2) = u * (g * B1 + g * B2) + ((g - 1) * B1 + (g - 1) * B2) by ring.
    apply: ler_add.
      apply: le_trans (Hsub _ _) _; rewrite ler_wpmul2l //; apply: le_trans (ler_norm_sub _ _) _.
      by apply: ler_add; rewrite ?(app_hat Ha) ?(app_hat Hb).
    by apply: le_trans (ler_norm_sub _ _) _; apply: ler_add.
  - by apply: le_trans (ler_norm_sub _ _) _; apply: ler_add.
Qed.
End Approx.

(** number of factors (1+u) accumulated by Determinant() of an N x N matrix *)
Fixpoint det_err_exp (N : nat) : nat :=
  match N with
  | 0 => 0
  | N'.+1 => if (N' == 0)%N then 0%N else if (N' == 1)%N then 2%N else (det_err_exp N' + N'.+1 + 2)%N
  end.

Lemma det_err_expS N : det_err_exp N.+3 = (det_err_exp N.+2 + N.+3 + 2)%N.
Proof. by []. Qed.

(** the exponent is at most N^2 *)
Lemma det_err_exp_le N : (det_err_exp N <= N * N)%N.
Proof.
  case: N => [|[|[|N]]] //; elim: N => [|N IH] //.
  rewrite det_err_expS; apply: leq_trans (_ : (N.+3 * N.+3 + N.+4 + 2 <= _)%N); first by rewrite !leq_add2r.
  by nia.
Qed.

(** ** The model's Determinant in rounded arithmetic *)
Section Rounded.
Variable R : realFieldType.
Variables (fadd fsub fmul fdiv : R -> R -> R) (sqrtF : R -> R) (leF : R -> R -> bool).
Variable u : R.
(** the model's number type: + - * / are the rounded operations; 0, 1, unary minus, fabs, comparisons are exact *)
Definition XOps : NumOps R :=
  @mkNumOps R 0 1 fadd fsub fmul fdiv -%R (fun x => `|x|) sqrtF (fun x y => x < y) leF (fun x y => x == y)
           (fun _ => 0) (fun _ => false) id id id id id id id id (fun x _ => x) (fun x _ => x)
           (fun _ _ _ _ => 0) (fun _ => BinNums.Z0).
Definition std_model : Prop :=
  [/\ forall x y, `|fadd x y - (x + y)| <= u * `|x + y|,
      forall x y, `|fsub x y - (x - y)| <= u * `|x - y| &
      forall x y, `|fmul x y - (x * y)| <= u * `|x * y|].
Hypothesis u0 : 0 <= u.
Hypothesis SM : std_model.
Local Notation ment := (ment XOps).
Definition mxr (n : nat) (M : mat R) : 'M[R]_n := \matrix_(i, j) ment M i j.

Lemma Xdet_fuelS fuel (M : mat R) :
  det_fuel XOps fuel.+1 M =
  if ~~ square M then Exit
  else if (mrows M == 1)%N then Ok (ment M 0 0)
  else if (mrows M == 2)%N then Ok (fsub (fmul (ment M 0 0) (ment M 1 1)) (fmul (ment M 0 1) (ment M 1 0)))
  else foldl (fun acc j => rbind acc (fun a => rbind (sub_matrix M 0 j) (fun sm =>
                rbind (det_fuel XOps fuel sm) (fun d => Ok (fadd a (fmul (fmul (lap_sign XOps j) (ment M 0 j)) d))))))
             (Ok 0) (iota 0 (mcols M)).
Proof. by rewrite /= !eqbE foldE seqE. Qed.

Lemma Xlap_sign j : lap_sign XOps j = (-1) ^+ j.
Proof. by rewrite /lap_sign evenE -signr_odd; case: (odd j); rewrite ?expr1 ?expr0. Qed.

(** loop invariant for  acc = step acc j,  j = 0 .. n-1 *)
Lemma foldl_inv (step : res R -> nat -> res R) (Inv : nat -> R -> Prop) n :
  Inv 0%N 0 -> (forall a j, (j < n)%N -> Inv j a -> exists2 a', step (Ok a) j = Ok a' & Inv j.+1 a') ->
  exists2 a, foldl step (Ok 0) (iota 0 n) = Ok a & Inv n a.
Proof.
  move=> H0; elim: n => [|n IH] H; first by exists 0.
  have [a Ea Ia] := IH (fun a j Hj => H a j (ltnW Hj)).
  have [a' Ea' Ia'] := H a n (ltnSn n) Ia.
  by exists a' => //; rewrite -addn1 iotaD foldl_cat Ea /= add0n.
Qed.

Lemma mxr_sub n (M : mat R) (j : 'I_n.+1) :
  mxr n (mk_mat n n (fun a b => ment M (skip 0 a) (skip j b))) = row' ord0 (col' j (mxr n.+1 M)).
Proof.
  apply/matrixP => a b; rewrite !mxE ment_mk //=; congr (ment M _ _); rewrite /skip /bump //=.
  by case: (ltnP b j) => H; rewrite ?(leqNgt j b) ?H ?add0n ?add1n //= leqNgt ltnS H.
Qed.

Lemma det_fuel_error n fuel (M : mat R) : wf_mat M -> mrows M = n.+1 -> mcols M = n.+1 -> (n < fuel)%N ->
  exists2 d, det_fuel XOps fuel M = Ok d &
             app ((1 + u) ^+ det_err_exp n.+1) (pm (mxr n.+1 M)) d (\det (mxr n.+1 M)).
Proof.
  case: SM => Hadd Hsub Hmul.
  elim: fuel n M => [|fuel IH] n M // HM Hr Hc Hf.
  rewrite Xdet_fuelS squareE Hr Hc eqxx [~~ true]/=.
  case: n Hr Hc Hf => [|[|n]] Hr Hc Hf.
  - exists (ment M 0 0) => //=; rewrite expr0.
    rewrite pm11 mxE.
    by rewrite det_mx11 mxE; apply: app_exact.
  - eexists; first by []. 
    rewrite det2 pm22 !mxE /=.
    apply: app_eq (app_sub u0 Hsub (app_mul u0 Hmul (app_exact _) (app_exact _))
                                   (app_mul u0 Hmul (app_exact _) (app_exact _))) => //.
    by rewrite mulr1 mulr1 expr2.
  - rewrite (_ : (n.+3 == 1)%N = false) // (_ : (n.+3 == 2)%N = false) //.
    pose sub j := mk_mat n.+2 n.+2 (fun a b => ment M (skip 0 a) (skip j b)).
    pose g := (1 + u) ^+ det_err_exp n.+2.
    pose gt := (1 + u) * ((1 + u) * (1 * 1) * g).
    pose t j := ((-1) ^+ j * ment M 0 j) * \det (mxr n.+2 (sub j)).
    pose B j := (1 * `|ment M 0 j|) * pm (mxr n.+2 (sub j)).
    pose step := (fun acc j => rbind acc (fun a => rbind (sub_matrix M 0 j) (fun sm =>
                rbind (det_fuel XOps fuel sm) (fun d => Ok (fadd a (fmul (fmul (lap_sign XOps j) (ment M 0 j)) d)))))).
    pose Inv := (fun k a => app ((1 + u) ^+ k * gt) (\sum_(0 <= j < k) B j) a (\sum_(0 <= j < k) t j)).
    have gt1 : 1 <= gt by rewrite /gt !mulr_ege1 // ?u1 // /g u1k.
    have H0 : Inv 0%N 0.
      by rewrite /Inv !big_geq // expr0 mul1r; split; rewrite ?subrr ?normr0 ?mulr0.
    have HS a j : (j < n.+3)%N -> Inv j a -> exists2 a', step (Ok a) j = Ok a' & Inv j.+1 a'.
      move=> Hj Ia; rewrite /step /= (sub_matrix_spec XOps) ?Hr ?Hc //= Hj /=.
      have [dj -> Idj] := IH n.+1 (sub j) (wf_mk _ _ _) erefl erefl Hf.
      eexists; first by [].
      rewrite /Inv !big_nat_recr //= exprS -mulrA.
      apply: (app_add u0 Hadd Ia); apply: (@app_weak _ gt).
        by rewrite ler_pmull ?u1k //; apply: lt_le_trans ltr01 _.
      rewrite /gt /t /B Xlap_sign; apply: (app_mul u0 Hmul) Idj; apply: (app_mul u0 Hmul); last exact: app_exact.
      by split; rewrite // ?subrr ?normr0 ?mul0r // normrX normrN1 expr1n.
    have [d Ed Id] := foldl_inv H0 HS.
    exists d; first by [].
    apply: app_eq Id.
    + rewrite /gt /g mul1r mulr1 !mulrA -!exprSr -exprD det_err_expS; congr (_ ^+ _).
      by rewrite addnC -addnA; congr (_ + _)%N; rewrite !addnS addn0.
    + rewrite (expand_pm_row _ ord0) big_mkord; apply: eq_bigr => j _.
      by rewrite /B mul1r mxE mxr_sub.
    + rewrite (expand_det_row _ ord0) big_mkord; apply: eq_bigr => j _.
      by rewrite /t /cofactor !mxE add0n [_ * ment M _ _]mulrC -mulrA mxr_sub.
Qed.

(** Determinant() in rounded arithmetic: every size, every matrix *)
Theorem det_rounding_error n (M : mat R) : wf_mat M -> mrows M = n.+1 -> mcols M = n.+1 ->
  exists2 d, determinant XOps M = Ok d &
             `|d - \det (mxr n.+1 M)| <= ((1 + u) ^+ det_err_exp n.+1 - 1) * pm (mxr n.+1 M).
Proof.
  move=> HM Hr Hc; have Hf : (n < (mrows M).+1)%N by rewrite Hr.
  by have [d Ed [_ Hd _]] := det_fuel_error HM Hr Hc Hf; exists d.
Qed.

(** Invertible() in rounded arithmetic: it tests the COMPUTED determinant d against 0.0, so
    "reported singular" implies |det M| <= E perm|M| (the matrix is singular to rounding), and an exactly singular matrix
    yields |d| <= E perm|M| (a rounded residue - it may be non-zero: known finding K-C05-1),  E = (1+u)^(det_err_exp N) - 1 *)
Theorem invertible_rounding n (M : mat R) : wf_mat M -> mrows M = n.+1 -> mcols M = n.+1 ->
  let E := (1 + u) ^+ det_err_exp n.+1 - 1 in
  exists d, [/\ determinant XOps M = Ok d, invertible XOps M = Ok (d != 0),
                d = 0 -> `|\det (mxr n.+1 M)| <= E * pm (mxr n.+1 M) &
                \det (mxr n.+1 M) = 0 -> `|d| <= E * pm (mxr n.+1 M)].
Proof.
  move=> HM Hr Hc E; have [d Ed Hd] := det_rounding_error HM Hr Hc; exists d; split=> //.
  - by rewrite /invertible squareE Hr Hc eqxx /= Ed.
  - by move=> d0; move: Hd; rewrite d0 sub0r normrN.
  - by move=> d0; move: Hd; rewrite d0 subr0.
Qed.

(** (1+u)^k - 1 <= k u / (1 - k u)  (the constant gamma_k of the standard error analyses) *)
Lemma gamma_bound k : (1 + u) ^+ k * (1 - k%:R * u) <= 1.
Proof.
  elim: k => [|k IH]; first by rewrite expr0 mul0r subr0 mulr1.
  apply: le_trans IH; rewrite exprSr -mulrA ler_wpmul2l ?exprn_ge0 ?addr_ge0 ?ler01 //.
  have -> : (1 + u) * (1 - k.+1%:R * u) = 1 - k%:R * u - k.+1%:R * u * u by rewrite mulrSr; ring.
  by rewrite ler_subl_addr ler_addl !mulr_ge0 // ler0n.
Qed.
Corollary gamma_bound' k : k%:R * u < 1 -> (1 + u) ^+ k - 1 <= k%:R * u / (1 - k%:R * u).
Proof.
  move=> Hk; have Hp : 0 < 1 - k%:R * u by rewrite subr_gt0.
  by rewrite ler_pdivl_mulr // mulrBl mul1r ler_subl_addr [X in _ <= X]addrC subrK gamma_bound.
Qed.

(** sizes 1 .. 7 (the property's quantifier) and u <= 2^-7: the error is at most 64 u perm|M| - the slack of the S4 clause *)
Theorem det_rounding_error_le7 n (M : mat R) : wf_mat M -> mrows M = n.+1 -> mcols M = n.+1 ->
  (n < 7)%N -> 128%:R * u <= 1 ->
  exists2 d, determinant XOps M = Ok d & `|d - \det (mxr n.+1 M)| <= 64%:R * u * pm (mxr n.+1 M).
Proof.
  move=> HM Hr Hc Hn Hu; have [d Ed Hd] := det_rounding_error HM Hr Hc; exists d => //.
  apply: le_trans Hd _; rewrite ler_wpmul2r ?pm_ge0 // ler_subl_addr.
  have H m : (m < 7)%N -> (det_err_exp m.+1 <= 37)%N by do 7 (case: m => [|m] //).
  have He := H n Hn.
  apply: le_trans (_ : (1 + u) ^+ 37 <= _); first by rewrite ler_weexpn2l // ler_addl.
  have X0 : 0 <= (1 + u) ^+ 37 by rewrite exprn_ge0 // addr_ge0 ?ler01.
  have P : 1 <= (1 + 64%:R * u) * (1 - 37%:R * u).
    have -> : (1 + 64%:R * u) * (1 - 37%:R * u) = 1 + u * (27%:R * (1 - 128%:R * u) + 1088%:R * u) by ring.
    by rewrite ler_addl mulr_ge0 // addr_ge0 // mulr_ge0 ?ler0n // subr_ge0.
  rewrite [X in _ <= X]addrC.
  apply: le_trans (_ : (1 + 64%:R * u) * ((1 + u) ^+ 37 * (1 - 37%:R * u)) <= _).
    by rewrite mulrCA mulrA -[X in X <= _]mulr1 -mulrA ler_wpmul2l.
  by rewrite -[X in _ <= X]mulr1 ler_wpmul2l ?gamma_bound // addr_ge0 ?ler01 // mulr_ge0 ?ler0n //.
Qed.
End Rounded.

(** non-vacuity: an arithmetic that really rounds (every + and * is too large by the factor 1+u, every - too small
    by 1-u) obeys the standard model, and the 3 x 3 matrix ((2,1,1),(1,2,1),(1,1,2)) satisfies the premises *)
Section Example.
Variable R : realFieldType.
Lemma std_model_example (u : R) : 0 <= u ->
  std_model (fun x y => (x + y) * (1 + u)) (fun x y => (x - y) * (1 - u)) (fun x y => x * y * (1 + u)) u.
Proof.
  move=> u0; split=> x y.
  - have -> : (x + y) * (1 + u) - (x + y) = u * (x + y) by ring.
    by rewrite normrM ger0_norm.
  - have -> : (x - y) * (1 - u) - (x - y) = - u * (x - y) by ring.
    by rewrite normrM normrN ger0_norm.
  - have -> : x * y * (1 + u) - x * y = u * (x * y) by ring.
    by rewrite normrM ger0_norm.
Qed.
Lemma premises_example : let M := mk_mat 3 3 (fun i j => if i == j then 2%:R else 1 : R) in
  [/\ wf_mat M, mrows M = 3%N & mcols M = 3%N].
Proof. by split; rewrite ?wf_mk. Qed.
End Example.
