(** * C01 proofs, part 3: statements over whole tables (induction over the segments), the complete
    behaviour of the constructors' guards, two-point tables, and the 1 % extrapolation zone. *)
From Coq Require Import Reals ZArith List Bool Lia Lra Psatz.
From Coquelicot Require Import Coquelicot.
From LP Require Import Num NumR C01_Model C01_Proofs.
Import ListNotations.
Local Open Scope R_scope.

(** ** 1. Runs of monotone data: the curve is monotone over the whole run, across the knots *)
Section Runs.
Variables xs ys : list R.
Hypothesis HV : valid_table xs ys.
Notation N := (length xs).
Notation X i := (nth i xs 0).
Notation Y i := (nth i ys 0).
Notation o := (tab xs ys).
Let Hlen : length xs = length ys := proj1 HV.
Let HN : (3 <= N)%nat := proj1 (proj2 HV).
Let Hinc : increasing xs := proj2 (proj2 HV).
Let HN2 : (2 <= N)%nat. Proof. lia. Qed.

(* the ordinates of a nondecreasing run are ordered *)
Lemma run_le a b : (b < N)%nat -> (forall i, (a <= i < b)%nat -> Y i <= Y (S i)) ->
  forall i k, (a <= i)%nat -> (i <= k)%nat -> (k <= b)%nat -> Y i <= Y k.
Proof.
  intros Hb Hrun i k Hai. induction k as [|k IH]; intros Hik Hkb.
  - replace i with 0%nat by lia. lra.
  - destruct (Nat.eq_dec i (S k)) as [->|Hne]; [lra|].
    apply Rle_trans with (Y k); [apply IH; lia|apply Hrun; lia].
Qed.

(* every point of [X a, X b] (a < b) lies in a closed segment j with a <= j < b *)
Lemma segment_of a b x : (a < b)%nat -> (b < N)%nat -> X a <= x <= X b ->
  exists j, (a <= j < b)%nat /\ X j <= x <= X (S j).
Proof.
  intros Hab Hb [Hlo Hhi]. induction b as [|b IH]; [lia|].
  destruct (Rle_lt_dec (X b) x) as [Hge|Hlt].
  - exists b. split; [lia|split; assumption].
  - destruct (Nat.eq_dec a b) as [->|Hne]; [lra|].
    destruct IH as (j & Hj & Hx); [lia|lia|lra|]. exists j. split; [lia|exact Hx].
Qed.

Theorem monotone_on_run a b : (a <= b)%nat -> (b < N)%nat ->
  forall p q, X a <= p -> p <= q -> q <= X b ->
  exists fp fq, interpolate ROps o p = Ok fp /\ interpolate ROps o q = Ok fq /\
    ((forall i, (a <= i < b)%nat -> Y i <= Y (S i)) -> fp <= fq) /\
    ((forall i, (a <= i < b)%nat -> Y (S i) <= Y i) -> fq <= fp).
Proof.
  intros Hab Hb p q Hp Hpq Hq.
  destruct (Nat.eq_dec a b) as [->|Hne].
  { (* a single knot *)
    assert (p = X b) by lra. assert (q = X b) by lra. subst p q.
    exists (Y b), (Y b). rewrite (knot_reproduction xs ys HV b Hb). repeat split; intros; lra. }
  assert (Hab' : (a < b)%nat) by lia.
  destruct (segment_of a b p Hab' Hb) as (j & Hj & Hpj); [lra|].
  destruct (segment_of a b q Hab' Hb) as (k & Hk & Hqk); [lra|].
  assert (HjN : (S j < N)%nat) by lia. assert (HkN : (S k < N)%nat) by lia.
  exists (SEGf xs ys j p), (SEGf xs ys k q).
  split; [now apply interpolate_on_segment|]. split; [now apply interpolate_on_segment|].
  pose proof (SEG_between xs ys HV j p HjN Hpj) as Bp.
  pose proof (SEG_between xs ys HV k q HkN Hqk) as Bq.
  destruct (Nat.lt_trichotomy j k) as [Hlt|[Heq|Hgt]].
  - (* different segments, j before k: f(p) is on the far side of Y_{j+1}, f(q) beyond Y_k *)
    split; intros Hrun.
    + assert (Y j <= Y (S j)) by (apply Hrun; lia). assert (Y k <= Y (S k)) by (apply Hrun; lia).
      assert (Y (S j) <= Y k) by (apply (run_le a b Hb Hrun); lia).
      rewrite Rmin_left, Rmax_right in Bp by assumption. rewrite Rmin_left, Rmax_right in Bq by assumption. lra.
    + assert (Y (S j) <= Y j) by (apply Hrun; lia). assert (Y (S k) <= Y k) by (apply Hrun; lia).
      assert (Y k <= Y (S j)).
      { clear - Hrun Hlt Hj Hk Hb. assert (G : forall i m, (a <= i)%nat -> (i <= m)%nat -> (m <= b)%nat -> Y m <= Y i).
        { intros i m Hai. induction m as [|m IH]; intros H1 H2; [replace i with 0%nat by lia; lra|].
          destruct (Nat.eq_dec i (S m)) as [->|Hne]; [lra|].
          apply Rle_trans with (Y m); [apply Hrun; lia|apply IH; lia]. }
        apply G; lia. }
      rewrite Rmin_right, Rmax_left in Bp by assumption. rewrite Rmin_right, Rmax_left in Bq by assumption. lra.
  - (* the same segment *)
    subst k. pose proof (SEG_monotone xs ys HV j p q HjN (proj1 Hpj) Hpq (proj2 Hqk)) as M.
    destruct (monotone_on_segment xs ys HV j p q HjN (proj1 Hpj) Hpq (proj2 Hqk)) as (fp & fq & Ep & Eq & M1 & M2).
    rewrite (interpolate_on_segment xs ys HV j p HjN Hpj) in Ep.
    rewrite (interpolate_on_segment xs ys HV j q HjN Hqk) in Eq.
    injection Ep as <-. injection Eq as <-.
    split; intros Hrun; [apply M1|apply M2]; apply Hrun; lia.
  - (* k before j with p <= q: both points are the knot between *)
    assert (X (S k) <= X j) by (apply increasing_le; auto; lia).
    assert (Epj : p = X j) by lra. assert (Eqk : q = X (S k)) by lra.
    assert (Ejk : j = S k).
    { destruct (Nat.eq_dec j (S k)) as [|Hne']; [assumption|exfalso].
      assert (X (S k) < X j) by (apply increasing_lt; auto; lia). lra. }
    subst j. rewrite Epj, Eqk.
    assert (E : SEGf xs ys (S k) (X (S k)) = Y (S k)) by (unfold SEGf; apply seg_left).
    rewrite E, (SEG_right xs ys HV k HkN). split; intros; lra.
Qed.

(** whole-table range: every returned value lies between two tabulated values *)
Theorem global_range x : X 0 <= x <= X (N - 1) ->
  exists v, interpolate ROps o x = Ok v /\
    (forall lo hi, (forall i, (i < N)%nat -> lo <= Y i <= hi) -> lo <= v <= hi) /\
    exists i k, (i < N)%nat /\ (k < N)%nat /\ Y i <= v <= Y k.
Proof.
  intros Hx. destruct (segment_of 0 (N - 1) x) as (j & Hj & Hxj); [lia|lia|exact Hx|].
  assert (HjN : (S j < N)%nat) by lia.
  exists (SEGf xs ys j x). split; [now apply interpolate_on_segment|].
  pose proof (SEG_between xs ys HV j x HjN Hxj) as B.
  split.
  - intros lo hi Hb. pose proof (Hb j ltac:(lia)). pose proof (Hb (S j) HjN).
    unfold Rmin, Rmax in B. destruct (Rle_dec (Y j) (Y (S j))); lra.
  - unfold Rmin, Rmax in B. destruct (Rle_dec (Y j) (Y (S j))).
    + exists j, (S j). repeat split; try lia; lra.
    + exists (S j), j. repeat split; try lia; lra.
Qed.
End Runs.

(** ** 2. The constructors' guards, completely *)
Lemma strictly_increasing_inv l : strictly_increasing ROps l = true -> increasing l.
Proof.
  induction l as [|a r IH]; intros H i Hi; [cbn in Hi; lia|].
  destruct r as [|b r']; [cbn in Hi; lia|]. cbn [strictly_increasing nleb ROps] in H.
  destruct (Rleb_spec b a); [discriminate|].
  destruct i as [|i]; [cbn; lra|]. apply (IH H i). cbn in *. lia.
Qed.

(** what the constructor accepts: equal lengths, at least two points, strictly increasing abscissae *)
Definition acceptable_table (xs ys : list R) : Prop :=
  length xs = length ys /\ (2 <= length xs)%nat /\ increasing xs.

(** *** 2a. Every arithmetic (any NumOps instance, the doubles included).
    The constructor converts the units first and tests the CONVERTED abscissae: a multiplication that rounds two neighbouring
    abscissae onto one value (or onto inf) makes it exit; the stored table of every object it returns passes the test. *)
Section CtorAny.
Context {T : Type} (Ops : NumOps T).

(** what the constructor accepts: equal lengths, at least two points, and the converted abscissae pass the strict-increase loop *)
Definition ctor_guard (xs ys : list T) (xd : T) : Prop :=
  length xs = length ys /\ (2 <= length xs)%nat /\ strictly_increasing Ops (scale Ops xd xs) = true.

(** no step of the stored abscissae compares x[i+1] <= x[i] *)
Definition stored_increasing (l : list T) : Prop :=
  forall i, (S i < length l)%nat -> nleb Ops (nth0 Ops l (S i)) (nth0 Ops l i) = false.

Lemma strictly_increasing_stored l : strictly_increasing Ops l = true <-> stored_increasing l.
Proof.
  induction l as [|a r IH]; [split; [intros _ i Hi; cbn in Hi; lia|reflexivity]|].
  destruct r as [|b r']; [split; [intros _ i Hi; cbn in Hi; lia|reflexivity]|].
  cbn [strictly_increasing]. split.
  - intros H i Hi. destruct (nleb Ops b a) eqn:E; [discriminate|].
    destruct i as [|i]; [exact E|]. apply (proj1 IH H i). cbn in *. lia.
  - intros H. pose proof (H 0%nat ltac:(cbn; lia)) as H0. unfold nth0 in H0. cbn [nth] in H0. rewrite H0.
    apply IH. intros i Hi. apply (H (S i)). cbn in *. lia.
Qed.

Lemma scale_length_any d (l : list T) : length (scale Ops d l) = length l.
Proof. unfold scale. destruct (ngtb Ops d (n0 Ops)); [apply map_length|reflexivity]. Qed.

(** x_dim not > 0 (the default -1, 0, NaN): no conversion, the test is on the abscissae as given *)
Lemma scale_off d (l : list T) : ngtb Ops d (n0 Ops) = false -> scale Ops d l = l.
Proof. intros H. unfold scale. now rewrite H. Qed.

Theorem construct_any xs ys xd fd :
  (ctor_guard xs ys xd ->
     construct Ops xs ys xd fd = Ok (build Ops (scale Ops xd xs) (scale Ops fd ys))) /\
  (~ ctor_guard xs ys xd -> construct Ops xs ys xd fd = Exit).
Proof.
  unfold construct, ctor_guard. split.
  - intros (Hlen & HN & Hinc). rewrite Hlen, Nat.eqb_refl. cbn [negb]. rewrite <- Hlen.
    destruct (Nat.ltb_spec (length xs) 2); [lia|]. cbv zeta. rewrite Hinc. reflexivity.
  - intros Hbad. destruct (Nat.eqb_spec (length xs) (length ys)) as [Hlen|]; [|reflexivity]. cbn [negb].
    destruct (Nat.ltb_spec (length xs) 2) as [|HN]; [reflexivity|]. cbv zeta.
    destruct (strictly_increasing Ops (scale Ops xd xs)) eqn:Hs; [|reflexivity].
    exfalso. apply Hbad. repeat split; auto.
Qed.

(** Ok exactly on the guard, Exit exactly off it (never OOB / Fuel); and every returned object: N points, N >= 2, equally many
    ordinates, and a stored table that passes the strict-increase test -- no premise on the multiplication *)
Theorem construct_any_iff xs ys xd fd :
  ((exists o, construct Ops xs ys xd fd = Ok o) <-> ctor_guard xs ys xd) /\
  (construct Ops xs ys xd fd = Exit <-> ~ ctor_guard xs ys xd) /\
  (forall o, construct Ops xs ys xd fd = Ok o ->
     o = build Ops (scale Ops xd xs) (scale Ops fd ys) /\
     iN o = length xs /\ length (ixs o) = iN o /\ length (iys o) = iN o /\ (2 <= iN o)%nat /\
     stored_increasing (ixs o)).
Proof.
  destruct (construct_any xs ys xd fd) as [A B].
  assert (D : ctor_guard xs ys xd \/ ~ ctor_guard xs ys xd).
  { unfold ctor_guard. destruct (Nat.eq_dec (length xs) (length ys)); [|right; tauto].
    destruct (le_lt_dec 2 (length xs)); [|right; intros (_ & ? & _); lia].
    destruct (strictly_increasing Ops (scale Ops xd xs)); [left; auto|right; intros (_ & _ & ?); discriminate]. }
  split; [|split].
  - split; [|intros G; eexists; exact (A G)].
    intros (o & E). destruct D as [G|G]; [exact G|]. rewrite (B G) in E. discriminate.
  - split; [|exact B]. intros E G. rewrite (A G) in E. discriminate.
  - intros o E. destruct D as [G|G]; [|rewrite (B G) in E; discriminate].
    rewrite (A G) in E. injection E as <-. destruct G as (Hlen & HN & Hinc).
    cbn [build iN ixs iys]. rewrite !scale_length_any. repeat split; auto.
    now apply strictly_increasing_stored.
Qed.
End CtorAny.

(** *** 2b. Over the reals the conversion neither merges nor separates abscissae: the guard is the one on the given abscissae *)
Lemma scale_increasing_inv d l : increasing (scale ROps d l) -> increasing l.
Proof.
  intros H i Hi. pose proof (H i ltac:(rewrite scale_length; exact Hi)) as Hs. rewrite !scale_nth in Hs.
  destruct (Rltb_spec 0 d); [|exact Hs]. apply Rmult_lt_reg_r with d; assumption.
Qed.

Lemma stored_increasing_R l : stored_increasing ROps l <-> increasing l.
Proof.
  unfold stored_increasing, increasing, nth0. cbn [nleb n0 ROps].
  split; intros H i Hi; specialize (H i Hi); destruct (Rleb_spec (nth (S i) l 0) (nth i l 0)); auto; try discriminate; lra.
Qed.

Lemma ctor_guard_R xs ys xd : ctor_guard ROps xs ys xd <-> acceptable_table xs ys.
Proof.
  unfold ctor_guard, acceptable_table. split; intros (Hlen & HN & H); repeat split; auto.
  - apply (scale_increasing_inv xd). now apply strictly_increasing_inv.
  - apply strictly_increasing_true. now apply scale_increasing.
Qed.

Theorem construct_complete xs ys xd fd :
  (acceptable_table xs ys ->
     construct ROps xs ys xd fd = Ok (tab (scale ROps xd xs) (scale ROps fd ys)) /\
     acceptable_table (scale ROps xd xs) (scale ROps fd ys)) /\
  (~ acceptable_table xs ys -> construct ROps xs ys xd fd = Exit).
Proof.
  destruct (construct_any ROps xs ys xd fd) as [A B]. split.
  - intros Hacc. split; [apply A; now apply ctor_guard_R|].
    destruct Hacc as (Hlen & HN & Hinc). repeat split; rewrite ?scale_length; auto. now apply scale_increasing.
  - intros Hbad. apply B. intros G. apply Hbad. now apply (ctor_guard_R xs ys xd).
Qed.

Lemma construct_inv xs ys xd fd o : construct ROps xs ys xd fd = Ok o ->
  acceptable_table xs ys /\ o = tab (scale ROps xd xs) (scale ROps fd ys).
Proof.
  intros H. destruct (construct_any_iff ROps xs ys xd fd) as (A & _ & C).
  split; [|exact (proj1 (C o H))]. apply (ctor_guard_R xs ys xd). apply A. now exists o.
Qed.

Lemma construct_complete_inv xs ys xd fd :
  (acceptable_table xs ys ->
     construct ROps xs ys xd fd = Ok (tab (scale ROps xd xs) (scale ROps fd ys)) /\
     acceptable_table (scale ROps xd xs) (scale ROps fd ys)) /\
  (~ acceptable_table xs ys -> construct ROps xs ys xd fd = Exit) /\
  (forall o, construct ROps xs ys xd fd = Ok o ->
     acceptable_table xs ys /\ o = tab (scale ROps xd xs) (scale ROps fd ys)).
Proof.
  destruct (construct_complete xs ys xd fd) as [A B]. split; [exact A|]. split; [exact B|].
  intros o. apply construct_inv.
Qed.

(** *** 2c. Non-vacuity.  A guard that holds with a unit factor; one that fails; and an arithmetic whose multiplication rounds
    (integers, a * b := a b / 10 rounded down): the abscissae 0, 10, 11, 20 are strictly increasing as given, x_dim = 6 sends 10 and
    11 onto 6, and the constructor exits -- with x_dim = -1 (no conversion) the same table is accepted. *)
Example ctor_guard_examples :
  ctor_guard ROps [0; 1; 3; 4] [0; 2; 1; 1] (6 / 10) /\ ~ ctor_guard ROps [0; 1; 1] [0; 2; 1] (6 / 10).
Proof.
  split.
  - apply ctor_guard_R. destruct valid_table_example as (H1 & H2 & H3). repeat split; auto. lia.
  - intros G. apply ctor_guard_R in G. destruct G as (_ & _ & H). specialize (H 1%nat ltac:(cbn; lia)). cbn in H. lra.
Qed.

Definition coarse_ops : NumOps Z := {|
  n0 := 0%Z; n1 := 1%Z;
  nadd := Z.add; nsub := Z.sub; nmul := fun a b => (a * b / 10)%Z; ndiv := Z.div;
  nneg := Z.opp; nabs := Z.abs; nsqrt := Z.sqrt;
  nltb := Z.ltb; nleb := Z.leb; neqb := Z.eqb;
  nofZ := fun k => k; nisnan := fun _ => false;
  nexp := fun a => a; nln := fun a => a; nlog10 := fun a => a; nsin := fun a => a; ncos := fun a => a; nacos := fun a => a;
  nfloor := fun a => a; nerf := fun a => a; npow := fun a _ => a; npowi := fun a _ => a;
  nlit := fun n d _ _ => (n / d)%Z; ntrunc := fun a => a |}.

Example rounding_multiplication_example :
  let xs := [0; 10; 11; 20]%Z in let ys := [0; 0; 0; 0]%Z in
  strictly_increasing coarse_ops xs = true /\
  construct coarse_ops xs ys 6%Z (-1)%Z = Exit /\
  (exists o, construct coarse_ops xs ys (-1)%Z (-1)%Z = Ok o /\ ixs o = xs).
Proof. cbv zeta. split; [reflexivity|]. split; [reflexivity|]. eexists. split; reflexivity. Qed.

(** the row constructor Interpolation(data, x_dim, f_dim) *)
Lemma split_rows_ok (data : list (list R)) : (forall r, In r data -> length r = 2%nat) ->
  split_rows data = Ok (map (fun r => nth 0 r 0) data, map (fun r => nth 1 r 0) data).
Proof.
  induction data as [|r rest IH]; intros H; [reflexivity|].
  assert (Hr : length r = 2%nat) by (apply H; now left).
  destruct r as [|x [|f [|z r']]]; try discriminate.
  cbn [split_rows]. rewrite IH by (intros r Hin; apply H; now right). reflexivity.
Qed.
Lemma split_rows_bad (data : list (list R)) : (exists r, In r data /\ length r <> 2%nat) -> split_rows data = Exit.
Proof.
  induction data as [|r rest IH]; intros (r0 & Hin & Hbad); [destruct Hin|].
  destruct (Nat.eq_dec (length r) 2) as [Hr|Hr].
  - destruct r as [|x [|f [|z r']]]; try discriminate. cbn [split_rows].
    rewrite IH; [reflexivity|]. destruct Hin as [<-|Hin]; [contradiction|]. exists r0. now split.
  - destruct r as [|x [|f [|z r']]]; try reflexivity. now contradiction Hr.
Qed.

Theorem construct_rows_complete (data : list (list R)) xd fd :
  ((forall r, In r data -> length r = 2%nat) ->
     construct_rows ROps data xd fd
     = construct ROps (map (fun r => nth 0 r 0) data) (map (fun r => nth 1 r 0) data) xd fd) /\
  ((exists r, In r data /\ length r <> 2%nat) -> construct_rows ROps data xd fd = Exit).
Proof.
  unfold construct_rows. split; intros H.
  - rewrite split_rows_ok by assumption. reflexivity.
  - rewrite split_rows_bad by assumption. reflexivity.
Qed.

Example construct_rows_example :
  construct_rows ROps [[0; 0]; [1; 2]; [3; 1]; [4; 1]] (-1) (-1) = Ok (tab [0; 1; 3; 4] [0; 2; 1; 1]).
Proof.
  destruct (construct_rows_complete [[0; 0]; [1; 2]; [3; 1]; [4; 1]] (-1) (-1)) as [A _].
  rewrite A by (intros r [<-|[<-|[<-|[<-|[]]]]]; reflexivity). cbn [map nth].
  destruct valid_table_example as (H1 & H2 & H3).
  destruct (construct_complete [0; 1; 3; 4] [0; 2; 1; 1] (-1) (-1)) as [B _].
  destruct B as [B _]; [repeat split; auto; lia|]. rewrite B. f_equal.
  unfold scale, ngtb. cbn [nltb n0 ROps]. destruct (Rltb_spec 0 (-1)); [lra|reflexivity].
Qed.

(** ** 3. Two-point tables (N = 2, accepted by the constructor, outside the property's quantifier): the chord *)
Section TwoPoint.
Variables x0 x1 y0 y1 : R.
Hypothesis H01 : x0 < x1.
Notation o2 := (tab [x0; x1] [y0; y1]).
Let slope := (y1 - y0) / (x1 - x0).

Lemma inc2 : increasing [x0; x1].
Proof. intros i Hi. cbn in Hi. destruct i as [|i]; [cbn; exact H01|lia]. Qed.

Theorem two_point_chord x : x0 <= x <= x1 ->
  interpolate ROps o2 x = Ok (y0 + slope * (x - x0)) /\ derivative ROps o2 x 1 = Ok slope.
Proof.
  intros Hx.
  destruct (locate_in_domain [x0; x1] [y0; y1] ltac:(cbn; lia) x Hx) as (j & E & Hj & _).
  cbn [length] in Hj. assert (j = 0%nat) by lia. subst j.
  rewrite (interpolate_located [x0; x1] [y0; y1] eq_refl x 0%nat E ltac:(cbn; lia)).
  rewrite (derivative_located [x0; x1] [y0; y1] eq_refl x 0%nat 1 E ltac:(cbn; lia)). cbn [Z.eqb Pos.eqb].
  unfold SEGf, SD1f, CA, CB, seg, sd1, ca, cb.
  rewrite !DYf_eq by (cbn; lia). cbn [length dyy Nat.eqb].
  rewrite Sf_eq, Hf_eq by (cbn; lia). cbn [nth]. fold slope.
  split; f_equal; field; lra.
Qed.
End TwoPoint.

(** ** 4. Every query the library answers: the domain and the 1 % zone at both ends *)
Section Zone.
Variables xs ys : list R.
Hypothesis HV : valid_table xs ys.
Notation N := (length xs).
Notation X i := (nth i xs 0).
Notation Y i := (nth i ys 0).
Notation o := (tab xs ys).
Let Hlen : length xs = length ys := proj1 HV.
Let HN : (3 <= N)%nat := proj1 (proj2 HV).
Let Hinc : increasing xs := proj2 (proj2 HV).
Let HN2 : (2 <= N)%nat. Proof. lia. Qed.
Definition tolL := 1 / 100 * (X 1 - X 0).
Definition tolR := 1 / 100 * (X (N - 1) - X (N - 2)).

Lemma tolL_pos : 0 < tolL.
Proof. unfold tolL. pose proof (Hinc 0%nat ltac:(lia)). lra. Qed.
Lemma tolR_pos : 0 < tolR.
Proof. unfold tolR. pose proof (Hinc (N - 2)%nat ltac:(lia)). replace (S (N - 2)) with (N - 1)%nat in H by lia. lra. Qed.

(** Locate is total: it answers exactly on (x_0 - tolL, x_{N-1} + tolR) and terminates the process elsewhere;
    the answer is always a segment of the table *)
Theorem locate_total x :
  (X 0 - tolL < x < X (N - 1) + tolR -> exists j, locate ROps o x = Ok j /\ (S j < N)%nat /\
       (x < X 0 -> j = 0%nat) /\ (X (N - 1) < x -> j = (N - 2)%nat) /\
       (X 0 <= x <= X (N - 1) -> X j <= x <= X (S j))) /\
  (~ (X 0 - tolL < x < X (N - 1) + tolR) -> locate ROps o x = Exit).
Proof.
  pose proof tolL_pos as TL. pose proof tolR_pos as TR.
  assert (H0N : X 0 < X (N - 1)) by (apply increasing_lt; auto; lia).
  destruct (locate_edge_zone xs ys x HV) as [ZL ZR]. fold tolL in ZL. fold tolR in ZR.
  split.
  - intros Hx. destruct (Rlt_le_dec x (X 0)) as [HL|HL].
    + exists 0%nat. destruct (ZL HL) as [A _]. split; [apply A; lra|]. repeat split; try lia; intros; lra.
    + destruct (Rlt_le_dec (X (N - 1)) x) as [HR|HR].
      * exists (N - 2)%nat. destruct (ZR HR) as [A _]. split; [apply A; lra|]. repeat split; try lia; intros; try lra.
      * destruct (locate_in_domain xs ys HN2 x (conj HL HR)) as (j & E & Hj & A & B).
        exists j. split; [exact E|]. split; [exact Hj|]. split; [intros; lra|]. split; [intros; lra|].
        intros _. split; [exact A|]. destruct B as [B|[_ B]]; lra.
  - intros Hx. destruct (Rlt_le_dec x (X 0)) as [HL|HL].
    + destruct (ZL HL) as [_ A]. apply A. destruct (Rle_lt_dec tolL (X 0 - x)); [assumption|exfalso; apply Hx; lra].
    + destruct (Rlt_le_dec (X (N - 1)) x) as [HR|HR].
      * destruct (ZR HR) as [_ A]. apply A. destruct (Rle_lt_dec tolR (x - X (N - 1))); [assumption|exfalso; apply Hx; lra].
      * exfalso. apply Hx. lra.
Qed.

Lemma locate_Ok_range x j : locate ROps o x = Ok j -> (S j < N)%nat /\ X 0 - tolL < x < X (N - 1) + tolR.
Proof.
  intros E. destruct (locate_total x) as [A B].
  destruct (Rlt_le_dec (X 0 - tolL) x) as [H1|H1]; [destruct (Rlt_le_dec x (X (N - 1) + tolR)) as [H2|H2]|].
  - destruct (A (conj H1 H2)) as (j' & E' & Hj & _). rewrite E in E'. injection E' as <-. split; [exact Hj|lra].
  - rewrite B in E by lra. discriminate.
  - rewrite B in E by lra. discriminate.
Qed.

(** the curve near the two ends: one polynomial on (x_0 - tolL, x_1) and one on (x_{N-2}, x_{N-1} + tolR) *)
Lemma curve_left_end t : X 0 - tolL < t < X 1 -> curve xs ys t = SEGf xs ys 0 t.
Proof.
  intros Ht. destruct (Rlt_le_dec t (X 0)) as [HL|HL].
  - destruct (locate_total t) as [A _]. destruct A as (j & E & Hj & J0 & _).
    { split; [lra|]. assert (X 0 < X (N - 1)) by (apply increasing_lt; auto; lia). pose proof tolR_pos. lra. }
    rewrite (J0 HL) in E. unfold curve. now rewrite (interpolate_located xs ys Hlen t 0%nat E ltac:(lia)).
  - apply (curve_on_segment xs ys HV 0%nat t); [lia|lra].
Qed.
Lemma curve_right_end t : X (N - 2) < t < X (N - 1) + tolR -> curve xs ys t = SEGf xs ys (N - 2) t.
Proof.
  intros Ht. destruct (Rlt_le_dec (X (N - 1)) t) as [HR|HR].
  - destruct (locate_total t) as [A _]. destruct A as (j & E & Hj & _ & J1 & _).
    { split; [|lra]. assert (X 0 <= X (N - 2)) by (apply increasing_le; auto; lia). pose proof tolL_pos. lra. }
    rewrite (J1 HR) in E. unfold curve. now rewrite (interpolate_located xs ys Hlen t (N - 2)%nat E ltac:(lia)).
  - apply (curve_on_segment xs ys HV (N - 2)%nat t); [lia|]. replace (S (N - 2)) with (N - 1)%nat by lia. lra.
Qed.

(** differentiability of the returned curve at EVERY point where the library answers (end knots and zone included),
    with Derivative(x,1) as the derivative *)
Theorem curve_differentiable_everywhere x : X 0 - tolL < x < X (N - 1) + tolR ->
  exists d, derivative ROps o x 1 = Ok d /\ is_derive (curve xs ys) x d.
Proof.
  intros Hx. pose proof tolL_pos as TL. pose proof tolR_pos as TR.
  assert (H01 : X 0 < X 1) by (apply Hinc; lia).
  assert (HN1 : X (N - 2) < X (N - 1)).
  { pose proof (Hinc (N - 2)%nat ltac:(lia)) as H. now replace (S (N - 2)) with (N - 1)%nat in H by lia. }
  destruct (Rlt_le_dec (X 0) x) as [HL|HL]; [destruct (Rlt_le_dec x (X (N - 1))) as [HR|HR]|].
  - now apply curve_differentiable.
  - (* right end knot and right zone *)
    destruct (locate_total x) as [A _]. destruct (A Hx) as (j & E & Hj & _ & J1 & J2).
    assert (j = (N - 2)%nat).
    { destruct (Rle_lt_or_eq_dec _ _ HR) as [Hgt|Heq]; [now apply J1|].
      subst x. rewrite (locate_last xs ys Hinc HN2) in E. now injection E as <-. }
    subst j. exists (SD1f xs ys (N - 2) x). split.
    { rewrite (derivative_located xs ys Hlen x (N - 2)%nat 1 E Hj). reflexivity. }
    apply (is_derive_ext_loc (SEGf xs ys (N - 2))); [|apply seg_is_derive].
    apply (locally_interval _ x (X (N - 2)) (X (N - 1) + tolR)); cbn; try lra.
    intros t Ht1 Ht2. symmetry. apply curve_right_end. lra.
  - (* left end knot and left zone *)
    destruct (locate_total x) as [A _]. destruct (A Hx) as (j & E & Hj & J0 & _ & J2).
    assert (j = 0%nat).
    { destruct (Rle_lt_or_eq_dec _ _ HL) as [Hlt|Heq]; [now apply J0|].
      subst x. rewrite (locate_unique xs ys Hinc HN2 0%nat (X 0)) in E by (try lia; lra). now injection E as <-. }
    subst j. exists (SD1f xs ys 0 x). split.
    { rewrite (derivative_located xs ys Hlen x 0%nat 1 E Hj). reflexivity. }
    apply (is_derive_ext_loc (SEGf xs ys 0)); [|apply seg_is_derive].
    apply (locally_interval _ x (X 0 - tolL) (X 1)); cbn; try lra.
    intros t Ht1 Ht2. symmetry. apply curve_left_end. lra.
Qed.

Theorem curve_continuous_everywhere x : X 0 - tolL < x < X (N - 1) + tolR -> continuity_pt (curve xs ys) x.
Proof.
  intros Hx. destruct (curve_differentiable_everywhere x Hx) as (d & _ & D).
  apply derivable_continuous_pt. exists d. now apply is_derive_Reals.
Qed.

(** straight-line and parabola data: exact wherever the library answers, value and slope *)
Section LineAll.
Variables m q : R.
Hypothesis Hline : forall i, (i < N)%nat -> Y i = m * X i + q.
Theorem linear_exact_everywhere x :
  (X 0 - tolL < x < X (N - 1) + tolR ->
     interpolate ROps o x = Ok (m * x + q) /\ derivative ROps o x 1 = Ok m /\
     derivative ROps o x 2 = Ok 0 /\ derivative ROps o x 3 = Ok 0) /\
  (~ (X 0 - tolL < x < X (N - 1) + tolR) -> interpolate ROps o x = Exit).
Proof.
  split.
  - intros Hx. destruct (locate_total x) as [A _]. destruct (A Hx) as (j & E & Hj & _).
    rewrite (interpolate_located xs ys Hlen x j E Hj).
    rewrite !(derivative_located xs ys Hlen x j _ E Hj). cbn [Z.eqb Pos.eqb].
    unfold SEGf, SD1f, SD2f, SD3f, CA, CB, seg, sd1, sd2, sd3, ca, cb.
    rewrite !(line_DY xs ys HV m q Hline), (line_S xs ys HV m q Hline) by lia. rewrite Hline by lia.
    pose proof (Hf_pos xs ys HV j Hj).
    repeat split; f_equal; field; lra.
  - intros Hx. destruct (locate_total x) as [_ B]. unfold interpolate. rewrite (B Hx). reflexivity.
Qed.
End LineAll.

Section ParabolaAll.
Variables al be ga : R.
Hypothesis Hpar : forall i, (i < N)%nat -> Y i = al * X i ^ 2 + be * X i + ga.
Hypothesis Hinactive : forall i, (i < N)%nat -> DYf xs ys i = Pf xs ys i.
Theorem parabola_exact_everywhere x : X 0 - tolL < x < X (N - 1) + tolR ->
  interpolate ROps o x = Ok (al * x ^ 2 + be * x + ga) /\ derivative ROps o x 1 = Ok (2 * al * x + be) /\
  derivative ROps o x 2 = Ok (2 * al) /\ derivative ROps o x 3 = Ok 0.
Proof.
  intros Hx. destruct (locate_total x) as [A _]. destruct (A Hx) as (j & E & Hj & _).
  rewrite (interpolate_located xs ys Hlen x j E Hj).
  rewrite !(derivative_located xs ys Hlen x j _ E Hj). cbn [Z.eqb Pos.eqb].
  unfold SEGf, SD1f, SD2f, SD3f, CA, CB, seg, sd1, sd2, sd3, ca, cb.
  rewrite !Hinactive by lia. rewrite !(par_P xs ys HV al be ga Hpar), (par_S xs ys HV al be ga Hpar) by lia.
  rewrite (Hf_eq xs j Hj). rewrite Hpar by lia.
  pose proof (Hinc j Hj).
  repeat split; f_equal; field; lra.
Qed.
End ParabolaAll.
End Zone.

(** ** 4b. All reported derivatives at the two ends: on (x_0 - tolL, x_1) and on (x_{N-2}, x_{N-1} + tolR) the returned curve
    is one polynomial, so at the end knots and in the zone Derivative(x,k) is the k-th derivative of the curve, all k >= 1 *)
Section ZoneDerivatives.
Variables xs ys : list R.
Hypothesis HV : valid_table xs ys.
Notation N := (length xs).
Notation X i := (nth i xs 0).
Notation Y i := (nth i ys 0).
Notation o := (tab xs ys).
Let Hlen : length xs = length ys := proj1 HV.
Let HN : (3 <= N)%nat := proj1 (proj2 HV).
Let Hinc : increasing xs := proj2 (proj2 HV).
Let HN2 : (2 <= N)%nat. Proof. lia. Qed.

Lemma derivative_seg_dn j x k : locate ROps o x = Ok j -> (S j < N)%nat ->
  derivative ROps o x (Z.of_nat k) = Ok (seg_dn (CA xs ys j) (CB xs ys j) (DYf xs ys j) (Y j) (X j) k x).
Proof.
  intros E Hj. rewrite (derivative_located xs ys Hlen x j _ E Hj).
  f_equal. destruct k as [|[|[|[|k]]]]; try reflexivity.
  destruct (Z.eqb_spec (Z.of_nat (S (S (S (S k))))) 0); [lia|].
  destruct (Z.eqb_spec (Z.of_nat (S (S (S (S k))))) 1); [lia|].
  destruct (Z.eqb_spec (Z.of_nat (S (S (S (S k))))) 2); [lia|].
  destruct (Z.eqb_spec (Z.of_nat (S (S (S (S k))))) 3); [lia|]. reflexivity.
Qed.

Theorem derivatives_at_ends x k :
  (X 0 - tolL xs < x < X 1 \/ X (N - 2) < x < X (N - 1) + tolR xs) ->
  exists v, derivative ROps o x (Z.of_nat (S k)) = Ok v /\ is_derive_n (curve xs ys) (S k) x v.
Proof.
  pose proof (tolL_pos xs ys HV) as TL. pose proof (tolR_pos xs ys HV) as TR.
  assert (H01 : X 0 < X 1) by (apply Hinc; lia).
  assert (HN1 : X (N - 2) < X (N - 1)).
  { pose proof (Hinc (N - 2)%nat ltac:(lia)) as H. now replace (S (N - 2)) with (N - 1)%nat in H by lia. }
  assert (H1N : X 1 <= X (N - 1)) by (apply increasing_le; auto; lia).
  assert (H0N : X 0 <= X (N - 2)) by (apply increasing_le; auto; lia).
  intros [Hx|Hx].
  - assert (E : locate ROps o x = Ok 0%nat).
    { destruct (Rlt_le_dec x (X 0)) as [HL|HL].
      - destruct (locate_total xs ys HV x) as [A _]. destruct A as (j & E & _ & J0 & _); [lra|]. now rewrite (J0 HL) in E.
      - apply (locate_unique xs ys Hinc HN2 0%nat x); [lia|lra]. }
    eexists. split; [apply (derivative_seg_dn 0%nat x (S k) E); lia|].
    apply (is_derive_n_ext_loc (SEGf xs ys 0)); [|apply is_derive_n_seg].
    apply (locally_interval _ x (X 0 - tolL xs) (X 1)); cbn; try lra.
    intros t Ht1 Ht2. symmetry. apply (curve_left_end xs ys HV). lra.
  - assert (E : locate ROps o x = Ok (N - 2)%nat).
    { destruct (Rlt_le_dec (X (N - 1)) x) as [HR|HR].
      - destruct (locate_total xs ys HV x) as [A _]. destruct A as (j & E & _ & _ & J1 & _); [lra|]. now rewrite (J1 HR) in E.
      - destruct (Rle_lt_or_eq_dec _ _ HR) as [Hlt|Heq].
        + apply (locate_unique xs ys Hinc HN2 (N - 2)%nat x); [lia|]. replace (S (N - 2)) with (N - 1)%nat by lia. lra.
        + subst x. now apply locate_last. }
    eexists. split; [apply (derivative_seg_dn (N - 2)%nat x (S k) E); lia|].
    apply (is_derive_n_ext_loc (SEGf xs ys (N - 2))); [|apply is_derive_n_seg].
    apply (locally_interval _ x (X (N - 2)) (X (N - 1) + tolR xs)); cbn; try lra.
    intros t Ht1 Ht2. symmetry. apply (curve_right_end xs ys HV). lra.
Qed.
End ZoneDerivatives.

(** ** 5. "introduces no extremum that is not in the data": no strict local extremum of the returned curve lies
    strictly inside a segment *)
Section NoExtremum.
Variables xs ys : list R.
Hypothesis HV : valid_table xs ys.
Notation N := (length xs).
Notation X i := (nth i xs 0).
Notation Y i := (nth i ys 0).

Definition strict_local_max (f : R -> R) (x : R) : Prop :=
  exists d, 0 < d /\ forall t, t <> x -> Rabs (t - x) < d -> f t < f x.
Definition strict_local_min (f : R -> R) (x : R) : Prop :=
  exists d, 0 < d /\ forall t, t <> x -> Rabs (t - x) < d -> f x < f t.

Lemma curve_monotone_segment j p q : (S j < N)%nat -> X j <= p -> p <= q -> q <= X (S j) ->
  (Y j <= Y (S j) -> curve xs ys p <= curve xs ys q) /\ (Y (S j) <= Y j -> curve xs ys q <= curve xs ys p).
Proof.
  intros Hj Hp Hpq Hq.
  destruct (monotone_on_segment xs ys HV j p q Hj Hp Hpq Hq) as (fp & fq & Ep & Eq & M).
  unfold curve. rewrite Ep, Eq. exact M.
Qed.

Theorem no_interior_strict_extremum j x : (S j < N)%nat -> X j < x < X (S j) ->
  ~ strict_local_max (curve xs ys) x /\ ~ strict_local_min (curve xs ys) x.
Proof.
  intros Hj Hx.
  (* a point to the right and one to the left of x, inside the segment and within distance d *)
  assert (R : forall d, 0 < d -> exists t, x < t /\ t <= X (S j) /\ Rabs (t - x) < d).
  { intros d Hd. exists (x + Rmin d (X (S j) - x) / 2).
    assert (0 < Rmin d (X (S j) - x)) by (apply Rmin_glb_lt; lra).
    pose proof (Rmin_l d (X (S j) - x)). pose proof (Rmin_r d (X (S j) - x)).
    repeat split; try lra. rewrite Rabs_pos_eq; lra. }
  assert (L : forall d, 0 < d -> exists t, t < x /\ X j <= t /\ Rabs (t - x) < d).
  { intros d Hd. exists (x - Rmin d (x - X j) / 2).
    assert (0 < Rmin d (x - X j)) by (apply Rmin_glb_lt; lra).
    pose proof (Rmin_l d (x - X j)). pose proof (Rmin_r d (x - X j)).
    repeat split; try lra. rewrite Rabs_left; lra. }
  destruct (Rle_lt_dec (Y j) (Y (S j))) as [Hup|Hdown].
  - split; intros (d & Hd & Hloc).
    + destruct (R d Hd) as (t & T1 & T2 & T3). pose proof (Hloc t ltac:(lra) T3).
      destruct (curve_monotone_segment j x t Hj ltac:(lra) ltac:(lra) ltac:(lra)) as [M _]. pose proof (M Hup). lra.
    + destruct (L d Hd) as (t & T1 & T2 & T3). pose proof (Hloc t ltac:(lra) T3).
      destruct (curve_monotone_segment j t x Hj ltac:(lra) ltac:(lra) ltac:(lra)) as [M _]. pose proof (M Hup). lra.
  - split; intros (d & Hd & Hloc).
    + destruct (L d Hd) as (t & T1 & T2 & T3). pose proof (Hloc t ltac:(lra) T3).
      destruct (curve_monotone_segment j t x Hj ltac:(lra) ltac:(lra) ltac:(lra)) as [_ M]. pose proof (M ltac:(lra)). lra.
    + destruct (R d Hd) as (t & T1 & T2 & T3). pose proof (Hloc t ltac:(lra) T3).
      destruct (curve_monotone_segment j x t Hj ltac:(lra) ltac:(lra) ltac:(lra)) as [_ M]. pose proof (M ltac:(lra)). lra.
Qed.
End NoExtremum.

(** ** 6. Derivative(x, 0) is Interpolate(x): for every object, every argument and every arithmetic (doubles included) *)
Theorem derivative_order_0 {T : Type} (Ops : NumOps T) (ob : itab) (x : T) :
  derivative Ops ob x 0 = interpolate Ops ob x.
Proof.
  unfold derivative. cbn [Z.eqb]. unfold interpolate.
  destruct (locate Ops ob x) as [j| | |]; cbn [rbind]; try reflexivity.
  destruct (segment ob j) as [sg| | |]; cbn [rbind]; reflexivity.
Qed.

(** a point of [x_a, x_b] lies in a closed segment between them (no hypothesis on the list) *)
Lemma segment_of_gen (l : list R) a b x : (a < b)%nat -> nth a l 0 <= x <= nth b l 0 ->
  exists j, (a <= j < b)%nat /\ nth j l 0 <= x <= nth (S j) l 0.
Proof.
  intros Hab [Hlo Hhi]. induction b as [|b IH]; [lia|].
  destruct (Rle_lt_dec (nth b l 0) x) as [Hge|Hlt].
  - exists b. split; [lia|split; assumption].
  - destruct (Nat.eq_dec a b) as [->|Hne]; [lra|].
    destruct IH as (j & Hj & Hx); [lia|lra|]. exists j. split; [lia|exact Hx].
Qed.

(** ** Non-vacuity of the hypotheses used above *)
Example run_example : (* the run 1..3 of the example table is nonincreasing (2, 1, 1), the run 0..1 nondecreasing *)
  valid_table [0; 1; 3; 4] [0; 2; 1; 1] /\
  (forall i, (1 <= i < 3)%nat -> nth (S i) [0; 2; 1; 1] 0 <= nth i [0; 2; 1; 1] 0) /\
  (forall i, (0 <= i < 1)%nat -> nth i [0; 2; 1; 1] 0 <= nth (S i) [0; 2; 1; 1] 0).
Proof.
  split; [exact valid_table_example|]. split; intros i Hi.
  - destruct i as [|[|[|i]]]; cbn; try lra; lia.
  - destruct i as [|i]; cbn; try lra; lia.
Qed.

Example acceptable_examples :
  acceptable_table [0; 1] [5; 7] /\ ~ acceptable_table [0; 0] [5; 7] /\ ~ acceptable_table [0; 1] [5] /\ ~ acceptable_table [0] [5].
Proof.
  split; [|split; [|split]].
  - repeat split; cbn; try lia. intros i Hi. cbn in Hi. destruct i as [|i]; cbn; [lra|lia].
  - intros (_ & _ & H). specialize (H 0%nat ltac:(cbn; lia)). cbn in H. lra.
  - intros (H & _). discriminate.
  - intros (_ & H & _). cbn in H. lia.
Qed.

Example zone_example : (* a query in the left 1 % zone and one in the right zone of the example table *)
  valid_table [0; 1; 3; 4] [0; 2; 1; 1] /\
  nth 0 [0; 1; 3; 4] 0 - tolL [0; 1; 3; 4] < -1 / 200 < nth 0 [0; 1; 3; 4] 0 /\
  nth 3 [0; 1; 3; 4] 0 < 4 + 1 / 200 < nth (length [0; 1; 3; 4] - 1) [0; 1; 3; 4] 0 + tolR [0; 1; 3; 4].
Proof. split; [exact valid_table_example|]. unfold tolL, tolR. cbn. lra. Qed.

Example line_example : valid_table [0; 1; 3] [1; 3; 7] /\
  forall i, (i < length [0; 1; 3])%nat -> nth i [1; 3; 7] 0 = 2 * nth i [0; 1; 3] 0 + 1.
Proof.
  split.
  - repeat split; cbn; try lia. intros i Hi. cbn in Hi. destruct i as [|[|i]]; cbn; try lra; lia.
  - intros i Hi. cbn in Hi. destruct i as [|[|[|i]]]; cbn; try lra; lia.
Qed.
