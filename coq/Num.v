(** * Num: the number-type interface every model is written against.

    One Gallina term per modelled C++ function, polymorphic in [NumOps T].  Instances:
    - [ROps] (file NumR.v): Coq's real numbers; the theorems are stated about this instance;
    - any abstract [T] with order laws (file OrdLaws.v): theorems that use no arithmetic law,
      hence hold verbatim for IEEE doubles;
    - OCaml's [float], obtained by extraction of the polymorphic term and passing the record
      of float primitives (ocaml/conv.inc): the executable instance used by the correspondence check. *)
From Coq Require Import ZArith List Bool.
Import ListNotations.

Record NumOps (T : Type) := mkNumOps {
  n0 : T; n1 : T;
  nadd : T -> T -> T; nsub : T -> T -> T; nmul : T -> T -> T; ndiv : T -> T -> T;
  nneg : T -> T; nabs : T -> T; nsqrt : T -> T;
  nltb : T -> T -> bool; nleb : T -> T -> bool; neqb : T -> T -> bool;
  nofZ : Z -> T;
  nisnan : T -> bool;
  nexp : T -> T; nln : T -> T; nlog10 : T -> T; nsin : T -> T; ncos : T -> T; nacos : T -> T;
  nfloor : T -> T; nerf : T -> T;
  npow : T -> T -> T;
  (* pow(x, k) for an exponent that is an integer-valued double in the source *)
  npowi : T -> Z -> T;
  (* a decimal literal of the C++ source: exact value num/den, nearest double m * 2^e *)
  nlit : Z -> Z -> Z -> Z -> T;
  (* truncation towards zero of a value to an integer, C++ int(x) *)
  ntrunc : T -> Z
}.
Arguments n0 {T}. Arguments n1 {T}. Arguments nadd {T}. Arguments nsub {T}. Arguments nmul {T}.
Arguments ndiv {T}. Arguments nneg {T}. Arguments nabs {T}. Arguments nsqrt {T}. Arguments nltb {T}.
Arguments nleb {T}. Arguments neqb {T}. Arguments nofZ {T}. Arguments nisnan {T}. Arguments nexp {T}.
Arguments nln {T}. Arguments nlog10 {T}. Arguments nsin {T}. Arguments ncos {T}. Arguments nacos {T}.
Arguments nfloor {T}. Arguments nerf {T}. Arguments npow {T}. Arguments npowi {T}. Arguments nlit {T}. Arguments ntrunc {T}.

(** Outcome of a modelled call: the C++ code either returns, terminates the process through one of
    its guards ([Exit], libphysica prints a diagnostic and calls std::exit(EXIT_FAILURE)), would read
    or write outside a container ([OOB]: never happens in a correct implementation; theorems exclude
    it), or exhausts the model's fuel ([Fuel]: the real loop would still be running). *)
Inductive res (A : Type) : Type :=
| Ok (a : A)
| Exit
| OOB
| Fuel.
Arguments Ok {A}. Arguments Exit {A}. Arguments OOB {A}. Arguments Fuel {A}.

Definition rbind {A B} (x : res A) (f : A -> res B) : res B :=
  match x with Ok a => f a | Exit => Exit | OOB => OOB | Fuel => Fuel end.
Definition rmap {A B} (f : A -> B) (x : res A) : res B := rbind x (fun a => Ok (f a)).

Declare Scope res_scope.
Delimit Scope res_scope with res.
Notation "'let*' x ':=' c1 'in' c2" := (rbind c1 (fun x => c2))
  (at level 61, x pattern, c1 at next level, right associativity) : res_scope.

(** Checked container access: [OOB] when the C++ code would index outside the vector. *)
Definition get {A} (l : list A) (i : nat) : res A :=
  match nth_error l i with Some a => Ok a | None => OOB end.
Definition getZ {A} (l : list A) (i : Z) : res A :=
  if (i <? 0)%Z then OOB else get l (Z.to_nat i).

Section Derived.
Context {T : Type} (Ops : NumOps T).
(** std::min(a,b) = (b < a) ? b : a   and   std::max(a,b) = (a < b) ? b : a *)
Definition nmin (a b : T) : T := if nltb Ops b a then b else a.
Definition nmax (a b : T) : T := if nltb Ops a b then b else a.
Definition ngtb (a b : T) : bool := nltb Ops b a.
Definition ngeb (a b : T) : bool := nleb Ops b a.
Definition nneb (a b : T) : bool := negb (neqb Ops a b).
(** libphysica::Sign(double): 1, 0 or -1 as an int *)
Definition sign1 (x : T) : Z :=
  if ngtb x (n0 Ops) then 1%Z else if neqb Ops x (n0 Ops) then 0%Z else (-1)%Z.
(** libphysica::Sign(double x, double y): x if Sign(x)==Sign(y), else -1.0*x *)
Definition sign2 (x y : T) : T :=
  if Z.eqb (sign1 x) (sign1 y) then x else nmul Ops (nneg Ops (n1 Ops)) x.
(** small decimal literal num/den with |num|,|den| < 2^53: the correctly rounded quotient is the literal *)
Definition ndec (num den : Z) : T := ndiv Ops (nofZ Ops num) (nofZ Ops den).
Definition nth0 (l : list T) (i : nat) : T := nth i l (n0 Ops).
End Derived.
