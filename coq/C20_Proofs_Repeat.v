(** C20 — sessions that make the same block of calls many times over (sixth pass): from the second time on every
    repetition answers the same and leaves the same files, for any block, any number of repetitions, every number type. *)
From Coq Require Import List ZArith Bool Arith Lia.
From LP Require Import Num C20_Model C20_Proofs_Session.
Import ListNotations.

Section RepProofs.
Context {T : Type} (Ops : NumOps T) (fmt6 : T -> T).
Local Notation step := (io_step Ops fmt6).
Local Notation run := (io_run Ops fmt6).

(** two file systems holding the same file at every path *)
Definition fs_eq (fs gs : @fsys T) : Prop := forall p, fs_get fs p = fs_get gs p.

Lemma fs_eq_put fs gs q f : fs_eq fs gs -> fs_eq (fs_put fs q f) (fs_put gs q f).
Proof. intros H p. cbn. destruct (Nat.eqb p q); [reflexivity|apply H]. Qed.

(** a call sees the file system only through fs_get *)
Lemma step_fs_eq fs gs o fs' r :
  fs_eq fs gs -> step fs o = Ok (fs', r) -> exists gs', step gs o = Ok (gs', r) /\ fs_eq fs' gs'.
Proof.
  intros E. destruct o; cbn; intros H.
  - inversion H; subst. eexists; split; [reflexivity|apply fs_eq_put, E].
  - destruct (export_table Ops fmt6 header data dims); cbn in *; try discriminate. inversion H; subst. eexists; split; [reflexivity|apply fs_eq_put, E].
  - destruct (export_function_list Ops fmt6 header func xs dims); cbn in *; try discriminate. inversion H; subst. eexists; split; [reflexivity|apply fs_eq_put, E].
  - destruct (export_function_range Ops fmt6 header func xmin xmax steps dims logarithmic); cbn in *; try discriminate. inversion H; subst. eexists; split; [reflexivity|apply fs_eq_put, E].
  - rewrite <- (E p). destruct (import_list Ops (fs_get fs p) dim ignored); cbn in *; try discriminate. inversion H; subst. eexists; split; [reflexivity|exact E].
  - rewrite <- (E p). destruct (import_table Ops (fs_get fs p) dims ignored); cbn in *; try discriminate. inversion H; subst. eexists; split; [reflexivity|exact E].
  - rewrite <- (E p). inversion H; subst. eexists; split; [reflexivity|exact E].
  - rewrite <- (E p). inversion H; subst. eexists; split; [reflexivity|exact E].
Qed.

Lemma run_fs_eq ops : forall fs gs fs' outs,
  fs_eq fs gs -> run fs ops = Ok (fs', outs) -> exists gs', run gs ops = Ok (gs', outs) /\ fs_eq fs' gs'.
Proof.
  induction ops as [|o tl IH]; cbn; intros fs gs fs' outs E H.
  - inversion H; subst. eexists; split; [reflexivity|exact E].
  - destruct (step fs o) as [[fs1 r]| | |] eqn:S1; cbn in H; try discriminate.
    destruct (run fs1 tl) as [[fs2 outs2]| | |] eqn:R1; cbn in H; try discriminate.
    inversion H; subst.
    destruct (step_fs_eq _ _ _ _ _ E S1) as [gs1 [S2 E1]].
    destruct (IH _ _ _ _ E1 R1) as [gs2 [R2 E2]].
    rewrite S2. cbn. rewrite R2. cbn. eexists; split; [reflexivity|exact E2].
Qed.

(** what a call writes does not depend on what the file system held: two runs of the same call from ANY two file systems
    leave the same file at the path written *)
Lemma step_written_same fs gs o fs' gs' r r' p :
  step fs o = Ok (fs', r) -> step gs o = Ok (gs', r') ->
  (writes o = Some p \/ fs_get fs p = fs_get gs p) -> fs_get fs' p = fs_get gs' p.
Proof.
  assert (P : forall q f, (Some q = Some p \/ fs_get fs p = fs_get gs p) -> fs_get (fs_put fs q f) p = fs_get (fs_put gs q f) p).
  { intros q f [W|W]; cbn.
    - inversion W; subst. rewrite Nat.eqb_refl. reflexivity.
    - destruct (Nat.eqb p q); [reflexivity|exact W]. }
  destruct o; cbn; intros H1 H2 W.
  - inversion H1; inversion H2; subst. apply P, W.
  - destruct (export_table Ops fmt6 header data dims); cbn in *; try discriminate. inversion H1; inversion H2; subst. apply P, W.
  - destruct (export_function_list Ops fmt6 header func xs dims); cbn in *; try discriminate. inversion H1; inversion H2; subst. apply P, W.
  - destruct (export_function_range Ops fmt6 header func xmin xmax steps dims logarithmic); cbn in *; try discriminate. inversion H1; inversion H2; subst. apply P, W.
  - destruct W as [W|W]; [discriminate|].
    destruct (import_list Ops (fs_get fs p0) dim ignored); destruct (import_list Ops (fs_get gs p0) dim ignored); cbn in *; try discriminate. inversion H1; inversion H2; subst. exact W.
  - destruct W as [W|W]; [discriminate|].
    destruct (import_table Ops (fs_get fs p0) dims ignored); destruct (import_table Ops (fs_get gs p0) dims ignored); cbn in *; try discriminate. inversion H1; inversion H2; subst. exact W.
  - destruct W as [W|W]; [discriminate|]. inversion H1; inversion H2; subst. exact W.
  - destruct W as [W|W]; [discriminate|]. inversion H1; inversion H2; subst. exact W.
Qed.

Lemma run_written_same ops : forall fs gs fs' gs' outs outs' p,
  run fs ops = Ok (fs', outs) -> run gs ops = Ok (gs', outs') ->
  (Exists (fun o => writes o = Some p) ops \/ fs_get fs p = fs_get gs p) -> fs_get fs' p = fs_get gs' p.
Proof.
  induction ops as [|o tl IH]; cbn; intros fs gs fs' gs' outs outs' p H1 H2 W.
  - inversion H1; inversion H2; subst. destruct W as [W|W]; [inversion W|exact W].
  - destruct (step fs o) as [[fs1 r1]| | |] eqn:S1; cbn in H1; try discriminate.
    destruct (run fs1 tl) as [[fs2 o2]| | |] eqn:R1; cbn in H1; try discriminate.
    destruct (step gs o) as [[gs1 r1']| | |] eqn:S2; cbn in H2; try discriminate.
    destruct (run gs1 tl) as [[gs2 o2']| | |] eqn:R2; cbn in H2; try discriminate.
    inversion H1; inversion H2; subst.
    eapply IH; [exact R1|exact R2|].
    destruct W as [W|W].
    + inversion W; subst.
      * right. eapply step_written_same; [exact S1|exact S2|left; assumption].
      * left; assumption.
    + right. eapply step_written_same; [exact S1|exact S2|right; exact W].
Qed.

Lemma writes_dec (ops : list (@io_op T)) p :
  Exists (fun o => writes o = Some p) ops \/ Forall (fun o => writes o <> Some p) ops.
Proof.
  induction ops as [|o tl IH].
  - right; constructor.
  - destruct IH as [IH|IH]; [left; constructor 2; exact IH|].
    destruct (writes o) as [q|] eqn:W.
    + destruct (Nat.eq_dec q p) as [->|N].
      * left; constructor 1; exact W.
      * right; constructor; [rewrite W; congruence|exact IH].
    + right; constructor; [rewrite W; discriminate|exact IH].
Qed.

(** a block of calls made a second time returns the file system to what the first time left *)
Lemma second_time_same_files block fs fs1 outs1 fs2 outs2 :
  run fs block = Ok (fs1, outs1) -> run fs1 block = Ok (fs2, outs2) -> fs_eq fs2 fs1.
Proof.
  intros H1 H2 p. symmetry.
  eapply run_written_same; [exact H1|exact H2|].
  destruct (writes_dec block p) as [W|W]; [left; exact W|right].
  symmetry. eapply run_preserves; eauto.
Qed.

Fixpoint times {A} (n : nat) (l : list A) : list A := match n with O => [] | S k => l ++ times k l end.

(** REPETITION.  A block of calls (exports, imports, line counts, File_Exists; any paths) is made in a process, and then a
    second time, neither terminating the process.  Then the block can be made any number n of further times: the process is
    never terminated, every repetition gives exactly the answers [outs2] of the second one, and the files stay what the
    first time left.  (The first time may answer differently: it sees the files the process started with.) *)
Theorem session_repetition block fs fs1 outs1 fs2 outs2 :
  run fs block = Ok (fs1, outs1) -> run fs1 block = Ok (fs2, outs2) ->
  forall n, exists fsn, run fs (block ++ times n block) = Ok (fsn, outs1 ++ times n outs2) /\ fs_eq fsn fs1.
Proof.
  intros H1 H2 n.
  assert (E21 : fs_eq fs2 fs1) by (eapply second_time_same_files; eauto).
  assert (R : forall n gs, fs_eq fs1 gs -> exists gsn, run gs (times n block) = Ok (gsn, times n outs2) /\ fs_eq gsn fs1).
  { clear n. induction n as [|n IH]; intros gs E; cbn [times].
    - eexists; split; [reflexivity|]. intros p; symmetry; apply E.
    - destruct (run_fs_eq block fs1 gs fs2 outs2 E H2) as [gs2 [R2 E2]].
      destruct (IH gs2) as [gsn [Rn En]].
      { intros p. rewrite <- (E2 p). symmetry. apply E21. }
      rewrite (run_app Ops fmt6 block _ gs gs2 outs2 R2). rewrite Rn. cbn.
      eexists; split; [reflexivity|exact En]. }
  destruct (R n fs1 (fun p => eq_refl)) as [fsn [Rn En]].
  rewrite (run_app Ops fmt6 block _ fs fs1 outs1 H1). rewrite Rn. cbn.
  eexists; split; [reflexivity|exact En].
Qed.
End RepProofs.

(** non-vacuity (reals): the block File_Exists(0), Export_List(0, one header line, no data), Count_Lines(0).  The first time
    File_Exists answers false, the second time true; both times the process goes on — the premises of session_repetition. *)
From Coq Require Import Reals.
From LP Require Import NumR.
Definition repetition_example_block : list (@io_op R) := [OFileExists 0; OExportList 0 [[Word]] [] 1%R; OCountLines 0].
Definition repetition_example_stmt : Prop :=
  exists fs1 fs2,
    io_run ROps (fun y => y) [] repetition_example_block = Ok (fs1, [RBool false; RUnit; RCount 1]) /\
    io_run ROps (fun y => y) fs1 repetition_example_block = Ok (fs2, [RBool true; RUnit; RCount 1]).
Lemma repetition_example : repetition_example_stmt.
Proof. do 2 eexists. split; reflexivity. Qed.
