(** C05 — property theorems only.  Each is closed by [exact] of a lemma proved in C05_Proofs*.v.
    Model: coq/C05_Model.v (+ C04_Model.v), the term that is extracted and run against libphysica.
    [F] = any field (MathComp [fieldType]); [FOps F absF sqrtF ltF leF] = the model's operations instantiated
    with the field operations, fabs / sqrt / < / <= arbitrary (the soundness theorems hold for every
    pivoting rule); [mx n n M] = the n x n MathComp matrix of the entries of M; [\det] = MathComp's
    determinant (Leibniz formula). *)
From mathcomp Require Import all_ssreflect all_fingroup all_algebra.
From LP Require Import Num C04_Model C05_Model C05_Model2 C05_Proofs_Lbl C04_Proofs_Struct C04_Proofs_Laws C05_Proofs C05_Proofs_Complete C05_Proofs_Seq C05_Proofs_Seq2 C05_Proofs_Orth C05_Proofs_Round C05_Proofs_Pivot C05_Proofs_Round2 C05_Proofs_SwapHist.
Import Order.TTheory GRing.Theory Num.Theory.
Local Open Scope ring_scope.

Section AnyField.
Variable F : fieldType.
Variables (absF sqrtF : F -> F) (ltF leF : F -> F -> bool).
Local Notation Ops := (FOps absF sqrtF ltF leF).
Local Notation ment := (ment Ops).
Local Notation mx := (@mx_of F (fun x y => x / y) absF sqrtF ltF leF).

(** "Determinant returns the determinant of every square matrix" (size >= 1; Laplace expansion along the
    first row with the code's sign rule, sizes 1 and 2 special-cased), and exits on a non-square one *)
Theorem C05_det_is_det n (M : mat F) : wf_mat M -> mrows M = n.+1 -> mcols M = n.+1 ->
  determinant Ops M = Ok (\det (mx n.+1 n.+1 M)).
Proof. exact (@det_is_det F absF sqrtF ltF leF n M). Qed.
Print Assumptions C05_det_is_det.
Theorem C05_det_nonsquare (M : mat F) : mrows M <> mcols M -> determinant Ops M = Exit.
Proof. exact (@det_nonsquare F absF sqrtF ltF leF M). Qed.
Print Assumptions C05_det_nonsquare.

(** "is multiplicative" *)
Theorem C05_det_multiplicative n (A B C : mat F) dA dB :
  wf_mat A -> mrows A = n.+1 -> mcols A = n.+1 -> wf_mat B -> mrows B = n.+1 -> mcols B = n.+1 ->
  determinant Ops A = Ok dA -> determinant Ops B = Ok dB -> m_product Ops A B = Ok C ->
  determinant Ops C = Ok (dA * dB).
Proof. exact (@det_multiplicative F absF sqrtF ltF leF n A B C dA dB). Qed.
Print Assumptions C05_det_multiplicative.
(** "transpose-invariant" *)
Theorem C05_det_transpose n (A At : mat F) dA :
  wf_mat A -> mrows A = n.+1 -> mcols A = n.+1 -> determinant Ops A = Ok dA ->
  transpose Ops A = Ok At -> determinant Ops At = Ok dA.
Proof. exact (@det_transpose F absF sqrtF ltF leF n A At dA). Qed.
Print Assumptions C05_det_transpose.
(** "changes sign under a row swap": M' = M with rows i <> j exchanged *)
Theorem C05_det_row_swap n (M M' : mat F) (i j : 'I_n.+1) d :
  wf_mat M -> mrows M = n.+1 -> mcols M = n.+1 -> wf_mat M' -> mrows M' = n.+1 -> mcols M' = n.+1 ->
  i != j -> (forall (a b : 'I_n.+1), ment M' a b = ment M (tperm i j a) b) ->
  determinant Ops M = Ok d -> determinant Ops M' = Ok (- d).
Proof. exact (@det_row_swap F absF sqrtF ltF leF n M M' i j d). Qed.
Print Assumptions C05_det_row_swap.
(** "equals the product of the diagonal for triangular matrices" (lower or upper) *)
Theorem C05_det_triangular n (M : mat F) : wf_mat M -> mrows M = n.+1 -> mcols M = n.+1 ->
  (forall i j, (i < j < n.+1)%N -> ment M i j = 0) \/ (forall i j, (j < i < n.+1)%N -> ment M i j = 0) ->
  determinant Ops M = Ok (\prod_(0 <= i < n.+1) ment M i i).
Proof. exact (@det_triangular F absF sqrtF ltF leF n M). Qed.
Print Assumptions C05_det_triangular.

(** "Invertible is true exactly when it is non-zero" (equivalently: when the matrix is a unit) *)
Theorem C05_invertible_iff n (M : mat F) : wf_mat M -> mrows M = n.+1 -> mcols M = n.+1 ->
  invertible Ops M = Ok (\det (mx n.+1 n.+1 M) != 0) /\
  invertible Ops M = Ok (mx n.+1 n.+1 M \in unitmx).
Proof. exact (@invertible_iff F absF sqrtF ltF leF n M). Qed.
Print Assumptions C05_invertible_iff.
Theorem C05_invertible_nonsquare (M : mat F) : mrows M <> mcols M -> invertible Ops M = Ok false.
Proof. exact (@invertible_nonsquare F absF sqrtF ltF leF M). Qed.
Print Assumptions C05_invertible_nonsquare.

(** "Inverse returns X ..." : whatever Inverse() returns is the two-sided inverse, X*M = 1 and M*X = 1
    (exact arithmetic; Gauss-Jordan row invariant "right block * M = left block"; any pivoting rule) *)
Theorem C05_inverse_sound (M X : mat F) : inverse Ops M = Ok X ->
  let n := mrows M in
  [/\ mcols M = n, wf_mat X, mrows X = n & mcols X = n] /\
  (mx n n X *m mx n n M = 1%:M /\ mx n n M *m mx n n X = 1%:M).
Proof. exact (@inverse_sound F absF sqrtF ltF leF M X). Qed.
Print Assumptions C05_inverse_sound.

(** "a singular or non-square matrix terminates with a diagnostic instead of yielding numbers" *)
Theorem C05_inverse_exits (M : mat F) :
  (mrows M <> mcols M -> inverse Ops M = Exit) /\
  (forall n, wf_mat M -> mrows M = n.+1 -> mcols M = n.+1 -> \det (mx n.+1 n.+1 M) = 0 -> inverse Ops M = Exit).
Proof. exact (@inverse_exits F absF sqrtF ltF leF M). Qed.
Print Assumptions C05_inverse_exits.
(** call histories on one object, exact arithmetic: whatever was asked of the object before (Determinant(), Invertible(),
    Inverse(), ...) and however it got its entries A, after  M += B  (M -= B) Determinant() is the determinant of the sum
    (difference) and Invertible() says whether that vanishes *)
Theorem C05_seq_det_after_update n (h : list (@sop F)) (M0 A B : mat F) (outs : list (@sout F)) :
  srun Ops h M0 = Ok (A, outs) ->
  wf_mat A -> mrows A = n.+1 -> mcols A = n.+1 -> mrows B = n.+1 -> mcols B = n.+1 ->
  (exists A', [/\ wf_mat A', mx n.+1 n.+1 A' = mx n.+1 n.+1 A + mx n.+1 n.+1 B &
     srun Ops (h ++ [:: UAdd B; @QDet F; @QInvertible F]) M0 =
     Ok (A', (outs ++ [:: @ONone F; ODet (\det (mx n.+1 n.+1 A + mx n.+1 n.+1 B));
                          @OFlag F (\det (mx n.+1 n.+1 A + mx n.+1 n.+1 B) != 0)])%list)]) /\
  (exists A', [/\ wf_mat A', mx n.+1 n.+1 A' = mx n.+1 n.+1 A - mx n.+1 n.+1 B &
     srun Ops (h ++ [:: USub B; @QDet F; @QInvertible F]) M0 =
     Ok (A', (outs ++ [:: @ONone F; ODet (\det (mx n.+1 n.+1 A - mx n.+1 n.+1 B));
                          @OFlag F (\det (mx n.+1 n.+1 A - mx n.+1 n.+1 B) != 0)])%list)]).
Proof. exact (@seq_det_after_update F absF sqrtF ltF leF n h M0 A B outs). Qed.
Print Assumptions C05_seq_det_after_update.
(** ... after a row exchange  std::swap(M[i], M[j]), i <> j, Determinant() has changed sign ("changes sign under a row swap",
    as a statement about ONE object across calls) and Invertible() answers as before *)
Theorem C05_seq_det_after_swap n (h : list (@sop F)) (M0 A : mat F) (outs : list (@sout F)) (i j : 'I_n.+1) :
  srun Ops h M0 = Ok (A, outs) -> wf_mat A -> mrows A = n.+1 -> mcols A = n.+1 -> i != j ->
  exists A', [/\ wf_mat A', mx n.+1 n.+1 A' = row_perm (tperm i j) (mx n.+1 n.+1 A) &
     srun Ops (h ++ [:: @USwap F i j; @QDet F; @QInvertible F]) M0 =
     Ok (A', (outs ++ [:: @ONone F; ODet (- \det (mx n.+1 n.+1 A)); @OFlag F (\det (mx n.+1 n.+1 A) != 0)])%list)].
Proof. exact (@seq_det_after_swap F absF sqrtF ltF leF n h M0 A outs i j). Qed.
Print Assumptions C05_seq_det_after_swap.
(** ... and after an entry write  M[i][j] = v  Determinant() is  det A + (v - a_ij) * cofactor_ij(A)  (the determinant is
    affine in every entry), Invertible() says whether that vanishes *)
Theorem C05_seq_det_after_set n (h : list (@sop F)) (M0 A : mat F) (outs : list (@sout F)) (i j : 'I_n.+1) (v : F) :
  srun Ops h M0 = Ok (A, outs) -> wf_mat A -> mrows A = n.+1 -> mcols A = n.+1 ->
  let d' := \det (mx n.+1 n.+1 A) + (v - ment A i j) * cofactor (mx n.+1 n.+1 A) i j in
  exists A', [/\ wf_mat A', (forall a b : 'I_n.+1, ment A' a b = if (a == i) && (b == j) then v else ment A a b) &
     srun Ops (h ++ [:: @USet F i j v; @QDet F; @QInvertible F]) M0 =
     Ok (A', (outs ++ [:: @ONone F; ODet d'; @OFlag F (d' != 0)])%list)].
Proof. exact (@seq_det_after_set F absF sqrtF ltF leF n h M0 A outs i j v). Qed.
Print Assumptions C05_seq_det_after_set.

(** Matrix::Orthogonal() - the caller of the gate "Invertible() in front of Inverse()" inside the library
    (if(!Invertible()) return false; else return Transpose() == Inverse();), any pivoting rule:
    the answer [true] means M^T M = 1 = M M^T; a non-square matrix is answered [false] *)
Theorem C05_orthogonal_sound n (M : mat F) : wf_mat M -> mrows M = n.+1 -> mcols M = n.+1 ->
  orthogonal Ops M = Ok true ->
  (mx n.+1 n.+1 M)^T *m mx n.+1 n.+1 M = 1%:M /\ mx n.+1 n.+1 M *m (mx n.+1 n.+1 M)^T = 1%:M.
Proof. exact (@orthogonal_sound F absF sqrtF ltF leF n M). Qed.
Print Assumptions C05_orthogonal_sound.
Theorem C05_orthogonal_nonsquare (M : mat F) : mrows M <> mcols M -> orthogonal Ops M = Ok false.
Proof. exact (@orthogonal_nonsquare F absF sqrtF ltF leF M). Qed.
Print Assumptions C05_orthogonal_nonsquare.
(** "Inverse returns X that agrees with the exact inverse" (exact arithmetic, every size, every pivoting rule): whatever Inverse()
    returns is THE inverse, and it is tied to Determinant(): X = adj(M) / det M (Cramer), det X = 1 / det M, det M != 0.
    (hypothesis satisfiable: C05_exchange_matrix_inverts) *)
Theorem C05_inverse_adjugate (M X : mat F) : inverse Ops M = Ok X ->
  let n := mrows M in
  [/\ \det (mx n n M) != 0, mx n n X = invmx (mx n n M),
      mx n n X = (\det (mx n n M))^-1 *: \adj (mx n n M) & \det (mx n n X) = (\det (mx n n M))^-1].
Proof. exact (@inverse_adjugate F absF sqrtF ltF leF M X). Qed.
Print Assumptions C05_inverse_adjugate.
(** "(so X*M is the identity to that accuracy and M*X to one further factor of the condition number)": the two identities behind
    this sentence and behind the S4 clauses, for an invertible A and ANY X (e.g. the doubles Inverse() returned, at their exact
    values): forward error = left residual * A^-1;  right residual = A * left residual * A^-1.  (These are identities, NOT the
    accuracy bound c*n*kappa*eps itself, which is not a theorem.) *)
Theorem C05_inverse_error_identities n (A X : 'M[F]_n) : A \in unitmx ->
  X - invmx A = (X *m A - 1%:M) *m invmx A /\ A *m X - 1%:M = A *m (X *m A - 1%:M) *m invmx A.
Proof. exact (@inverse_error_identities F n A X). Qed.
Print Assumptions C05_inverse_error_identities.
(** "changes sign under a row swap", for a history of ANY number of row exchanges on one object (induction over the history):
    after  std::swap(M[i1], M[j1]); ...; std::swap(M[ik], M[jk])  Determinant() answers (-1)^c det A, c = number of exchanges with
    i <> j, Invertible() answers as before, and the entries are the rows of A in the order of the composed permutation *)
Theorem C05_swaps_then_det n (sw : seq ('I_n.+1 * 'I_n.+1)) (A : mat F) : wf_mat A -> mrows A = n.+1 -> mcols A = n.+1 ->
  let d := \det (mx n.+1 n.+1 A) in
  exists A', [/\ wf_mat A', mx n.+1 n.+1 A' = row_perm (swap_perm sw) (mx n.+1 n.+1 A) &
    srun Ops (swap_ops sw ++ [:: @QDet F; @QInvertible F]) A =
    Ok (A', (map (fun _ => @ONone F) sw ++ [:: ODet ((-1) ^+ swap_count sw * d); @OFlag F (d != 0)])%list)].
Proof. exact (@swaps_then_det F absF sqrtF ltF leF n sw A). Qed.
Print Assumptions C05_swaps_then_det.
End AnyField.

Section AnyArithmetic.
(** Call histories on ONE Matrix object ([srun]: queries Determinant / Invertible / Inverse / Orthogonal / on a copy /
    of the transpose / of a sub-matrix, updates += -= [i][j]= swap = Assign Resize Delete_Row Delete_Column), for EVERY
    instance of the arithmetic - in particular the IEEE doubles on which the extracted model runs:
    "Determinant returns the determinant of every square matrix", "Invertible is true exactly when ...", "Inverse returns X"
    are statements about the matrix, so the answers must not depend on what the object was asked or how it was changed before. *)
Context {T : Type} (AOps : NumOps T).
(** the answer after any history is the answer [squery M q] for the current entries M, and the entries stay M *)
Theorem C05_seq_answer_after_history (h : list (@sop T)) (q : @sop T) (M0 M : mat T) (outs : list (@sout T)) :
  srun AOps h M0 = Ok (M, outs) -> is_query q ->
  srun AOps (h ++ [:: q]) M0 = rbind (squery AOps M q) (fun a => Ok (M, (outs ++ [:: a])%list)).
Proof. exact (@seq_answer_after_history T AOps h q M0 M outs). Qed.
Print Assumptions C05_seq_answer_after_history.
(** two histories, on the same or on different objects, that lead to the same entries are answered alike *)
Theorem C05_seq_history_independent (h1 h2 : list (@sop T)) (q : @sop T) (M1 M2 M : mat T) (o1 o2 : list (@sout T)) :
  srun AOps h1 M1 = Ok (M, o1) -> srun AOps h2 M2 = Ok (M, o2) -> is_query q ->
  (srun AOps (h1 ++ [:: q]) M1 = Exit <-> srun AOps (h2 ++ [:: q]) M2 = Exit) /\
  (forall a, srun AOps (h1 ++ [:: q]) M1 = Ok (M, (o1 ++ [:: a])%list) <->
             srun AOps (h2 ++ [:: q]) M2 = Ok (M, (o2 ++ [:: a])%list)).
Proof. exact (@seq_history_independent T AOps h1 h2 q M1 M2 M o1 o2). Qed.
Print Assumptions C05_seq_history_independent.
(** queries alone never change the entries *)
Theorem C05_seq_queries_keep_entries (h : list (@sop T)) (M0 M : mat T) (outs : list (@sout T)) :
  List.forallb (@is_query T) h -> srun AOps h M0 = Ok (M, outs) -> M = M0.
Proof. exact (@seq_queries_keep_entries T AOps h M0 M outs). Qed.
Print Assumptions C05_seq_queries_keep_entries.

(** Call histories on SEVERAL objects with interleaved calls ([mrun]: a step is (object index, call)).  The same
    clauses: the answer an object gives depends on its own current entries only - not on what it or any other object
    was asked before, nor on what happened to the other objects. *)
(** the answer to a query put to object k after any interleaved history is [squery M q] for the current entries M of k *)
Theorem C05_hist_answer_after_history (h : list (nat * @sop T)) (k : nat) (q : @sop T) (Ms0 Ms : list (mat T)) (M : mat T)
    (outs : list (@sout T)) :
  mrun AOps h Ms0 = Ok (Ms, outs) -> List.nth_error Ms k = Some M -> is_query q ->
  mrun AOps (h ++ [:: (k, q)]) Ms0 = rbind (squery AOps M q) (fun a => Ok (Ms, (outs ++ [:: a])%list)).
Proof. exact (@hist_answer_after_history T AOps h k q Ms0 Ms M outs). Qed.
Print Assumptions C05_hist_answer_after_history.
(** a call on object k' leaves the entries of every other object as they are ... *)
Theorem C05_hist_other_objects_untouched (Ms Ms' : list (mat T)) (k k' : nat) (o : @sop T) (a : @sout T) :
  mstep AOps Ms (k', o) = Ok (Ms', a) -> k <> k' -> List.nth_error Ms' k = List.nth_error Ms k.
Proof. exact (@hist_other_objects_untouched T AOps Ms Ms' k k' o a). Qed.
Print Assumptions C05_hist_other_objects_untouched.
(** ... and acts on the called object exactly as the same call in a one-object history ([sstep]) *)
Theorem C05_hist_called_object_updated (Ms Ms' : list (mat T)) (k : nat) (o : @sop T) (a : @sout T) (M : mat T) :
  List.nth_error Ms k = Some M -> mstep AOps Ms (k, o) = Ok (Ms', a) ->
  exists M', sstep AOps M o = Ok (M', a) /\ List.nth_error Ms' k = Some M'.
Proof. exact (@hist_called_object_updated T AOps Ms Ms' k o a M). Qed.
Print Assumptions C05_hist_called_object_updated.
(** References into the object kept by the caller across calls ([hrun]: besides the calls above, the caller takes
    std::vector<double>& r = M[i]  /  double& e = M[i][j]  at some time and writes through them later -  r[j] = v,
    std::swap(r1, r2), r = {..}, e = v  - between two queries, without any member call in between).  The clauses are
    statements about the matrix: the answer is the one for the entries the object has when it is asked. *)
(** whatever references are held and whatever was written through them, the answer is [squery M q] for the current entries M *)
Theorem C05_href_answer_after_history (h : list (@hop T)) (q : @sop T) (M0 M : mat T) (tb : htab) (outs : list (@sout T)) :
  hrun AOps h M0 = Ok ((M, tb), outs) -> is_query q ->
  hrun AOps (h ++ [:: HCall q]) M0 = rbind (squery AOps M q) (fun a => Ok ((M, tb), (outs ++ [:: a])%list)).
Proof. exact (@href_answer_after_history T AOps h q M0 M tb outs). Qed.
Print Assumptions C05_href_answer_after_history.
(** a write through a held row reference / entry reference is the indexed write  M[i][j] = v  at the position it denotes *)
Theorem C05_href_row_write (M : mat T) (tb : htab) (h i j : nat) (v : T) : hfind h tb = Some (HRow i) ->
  hstep AOps (M, tb) (HRowSet h j v) = rbind (supdate AOps M (USet i j v)) (fun M' => Ok ((M', tb), @ONone T)).
Proof. exact (@href_row_write T AOps M tb h i j v). Qed.
Print Assumptions C05_href_row_write.
Theorem C05_href_entry_write (M : mat T) (tb : htab) (h i j : nat) (v : T) : hfind h tb = Some (HElt i j) ->
  hstep AOps (M, tb) (HEltSet h v) = rbind (supdate AOps M (USet i j v)) (fun M' => Ok ((M', tb), @ONone T)).
Proof. exact (@href_entry_write T AOps M tb h i j v). Qed.
Print Assumptions C05_href_entry_write.
(** std::swap of two held row references is the row exchange  std::swap(M[i], M[j]) *)
Theorem C05_href_row_swap (M : mat T) (tb : htab) (h1 h2 i j : nat) :
  hfind h1 tb = Some (HRow i) -> hfind h2 tb = Some (HRow j) ->
  hstep AOps (M, tb) (HRowSwap h1 h2) =
  rbind (supdate AOps M (USwap i j)) (fun M' => Ok ((M', List.filter (fun hr => is_hrow hr.2) tb), @ONone T)).
Proof. exact (@href_row_swap T AOps M tb h1 h2 i j). Qed.
Print Assumptions C05_href_row_swap.
(** a history in which no reference is taken is the history [srun] of the theorems above *)
Theorem C05_href_plain_calls (ops : list (@sop T)) (M0 : mat T) :
  hrun AOps (List.map (@HCall T) ops) M0 = rbind (srun AOps ops M0) (fun st => Ok ((st.1, [::]), st.2)).
Proof. exact (@href_plain_calls T AOps ops M0). Qed.
Print Assumptions C05_href_plain_calls.
(** EVERY arithmetic, every size (the IEEE doubles included, with NaN / inf / overflow / underflow): on a square matrix
    Determinant() returns a number (the recursion never runs out of its depth bound, Sub_Matrix never fails), Invertible() is the
    test "that number != 0.0", Inverse() terminates with a diagnostic when that number == 0.0, and otherwise either terminates with
    the diagnostic "Matrix is singular." or returns an N x N matrix - there is no other outcome (no out-of-range access, no
    unbounded recursion).  Which of the two it is in floating point is NOT decided here (see K-C05-1). *)
Theorem C05_any_arith_square n (M : mat T) : wf_mat M -> mrows M = n.+1 -> mcols M = n.+1 ->
  exists d, [/\ determinant AOps M = Ok d,
                invertible AOps M = Ok (~~ neqb AOps d (n0 AOps)),
                neqb AOps d (n0 AOps) -> inverse AOps M = Exit &
                inverse AOps M = Exit \/
                exists X, [/\ inverse AOps M = Ok X, wf_mat X, mrows X = n.+1 & mcols X = n.+1]].
Proof. exact (@any_arith_square T AOps n M). Qed.
Print Assumptions C05_any_arith_square.
(** "a ... non-square matrix terminates with a diagnostic instead of yielding numbers", every arithmetic *)
Theorem C05_any_arith_nonsquare (M : mat T) : mrows M <> mcols M ->
  [/\ determinant AOps M = Exit, invertible AOps M = Ok false, inverse AOps M = Exit & orthogonal AOps M = Ok false].
Proof. exact (@any_arith_nonsquare T AOps M). Qed.
Print Assumptions C05_any_arith_nonsquare.
(** a history of ANY number of row exchanges, every arithmetic: pure data movement - the entries afterwards are the rows of the
    start in the order of the composed permutation (so nothing is rounded and nothing else is remembered) *)
Theorem C05_swaps_entries n (sw : seq ('I_n.+1 * 'I_n.+1)) (A : mat T) : wf_mat A -> mrows A = n.+1 -> mcols A = n.+1 ->
  exists A', [/\ srun AOps (swap_ops sw) A = Ok (A', map (fun _ => @ONone T) sw), wf_mat A', mrows A' = n.+1, mcols A' = n.+1 &
                 forall a b : 'I_n.+1, ment AOps A' a b = ment AOps A (swap_perm sw a) b].
Proof. exact (@swaps_run T AOps n sw A). Qed.
Print Assumptions C05_swaps_entries.
(** non-vacuity of the shape premises in every arithmetic; a transpose that is defined *)
Theorem C05_any_arith_premises_example : let M := mk_mat 3 3 (fun _ _ => n1 AOps) in
  [/\ wf_mat M, mrows M = 3%N & mcols M = 3%N] /\ mrows (mk_mat 2 3 (fun _ _ => n1 AOps)) <> mcols (mk_mat 2 3 (fun _ _ => n1 AOps)).
Proof. exact (@any_arith_premises_example T AOps). Qed.
End AnyArithmetic.

Section RealField.
(** Here the pivoting rule matters: fabs = `|x| and > = the order of an arbitrary real field
    (MathComp [realFieldType]; e.g. the rationals, in which every double has its exact value). *)
Variable R : realFieldType.
Variables (sqrtF : R -> R) (leF : R -> R -> bool).
Local Notation Ops := (POps sqrtF leF).
Local Notation mx := (@mx_of R (fun x y => x / y) (fun x => `|x|) sqrtF (fun x y => x < y) leF).

(** "For every invertible matrix, whatever the position of its zero or small entries, Inverse returns X":
    completeness of Gauss-Jordan with partial pivoting, together with soundness *)
Theorem C05_inverse_complete n (M : mat R) : wf_mat M -> mrows M = n.+1 -> mcols M = n.+1 ->
  \det (mx n.+1 n.+1 M) != 0 ->
  exists X, [/\ inverse Ops M = Ok X, wf_mat X, mx n.+1 n.+1 X *m mx n.+1 n.+1 M = 1%:M &
                mx n.+1 n.+1 M *m mx n.+1 n.+1 X = 1%:M].
Proof. exact (@inverse_total R sqrtF leF n M). Qed.
Print Assumptions C05_inverse_complete.
(** non-vacuity: the exchange matrix ((0,1),(1,0)), whose first pivot is zero *)
Theorem C05_exchange_matrix_inverts :
  let M := mk_mat 2 2 (fun i j => if i == j then 0 else 1 : R) in
  exists X, [/\ inverse Ops M = Ok X, wf_mat X, mx 2 2 X *m mx 2 2 M = 1%:M & mx 2 2 M *m mx 2 2 X = 1%:M].
Proof. exact (@exchange_matrix_inverts R sqrtF leF). Qed.
Print Assumptions C05_exchange_matrix_inverts.
(** Orthogonal() with the code's pivoting rule: it never exits on a square matrix (the gate lets exactly the matrices
    through on which Inverse() returns) and decides  M^T M = 1 *)
Theorem C05_orthogonal_iff n (M : mat R) : wf_mat M -> mrows M = n.+1 -> mcols M = n.+1 ->
  orthogonal Ops M = Ok ((mx n.+1 n.+1 M)^T *m mx n.+1 n.+1 M == 1%:M).
Proof. exact (@orthogonal_iff R sqrtF leF n M). Qed.
Print Assumptions C05_orthogonal_iff.
(** non-vacuity: the exchange matrix is orthogonal and is answered [true] *)
Theorem C05_exchange_matrix_orthogonal :
  orthogonal Ops (mk_mat 2 2 (fun i j => if i == j then 0 else 1 : R)) = Ok true.
Proof. exact (@exchange_matrix_orthogonal R sqrtF leF). Qed.
Print Assumptions C05_exchange_matrix_orthogonal.
(** "whatever the position of its zero or small entries": the pivot search of Inverse() by itself.  For every work array and
    every column i < n it selects a row of i..n-1 whose entry in column i has maximal absolute value among these rows - at every
    magnitude of the entries (the search compares |a| with |b|; nothing is multiplied) *)
Theorem C05_pivot_row_maximal n (A : seq (seq R)) i : (i < n)%N ->
  (i <= pivot_row Ops n A i < n)%N /\ forall j, (i <= j < n)%N -> `|tent Ops A j i| <= `|tent Ops A (pivot_row Ops n A i) i|.
Proof. exact (fun Hi => conj (@pivot_row_range R sqrtF leF n A i Hi) (@pivot_row_maximal R sqrtF leF n A i)). Qed.
Print Assumptions C05_pivot_row_maximal.
(** the selected row does not depend on the unit of the column: column i multiplied by any d != 0 (d = 2^k: the same doubles in
    another unit) gives the same row exchange *)
Theorem C05_pivot_row_unit_free n (A A' : seq (seq R)) i d : d != 0 -> (forall j, tent Ops A' j i = tent Ops A j i * d) ->
  pivot_row Ops n A' i = pivot_row Ops n A i.
Proof. exact (@pivot_row_unit R sqrtF leF n A A' i d). Qed.
Print Assumptions C05_pivot_row_unit_free.
(** non-vacuity: a first column (r*d, 1*d) with 0 < r < 1 selects row 1 in every unit d != 0, however small r and however large or small d *)
Theorem C05_pivot_row_example (r d : R) : 0 < r < 1 -> d != 0 ->
  pivot_row Ops 2 [:: [:: r * d; 0; 1; 0]; [:: 1 * d; 0; 0; 1]] 0 = 1%N.
Proof. exact (@pivot_row_example R sqrtF leF r d). Qed.
Print Assumptions C05_pivot_row_example.
End RealField.

Section RoundedArithmetic.
(** "Determinant ... agrees with a pivoted-LU reference to rounding": forward error of Determinant() in ANY arithmetic
    that obeys the standard model  fl(x op y) = (x op y)(1 + d), |d| <= u  for + - *  (IEEE double with round to nearest:
    u = 2^-53, as long as no operation over- or underflows - this premise is the hypothesis [std_model], not a theorem).
    [R] = any real field (the exact values); [XOps fadd fsub fmul ...] = the model's number type with ARBITRARY rounded
    operations; [pm A] = sum over all permutations s of prod_i |A i (s i)| = the permanent of |A|;
    [det_err_exp] 1 = 0, 2 = 2, N = det_err_exp (N-1) + N + 2. *)
Variable R : realFieldType.
Variables (fadd fsub fmul fdiv : R -> R -> R) (sqrtF : R -> R) (leF : R -> R -> bool) (u : R).
Local Notation Ops := (XOps fadd fsub fmul fdiv sqrtF leF).
Local Notation mx := (@mxr R fadd fsub fmul fdiv sqrtF leF).
(** every size, every matrix: Determinant() returns, and  |computed - det M| <= ((1+u)^(det_err_exp N) - 1) * perm|M| *)
Theorem C05_det_rounding_error n (M : mat R) : 0 <= u -> std_model fadd fsub fmul u ->
  wf_mat M -> mrows M = n.+1 -> mcols M = n.+1 ->
  exists2 d, determinant Ops M = Ok d &
             `|d - \det (mx n.+1 M)| <= ((1 + u) ^+ det_err_exp n.+1 - 1) * pm (mx n.+1 M).
Proof. exact (fun H0 SM => @det_rounding_error R fadd fsub fmul fdiv sqrtF leF u H0 SM n M). Qed.
Print Assumptions C05_det_rounding_error.
(** the sizes of the property's quantifier (1..7), u <= 2^-7: the error is at most 64 u perm|M| - the a-priori slack
    DET_SLACK of the S4 clause 'lu-reference' *)
Theorem C05_det_rounding_error_le7 n (M : mat R) : 0 <= u -> std_model fadd fsub fmul u ->
  wf_mat M -> mrows M = n.+1 -> mcols M = n.+1 -> (n < 7)%N -> 128%:R * u <= 1 ->
  exists2 d, determinant Ops M = Ok d & `|d - \det (mx n.+1 M)| <= 64%:R * u * pm (mx n.+1 M).
Proof. exact (fun H0 SM => @det_rounding_error_le7 R fadd fsub fmul fdiv sqrtF leF u H0 SM n M). Qed.
Print Assumptions C05_det_rounding_error_le7.
(** "Invertible is true exactly when it is non-zero", in rounded arithmetic: Invertible() tests the COMPUTED determinant d, so
    "reported singular" implies |det M| <= E perm|M| (singular to rounding), and an exactly singular matrix gives |d| <= E perm|M|
    (a rounded residue that may be non-zero: known finding K-C05-1),  E = (1+u)^(det_err_exp N) - 1 *)
Theorem C05_invertible_rounding n (M : mat R) : 0 <= u -> std_model fadd fsub fmul u ->
  wf_mat M -> mrows M = n.+1 -> mcols M = n.+1 ->
  let E := (1 + u) ^+ det_err_exp n.+1 - 1 in
  exists d, [/\ determinant Ops M = Ok d, invertible Ops M = Ok (d != 0),
                d = 0 -> `|\det (mx n.+1 M)| <= E * pm (mx n.+1 M) &
                \det (mx n.+1 M) = 0 -> `|d| <= E * pm (mx n.+1 M)].
Proof. exact (fun H0 SM => @invertible_rounding R fadd fsub fmul fdiv sqrtF leF u H0 SM n M). Qed.
Print Assumptions C05_invertible_rounding.
(** the accumulated factor in the usual form:  (1+u)^k - 1 <= k u / (1 - k u) = gamma_k,  and  det_err_exp N <= N^2 *)
Theorem C05_gamma_bound (k : nat) : 0 <= u -> k%:R * u < 1 -> (1 + u) ^+ k - 1 <= k%:R * u / (1 - k%:R * u).
Proof. exact (fun H0 => @gamma_bound' R u H0 k). Qed.
Print Assumptions C05_gamma_bound.
Theorem C05_det_err_exp_le (N : nat) : (det_err_exp N <= N * N)%N.
Proof. exact (det_err_exp_le N). Qed.
Print Assumptions C05_det_err_exp_le.
(** the bound refers to the true size of the determinant's terms: |det A| <= perm|A|, and perm|A| obeys the Laplace expansion *)
Theorem C05_det_le_perm n (A : 'M[R]_n) : `|\det A| <= pm A.
Proof. exact (det_le_pm A). Qed.
Print Assumptions C05_det_le_perm.
Theorem C05_perm_expand_row n (A : 'M[R]_n) (i0 : 'I_n) : pm A = \sum_j `|A i0 j| * pm (row' i0 (col' j A)).
Proof. exact (expand_pm_row A i0). Qed.
Print Assumptions C05_perm_expand_row.
(** non-vacuity: an arithmetic that really rounds (every + and * too large by the factor 1+u, every - too small by 1-u)
    obeys the standard model; ((2,1,1),(1,2,1),(1,1,2)) satisfies the shape premises *)
Theorem C05_std_model_example : 0 <= u ->
  std_model (fun x y => (x + y) * (1 + u)) (fun x y => (x - y) * (1 - u)) (fun x y => x * y * (1 + u)) u.
Proof. exact (@std_model_example R u). Qed.
Print Assumptions C05_std_model_example.
Theorem C05_rounding_premises_example : let M := mk_mat 3 3 (fun i j => if i == j then 2%:R else 1 : R) in
  [/\ wf_mat M, mrows M = 3%N & mcols M = 3%N].
Proof. exact (@premises_example R). Qed.
Print Assumptions C05_rounding_premises_example.
(** the other determinant clauses in ROUNDED arithmetic, every size:  E = (1+u)^(det_err_exp N) - 1  as above.
    "transpose-invariant": Determinant() of M and of M.Transpose() differ by at most 2 E perm|M| *)
Theorem C05_det_round_transpose n (M Mt : mat R) : 0 <= u -> std_model fadd fsub fmul u ->
  wf_mat M -> mrows M = n.+1 -> mcols M = n.+1 -> transpose Ops M = Ok Mt ->
  exists d dt, [/\ determinant Ops M = Ok d, determinant Ops Mt = Ok dt &
                   `|dt - d| <= 2%:R * ((1 + u) ^+ det_err_exp n.+1 - 1) * pm (mx n.+1 M)].
Proof. exact (fun H0 SM => @det_round_transpose R fadd fsub fmul fdiv sqrtF leF u H0 SM n M Mt). Qed.
Print Assumptions C05_det_round_transpose.
(** "changes sign under a row swap": M' = the rows of M in the order of ANY permutation t (k exchanges: sign (-1)^k);
    one exchange i <> j:  |d' + d| <= 2 E perm|M| *)
Theorem C05_det_round_row_perm n (M M' : mat R) (t : 'S_n.+1) : 0 <= u -> std_model fadd fsub fmul u ->
  wf_mat M -> mrows M = n.+1 -> mcols M = n.+1 -> wf_mat M' -> mrows M' = n.+1 -> mcols M' = n.+1 ->
  (forall (a b : 'I_n.+1), ment Ops M' a b = ment Ops M (t a) b) ->
  exists d d', [/\ determinant Ops M = Ok d, determinant Ops M' = Ok d' &
                   `|d' - (-1) ^+ t * d| <= 2%:R * ((1 + u) ^+ det_err_exp n.+1 - 1) * pm (mx n.+1 M)].
Proof. exact (fun H0 SM => @det_round_row_perm R fadd fsub fmul fdiv sqrtF leF u H0 SM n M M' t). Qed.
Print Assumptions C05_det_round_row_perm.
Theorem C05_det_round_row_swap n (M M' : mat R) (i j : 'I_n.+1) : 0 <= u -> std_model fadd fsub fmul u ->
  wf_mat M -> mrows M = n.+1 -> mcols M = n.+1 -> wf_mat M' -> mrows M' = n.+1 -> mcols M' = n.+1 ->
  i != j -> (forall (a b : 'I_n.+1), ment Ops M' a b = ment Ops M (tperm i j a) b) ->
  exists d d', [/\ determinant Ops M = Ok d, determinant Ops M' = Ok d' &
                   `|d' + d| <= 2%:R * ((1 + u) ^+ det_err_exp n.+1 - 1) * pm (mx n.+1 M)].
Proof. exact (fun H0 SM => @det_round_row_swap R fadd fsub fmul fdiv sqrtF leF u H0 SM n M M' i j). Qed.
Print Assumptions C05_det_round_row_swap.
(** ... as a statement about ONE object across a history of any number of row exchanges: d = Determinant() before, d' = after *)
Theorem C05_swaps_then_det_rounded n (sw : seq ('I_n.+1 * 'I_n.+1)) (A : mat R) : 0 <= u -> std_model fadd fsub fmul u ->
  wf_mat A -> mrows A = n.+1 -> mcols A = n.+1 ->
  exists A' d d', [/\ determinant Ops A = Ok d,
    srun Ops (swap_ops sw ++ [:: @QDet R]) A = Ok (A', (map (fun _ => @ONone R) sw ++ [:: ODet d'])%list) &
    `|d' - (-1) ^+ swap_count sw * d| <= 2%:R * ((1 + u) ^+ det_err_exp n.+1 - 1) * pm (mx n.+1 A)].
Proof. exact (fun H0 SM => @swaps_then_det_rounded R fadd fsub fmul fdiv sqrtF leF u H0 SM n sw A). Qed.
Print Assumptions C05_swaps_then_det_rounded.
(** "equals the product of the diagonal for triangular matrices" (lower or upper): a RELATIVE error bound E *)
Theorem C05_det_round_triangular n (M : mat R) : 0 <= u -> std_model fadd fsub fmul u ->
  wf_mat M -> mrows M = n.+1 -> mcols M = n.+1 ->
  (forall i j, (i < j < n.+1)%N -> ment Ops M i j = 0) \/ (forall i j, (j < i < n.+1)%N -> ment Ops M i j = 0) ->
  exists2 d, determinant Ops M = Ok d &
             `|d - \prod_(0 <= i < n.+1) ment Ops M i i| <= ((1 + u) ^+ det_err_exp n.+1 - 1) * `|\prod_(0 <= i < n.+1) ment Ops M i i|.
Proof. exact (fun H0 SM => @det_round_triangular R fadd fsub fmul fdiv sqrtF leF u H0 SM n M). Qed.
Print Assumptions C05_det_round_triangular.
(** the facts about perm|A| these rest on: invariant under transposition and under every row permutation; the product of the
    |diagonal| for a triangular matrix *)
Theorem C05_perm_invariants n (A : 'M[R]_n) (t : 'S_n) :
  [/\ pm A^T = pm A, pm (row_perm t A) = pm A & (forall i j : 'I_n, (i < j)%N -> A i j = 0) -> pm A = \prod_i `|A i i|].
Proof. exact (And3 (pm_tr A) (pm_row_perm t A) (@pm_trig R n A)). Qed.
Print Assumptions C05_perm_invariants.
(** non-vacuity: ((1,0,0),(2,2,0),(3,3,3)) satisfies the triangular premises; a transpose that is defined *)
Theorem C05_triangular_premises_example : let M := mk_mat 3 3 (fun i j => if (j <= i)%N then i.+1%:R else 0 : R) in
  [/\ wf_mat M, mrows M = 3%N, mcols M = 3%N, (forall i j, (i < j < 3)%N -> ment Ops M i j = 0) & ment Ops M 2 2 = 3%:R].
Proof. exact (@triangular_premises_example R fadd fsub fmul fdiv sqrtF leF). Qed.
Theorem C05_transpose_premise_example : let M := mk_mat 3 3 (fun i j => if (i == j)%N then n1 Ops else n0 Ops) in
  exists Mt, transpose Ops M = Ok Mt.
Proof. exact (@transpose_premise_example R Ops). Qed.
End RoundedArithmetic.

Section InPlace.
(** Matrix::Inverse() statement by statement (coq/C05_Model2.v, the term whose result is compared with the library for every
    request 'inverse'): the work array  Matrix A(N, 2.0 * N, 0.0)  is CHANGED IN PLACE, one assignment A[i][j] = ... after the other in
    the order of the loops; the row exchange is std::swap(A[i], A[i_pivot]); the first N columns are removed by N calls of
    Delete_Column(0).  The theorems above are about [inverse] (every loop nest described by the table it leaves).  Here: the two are
    the same function - in EVERY arithmetic (no law of + - * / is used; IEEE doubles with NaN / inf included), every size, by induction
    over every loop (loop invariants: which entries have been written so far, and that an assignment reads only entries that still have
    their old value - the pivot row and the divisor A[i][i] are never written by the loop that reads them, ratio is formed before row j
    is written).  So "Inverse returns X ...", "a singular ... matrix terminates with a diagnostic" hold for the in-place code as written. *)
Context {T : Type} (AOps : NumOps T).
Theorem C05_inverse_inplace_is_model (M : mat T) : inverse_lbl AOps M = inverse AOps M.
Proof. exact (@inverse_lblE T AOps M). Qed.
Print Assumptions C05_inverse_inplace_is_model.
(** the parts: the loop nest that fills (M | 1) ... *)
Theorem C05_inplace_augment (M : mat T) : augment_lbl AOps M = augment AOps M.
Proof. exact (@augment_lblE T AOps M). Qed.
Print Assumptions C05_inplace_augment.
(** ... std::swap of two rows of an N x 2N array ... *)
Theorem C05_inplace_row_exchange N (A : seq (seq T)) i p : shp N (2 * N)%N A -> (i < N)%N -> (p < N)%N ->
  swap_lbl A i p = swap_rows AOps N A i p.
Proof. exact (@swap_lblE T AOps N A i p). Qed.
Print Assumptions C05_inplace_row_exchange.
(** ... the elimination loop nest for pivot i (for j: if(i != j) { ratio = A[j][i] / A[i][i]; for k: A[j][k] = A[j][k] - ratio * A[i][k]; }) ... *)
Theorem C05_inplace_eliminate N (A : seq (seq T)) i : shp N (2 * N)%N A -> (i < N)%N ->
  eliminate_lbl AOps N A i = eliminate AOps N A i.
Proof. exact (@eliminate_lblE T AOps N A i). Qed.
Print Assumptions C05_inplace_eliminate.
(** ... the scaling loop nest A[i][j] = A[i][j] / A[i][i] (j = N .. 2N-1) followed by N calls of Delete_Column(0) *)
Theorem C05_inplace_finish N (A : seq (seq T)) : shp N (2 * N)%N A ->
  strip_lbl N (mkMat N (2 * N)%N (scale_lbl AOps N A)) = Ok (finish AOps N A).
Proof. exact (@finish_lblE T AOps N A). Qed.
Print Assumptions C05_inplace_finish.
(** "whatever the position of its zero or small entries": in every arithmetic (a comparison with NaN is just false) the pivot search
    returns a row inside the array, so std::swap(A[i], A[i_pivot]) never touches memory outside it *)
Theorem C05_pivot_row_in_range N (A : seq (seq T)) i : (i < N)%N -> (pivot_row AOps N A i < N)%N.
Proof. exact (@pivot_lt T AOps N A i). Qed.
Print Assumptions C05_pivot_row_in_range.
(** non-vacuity of the shape premise: the work array (M | 1) of a 2 x 2 matrix is a 2 x 4 array *)
Theorem C05_inplace_premises_example : shp 2 (2 * 2)%N (augment AOps (mk_mat 2 2 (fun _ _ => n1 AOps))).
Proof. exact (@shp_example T AOps). Qed.
End InPlace.
