(** * C01 proofs, part 6: quantitative bounds that the implementation-side predicates use as a-priori constants.
    (1) on a segment the first derivative has the sign of the secant slope s_j and |f'| <= 2 |s_j| (the S4 clause
        1d:deriv-sign tests 3 |s_j|);
    (2) in the 1 % extrapolation zone the curve leaves the end value by at most 3 % of the end segment's increment
        (the S4 clause 1d:edge-zone). *)
From Coq Require Import Reals ZArith List Bool Lia Lra Psatz.
From Coquelicot Require Import Coquelicot.
From LP Require Import Num NumR C01_Model C01_Proofs C01_Proofs_Global.
Import ListNotations.
Local Open Scope R_scope.

(** ** 1. the normalised derivative q(u) <= 2 *)
Lemma q_le_2 al be u : 0 <= al <= 2 -> 0 <= be <= 2 -> 0 <= u <= 1 ->
  al*(1-u)*(1-3*u) + be*u*(3*u-2) + 6*u*(1-u) <= 2.
Proof. intros Ha Hb Hu.
  destruct (Rle_dec u (1/3)) as [H13|H13]; [|destruct (Rle_dec u (2/3)) as [H23|H23]].
  - assert (al*((1-u)*(1-3*u)) <= 2*((1-u)*(1-3*u))). { assert (0 <= (1-u)*(1-3*u)) by nra. nra. }
    assert (0 <= be*(u*(2-3*u))). { apply Rmult_le_pos. lra. nra. } nra.
  - assert (0 <= al*((1-u)*(3*u-1))). { apply Rmult_le_pos. lra. nra. }
    assert (0 <= be*(u*(2-3*u))). { apply Rmult_le_pos. lra. nra. } nra.
  - assert (0 <= al*((1-u)*(3*u-1))). { apply Rmult_le_pos. lra. nra. }
    assert (be*(u*(3*u-2)) <= 2*(u*(3*u-2))). { assert (0 <= u*(3*u-2)) by nra. nra. } nra.
Qed.

Lemma sd1_bound h s dL dR xj x :
  0 < h -> xj <= x <= xj + h ->
  0 <= dL*s -> Rabs dL <= 2*Rabs s -> 0 <= dR*s -> Rabs dR <= 2*Rabs s ->
  Rabs (sd1 (ca h s dL dR) (cb h s dL dR) dL xj x) <= 2 * Rabs s.
Proof.
  intros Hh Hx HLs HLa HRs HRa.
  destruct (Req_dec s 0) as [Hs0|Hs0].
  - subst s. assert (dL = 0) by now apply zero_slope. assert (dR = 0) by now apply zero_slope. subst. unfold sd1, ca, cb.
    assert (E: 3 * ((0 + 0 - 2*0)/h^2) * (x-xj)^2 + 2 * ((3*0-2*0-0)/h) * (x-xj) + 0 = 0) by (field; lra).
    rewrite E, Rabs_R0. lra.
  - rewrite sd1_normal by lra. cbv zeta.
    pose proof (unit_interval h xj x Hh Hx) as Hu.
    pose proof (ratio_bounds dL s Hs0 HLs HLa) as Hal. pose proof (ratio_bounds dR s Hs0 HRs HRa) as Hbe.
    pose proof (q_nonneg _ _ _ Hal Hbe Hu) as Q0. pose proof (q_le_2 _ _ _ Hal Hbe Hu) as Q2.
    rewrite Rabs_mult. rewrite (Rabs_pos_eq (_ + _)) by exact Q0.
    pose proof (Rabs_pos s). nra.
Qed.

(** ** 2. the normalised cubic phi(u) just outside [0, 1] *)
Lemma phi_zone_left al be u : 0 <= al <= 2 -> 0 <= be <= 2 -> -1/100 <= u <= 0 ->
  -3/100 <= al*u*(1-u)^2 - be*u^2*(1-u) + 3*u^2 - 2*u^3 <= 3/100.
Proof. intros Ha Hb Hu.
  assert (A1: 1 <= (1-u)^2 <= 103/100) by nra.
  assert (A2: -206/10000 <= u*(1-u)^2 <= 0) by nra.
  assert (A3: 2*(u*(1-u)^2) <= al*(u*(1-u)^2) <= 0) by nra.
  assert (B1: 0 <= u^2 <= 1/10000) by nra.
  assert (B2: 0 <= u^2*(1-u) <= 102/1000000) by nra.
  assert (B3: 0 <= be*(u^2*(1-u)) <= 2*(u^2*(1-u))) by nra.
  assert (C1: 0 <= -(u*u^2) <= 1/1000000) by nra.
  replace (al*u*(1-u)^2) with (al*(u*(1-u)^2)) by ring.
  replace (be*u^2*(1-u)) with (be*(u^2*(1-u))) by ring.
  replace (u^3) with (u*u^2) by ring. lra.
Qed.

Lemma phi_zone_right al be u : 0 <= al <= 2 -> 0 <= be <= 2 -> 1 <= u <= 101/100 ->
  -3/100 <= al*u*(1-u)^2 - be*u^2*(1-u) + 3*u^2 - 2*u^3 - 1 <= 3/100.
Proof. intros Ha Hb Hu.
  set (w := u - 1). assert (Hw: 0 <= w <= 1/100) by (unfold w; lra).
  replace (al*u*(1-u)^2 - be*u^2*(1-u) + 3*u^2 - 2*u^3 - 1)
    with (al*((1+w)*w^2) + be*((1+w)^2*w) - 3*w^2 - 2*(w*w^2)) by (unfold w; ring).
  assert (B1: 0 <= w^2 <= 1/10000) by nra.
  assert (A2: 0 <= (1+w)*w^2 <= 102/1000000) by nra.
  assert (A3: 0 <= al*((1+w)*w^2) <= 2*((1+w)*w^2)) by nra.
  assert (C1: 1 <= (1+w)^2 <= 103/100) by nra.
  assert (C2: 0 <= (1+w)^2*w <= 103/10000) by nra.
  assert (C3: 0 <= be*((1+w)^2*w) <= 2*((1+w)^2*w)) by nra.
  assert (D1: 0 <= w*w^2 <= 1/1000000) by nra.
  lra.
Qed.

Lemma seg_zone h s dL dR y0 xj x :
  0 < h ->
  0 <= dL*s -> Rabs dL <= 2*Rabs s -> 0 <= dR*s -> Rabs dR <= 2*Rabs s ->
  (xj - 1/100*h <= x <= xj -> Rabs (seg (ca h s dL dR) (cb h s dL dR) dL y0 xj x - y0) <= 3/100 * Rabs (h*s)) /\
  (xj + h <= x <= xj + h + 1/100*h -> Rabs (seg (ca h s dL dR) (cb h s dL dR) dL y0 xj x - (y0 + h*s)) <= 3/100 * Rabs (h*s)).
Proof.
  intros Hh HLs HLa HRs HRa.
  destruct (Req_dec s 0) as [Hs0|Hs0].
  - subst s. assert (dL = 0) by now apply zero_slope. assert (dR = 0) by now apply zero_slope. subst. unfold seg, ca, cb.
    assert (E: (0 + 0 - 2*0)/h^2*(x-xj)^3 + (3*0-2*0-0)/h*(x-xj)^2 + 0*(x-xj) + y0 = y0) by (field; lra).
    rewrite E. split; intros _.
    + replace (y0 - y0) with 0 by ring. rewrite Rabs_R0. pose proof (Rabs_pos (h*0)). lra.
    + replace (y0 - (y0 + h*0)) with 0 by ring. rewrite Rabs_R0. pose proof (Rabs_pos (h*0)). lra.
  - rewrite seg_normal by lra. cbv zeta.
    pose proof (ratio_bounds dL s Hs0 HLs HLa) as Hal. pose proof (ratio_bounds dR s Hs0 HRs HRa) as Hbe.
    set (u := (x-xj)/h). set (al := dL/s) in *. set (be := dR/s) in *.
    assert (Eu: x - xj = u * h) by (unfold u; field; lra).
    split; intros Hx.
    + assert (Hu: -1/100 <= u <= 0) by (split; nra).
      pose proof (phi_zone_left al be u Hal Hbe Hu) as P.
      set (phi := al*u*(1-u)^2 - be*u^2*(1-u) + 3*u^2 - 2*u^3) in *.
      replace (y0 + h*s*phi - y0) with ((h*s)*phi) by ring.
      rewrite Rabs_mult. assert (Rabs phi <= 3/100) by (apply Rabs_le; lra).
      pose proof (Rabs_pos (h*s)). nra.
    + assert (Hu: 1 <= u <= 101/100) by (split; nra).
      pose proof (phi_zone_right al be u Hal Hbe Hu) as P.
      set (phi := al*u*(1-u)^2 - be*u^2*(1-u) + 3*u^2 - 2*u^3) in *.
      replace (y0 + h*s*phi - (y0 + h*s)) with ((h*s)*(phi - 1)) by ring.
      rewrite Rabs_mult. assert (Rabs (phi - 1) <= 3/100) by (apply Rabs_le; lra).
      pose proof (Rabs_pos (h*s)). nra.
Qed.

(** ** 3. for every valid table *)
Section Bounds.
Variables xs ys : list R.
Hypothesis HV : valid_table xs ys.
Notation N := (length xs).
Notation X i := (nth i xs 0).
Notation Y i := (nth i ys 0).
Notation o := (tab xs ys).
Let Hlen : length xs = length ys := proj1 HV.
Let HN : (3 <= N)%nat := proj1 (proj2 HV).
Let Hinc : increasing xs := proj2 (proj2 HV).
Let HN2 : (2 <= N)%nat. Proof. lia. Qed.

Lemma SD1_bound j x : (S j < N)%nat -> X j <= x <= X (S j) -> Rabs (SD1f xs ys j x) <= 2 * Rabs (Sf xs ys j).
Proof.
  intros H Hx. unfold SD1f, CA, CB. destruct (DY_right xs ys HV j H), (DY_next xs ys HV j H).
  apply (sd1_bound (Hf xs j)); auto; [apply (Hf_pos xs ys HV); auto|rewrite <- (X_next xs) by auto; exact Hx].
Qed.

(** on the closed segment j (at the interior knot x_{j+1} the value reported is the common slope dy_{j+1}): Derivative(x,1)
    has the sign of the secant slope of segment j and is at most twice as large *)
Theorem derivative_sign_and_bound j x : (S j < N)%nat -> X j <= x <= X (S j) ->
  exists d, derivative ROps o x 1 = Ok d /\
    let s := (Y (S j) - Y j) / (X (S j) - X j) in 0 <= s * d /\ Rabs d <= 2 * Rabs s.
Proof.
  intros Hj [Hlo Hhi]. cbv zeta. rewrite <- (Hf_eq xs j Hj), <- (Sf_eq xs ys j Hj).
  destruct (Rle_lt_or_eq_dec _ _ Hhi) as [Hlt|Heq].
  - exists (SD1f xs ys j x). split.
    + rewrite (derivative_located xs ys Hlen x j); [reflexivity|apply (locate_unique xs ys Hinc HN2); auto|exact Hj].
    + split; [apply (SD1_sign xs ys HV); auto|apply SD1_bound; auto].
  - subst x. exists (DYf xs ys (S j)). split; [apply (derivative1_at_knot xs ys HV); lia|].
    destruct (DY_next xs ys HV j Hj) as [A B]. split; [rewrite Rmult_comm; exact A|exact B].
Qed.

(** in the 1 % zone the extrapolated end cubic stays within 3 % of the end segment's increment of the end value *)
Theorem edge_zone_bound x :
  (X 0 - tolL xs < x < X 0 ->
     exists v, interpolate ROps o x = Ok v /\ Rabs (v - Y 0) <= 3 / 100 * Rabs (Y 1 - Y 0)) /\
  (X (N - 1) < x < X (N - 1) + tolR xs ->
     exists v, interpolate ROps o x = Ok v /\ Rabs (v - Y (N - 1)) <= 3 / 100 * Rabs (Y (N - 1) - Y (N - 2))).
Proof.
  pose proof (tolL_pos xs ys HV) as TL. pose proof (tolR_pos xs ys HV) as TR.
  assert (H0N : X 0 < X (N - 1)) by (apply increasing_lt; auto; lia).
  split; intros Hx.
  - destruct (locate_total xs ys HV x) as [A _]. destruct A as (j & E & Hj & J0 & _); [lra|].
    rewrite (J0 (proj2 Hx)) in E. exists (SEGf xs ys 0 x).
    split; [apply (interpolate_located xs ys Hlen x 0%nat E); lia|].
    assert (H1 : (1 < N)%nat) by lia.
    destruct (DY_right xs ys HV 0%nat H1), (DY_next xs ys HV 0%nat H1).
    pose proof (Hf_pos xs ys HV 0%nat H1) as Hh.
    rewrite (Y_next xs ys HV 0%nat H1). replace (Y 0 + Hf xs 0 * Sf xs ys 0 - Y 0) with (Hf xs 0 * Sf xs ys 0) by ring.
    unfold SEGf, CA, CB.
    apply (proj1 (seg_zone (Hf xs 0) (Sf xs ys 0) (DYf xs ys 0) (DYf xs ys 1) (Y 0) (X 0) x Hh H H0 H2 H3)).
    unfold tolL in Hx. rewrite (Hf_eq xs 0%nat H1). lra.
  - destruct (locate_total xs ys HV x) as [A _]. destruct A as (j & E & Hj & _ & J1 & _); [lra|].
    rewrite (J1 (proj1 Hx)) in E. exists (SEGf xs ys (N - 2) x).
    split; [apply (interpolate_located xs ys Hlen x (N - 2)%nat E); lia|].
    assert (H1 : (S (N - 2) < N)%nat) by lia.
    assert (EN : (N - 1)%nat = S (N - 2)) by lia.
    destruct (DY_right xs ys HV (N - 2)%nat H1), (DY_next xs ys HV (N - 2)%nat H1).
    pose proof (Hf_pos xs ys HV (N - 2)%nat H1) as Hh.
    rewrite EN. rewrite (Y_next xs ys HV (N - 2)%nat H1).
    replace (Y (N - 2) + Hf xs (N - 2) * Sf xs ys (N - 2) - Y (N - 2)) with (Hf xs (N - 2) * Sf xs ys (N - 2)) by ring.
    unfold SEGf, CA, CB.
    apply (proj2 (seg_zone (Hf xs (N - 2)) (Sf xs ys (N - 2)) (DYf xs ys (N - 2)) (DYf xs ys (S (N - 2))) (Y (N - 2)) (X (N - 2)) x Hh H H0 H2 H3)).
    unfold tolR in Hx. rewrite EN in Hx. rewrite <- (X_next xs (N - 2)%nat H1).
    rewrite (Hf_eq xs (N - 2)%nat H1). lra.
Qed.
End Bounds.

Example bounds_example : (* segment 1 of the example table (decreasing data 2 -> 1), a point inside it *)
  valid_table [0; 1; 3; 4] [0; 2; 1; 1] /\ (S 1 < length [0; 1; 3; 4])%nat /\
  nth 1 [0; 1; 3; 4] 0 <= 2 <= nth 2 [0; 1; 3; 4] 0.
Proof. split; [exact valid_table_example|]. cbn. split; [lia|lra]. Qed.
