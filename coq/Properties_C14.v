(** C14 — property theorems only.  Each is closed by [exact] of a lemma proved in C14_Proofs.v.
    Model: C14_Model.v.  [us : Z -> R] is the sequence of uniform draws of one call; a region vector is
    {lower corner..., upper corner...} ([lows], [highs]); [ordered lo hi] says lo_j <= hi_j; [inbox lo hi pt] says
    lo_j <= pt_j <= hi_j and pt_j < hi_j on every axis of positive width; [cbox] is the closed box;
    [volume lo hi] is the product of the widths; [vstate] holds the statics of Integrate_MC_Vegas that survive a call;
    [wf_statics] says that the static grid has its fixed container size.
    Histories: [integrate_mc_throwing ... n] is a call whose integrand throws a C++ exception from its n-th evaluation (n <= 0: never), caught by
    the caller: [None] and the statics left behind when that brings the integration to an end, [Some] value otherwise; [run_history s h] runs
    the calls [h] (each with its own stream, method, integrand, region, budget and n) one after the other from the statics [s];
    [history_ok h]: every call has at most MXDIM = 10 dimensions.
    Oriented regions: the limits of an axis may descend; [mins]/[maxs] are the smaller/larger limit of every axis (the box spanned by the limits),
    [descending lo hi] counts the axes with descending limits. *)
From Coq Require Import Reals ZArith List.
From LP Require Import Num NumR C13_Model C14_Model C14_Proofs C14_Proofs_Hist C14_Proofs_Orient C14_Proofs_Rebin C14_Proofs_Front C14_Proofs_Total C14_Proofs_VegasOk.
Import ListNotations.
Local Open Scope R_scope.

(** "evaluate the integrand only at points inside the given hyper-rectangle" — the building block of plain Monte Carlo and Miser:
    Random_Point lies in the region, for every stream with values in [0,1). *)
Theorem C14_random_point_inside (us : Z -> R) : (forall k, 0 <= us k < 1) -> forall region pos,
  ordered (lows region) (highs region) ->
  inbox (lows region) (highs region) (fst (random_point ROps us region pos)).
Proof. exact (random_point_inside us). Qed.
Print Assumptions C14_random_point_inside.

(** Plain Monte Carlo looks at the integrand only inside the region: two integrands that agree on the region give the same result ... *)
Theorem C14_plain_mc_points_inside (us : Z -> R) : (forall k, 0 <= us k < 1) -> forall f f' region ncall,
  ordered (lows region) (highs region) ->
  (forall pt, inbox (lows region) (highs region) pt -> f pt = f' pt) ->
  brute_force ROps us f region ncall = brute_force ROps us f' region ncall.
Proof. exact (brute_force_points_inside us). Qed.
Print Assumptions C14_plain_mc_points_inside.

(** ... and "integrates constants exactly": volume * c, for every stream and every budget >= 1. *)
Theorem C14_plain_mc_constant_exact (us : Z -> R) c region ncall : (0 < ncall)%Z ->
  brute_force ROps us (fun _ => c) region ncall = volume (lows region) (highs region) * c.
Proof. exact (brute_force_constant_exact us c region ncall). Qed.
Print Assumptions C14_plain_mc_constant_exact.

(** Miser: every sub-region of the recursive bisection is nested in the given region, so the integrand is looked at only inside it ... *)
Theorem C14_miser_points_inside (us : Z -> R) : (forall k, 0 <= us k < 1) -> forall f f' region ncall,
  length region = (2 * rdim region)%nat ->
  ordered (lows region) (highs region) ->
  (forall pt, cbox (lows region) (highs region) pt -> f pt = f' pt) ->
  integrate_miser ROps us f region ncall = integrate_miser ROps us f' region ncall.
Proof. exact (integrate_miser_points_inside us). Qed.
Print Assumptions C14_miser_points_inside.

(** ... and a constant (of magnitude at most Miser's BIG = 1e30) is integrated exactly, at every depth of the recursion,
    for every stream (whenever the model's fuel suffices, i.e. the result is [Ok]). *)
Theorem C14_miser_constant_exact (us : Z -> R) c region ncall :
  length region = (2 * rdim region)%nat -> (15 <= ncall)%Z -> - big ROps <= c <= big ROps ->
  match integrate_miser ROps us (fun _ => c) region ncall with
  | Ok r => r = volume (lows region) (highs region) * c
  | _ => True
  end.
Proof. exact (integrate_miser_constant_exact us c region ncall). Qed.
Print Assumptions C14_miser_constant_exact.

(** Vegas: for any grid row that increases from >= 0 to <= 1, bins kg in 1..ng, and draws 0 < u < 1, every coordinate of the sampled point
    lies between the limits of its axis (region {los, los + dxs}) and its bin is one of the nd bins in use (no stale entry is read). *)
Theorem C14_vegas_point_inside (us : Z -> R) : (forall k, 0 < us k < 1) -> forall (ng : Z) (n : nat),
  (1 <= n <= 50)%nat -> (1 <= ng)%Z ->
  forall kgs rows los dxs wgt pos,
  Forall (fun kg => (1 <= kg <= ng)%Z) kgs ->
  Forall (fun row => grid_ok row /\ length row = n) rows ->
  Forall (fun d => 0 <= d) dxs ->
  length rows = length kgs -> length los = length kgs -> length dxs = length kgs ->
  exists xs ias w p,
    vegas_sample ROps us kgs rows los dxs (1 / IZR ng * INR n) (INR n) wgt pos = Ok (xs, ias, w, p) /\
    cbox los (map (fun q => fst q + snd q) (combine los dxs)) xs /\
    Forall (fun ia => (1 <= ia <= Z.of_nat n)%Z) ias.
Proof. exact (vegas_sample_inside us). Qed.
Print Assumptions C14_vegas_point_inside.

(** "forget earlier calls", Vegas: Rebin(1/nd, nd) applied to the one-bin grid that init = 0 sets up (xi[j][0] = 1, weights 1) gives the
    uniform grid 1/nd, 2/nd, ..., 1 whatever the rest of the static row held ... *)
Theorem C14_vegas_rebin_resets_grid (nd : Z) : (2 <= nd)%Z -> forall (m' : nat) (stale : list R),
  rebin ROps (1 / IZR nd) nd (1 :: repeat 1 m') (1 :: stale)
  = Ok (unif (1 / IZR nd) 0 (Z.to_nat (nd - 1)) ++ [1] ++ skipn (Z.to_nat nd) (1 :: stale)).
Proof. exact (rebin_single nd). Qed.
Print Assumptions C14_vegas_rebin_resets_grid.

(** ... with init = 0 every static that the call goes on to read (all scalars, dx[0..ndim), the first nd entries of the first ndim grid rows:
    [vegas_live]) is written first and is a function of (region, ncall) only ... *)
Theorem C14_vegas_reinit s s' region ncall :
  wf_statics s -> wf_statics s' -> (rdim region <= 10)%nat ->
  rmap (vegas_live region) (vegas_init ROps s region 0 ncall) = rmap (vegas_live region) (vegas_init ROps s' region 0 ncall).
Proof. exact (vegas_init_forgets s s' region ncall). Qed.
Print Assumptions C14_vegas_reinit.

(** ... hence the value Vegas returns is independent of the statics left behind by whatever ran before. *)
Theorem C14_vegas_history_free (us : Z -> R) s s' f region ncall itmx :
  wf_statics s -> wf_statics s' -> (rdim region <= 10)%nat ->
  rmap fst (vegas ROps us s f region 0 ncall itmx) = rmap fst (vegas ROps us s' f region 0 ncall itmx).
Proof. exact (vegas_forgets us s s' f region ncall itmx). Qed.
Print Assumptions C14_vegas_history_free.

(** "Their result for a given call and random seed is the same whether or not other integrations, of any dimension and region, were run
    before it": for each of the three methods the value returned by Integrate_MC depends on (arguments, stream) only — the only state that
    survives a call is [vstate]; plain Monte Carlo and Miser neither read nor write it (Miser's counter iran starts at 0 in every call). *)
Theorem C14_integrate_mc_history_free (us : Z -> R) s s' m f region ncalls :
  wf_statics s -> wf_statics s' -> (rdim region <= 10)%nat ->
  rmap fst (integrate_mc ROps us s m f region ncalls) = rmap fst (integrate_mc ROps us s' m f region ncalls).
Proof. exact (integrate_mc_forgets us s s' m f region ncalls). Qed.
Print Assumptions C14_integrate_mc_history_free.

Theorem C14_plain_and_miser_stateless (us : Z -> R) s f region ncalls :
  integrate_mc ROps us s M_MonteCarlo f region ncalls = Ok (brute_force ROps us f region ncalls, s) /\
  integrate_mc ROps us s M_Miser f region ncalls = rmap (fun r => (r, s)) (integrate_miser ROps us f region ncalls).
Proof. exact (plain_and_miser_stateless us s f region ncalls). Qed.
Print Assumptions C14_plain_and_miser_stateless.

(** "all call histories: sequences of integrations of differing dimension, region and budget preceding the observed call" — the calls of a
    history may also be brought to an end early by their integrand.  A call whose integrand never throws is the ordinary call; plain Monte Carlo
    and Miser are brought to an end exactly when the integrand throws within the budget and leave no trace ... *)
Theorem C14_throwing_call_model (us : Z -> R) s m f region ncalls n :
  ((n <= 0)%Z -> integrate_mc_throwing ROps us s m f region ncalls n = rmap (fun r => (Some (fst r), snd r)) (integrate_mc ROps us s m f region ncalls)) /\
  ((1 <= n <= ncalls)%Z -> integrate_mc_throwing ROps us s M_MonteCarlo f region ncalls n = Ok (None, s) /\
                           integrate_mc_throwing ROps us s M_Miser f region ncalls n = Ok (None, s)).
Proof. exact (conj (integrate_mc_throwing_never ROps us s m f region ncalls n) (throwing_plain_and_miser us s f region ncalls n)). Qed.
Print Assumptions C14_throwing_call_model.

(** ... every call, run to its end or not, leaves well-formed statics behind (for Vegas: whatever iteration the exception interrupts, the
    grid keeps its rows and no row is empty), so do whole histories ... *)
Theorem C14_history_leaves_wf_statics h s s' :
  wf_statics s -> history_ok h -> run_history ROps s h = Ok s' -> wf_statics s'.
Proof. exact (run_history_wf h s s'). Qed.
Print Assumptions C14_history_leaves_wf_statics.

(** ... and the observed call after any such history, started in a fresh process, returns what it returns in a fresh process. *)
Theorem C14_observed_call_forgets_history (us : Z -> R) h s m f region ncalls :
  history_ok h -> run_history ROps (vstate0 ROps) h = Ok s -> (rdim region <= 10)%nat ->
  rmap fst (integrate_mc ROps us s m f region ncalls) = rmap fst (integrate_mc ROps us (vstate0 ROps) m f region ncalls).
Proof. exact (observed_call_forgets_history us h s m f region ncalls). Qed.
Print Assumptions C14_observed_call_forgets_history.

(** The integrators draw from Sample_Uniform of the Statistics facility, which the rest of a program uses as well, with limits of its own.
    Sample_Uniform(PRNG, a, b) with a < b lies in [a, b) for every draw of the generator, and with the limits 0, 1 of the integrators it is that draw ... *)
Theorem C14_sample_uniform_in_range (us : Z -> R) pos a b :
  (0 <= us pos < 1 -> a < b -> a <= sample_uniform ROps us pos a b < b) /\ sample_uniform ROps us pos 0 1 = us pos.
Proof. exact (conj (sample_uniform_in_range us pos a b) (sample_uniform_default us pos)). Qed.
Print Assumptions C14_sample_uniform_in_range.

(** ... and draws made before the observed call, with whatever limits, in between integrations ([hevent]: an integration or a series of draws), leave
    nothing behind: the observed call returns what it returns in a fresh process. *)
Theorem C14_observed_call_forgets_events (us : Z -> R) h s m f region ncalls :
  events_ok h -> run_events ROps (vstate0 ROps) h = Ok s -> (rdim region <= 10)%nat ->
  rmap fst (integrate_mc ROps us s m f region ncalls) = rmap fst (integrate_mc ROps us (vstate0 ROps) m f region ncalls).
Proof. exact (observed_call_forgets_events us h s m f region ncalls). Qed.
Print Assumptions C14_observed_call_forgets_events.

(** "the two- and three-dimensional front ends pass the region in the right order": the region vectors built by Integrate_2D/3D
    (C13_Model.mc_region_2d/3d, see also Properties_C13.C13_mc_region_layout_2d/3d) have lower corner (x1,y1(,z1)) and upper corner (x2,y2(,z2)). *)
Theorem C14_front_end_regions (x1 x2 y1 y2 z1 z2 : R) :
  lows (mc_region_2d x1 x2 y1 y2) = [x1; y1] /\ highs (mc_region_2d x1 x2 y1 y2) = [x2; y2] /\
  lows (mc_region_3d x1 x2 y1 y2 z1 z2) = [x1; y1; z1] /\ highs (mc_region_3d x1 x2 y1 y2 z1 z2) = [x2; y2; z2].
Proof. exact (front_end_regions x1 x2 y1 y2 z1 z2). Qed.
Print Assumptions C14_front_end_regions.

(** "all regions": the limits of an axis may be given in descending order.  MC_Volume, the factor of plain Monte Carlo and Miser, is then the
    volume of the box spanned by the limits with one factor -1 for every descending axis (the sign of the oriented integral), not merely for one ... *)
Theorem C14_volume_oriented (region : list R) :
  mc_volume ROps region
  = (-1) ^ descending (lows region) (highs region) * volume (mins (lows region) (highs region)) (maxs (lows region) (highs region)) /\
  0 <= volume (mins (lows region) (highs region)) (maxs (lows region) (highs region)).
Proof. exact (conj (eq_trans (mc_volume_spec region) (volume_oriented (lows region) (highs region))) (volume_box_nonneg (lows region) (highs region))). Qed.
Print Assumptions C14_volume_oriented.

(** ... Random_Point stays between the two limits of every axis whatever their order, so plain Monte Carlo looks at the integrand only inside the box ... *)
Theorem C14_random_point_between (us : Z -> R) : (forall k, 0 <= us k < 1) -> forall region pos,
  cbox (mins (lows region) (highs region)) (maxs (lows region) (highs region)) (fst (random_point ROps us region pos)).
Proof. exact (random_point_between us). Qed.
Print Assumptions C14_random_point_between.

Theorem C14_plain_mc_points_between (us : Z -> R) : (forall k, 0 <= us k < 1) -> forall f f' region ncall,
  (forall pt, cbox (mins (lows region) (highs region)) (maxs (lows region) (highs region)) pt -> f pt = f' pt) ->
  brute_force ROps us f region ncall = brute_force ROps us f' region ncall.
Proof. exact (brute_force_points_between us). Qed.
Print Assumptions C14_plain_mc_points_between.

(** ... and plain Monte Carlo and Miser integrate a constant over an oriented region to (-1)^(descending axes) * volume of the box * c. *)
Theorem C14_constant_exact_oriented (us : Z -> R) c region ncall :
  ((0 < ncall)%Z ->
   brute_force ROps us (fun _ => c) region ncall
   = (-1) ^ descending (lows region) (highs region) * volume (mins (lows region) (highs region)) (maxs (lows region) (highs region)) * c) /\
  (length region = (2 * rdim region)%nat -> (15 <= ncall)%Z -> - big ROps <= c <= big ROps ->
   match integrate_miser ROps us (fun _ => c) region ncall with
   | Ok r => r = (-1) ^ descending (lows region) (highs region) * volume (mins (lows region) (highs region)) (maxs (lows region) (highs region)) * c
   | _ => True
   end).
Proof. exact (conj (brute_force_constant_oriented us c region ncall) (integrate_miser_constant_oriented us c region ncall)). Qed.
Print Assumptions C14_constant_exact_oriented.

(** "the two- and three-dimensional front ends pass the region in the right order", the spherical overload of Integrate_3D with a Monte-Carlo method:
    region {r1, costheta_1, phi_1, r2, costheta_2, phi_2}, 30000 calls by default, integrand r^2 f(r sin(acos c) cos phi, r sin(acos c) sin phi, r cos(acos c)). *)
Theorem C14_spherical_front_end (I : backend -> (R -> res R) -> R -> R -> res R) (MC : method -> (list R -> R) -> list R -> Z -> res R)
  (m : method) (F : R -> R -> R -> R) (r1 r2 c1 c2 phi1 phi2 : R) (p : Z) :
  is_mc_method m = true ->
  integrate_3d_spherical ROps I MC m F r1 r2 c1 c2 phi1 phi2 p
  = MC m (fun args => let r := nth0 ROps args 0 in let c := nth0 ROps args 1 in let phi := nth0 ROps args 2 in
                      r * r * F (r * sin (acos c) * cos phi) (r * sin (acos c) * sin phi) (r * cos (acos c)))
       [r1; c1; phi1; r2; c2; phi2] (if (p =? 0)%Z then 30000%Z else p).
Proof. exact (spherical_front_end I MC m F r1 r2 c1 c2 phi1 phi2 p). Qed.
Print Assumptions C14_spherical_front_end.

(** "evaluate the integrand only at points inside the given hyper-rectangle", Vegas, all iterations.  The sampling map stays inside the region as long as
    every grid row increases from >= 0 to <= 1 (C14_vegas_point_inside); the grid is rewritten by Rebin at the end of every iteration.
    Rebin in general ([psum r k] = r[0] + ... + r[k-1]): for ANY positive weights r[0..nd) and rc = their mean, Rebin(rc, nd, r, xin, xi, j) comes to an end,
    reads r and xi[j] only inside their nd entries in use (the outcome is [Ok], not [OOB] / [Fuel]), leaves an increasing row in [0,1] whose last entry in use
    is 1, and keeps the entries beyond nd (the hypotheses are satisfiable: rebin_example). *)
Theorem C14_vegas_rebin_keeps_grid (n : nat) (r row : list R) :
  (2 <= n)%nat -> length r = n -> Forall (fun x => 0 < x) r -> (n <= length row)%nat -> grid_ok (firstn n row) ->
  exists row', rebin ROps (psum r n / INR n) (Z.of_nat n) r row = Ok row' /\
               length row' = length row /\ grid_ok (firstn n row') /\ nth (n - 1) row' 0 = 1 /\ skipn n row' = skipn n row.
Proof. exact (rebin_keeps_grid n r row). Qed.
Print Assumptions C14_vegas_rebin_keeps_grid.

(** The refinement step of an iteration (smoothing of d, the weights pow(..., ALPH) — positive over the reals —, Rebin per axis, or "no signal: keep the row")
    never fails and maps grids to grids, whatever was accumulated in d. *)
Theorem C14_vegas_refine_keeps_grid (s : @vstate R) (n : nat) : (2 <= n)%nat -> v_nd s = Z.of_nat n -> v_xnd s = INR n ->
  forall d rows, length d = length rows -> Forall (fun col => length col = n) d -> Forall (fun row => grid_ok row /\ length row = n) rows ->
  exists rows', vegas_refine ROps s d rows = Ok rows' /\ length rows' = length rows /\ Forall (fun row => grid_ok row /\ length row = n) rows'.
Proof. exact (vegas_refine_keeps_grid s n). Qed.
Print Assumptions C14_vegas_refine_keeps_grid.

(** Invariant over any number of iterations ([vlive_ok]: nd = n bins in 2..50, ng >= 1 strata, dxg = nd/ng, every row in use a grid, widths dx >= 0): two integrands
    that agree on the box {region[j], region[j] + dx[j]} give the same value, the same statics and the same position in the stream after itmx iterations, for every
    stream with values in (0,1) — the integrand is looked at only inside the box, on the refined grids as well. *)
Theorem C14_vegas_iterations_points_inside (us : Z -> R) : (forall k, 0 < us k < 1) -> forall region dxs f f',
  (forall pt, cbox (lows region) (map (fun q => fst q + snd q) (combine (lows region) dxs)) pt -> f pt = f' pt) ->
  forall n itmx s integral pos, vlive_ok region dxs n s ->
  vegas_iterations ROps us itmx f s region integral pos = vegas_iterations ROps us itmx f' s region integral pos.
Proof. exact (vegas_iterations_points_inside us). Qed.
Print Assumptions C14_vegas_iterations_points_inside.

(** The whole call as Integrate_MC makes it (init = 0), from whatever statics earlier calls left behind, for 1..10 dimensions and budgets >= 2:
    the initialisation establishes the invariant (uniform grid, nd in 2..50, ng >= 1), so Vegas' value and the statics it leaves depend on the integrand
    only through its values inside the region (hypotheses satisfiable: vegas_call_example, stream_example). *)
Theorem C14_vegas_points_inside (us : Z -> R) : (forall k, 0 < us k < 1) -> forall s f f' region ncalls,
  wf_statics s -> (1 <= rdim region <= 10)%nat -> (2 <= ncalls)%Z -> ordered (lows region) (highs region) ->
  (forall pt, cbox (lows region) (highs region) pt -> f pt = f' pt) ->
  integrate_mc ROps us s M_Vegas f region ncalls = integrate_mc ROps us s M_Vegas f' region ncalls.
Proof. exact (integrate_mc_vegas_points_inside us). Qed.
Print Assumptions C14_vegas_points_inside.

(** "evaluate the integrand only at points inside the given hyper-rectangle" and "the two- and three-dimensional front ends pass the region in the right order", END TO END
    through the front ends: Integrate_2D / Integrate_3D (C13_Model.integrate_2d / integrate_3d) with the method "Monte-Carlo", on top of this model's Integrate_MC started
    from ANY statics [s] ([mc_of us s]: also a call made from the integrand of another integration under way, through the same front end or another one — in the model
    the region is a value built afresh by each call): two integrands that agree on the rectangle spanned by the limits (whatever their order) give the same result ... *)
Theorem C14_front_2d_plain_mc_points_inside (us : Z -> R) : (forall k, 0 <= us k < 1) ->
  forall (I : backend -> (R -> res R) -> R -> R -> res R) (s : vstate) (f f' : R -> R -> R) (x1 x2 y1 y2 : R) (p : Z),
  (forall x y, Rmin x1 x2 <= x <= Rmax x1 x2 -> Rmin y1 y2 <= y <= Rmax y1 y2 -> f x y = f' x y) ->
  integrate_2d ROps I (mc_of us s) M_MonteCarlo f x1 x2 y1 y2 p = integrate_2d ROps I (mc_of us s) M_MonteCarlo f' x1 x2 y1 y2 p.
Proof. exact (front_2d_plain_mc_points_inside us). Qed.
Print Assumptions C14_front_2d_plain_mc_points_inside.

Theorem C14_front_3d_plain_mc_points_inside (us : Z -> R) : (forall k, 0 <= us k < 1) ->
  forall (I : backend -> (R -> res R) -> R -> R -> res R) (s : vstate) (f f' : R -> R -> R -> R) (x1 x2 y1 y2 z1 z2 : R) (p : Z),
  (forall x y z, Rmin x1 x2 <= x <= Rmax x1 x2 -> Rmin y1 y2 <= y <= Rmax y1 y2 -> Rmin z1 z2 <= z <= Rmax z1 z2 -> f x y z = f' x y z) ->
  integrate_3d ROps I (mc_of us s) M_MonteCarlo f x1 x2 y1 y2 z1 z2 p = integrate_3d ROps I (mc_of us s) M_MonteCarlo f' x1 x2 y1 y2 z1 z2 p.
Proof. exact (front_3d_plain_mc_points_inside us). Qed.
Print Assumptions C14_front_3d_plain_mc_points_inside.

(** (non-vacuity: two integrands that agree on [0,1] x [2,3] and differ outside) *)
Example C14_front_2d_points_inside_example :
  (forall x y : R, Rmin 0 1 <= x <= Rmax 0 1 -> Rmin 2 3 <= y <= Rmax 2 3 -> ex_f x y = ex_f' x y) /\ ex_f (-1) 2 <> ex_f' (-1) 2.
Proof. exact front_2d_points_inside_example. Qed.

(** ... and "integrate constants exactly" through the front ends, every stream, every statics, every budget p >= 0 (0 = the default 30000 calls), limits in any order:
    the oriented volume times the constant.  (Miser and Vegas through the front ends: C14_front_end_regions + the theorems on Integrate_MC above; not restated end to end.) *)
Theorem C14_front_plain_mc_constant_exact (us : Z -> R) (I : backend -> (R -> res R) -> R -> R -> res R) (s : vstate) (c x1 x2 y1 y2 z1 z2 : R) (p : Z) :
  (0 <= p)%Z ->
  integrate_2d ROps I (mc_of us s) M_MonteCarlo (fun _ _ => c) x1 x2 y1 y2 p = Ok ((x2 - x1) * (y2 - y1) * c) /\
  integrate_3d ROps I (mc_of us s) M_MonteCarlo (fun _ _ _ => c) x1 x2 y1 y2 z1 z2 p = Ok ((x2 - x1) * (y2 - y1) * (z2 - z1) * c).
Proof. exact (front_plain_mc_constant_exact us I s c x1 x2 y1 y2 z1 z2 p). Qed.
Print Assumptions C14_front_plain_mc_constant_exact.

(** SEVENTH PASS.  "call budgets 1e3..1e6", "evaluate the integrand only at points inside the given hyper-rectangle": Integrate_MC_Miser comes to an end on EVERY request in
    >= 1 dimensions — every integrand, every stream (no premise on either), every budget >= 0: the recursion is at most ncall/15 + 2 levels deep (every level with >= 60 points
    hands 15 <= nptl, nptr <= npts - 30 points to its halves), the split dimension jb — chosen from the pre-sample or, when no dimension qualifies, from the counter iran,
    which stays in 0..174999 — is a valid index of region and rmid (no read outside a container: the outcome is [Ok], not [OOB] / [Fuel]), and the generator is left at position
    ncall * dim: the integrand is evaluated EXACTLY ncall times, each time at a fresh Random_Point (hypotheses satisfiable: C14_miser_total_example). *)
Theorem C14_miser_completes_and_spends_budget (us : Z -> R) (s : vstate) (f : list R -> R) (region : list R) (ncall : Z) :
  length region = (2 * rdim region)%nat -> (1 <= rdim region)%nat -> (0 <= ncall)%Z ->
  exists ave iran', miser ROps us (Z.to_nat (ncall / 15 + 2)) f region ncall 0 0 = Ok (ave, iran', (ncall * Z.of_nat (rdim region))%Z) /\
                    integrate_mc ROps us s M_Miser f region ncall = Ok (mc_volume ROps region * ave, s).
Proof. exact (integrate_mc_miser_total us s f region ncall). Qed.
Print Assumptions C14_miser_completes_and_spends_budget.

(** "integrate constants exactly", Miser, now WITHOUT the proviso "whenever the model's fuel suffices" of C14_miser_constant_exact: the outcome is [Ok] and equals V * c. *)
Theorem C14_miser_constant_exact_total (us : Z -> R) c region ncall :
  length region = (2 * rdim region)%nat -> (1 <= rdim region)%nat -> (15 <= ncall)%Z -> - big ROps <= c <= big ROps ->
  integrate_miser ROps us (fun _ => c) region ncall = Ok (volume (lows region) (highs region) * c).
Proof. exact (integrate_miser_constant_total us c region ncall). Qed.
Print Assumptions C14_miser_constant_exact_total.

Example C14_miser_total_example :
  length [0; 2; 1; 5] = (2 * rdim [0; 2; 1; 5])%nat /\ (1 <= rdim [0; 2; 1; 5])%nat /\ (15 <= 1000)%Z /\ - big ROps <= 3 <= big ROps.
Proof. exact miser_total_example. Qed.

(** Plain Monte Carlo: the loop of Integrate_MC_Brute_Force leaves the generator at position ncall * dim — exactly ncall evaluations, for every integrand and stream. *)
Theorem C14_plain_mc_spends_budget (us : Z -> R) (f : list R -> R) (region : list R) (ncall : Z) :
  length region = (2 * rdim region)%nat -> (0 <= ncall)%Z ->
  fst (N.iter (Z.to_N ncall) (brute_force_step ROps us f region (mc_volume ROps region)) (0%Z, 0)) = (ncall * Z.of_nat (rdim region))%Z.
Proof. exact (brute_force_budget us f region ncall). Qed.
Print Assumptions C14_plain_mc_spends_budget.

(** Vegas comes to an end and stays inside its containers (over the reals, where the NaN exit cannot be taken): the for(;;) loop over the cells of the stratification is an
    odometer kg[ndim-1], ..., kg[0] with digits 1..ng — [kval ng kg] is the number it shows, least significant digit first; one step adds 1 and reports "all cells done" exactly
    when the number wraps around at ng^ndim, for every ng >= 1 and every number of digits ... *)
Theorem C14_vegas_odometer (ng : Z) : (1 <= ng)%Z -> forall kg, Forall (fun g => (1 <= g <= ng)%Z) kg ->
  ((kval ng kg + 1 < zpow ng (length kg))%Z -> snd (kg_advance kg ng) = false /\ kval ng (fst (kg_advance kg ng)) = (kval ng kg + 1)%Z) /\
  ((kval ng kg + 1 = zpow ng (length kg))%Z -> snd (kg_advance kg ng) = true).
Proof. exact (kg_advance_val ng). Qed.
Print Assumptions C14_vegas_odometer.

(** ... so the loop makes exactly ng^ndim passes (the model's fuel), every sample falls into a bin in use (the accumulation d[ia[j]-1][j] += ... never leaves the nd entries in
    use, also for the bins of the last sample of a cell that the mds < 0 branch reuses), and the refinement never fails: under the invariant [vlive_ok] any number of iterations
    has the outcome [Ok] — not [OOB] (a read or write outside the part of a container in use), not [Fuel] (a loop that does not end within its bound), for EVERY integrand ... *)
Theorem C14_vegas_iterations_complete (us : Z -> R) : (forall k, 0 < us k < 1) -> forall region dxs (f : list R -> R) n itmx s integral pos,
  vlive_ok region dxs n s -> exists v s' pos', vegas_iterations ROps us itmx f s region integral pos = Ok (v, s', pos').
Proof. exact (vegas_iterations_ok us). Qed.
Print Assumptions C14_vegas_iterations_complete.

(** ... and so has the whole call Integrate_MC(..., "Vegas"), from whatever statics earlier calls left behind, in 1..10 dimensions with budgets >= 2 (hypotheses satisfiable:
    vegas_call_example, stream_example).  Not a theorem for doubles: that the NaN exit is never taken (K-C14-1 is about accuracy, not about this exit; the zero function used to
    take it: fixed in 9c7f857, covered by the cases tagged zero). *)
Theorem C14_vegas_completes (us : Z -> R) : (forall k, 0 < us k < 1) -> forall s (f : list R -> R) region ncalls,
  wf_statics s -> (1 <= rdim region <= 10)%nat -> (2 <= ncalls)%Z -> ordered (lows region) (highs region) ->
  exists v s', integrate_mc ROps us s M_Vegas f region ncalls = Ok (v, s').
Proof. exact (integrate_mc_vegas_ok us). Qed.
Print Assumptions C14_vegas_completes.
