(** * C10 guard model: "meaningless requests stop the program with a diagnostic; valid ones never do".

    One small function per guarded entry point of libphysica.  Each mirrors ONLY the request validation
    and the index arithmetic of the C++ code as it is now (same tests, same order, same literals):
    - [Exit]  : the code prints a diagnostic and calls std::exit(EXIT_FAILURE);
    - [OOB]   : the code would do something undefined: index a container outside its bounds, divide an
                integer by zero, or ask for a container of 2^32-k rows after an unsigned wrap-around;
                theorems exclude it for every accepted request, and where the faithful model shows it the
                request is a candidate defect;
    - [Ok _]  : the call returns.
    Containers whose contents do not matter for the guard are represented by their sizes; [at_ n i] is the
    checked access to element i of a container of n elements ([at_length] in C10_Proofs.v: it is [getZ] on a
    list of that length).  `unsigned int` arithmetic is explicit: [u32]; conversion to `int`: [i32].
    Hand-written; tied to the code by harness/C10.cpp (every request runs in a child process under
    AddressSanitizer and UBSan) against the extraction of this file. *)
From Coq Require Import ZArith String Ascii List Bool Lia.
From LP Require Import Num.
Import ListNotations.
Local Open Scope Z_scope.
Local Open Scope res_scope.

Local Notation "a ;; b" := (rbind a (fun _ => b)) (at level 61, right associativity).

Definition u32 (z : Z) : Z := z mod 4294967296.
Definition i32 (z : Z) : Z := let m := z mod 4294967296 in if m <? 2147483648 then m else m - 4294967296.

Definition at_ (n i : Z) : res unit := if (i <? 0) || (n <=? i) then OOB else Ok tt.
(* an iterator begin()+k of a container of n elements may point one past the end *)
Definition iter_ (n k : Z) : res unit := if (k <? 0) || (n <? k) then OOB else Ok tt.
Definition exit_if (b : bool) : res unit := if b then Exit else Ok tt.

(** for(i = lo; i < hi; i++) body(i) *)
Fixpoint for_ (fuel : nat) (i : Z) (body : Z -> res unit) : res unit :=
  match fuel with
  | O => Ok tt
  | S f => body i ;; for_ f (i + 1) body
  end.
Definition for_range (lo hi : Z) (body : Z -> res unit) : res unit := for_ (Z.to_nat (hi - lo)) lo body.

Definition zlen {A} (l : list A) : Z := Z.of_nat (List.length l).
Fixpoint zsum (l : list Z) : Z := match l with [] => 0 | a :: r => a + zsum r end.

(** ** 1. Vector (Linear_Algebra.cpp) *)
(** Vector::operator[](unsigned i), both overloads; dimension = components.size() *)
Definition guard_vec_index (dim i : Z) : res unit :=
  if (i <? 0) || (i >=? dim) then Exit else at_ dim i.
(** Dot, operator+, operator-, operator+=, operator-= : the same shape test and the same loop
    components[i] (op) rhs[i] *)
Definition guard_vec_binary (d1 d2 : Z) : res unit :=
  if negb (d1 =? d2) then Exit
  else for_range 0 d1 (fun i => at_ d1 i ;; guard_vec_index d2 i).
Definition guard_cross (d1 d2 : Z) : res unit :=
  if negb (d1 =? 3) || negb (d2 =? 3) then Exit
  else at_ d1 1 ;; guard_vec_index d2 2 ;; at_ d1 2 ;; guard_vec_index d2 1 ;;
       at_ d1 2 ;; guard_vec_index d2 0 ;; at_ d1 0 ;; guard_vec_index d2 2 ;;
       at_ d1 0 ;; guard_vec_index d2 1 ;; at_ d1 1 ;; guard_vec_index d2 0.

(** double Vector::operator*(Vector v) const { return Dot(v); } : the by-value copy has the same size *)
Definition guard_vec_mul (d1 d2 : Z) : res unit := guard_vec_binary d1 d2.
(** Angle(v1, v2): v1 * v2 / (v1.Norm() * v2.Norm()), Norm() = sqrt(Dot( *this)); the only shape test is the
    one of Dot inside operator* *)
Definition guard_angle (d1 d2 : Z) : res unit :=
  guard_vec_mul d1 d2 ;; guard_vec_binary d1 d1 ;; guard_vec_binary d2 d2.
(** bool operator==(const Vector&, const Vector&): differing sizes give false, nothing is read *)
Definition guard_vec_eq (d1 d2 : Z) : res unit :=
  if negb (d1 =? d2) then Ok tt
  else for_range 0 d1 (fun i => guard_vec_index d1 i ;; guard_vec_index d2 i).

(** ** 2. Matrix: a matrix object is (rows, columns) with components a rows x columns table *)
(** Matrix(std::vector<std::vector<double>> entries), given the lengths of the rows of [entries]:
    columns(entries.empty() ? 0 : entries[0].size()) *)
Definition guard_mat_ctor (lens : list Z) : res unit :=
  let rows := zlen lens in
  let* columns := (if rows =? 0 then Ok 0 else getZ lens 0) in
  for_range 0 rows (fun i => let* l := getZ lens i in exit_if (negb (l =? columns))).
Definition rect (r c : Z) : list Z := repeat c (Z.to_nat r).

Definition guard_mat_index (rows i : Z) : res unit :=
  if (i <? 0) || (i >=? rows) then Exit else at_ rows i.
(** Delete_Row / Return_Row *)
Definition guard_row (rows r : Z) : res unit :=
  if (r <? 0) || (r >=? rows) then Exit else at_ rows r.
Definition guard_delete_column (rows cols c : Z) : res unit :=
  if (c <? 0) || (c >=? cols) then Exit
  else for_range 0 rows (fun i => at_ rows i ;; at_ cols c).
(** Transpose(): writes result[j][i], then builds Matrix(result_components) *)
Definition guard_transpose (rows cols : Z) : res unit :=
  for_range 0 rows (fun i => for_range 0 cols (fun j => at_ cols j ;; at_ rows i ;; at_ rows i ;; at_ cols j)) ;;
  guard_mat_ctor (rect cols rows).
Definition guard_return_column (rows cols c : Z) : res unit :=
  if (c <? 0) || (c >=? cols) then Exit
  else guard_transpose rows cols ;; guard_row cols c.
(** Sub_Matrix(int row, int column): Matrix M(components); M.Delete_Row(row); M.Delete_Column(column) *)
Definition guard_sub_matrix (rows cols r c : Z) : res unit :=
  guard_mat_ctor (rect rows cols) ;; guard_row rows (u32 r) ;; guard_delete_column (rows - 1) cols (u32 c).

(** Plus / Minus: shape test, loop, result through Matrix(result_components) *)
Definition guard_mat_sum_loop (r1 c1 r2 c2 : Z) : res unit :=
  for_range 0 r1 (fun i => for_range 0 c1 (fun j =>
    at_ r1 i ;; at_ c1 j ;; guard_mat_index r2 i ;; at_ c2 j)).
Definition guard_mat_plus (r1 c1 r2 c2 : Z) : res unit :=
  if negb (r1 =? r2) || negb (c1 =? c2) then Exit
  else guard_mat_sum_loop r1 c1 r2 c2 ;; guard_mat_ctor (rect r1 c1).
(** operator+= / operator-= : same test and loop, no new object *)
Definition guard_mat_pluseq (r1 c1 r2 c2 : Z) : res unit :=
  if negb (r1 =? r2) || negb (c1 =? c2) then Exit
  else guard_mat_sum_loop r1 c1 r2 c2.
(** Product(const Matrix&) *)
Definition guard_mat_product (r1 c1 r2 c2 : Z) : res unit :=
  if negb (c1 =? r2) then Exit
  else for_range 0 r1 (fun i => for_range 0 c2 (fun j => for_range 0 c1 (fun k =>
         guard_mat_index r1 i ;; at_ c2 j ;; at_ r1 i ;; at_ c1 k ;; guard_mat_index r2 k ;; at_ c2 j))).
(** Product(const Vector&) *)
Definition guard_mat_vec (rows cols d : Z) : res unit :=
  if negb (d =? cols) then Exit
  else for_range 0 rows (fun i => for_range 0 cols (fun j =>
         at_ rows i ;; at_ rows i ;; at_ cols j ;; guard_vec_index d j)).
(** operator*(const Vector&, const Matrix&) *)
Definition guard_vec_mat (d rows cols : Z) : res unit :=
  if negb (d =? rows) then Exit
  else for_range 0 cols (fun i => for_range 0 rows (fun j =>
         at_ cols i ;; guard_vec_index d j ;; guard_mat_index rows j ;; at_ cols i)).
(** Outer_Vector_Product(lhs, rhs): Matrix M(lhs.Size(), rhs.Size()); M[i][j] = lhs[i] * rhs[j]; every pair of
    sizes is meaningful *)
Definition guard_outer (d1 d2 : Z) : res unit :=
  for_range 0 d1 (fun i => for_range 0 d2 (fun j =>
    guard_mat_index d1 i ;; at_ d2 j ;; guard_vec_index d1 i ;; guard_vec_index d2 j)).
Definition guard_trace (rows cols : Z) : res unit :=
  if negb (rows =? cols) then Exit
  else for_range 0 rows (fun i => at_ rows i ;; at_ cols i).
(** Determinant(): Laplace expansion along the first row; fuel = rows *)
Fixpoint guard_det (fuel : nat) (rows cols : Z) : res unit :=
  if negb (rows =? cols) then Exit
  else if rows =? 1 then at_ rows 0 ;; at_ cols 0
  else if rows =? 2 then at_ rows 0 ;; at_ cols 0 ;; at_ rows 1 ;; at_ cols 1 ;; at_ rows 0 ;; at_ cols 1 ;; at_ rows 1 ;; at_ cols 0
  else match fuel with
       | O => Fuel
       | S f =>
           for_range 0 cols (fun j => at_ rows j ;; at_ rows 0 ;; at_ cols j ;; guard_sub_matrix rows cols 0 j) ;;
           for_range 0 cols (fun j => at_ rows j ;; at_ cols j ;; guard_det f (rows - 1) (cols - 1))
       end.
Definition guard_determinant (rows cols : Z) : res unit := guard_det (S (Z.to_nat rows)) rows cols.
(** Rotation_Matrix(alpha, dim, axis) *)
Definition guard_rotation (dim axis_size : Z) : res unit :=
  if dim =? 2 then guard_mat_ctor [2; 2]
  else if dim =? 3 then
    if negb (axis_size =? 3) then Exit
    else for_range 0 axis_size (fun i => at_ axis_size i) ;;
         guard_vec_index axis_size 0 ;; guard_vec_index axis_size 1 ;; guard_vec_index axis_size 2 ;;
         guard_mat_ctor [3; 3; 3]
  else Exit.

(** Matrix(std::vector<std::vector<Matrix>> block_matrices): [b] holds (Rows, Columns) of every block *)
Definition blk (b : list (list (Z * Z))) (r c : Z) : res (Z * Z) := let* row := getZ b r in getZ row c.
Fixpoint forb_ (fuel : nat) (i : Z) (acc : bool) (body : Z -> bool -> res bool) : res bool :=
  match fuel with
  | O => Ok acc
  | S f => let* acc' := body i acc in forb_ f (i + 1) acc' body
  end.
Definition forb_range (lo hi : Z) (acc : bool) (body : Z -> bool -> res bool) : res bool :=
  forb_ (Z.to_nat (hi - lo)) lo acc body.
Definition block_valid (b : list (list (Z * Z))) : res bool :=
  (* valid_dimension = !block_matrices.empty() && !block_matrices[0].empty() *)
  let* v0 := (if zlen b =? 0 then Ok false else let* row0 := getZ b 0 in Ok (negb (zlen row0 =? 0))) in
  (* every row holds as many blocks as row 0 *)
  let* v1 := forb_range 0 (zlen b) v0 (fun row acc =>
    if acc then let* brow := getZ b row in let* row0 := getZ b 0 in Ok (zlen brow =? zlen row0) else Ok false) in
  (* neighbouring blocks agree in the shared dimension; the flag is tested once per row of blocks *)
  forb_range 0 (zlen b) v1 (fun row acc =>
    if acc then
      let* brow := getZ b row in
      forb_range 0 (zlen brow) acc (fun col acc =>
        let* rc := blk b row col in
        let* acc1 :=
          (if negb (row =? 0) then let* p := blk b (row - 1) col in Ok (if negb (snd rc =? snd p) then false else acc)
           else Ok acc) in
        (if negb (col =? 0) then let* q := blk b row (col - 1) in Ok (if negb (fst rc =? fst q) then false else acc1)
         else Ok acc1))
    else Ok false).
Fixpoint collect_ (fuel : nat) (i : Z) (f : Z -> res Z) : res (list Z) :=
  match fuel with
  | O => Ok []
  | S fl => let* a := f i in let* r := collect_ fl (i + 1) f in Ok (a :: r)
  end.
Definition guard_block (b : list (list (Z * Z))) : res unit :=
  let* valid := block_valid b in
  if negb valid then Exit
  else
    let* block_rows := collect_ (List.length b) 0 (fun row => let* rc := blk b row 0 in Ok (fst rc)) in
    let* row0 := getZ b 0 in
    let* block_columns := collect_ (List.length row0) 0 (fun col => let* rc := blk b 0 col in Ok (snd rc)) in
    let rows := zsum block_rows in
    let columns := zsum block_columns in
    for_range 0 (zlen b) (fun row =>
      let* brow := getZ b row in
      for_range 0 (zlen brow) (fun col =>
        iter_ (zlen block_rows) row ;; iter_ (zlen block_columns) col ;;
        let i_offset := zsum (firstn (Z.to_nat row) block_rows) in
        let j_offset := zsum (firstn (Z.to_nat col) block_columns) in
        let* rc := blk b row col in
        for_range 0 (fst rc) (fun i => for_range 0 (snd rc) (fun j =>
          at_ rows (i_offset + i) ;; at_ columns (j_offset + j) ;; guard_mat_index (fst rc) i ;; at_ (snd rc) j)))).

(** ** 3. Lists and utilities (List_Manipulations.hpp, Utilities.cpp, Natural_Units.cpp) *)
(** Transpose_Lists(lists), given the lengths of the inner lists *)
Definition guard_transpose_lists (lens : list Z) : res unit :=
  let N := zlen lens in
  if N =? 0 then Ok tt else
  let* M := getZ lens 0 in
  for_range 1 N (fun i => let* l := getZ lens i in exit_if (negb (l =? M))) ;;
  for_range 0 N (fun i => for_range 0 M (fun j =>
    at_ M j ;; at_ N i ;; at_ N i ;; (let* l := getZ lens i in at_ l j))).
(** Sub_List(v, int i1, unsigned i2): never exits; the two iterators it builds *)
Definition guard_sub_list (size i1 i2 : Z) : res unit :=
  let i1 := if i1 <? 0 then 0 else i1 in
  if (size =? 0) || (u32 i1 >=? size) || (i2 <? u32 i1) then Ok tt
  else let i2 := if i2 >=? size then u32 (size - 1) else i2 in
       iter_ size i1 ;; iter_ size (i2 + 1) ;; (if i2 + 1 <? i1 then OOB else Ok tt).
(** Import_List(filepath): the only test is the existence of the file *)
Definition guard_import_list (file_exists : bool) : res unit := exit_if (negb file_exists).
(** Import_Table(filepath, dimensions, ignored_initial_lines) on a file whose k-th line holds (nth k per_line)
    numbers.  lines = Count_Lines; rows = lines - ignored (unsigned, after the test lines <= ignored);
    columns = data_aux.size() / rows; then every remaining line is re-read and must hold `columns` numbers. *)
Definition guard_import_table (file_exists : bool) (per_line : list Z) (ignored ndims : Z) : res unit :=
  if negb file_exists then Exit
  else
    let ndata := zsum (skipn (Z.to_nat ignored) per_line) in
    let lines := zlen per_line in
    if (lines <=? ignored) || (ndata =? 0) then Exit
    else
      let rows := u32 (lines - ignored) in
      if rows =? 0 then OOB                     (* integer division by zero *)
      else
        let columns := ndata / rows in
        if negb (u32 (rows * columns) =? ndata) then Exit
        else
          (* every remaining line has to hold exactly one row of the table *)
          for_range ignored lines (fun i => let* n := getZ per_line i in exit_if (negb (n =? columns))) ;;
          if negb (ndims =? 0) && negb (ndims =? columns) then Exit
        else
          for_range 0 rows (fun i => for_range 0 columns (fun j =>
            (if ndims =? 0 then Ok tt else at_ ndims j) ;; at_ rows i ;; at_ columns j ;; at_ ndata (i * columns + j))).
(** Export_Table(filepath, data, dimensions, header), given the lengths of the rows of [data] *)
Definition guard_export_table (lens : list Z) (ndims : Z) : res unit :=
  for_range 0 (zlen lens) (fun line =>
    let* columns := getZ lens line in
    if negb (ndims =? 0) && negb (ndims =? columns) then Exit
    else for_range 0 columns (fun column => (if ndims =? 0 then Ok tt else at_ ndims column) ;; at_ columns column)).
(** In_Units(table, dimensions) *)
Definition guard_in_units_table (lens : list Z) (ndims : Z) : res unit :=
  for_range 0 (zlen lens) (fun i =>
    let* l := getZ lens i in
    if negb (l =? ndims) then Exit
    else for_range 0 l (fun j => at_ (zlen lens) i ;; at_ ndims j ;; at_ l j ;; at_ ndims j)).
(** Workload_Distribution(workers, tasks) *)
Definition guard_workload (workers tasks : Z) : res unit :=
  if workers =? 0 then Exit
  else
    let n := u32 (workers + 1) in
    for_range 0 workers (fun i => at_ n (i + 1) ;; at_ n i) ;;
    for_range 0 (tasks mod workers) (fun i => at_ n (workers - i)).
(** Minimization::minimize(starting_point, deltas, func) *)
Definition guard_minimize_deltas (nstart ndeltas : Z) : res unit :=
  if negb (ndeltas =? nstart) then Exit else
  for_range 0 (nstart + 1) (fun i =>
    for_range 0 nstart (fun j => at_ (nstart + 1) i ;; at_ nstart j ;; at_ nstart j) ;;
    (if negb (i =? 0) then at_ (nstart + 1) i ;; at_ nstart (i - 1) ;; at_ ndeltas (i - 1) else Ok tt)).
(** Perform_KDE: indices of the Cowling-Hall pseudo data, N_PseudoData = N_Data / 3.0 truncated *)
Definition guard_kde (n : Z) : res unit :=
  for_range 0 n (fun i => at_ n i ;; (if i <? n / 3 then at_ n (2 * i) ;; at_ n (3 * i) else Ok tt)).

(** ** 4. Method dispatch and Gauss-Legendre tables (Integration.cpp) *)
Local Open Scope string_scope.
Definition methods_1d : list string :=
  ["Trapezoidal"; "Gauss-Legendre"; "Gauss-Kronrod"; "Tanh-Sinh"; "Gauss-Legendre_2"; "Adaptive-Simpson"].
Definition methods_mc : list string := ["Monte-Carlo"; "Vegas"; "Miser"].
Fixpoint str_in (s : string) (l : list string) : bool :=
  match l with [] => false | a :: r => if String.eqb s a then true else str_in s r end.
Local Close Scope string_scope.
(** Integrate(func, a, b, method, parameter): the method name is tested before anything else *)
Definition guard_integrate (m : string) : res unit := exit_if (negb (str_in m methods_1d)).
(** Integrate_2D / Integrate_3D: the method is tested first *)
Definition guard_integrate_nd (m : string) : res unit :=
  if str_in m methods_1d then Ok tt else if str_in m methods_mc then Ok tt else Exit.
Definition guard_integrate_mc (m : string) : res unit := exit_if (negb (str_in m methods_mc)).
(** Integrate_Gauss_Legendre(function_values, roots_and_weights), given the row lengths of the table *)
Definition guard_gauss_legendre (nf : Z) (lens : list Z) : res unit :=
  if negb (nf =? zlen lens) then Exit
  else for_range 0 (zlen lens) (fun i => let* l := getZ lens i in exit_if (negb (l =? 2))) ;;
       for_range 0 nf (fun i => at_ nf i ;; (let* l := getZ lens i in at_ l 1)).

(** ** 5. Sizes in Statistics.cpp *)
Definition guard_metropolis (ndomain : Z) : res unit :=
  if ndomain =? 0 then Ok tt else if ndomain =? 2 then at_ ndomain 0 ;; at_ ndomain 1 else Exit.
Definition guard_metropolis_2d (ndomain : Z) : res unit :=
  if ndomain =? 0 then Ok tt
  else if ndomain =? 4 then at_ ndomain 0 ;; at_ ndomain 1 ;; at_ ndomain 2 ;; at_ ndomain 3 else Exit.
Definition guard_binned (npred nobs nbg : Z) : res unit :=
  let nbg := if nbg =? 0 then npred else nbg in
  if negb (nobs =? npred) || negb (nbg =? npred) then Exit
  else for_range 0 npred (fun i => at_ npred i ;; at_ nobs i ;; at_ nbg i).

(** ** 6. Integer guards in Special_Functions.cpp *)
(** Factorial(n) with a memo table that holds [memo] entries at the time of the call (the table only
    grows; its size decides between a look-up and an extension, never the outcome) *)
Definition guard_factorial (memo n : Z) : res unit :=
  if n >? 170 then Exit else if n <? memo then at_ memo n else Ok tt.
Definition guard_vsh (component : Z) : res unit :=
  if (component =? 0) || (component =? 1) || (component =? 2) then Ok tt else Exit.

(** ** 7. Guards that compare or compute with doubles *)
Section Num.
Context {T : Type} (Ops : NumOps T).
Declare Scope num_scope.
Delimit Scope num_scope with num.
Local Notation "x + y" := (nadd Ops x y) : num_scope.
Local Notation "x - y" := (nsub Ops x y) : num_scope.
Local Notation "x * y" := (nmul Ops x y) : num_scope.
Local Notation "x / y" := (ndiv Ops x y) : num_scope.
Let zero := n0 Ops.
Let one := n1 Ops.

(** GammaLn(x) *)
Definition guard_gammaln (x : T) : res unit := exit_if (nleb Ops x zero).
(** Binomial_Coefficient(int n, int k) and the calls it makes *)
Definition guard_binomial_coefficient (memo n k : Z) : res unit :=
  if (k <? 0) || (n <? 0) then Exit
  else if n <? k then Ok tt
  else if n >? 170 then
    guard_gammaln (nofZ Ops n + one)%num ;; guard_gammaln (nofZ Ops k + one)%num ;; guard_gammaln (nofZ Ops (n - k) + one)%num
  else guard_factorial memo n ;; guard_factorial memo k ;; guard_factorial memo (n - k).
(** Round(N, digits): digits > digits_max = 7 is tested before the N == 0 shortcut *)
Definition guard_round (N : T) (digits : Z) : res unit :=
  if digits >? 7 then Exit else if neqb Ops N zero then Ok tt else Ok tt.
(** GammaQ(x, a) *)
Definition guard_gammaq (x a : T) : res unit :=
  if nltb Ops x zero || nleb Ops a zero then Exit
  else if neqb Ops x zero then Ok tt else guard_gammaln a.
(** Inv_GammaP(p, a) *)
Definition guard_inv_gammap (p a : T) : res unit :=
  if nleb Ops a zero then Exit
  else if ngeb Ops p one then Ok tt
  else if nleb Ops p zero then Ok tt
  else guard_gammaln a.
(** PMF_Binomial(trials, p, x), CDF_Binomial *)
Definition guard_pmf_binomial (memo trials : Z) (p : T) (x : Z) : res unit :=
  if nltb Ops p zero || nltb Ops one p then Exit
  else guard_binomial_coefficient memo (i32 trials) (i32 x).
Definition guard_cdf_binomial (memo trials : Z) (p : T) (x : Z) : res unit :=
  if nltb Ops p zero || nltb Ops one p then Exit
  else for_range 0 (x + 1) (fun i => guard_pmf_binomial memo trials p i).
(** PMF_Poisson(mean, events), CDF_Poisson(mean, events) (events + 1 is an unsigned sum), Inv_CDF_Poisson *)
Definition guard_pmf_poisson (mean : T) (events : Z) : res unit :=
  exit_if (nltb Ops mean zero || (events <? 0)).
Definition guard_cdf_poisson (mean : T) (events : Z) : res unit :=
  if nltb Ops mean zero || (events <? 0) then Exit
  else guard_gammaq mean (nofZ Ops (u32 (events + 1))).
Definition guard_inv_cdf_poisson (events : Z) (cdf : T) : res unit :=
  if nltb Ops cdf zero || nltb Ops one cdf then Exit
  else if events =? 0 then Ok tt
  else guard_inv_gammap (one - cdf)%num (nofZ Ops (u32 (events + 1))).
(** PDF_/CDF_Exponential(x, mean), PDF_/CDF_Maxwell_Boltzmann(x, a): the parameter must be positive *)
Definition guard_positive_parameter (a : T) : res unit := exit_if (nleb Ops a zero).

(** Find_Root(func, xLeft, xRight, accuracy): the bracket tests (Ridder's iteration itself is C02) *)
Definition guard_find_root (f : T -> T) (xl xr : T) : res unit :=
  let xl' := if nltb Ops xr xl then xr else xl in
  let xr' := if nltb Ops xr xl then xl else xr in
  let fl := f xl' in
  let fr := f xr' in
  if nisnan Ops fl || nisnan Ops fr then Exit
  else if (sign1 Ops fl * sign1 Ops fr >=? 0)%Z then
    (if neqb Ops fl zero then Ok tt else if neqb Ops fr zero then Ok tt else Exit)
  else Ok tt.
(** Inv_Erf(p) *)
Definition lit_1em16 : T := nlit Ops 1 10000000000000000 8112963841460668 (-106).
Definition guard_inv_erf (p : T) : res unit :=
  if nltb Ops (nabs Ops (p - one)%num) lit_1em16 then Ok tt
  else if nltb Ops (nabs Ops (p + one)%num) lit_1em16 then Ok tt
  else if ngeb Ops (nabs Ops p) one then Exit
  else guard_find_root (fun x => (nerf Ops x - p)%num) (nneg Ops (nofZ Ops 10)) (nofZ Ops 10).

(** *** Interpolation (Numerics.cpp) *)
(** Interpolation(arg_values, func_values) with the default unit arguments *)
Definition steffen_indices (N : Z) : res unit :=
  let M := u32 (N - 1) in
  for_range 0 M (fun i => at_ M i ;; at_ N (i + 1) ;; at_ N i ;; at_ M i ;; at_ N (i + 1) ;; at_ N i ;; at_ M i) ;;
  for_range 0 N (fun i =>
    at_ N i ;;
    if N =? 2 then at_ M 0
    else if i =? 0 then at_ M i ;; at_ M (i + 1)
    else if i =? u32 (N - 1) then at_ M (u32 (i - 1)) ;; at_ M (u32 (i - 2))
    else at_ M (u32 (i - 1)) ;; at_ M i) ;;
  for_range 0 M (fun i => at_ N i ;; at_ N (i + 1) ;; at_ M i ;; at_ N i).
Definition guard_interpolation (xs : list T) (nf : Z) : res unit :=
  let N := zlen xs in
  if negb (N =? nf) then Exit
  else if N <? 2 then Exit
  else
    for_range 1 N (fun i => let* a := getZ xs i in let* b := getZ xs (i - 1) in exit_if (nleb Ops a b)) ;;
    at_ N 0 ;; at_ N (u32 (N - 1)) ;; steffen_indices N.
(** Interpolation(data): every row must hold exactly two numbers *)
Definition guard_interpolation_table (data : list (list T)) : res unit :=
  for_range 0 (zlen data) (fun i => let* row := getZ data i in
     if negb (zlen row =? 2) then Exit else at_ (zlen row) 0 ;; at_ (zlen row) 1) ;;
  guard_interpolation (map (fun row => nth 0 row zero) data) (zlen data).

(** Bisection(x, jLeft, jRight) *)
Fixpoint bisection (fuel : nat) (xs : list T) (x : T) (jl jr : Z) : res Z :=
  if jr - jl >? 1 then
    match fuel with
    | O => Fuel
    | S f =>
        let jm := Z.shiftr (jr + jl) 1 in
        let* xm := getZ xs jm in
        if ngeb Ops x xm then bisection f xs x jm jr else bisection f xs x jl jm
    end
  else Ok jl.
(** Locate(x): a NaN argument exits; the domain test with the 1 % edge tolerance, then the search (the uncorrelated branch;
    C09 proves that the hunt branch returns the same index) *)
Definition locate (xs : list T) (x : T) : res Z :=
  let N := zlen xs in
  if nisnan Ops x then Exit else
  let* d0 := getZ xs 0 in
  let* d1 := getZ xs (u32 (N - 1)) in
  if nltb Ops x d0 || nltb Ops d1 x then
    let* x1 := getZ xs 1 in
    let* x0 := getZ xs 0 in
    let* xa := getZ xs (u32 (N - 1)) in
    let* xb := getZ xs (u32 (N - 2)) in
    let tol_left := (ndec Ops 1 100 * (x1 - x0))%num in
    let tol_right := (ndec Ops 1 100 * (xa - xb))%num in
    if nltb Ops (nabs Ops (x - d0)%num) tol_left then Ok 0
    else if nltb Ops (nabs Ops (x - d1)%num) tol_right then Ok (u32 (N - 2))
    else Exit
  else
    let* j := bisection (Z.to_nat N) xs x 0 (N - 1) in
    if j <? u32 (N - 2) then
      let* xn := getZ xs (j + 1) in
      if neqb Ops x xn then Ok (j + 1) else Ok j
    else Ok j.
(** Interpolate(x): x_values[j], a[j] .. d[j] (N-1 coefficients) *)
Definition guard_interpolate (xs : list T) (x : T) : res unit :=
  let N := zlen xs in
  let* j := locate xs x in at_ N j ;; at_ (u32 (N - 1)) j.
(** Integrate(x_1, x_2) *)
Definition guard_interp_integrate (xs : list T) (x1 x2 : T) : res unit :=
  let N := zlen xs in
  let a := if nltb Ops x2 x1 then x2 else x1 in
  let b := if nltb Ops x2 x1 then x1 else x2 in
  let* i1 := locate xs a in
  let* i2 := locate xs b in
  for_range 0 (i2 - i1 + 1) (fun i =>
    let j := i1 + i in
    at_ N j ;; (if i =? i2 - i1 then Ok tt else at_ N (j + 1)) ;; at_ (u32 (N - 1)) j).
(** Local_Minimum(x_1, x_2) / Local_Maximum(x_1, x_2) *)
Definition guard_local_extremum (xs : list T) (x1 x2 : T) : res unit :=
  let N := zlen xs in
  if nltb Ops x2 x1 then Exit
  else
    guard_interpolate xs x1 ;; guard_interpolate xs x2 ;;
    let* i1 := locate xs x1 in
    let* i2 := locate xs x2 in
    for_range i1 (i2 + 2) (fun i => at_ N i ;; at_ N i ;; at_ N i).

(** Interpolation_2D(x_val, y_val, func_values): shape of the table (given by its row lengths), then the
    two dummy one-dimensional interpolations *)
Definition guard_interpolation_2d (xs ys : list T) (lens : list Z) : res unit :=
  let Nx := zlen xs in
  let Ny := zlen ys in
  let* valid :=
    (if zlen lens =? Nx then
       forb_range 0 Nx true (fun i acc => if acc then let* l := getZ lens i in Ok (l =? Ny) else Ok false)
     else Ok false) in
  if negb valid then Exit
  else guard_interpolation xs Nx ;; guard_interpolation ys Ny.
(** Interpolation_2D::Interpolate(x, y) *)
Definition guard_interpolate_2d (xs ys : list T) (x y : T) : res unit :=
  let* i := locate xs x in
  let* j := locate ys y in
  at_ (zlen xs) i ;; at_ (zlen xs) (i + 1) ;; at_ (zlen ys) j ;; at_ (zlen ys) (j + 1).
(** Interpolation_2D(data_table): rows of three numbers, sorted grid *)
Fixpoint insert_unique (x : T) (l : list T) : list T :=
  match l with
  | [] => [x]
  | a :: r => if nltb Ops x a then x :: l else if neqb Ops x a then l else a :: insert_unique x r
  end.
Definition sort_unique (l : list T) : list T := fold_right insert_unique [] l.
Definition guard_interpolation_2d_table (data : list (list T)) : res unit :=
  for_range 0 (zlen data) (fun i => let* row := getZ data i in
     if negb (zlen row =? 3) then Exit else at_ (zlen row) 0 ;; at_ (zlen row) 1) ;;
  let x := sort_unique (map (fun row => nth 0 row zero) data) in
  let y := sort_unique (map (fun row => nth 1 row zero) data) in
  if negb (zlen x * zlen y =? zlen data) then Exit
  else
    for_range 0 (zlen x) (fun ix => for_range 0 (zlen y) (fun iy =>
      let i := ix * zlen y + iy in
      let* row := getZ data i in
      let* xv := getZ x ix in
      let* yv := getZ y iy in
      let* d0 := getZ row 0 in
      let* d1 := getZ row 1 in
      if negb (neqb Ops xv d0) || negb (neqb Ops yv d1) then Exit
      else at_ (zlen x) ix ;; at_ (zlen y) iy ;; at_ (zlen row) 2)) ;;
    guard_interpolation_2d x y (rect (zlen x) (zlen y)).

(** *** Unit arguments and several requests on one object
    Interpolation(arg_values, func_values, x_dim, f_dim): the two size tests on the lists as given, then
    `if(x_dim > 0.0) x_values[i] *= x_dim` (the default -1 leaves it as it is), then the strict-increase test on the
    CONVERTED abscissae (the conversion can round two neighbours onto one double or carry the last ones to infinity), and
    `domain = {x_values[0], x_values[N - 1]}` is taken from the converted abscissae; every later request is
    judged against the converted table. *)
Definition scale_units (dim : T) (l : list T) : list T :=
  if ngtb Ops dim zero then map (fun v => (v * dim)%num) l else l.
Definition guard_interpolation_units (xs : list T) (nf : Z) (x_dim : T) : res unit :=
  let N := zlen xs in
  if negb (N =? nf) then Exit
  else if N <? 2 then Exit
  else
    let xs' := scale_units x_dim xs in
    for_range 1 N (fun i => let* a := getZ xs' i in let* b := getZ xs' (i - 1) in exit_if (nleb Ops a b)) ;;
    at_ N 0 ;; at_ N (u32 (N - 1)) ;; steffen_indices N.
(** Interpolation(data, x_dim, f_dim): every row must hold exactly two numbers, then the constructor above *)
Definition guard_interpolation_table_units (data : list (list T)) (x_dim : T) : res unit :=
  for_range 0 (zlen data) (fun i => let* row := getZ data i in
     if negb (zlen row =? 2) then Exit else at_ (zlen row) 0 ;; at_ (zlen row) 1) ;;
  guard_interpolation_units (map (fun row => nth 0 row zero) data) (zlen data) x_dim.
Definition interp_domain (xs : list T) : res (T * T) :=
  let* a := getZ xs 0 in let* b := getZ xs (u32 (zlen xs - 1)) in Ok (a, b).
(** the requests of one object, in the order in which they are made.  Derivative(x, n) calls Locate(x) (and
    Interpolate(x) for n = 0); Global_Minimum / Global_Maximum only scan the function values *)
Inductive icall : Type :=
| ILocate (x : T) | IEval (x : T) | IDeriv (x : T) (n : Z) | IIntegrate (a b : T)
| ILocalMin (a b : T) | ILocalMax (a b : T) | IGlobal | ISave (points : Z).
(** Save_Function(filename, points): Interpolate(x) at every x of Linear_Space(domain[0], domain[1], points)
    (Utilities.cpp: {min} for steps < 2 or min == max, otherwise min + i * step with step = (max - min) / (steps - 1.0),
    i = 0 .. steps-1, i and steps converted from unsigned int) *)
Definition linear_space_point (a b : T) (steps i : Z) : T :=
  let step := ((b - a) / (nofZ Ops steps - one))%num in (a + nofZ Ops i * step)%num.
Definition guard_save_function (xs : list T) (points : Z) : res unit :=
  let* d := interp_domain xs in
  let a := fst d in let b := snd d in
  if (points <? 2) || neqb Ops a b then guard_interpolate xs a
  else for_range 0 points (fun i => guard_interpolate xs (linear_space_point a b points i)).
Definition guard_icall (xs : list T) (c : icall) : res unit :=
  match c with
  | ILocate x => let* _ := locate xs x in Ok tt
  | IEval x => guard_interpolate xs x
  | IDeriv x n => guard_interpolate xs x ;; (if n =? 0 then guard_interpolate xs x else Ok tt)
  | IIntegrate a b => guard_interp_integrate xs a b
  | ILocalMin a b => guard_local_extremum xs a b
  | ILocalMax a b => guard_local_extremum xs a b
  | IGlobal => for_range 0 (zlen xs) (fun i => at_ (zlen xs) i)
  | ISave points => guard_save_function xs points
  end.
Fixpoint guard_icalls (xs : list T) (cs : list icall) : res unit :=
  match cs with [] => Ok tt | c :: r => guard_icall xs c ;; guard_icalls xs r end.
(** what the Locate requests of such a sequence return (the interval index from which every later coefficient read is
    made), in the order of the requests; the other requests are performed as above.  The search state of the object
    (jLast, correlated_calls) does not appear: the hunt branch returns the index of the bisection branch (C09). *)
Fixpoint icalls_locs (xs : list T) (cs : list icall) : res (list Z) :=
  match cs with
  | [] => Ok []
  | c :: r =>
      match c with
      | ILocate x => let* j := locate xs x in let* l := icalls_locs xs r in Ok (j :: l)
      | _ => guard_icall xs c ;; icalls_locs xs r
      end
  end.
Definition session_locs (xs : list T) (x_dim : T) (cs : list icall) : res (list Z) :=
  icalls_locs (scale_units x_dim xs) cs.
Definition table_session_locs (data : list (list T)) (x_dim : T) (cs : list icall) : res (list Z) :=
  icalls_locs (scale_units x_dim (map (fun row => nth 0 row zero) data)) cs.
(** construction with unit arguments, then the requests; returns `domain` *)
Definition interp_session (xs : list T) (nf : Z) (x_dim f_dim : T) (cs : list icall) : res (T * T) :=
  guard_interpolation_units xs nf x_dim ;;
  let xs' := scale_units x_dim xs in
  let* d := interp_domain xs' in
  guard_icalls xs' cs ;; Ok d.
Definition interp_table_session (data : list (list T)) (x_dim f_dim : T) (cs : list icall) : res (T * T) :=
  guard_interpolation_table_units data x_dim ;;
  let xs' := scale_units x_dim (map (fun row => nth 0 row zero) data) in
  let* d := interp_domain xs' in
  guard_icalls xs' cs ;; Ok d.
(** Interpolation_2D(x, y, f, x_dim, y_dim, f_dim): shape test, conversion, then the two dummy 1D objects are
    built from the CONVERTED grids (so these are validated after the conversion) *)
Fixpoint guard_icalls_2d (xs ys : list T) (pts : list (T * T)) : res unit :=
  match pts with [] => Ok tt | p :: r => guard_interpolate_2d xs ys (fst p) (snd p) ;; guard_icalls_2d xs ys r end.
Definition interp2d_session (xs ys : list T) (lens : list Z) (x_dim y_dim : T) (pts : list (T * T)) : res (T * T * (T * T)) :=
  let xs' := scale_units x_dim xs in
  let ys' := scale_units y_dim ys in
  guard_interpolation_2d xs' ys' lens ;;
  let* dx := interp_domain xs' in
  let* dy := interp_domain ys' in
  guard_icalls_2d xs' ys' pts ;; Ok (dx, dy).
(** Interpolation_2D(data_table, x_dim, y_dim, f_dim): as [guard_interpolation_2d_table], the unit arguments are
    handed on to the grid constructor *)
Definition interp2d_table_session (data : list (list T)) (x_dim y_dim : T) (pts : list (T * T)) : res (T * T * (T * T)) :=
  for_range 0 (zlen data) (fun i => let* row := getZ data i in
     if negb (zlen row =? 3) then Exit else at_ (zlen row) 0 ;; at_ (zlen row) 1) ;;
  let x := sort_unique (map (fun row => nth 0 row zero) data) in
  let y := sort_unique (map (fun row => nth 1 row zero) data) in
  if negb (zlen x * zlen y =? zlen data) then Exit
  else
    for_range 0 (zlen x) (fun ix => for_range 0 (zlen y) (fun iy =>
      let i := ix * zlen y + iy in
      let* row := getZ data i in
      let* xv := getZ x ix in
      let* yv := getZ y iy in
      let* d0 := getZ row 0 in
      let* d1 := getZ row 1 in
      if negb (neqb Ops xv d0) || negb (neqb Ops yv d1) then Exit
      else at_ (zlen x) ix ;; at_ (zlen y) iy ;; at_ (zlen row) 2)) ;;
    interp2d_session x y (rect (zlen x) (zlen y)) x_dim y_dim pts.

(** Locate_Closest_Location(sorted_list, target) *)
Fixpoint is_sorted (l : list T) : bool :=
  match l with
  | [] => true
  | a :: r => match r with [] => true | b :: _ => if nltb Ops b a then false else is_sorted r end
  end.
Fixpoint upper_bound (l : list T) (t : T) : Z :=
  match l with [] => 0 | a :: r => if nltb Ops t a then 0 else 1 + upper_bound r t end.
Definition closest_location (l : list T) (t : T) : res Z :=
  if zlen l =? 0 then Exit
  else if negb (is_sorted l) then Exit
  else
    let n := zlen l in
    let idx := upper_bound l t in
    if idx =? n then Ok (u32 (n - 1))            (* size()-1 in unsigned arithmetic *)
    else if idx =? 0 then Ok 0
    else
      let* a := getZ l (idx - 1) in
      let* b := getZ l idx in
      if nltb Ops (nabs Ops (a - t)%num) (nabs Ops (b - t)%num) then Ok (u32 (idx - 1)) else Ok idx.

(** Inverse(): shape, Invertible() (= Determinant() != 0.0), then the index arithmetic of the
    Gauss-Jordan elimination on the N x 2N augmented matrix ("Matrix is singular" inside the elimination
    cannot fire in exact arithmetic once the determinant is non-zero: C05). *)
Definition mat_minor (m : list (list T)) (j : nat) : list (list T) :=
  map (fun row => firstn j row ++ skipn (S j) row) (tl m).
Fixpoint laplace_det (fuel : nat) (m : list (list T)) : T :=
  match fuel with
  | O => zero
  | S f =>
      match m with
      | [] => zero
      | [r] => nth 0 r zero
      | [r0; r1] => (nth 0 r0 zero * nth 1 r1 zero - nth 1 r0 zero * nth 0 r1 zero)%num
      | r0 :: _ =>
          fold_left (fun det j =>
              let sign := if Nat.even j then one else nneg Ops one in
              (det + (sign * nth j r0 zero) * laplace_det f (mat_minor m j))%num)
            (seq 0 (List.length r0)) zero
      end
  end.
Definition guard_inverse (rows cols : Z) (m : list (list T)) : res unit :=
  if negb (rows =? cols) then Exit
  else
    guard_determinant rows cols ;;
    if neqb Ops (laplace_det (List.length m) m) zero then Exit
    else
      let N := rows in
      for_range 0 N (fun i => for_range 0 N (fun j =>
        guard_mat_index N i ;; at_ (2 * N) j ;; at_ N i ;; at_ N j ;; guard_mat_index N i ;; at_ (2 * N) (j + N))) ;;
      for_range 0 N (fun i =>
        for_range (i + 1) N (fun j => guard_mat_index N j ;; at_ (2 * N) i) ;;
        guard_mat_index N i ;; at_ (2 * N) i ;;
        for_range 0 N (fun j => if negb (i =? j) then
           guard_mat_index N j ;; at_ (2 * N) i ;; for_range 0 (2 * N) (fun k => guard_mat_index N j ;; at_ (2 * N) k ;; guard_mat_index N i ;; at_ (2 * N) k)
           else Ok tt)) ;;
      for_range 0 N (fun i => for_range N (2 * N) (fun j => guard_mat_index N i ;; at_ (2 * N) j ;; at_ (2 * N) i)) ;;
      for_range 0 N (fun t => guard_delete_column N (2 * N - t) 0).
End Num.

(** ** 8. Call histories on one object *)
(** *** Factorial / Binomial_Coefficient: the memo table grows with every accepted request *)
Inductive fcall : Type := FFact (n : Z) | FBinom (n k : Z).
Definition factorial_call {T} (Ops : NumOps T) (memo : Z) (c : fcall) : res Z :=
  match c with
  | FFact n => guard_factorial memo n ;; Ok (Z.max memo (n + 1))
  | FBinom n k =>
      guard_binomial_coefficient Ops memo n k ;;
      Ok (if (n <? k) || (n >? 170) then memo else Z.max memo (n + 1))
  end.
Fixpoint factorial_session {T} (Ops : NumOps T) (memo : Z) (cs : list fcall) : res unit :=
  match cs with
  | [] => Ok tt
  | c :: r => let* memo' := factorial_call Ops memo c in factorial_session Ops memo' r
  end.

(** *** Vector: (dimension, components.size()) *)
Record vec : Type := { v_dim : Z; v_len : Z }.
Inductive vec_op : Type := VResize (d : Z) | VAssign (d : Z) | VCopy | VSet (d : Z) | VAddEq (d : Z).
Inductive vec_probe : Type := VPNone | VPAt (i : Z) | VPBinary (d : Z) | VPCross (d : Z)
  | VPBinaryR (d : Z) | VPCrossR (d : Z) | VPAngle (d : Z) | VPAngleR (d : Z) | VPEq (d : Z) | VPEqR (d : Z).
Definition vec_new (d : Z) : vec := {| v_dim := d; v_len := d |}.
Definition vec_wfb (v : vec) : bool := v_len v =? v_dim v.
Definition vec_step (v : vec) (o : vec_op) : res vec :=
  match o with
  | VResize d => Ok {| v_dim := d; v_len := d |}          (* dimension = dim; components.resize(dim) *)
  | VAssign d => Ok {| v_dim := d; v_len := d |}          (* dimension = dim; components.assign(dim, entry) *)
  | VCopy => Ok {| v_dim := v_dim v; v_len := v_len v |}  (* Vector(const Vector&) copies both members *)
  | VSet d => Ok (vec_new d)                              (* operator=(Vector(d, entry)) *)
  | VAddEq d =>
      if negb (v_dim v =? d) then Exit
      else for_range 0 (v_dim v) (fun i => at_ (v_len v) i ;; guard_vec_index d i) ;; Ok v
  end.
Fixpoint vec_history (v : vec) (ops : list vec_op) : res vec :=
  match ops with [] => Ok v | o :: r => let* v' := vec_step v o in vec_history v' r end.
Definition vec_probe_guard (v : vec) (p : vec_probe) : res unit :=
  if negb (vec_wfb v) then OOB else
  match p with
  | VPNone => Ok tt
  | VPAt i => guard_vec_index (v_dim v) i
  | VPBinary d => guard_vec_binary (v_dim v) d
  | VPCross d => guard_cross (v_dim v) d
  | VPBinaryR d => guard_vec_binary d (v_dim v)          (* the object is the RIGHT operand *)
  | VPCrossR d => guard_cross d (v_dim v)
  | VPAngle d => guard_angle (v_dim v) d
  | VPAngleR d => guard_angle d (v_dim v)
  | VPEq d => guard_vec_eq (v_dim v) d
  | VPEqR d => guard_vec_eq d (v_dim v)
  end.
Definition vec_session (d : Z) (ops : list vec_op) (p : vec_probe) : res vec :=
  let* v := vec_history (vec_new d) ops in vec_probe_guard v p ;; Ok v.

(** *** Matrix: rows, columns and the lengths of the rows of `components`.  Every member function reads
    components[i][j] for i < rows, j < columns, i.e. relies on the representation invariant
    "components holds `rows` rows of `columns` entries".  The member functions that restructure `components`
    (Resize, Assign, Delete_Row, Delete_Column, copy, assignment) are modelled on the actual row lengths; the others
    are the guards of section 2 when the invariant holds and [OOB] when it does not. *)
Record mat : Type := { m_rows : Z; m_cols : Z; m_lens : list Z }.
Definition mat_new (r c : Z) : mat := {| m_rows := r; m_cols := c; m_lens := rect r c |}.
(** Matrix(std::vector<std::vector<double>> entries) for a regular table: rows(entries.size()),
    columns(entries.empty() ? 0 : entries[0].size()) *)
Definition mat_of_rows (lens : list Z) : mat :=
  {| m_rows := zlen lens; m_cols := (if zlen lens =? 0 then 0 else nth 0 lens 0); m_lens := lens |}.
Definition mat_wfb (m : mat) : bool :=
  (zlen (m_lens m) =? m_rows m) && forallb (fun l => l =? m_cols m) (m_lens m).
(** std::vector::resize(n): the first n elements stay, value-initialised ones are appended *)
Definition vresize {A} (n : Z) (l : list A) (d : A) : list A :=
  firstn (Z.to_nat n) l ++ repeat d (Z.to_nat (n - zlen l)).
Inductive mat_op : Type :=
| MResize (r c : Z) | MAssign (r c : Z) | MDelRow (i : Z) | MDelCol (j : Z) | MCopy | MSet (r c : Z)
| MPlusEq (r c : Z) | MSum (r c : Z) | MProd (r c : Z) | MTranspose.
Inductive mat_probe : Type :=
| PNone | PAt (i : Z) | PRow (i : Z) | PCol (j : Z) | PPlus (r c : Z) | PPlusEq (r c : Z) | PMul (r c : Z) | PLMul (r c : Z)
| PMatVec (d : Z) | PVecMat (d : Z) | PTrace | PDet | PTranspose | PSub (i j : Z) | PEq.
Definition mat_step (m : mat) (o : mat_op) : res mat :=
  let r := m_rows m in let c := m_cols m in let lens := m_lens m in
  match o with
  | MResize r' c' | MAssign r' c' =>
      (* rows = row; columns = col; components.resize(row); for(i < rows) components[i].resize(col) / .assign(col, entry).
         A negative int becomes a size of 2^64 - k: std::length_error *)
      if (r' <? 0) || (c' <? 0) then OOB
      else let comps := vresize r' lens 0 in
           for_range 0 r' (fun i => at_ (zlen comps) i) ;;
           Ok {| m_rows := r'; m_cols := c'; m_lens := map (fun _ => c') comps |}
  | MDelRow i =>
      if (i <? 0) || (i >=? r) then Exit
      else at_ (zlen lens) i ;;        (* components.erase(components.begin() + row) *)
           Ok {| m_rows := r - 1; m_cols := c; m_lens := firstn (Z.to_nat i) lens ++ skipn (Z.to_nat (i + 1)) lens |}
  | MDelCol j =>
      if (j <? 0) || (j >=? c) then Exit
      else for_range 0 r (fun i => let* l := getZ lens i in at_ l j) ;;   (* components[i].erase(begin() + column) *)
           Ok {| m_rows := r; m_cols := c - 1;
                 m_lens := map (fun l => l - 1) (firstn (Z.to_nat r) lens) ++ skipn (Z.to_nat r) lens |}
  | MCopy => Ok {| m_rows := r; m_cols := c; m_lens := lens |}
  | MSet r' c' => Ok (mat_new r' c')
  | MPlusEq r' c' => if negb (mat_wfb m) then OOB else guard_mat_pluseq r c r' c' ;; Ok m
  | MSum r' c' =>     (* M = M + B: the result goes through Matrix(result_components) *)
      if negb (mat_wfb m) then OOB else guard_mat_plus r c r' c' ;; Ok (mat_of_rows (rect r c))
  | MProd r' c' =>    (* M = M * B: Matrix result(rows, B.Columns(), 0.0) *)
      if negb (mat_wfb m) then OOB else guard_mat_product r c r' c' ;; Ok (mat_new r c')
  | MTranspose =>     (* M = M.Transpose(): Matrix(result_components) with `columns` rows of `rows` entries *)
      if negb (mat_wfb m) then OOB else guard_transpose r c ;; Ok (mat_of_rows (rect c r))
  end.
Fixpoint mat_history (m : mat) (ops : list mat_op) : res mat :=
  match ops with [] => Ok m | o :: r => let* m' := mat_step m o in mat_history m' r end.
Definition mat_probe_guard (m : mat) (p : mat_probe) : res unit :=
  if negb (mat_wfb m) then OOB else
  let r := m_rows m in let c := m_cols m in
  match p with
  | PNone => Ok tt
  | PAt i => guard_mat_index r i
  | PRow i => guard_row r i ;; (let* l := getZ (m_lens m) i in guard_vec_binary c l)   (* Vector(Columns()) + Return_Row(i) *)
  | PCol j => guard_return_column r c j ;; guard_vec_binary r r                           (* Vector(Rows()) + Return_Column(j) *)
  | PPlus r' c' => guard_mat_plus r c r' c'
  | PPlusEq r' c' => guard_mat_pluseq r c r' c'
  | PMul r' c' => guard_mat_product r c r' c'
  | PLMul r' c' => guard_mat_product r' c' r c
  | PMatVec d => guard_mat_vec r c d
  | PVecMat d => guard_vec_mat d r c
  | PTrace => guard_trace r c
  | PDet => guard_determinant r c
  | PTranspose => guard_transpose r c
  | PSub i j => guard_sub_matrix r c i j
  | PEq => for_range 0 r (fun i => for_range 0 c (fun j => guard_mat_index r i ;; at_ c j ;; guard_mat_index r i ;; at_ c j))
  end.
(** Matrix M(r, c, entry); the history; the probe; what Rows(), Columns() and the rows of M then are *)
Definition mat_session (r c : Z) (ops : list mat_op) (p : mat_probe) : res mat :=
  let* m := mat_history (mat_new r c) ops in mat_probe_guard m p ;; Ok m.
Definition mat_bad_rows (m : mat) : Z :=
  zlen (filter (fun l => negb (l =? m_cols m)) (firstn (Z.to_nat (m_rows m)) (m_lens m))).

(** ** 10. Requests made from inside a call-back, abandoned calls, and several requests in one process
    A function handed to the library (an integrand, the function whose root is sought) may itself make a guarded request
    - the usual case is an integrand that evaluates an Interpolation object - or leave by an exception that the caller
    catches.  What one evaluation of the call-back does is one of three things. *)
Inductive callback_outcome : Type := CbReturns | CbExits | CbThrows.
(** what the process sees of a request that was made: it goes on (the request returned, or the caller caught the
    exception), or it has ended *)
Definition process_outcome (o : callback_outcome) : res unit := match o with CbExits => Exit | _ => Ok tt end.
Definition outcome_of (g : res unit) : callback_outcome := match g with Ok _ => CbReturns | _ => CbExits end.
Section Nested.
Context {T : Type} (Ops : NumOps T).
(** Integrate(func, a, b, method, parameter): the method name is tested first, `if(a == b) return 0.0;` comes before the
    first evaluation of the integrand, limits in descending order are swapped (with a warning) and every method evaluates
    its integrand on a non-empty interval *)
Definition integrate_outcome (m : string) (a b : T) (o : callback_outcome) : callback_outcome :=
  if negb (str_in m methods_1d) then CbExits else if neqb Ops a b then CbReturns else o.
(** Integrate_2D: the nested methods call Integrate on an integrand that calls Integrate; the Monte Carlo methods sample the
    region whatever its limits are *)
Definition integrate_2d_outcome (m : string) (x1 x2 y1 y2 : T) (o : callback_outcome) : callback_outcome :=
  if str_in m methods_1d then integrate_outcome m x1 x2 (integrate_outcome m y1 y2 o)
  else if str_in m methods_mc then o else CbExits.
Definition integrate_3d_outcome (m : string) (x1 x2 y1 y2 z1 z2 : T) (o : callback_outcome) : callback_outcome :=
  if str_in m methods_1d then integrate_outcome m x1 x2 (integrate_outcome m y1 y2 (integrate_outcome m z1 z2 o))
  else if str_in m methods_mc then o else CbExits.
(** Find_Root(func, xLeft, xRight, accuracy): func is evaluated at both ends before the bracket is tested *)
Definition find_root_outcome (f : T -> T) (xl xr : T) (o : callback_outcome) : callback_outcome :=
  match o with CbReturns => outcome_of (guard_find_root Ops f xl xr) | _ => o end.
End Nested.
(** several requests made one after the other in one process: the first one that exits ends it *)
Fixpoint process_session (l : list (res unit)) : res unit :=
  match l with [] => Ok tt | g :: r => g ;; process_session r end.
