(** * C05 model: Matrix::Determinant, Matrix::Invertible, Matrix::Inverse (src/Linear_Algebra.cpp).
    Hand-written, plain Coq + NumOps; uses the Matrix record and Sub_Matrix of C04_Model.v.
    Tied to the code by the differential correspondence check (harness/C05.cpp vs the extraction). *)
From Coq Require Import ZArith List Bool Arith.
From LP Require Import Num C04_Model.
Import ListNotations.

Section Model.
Context {T : Type} (Ops : NumOps T).
Declare Scope num_scope.
Local Notation "x + y" := (nadd Ops x y) : num_scope.
Local Notation "x - y" := (nsub Ops x y) : num_scope.
Local Notation "x * y" := (nmul Ops x y) : num_scope.
Local Notation "x / y" := (ndiv Ops x y) : num_scope.
Delimit Scope num_scope with num.
Local Notation zero := (n0 Ops).
Local Notation one := (n1 Ops).
Local Open Scope res_scope.

(** ** Determinant: Laplace expansion along the first row.
    sizes 1 and 2 are special-cased; otherwise
      factors[j] = sign_j * components[0][j],  sign_j = (j % 2 == 0) ? +1.0 : -1.0
      det = 0.0;  det += factors[j] * Sub_Matrix(0,j).Determinant()   for j = 0 .. columns-1.
    The recursion depth is the number of rows: [fuel]. *)
Definition lap_sign (j : nat) : T := if Nat.even j then one else nneg Ops one.
Fixpoint det_fuel (fuel : nat) (M : mat T) : res T :=
  if negb (square M) then Exit
  else if mrows M =? 1 then Ok (ment Ops M 0 0)
  else if mrows M =? 2 then Ok (ment Ops M 0 0 * ment Ops M 1 1 - ment Ops M 0 1 * ment Ops M 1 0)%num
  else
    match fuel with
    | O => Fuel
    | S f =>
        fold_left (fun acc j =>
                     let* a := acc in
                     let* sm := sub_matrix M 0 j in
                     let* d := det_fuel f sm in
                     Ok (a + (lap_sign j * ment Ops M 0 j) * d)%num)
                  (seq 0 (mcols M)) (Ok zero)
    end.
Definition determinant (M : mat T) : res T := det_fuel (S (mrows M)) M.

(** Invertible(): Square() && Determinant() != 0.0 *)
Definition invertible (M : mat T) : res bool :=
  if negb (square M) then Ok false
  else let* d := determinant M in Ok (negb (neqb Ops d zero)).

(** ** Inverse: Gauss-Jordan on the N x 2N array A = (M | 1) with partial pivoting. *)
Definition augment (M : mat T) : list (list T) :=
  let N := mrows M in
  tab2 N (2 * N) (fun i j => if j <? N then ment Ops M i j else if i =? j - N then one else zero).
(** i_pivot = i; for j = i+1 .. N-1: if fabs(A[j][i]) > fabs(A[i_pivot][i]) then i_pivot = j *)
Definition pivot_row (N : nat) (A : list (list T)) (i : nat) : nat :=
  fold_left (fun p j => if nltb Ops (nabs Ops (tent Ops A p i)) (nabs Ops (tent Ops A j i)) then j else p)
            (seq (S i) (N - S i)) i.
(** std::swap(A[i], A[p]) *)
Definition swap_rows (N : nat) (A : list (list T)) (i p : nat) : list (list T) :=
  tab2 N (2 * N) (fun j k => tent Ops A (if j =? i then p else if j =? p then i else j) k).
(** for every row j != i:  ratio = A[j][i]/A[i][i];  A[j][k] = A[j][k] - ratio*A[i][k]  for all 2N columns *)
Definition eliminate (N : nat) (A : list (list T)) (i : nat) : list (list T) :=
  tab2 N (2 * N) (fun j k =>
    if j =? i then tent Ops A i k
    else (tent Ops A j k - (tent Ops A j i / tent Ops A i i) * tent Ops A i k)%num).
Definition gj_step (N : nat) (A : list (list T)) (i : nat) : res (list (list T)) :=
  let p := pivot_row N A i in
  let A1 := if negb (p =? i) then swap_rows N A i p else A in
  if neqb Ops (tent Ops A1 i i) zero then Exit      (* "Matrix is singular." *)
  else Ok (eliminate N A1 i).
Definition gauss_jordan (N : nat) (A : list (list T)) : res (list (list T)) :=
  fold_left (fun acc i => let* A := acc in gj_step N A i) (seq 0 N) (Ok A).
(** A[i][j] = A[i][j] / A[i][i] for j = N .. 2N-1, then the first N columns are deleted *)
Definition finish (N : nat) (A : list (list T)) : mat T :=
  mk_mat N N (fun i j => (tent Ops A i (N + j) / tent Ops A i i)%num).
Definition inverse (M : mat T) : res (mat T) :=
  if negb (square M) then Exit
  else
    let* inv := invertible M in
    if negb inv then Exit
    else
      let N := mrows M in
      let* A := gauss_jordan N (augment M) in
      Ok (finish N A).

(** Orthogonal(): if(!Invertible()) return false; else return Transpose() == Inverse(); *)
Definition orthogonal (M : mat T) : res bool :=
  let* inv := invertible M in
  if negb inv then Ok false
  else
    let* MT := transpose Ops M in
    let* Minv := inverse M in
    Ok (m_eq Ops MT Minv).

(** ** Call histories on ONE Matrix object.
    The class has no data members besides rows / columns / components, so the state of an object is its
    [mat T]; every const member function is a query (state unchanged), every non-const one an update:
      queries  Determinant(), Invertible(), Inverse(), Orthogonal(), Matrix(M).Determinant() (copy),
               Transpose().Determinant(), Sub_Matrix(i,j).Determinant()
      updates  M += B, M -= B, M[i][j] = v (non-const operator[]: exits on i >= rows, the inner index is an
               unchecked std::vector index), std::swap(M[i], M[j]), M = B, Assign(r,c,v), Resize(r,c),
               Delete_Row(i), Delete_Column(j). *)
Inductive sop : Type :=
| QDet | QInvertible | QInverse | QOrthogonal | QCopyDet | QTransDet | QSubDet (i j : nat)
| UAdd (B : mat T) | USub (B : mat T) | USet (i j : nat) (v : T) | USwap (i j : nat)
| UCopyAssign (B : mat T) | UAssign (r c : nat) (v : T) | UResize (r c : nat)
| UDelRow (i : nat) | UDelCol (j : nat).
Inductive sout : Type := ODet (d : T) | OFlag (b : bool) | OMat (X : mat T) | ONone.

Definition is_query (o : sop) : bool :=
  match o with
  | QDet | QInvertible | QInverse | QOrthogonal | QCopyDet | QTransDet | QSubDet _ _ => true
  | _ => false
  end.
(** the answer of a query on an object whose entries are M *)
Definition squery (M : mat T) (o : sop) : res sout :=
  match o with
  | QDet | QCopyDet => let* d := determinant M in Ok (ODet d)
  | QInvertible => let* b := invertible M in Ok (OFlag b)
  | QInverse => let* X := inverse M in Ok (OMat X)
  | QOrthogonal => let* b := orthogonal M in Ok (OFlag b)
  | QTransDet => let* Mt := transpose Ops M in let* d := determinant Mt in Ok (ODet d)
  | QSubDet i j => let* Sm := sub_matrix M i j in let* d := determinant Sm in Ok (ODet d)
  | _ => Ok ONone
  end.
(** the entries of the object after an update *)
Definition supdate (M : mat T) (o : sop) : res (mat T) :=
  match o with
  | UAdd B => m_add_assign Ops M B
  | USub B => m_sub_assign Ops M B
  | USet i j v =>
      if mrows M <=? i then Exit
      else if mcols M <=? j then OOB
      else Ok (mk_mat (mrows M) (mcols M) (fun a b => if (a =? i) && (b =? j) then v else ment Ops M a b))
  | USwap i j =>
      if (mrows M <=? i) || (mrows M <=? j) then Exit
      else Ok (mk_mat (mrows M) (mcols M)
                      (fun a b => ment Ops M (if a =? i then j else if a =? j then i else a) b))
  | UCopyAssign B => Ok B
  | UAssign r c v => Ok (mat_fill r c v)
  | UResize r c => Ok (mk_mat r c (fun a b => ment Ops M a b))      (* new entries are 0.0 = the default of [ment] *)
  | UDelRow i => delete_row M i
  | UDelCol j => delete_column M j
  | _ => Ok M
  end.
Definition sstep (M : mat T) (o : sop) : res (mat T * sout) :=
  if is_query o then let* a := squery M o in Ok (M, a)
  else let* M' := supdate M o in Ok (M', ONone).
(** the whole history: final entries and the answers in call order *)
Definition srun (ops : list sop) (M : mat T) : res (mat T * list sout) :=
  fold_left (fun acc o => let* st := acc in let* st' := sstep (fst st) o in Ok (fst st', snd st ++ [snd st']))
            ops (Ok (M, [])).

(** ** Call histories on SEVERAL Matrix objects, interleaved.
    The translation unit has no file-scope or function-local statics and the class no static members: the state of a
    program that holds objects 0 .. m-1 is the list of their entries, and a call on object k reads and changes the
    k-th element only ([sstep] on it).  A call on an object that does not exist is [OOB] (harness error). *)
Fixpoint mset (k : nat) (Ms : list (mat T)) (M' : mat T) : list (mat T) :=
  match Ms, k with
  | [], _ => []
  | _ :: r, O => M' :: r
  | M :: r, S k' => M :: mset k' r M'
  end.
Definition mstep (Ms : list (mat T)) (ko : nat * sop) : res (list (mat T) * sout) :=
  match nth_error Ms (fst ko) with
  | None => OOB
  | Some M => let* st := sstep M (snd ko) in Ok (mset (fst ko) Ms (fst st), snd st)
  end.
Definition mrun (ops : list (nat * sop)) (Ms : list (mat T)) : res (list (mat T) * list sout) :=
  fold_left (fun acc o => let* st := acc in let* st' := mstep (fst st) o in Ok (fst st', snd st ++ [snd st']))
            ops (Ok (Ms, [])).

(** ** References into an object that the caller keeps across calls.
    The non-const operator[] returns  std::vector<double>&  (= components[i]); the caller may keep it
    (auto& r = M[i];), keep a reference to one entry (double& e = M[i][j];), and write through either at any
    later time - between two queries, without any further member call:
      r[j] = v;   std::swap(r1, r2);   r = {..};   e = v;
    A row reference denotes the row POSITION i (std::swap of two rows exchanges their contents), an entry
    reference the position (i, j).  The state of a program is the entries plus the table of the references the
    caller holds; a write through a reference is the indexed write at the position it denotes ([hresolve]).
    Which references survive a member call follows the container rules ([hkeep]): value-only calls keep all;
    std::swap(M[i], M[j]) and Delete_Column keep the row references (entry references are given up);
    Resize / Assign to at most the current number of rows keep the row references to the remaining rows
    (std::vector::resize does not reallocate when shrinking), to more rows none; Delete_Row(k) keeps the rows
    before k; operator= none.  Using a reference that is not in the table is [OOB] (a harness error, never generated). *)
Inductive href : Type := HRow (i : nat) | HElt (i j : nat).
Inductive hop : Type :=
| HCall (o : sop)                       (* a member call or an access by indices, as in [sop] *)
| HHoldRow (h i : nat)                  (* std::vector<double>& r_h = M[i];  exits when i >= rows *)
| HHoldElt (h i j : nat)                (* double& e_h = M[i][j]; *)
| HRowSet (h j : nat) (v : T)           (* r_h[j] = v; *)
| HRowSwap (h1 h2 : nat)                (* std::swap(r_h1, r_h2); *)
| HRowAssign (h : nat) (l : list T)     (* r_h = l;  (as many entries as the matrix has columns) *)
| HEltSet (h : nat) (v : T).            (* e_h = v; *)
Definition htab := list (nat * href).
Fixpoint hfind (h : nat) (tb : htab) : option href :=
  match tb with
  | [] => None
  | (h', r) :: tl => if h' =? h then Some r else hfind h tl
  end.
Definition is_hrow (r : href) : bool := match r with HRow _ => true | HElt _ _ => false end.
Definition hkeep (M : mat T) (o : sop) (r : href) : bool :=
  match o with
  | USwap _ _ | UDelCol _ => is_hrow r
  | UResize r' _ | UAssign r' _ _ => match r with HRow i => (r' <=? mrows M) && (i <? r') | HElt _ _ => false end
  | UDelRow k => match r with HRow i => i <? k | HElt _ _ => false end
  | UCopyAssign _ => false
  | _ => true
  end.
(** the indexed calls a step stands for *)
Definition hresolve (M : mat T) (tb : htab) (o : hop) : res (list sop) :=
  match o with
  | HCall c => Ok [c]
  | HHoldRow _ i => if mrows M <=? i then Exit else Ok []
  | HHoldElt _ i j => if mrows M <=? i then Exit else if mcols M <=? j then OOB else Ok []
  | HRowSet h j v => match hfind h tb with Some (HRow i) => Ok [USet i j v] | _ => OOB end
  | HRowSwap h1 h2 =>
      match hfind h1 tb, hfind h2 tb with
      | Some (HRow i), Some (HRow j) => Ok [USwap i j]
      | _, _ => OOB
      end
  | HRowAssign h l =>
      match hfind h tb with
      | Some (HRow i) =>
          if length l =? mcols M then Ok (map (fun jv => USet i (fst jv) (snd jv)) (combine (seq 0 (length l)) l))
          else OOB
      | _ => OOB
      end
  | HEltSet h v => match hfind h tb with Some (HElt i j) => Ok [USet i j v] | _ => OOB end
  end.
(** the references held after the step *)
Definition htable (M : mat T) (tb : htab) (o : hop) : htab :=
  match o with
  | HCall c => filter (fun hr => hkeep M c (snd hr)) tb
  | HHoldRow h i => (h, HRow i) :: tb
  | HHoldElt h i j => (h, HElt i j) :: tb
  | HRowSwap _ _ | HRowAssign _ _ => filter (fun hr => is_hrow (snd hr)) tb
  | _ => tb
  end.
Definition hstep (st : mat T * htab) (o : hop) : res ((mat T * htab) * sout) :=
  let* ops := hresolve (fst st) (snd st) o in
  let* r := srun ops (fst st) in
  Ok ((fst r, htable (fst st) (snd st) o), last (snd r) ONone).
Definition hrun (ops : list hop) (M : mat T) : res ((mat T * htab) * list sout) :=
  fold_left (fun acc o => let* st := acc in let* st' := hstep (fst st) o in Ok (fst st', snd st ++ [snd st']))
            ops (Ok ((M, []), [])).
(** several objects, each with the references held into it *)
Fixpoint hmset (k : nat) (Ss : list (mat T * htab)) (S' : mat T * htab) : list (mat T * htab) :=
  match Ss, k with
  | [], _ => []
  | _ :: r, O => S' :: r
  | S0 :: r, S k' => S0 :: hmset k' r S'
  end.
Definition hmstep (Ss : list (mat T * htab)) (ko : nat * hop) : res (list (mat T * htab) * sout) :=
  match nth_error Ss (fst ko) with
  | None => OOB
  | Some S0 => let* st := hstep S0 (snd ko) in Ok (hmset (fst ko) Ss (fst st), snd st)
  end.
Definition hmrun (ops : list (nat * hop)) (Ms : list (mat T)) : res (list (mat T * htab) * list sout) :=
  fold_left (fun acc o => let* st := acc in let* st' := hmstep (fst st) o in Ok (fst st', snd st ++ [snd st']))
            ops (Ok (map (fun M => (M, [])) Ms, [])).
End Model.
