(** * C09: sessions — several objects alive in one process, holding possibly different tables
    (C09_Model.v, Section Session).  Copies are independent objects: whatever happens afterwards to the
    source of a copy (further calls, assignment of another table, swap, destruction) or to the copy leaves
    the other one's answers those of a fresh object of ITS table with ITS prefactor. *)
From Coq Require Import ZArith List Bool Lia PeanoNat.
From LP Require Import Num OrdLaws C09_Model C09_Proofs.
Import ListNotations.

(** ** slots *)
Section Slots.
Variable St : Type.
Notation sobj := (sobj St).
Notation store := (store St).

Lemma get_slot_nil k : get_slot St k [] = None.
Proof. unfold get_slot. destruct k; reflexivity. Qed.

Lemma get_slot_S k (s : store) : get_slot St (S k) s = get_slot St k (tl s).
Proof. unfold get_slot. destruct s; cbn; [destruct k; reflexivity|reflexivity]. Qed.

Lemma get_slot_0 (s : store) : get_slot St 0 s = hd None s.
Proof. destruct s; reflexivity. Qed.

Lemma get_set_slot j k (v : option sobj) : forall s : store,
  get_slot St j (set_slot St k v s) = if Nat.eqb j k then v else get_slot St j s.
Proof.
  revert j. induction k as [|k IH]; intros j s.
  - destruct j as [|j]; cbn [set_slot Nat.eqb].
    + reflexivity.
    + rewrite !get_slot_S. reflexivity.
  - destruct j as [|j]; cbn [set_slot Nat.eqb].
    + rewrite !get_slot_0. reflexivity.
    + rewrite !get_slot_S. cbn [tl]. apply IH.
Qed.
End Slots.

(** ** the generic statement: a family of step functions (one per table) with an invariant, an
    abstraction [alpha] of the members that evolves on its own ([astep]: it does not look at the rest of
    the members), and outputs that depend on the members only through [alpha] *)
Section Generic.
Variables (St Op Out A : Type).
Variable tstep : nat -> St -> Op -> St * Out.
Variable tinit : St.
Variable onone : Out.
Variable Inv : nat -> St -> Prop.
Variable alpha : St -> A.
Variable astep : nat -> A -> Op -> A.
Variable afresh : A -> St.
Hypothesis Inv_init : forall t, Inv t tinit.
Hypothesis Inv_step : forall t st q, Inv t st -> Inv t (fst (tstep t st q)).
Hypothesis alpha_step : forall t st q, Inv t st -> alpha (fst (tstep t st q)) = astep t (alpha st) q.
Hypothesis out_free : forall t st q, Inv t st -> snd (tstep t st q) = snd (tstep t (afresh (alpha st)) q).

Notation sstepC := (sstep St Op Out tstep tinit onone).
Notation srunC := (srun St Op Out tstep tinit onone).
(** the bookkeeping session: the same operations on objects that consist of [alpha] alone *)
Definition bstep : nat -> A -> Op -> A * unit := fun t a q => (astep t a q, tt).
Notation sstepB := (sstep A Op unit bstep (alpha tinit) tt).
Notation srunB := (srun A Op unit bstep (alpha tinit) tt).

Definition abs_obj (ob : sobj St) : sobj A := mkSobj (so_tab ob) (alpha (so_st ob)).

(** the two stores correspond slot by slot, and every object satisfies the invariant of its table *)
Definition corr (s : store St) (b : store A) : Prop :=
  forall k, option_map abs_obj (get_slot St k s) = get_slot A k b /\
            (forall ob, get_slot St k s = Some ob -> Inv (so_tab ob) (so_st ob)).

Lemma corr_nil : corr [] [].
Proof. intros k. rewrite !get_slot_nil. split; [reflexivity|discriminate]. Qed.

Lemma corr_set s b k v w : corr s b ->
  option_map abs_obj v = w -> (forall ob, v = Some ob -> Inv (so_tab ob) (so_st ob)) ->
  corr (set_slot St k v s) (set_slot A k w b).
Proof.
  intros H Hv Hi j. rewrite !get_set_slot. destruct (Nat.eqb j k); [split; assumption|apply H].
Qed.

Lemma corr_step s b o : corr s b -> corr (fst (sstepC s o)) (fst (sstepB b o)).
Proof.
  intros H. destruct o as [k q|k t|a c|a c|k]; cbn [sstep fst].
  - destruct (H k) as [Hk Hik]. destruct (get_slot St k s) as [ob|] eqn:E; cbn in Hk; rewrite <- Hk; cbn [fst].
    + apply corr_set; [exact H| |].
      * cbn. unfold abs_obj, bstep; cbn. rewrite alpha_step by (apply Hik; reflexivity). reflexivity.
      * intros ob' E'. injection E' as <-. cbn. apply Inv_step, Hik. reflexivity.
    + exact H.
  - apply corr_set; [exact H|reflexivity|]. intros ob E. injection E as <-. apply Inv_init.
  - destruct (H a) as [Ha Hia]. destruct (get_slot St a s) as [ob|] eqn:E; cbn in Ha; rewrite <- Ha.
    + apply corr_set; [exact H|reflexivity|]. intros ob' E'. injection E' as <-. apply Hia. reflexivity.
    + exact H.
  - destruct (H a) as [Ha Hia]. destruct (H c) as [Hc Hic].
    apply corr_set; [apply corr_set; [exact H|exact Ha|exact Hia]|exact Hc|exact Hic].
  - apply corr_set; [exact H|reflexivity|discriminate].
Qed.

Lemma corr_run h : forall s b, corr s b -> corr (srunC h s) (srunB h b).
Proof.
  induction h as [|o h IH]; intros s b H; [exact H|]. cbn [srun fold_left]. apply IH, corr_step, H.
Qed.

(** after any session, the object in slot k — which holds table t and abstraction a according to the
    bookkeeping session — answers any call as an object of table t whose members are [afresh a] *)
Theorem session_free h k q :
  (forall t a, get_slot A k (srunB h []) = Some (mkSobj t a) ->
     snd (sstepC (srunC h []) (SQuery k q)) = snd (tstep t (afresh a) q)) /\
  (get_slot A k (srunB h []) = None -> get_slot St k (srunC h []) = None).
Proof.
  destruct (corr_run h [] [] corr_nil k) as [Hk Hik]. split.
  - intros t a Hb. rewrite Hb in Hk. cbn [sstep].
    destruct (get_slot St k (srunC h [])) as [ob|]; [|discriminate].
    cbn in Hk. injection Hk as <- <-. cbn [snd]. apply out_free, Hik. reflexivity.
  - intros Hb. rewrite Hb in Hk. destruct (get_slot St k (srunC h [])); [discriminate|reflexivity].
Qed.
End Generic.

(** ** Interpolation: tables tabN t / tabx t, evaluation parameters E t *)
Section OneD.
Context {T : Type} (Ops : NumOps T) (OL : OrdLaws Ops).
Variable tabN : nat -> Z.
Variable tabx : nat -> Z -> T.
Variable E : nat -> evals T.
Hypothesis Hinc : forall t, increasing Ops (tabN t) (tabx t).
Hypothesis HN : forall t, size_ok (tabN t).

Definition tstep1 (t : nat) : state T -> op T -> state T * out T := stepE Ops (tabN t) (tabx t) (E t).
(** the bookkeeping: table numbers and prefactors, moved by constructions, copies, swaps, destructions and
    changed by Set_Prefactor / Multiply alone *)
Definition pf_session1 (h : list (sop (op T))) : store T :=
  srun T (op T) unit (fun _ p q => (prefactor_after Ops [q] p, tt)) (n1 Ops) tt h [].

Theorem session_history_free h k q :
  (forall t p, get_slot T k (pf_session1 h) = Some (mkSobj t p) ->
     snd (sstep _ _ _ tstep1 (init Ops) (@ONone T) (srun _ _ _ tstep1 (init Ops) (@ONone T) h []) (SQuery k q))
     = snd (tstep1 t (fresh p) q)) /\
  (get_slot T k (pf_session1 h) = None ->
     get_slot _ k (srun _ _ _ tstep1 (init Ops) (@ONone T) h []) = None).
Proof.
  refine (session_free (state T) (op T) (out T) T tstep1 (init Ops) (@ONone T)
            (fun t st => inv (tabN t) st) (@prefactor T) (fun _ p q => prefactor_after Ops [q] p) (@fresh T)
            _ _ _ _ h k q).
  - intros t. apply inv_fresh. apply HN.
  - intros t st q0 Hi. unfold tstep1, stepE. eapply inv_step; eauto.
  - intros t st q0 Hi. unfold tstep1, stepE.
    destruct (step_sim Ops OL (tabN t) (tabx t) (Hinc t) (HN t) (ev_seg (E t)) (ev_deriv (E t)) (ev_integ (E t))
                (ev_ext (E t)) (ev_glob (E t)) st st q0 (sim_refl _ _ Hi)) as (_ & _ & Hp & _). exact Hp.
  - intros t st q0 Hi. unfold tstep1, stepE. apply step_sim; auto.
    split; [exact Hi|]. split; [apply inv_fresh; apply HN|reflexivity].
Qed.
End OneD.

(** ** Interpolation_2D *)
Section TwoD.
Context {T : Type} (Ops : NumOps T) (OL : OrdLaws Ops).
Variable tNx : nat -> Z. Variable tx : nat -> Z -> T.
Variable tNy : nat -> Z. Variable ty : nat -> Z -> T.
Variable tf : nat -> Z -> Z -> T.
Hypothesis Hincx : forall t, increasing Ops (tNx t) (tx t).
Hypothesis Hincy : forall t, increasing Ops (tNy t) (ty t).
Hypothesis HNx : forall t, size_ok (tNx t).
Hypothesis HNy : forall t, size_ok (tNy t).

Definition tstep2 (t : nat) : state2 T -> op2 T -> state2 T * out2 T := step2 Ops (tNx t) (tx t) (tNy t) (ty t) (tf t).
Definition pf_session2 (h : list (sop (op2 T))) : store T :=
  srun T (op2 T) unit (fun _ p q => (prefactor2_after Ops [q] p, tt)) (n1 Ops) tt h [].

Theorem session_history_free2 h k q :
  (forall t p, get_slot T k (pf_session2 h) = Some (mkSobj t p) ->
     snd (sstep _ _ _ tstep2 (init2 Ops) (@O2None T) (srun _ _ _ tstep2 (init2 Ops) (@O2None T) h []) (SQuery k q))
     = snd (tstep2 t (mkState2 (init Ops) (init Ops) p) q)) /\
  (get_slot T k (pf_session2 h) = None ->
     get_slot _ k (srun _ _ _ tstep2 (init2 Ops) (@O2None T) h []) = None).
Proof.
  refine (session_free (state2 T) (op2 T) (out2 T) T tstep2 (init2 Ops) (@O2None T)
            (fun t st => inv2 (tNx t) (tNy t) st) (@pf2 T) (fun _ p q => prefactor2_after Ops [q] p)
            (fun p => mkState2 (init Ops) (init Ops) p) _ _ _ _ h k q).
  - intros t. apply inv2_init; auto.
  - intros t st q0 Hi. unfold tstep2.
    destruct (step2_sim Ops OL (tNx t) (tx t) (tNy t) (ty t) (tf t) (Hincx t) (Hincy t) (HNx t) (HNy t) st st q0)
      as (_ & (H & _) & _); [split; [exact Hi|split; [exact Hi|reflexivity]]|exact H].
  - intros t st q0 Hi. unfold tstep2.
    destruct (step2_sim Ops OL (tNx t) (tx t) (tNy t) (ty t) (tf t) (Hincx t) (Hincy t) (HNx t) (HNy t) st st q0)
      as (_ & _ & H & _); [split; [exact Hi|split; [exact Hi|reflexivity]]|exact H].
  - intros t st q0 Hi. unfold tstep2.
    apply (step2_sim Ops OL (tNx t) (tx t) (tNy t) (ty t) (tf t) (Hincx t) (Hincy t) (HNx t) (HNy t)).
    split; [exact Hi|]. split; [apply inv2_init; auto|reflexivity].
Qed.
End TwoD.

(** ** Non-vacuity, on the integer instance of C09_Proofs.v: two tables; an object is queried, copied, the
    source is assigned the other table and rescaled, then destroyed — the copy still answers as a fresh
    object of the first table with the prefactor it was copied with. *)
Definition ex_tabN (t : nat) : Z := match t with O => 40%Z | _ => 12%Z end.
Definition ex_tabx (t : nat) (i : Z) : Z := match t with O => (10 * i)%Z | _ => (7 * i + 3)%Z end.
Definition ex_session : list (sop (op Z)) :=
  [SConstruct 0 0; SQuery 0 (OpLocate 55%Z); SQuery 0 (OpSetPrefactor 3%Z); SQuery 0 (OpLocate 61%Z); SCopy 0 1;
   SConstruct 0 1; SQuery 0 (OpMultiply 5%Z); SQuery 0 (OpLocate 20%Z); SDestroy 0; SQuery 1 (OpMultiply (-2)%Z)].
Example ex_session_free :
  get_slot Z 1 (pf_session1 ZOps ex_session) = Some (mkSobj 0%nat (-6)%Z) /\
  get_slot Z 0 (pf_session1 ZOps ex_session) = None /\
  snd (sstep _ _ _ (tstep1 ZOps ex_tabN ex_tabx (fun _ => ex_evals)) (init ZOps) (@ONone Z)
         (srun _ _ _ (tstep1 ZOps ex_tabN ex_tabx (fun _ => ex_evals)) (init ZOps) (@ONone Z) ex_session [])
         (SQuery 1 (OpInterpolate 250%Z))) = OValue [25%Z] (-16500)%Z.
Proof. vm_compute. repeat split. Qed.
Example ex_session_hypotheses :
  (forall t, increasing ZOps (ex_tabN t) (ex_tabx t)) /\ (forall t, size_ok (ex_tabN t)).
Proof.
  split; intros [|t]; cbn.
  - apply ex_increasing.
  - intros i j Hi Hij Hj. change (7 * i + 3 <? 7 * j + 3 = true)%Z. apply Z.ltb_lt. lia.
  - apply ex_size_ok.
  - unfold size_ok. lia.
Qed.
