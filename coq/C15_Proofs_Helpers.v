(** * C15, seventh pass: theorems about the helper code brought into the model in C15_Model2.v
    (Relative_Difference, Sign(x, y), the guards of Trace / Determinant / Invertible / Inverse, Matrix::Trace, Eigenvectors). *)
From Coq Require Import Reals ZArith List Lra Lia Bool Arith.
From LP Require Import Num NumR C15_Model C15_Model2 C15_Proofs C15_Proofs_QR C15_Proofs_Inv C15_Proofs_Diag.
Import ListNotations.
Local Open Scope R_scope.

(** ** Relative_Difference: the convergence metric is a total function of two reals, 0 at (0, 0) (the 0/0 of the anchor), inside [0, 2],
    symmetric, and 0 exactly on the diagonal *)
Lemma reldiff_unfold a b :
  relative_difference ROps a b =
  if Reqb (if Rltb (Rabs a) (Rabs b) then Rabs b else Rabs a) 0 then 0 else Rabs (a - b) / (if Rltb (Rabs a) (Rabs b) then Rabs b else Rabs a).
Proof. reflexivity. Qed.
Lemma reldiff_zero_zero : relative_difference ROps 0 0 = 0.
Proof. rewrite reldiff_unfold, Rabs_R0. destruct (Rltb_spec 0 0); destruct (Reqb_spec 0 0); try reflexivity; lra. Qed.
Lemma reldiff_max_spec a b : let mx := if Rltb (Rabs a) (Rabs b) then Rabs b else Rabs a in Rabs a <= mx /\ Rabs b <= mx /\ 0 <= mx.
Proof. cbv zeta. pose proof (Rabs_pos a); pose proof (Rabs_pos b). destruct (Rltb_spec (Rabs a) (Rabs b)); lra. Qed.
Lemma reldiff_range a b : 0 <= relative_difference ROps a b <= 2.
Proof.
  rewrite reldiff_unfold. destruct (reldiff_max_spec a b) as (Ha & Hb & H0). set (mx := if Rltb (Rabs a) (Rabs b) then Rabs b else Rabs a) in *.
  destruct (Reqb_spec mx 0) as [E | NE]; [lra|].
  assert (0 < mx) by lra. pose proof (Rabs_pos (a - b)). pose proof (Rabs_triang a (- b)) as Tr. rewrite Rabs_Ropp in Tr.
  replace (a + - b) with (a - b) in Tr by ring. split.
  - apply Rmult_le_pos; [assumption | left; apply Rinv_0_lt_compat; assumption].
  - apply (Rmult_le_reg_r mx); [assumption|]. unfold Rdiv. rewrite Rmult_assoc, Rinv_l by lra. lra.
Qed.
Lemma reldiff_sym a b : relative_difference ROps a b = relative_difference ROps b a.
Proof.
  rewrite !reldiff_unfold. replace (Rabs (b - a)) with (Rabs (a - b)) by (rewrite <- Rabs_Ropp; f_equal; ring).
  destruct (Rltb_spec (Rabs a) (Rabs b)), (Rltb_spec (Rabs b) (Rabs a)); try reflexivity; try lra.
  assert (Rabs a = Rabs b) as -> by lra. reflexivity.
Qed.
Lemma reldiff_eq0 a b : relative_difference ROps a b = 0 <-> a = b.
Proof.
  rewrite reldiff_unfold. destruct (reldiff_max_spec a b) as (Ha & Hb & H0). set (mx := if Rltb (Rabs a) (Rabs b) then Rabs b else Rabs a) in *.
  destruct (Reqb_spec mx 0) as [E | NE].
  - split; [intros _ | reflexivity]. pose proof (Rabs_pos a); pose proof (Rabs_pos b).
    assert (Rabs a = 0) as A0 by lra. assert (Rabs b = 0) as B0 by lra.
    destruct (Req_dec a 0) as [-> | Na]; [| exfalso; apply (Rabs_no_R0 a Na A0)].
    destruct (Req_dec b 0) as [-> | Nb]; [reflexivity | exfalso; apply (Rabs_no_R0 b Nb B0)].
  - split.
    + intros Q. destruct (Req_dec a b) as [E | Nab]; [exact E | exfalso].
      assert (Rabs (a - b) <> 0) as Nz by (apply Rabs_no_R0; lra).
      apply (Rmult_integral_contrapositive_currified _ (/ mx) Nz); [apply Rinv_neq_0_compat; exact NE | exact Q].
    + intros ->. replace (b - b) with 0 by ring. rewrite Rabs_R0. unfold Rdiv. ring.
Qed.

(** ** Sign(x, y): x with the sign of y (both non-zero); its square is x^2 *)
Lemma sign_int_R x : sign_int ROps x = if Rltb 0 x then 1%Z else if Reqb x 0 then 0%Z else (-1)%Z.
Proof. reflexivity. Qed.
Lemma sign_xy_sq x y : sign_xy ROps x y * sign_xy ROps x y = x * x.
Proof. unfold sign_xy. destruct (Z.eqb _ _); cbn; ring. Qed.
Lemma sign_xy_transfer x y : x <> 0 -> y <> 0 -> sign_xy ROps x y = if Rltb 0 y then Rabs x else - Rabs x.
Proof.
  intros Nx Ny. unfold sign_xy. rewrite !sign_int_R.
  destruct (Rltb_spec 0 x), (Rltb_spec 0 y), (Reqb_spec x 0), (Reqb_spec y 0); try lra; cbn;
    try (rewrite Rabs_right by lra; ring); try (rewrite Rabs_left by lra; ring).
Qed.

(** ** the guards: a request that is not square ends the process in Trace, Determinant, Inverse and is 'not invertible'; any number type *)
Lemma guards_nonsquare {T} (Ops : NumOps T) (m : list (list T)) : msquare m = false ->
  mtrace Ops m = Exit /\ determinant_g Ops m = Exit /\ invertible Ops m = false /\ inverse_g Ops m = Exit.
Proof. intros H. unfold mtrace, determinant_g, invertible, inverse_g. rewrite H. cbn. repeat split. Qed.
(** behind the guards: the bodies of C15_Model.v *)
Lemma inverse_g_ok {T} (Ops : NumOps T) (m b : list (list T)) : inverse_g Ops m = Ok b -> msquare m = true /\ invertible Ops m = true /\ inverse Ops m = Ok b.
Proof.
  unfold inverse_g. destruct (msquare m) eqn:S; cbn; [|discriminate]. destruct (invertible Ops m) eqn:I; cbn; [|discriminate]. intros H; repeat split; exact H.
Qed.
Lemma wf_msquare n (m : list (list R)) : wf n m -> msquare m = true.
Proof.
  intros [L W]. unfold msquare, nrows, ncols. destruct m as [| r m']; [reflexivity|].
  assert (0 < n)%nat as Hn by (rewrite <- L; cbn; lia).
  specialize (W 0%nat Hn). cbn [nth] in W. rewrite W, L. apply Nat.eqb_refl.
Qed.
Lemma inverse_g_correct n (m minv : list (list R)) : wf n m -> inverse_g ROps m = Ok minv ->
  wf n minv /\ (forall i j, (i < n)%nat -> (j < n)%nat -> rsum (fun k => ment ROps minv i k * ment ROps m k j) n = dlt i j) /\ nonsing n (ment ROps minv).
Proof. intros W H. apply inverse_g_ok in H as (_ & _ & H). exact (inverse_correct n m minv W H). Qed.

(** ** Matrix::Trace returns the sum of the diagonal, and the values Eigenvalues returns add up to it *)
Lemma mtrace_wf n (m : list (list R)) : wf n m -> mtrace ROps m = Ok (trace n (ment ROps m)).
Proof.
  intros W. unfold mtrace. rewrite (wf_msquare n m W). cbn [negb]. f_equal. unfold nrows. rewrite (proj1 W). unfold trace.
  exact (fold_seq_rsum (fun i => ment ROps m i i) n).
Qed.
Lemma eigenvalues_sum_is_library_trace n (M : list (list R)) evs t : wf n M -> nonsing n (ment ROps M) ->
  eigenvalues ROps M = Ok evs -> mtrace ROps M = Ok t -> ls evs = t.
Proof.
  intros W NS E Tq. rewrite (mtrace_wf n M W) in Tq. injection Tq as <-. exact (proj2 (eigenvalues_trace n M evs W NS E)).
Qed.

(** ** Eigenvectors(M) is the list of second components of Eigensystem(M) *)
Lemma eigenvectors_spec {T} (Ops : NumOps T) (m : list (list T)) vs :
  eigenvectors Ops m = Ok vs <-> exists ps, eigensystem Ops m = Ok ps /\ vs = map snd ps.
Proof.
  unfold eigenvectors. destruct (eigensystem Ops m) as [ps | | |]; cbn; split.
  - intros H. injection H as <-. exists ps. split; reflexivity.
  - intros (ps' & H & ->). injection H as <-. reflexivity.
  - discriminate. - intros (? & H & _); discriminate.
  - discriminate. - intros (? & H & _); discriminate.
  - discriminate. - intros (? & H & _); discriminate.
Qed.

(** non-vacuity *)
Example reldiff_example : relative_difference ROps 3 1 = 2 / 3.
Proof.
  rewrite reldiff_unfold. rewrite (Rabs_right 3), (Rabs_right 1) by lra. replace (3 - 1) with 2 by ring. rewrite (Rabs_right 2) by lra.
  destruct (Rltb_spec 3 1); [lra|]. destruct (Reqb_spec 3 0); [lra | reflexivity].
Qed.
Example mtrace_example : mtrace ROps [[1; 2]; [3; 4]] = Ok 5.
Proof. unfold mtrace. cbn. f_equal. ring. Qed.
Example guards_example : msquare [[1; 2; 3]; [4; 5; 6]] = false.
Proof. reflexivity. Qed.
