From Coq Require Import Extraction ExtrOcamlBasic ZArith List.
From LP Require Import Num C01_Model C09_Model C09_Model2 C09_Evals.
Extraction Language OCaml.
Extraction "C09_m.ml" init fresh step step_steffen step_full build run locate_kind init2 step2
  construct1 construct1_rows construct1_default construct2 construct2_rows construct2_default dflt_dim sstep get_slot linear_space save_ops save_ops2
  Z.of_nat Z.to_nat.
