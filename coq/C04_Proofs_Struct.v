(** * C04 proofs, part 1: structural facts about the model that use NO arithmetic law.
    They hold for every number type, in particular verbatim for IEEE doubles:
    closed forms of every operation as tables [mk_mat r c f], the class invariant, shape guards,
    Sub_Matrix / Return_Row / Return_Column / Delete_Row / Delete_Column, Symmetric / Diagonal,
    and the coincidence of the different spellings. *)
From mathcomp Require Import all_ssreflect.
From Coq Require List ZArith.
From LP Require Import Num C04_Model.
Set Implicit Arguments. Unset Strict Implicit. Unset Printing Implicit Defensive.
Arguments tab : simpl never.
Arguments tab2 : simpl never.
Arguments remove_nth : simpl never.

(** ** Coq's list functions and comparisons in ssreflect terms *)
Lemma nthE A (l : seq A) d i : List.nth i l d = nth d l i.
Proof. by elim: l i => [|a l IH] [|i] //=. Qed.
Lemma seqE a n : List.seq a n = iota a n.
Proof. by elim: n a => //= n IH a; rewrite IH. Qed.
Lemma foldE A B (f : A -> B -> A) l a : List.fold_left f l a = foldl f a l.
Proof. by elim: l a => //=. Qed.
Lemma forallbE A (p : A -> bool) l : List.forallb p l = all p l.
Proof. by elim: l => //= a l ->. Qed.
Lemma firstnE A n (l : seq A) : List.firstn n l = take n l.
Proof. by elim: n l => [|n IH] [|a l] //=; rewrite IH. Qed.
Lemma skipnE A n (l : seq A) : List.skipn n l = drop n l.
Proof. by elim: n l => [|n IH] [|a l] //=. Qed.
Lemma appE A (l1 l2 : seq A) : List.app l1 l2 = l1 ++ l2.
Proof. by []. Qed.
Lemma eqbE a b : Nat.eqb a b = (a == b).
Proof. by elim: a b => [|a IH] [|b] //=; rewrite IH. Qed.
Lemma lebE a b : Nat.leb a b = (a <= b).
Proof. by elim: a b => [|a IH] [|b] //=; rewrite IH. Qed.
Lemma ltbE a b : Nat.ltb a b = (a < b).
Proof. by rewrite /Nat.ltb lebE. Qed.
Lemma tabE A n (f : nat -> A) : tab n f = mkseq f n.
Proof. by rewrite /tab seqE. Qed.
Lemma lengthE A (l : seq A) : length l = size l.
Proof. by []. Qed.
Definition natE := (eqbE, lebE, ltbE, plusE, minusE, multE, lengthE).

Lemma size_tab A n (f : nat -> A) : size (tab n f) = n.
Proof. by rewrite tabE size_mkseq. Qed.
Lemma nth_tab A n (f : nat -> A) d i : i < n -> nth d (tab n f) i = f i.
Proof. by move=> Hi; rewrite tabE nth_mkseq. Qed.
Lemma nth_tab_out A n (f : nat -> A) d i : n <= i -> nth d (tab n f) i = d.
Proof. by move=> Hi; rewrite nth_default // size_tab. Qed.
Lemma tab_ext A n (f g : nat -> A) : (forall i, i < n -> f i = g i) -> tab n f = tab n g.
Proof.
  move=> H; rewrite !tabE; apply: (@eq_from_nth _ (f 0)); rewrite ?size_mkseq // => i Hi.
  by rewrite !nth_mkseq // H.
Qed.
Lemma tab_nth A (l : seq A) d : tab (size l) (fun i => nth d l i) = l.
Proof. by rewrite tabE; apply: mkseq_nth. Qed.

Section Struct.
Context {T : Type} (Ops : NumOps T).
Local Notation zero := (n0 Ops).
Local Notation ment := (ment Ops).
Local Notation vent := (vent Ops).
Local Notation mk_mat := (@mk_mat T).

(** ** Tables *)
Lemma ment_mk r c f i j : i < r -> j < c -> ment (mk_mat r c f) i j = f i j.
Proof. by move=> Hi Hj; rewrite /ment /= !nthE /tab2 nth_tab // nth_tab. Qed.
Lemma ment_mk_out r c f i j : (r <= i) || (c <= j) -> ment (mk_mat r c f) i j = zero.
Proof.
  rewrite /ment /= !nthE /tab2; case: (ltnP i r) => Hi /=.
  - by move=> Hj; rewrite nth_tab // nth_tab_out.
  - by move=> _; rewrite nth_tab_out // nth_nil.
Qed.
Lemma wf_mk r c f : wf_mat (mk_mat r c f).
Proof.
  rewrite /wf_mat /= ?natE /tab2 size_tab eqxx /= forallbE; apply/(all_nthP [::]) => i.
  by rewrite size_tab => Hi; rewrite nth_tab // ?natE size_tab.
Qed.
Lemma mk_mat_ext r c f g : (forall i j, i < r -> j < c -> f i j = g i j) -> mk_mat r c f = mk_mat r c g.
Proof.
  move=> H; rewrite /mk_mat /C04_Model.mk_mat; congr mkMat; rewrite /tab2.
  by apply: tab_ext => i Hi; apply: tab_ext => j Hj; apply: H.
Qed.

Lemma wfP (A : mat T) :
  reflect (size (mcomps A) = mrows A /\ forall i, i < mrows A -> size (nth [::] (mcomps A) i) = mcols A) (wf_mat A).
Proof.
  rewrite /wf_mat ?natE forallbE; apply: (iffP andP).
  - move=> [/eqP Hs /(all_nthP [::]) Ha]; split=> // i Hi.
    by have := Ha i; rewrite Hs => /(_ Hi); rewrite ?natE => /eqP.
  - move=> [Hs Ha]; split; first by rewrite Hs.
    by apply/(all_nthP [::]) => i; rewrite Hs => Hi; rewrite ?natE Ha.
Qed.

(** eta: a well-formed matrix is the table of its own entries *)
Lemma mk_mat_eta (A : mat T) : wf_mat A -> mk_mat (mrows A) (mcols A) (ment A) = A.
Proof.
  case: A => r c l /wfP /= [Hs Hr]; rewrite /mk_mat /C04_Model.mk_mat; congr mkMat.
  rewrite /tab2 -[RHS](tab_nth _ [::]) Hs; apply: tab_ext => i Hi.
  rewrite -[RHS](tab_nth _ zero) Hr //; apply: tab_ext => j Hj.
  by rewrite /ment /= !nthE.
Qed.
(** extensionality: shape and entries determine a well-formed matrix *)
Lemma mat_ext (A B : mat T) : wf_mat A -> wf_mat B -> mrows A = mrows B -> mcols A = mcols B ->
  (forall i j, i < mrows A -> j < mcols A -> ment A i j = ment B i j) -> A = B.
Proof.
  move=> HA HB Hr Hc H; rewrite -(mk_mat_eta HA) -(mk_mat_eta HB) -Hr -Hc; exact: mk_mat_ext.
Qed.

(** Matrix(std::vector<std::vector<double>>) on a regular non-empty table *)
Lemma mat_of_entries_reg (e : seq (seq T)) c : 0 < size e ->
  (forall i, i < size e -> size (nth [::] e i) = c) -> mat_of_entries e = Ok (mkMat (size e) c e).
Proof.
  case: e => [|r0 e] //= _ H; have H0 := H 0 isT; rewrite /= in H0.
  rewrite ?natE eqxx /= forallbE.
  have -> : all (fun r : seq T => Nat.eqb (length r) (size r0)) e.
    apply/(all_nthP [::]) => i Hi; rewrite ?natE; have := H i.+1; rewrite /= ltnS => /(_ Hi) ->.
    by rewrite H0.
  by rewrite H0.
Qed.
Lemma mat_of_entries_tab r c f : 0 < r -> mat_of_entries (tab2 r c f) = Ok (mk_mat r c f).
Proof.
  move=> Hr; rewrite (@mat_of_entries_reg _ c) /tab2 ?size_tab //.
  by move=> i Hi; rewrite nth_tab // size_tab.
Qed.
Lemma mat_of_entries_wf (A : mat T) : wf_mat A -> 0 < mrows A -> mat_of_entries (mcomps A) = Ok A.
Proof.
  move=> HA Hr; rewrite -{1}(mk_mat_eta HA) /= mat_of_entries_tab //; by rewrite mk_mat_eta.
Qed.
(** a table accepted by the constructor satisfies the invariant, a ragged one exits *)
Lemma mat_of_entries_spec (e : seq (seq T)) :
  match mat_of_entries e with
  | Ok A => wf_mat A /\ mcomps A = e /\ mrows A = size e /\ mcols A = size (head [::] e)
  | Exit => ~ (forall i, i < size e -> size (nth [::] e i) = size (head [::] e))
  | _ => False
  end.
Proof.
  case: e => [|r0 e] //=; rewrite ?natE eqxx /= forallbE.
  case Hall: (all _ e) => /=.
  - split; last by [].
    by rewrite /wf_mat /= ?natE !eqxx /= forallbE.
  - move=> Hreg; move/negP: Hall; apply; apply/(all_nthP [::]) => i Hi; rewrite ?natE.
    by apply/eqP; apply: (Hreg i.+1).
Qed.

(** ** Closed forms *)
Definition same_shape (A B : mat T) : bool := (mrows A == mrows B) && (mcols A == mcols B).
Lemma shape_differsE A B : shape_differs A B = ~~ same_shape A B.
Proof. by rewrite /shape_differs /same_shape ?natE negb_and. Qed.

Definition add_tab (A B : mat T) := mk_mat (mrows A) (mcols A) (fun i j => nadd Ops (ment A i j) (ment B i j)).
Definition sub_tab (A B : mat T) := mk_mat (mrows A) (mcols A) (fun i j => nsub Ops (ment A i j) (ment B i j)).

Lemma m_plus_spec A B : 0 < mrows A ->
  m_plus Ops A B = if same_shape A B then Ok (add_tab A B) else Exit.
Proof. by move=> Hr; rewrite /m_plus shape_differsE; case: same_shape => //=; rewrite mat_of_entries_tab. Qed.
Lemma m_minus_spec A B : 0 < mrows A ->
  m_minus Ops A B = if same_shape A B then Ok (sub_tab A B) else Exit.
Proof. by move=> Hr; rewrite /m_minus shape_differsE; case: same_shape => //=; rewrite mat_of_entries_tab. Qed.
Lemma m_add_assign_spec A B :
  m_add_assign Ops A B = if same_shape A B then Ok (add_tab A B) else Exit.
Proof. by rewrite /m_add_assign shape_differsE; case: same_shape. Qed.
Lemma m_sub_assign_spec A B :
  m_sub_assign Ops A B = if same_shape A B then Ok (sub_tab A B) else Exit.
Proof. by rewrite /m_sub_assign shape_differsE; case: same_shape. Qed.

(** all spellings of the sum agree (member function, operator, compound assignment) *)
Lemma sum_spellings_agree A B : 0 < mrows A ->
  [/\ m_op_plus Ops A B = m_plus Ops A B, m_add_assign Ops A B = m_plus Ops A B,
      m_op_minus Ops A B = m_minus Ops A B & m_sub_assign Ops A B = m_minus Ops A B].
Proof. by move=> Hr; rewrite /m_op_plus /m_op_minus m_add_assign_spec m_sub_assign_spec m_plus_spec // m_minus_spec. Qed.

(** defined exactly when the two shapes are equal *)
Definition sum_spellings : seq (mat T -> mat T -> res (mat T)) :=
  [:: m_plus Ops; m_minus Ops; m_op_plus Ops; m_op_minus Ops; m_add_assign Ops; m_sub_assign Ops].
Lemma sum_defined_iff A B : 0 < mrows A ->
  forall op, List.In op sum_spellings ->
  ((exists C, op A B = Ok C) <-> (mrows A = mrows B /\ mcols A = mcols B)) /\
  (~~ same_shape A B -> op A B = Exit).
Proof.
  move=> Hr op.
  have E1 := m_plus_spec B Hr; have E2 := m_minus_spec B Hr.
  have [H1 H2 H3 H4] := sum_spellings_agree B Hr.
  have X : forall x, (x = m_plus Ops A B \/ x = m_minus Ops A B) ->
     ((exists C, x = Ok C) <-> mrows A = mrows B /\ mcols A = mcols B) /\ (~~ same_shape A B -> x = Exit).
    move=> x Hx.
    have {Hx} [C HC] : exists C, x = if same_shape A B then Ok C else Exit.
      by case: Hx => ->; rewrite ?E1 ?E2; eexists.
    rewrite HC /same_shape; case: eqP => /= [Hrows|Hn]; last first.
      by split=> //; split=> [[? //]|[? _]].
    case: eqP => /= [Hcols|Hn]; last by split=> //; split=> [[? //]|[_ ?]].
    by split=> //; split=> // _; exists C.
  rewrite /sum_spellings /=.
  by case=> [<-|[<-|[<-|[<-|[<-|[<-|//]]]]]]; rewrite ?H1 ?H2 ?H3 ?H4; apply: X; auto.
Qed.

(** scalar multiplication and division: all spellings *)
Definition scale_tab (s : T) (A : mat T) := mk_mat (mrows A) (mcols A) (fun i j => nmul Ops s (ment A i j)).
Definition div_tab (A : mat T) (s : T) := mk_mat (mrows A) (mcols A) (fun i j => ndiv Ops (ment A i j) s).
Lemma scalar_spec A s : 0 < mrows A ->
  [/\ m_product_s Ops A s = Ok (scale_tab s A), m_op_mul_s Ops A s = Ok (scale_tab s A),
      s_mul_m Ops s A = Ok (scale_tab s A), m_division Ops A s = Ok (div_tab A s) &
      m_op_div Ops A s = Ok (div_tab A s)].
Proof.
  move=> Hr; rewrite /m_op_mul_s /s_mul_m /m_op_div /m_product_s /m_division.
  by rewrite !mat_of_entries_tab.
Qed.

(** product: defined iff columns(A) = rows(B); the entries are the code's left-to-right sums *)
Lemma m_product_spec A B :
  m_product Ops A B = if mcols A == mrows B then Ok (mk_mat (mrows A) (mcols B) (dotk Ops A B)) else Exit.
Proof. by rewrite /m_product ?natE; case: eqP. Qed.
Lemma m_op_mul_spec A B : m_op_mul Ops A B = m_product Ops A B.
Proof. by []. Qed.

(** transpose *)
Definition tr_tab (A : mat T) := mk_mat (mcols A) (mrows A) (fun j i => ment A i j).
Lemma transpose_spec A : 0 < mcols A -> transpose Ops A = Ok (tr_tab A).
Proof. by move=> Hc; rewrite /transpose mat_of_entries_tab. Qed.
Lemma transpose_involutive A : wf_mat A -> 0 < mrows A -> 0 < mcols A ->
  rbind (transpose Ops A) (transpose Ops) = Ok A.
Proof.
  move=> HA Hr Hc; rewrite transpose_spec //= transpose_spec //=; congr Ok.
  rewrite /tr_tab /= -[RHS](mk_mat_eta HA); apply: mk_mat_ext => i j Hi Hj; by rewrite ment_mk.
Qed.

(** ** Vectors *)
Lemma vent_of l i : vent (vec_of l) i = nth zero l i.
Proof. by rewrite /vent /= nthE. Qed.
Lemma vent_tab n f i : i < n -> vent (vec_of (tab n f)) i = f i.
Proof. by move=> Hi; rewrite vent_of nth_tab. Qed.
Lemma vec_of_tab n (f : nat -> T) : vec_of (tab n f) = mkVec n (tab n f).
Proof. by rewrite /vec_of lengthE size_tab. Qed.
Lemma wf_vec_of (l : seq T) : wf_vec (vec_of l).
Proof. by rewrite /wf_vec /= ?natE. Qed.
Lemma vec_eta (v : vec T) : wf_vec v -> vec_of (tab (vdim v) (vent v)) = v.
Proof.
  case: v => d l; rewrite /wf_vec /= ?natE => /eqP Hd; rewrite vec_of_tab -Hd; congr mkVec.
  rewrite -[RHS](tab_nth _ zero); apply: tab_ext => i Hi; by rewrite /vent /= nthE.
Qed.

Definition vadd_tab (u v : vec T) := vec_of (tab (vdim u) (fun i => nadd Ops (vent u i) (vent v i))).
Definition vsub_tab (u v : vec T) := vec_of (tab (vdim u) (fun i => nsub Ops (vent u i) (vent v i))).
Lemma vsum_spec u v :
  [/\ vadd Ops u v = if vdim u == vdim v then Ok (vadd_tab u v) else Exit,
      vsub Ops u v = if vdim u == vdim v then Ok (vsub_tab u v) else Exit,
      vadd_assign Ops u v = vadd Ops u v & vsub_assign Ops u v = vsub Ops u v].
Proof.
  rewrite /vadd /vsub /vadd_assign /vsub_assign ?natE /vadd_tab /vsub_tab !vec_of_tab.
  by case: eqP.
Qed.
Lemma vscale_spec v s :
  [/\ vscale Ops v s = vec_of (tab (vdim v) (fun i => nmul Ops (vent v i) s)),
      s_mul_v Ops s v = vscale Ops v s &
      vdivs Ops v s = vec_of (tab (vdim v) (fun i => ndiv Ops (vent v i) s))].
Proof. by []. Qed.

(** cross product: defined iff both operands have size 3; component formula *)
Lemma vcross_spec u v :
  vcross Ops u v =
  if (vdim u == 3) && (vdim v == 3)
  then Ok (vec_of [:: nsub Ops (nmul Ops (vent u 1) (vent v 2)) (nmul Ops (vent u 2) (vent v 1));
                      nsub Ops (nmul Ops (vent u 2) (vent v 0)) (nmul Ops (vent u 0) (vent v 2));
                      nsub Ops (nmul Ops (vent u 0) (vent v 1)) (nmul Ops (vent u 1) (vent v 0))])
  else Exit.
Proof. by rewrite /vcross ?natE -negb_and; case: andP. Qed.

(** ** mat-vec, vec-mat, dot as products with the row / column matrix: the same left-to-right sums *)

Lemma foldl_ext_in A B (f g : A -> B -> A) (l : seq B) a (P : pred B) :
  all P l -> (forall acc x, P x -> f acc x = g acc x) -> foldl f a l = foldl g a l.
Proof. by elim: l a => //= x l IH a /andP [Hx Hl] H; rewrite H // IH. Qed.
Lemma foldl_iota_ext A (f g : A -> nat -> A) a m n :
  (forall acc k, m <= k < m + n -> f acc k = g acc k) -> foldl f a (iota m n) = foldl g a (iota m n).
Proof.
  move=> H; apply: (@foldl_ext_in _ _ _ _ _ _ (fun k => m <= k < m + n)) => //.
  by apply/allP => k; rewrite mem_iota.
Qed.

(** M.Product(v) = M * (column matrix of v), entry by entry *)
Lemma matvec_is_product A v :
  m_product_v Ops A v =
  if vdim v == mcols A
  then Ok (vec_of (tab (mrows A) (fun i => dotk Ops A (col_mat Ops v) i 0))) else Exit.
Proof.
  rewrite /m_product_v ?natE; case: eqP => //= Hd; congr Ok; congr vec_of; apply: tab_ext => i Hi.
  rewrite /dotk !foldE !seqE; apply: foldl_iota_ext => acc k /andP [_]; rewrite add0n => Hk.
  by rewrite /col_mat ment_mk // Hd.
Qed.
(** v * M = (row matrix of v) * M *)
Lemma vecmat_is_product v A :
  v_mul_m Ops v A =
  if vdim v == mrows A
  then Ok (vec_of (tab (mcols A) (fun j => dotk Ops (row_mat Ops v) A 0 j))) else Exit.
Proof.
  rewrite /v_mul_m ?natE; case: eqP => //= Hd; congr Ok; congr vec_of; apply: tab_ext => i Hi.
  rewrite /dotk !foldE !seqE /row_mat /= Hd; apply: foldl_iota_ext => acc k /andP [_]; rewrite add0n => Hk.
  by rewrite ment_mk // Hd.
Qed.
(** u . v = (row u) * (column v) *)
Lemma dot_is_product u v :
  vdot Ops u v = if vdim u == vdim v then Ok (dotk Ops (row_mat Ops u) (col_mat Ops v) 0 0) else Exit.
Proof.
  rewrite /vdot ?natE; case: eqP => //= Hd; congr Ok.
  rewrite /dotk !foldE !seqE /row_mat /=; apply: foldl_iota_ext => acc k /andP [_]; rewrite add0n => Hk.
  by rewrite ment_mk // /col_mat ment_mk // -Hd.
Qed.
Lemma v_op_mul_spec u v : v_op_mul Ops u v = vdot Ops u v.
Proof. by []. Qed.
Lemma m_op_mul_v_spec A v : m_op_mul_v Ops A v = m_product_v Ops A v.
Proof. by []. Qed.
Lemma vnorm_spec v : vnorm Ops v =
  Ok (nsqrt Ops (foldl (fun acc i => nadd Ops acc (nmul Ops (vent v i) (vent v i))) zero (iota 0 (vdim v)))).
Proof. by rewrite /vnorm /vdot ?natE eqxx /= foldE seqE. Qed.

(** ** Square, Trace guard *)
Lemma squareE (A : mat T) : square A = (mrows A == mcols A).
Proof. by rewrite /square ?natE. Qed.
Lemma trace_spec A :
  trace Ops A = if mrows A == mcols A
                then Ok (foldl (fun acc i => nadd Ops acc (ment A i i)) zero (iota 0 (mrows A))) else Exit.
Proof. by rewrite /trace ?natE foldE seqE; case: eqP. Qed.

Lemma trace_nonsquare A : mrows A <> mcols A -> trace Ops A = Exit.
Proof. by move=> /eqP H; rewrite trace_spec (negbTE H). Qed.

(** ** Delete_Row, Delete_Column, Sub_Matrix, Return_Row, Return_Column *)
Lemma nth_remove A (d : A) k (l : seq A) i :
  nth d (remove_nth k l) i = nth d l (if i < k then i else i.+1).
Proof.
  rewrite /remove_nth firstnE skipnE appE nth_cat size_take.
  case: (ltnP k (size l)) => Hk.
  - case: (ltnP i k) => Hi; first by rewrite nth_take.
    by rewrite nth_drop addSn subnKC.
  - case: (ltnP i k) => Hi.
    + case: (ltnP i (size l)) => Hi2; first by rewrite nth_take.
      by rewrite drop_oversize ?nth_nil ?nth_default //; apply: leq_trans Hk _.
    + case: (ltnP i (size l)) => Hi2.
      * by move: (leq_trans Hi2 Hk); rewrite ltnNge Hi.
      * by rewrite drop_oversize ?nth_nil ?nth_default //; [apply: leqW | apply: leq_trans Hk _].
Qed.
Lemma size_remove A k (l : seq A) : k < size l -> size (remove_nth k l) = (size l).-1.
Proof.
  move=> Hk; rewrite /remove_nth firstnE skipnE appE size_cat size_take Hk size_drop.
  by rewrite subnS -subn1 addnBA ?subn_gt0 // subnKC 1?ltnW // subn1.
Qed.

Definition skip (k i : nat) : nat := if i < k then i else i.+1.

Lemma delete_row_spec A k : wf_mat A ->
  delete_row A k = if k < mrows A
                   then Ok (mk_mat (mrows A).-1 (mcols A) (fun i j => ment A (skip k i) j)) else Exit.
Proof.
  move=> HA; rewrite /delete_row ?natE leqNgt; case: (ltnP k (mrows A)) => //= Hk; congr Ok.
  have /wfP [Hs Hr] := HA.
  set B := mkMat _ _ _.
  have HB : wf_mat B.
    apply/wfP; rewrite /B /= size_remove ?Hs // ?natE subn1; split=> // i Hi.
    rewrite nth_remove Hr // /skip; case: ifP => Hik; first by apply: ltn_trans Hk.
    by rewrite -ltn_predRL.
  rewrite -(mk_mat_eta HB) /B /= ?natE subn1; apply: mk_mat_ext => i j Hi Hj.
  by rewrite /ment /= !nthE nth_remove.
Qed.
Lemma delete_column_spec A k : wf_mat A ->
  delete_column A k = if k < mcols A
                      then Ok (mk_mat (mrows A) (mcols A).-1 (fun i j => ment A i (skip k j))) else Exit.
Proof.
  move=> HA; rewrite /delete_column ?natE leqNgt; case: (ltnP k (mcols A)) => //= Hk; congr Ok.
  have /wfP [Hs Hr] := HA.
  set B := mkMat _ _ _.
  have HB : wf_mat B.
    apply/wfP; rewrite /B /= size_map Hs ?natE subn1; split=> // i Hi.
    by rewrite (nth_map [::]) ?Hs // size_remove Hr.
  rewrite -(mk_mat_eta HB) /B /= ?natE subn1; apply: mk_mat_ext => i j Hi Hj.
  by rewrite /ment /= !nthE (nth_map [::]) ?Hs // nth_remove.
Qed.

(** Sub_Matrix(i,j): the matrix without row i and column j; exits iff an index is out of range *)
Lemma sub_matrix_spec A r c : wf_mat A -> 0 < mrows A ->
  sub_matrix A r c =
  if r < mrows A then
    if c < mcols A then Ok (mk_mat (mrows A).-1 (mcols A).-1 (fun i j => ment A (skip r i) (skip c j)))
    else Exit
  else Exit.
Proof.
  move=> HA Hr; rewrite /sub_matrix mat_of_entries_wf //= delete_row_spec //.
  case: ifP => //= Hlt; rewrite delete_column_spec ?wf_mk //=.
  case: ifP => //= Hc; congr Ok; apply: mk_mat_ext => i j Hi Hj.
  rewrite ment_mk // /skip; case: ifP => _; last by rewrite -ltn_predRL.
  by apply: leq_trans Hj (leq_pred _).
Qed.
Lemma sub_matrix_int_spec (A : mat T) (r c : BinNums.Z) : wf_mat A -> 0 < mrows A ->
  sub_matrix_int A r c =
  if (BinInt.Z.ltb r BinNums.Z0 || BinInt.Z.ltb c BinNums.Z0) then Exit
  else sub_matrix A (BinInt.Z.to_nat r) (BinInt.Z.to_nat c).
Proof.
  move=> HA Hr; rewrite /sub_matrix_int /sub_matrix mat_of_entries_wf //=.
  case: (BinInt.Z.ltb r _) => //=; rewrite delete_row_spec //; case: ifP => //= _.
  by case: (BinInt.Z.ltb c _).
Qed.

Lemma return_row_spec A k : wf_mat A ->
  return_row A k = if k < mrows A then Ok (vec_of (tab (mcols A) (fun j => ment A k j))) else Exit.
Proof.
  move=> /wfP [Hs Hr]; rewrite /return_row ?natE leqNgt; case: (ltnP k (mrows A)) => //= Hk; congr Ok; congr vec_of.
  rewrite nthE -[LHS](tab_nth _ zero) Hr //; apply: tab_ext => j Hj; by rewrite /ment !nthE.
Qed.
Lemma return_column_spec A k : wf_mat A -> 0 < mcols A ->
  return_column Ops A k = if k < mcols A then Ok (vec_of (tab (mrows A) (fun i => ment A i k))) else Exit.
Proof.
  move=> HA Hc; rewrite /return_column ?natE leqNgt; case: (ltnP k (mcols A)) => //= Hk.
  rewrite transpose_spec //= return_row_spec ?wf_mk //= Hk; congr Ok; congr vec_of.
  by apply: tab_ext => i Hi; rewrite ment_mk.
Qed.
Lemma m_at_spec A i j : wf_mat A -> j < mcols A ->
  m_at A i j = if i < mrows A then Ok (ment A i j) else Exit.
Proof.
  move=> /wfP [Hs Hr] Hj; rewrite /m_at ?natE leqNgt; case: (ltnP i (mrows A)) => //= Hi.
  rewrite /get2 /get. have Hi' : i < size (mcomps A) by rewrite Hs.
  have -> : List.nth_error (mcomps A) i = Some (nth [::] (mcomps A) i).
    elim: (mcomps A) i Hi' {Hi Hs Hr} => [|a l IH] [|i] //= Hi; exact: IH.
  rewrite /=. have Hj' : j < size (nth [::] (mcomps A) i) by rewrite Hr.
  have -> : List.nth_error (nth [::] (mcomps A) i) j = Some (nth zero (nth [::] (mcomps A) i) j).
    elim: (nth [::] (mcomps A) i) j Hj' {Hj} => [|a l IH] [|j] //= Hj; exact: IH.
  by rewrite /ment !nthE.
Qed.

(** ** Every operation re-establishes the class invariant *)
Lemma mat_of_entries_ok_wf (e : seq (seq T)) C : mat_of_entries e = Ok C -> wf_mat C.
Proof. by move=> H; have := mat_of_entries_spec e; rewrite H => -[]. Qed.
Definition matrix_results (A B : mat T) (s : T) (k l : nat) (u v : vec T) : seq (res (mat T)) :=
  [:: m_plus Ops A B; m_minus Ops A B; m_op_plus Ops A B; m_op_minus Ops A B; m_add_assign Ops A B;
      m_sub_assign Ops A B; m_product Ops A B; m_op_mul Ops A B; m_product_s Ops A s; m_op_mul_s Ops A s;
      s_mul_m Ops s A; m_division Ops A s; m_op_div Ops A s; transpose Ops A; sub_matrix A k l;
      delete_row A k; delete_column A k; Ok (outer Ops u v); Ok (identity Ops k); Ok (mat_fill k l s);
      Ok (mat_diag Ops (vcomps u)); mat_of_entries (mcomps A)].
Lemma wf_preserved (A B : mat T) (s : T) (k l : nat) (u v : vec T) : wf_mat A -> wf_mat B ->
  forall r C, List.In r (matrix_results A B s k l u v) -> r = Ok C -> wf_mat C.
Proof.
  move=> HA HB r C /= H E; move: H; rewrite E {r E}.
  have P e : mat_of_entries e = Ok C -> wf_mat C := @mat_of_entries_ok_wf e C.
  have K r c f : Ok (mk_mat r c f) = Ok C -> wf_mat C by move=> [<-]; apply: wf_mk.
  rewrite /m_op_plus /m_op_minus /m_op_mul /m_op_mul_s /s_mul_m /m_op_div.
  rewrite /m_plus /m_minus /m_add_assign /m_sub_assign /m_product /m_product_s /m_division /transpose.
  rewrite /outer /identity /mat_fill /mat_diag.
  have S : sub_matrix A k l = Ok C -> wf_mat C.
    rewrite /sub_matrix; case E1: (mat_of_entries _) => [M|||] //=.
    have HM := mat_of_entries_ok_wf E1.
    rewrite delete_row_spec //; case: ifP => //= _; rewrite delete_column_spec ?wf_mk //.
    by case: ifP => //= _; apply: K.
  have D1 : delete_row A k = Ok C -> wf_mat C by rewrite delete_row_spec //; case: ifP => // _; apply: K.
  have D2 : delete_column A k = Ok C -> wf_mat C by rewrite delete_column_spec //; case: ifP => // _; apply: K.
  do ![case=> [|]]; try (by case: ifP => // _; (apply: P || apply: K)); try (by apply: P); try (by apply: K); by [].
Qed.
Lemma wf_vec_preserved (A : mat T) (s : T) (k : nat) (u v : vec T) :
  forall r w, List.In r [:: vadd Ops u v; vsub Ops u v; vadd_assign Ops u v; vsub_assign Ops u v; vcross Ops u v;
                            Ok (vscale Ops u s); Ok (vdivs Ops u s); Ok (s_mul_v Ops s u);
                            m_product_v Ops A v; m_op_mul_v Ops A v; v_mul_m Ops v A] -> r = Ok w -> wf_vec w.
Proof.
  move=> r w /= H E; move: H; rewrite E {r E}.
  rewrite /m_op_mul_v /vadd /vsub /vadd_assign /vsub_assign /vcross /vscale /vdivs /s_mul_v /m_product_v /v_mul_m.
  have K l : Ok (vec_of l) = Ok w -> wf_vec w by move=> [<-]; apply: wf_vec_of.
  have K2 n f : Ok (mkVec n (tab n f)) = Ok w -> wf_vec w by move=> [<-]; rewrite /wf_vec /= ?natE size_tab.
  do ![case=> [|]]; try (by case: ifP => // _; (apply: K || apply: K2)); try (by apply: K); by [].
Qed.

(** ** Symmetric, Diagonal, operator== : need only that [neqb] decides equality *)
Hypothesis eqbP : forall x y : T, reflect (x = y) (neqb Ops x y).

Lemma all_iota m n (P : pred nat) : reflect (forall k, m <= k < m + n -> P k) (all P (iota m n)).
Proof. by apply: (iffP allP) => H k; [rewrite -mem_iota; apply: H | rewrite mem_iota; apply: H]. Qed.

(** Symmetric() scans only j >= i, yet decides A = A^T *)
Lemma symmetric_iff A :
  symmetric Ops A <-> (mrows A = mcols A /\ forall i j, i < mrows A -> j < mrows A -> ment A i j = ment A j i).
Proof.
  rewrite /symmetric squareE; case: eqP => /= [Hsq|Hn]; last by split=> // -[].
  rewrite forallbE seqE; split.
  - move=> /all_iota H; split=> // i j Hi Hj.
    wlog Hij : i j Hi Hj / i <= j.
      move=> W; case: (leqP i j) => Hij; first exact: W.
      by symmetry; apply: W => //; apply: ltnW.
    have := H i; rewrite add0n Hi => /(_ isT); rewrite forallbE seqE ?natE => /all_iota /(_ j).
    by rewrite subnKC ?Hij -?Hsq ?Hj ?(ltnW Hi) // => /(_ isT) /eqbP.
  - move=> [_ H]; apply/all_iota => i; rewrite add0n => /andP [_ Hi].
    rewrite forallbE seqE ?natE; apply/all_iota => j; rewrite subnKC -?Hsq ?(ltnW Hi) // => /andP [_ Hj].
    by apply/eqbP; apply: H.
Qed.
Lemma diagonal_iff A :
  diagonal Ops A <-> (mrows A = mcols A /\ forall i j, i < mrows A -> j < mrows A -> i != j -> ment A i j = zero).
Proof.
  rewrite /diagonal squareE; case: eqP => /= [Hsq|Hn]; last by split=> // -[].
  rewrite forallbE !seqE; split.
  - move=> /all_iota H; split=> // i j Hi Hj Hij.
    have := H i; rewrite add0n Hi => /(_ isT); rewrite forallbE => /all_iota /(_ j).
    by rewrite add0n -Hsq Hj ?natE (negbTE Hij) /= => /(_ isT) /eqbP.
  - move=> [_ H]; apply/all_iota => i; rewrite add0n => /andP [_ Hi].
    rewrite forallbE; apply/all_iota => j; rewrite add0n -Hsq ?natE => /andP [_ Hj].
    case: (altP (i =P j)) => //= Hij; by apply/eqbP; apply: H.
Qed.
Lemma m_eq_iff A B : wf_mat A -> wf_mat B -> (m_eq Ops A B <-> A = B).
Proof.
  move=> HA HB; rewrite /m_eq shape_differsE /same_shape.
  case: (altP (mrows A =P mrows B)) => /= [Hr|Hr]; last by split=> // E; move: Hr; rewrite E eqxx.
  case: (altP (mcols A =P mcols B)) => /= [Hc|Hc]; last by split=> // E; move: Hc; rewrite E eqxx.
  rewrite forallbE !seqE; split.
  - move=> /all_iota H; apply: mat_ext => // i j Hi Hj.
    have := H i; rewrite add0n Hi => /(_ isT); rewrite forallbE => /all_iota /(_ j).
    by rewrite add0n Hj => /(_ isT) /eqbP.
  - move=> ->; apply/all_iota => i _; rewrite forallbE; apply/all_iota => j _; exact/eqbP.
Qed.
Lemma veq_iff u v : wf_vec u -> wf_vec v -> (veq Ops u v <-> u = v).
Proof.
  move=> Hu Hv; rewrite /veq ?natE.
  case: (altP (vdim u =P vdim v)) => /= [Hd|Hd]; last by split=> // E; move: Hd; rewrite E eqxx.
  rewrite forallbE seqE; split.
  - move=> /all_iota H; rewrite -(vec_eta Hu) -(vec_eta Hv) -Hd; congr vec_of; apply: tab_ext => i Hi.
    by apply/eqbP; apply: H; rewrite add0n.
  - move=> ->; apply/all_iota => i _; exact/eqbP.
Qed.
End Struct.
