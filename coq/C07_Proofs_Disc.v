(** * C07 proofs, part 2: binomial, Poisson, Poisson likelihoods *)
From Coq Require Import Reals ZArith List Bool Lra Lia Psatz.
From Coquelicot Require Import Coquelicot.
From LP Require Import Num NumR C07_Model C07_Proofs_Cont.
Import ListNotations.
Local Open Scope R_scope.

Lemma IZR_of_nat n : IZR (Z.of_nat n) = INR n.
Proof. symmetry; apply INR_IZR_INZ. Qed.
Lemma fact_pos n : 0 < INR (fact n).
Proof. apply lt_0_INR, lt_O_fact. Qed.
Lemma u32_small k : (0 <= k < 4294967296)%Z -> u32 k = k.
Proof. intros; unfold u32; apply Z.mod_small; auto. Qed.

(** ** 1.3 Binomial.  [binom] is the Binomial_Coefficient parameter; [Hb] says it returns C(n,k) (0 for n < k). *)
Section Binomial.
Variable binom : Z -> Z -> res R.
Hypothesis Hb : forall n k : nat,
  binom (Z.of_nat n) (Z.of_nat k) = Ok (if (n <? k)%nat then 0 else Binomial.C n k).

Definition pmfv (n : nat) (p : R) (k : nat) : R :=
  if (n <? k)%nat then 0 else Binomial.C n k * p ^ k * (1 - p) ^ (n - k).

Lemma pmf_binomial_val n p k : 0 <= p <= 1 -> (Z.of_nat n < 4294967296)%Z ->
  pmf_binomial ROps binom (Z.of_nat n) p (Z.of_nat k) = Ok (pmfv n p k).
Proof.
  intros Hp Hn. unfold pmf_binomial. cbn [nltb n0 Num.n1 ROps]. unfold ngtb; cbn [nltb ROps].
  destruct (Rltb_spec p 0) as [?|_]; [lra|]. destruct (Rltb_spec 1 p) as [?|_]; [lra|]. cbn [orb].
  rewrite Hb. cbn [rbind nmul npowi nsub Num.n1 ROps]. unfold pmfv. destruct (Nat.ltb_spec n k); f_equal.
  - ring.
  - rewrite <- Nat2Z.inj_sub by lia. rewrite u32_small by lia.
    rewrite <- !pow_powerRZ. reflexivity.
Qed.

Lemma binomial_guard n p k : p < 0 \/ 1 < p ->
  pmf_binomial ROps binom n p k = Exit /\ cdf_binomial ROps binom n p k = Exit.
Proof.
  intros Hp. unfold cdf_binomial, pmf_binomial; cbn. unfold ngtb; cbn.
  destruct (Rltb_spec p 0), (Rltb_spec 1 p); cbn; auto; lra.
Qed.

Lemma C_pos n k : (k <= n)%nat -> 0 < Binomial.C n k.
Proof.
  intros. unfold Binomial.C. apply Rdiv_lt_0_compat; [apply fact_pos|].
  apply Rmult_lt_0_compat; apply fact_pos.
Qed.

Lemma pmfv_nonneg n p k : 0 <= p <= 1 -> 0 <= pmfv n p k.
Proof.
  intros Hp. unfold pmfv. destruct (Nat.ltb_spec n k); [lra|].
  apply Rmult_le_pos; [apply Rmult_le_pos|]; [left; apply C_pos; auto|apply pow_le; lra|apply pow_le; lra].
Qed.
Lemma pmfv_beyond n p k : (n < k)%nat -> pmfv n p k = 0.
Proof. intros. unfold pmfv. destruct (Nat.ltb_spec n k); [auto|lia]. Qed.

Lemma cdf_loop_val n p : 0 <= p <= 1 -> (Z.of_nat n < 4294967296)%Z ->
  forall cnt k, cdf_binomial_loop ROps binom (Z.of_nat n) p (Z.of_nat (S k)) cnt (sum_f_R0 (pmfv n p) k)
                = Ok (sum_f_R0 (pmfv n p) (k + cnt)).
Proof.
  intros Hp Hn cnt; induction cnt as [|cnt IH]; intros k.
  - cbn. rewrite Nat.add_0_r. reflexivity.
  - cbn [cdf_binomial_loop]. rewrite pmf_binomial_val by auto. cbn [rbind].
    replace (Z.of_nat (S k) + 1)%Z with (Z.of_nat (S (S k))) by lia.
    change (nadd ROps (sum_f_R0 (pmfv n p) k) (pmfv n p (S k))) with (sum_f_R0 (pmfv n p) (S k)).
    rewrite IH. do 2 f_equal. lia.
Qed.

Lemma cdf_binomial_val n p k : 0 <= p <= 1 -> (Z.of_nat n < 4294967296)%Z ->
  cdf_binomial ROps binom (Z.of_nat n) p (Z.of_nat k) = Ok (sum_f_R0 (pmfv n p) k).
Proof.
  intros Hp Hn. unfold cdf_binomial; cbn. unfold ngtb; cbn.
  destruct (Rltb_spec p 0); [lra|]. destruct (Rltb_spec 1 p); [lra|]. cbn.
  replace (Z.to_nat (Z.of_nat k + 1)) with (S k) by lia.
  cbn [cdf_binomial_loop].
  change (pmf_binomial ROps binom (Z.of_nat n) p 0) with (pmf_binomial ROps binom (Z.of_nat n) p (Z.of_nat 0)).
  rewrite pmf_binomial_val by auto. cbn [rbind].
  change (0 + 1)%Z with (Z.of_nat 1).
  replace (nadd ROps 0 (pmfv n p 0)) with (sum_f_R0 (pmfv n p) 0) by (cbn; ring).
  rewrite cdf_loop_val by auto. reflexivity.
Qed.

Lemma pmfv_sum_n n p : sum_f_R0 (pmfv n p) n = 1.
Proof.
  rewrite (sum_eq _ (fun k => Binomial.C n k * p ^ k * (1 - p) ^ (n - k))).
  - rewrite <- binomial. replace (p + (1 - p)) with 1 by ring. apply pow1.
  - intros i Hi. unfold pmfv. destruct (Nat.ltb_spec n i); [lia|reflexivity].
Qed.
Lemma pmfv_sum_beyond n p d : sum_f_R0 (pmfv n p) (n + d) = 1.
Proof.
  induction d as [|d IH]; [rewrite Nat.add_0_r; apply pmfv_sum_n|].
  replace (n + S d)%nat with (S (n + d)) by lia. cbn [sum_f_R0]. rewrite IH, pmfv_beyond by lia. ring.
Qed.
Lemma pmfv_sum_monotone n p k : 0 <= p <= 1 -> sum_f_R0 (pmfv n p) k <= sum_f_R0 (pmfv n p) (S k).
Proof. intros. cbn [sum_f_R0]. pose proof (pmfv_nonneg n p (S k) H). lra. Qed.
Lemma pmfv_sum_range n p k : 0 <= p <= 1 -> 0 <= sum_f_R0 (pmfv n p) k <= 1.
Proof.
  intros Hp. split.
  - apply cond_pos_sum. intros; apply pmfv_nonneg; auto.
  - destruct (le_lt_dec n k) as [H|H].
    + replace k with (n + (k - n))%nat by lia. rewrite pmfv_sum_beyond. lra.
    + assert (G : forall d, sum_f_R0 (pmfv n p) k <= sum_f_R0 (pmfv n p) (k + d)).
      { induction d as [|d IH]; [rewrite Nat.add_0_r; lra|].
        replace (k + S d)%nat with (S (k + d)) by lia. pose proof (pmfv_sum_monotone n p (k + d) Hp). lra. }
      specialize (G (n - k)%nat). replace (k + (n - k))%nat with n in G by lia. rewrite pmfv_sum_n in G. exact G.
Qed.
End Binomial.

(** the hypothesis on the parameter is satisfiable: the real binomial coefficient *)
Definition binom_R (n k : Z) : res R :=
  if (n <? 0)%Z || (k <? 0)%Z then Exit
  else Ok (if (Z.to_nat n <? Z.to_nat k)%nat then 0 else Binomial.C (Z.to_nat n) (Z.to_nat k)).
Lemma binom_R_spec (n k : nat) :
  binom_R (Z.of_nat n) (Z.of_nat k) = Ok (if (n <? k)%nat then 0 else Binomial.C n k).
Proof.
  unfold binom_R. destruct (Z.ltb_spec (Z.of_nat n) 0); [lia|]. destruct (Z.ltb_spec (Z.of_nat k) 0); [lia|].
  cbn. rewrite !Nat2Z.id. reflexivity.
Qed.

(** ** 1.4 Poisson *)
Lemma ln_fact_S j : ln (INR (fact (S j))) = ln (INR (S j)) + ln (INR (fact j)).
Proof.
  change (fact (S j)) with (S j * fact j)%nat. rewrite mult_INR. apply ln_mult.
  - apply lt_0_INR; lia.
  - apply fact_pos.
Qed.

Lemma sub_logs_val n : forall j acc,
  sub_logs ROps (Z.of_nat (S j)) n acc = acc - (ln (INR (fact (j + n))) - ln (INR (fact j))).
Proof.
  induction n as [|n IH]; intros j acc.
  - cbn. rewrite Nat.add_0_r. ring.
  - cbn [sub_logs]. replace (Z.of_nat (S j) + 1)%Z with (Z.of_nat (S (S j))) by lia.
    rewrite IH. cbn [nsub nln nofZ ROps]. rewrite IZR_of_nat.
    replace (S j + n)%nat with (j + S n)%nat by lia. rewrite (ln_fact_S j). ring.
Qed.
Lemma add_logs_val n : forall j acc,
  add_logs ROps (Z.of_nat (S j)) n acc = acc + (ln (INR (fact (j + n))) - ln (INR (fact j))).
Proof.
  induction n as [|n IH]; intros j acc.
  - cbn. rewrite Nat.add_0_r. ring.
  - cbn [add_logs]. replace (Z.of_nat (S j) + 1)%Z with (Z.of_nat (S (S j))) by lia.
    rewrite IH. cbn [nadd nln nofZ ROps]. rewrite IZR_of_nat.
    replace (S j + n)%nat with (j + S n)%nat by lia. rewrite (ln_fact_S j). ring.
Qed.

(** the mass e^-mu mu^k / k! *)
Definition poisv (mu : R) (k : nat) : R := exp (- mu) * mu ^ k / INR (fact k).

Lemma exp_log_form mu k : 0 < mu ->
  exp (INR k * ln mu - mu - ln (INR (fact k))) = poisv mu k.
Proof.
  intros Hmu. unfold poisv.
  replace (INR k * ln mu - mu - ln (INR (fact k))) with (INR k * ln mu + (- mu + - ln (INR (fact k)))) by ring.
  rewrite !exp_plus, (exp_Ropp (ln (INR (fact k)))), exp_ln by apply fact_pos.
  change (exp (INR k * ln mu)) with (Rpower mu (INR k)). rewrite Rpower_pow by auto.
  field. apply Rgt_not_eq, fact_pos.
Qed.

Lemma pmf_poisson_val mu k : 0 < mu -> pmf_poisson ROps mu (Z.of_nat k) = Ok (poisv mu k).
Proof.
  intros Hmu. unfold pmf_poisson; cbn [nltb neqb n0 n1 ROps nexp nmul nsub nln nofZ].
  destruct (Rltb_spec mu 0); [lra|]. destruct (Reqb_spec mu 0); [lra|]. cbn [andb]. f_equal.
  rewrite <- exp_log_form by auto. f_equal.
  destruct k as [|k].
  - change (Z.to_nat (Z.of_nat 0 - 1)) with 0%nat. cbn [sub_logs]. cbn. rewrite ln_1. ring.
  - replace (Z.to_nat (Z.of_nat (S k) - 1)) with k by lia.
    change 2%Z with (Z.of_nat 2). rewrite (sub_logs_val k 1). rewrite IZR_of_nat.
    change (fact 1) with 1%nat. change (INR 1) with 1. rewrite ln_1. replace (1 + k)%nat with (S k) by lia. ring.
Qed.

Lemma pmf_poisson_conventions :
  pmf_poisson ROps 0 0 = Ok 1 /\ (forall k, (0 < k)%Z -> pmf_poisson ROps 0 k = Ok 0) /\
  (forall mu k, mu < 0 -> pmf_poisson ROps mu k = Exit).
Proof.
  unfold pmf_poisson; cbn [nltb neqb n0 n1 ROps]. repeat split.
  - destruct (Rltb_spec 0 0); [lra|]. destruct (Reqb_spec 0 0); [|lra]. reflexivity.
  - intros k Hk. destruct (Rltb_spec 0 0); [lra|]. destruct (Reqb_spec 0 0); [|lra]. cbn.
    destruct (Z.eqb_spec k 0); [lia|]. destruct (Z.ltb_spec 0 k); [reflexivity|lia].
  - intros mu k H. destruct (Rltb_spec mu 0); [reflexivity|lra].
Qed.

Lemma poisv_nonneg mu k : 0 <= mu -> 0 <= poisv mu k.
Proof.
  intros. unfold poisv. apply Rmult_le_pos; [|left; apply Rinv_0_lt_compat, fact_pos].
  apply Rmult_le_pos; [left; apply exp_pos|apply pow_le; auto].
Qed.

(** partial sums of the masses and the regularised incomplete gamma function at integer a = n+1 *)
Definition pois_sum (n : nat) (mu : R) : R := sum_f_R0 (poisv mu) n.

Lemma poisv_derive_0 mu : is_derive (fun m => poisv m 0) mu (- poisv mu 0).
Proof. unfold poisv. auto_derive; auto. cbn. field. Qed.
Lemma poisv_derive_S mu k : is_derive (fun m => poisv m (S k)) mu (poisv mu k - poisv mu (S k)).
Proof.
  unfold poisv.
  assert (Hc : INR (fact (S k)) = INR (S k) * INR (fact k)).
  { change (fact (S k)) with (S k * fact k)%nat. apply mult_INR. }
  pose proof (fact_pos k). assert (0 < INR (S k)) by (apply lt_0_INR; lia).
  set (c := INR (fact (S k))) in *. clearbody c.
  auto_derive; auto.
  change (match k with 0%nat => 1 | S _ => INR k + 1 end) with (INR (S k)).
  rewrite <- !tech_pow_Rmult. rewrite Hc. field. split; lra.
Qed.

Lemma pois_sum_derive n mu : is_derive (pois_sum n) mu (- poisv mu n).
Proof.
  induction n as [|n IH].
  - unfold pois_sum; cbn [sum_f_R0]. apply poisv_derive_0.
  - unfold pois_sum in *; cbn [sum_f_R0].
    replace (- poisv mu (S n)) with (plus (- poisv mu n) (poisv mu n - poisv mu (S n))) by (unfold plus; cbn; ring).
    apply (is_derive_plus (fun m => sum_f_R0 (poisv m) n) (fun m => poisv m (S n))); [apply IH|apply poisv_derive_S].
Qed.

Lemma pois_sum_0 n : pois_sum n 0 = 1.
Proof.
  induction n as [|n IH]; unfold pois_sum in *; cbn [sum_f_R0].
  - unfold poisv. cbn. rewrite Ropp_0, exp_0. field.
  - rewrite IH. unfold poisv. rewrite pow_i by lia. unfold Rdiv; ring.
Qed.

Lemma pois_sum_is_Q n mu :
  pois_sum n mu = 1 - RInt (fun t => exp (- t) * t ^ n / INR (fact n)) 0 mu.
Proof.
  assert (H : is_RInt (fun t => poisv t n) 0 mu (minus ((fun m => - pois_sum n m) mu) ((fun m => - pois_sum n m) 0))).
  { apply (is_RInt_derive (fun m => - pois_sum n m) (fun t => poisv t n)).
    - intros x _. replace (poisv x n) with (opp (- poisv x n)) by (unfold opp; cbn; ring).
      apply (is_derive_opp (pois_sum n)). apply pois_sum_derive.
    - intros x _. apply (ex_derive_continuous (fun t => poisv t n)). unfold poisv. auto_derive; auto. }
  apply (@is_RInt_unique R_CompleteNormedModule) in H. unfold poisv in H at 1. rewrite H, pois_sum_0.
  unfold minus, plus, opp; cbn. ring.
Qed.

Lemma pois_sum_range n mu : 0 <= mu -> 0 <= pois_sum n mu <= 1.
Proof.
  intros Hmu. split.
  - apply cond_pos_sum. intros; apply poisv_nonneg; auto.
  - rewrite pois_sum_is_Q.
    assert (0 <= RInt (fun t => exp (- t) * t ^ n / INR (fact n)) 0 mu); [|lra].
    apply RInt_ge_0; auto.
    + apply (@ex_RInt_continuous R_CompleteNormedModule). intros x _.
      apply (ex_derive_continuous (fun t => exp (- t) * t ^ n / INR (fact n))). auto_derive; auto.
    + intros x Hx. apply (poisv_nonneg x n). lra.
Qed.
Lemma pois_sum_step n mu : pois_sum (S n) mu - pois_sum n mu = poisv mu (S n).
Proof. unfold pois_sum. cbn [sum_f_R0]. ring. Qed.

Section PoissonCDF.
Variable gammaQ : R -> R -> res R.

Lemma cdf_poisson_guard mu n : mu < 0 -> cdf_poisson ROps gammaQ mu n = Exit.
Proof. intros. unfold cdf_poisson; cbn. destruct (Rltb_spec mu 0); [reflexivity|lra]. Qed.

(* whatever GammaQ returns, CDF_Poisson is max(0, that) *)
Lemma cdf_poisson_clamp mu n q : 0 <= mu -> gammaQ mu (IZR (u32 (n + 1))) = Ok q ->
  cdf_poisson ROps gammaQ mu n = Ok (Rmax 0 q).
Proof.
  intros Hmu Hq. unfold cdf_poisson; cbn. destruct (Rltb_spec mu 0); [lra|].
  rewrite Hq; cbn. unfold ngeb; cbn. destruct (Rleb_spec 0 q); f_equal.
  - rewrite Rmax_right; auto.
  - rewrite Rmax_left; lra.
Qed.

(* if GammaQ returns the regularised upper incomplete gamma function, CDF_Poisson is the partial sum *)
Lemma cdf_poisson_is_sum mu (n : nat) : 0 <= mu -> (Z.of_nat n + 1 < 4294967296)%Z ->
  gammaQ mu (INR (S n)) = Ok (1 - RInt (fun t => exp (- t) * t ^ n / INR (fact n)) 0 mu) ->
  cdf_poisson ROps gammaQ mu (Z.of_nat n) = Ok (sum_f_R0 (poisv mu) n).
Proof.
  intros Hmu Hn Hq. rewrite (cdf_poisson_clamp mu (Z.of_nat n) (pois_sum n mu)); auto.
  - f_equal. rewrite Rmax_right; auto. apply cond_pos_sum. intros; apply poisv_nonneg; auto.
  - rewrite u32_small by lia. replace (Z.of_nat n + 1)%Z with (Z.of_nat (S n)) by lia.
    rewrite IZR_of_nat, pois_sum_is_Q. exact Hq.
Qed.
End PoissonCDF.

(** Inv_CDF_Poisson: n = 0 is the exact inverse of CDF_Poisson(mu, 0) = e^-mu *)
Lemma inv_cdf_poisson_zero inv_gammaQ c : 0 < c <= 1 ->
  exists mu, inv_cdf_poisson ROps inv_gammaQ 0 c = Ok mu /\ 0 <= mu /\ poisv mu 0 = c.
Proof.
  intros Hc. exists (- ln c). unfold inv_cdf_poisson; cbn. unfold ngtb; cbn.
  destruct (Rltb_spec c 0); [lra|]. destruct (Rltb_spec 1 c); [lra|]. cbn. repeat split.
  - f_equal; ring.
  - destruct Hc as [Hc [H1|H1]]; [|rewrite H1, ln_1; lra].
    pose proof (ln_increasing c 1 Hc H1). rewrite ln_1 in H. lra.
  - unfold poisv. rewrite Ropp_involutive, exp_ln by lra. cbn. field.
Qed.
Lemma inv_cdf_poisson_guard inv_gammaQ n c : c < 0 \/ 1 < c -> inv_cdf_poisson ROps inv_gammaQ n c = Exit.
Proof.
  intros H. unfold inv_cdf_poisson; cbn. unfold ngtb; cbn.
  destruct (Rltb_spec c 0), (Rltb_spec 1 c); cbn; auto; lra.
Qed.
Lemma inv_cdf_poisson_delegates inv_gammaQ (n : Z) c : 0 <= c <= 1 -> (0 < n)%Z ->
  inv_cdf_poisson ROps inv_gammaQ n c = inv_gammaQ c (IZR (u32 (n + 1))).
Proof.
  intros Hc Hn. unfold inv_cdf_poisson; cbn. unfold ngtb; cbn.
  destruct (Rltb_spec c 0); [lra|]. destruct (Rltb_spec 1 c); [lra|]. cbn.
  destruct (Z.eqb_spec n 0); [lia|reflexivity].
Qed.

(** ** 2. Likelihoods *)
Lemma log_likelihood_val s (n : nat) b :
  log_likelihood_poisson ROps s (Z.of_nat n) b = INR n * ln (s + b) - ln (INR (fact n)) - (s + b).
Proof.
  unfold log_likelihood_poisson. rewrite Nat2Z.id. change 1%Z with (Z.of_nat 1).
  rewrite (add_logs_val n 0). cbn [nadd nsub nmul nln nofZ n0 ROps]. rewrite IZR_of_nat.
  change (fact 0) with 1%nat. change (INR 1) with 1. rewrite ln_1. replace (0 + n)%nat with n by lia. ring.
Qed.

Lemma likelihood_is_pmf s (n : nat) b : 0 < s + b ->
  Ok (likelihood_poisson ROps s (Z.of_nat n) b) = pmf_poisson ROps (s + b) (Z.of_nat n).
Proof.
  intros H. rewrite pmf_poisson_val by auto. f_equal. unfold likelihood_poisson. rewrite log_likelihood_val.
  cbn [nexp ROps]. rewrite <- exp_log_form by auto. f_equal. ring.
Qed.

Lemma log_likelihood_is_log s (n : nat) b : 0 < s + b ->
  log_likelihood_poisson ROps s (Z.of_nat n) b = ln (poisv (s + b) n) /\
  log_likelihood_poisson ROps s (Z.of_nat n) b = ln (likelihood_poisson ROps s (Z.of_nat n) b).
Proof.
  intros H. split.
  - rewrite <- exp_log_form by auto. rewrite ln_exp, log_likelihood_val. ring.
  - unfold likelihood_poisson. cbn [nexp ROps]. rewrite ln_exp. reflexivity.
Qed.

(* the bins the binned functions iterate over *)
Definition bins (pred : list R) (obs : list Z) (bg : list R) : list (R * Z * R) :=
  combine (combine pred obs) (match bg with [] => repeat 0 (length pred) | _ => bg end).
Definition sizes_ok (pred : list R) (obs : list Z) (bg : list R) : Prop :=
  length obs = length pred /\ (bg = [] \/ length bg = length pred).
Definition bin_ll (t : R * Z * R) : R := log_likelihood_poisson ROps (fst (fst t)) (snd (fst t)) (snd t).
Definition bin_l (t : R * Z * R) : R := likelihood_poisson ROps (fst (fst t)) (snd (fst t)) (snd t).

Lemma fold_sum (g : R * Z * R -> R) l : forall a,
  fold_left (fun acc t => nadd ROps acc (g t)) l a = a + fold_right Rplus 0 (map g l).
Proof. induction l as [|t l IH]; intros a; cbn; [ring|]. rewrite IH. cbn. ring. Qed.

Lemma bg_len (pred bg : list R) : bg = [] \/ length bg = length pred ->
  length (match bg with [] => repeat 0 (length pred) | _ => bg end) = length pred.
Proof. intros [->|H]; [apply repeat_length|]. destruct bg; [destruct pred; [reflexivity|discriminate]|auto]. Qed.

Lemma binned_log_is_sum pred obs bg : sizes_ok pred obs bg ->
  log_likelihood_poisson_binned ROps pred obs bg = Ok (fold_right Rplus 0 (map bin_ll (bins pred obs bg))).
Proof.
  intros [Ho Hb]. unfold log_likelihood_poisson_binned. cbn [n0 ROps].
  rewrite (bg_len pred bg Hb), Ho, Nat.eqb_refl. cbn [negb orb].
  f_equal. rewrite (fold_sum bin_ll). unfold bins. ring.
Qed.

Lemma exp_sum_prod l : exp (fold_right Rplus 0 (map bin_ll l)) = fold_right Rmult 1 (map bin_l l).
Proof.
  induction l as [|t l IH]; cbn [map fold_right]; [apply exp_0|].
  rewrite exp_plus, IH. reflexivity.
Qed.

Lemma binned_is_product pred obs bg : sizes_ok pred obs bg ->
  likelihood_poisson_binned ROps pred obs bg = Ok (fold_right Rmult 1 (map bin_l (bins pred obs bg))).
Proof.
  intros H. unfold likelihood_poisson_binned. rewrite binned_log_is_sum by auto. cbn [rbind nexp ROps].
  rewrite exp_sum_prod. reflexivity.
Qed.

Lemma binned_size_mismatch pred obs bg : ~ sizes_ok pred obs bg ->
  log_likelihood_poisson_binned ROps pred obs bg = Exit /\ likelihood_poisson_binned ROps pred obs bg = Exit.
Proof.
  intros H. assert (E : log_likelihood_poisson_binned ROps pred obs bg = Exit).
  { unfold log_likelihood_poisson_binned. cbn [n0 ROps].
    destruct (Nat.eqb_spec (length obs) (length pred)) as [Ho|Ho]; cbn [negb orb]; [|reflexivity].
    destruct (Nat.eqb_spec (length (match bg with [] => repeat 0 (length pred) | _ => bg end)) (length pred)) as [Hb|Hb];
      cbn [negb]; [|reflexivity].
    exfalso; apply H; split; auto. destruct bg; [left; reflexivity|right; exact Hb]. }
  split; [exact E|]. unfold likelihood_poisson_binned. rewrite E. reflexivity.
Qed.

Lemma binned_empty_background pred obs :
  log_likelihood_poisson_binned ROps pred obs [] = log_likelihood_poisson_binned ROps pred obs (repeat 0 (length pred)).
Proof.
  unfold log_likelihood_poisson_binned. cbn [n0 ROps]. destruct pred; reflexivity.
Qed.

(** a histogram cut into two consecutive blocks of bins: the binned log-likelihood of the whole is the sum of the blocks'
    (summation in blocks of any size gives the same number), the likelihood is the product *)
Lemma combine_app2 {A B} (l1 l2 : list A) (m1 m2 : list B) : length l1 = length m1 ->
  combine (l1 ++ l2) (m1 ++ m2) = combine l1 m1 ++ combine l2 m2.
Proof.
  revert m1; induction l1 as [|a l1 IH]; intros [|b m1] H; try discriminate; cbn; [reflexivity|].
  f_equal. apply IH. injection H; auto.
Qed.
Lemma sum_app (a b : list R) : fold_right Rplus 0 (a ++ b) = fold_right Rplus 0 a + fold_right Rplus 0 b.
Proof. induction a as [|x a IH]; cbn; [ring|]. rewrite IH. ring. Qed.
Lemma bg_id (pred bg : list R) : length bg = length pred ->
  (match bg with [] => repeat 0 (length pred) | _ => bg end) = bg.
Proof. destruct bg; cbn; intros H; [rewrite <- H; reflexivity|reflexivity]. Qed.

Lemma binned_blocks p1 o1 b1 p2 o2 b2 :
  length o1 = length p1 -> length b1 = length p1 -> length o2 = length p2 -> length b2 = length p2 ->
  exists l1 l2,
    log_likelihood_poisson_binned ROps p1 o1 b1 = Ok l1 /\ log_likelihood_poisson_binned ROps p2 o2 b2 = Ok l2 /\
    log_likelihood_poisson_binned ROps (p1 ++ p2) (o1 ++ o2) (b1 ++ b2) = Ok (l1 + l2) /\
    likelihood_poisson_binned ROps (p1 ++ p2) (o1 ++ o2) (b1 ++ b2) = Ok (exp l1 * exp l2).
Proof.
  intros Ho1 Hb1 Ho2 Hb2.
  assert (S1 : sizes_ok p1 o1 b1) by (split; [auto|right; auto]).
  assert (S2 : sizes_ok p2 o2 b2) by (split; [auto|right; auto]).
  assert (Hb : length (b1 ++ b2) = length (p1 ++ p2)) by (rewrite !app_length; congruence).
  assert (S3 : sizes_ok (p1 ++ p2) (o1 ++ o2) (b1 ++ b2)) by (split; [rewrite !app_length; congruence|right; exact Hb]).
  assert (E : log_likelihood_poisson_binned ROps (p1 ++ p2) (o1 ++ o2) (b1 ++ b2) =
              Ok (fold_right Rplus 0 (map bin_ll (bins p1 o1 b1)) + fold_right Rplus 0 (map bin_ll (bins p2 o2 b2)))).
  { rewrite (binned_log_is_sum _ _ _ S3). f_equal. unfold bins.
    rewrite (bg_id _ _ Hb), (bg_id _ _ Hb1), (bg_id _ _ Hb2).
    rewrite (combine_app2 p1 p2 o1 o2) by congruence.
    rewrite combine_app2 by (rewrite combine_length, Ho1, Hb1; apply Nat.min_id).
    rewrite map_app. apply sum_app. }
  eexists; eexists. split; [apply (binned_log_is_sum _ _ _ S1)|]. split; [apply (binned_log_is_sum _ _ _ S2)|].
  split; [exact E|]. unfold likelihood_poisson_binned. rewrite E. cbn [rbind nexp ROps]. rewrite exp_plus. reflexivity.
Qed.
Example binned_blocks_ex : exists l, log_likelihood_poisson_binned ROps ([1] ++ [2]) ([0%Z] ++ [0%Z]) ([0] ++ [1]) = Ok l.
Proof. destruct (binned_blocks [1] [0%Z] [0] [2] [0%Z] [1] eq_refl eq_refl eq_refl eq_refl) as (l1 & l2 & _ & _ & H & _). eexists; exact H. Qed.

(** ** 2b. Sessions of likelihood requests in one process: every answer is the answer to the request alone,
    whatever was asked before it (also requests outside the property's ranges) and whatever follows *)
Section Session.
Context {T : Type} (Ops : NumOps T).

Lemma lik_session_answer pre q post : forall l,
  lik_session Ops (pre ++ q :: post) = Ok l ->
  exists a, nth_error l (length pre) = Some a /\ lik_answer Ops q = Ok a.
Proof.
  unfold lik_session. induction pre as [|p pre IH]; intros l H; cbn in H.
  - destruct (lik_answer Ops q) as [a| | |] eqn:E; cbn in H; try discriminate.
    destruct (lik_session_from Ops tt post); cbn in H; try discriminate.
    injection H as <-. exists a. split; reflexivity.
  - destruct (lik_answer Ops p); cbn in H; try discriminate.
    destruct (lik_session_from Ops tt (pre ++ q :: post)) as [t| | |] eqn:E; cbn in H; try discriminate.
    injection H as <-. cbn. apply IH. reflexivity.
Qed.

Lemma lik_session_history_independent pre pre' post post' q l l' :
  lik_session Ops (pre ++ q :: post) = Ok l -> lik_session Ops (pre' ++ q :: post') = Ok l' ->
  nth_error l (length pre) = nth_error l' (length pre') /\ nth_error l (length pre) <> None.
Proof.
  intros H H'. destruct (lik_session_answer _ _ _ _ H) as (a & Ha & Ea).
  destruct (lik_session_answer _ _ _ _ H') as (a' & Ha' & Ea').
  rewrite Ea in Ea'. injection Ea' as <-. rewrite Ha, Ha'. split; [reflexivity|discriminate].
Qed.

(* single-bin requests never terminate the process, in range or not *)
Lemma lik_session_scalar (cs : list (T * Z * T)) :
  lik_session Ops (map (fun c => ReqLik (fst (fst c)) (snd (fst c)) (snd c)) cs) =
  Ok (map (fun c => (log_likelihood_poisson Ops (fst (fst c)) (snd (fst c)) (snd c),
                     likelihood_poisson Ops (fst (fst c)) (snd (fst c)) (snd c))) cs).
Proof.
  unfold lik_session. induction cs as [|c cs IH]; [reflexivity|].
  cbn [map lik_session_from lik_step lik_answer rbind]. rewrite IH. reflexivity.
Qed.
End Session.

Lemma lik_session_in_range pre post s (n : nat) b l : 0 < s + b ->
  lik_session ROps (pre ++ ReqLik s (Z.of_nat n) b :: post) = Ok l ->
  exists ll lk, nth_error l (length pre) = Some (ll, lk) /\
    Ok lk = pmf_poisson ROps (s + b) (Z.of_nat n) /\ ll = ln (poisv (s + b) n) /\ ll = ln lk.
Proof.
  intros Hm H. destruct (lik_session_answer _ _ _ _ _ H) as (a & Ha & Ea). cbn [lik_answer] in Ea.
  injection Ea as <-. eexists; eexists. split; [exact Ha|].
  split; [apply likelihood_is_pmf; exact Hm|]. apply log_likelihood_is_log; exact Hm.
Qed.
(* non-vacuity: a scan that starts at signal strength 0 without background (total expectation 0, outside the range) and goes on *)
Example lik_session_ex : exists l, lik_session ROps ([ReqLik 0 3 0] ++ ReqLik (1/2) (Z.of_nat 3) 0 :: [ReqLik 1 3 0]) = Ok l /\ 0 < 1/2 + 0.
Proof. eexists. split; [reflexivity|lra]. Qed.
