(** * C15 — sessions: calls on a Matrix object whose value the caller changes between the calls
    (1) In the model a call of a session is a function of the value the object holds when the call is made: whatever operations came
        before, the answer is the answer of a fresh call on the current value, and calls leave both objects alone.  (The library has no
        statics and no members in these routines; a change that keeps a result between calls breaks the correspondence on the sessions
        of checks/C15.py.)
    (2) Why a remembered answer cannot be keyed on dimension, trace and norm: relabelling the basis (the symmetric exchange of the rows and
        columns i, j, step "swap" of the sessions) keeps symmetry, trace and the sum of the squared entries, and maps every eigenpair
        (lambda, v) to (lambda, v with the components i, j exchanged): same spectrum, other eigenvectors. *)
From Coq Require Import Reals List Lra ZArith Lia Arith Bool.
From LP Require Import Num NumR C15_Model C15_Proofs.
Import ListNotations.
Local Open Scope R_scope.

(** ** (1) calls are functions of the current value *)
Lemma session_run_app (st : sstate (T := R)) (pre post : list (sop (T := R))) :
  session_run ROps st (pre ++ post) =
  (fst (session_run ROps st pre) ++ fst (session_run ROps (snd (session_run ROps st pre)) post),
   snd (session_run ROps (snd (session_run ROps st pre)) post)).
Proof.
  revert st. induction pre as [| o pre IH]; intros st; cbn [app session_run fst snd].
  - destruct (session_run ROps st post); reflexivity.
  - rewrite IH. reflexivity.
Qed.

Definition is_call (o : sop (T := R)) : bool := match o with SSys | SVecs | SVals | SQR => true | _ => false end.
Definition fresh_answer (a : list (list R)) (o : sop (T := R)) : sout (T := R) :=
  match o with
  | SSys => OSys (eigensystem ROps a)
  | SVecs => OVecs (eigensystem ROps a)
  | SVals => OVals (eigenvalues ROps a)
  | SQR => OQR (qr_decomposition ROps a)
  | _ => ONone
  end.

Lemma session_call_is_fresh (m : list (list R)) (pre : list (sop (T := R))) (o : sop (T := R)) :
  is_call o = true ->
  let st := snd (session ROps m pre) in
  session ROps m (pre ++ [o]) = (fst (session ROps m pre) ++ [fresh_answer (fst st) o], st).
Proof.
  intros Hc st. unfold session. rewrite session_run_app. fold (session ROps m pre). fold st.
  destruct o; cbn in Hc; try discriminate; cbn; destruct st; reflexivity.
Qed.

(** ** (2) relabelling the basis *)
Lemma transp_lt n i j k : (i < n)%nat -> (j < n)%nat -> (k < n)%nat -> (transp i j k < n)%nat.
Proof. intros. unfold transp. destruct (Nat.eqb k i); [assumption|]. destruct (Nat.eqb k j); assumption. Qed.
Lemma transp_invol i j k : transp i j (transp i j k) = k.
Proof.
  unfold transp.
  destruct (Nat.eqb k i) eqn:E1.
  - apply Nat.eqb_eq in E1. subst k. destruct (Nat.eqb j i) eqn:E2; [apply Nat.eqb_eq in E2; congruence|]. rewrite Nat.eqb_refl. reflexivity.
  - destruct (Nat.eqb k j) eqn:E2.
    + apply Nat.eqb_eq in E2. subst k. rewrite Nat.eqb_refl. reflexivity.
    + rewrite E1, E2. reflexivity.
Qed.

(** one term taken out of a sum *)
Lemma rsum_extract f n i : (i < n)%nat -> rsum f n = f i + rsum (fun k => if Nat.eqb k i then 0 else f k) n.
Proof.
  induction n; intros Hi; [lia|]. cbn [rsum].
  destruct (Nat.eq_dec i n) as [-> | Hne].
  - rewrite Nat.eqb_refl.
    rewrite (rsum_ext (fun k => if Nat.eqb k n then 0 else f k) f n).
    + ring.
    + intros k Hk. destruct (Nat.eqb k n) eqn:E; [apply Nat.eqb_eq in E; lia | reflexivity].
  - rewrite IHn by lia. destruct (Nat.eqb n i) eqn:E; [apply Nat.eqb_eq in E; lia|]. ring.
Qed.

(** a sum does not depend on the order of two of its terms *)
Lemma rsum_transp f n i j : (i < n)%nat -> (j < n)%nat -> rsum (fun k => f (transp i j k)) n = rsum f n.
Proof.
  intros Hi Hj. destruct (Nat.eq_dec i j) as [-> | Hne].
  - apply rsum_ext. intros k _. unfold transp. destruct (Nat.eqb k j) eqn:E; [apply Nat.eqb_eq in E; congruence | reflexivity].
  - rewrite (rsum_extract (fun k => f (transp i j k)) n i Hi).
    rewrite (rsum_extract (fun k => if Nat.eqb k i then 0 else f (transp i j k)) n j Hj).
    rewrite (rsum_extract f n i Hi).
    rewrite (rsum_extract (fun k => if Nat.eqb k i then 0 else f k) n j Hj).
    assert (Nat.eqb j i = false) as Eji by (apply Nat.eqb_neq; congruence).
    rewrite Eji.
    assert (transp i j i = j) as T1 by (unfold transp; rewrite Nat.eqb_refl; reflexivity).
    assert (transp i j j = i) as T2 by (unfold transp; rewrite Eji, Nat.eqb_refl; reflexivity).
    rewrite T1, T2.
    rewrite (rsum_ext (fun k => if Nat.eqb k j then 0 else if Nat.eqb k i then 0 else f (transp i j k))
                      (fun k => if Nat.eqb k j then 0 else if Nat.eqb k i then 0 else f k) n).
    + ring.
    + intros k _. destruct (Nat.eqb k j) eqn:E1; [reflexivity|]. destruct (Nat.eqb k i) eqn:E2; [reflexivity|].
      unfold transp. rewrite E2, E1. reflexivity.
Qed.

Section Relabel.
Variables (n i j : nat) (m : list (list R)).
Hypothesis Hwf : wf n m.
Hypothesis Hi : (i < n)%nat.
Hypothesis Hj : (j < n)%nat.
Let P := sym_swap ROps m i j.

Lemma sym_swap_entry r c : (r < n)%nat -> (c < n)%nat -> ment ROps P r c = ment ROps m (transp i j r) (transp i j c).
Proof. intros Hr Hc. unfold P, sym_swap, nrows. destruct Hwf as [L _]. rewrite L. rewrite ment_mk by assumption. reflexivity. Qed.

Lemma sym_swap_symmetric :
  (forall r c, (r < n)%nat -> (c < n)%nat -> ment ROps m r c = ment ROps m c r) ->
  forall r c, (r < n)%nat -> (c < n)%nat -> ment ROps P r c = ment ROps P c r.
Proof. intros Hs r c Hr Hc. rewrite !sym_swap_entry by assumption. apply Hs; apply transp_lt; assumption. Qed.

Lemma sym_swap_trace : rsum (fun k => ment ROps P k k) n = rsum (fun k => ment ROps m k k) n.
Proof.
  rewrite (rsum_ext _ (fun k => ment ROps m (transp i j k) (transp i j k))) by (intros k Hk; apply sym_swap_entry; assumption).
  exact (rsum_transp (fun l => ment ROps m l l) n i j Hi Hj).
Qed.

Lemma sym_swap_norm2 :
  rsum (fun r => rsum (fun c => ment ROps P r c * ment ROps P r c) n) n = rsum (fun r => rsum (fun c => ment ROps m r c * ment ROps m r c) n) n.
Proof.
  rewrite (rsum_ext _ (fun r => rsum (fun c => ment ROps m (transp i j r) c * ment ROps m (transp i j r) c) n)).
  - exact (rsum_transp (fun r' => rsum (fun c => ment ROps m r' c * ment ROps m r' c) n) n i j Hi Hj).
  - intros r Hr.
    rewrite (rsum_ext _ (fun c => ment ROps m (transp i j r) (transp i j c) * ment ROps m (transp i j r) (transp i j c)))
      by (intros c Hc; rewrite sym_swap_entry by assumption; reflexivity).
    exact (rsum_transp (fun c' => ment ROps m (transp i j r) c' * ment ROps m (transp i j r) c') n i j Hi Hj).
Qed.

(** an eigenpair of M gives the eigenpair of the relabelled matrix with the components i, j of the vector exchanged *)
Lemma sym_swap_eigenpair (v : nat -> R) (lam : R) :
  (forall r, (r < n)%nat -> rsum (fun c => ment ROps m r c * v c) n = lam * v r) ->
  forall r, (r < n)%nat -> rsum (fun c => ment ROps P r c * v (transp i j c)) n = lam * v (transp i j r).
Proof.
  intros He r Hr.
  rewrite (rsum_ext _ (fun c => ment ROps m (transp i j r) (transp i j c) * v (transp i j c)))
    by (intros c Hc; rewrite sym_swap_entry by assumption; reflexivity).
  rewrite (rsum_transp (fun c' => ment ROps m (transp i j r) c' * v c') n i j Hi Hj). apply He. apply transp_lt; assumption.
Qed.
End Relabel.

(** non-vacuity and the point of (2): M = [[2, 2], [2, -1]] (eigenvalues 3, -2) and its relabelling [[-1, 2], [2, 2]] agree in dimension, trace
    and norm; (2, 1) is an eigenvector of the first and not of the second *)
Example relabel_example :
  let m := [[2; 2]; [2; -1]] in
  wf 2 m /\ sym_swap ROps m 0 1 = [[-1; 2]; [2; 2]] /\
  mvec ROps m [2; 1] = map (Rmult 3) [2; 1] /\ mvec ROps (sym_swap ROps m 0 1) [1; 2] = map (Rmult 3) [1; 2] /\
  mvec ROps (sym_swap ROps m 0 1) [2; 1] <> map (Rmult 3) [2; 1].
Proof.
  cbn. repeat split.
  - intros k Hk. destruct k as [| [| k]]; cbn; [reflexivity | reflexivity | lia].
  - unfold mvec, vdot; cbn. f_equal; [ring | f_equal; ring].
  - unfold mvec, vdot; cbn. f_equal; [ring | f_equal; ring].
  - unfold mvec, vdot; cbn. intros H. injection H as H1 _. lra.
Qed.
