From Coq Require Import Extraction ExtrOcamlBasic ZArith List.
From LP Require Import Num C03_Model C03_Model2.
Extraction Language OCaml.
Extraction "C03_m.ml" asr integrate find_epsilon integrate_default integrate_method run_call step run_seq run_call_ab step_ab run_seq_ab reentrant check_limits result_diag integrate_report integrate_named integrate_2d integrate_3d Z.of_nat Z.to_nat.
