(** C13 — property theorems only.  Each is closed by [exact] of a lemma proved in C13_Proofs.v.
    Model: C13_Model.v ([integrate_named], [integrate_reentrant], [integrate_2d], [integrate_3d], [integrate_3d_spherical]); the boost
    quadratures are the parameter [I], the Monte-Carlo integrators the parameter [MC].
    [selected I m p f lo hi] (C13_Proofs.v) is the call a known name delegates to on ordered limits;
    [okf g] is the integrand [fun x => Ok (g x)]; results are [Ok value] or [Exit] (std::exit). *)
From Coq Require Import Reals ZArith List String.
From Coquelicot Require Import Coquelicot.
From LP Require Import Num NumR C13_Model C13_Proofs.
Import ListNotations.
Local Open Scope R_scope.

(** "every named one-dimensional method": the six names are recognised ... *)
Theorem C13_method_names :
  parse_method "Trapezoidal" = M_Trapezoidal /\ parse_method "Gauss-Legendre" = M_GaussLegendre /\
  parse_method "Gauss-Kronrod" = M_GaussKronrod /\ parse_method "Tanh-Sinh" = M_TanhSinh /\
  parse_method "Gauss-Legendre_2" = M_GaussLegendre2 /\ parse_method "Adaptive-Simpson" = M_AdaptiveSimpson /\
  parse_method "Monte-Carlo" = M_MonteCarlo /\ parse_method "Vegas" = M_Vegas /\ parse_method "Miser" = M_Miser.
Proof. exact parse_known. Qed.
Print Assumptions C13_method_names.

(** ... every other string is not one of the six, and Integrate terminates on it whatever the limits are
    (the name is validated before the limits are compared). *)
Theorem C13_unknown_name_exits I (s : string) f a b p :
  s <> "Trapezoidal"%string -> s <> "Gauss-Legendre"%string -> s <> "Gauss-Kronrod"%string -> s <> "Tanh-Sinh"%string ->
  s <> "Gauss-Legendre_2"%string -> s <> "Adaptive-Simpson"%string ->
  integrate_named ROps I (parse_method s) f a b p = Exit.
Proof. exact (unknown_name_exits I s f a b p). Qed.
Print Assumptions C13_unknown_name_exits.

(** Known names select the stated back end with the stated parameter defaults (Gauss-Kronrod: max_depth 5 when the
    parameter is 0; Gauss-Legendre_2: 30 points when it is 0; Adaptive-Simpson: epsilon = Find_Epsilon(f,a,b,1e-9)). *)
Theorem C13_dispatch_table (I : backend -> (R -> res R) -> R -> R -> res R) f a b p : a < b ->
  let IN := integrate_named ROps I in
  let id := fun r : R => r in
  IN M_Trapezoidal f a b p = rmap id (I B_trapezoidal f a b) /\
  IN M_GaussLegendre f a b p = rmap id (I B_gauss30 f a b) /\
  IN M_GaussKronrod f a b 0%Z = rmap id (I (B_kronrod31 5%Z) f a b) /\
  (p <> 0%Z -> IN M_GaussKronrod f a b p = rmap id (I (B_kronrod31 p) f a b)) /\
  IN M_TanhSinh f a b p = rmap id (I B_tanh_sinh f a b) /\
  IN M_GaussLegendre2 f a b 0%Z = rmap id (gl_integrate ROps f a b 30%Z) /\
  (p <> 0%Z -> IN M_GaussLegendre2 f a b p = rmap id (gl_integrate ROps f a b p)) /\
  IN M_AdaptiveSimpson f a b p =
    rmap id (rbind (find_epsilon ROps f a b (1 / 1000000000)) (fun eps => integrate_eps ROps f a b eps 20)).
Proof. exact (dispatch_table I f a b p). Qed.
Print Assumptions C13_dispatch_table.

(** "reversing the limits negates the result": for every method name, integrand and back end. *)
Theorem C13_reversed_limits_negate I m f a b p : a <> b ->
  integrate_named ROps I m f b a p = rmap Ropp (integrate_named ROps I m f a b p).
Proof. exact (reversed_negates I m f a b p). Qed.
Print Assumptions C13_reversed_limits_negate.

(** with reversed limits the back end is called on the ordered limits and the result negated *)
Theorem C13_dispatch_reversed I m f a b p : is_nested_method m = true -> b < a ->
  integrate_named ROps I m f a b p = rmap Ropp (selected I m p f b a).
Proof. exact (dispatch_reversed I m f a b p). Qed.
Print Assumptions C13_dispatch_reversed.

(** "equal limits give zero": for every known name, whatever the back end [I]/[I'] and the integrand [f]/[f'] are —
    neither is called. *)
Theorem C13_equal_limits_zero I I' m f f' a p : is_nested_method m = true ->
  integrate_named ROps I m f a a p = Ok 0 /\ integrate_named ROps I' m f' a a p = Ok 0.
Proof. exact (equal_limits_no_call I I' m f f' a p). Qed.
Print Assumptions C13_equal_limits_zero.

(** "returns the exact integral": if the selected back end is exact on ordered limits (premise; its accuracy is
    decided on the implementation, not proved), Integrate returns RInt for every orientation of the limits. *)
Theorem C13_named_exact I m p : is_nested_method m = true ->
  (forall g lo hi, lo < hi -> ex_RInt g lo hi -> selected I m p (okf g) lo hi = Ok (RInt g lo hi)) ->
  forall g a b, ex_RInt g a b -> integrate_named ROps I m (okf g) a b p = Ok (RInt g a b).
Proof. exact (named_exact I m p). Qed.
Print Assumptions C13_named_exact.

(** "every named one-dimensional method returns the exact integral" also when the integrand is itself defined through an
    integral, i.e. when Integrate is called again (with any of the six names and any method_parameter) while it evaluates its
    integrand: the model carries no state from one call into another, and with exact back ends at both levels the result is
    the integral of x |-> outer x (integral of inner x from lo x to hi x), for every orientation of the limits at both levels. *)
Theorem C13_reentrant_integrand I mi q (outer inner : R -> R -> R) (lo hi : R -> R) :
  is_nested_method mi = true ->
  (forall g lo hi, lo < hi -> ex_RInt g lo hi -> selected I mi q (okf g) lo hi = Ok (RInt g lo hi)) ->
  (forall x, ex_RInt (inner x) (lo x) (hi x)) ->
  reentrant_integrand ROps I mi q outer inner lo hi = okf (fun x => outer x (RInt (inner x) (lo x) (hi x))).
Proof. exact (reentrant_integrand_exact I mi q outer inner lo hi). Qed.
Print Assumptions C13_reentrant_integrand.

Theorem C13_reentrant_exact I m p mi q (outer inner : R -> R -> R) (lo hi : R -> R) a b :
  is_nested_method m = true -> is_nested_method mi = true ->
  (forall g lo hi, lo < hi -> ex_RInt g lo hi -> selected I m p (okf g) lo hi = Ok (RInt g lo hi)) ->
  (forall g lo hi, lo < hi -> ex_RInt g lo hi -> selected I mi q (okf g) lo hi = Ok (RInt g lo hi)) ->
  (forall x, ex_RInt (inner x) (lo x) (hi x)) ->
  ex_RInt (fun x => outer x (RInt (inner x) (lo x) (hi x))) a b ->
  integrate_reentrant ROps I m p mi q outer inner lo hi a b
  = Ok (RInt (fun x => outer x (RInt (inner x) (lo x) (hi x))) a b).
Proof. exact (reentrant_exact I m p mi q outer inner lo hi a b). Qed.
Print Assumptions C13_reentrant_exact.

(** "each argument of the integrand receives the variable of its own pair of limits": Integrate_2D / Integrate_3D equal the
    iterated integral, x over (x1,x2) outermost, then y over (y1,y2), then z over (z1,z2). *)
Theorem C13_nested_2d I MC m p f x1 x2 y1 y2 :
  is_nested_method m = true ->
  (forall g lo hi, lo < hi -> ex_RInt g lo hi -> selected I m p (okf g) lo hi = Ok (RInt g lo hi)) ->
  (forall x, ex_RInt (fun y => f x y) y1 y2) ->
  ex_RInt (fun x => RInt (fun y => f x y) y1 y2) x1 x2 ->
  integrate_2d ROps I MC m f x1 x2 y1 y2 p = Ok (RInt (fun x => RInt (fun y => f x y) y1 y2) x1 x2).
Proof. exact (integrate_2d_exact I MC m p f x1 x2 y1 y2). Qed.
Print Assumptions C13_nested_2d.

Theorem C13_nested_3d I MC m p f x1 x2 y1 y2 z1 z2 :
  is_nested_method m = true ->
  (forall g lo hi, lo < hi -> ex_RInt g lo hi -> selected I m p (okf g) lo hi = Ok (RInt g lo hi)) ->
  (forall x y, ex_RInt (fun z => f x y z) z1 z2) ->
  (forall x, ex_RInt (fun y => RInt (fun z => f x y z) z1 z2) y1 y2) ->
  ex_RInt (fun x => RInt (fun y => RInt (fun z => f x y z) z1 z2) y1 y2) x1 x2 ->
  integrate_3d ROps I MC m f x1 x2 y1 y2 z1 z2 p =
  Ok (RInt (fun x => RInt (fun y => RInt (fun z => f x y z) z1 z2) y1 y2) x1 x2).
Proof. exact (integrate_3d_exact I MC m p f x1 x2 y1 y2 z1 z2). Qed.
Print Assumptions C13_nested_3d.

(** the nesting itself, for any one-dimensional integrator J that is exact on integrable integrands *)
Theorem C13_nesting_order_2d J f x1 x2 y1 y2 :
  exact_on_integrable J ->
  (forall x, ex_RInt (fun y => f x y) y1 y2) ->
  ex_RInt (fun x => RInt (fun y => f x y) y1 y2) x1 x2 ->
  nest_2d J f x1 x2 y1 y2 = Ok (RInt (fun x => RInt (fun y => f x y) y1 y2) x1 x2).
Proof. exact (nest_2d_exact J f x1 x2 y1 y2). Qed.
Print Assumptions C13_nesting_order_2d.

(** "Integrate_2D/Integrate_3D of a separable integrand equal the product of the one-dimensional integrals" *)
Theorem C13_separable_2d I MC m p (g h : R -> R) x1 x2 y1 y2 :
  is_nested_method m = true ->
  (forall g lo hi, lo < hi -> ex_RInt g lo hi -> selected I m p (okf g) lo hi = Ok (RInt g lo hi)) ->
  ex_RInt g x1 x2 -> ex_RInt h y1 y2 ->
  integrate_2d ROps I MC m (fun x y => g x * h y) x1 x2 y1 y2 p = Ok (RInt g x1 x2 * RInt h y1 y2).
Proof. exact (integrate_2d_separable I MC m p g h x1 x2 y1 y2). Qed.
Print Assumptions C13_separable_2d.

Theorem C13_separable_3d I MC m p (g h k : R -> R) x1 x2 y1 y2 z1 z2 :
  is_nested_method m = true ->
  (forall g lo hi, lo < hi -> ex_RInt g lo hi -> selected I m p (okf g) lo hi = Ok (RInt g lo hi)) ->
  ex_RInt g x1 x2 -> ex_RInt h y1 y2 -> ex_RInt k z1 z2 ->
  integrate_3d ROps I MC m (fun x y z => g x * h y * k z) x1 x2 y1 y2 z1 z2 p
  = Ok (RInt g x1 x2 * RInt h y1 y2 * RInt k z1 z2).
Proof. exact (integrate_3d_separable I MC m p g h k x1 x2 y1 y2 z1 z2). Qed.
Print Assumptions C13_separable_3d.

(** the Monte-Carlo branch of the front ends: region {x1,y1,(z1),x2,y2,(z2)}, 30000 calls by default, integrand
    func(args[0], args[1](, args[2])); any other name terminates *)
Theorem C13_mc_region_layout_2d I MC m f x1 x2 y1 y2 p : is_mc_method m = true ->
  integrate_2d ROps I MC m f x1 x2 y1 y2 p =
  MC m (fun args => f (nth 0 args 0) (nth 1 args 0)) [x1; y1; x2; y2] (if (p =? 0)%Z then 30000%Z else p).
Proof. exact (mc_region_layout_2d I MC m f x1 x2 y1 y2 p). Qed.
Print Assumptions C13_mc_region_layout_2d.

Theorem C13_mc_region_layout_3d I MC m f x1 x2 y1 y2 z1 z2 p : is_mc_method m = true ->
  integrate_3d ROps I MC m f x1 x2 y1 y2 z1 z2 p =
  MC m (fun args => f (nth 0 args 0) (nth 1 args 0) (nth 2 args 0)) [x1; y1; z1; x2; y2; z2] (if (p =? 0)%Z then 30000%Z else p).
Proof. exact (mc_region_layout_3d I MC m f x1 x2 y1 y2 z1 z2 p). Qed.
Print Assumptions C13_mc_region_layout_3d.

Theorem C13_front_end_unknown_exits I MC m f2 f3 x1 x2 y1 y2 z1 z2 p :
  is_nested_method m = false -> is_mc_method m = false ->
  integrate_2d ROps I MC m f2 x1 x2 y1 y2 p = Exit /\ integrate_3d ROps I MC m f3 x1 x2 y1 y2 z1 z2 p = Exit.
Proof. exact (front_end_unknown I MC m f2 f3 x1 x2 y1 y2 z1 z2 p). Qed.
Print Assumptions C13_front_end_unknown_exits.

(** "passing vectors of norm r whose polar angle and azimuth are the integration variables": the vector handed to the user's
    function for the integration variables (r, cos_theta, phi) is r (sin th cos phi, sin th sin phi, cos th) with th = acos(cos_theta)
    in [0, pi]: its norm is |r|, its z component r cos_theta, and sin th = sqrt(1 - cos_theta^2) >= 0 ... *)
Theorem C13_spherical_vector r c phi :
  let '(vx, vy, vz) := spherical_coordinates ROps r (acos c) phi in
  vx = r * sin (acos c) * cos phi /\ vy = r * sin (acos c) * sin phi /\ vz = r * cos (acos c) /\
  sqrt (vx * vx + vy * vy + vz * vz) = Rabs r /\
  0 <= acos c <= PI /\
  (-1 <= c <= 1 -> vz = r * c /\ sin (acos c) = sqrt (1 - c * c)).
Proof. exact (spherical_vector r c phi). Qed.
Print Assumptions C13_spherical_vector.

(** ... and the integrand handed to Integrate_3D is r^2 times the user's function at that vector. *)
Theorem C13_spherical_jacobian F r c phi :
  spherical_integrand ROps F r c phi =
  r * r * F (r * sin (acos c) * cos phi) (r * sin (acos c) * sin phi) (r * cos (acos c)).
Proof. exact (spherical_integrand_jacobian F r c phi). Qed.
Print Assumptions C13_spherical_jacobian.

(** "the spherical overload integrates f(|r|) over a shell to 4*pi times the radial integral of r^2 f" — and over any angular
    sub-range to (c2 - c1)(phi2 - phi1) times it, for every orientation of the six limits. *)
Theorem C13_spherical_radial I MC m p (f : R -> R) r1 r2 c1 c2 phi1 phi2 :
  is_nested_method m = true ->
  (forall g lo hi, lo < hi -> ex_RInt g lo hi -> selected I m p (okf g) lo hi = Ok (RInt g lo hi)) ->
  0 <= r1 -> 0 <= r2 ->
  ex_RInt (fun r => r * r * f r) r1 r2 ->
  integrate_3d_spherical ROps I MC m (fun x y z => f (sqrt (x * x + y * y + z * z))) r1 r2 c1 c2 phi1 phi2 p
  = Ok ((c2 - c1) * (phi2 - phi1) * RInt (fun r => r * r * f r) r1 r2).
Proof. exact (spherical_radial I MC m p f r1 r2 c1 c2 phi1 phi2). Qed.
Print Assumptions C13_spherical_radial.

Theorem C13_spherical_full_sphere I MC m p (f : R -> R) r1 r2 :
  is_nested_method m = true ->
  (forall g lo hi, lo < hi -> ex_RInt g lo hi -> selected I m p (okf g) lo hi = Ok (RInt g lo hi)) ->
  0 <= r1 -> 0 <= r2 ->
  ex_RInt (fun r => r * r * f r) r1 r2 ->
  integrate_3d_spherical ROps I MC m (fun x y z => f (sqrt (x * x + y * y + z * z))) r1 r2 (-1) 1 0 (2 * PI) p
  = Ok (4 * PI * RInt (fun r => r * r * f r) r1 r2).
Proof. exact (spherical_full_sphere I MC m p f r1 r2). Qed.
Print Assumptions C13_spherical_full_sphere.

(** "every named one-dimensional method returns ..." — for every call a process makes, not only for its first one: the model of sections
    1.1-1.3 and 2.1 has no state ([run_session] answers the calls of a process one after the other, each by [run_call] of its own
    arguments, and ends at a call that terminates the process).  The (k+1)-th answer of a process whose first k calls return is the
    answer the call has on its own, whatever those k calls were (any entry point, method name, method_parameter, limits, integrand)
    and whatever follows. *)
Theorem C13_answer_independent_of_history I MC (h t : list call) (c : call) :
  List.Forall (fun c' => run_call ROps I MC c' <> Exit) h ->
  nth (List.length h) (run_session ROps I MC (h ++ c :: t)%list) Exit = run_call ROps I MC c.
Proof. exact (run_session_history I MC h c t). Qed.
Print Assumptions C13_answer_independent_of_history.

(** ... and at any time of the life of the process: a call made before main (while the namespace-scope objects of a translation unit linked
    in front of the library are initialised) after the calls [h], a call made from main after [pre] calls made before main and [h] from
    main, and the only call of a process have the same answer, [run_call] of the call's own arguments. *)
Theorem C13_answer_independent_of_initialisation_phase I MC (pre h t : list call) (c : call) :
  List.Forall (fun c' => run_call ROps I MC c' <> Exit) pre -> List.Forall (fun c' => run_call ROps I MC c' <> Exit) h ->
  nth (List.length pre + List.length h) (run_process ROps I MC pre (h ++ c :: t)%list) Exit = run_call ROps I MC c /\
  nth (List.length h) (run_process ROps I MC (h ++ c :: t)%list pre) Exit = run_call ROps I MC c /\
  run_process ROps I MC [c] [] = [run_call ROps I MC c].
Proof. exact (run_process_phase I MC pre h t c). Qed.
Print Assumptions C13_answer_independent_of_initialisation_phase.

(** every call of such a history is answered *)
Theorem C13_history_all_answered I MC (cs : list call) :
  List.Forall (fun c' => run_call ROps I MC c' <> Exit) cs -> List.length (run_session ROps I MC cs) = List.length cs.
Proof. exact (run_session_length I MC cs). Qed.
Print Assumptions C13_history_all_answered.

(** in particular the exactness clause holds after any history *)
Theorem C13_named_exact_after_history I MC (h t : list call) m p g a b :
  List.Forall (fun c' => run_call ROps I MC c' <> Exit) h ->
  is_nested_method m = true ->
  (forall g lo hi, lo < hi -> ex_RInt g lo hi -> selected I m p (okf g) lo hi = Ok (RInt g lo hi)) ->
  ex_RInt g a b ->
  nth (List.length h) (run_session ROps I MC (h ++ Call_1d m p (okf g) a b :: t)%list) Exit = Ok (RInt g a b).
Proof. exact (history_named_exact I MC h t m p g a b). Qed.
Print Assumptions C13_named_exact_after_history.

(** * The library's own back ends (sections 1.1 and 1.2), theorems of C13_Proofs_AS.v and C13_Proofs_GL.v *)
From LP Require Import C13_Proofs_AS C13_Proofs_GL.

(** "every named one-dimensional method returns the exact integral" - for "Adaptive-Simpson" without any premise on polynomials of
    degree <= 5: every panel the recursion accepts (by its test or at the depth limit) returns Simpson's rule with one Richardson step,
    which is Boole's rule, so the result is the integral for every tolerance, every orientation of the limits, equal limits, and every
    method_parameter.  (Degree 5 is sharp: C13_adaptive_simpson_accuracy_refuted below is of degree 6.) *)
Theorem C13_adaptive_simpson_exact_to_degree_5 I (k0 k1 k2 k3 k4 k5 : R) a b p :
  let g := fun x => k0 + k1 * x + k2 * x ^ 2 + k3 * x ^ 3 + k4 * x ^ 4 + k5 * x ^ 5 in
  integrate_named ROps I M_AdaptiveSimpson (okf g) a b p = Ok (RInt g a b).
Proof. exact (adaptive_simpson_quintic k0 k1 k2 k3 k4 k5 I a b p). Qed.
Print Assumptions C13_adaptive_simpson_exact_to_degree_5.

(** "... within that method's accuracy (1e-9 relative ...)" for "Adaptive-Simpson", PARTIAL: the bound is relative to the three-point
    Simpson estimate S0 of the whole interval from which Find_Epsilon derives the tolerance (not to the integral), it needs that no panel
    is left at the depth limit with its test failing ([converged]: the run that prints no "did not converge" warning), and it carries the
    premise that on every panel the error of the accepted value is at most K times the difference of the two Simpson estimates the test
    looks at.  Missing for the full clause: that premise for the smooth families (it is false in general, next theorem), and S0 ~ integral.
    Under these premises: |result - integral| <= 15 K 1e-9 |S0|, for both orientations of the limits. *)
Theorem C13_adaptive_simpson_error_bound_partial I (g : R -> R) (K : R) a b p r : 0 <= K -> a <> b ->
  let lo := Rmin a b in let hi := Rmax a b in
  (forall u v, lo <= u -> u <= v -> v <= hi -> ex_RInt g u v) ->
  (forall u v, lo <= u -> u <= v -> v <= hi -> Rabs (boole g u v - RInt g u v) <= K * Rabs (simp_diff g u v)) ->
  converged g 20 lo hi (Rabs (1 / 1000000000 * simp3 g lo hi)) ->
  integrate_named ROps I M_AdaptiveSimpson (okf g) a b p = Ok r ->
  Rabs (r - RInt g a b) <= 15 * K * (Rabs (simp3 g lo hi) / 1000000000).
Proof. exact (adaptive_simpson_error_bound I g K a b p r). Qed.
Print Assumptions C13_adaptive_simpson_error_bound_partial.

(** the same for the recursion itself, any depth limit and tolerance: the tolerances of the accepted panels add up to at most epsilon *)
Theorem C13_adaptive_simpson_recursion_bound (g : R -> R) (K : R) bottom a b eps : 0 <= K -> a <= b ->
  (forall u v, a <= u -> u <= v -> v <= b -> ex_RInt g u v) ->
  (forall u v, a <= u -> u <= v -> v <= b -> Rabs (boole g u v - RInt g u v) <= K * Rabs (simp_diff g u v)) ->
  converged g bottom a b eps ->
  forall r, asimp ROps (okf g) bottom a b eps (simp3 g a b) (g a) (g b) (g ((a + b) / 2)) = Ok r ->
  Rabs (r - RInt g a b) <= 15 * K * eps.
Proof. exact (asimp_error_bound g K bottom a b eps). Qed.
Print Assumptions C13_adaptive_simpson_recursion_bound.

(** the full accuracy clause is FALSE of "Adaptive-Simpson" (the premise on the integrand above cannot be dropped): the polynomial
    -x^6 + 5/4 x^4 - 1/4 x^2 = x^2 (1 - x^2)(x^2 - 1/4) vanishes at the five first samples on [-1, 1]; both Simpson estimates and the
    tolerance derived from the first are 0, the test reads 0 <= 0, the method returns 0 - the integral is 1/21.  Replayed on the
    implementation (corpus/C13/known.case, known finding K-C13-2: all five samples are exactly 0 in double precision too). *)
Theorem C13_adaptive_simpson_accuracy_refuted :
  exists (g : R -> R) (a b : R),
    (forall x, g x = - x ^ 6 + 5 / 4 * x ^ 4 - 1 / 4 * x ^ 2) /\
    (forall I p, integrate_named ROps I M_AdaptiveSimpson (okf g) a b p = Ok 0) /\
    RInt g a b = 1 / 21.
Proof. exact adaptive_simpson_accuracy_refuted. Qed.
Print Assumptions C13_adaptive_simpson_accuracy_refuted.

(** "Gauss-Legendre_2" with n points - over ANY number type, in particular the doubles of the extracted model, and for every n: the
    table of roots and weights has exactly n rows ... *)
Theorem C13_gauss_legendre_table_size {T} (Ops : NumOps T) n a b rw :
  gl_rule Ops n a b = Ok rw -> List.length rw = Z.to_nat n.
Proof. exact (gl_rule_length Ops n a b rw). Qed.
Print Assumptions C13_gauss_legendre_table_size.

(** ... and a request that returns has evaluated the integrand exactly once at each of the n roots of that table, in its order, and
    nowhere else; the result is the sum of value times weight in that order (the sample-count clause of the check, for all n). *)
Theorem C13_gauss_legendre_samples {T} (Ops : NumOps T) (f : T -> res T) a b n r : gl_integrate Ops f a b n = Ok r ->
  exists rw fv, gl_rule Ops n a b = Ok rw /\ List.length rw = Z.to_nat n /\
    Forall2 (fun x y => f x = Ok y) (map fst rw) fv /\ List.length fv = Z.to_nat n /\
    r = fold_left (fun acc p => nadd Ops acc (nmul Ops (fst p) (snd p))) (combine fv (map snd rw)) (n0 Ops).
Proof. exact (gl_integrate_samples Ops f a b n r). Qed.
Print Assumptions C13_gauss_legendre_samples.

(** the chain of overloads Integrate_Gauss_Legendre(func,a,b,n) -> (func, table) -> (values, table) never reaches one of the std::exit
    branches of the two inner overloads and equals the model's [gl_integrate], for every integrand, limits and n ... *)
Theorem C13_gauss_legendre_overload_chain {T} (Ops : NumOps T) (f : T -> res T) a b n :
  rbind (gl_rule Ops n a b) (fun rw => gl_fun_rows Ops f (gl_rows rw)) = gl_integrate Ops f a b n.
Proof. exact (gl_overload_chain Ops f a b n). Qed.
Print Assumptions C13_gauss_legendre_overload_chain.

(** ... while those branches are taken exactly as written when the overloads are called directly: sizes that differ, or a row that is
    not a root and a weight, terminate *)
Theorem C13_gauss_legendre_malformed_exits {T} (Ops : NumOps T) (fv : list T) (rows : list (list T)) :
  (List.length fv <> List.length rows \/ Exists (fun row => List.length row <> 2%nat) rows) -> gl_sum_rows Ops fv rows = Exit.
Proof. exact (gl_sum_rows_exits Ops fv rows). Qed.
Print Assumptions C13_gauss_legendre_malformed_exits.

(** ** Nesting to any depth (a user's integrand that calls Integrate_2D/Integrate_3D itself: 3D in 3D in 3D = nine levels of Integrate active at once).
    Clause: "Integrate_2D/Integrate_3D of a separable integrand equal the product of the one-dimensional integrals, each argument of the integrand
    receives the variable of its own pair of limits" - at whatever depth the call is made.  Any number type (in particular the doubles), any
    one-dimensional integrator J, any number of levels. *)
From LP Require Import C13_Proofs_Depth.

(** the general stack of levels, cut at two and three limit pairs, is the nesting of Integrate_2D and Integrate_3D *)
Theorem C13_stack_of_levels_is_front_end_nesting {T} (J : (T -> res T) -> T -> T -> res T) (d : T) (f2 : T -> T -> T) (f3 : T -> T -> T -> T) x1 x2 y1 y2 z1 z2 :
  nest_nd J [(x1, x2); (y1, y2)] (fun pt => Ok (f2 (nth 0 pt d) (nth 1 pt d))) [] = nest_2d J f2 x1 x2 y1 y2 /\
  nest_nd J [(x1, x2); (y1, y2); (z1, z2)] (fun pt => Ok (f3 (nth 0 pt d) (nth 1 pt d) (nth 2 pt d))) [] = nest_3d J f3 x1 x2 y1 y2 z1 z2.
Proof. exact (conj (nest_nd_is_nest_2d J d f2 x1 x2 y1 y2) (nest_nd_is_nest_3d J d f3 x1 x2 y1 y2 z1 z2)). Qed.
Print Assumptions C13_stack_of_levels_is_front_end_nesting.

(** depth composes: the levels of a stack entered from the innermost integrand of another stack are the next levels of one stack *)
Theorem C13_nesting_depth_composes {T} (J : (T -> res T) -> T -> T -> res T) (l1 l2 : list (T * T)) (f : list T -> res T) (pt : list T) :
  nest_nd J (l1 ++ l2) f pt = nest_nd J l1 (fun q => nest_nd J l2 f q) pt.
Proof. exact (nest_nd_app J l1 l2 f pt). Qed.
Print Assumptions C13_nesting_depth_composes.

(** a stack whose integrand reads the variables of its own levels only (a normalisation constant) has the value it has when it is entered from
    the top level, at whatever point pt0 of an enclosing stack of whatever depth it is entered *)
Theorem C13_inner_stack_independent_of_depth {T} (J : (T -> res T) -> T -> T -> res T) (pt0 : list T) (l2 : list (T * T)) (g : list T -> res T) :
  nest_nd J l2 (fun q => g (skipn (List.length pt0) q)) pt0 = nest_nd J l2 g [].
Proof. exact (nest_nd_independent_of_depth J pt0 l2 g). Qed.
Print Assumptions C13_inner_stack_independent_of_depth.

(** ** Stacks of any number of levels over the reals (C13_Proofs_Stack.v): the iterated integral, the product for separable integrands, the
    orientation of the limits of any one axis.  [nest_nd J lims f pt] is the stack of C13_Model.v ([nest_2d]/[nest_3d] continued, theorem
    C13_stack_of_levels_is_front_end_nesting); [iter_int lims F pt] is the iterated integral, outermost pair of limits first; [iter_ex] says
    that the integrand of every level is integrable; [sep_val gs q] is the product of the factors g_i at the variable of level i,
    [prod_int gs lims] the product of the one-dimensional integrals. *)
From LP Require Import C13_Proofs_Stack.

(** "each argument of the integrand receives the variable of its own pair of limits" - for ANY number of levels (C13_nested_2d / C13_nested_3d are
    the cases of two and three): under a one-dimensional integrator that is exact on integrable integrands the stack is the iterated integral in
    which position i of the point carries the variable of the i-th pair of limits. *)
Theorem C13_stack_is_iterated_integral J (lims : list (R * R)) (F : list R -> R) pt :
  exact_on_integrable J -> iter_ex lims F pt ->
  nest_nd J lims (fun q => Ok (F q)) pt = Ok (iter_int lims F pt).
Proof. exact (fun HJ => nest_nd_exact J lims F HJ pt). Qed.
Print Assumptions C13_stack_is_iterated_integral.

(** "Integrate_2D/Integrate_3D of a separable integrand equal the product of the one-dimensional integrals" - for ANY number of levels and
    factors, every orientation of every pair of limits (induction over the list of levels). *)
Theorem C13_stack_separable_product J (gs : list (R -> R)) (lims : list (R * R)) :
  exact_on_integrable J -> Forall2 integrable_on gs lims ->
  nest_nd J lims (fun q => Ok (sep_val gs q)) [] = Ok (prod_int gs lims).
Proof. exact (nest_nd_separable J gs lims). Qed.
Print Assumptions C13_stack_separable_product.

(** the same from exactness on the multiples of the factors that occur only (no integrability premise, nothing asked of the integrator on
    other integrands) - the form that applies to the library's own adaptive rule below *)
Theorem C13_stack_separable_product_factorwise J (gs : list (R -> R)) (lims : list (R * R)) :
  Forall2 (exact_on_multiples J) gs lims ->
  nest_nd J lims (fun q => Ok (sep_val gs q)) [] = Ok (prod_int gs lims).
Proof. exact (nest_nd_separable_on J gs lims). Qed.
Print Assumptions C13_stack_separable_product_factorwise.

(** the separable clause WITHOUT any premise on a back end, for "Adaptive-Simpson" and factors of degree <= 5: a stack of any depth, all limits in
    every orientation (equal ones included), every method_parameter, whatever the boost back ends [I] are ... *)
Theorem C13_adaptive_simpson_stack_exact_to_degree_5 I p (gs : list (R -> R)) (lims : list (R * R)) :
  List.Forall is_quintic gs -> List.length gs = List.length lims ->
  nest_nd (fun h u v => integrate_named ROps I M_AdaptiveSimpson h u v p) lims (fun q => Ok (sep_val gs q)) [] = Ok (prod_int gs lims).
Proof. exact (stack_adaptive_simpson_quintics I p gs lims). Qed.
Print Assumptions C13_adaptive_simpson_stack_exact_to_degree_5.

(** ... in particular Integrate_2D and Integrate_3D themselves *)
Theorem C13_adaptive_simpson_2d_3d_exact_to_degree_5 I MC p (g h k : R -> R) x1 x2 y1 y2 z1 z2 :
  is_quintic g -> is_quintic h -> is_quintic k ->
  integrate_2d ROps I MC M_AdaptiveSimpson (fun x y => g x * h y) x1 x2 y1 y2 p = Ok (RInt g x1 x2 * RInt h y1 y2) /\
  integrate_3d ROps I MC M_AdaptiveSimpson (fun x y z => g x * h y * k z) x1 x2 y1 y2 z1 z2 p = Ok (RInt g x1 x2 * RInt h y1 y2 * RInt k z1 z2).
Proof. exact (integrate_2d_3d_adaptive_simpson_quintics I MC p g h k x1 x2 y1 y2 z1 z2). Qed.
Print Assumptions C13_adaptive_simpson_2d_3d_exact_to_degree_5.

(** "reversing the limits negates the result", "all limit orientations per axis": for a one-dimensional integrator that is negated by
    exchanging its limits ([reversing]) and by negating its integrand ([odd]), exchanging the limits of ANY ONE level of a stack of any depth
    negates the value of the stack - without any exactness premise, for every integrand (total or terminating). *)
Theorem C13_stack_reverse_any_level J (l1 l2 : list (R * R)) a b (f : list R -> res R) pt : reversing J -> odd J ->
  nest_nd J (l1 ++ (b, a) :: l2) f pt = rmap Ropp (nest_nd J (l1 ++ (a, b) :: l2) f pt).
Proof. exact (fun Hr Ho => nest_nd_reverse_level J l1 l2 a b f Hr Ho pt). Qed.
Print Assumptions C13_stack_reverse_any_level.

(** Integrate is [reversing] for every method name, back end and integrand (equal limits included); it is [odd] for "Gauss-Legendre_2" (every
    number of points) and "Adaptive-Simpson" (the test |S2 - S| <= 15 |eps| and Find_Epsilon do not see the sign; induction over the recursion)
    with no premise, and for the four boost names if the external rule is odd (premise [backend_odd I]). *)
Theorem C13_integrate_reversing_and_odd I m p :
  let J := fun g u v => integrate_named ROps I m g u v p in
  reversing J /\ (m = M_GaussLegendre2 \/ m = M_AdaptiveSimpson -> odd J) /\ (backend_odd I -> odd J).
Proof. exact (conj (named_reversing I m p) (conj (named_own_odd I m p) (named_odd I m p))). Qed.
Print Assumptions C13_integrate_reversing_and_odd.

(** hence: exchanging the limits of any one axis of a stack of calls of Integrate of any depth negates the result ... *)
Theorem C13_reverse_any_axis I m p (l1 l2 : list (R * R)) a b (f : list R -> res R) pt :
  (backend_odd I \/ m = M_GaussLegendre2 \/ m = M_AdaptiveSimpson) ->
  let J := fun g u v => integrate_named ROps I m g u v p in
  nest_nd J (l1 ++ (b, a) :: l2) f pt = rmap Ropp (nest_nd J (l1 ++ (a, b) :: l2) f pt).
Proof. exact (stack_reverse_axis I m p l1 l2 a b f pt). Qed.
Print Assumptions C13_reverse_any_axis.

(** ... in particular each of the two axes of Integrate_2D and each of the three of Integrate_3D, for every integrand *)
Theorem C13_front_ends_reverse_any_axis I MC m p (f2 : R -> R -> R) (f3 : R -> R -> R -> R) x1 x2 y1 y2 z1 z2 :
  (backend_odd I \/ m = M_GaussLegendre2 \/ m = M_AdaptiveSimpson) -> is_nested_method m = true ->
  integrate_2d ROps I MC m f2 x2 x1 y1 y2 p = rmap Ropp (integrate_2d ROps I MC m f2 x1 x2 y1 y2 p) /\
  integrate_2d ROps I MC m f2 x1 x2 y2 y1 p = rmap Ropp (integrate_2d ROps I MC m f2 x1 x2 y1 y2 p) /\
  integrate_3d ROps I MC m f3 x2 x1 y1 y2 z1 z2 p = rmap Ropp (integrate_3d ROps I MC m f3 x1 x2 y1 y2 z1 z2 p) /\
  integrate_3d ROps I MC m f3 x1 x2 y2 y1 z1 z2 p = rmap Ropp (integrate_3d ROps I MC m f3 x1 x2 y1 y2 z1 z2 p) /\
  integrate_3d ROps I MC m f3 x1 x2 y1 y2 z2 z1 p = rmap Ropp (integrate_3d ROps I MC m f3 x1 x2 y1 y2 z1 z2 p).
Proof. exact (integrate_2d_3d_reverse_axis I MC m p f2 f3 x1 x2 y1 y2 z1 z2). Qed.
Print Assumptions C13_front_ends_reverse_any_axis.

(** * Two of the four boost quadratures as model terms (C13_Model2.v, theorems of C13_Proofs_Boost.v): "Gauss-Legendre" = gauss<double,30>::integrate and
    "Trapezoidal" = trapezoidal with its default tolerance 2^-26 and 12 refinements, line by line from the boost 1.83 headers; [with_modelled_backends I0]
    is the table of back ends with these two filled in ([I0] remains for gauss_kronrod<31> and tanh_sinh). *)
From LP Require Import C13_Model2 C13_Proofs_Boost.

(** "method-name dispatch onto boost quadrature": Integrate hands ordered, distinct limits to the boost functions, whose own branches for equal and for
    reversed limits are therefore not taken *)
Theorem C13_boost_entry_branches_not_taken (f : R -> res R) a b : a < b ->
  boost_gauss30 ROps f a b = gauss30_core ROps f a b /\ boost_trapezoidal ROps f a b = trap_core ROps f a b.
Proof. exact (fun H => conj (boost_gauss30_forward f a b H) (boost_trapezoidal_forward f a b H)). Qed.
Print Assumptions C13_boost_entry_branches_not_taken.

(** the premise [backend_odd] of C13_reverse_any_axis is a THEOREM for these two rules: gauss<30> is linear in the values of the integrand, and the stopping
    test of the trapezoidal rule (error > tol * IL1) sees |I0 - I1| and the sums of |y| only - induction over the refinement loop and the sums *)
Theorem C13_gauss30_and_trapezoidal_odd (f : R -> res R) a b :
  boost_gauss30 ROps (fun x => rmap Ropp (f x)) a b = rmap Ropp (boost_gauss30 ROps f a b) /\
  boost_trapezoidal ROps (fun x => rmap Ropp (f x)) a b = rmap Ropp (boost_trapezoidal ROps f a b).
Proof. exact (conj (boost_gauss30_odd f a b) (boost_trapezoidal_odd f a b)). Qed.
Print Assumptions C13_gauss30_and_trapezoidal_odd.

Theorem C13_modelled_backends_preserve_oddness I0 : backend_odd I0 -> backend_odd (with_modelled_backends ROps I0).
Proof. exact (with_modelled_backends_odd I0). Qed.
Print Assumptions C13_modelled_backends_preserve_oddness.

(** "reversing the limits negates the result", "all limit orientations per axis" - with NO premise on external code for four of the six names:
    exchanging the limits of any one axis of a stack of calls of Integrate of any depth (Integrate_2D, Integrate_3D, towers) negates the result *)
Theorem C13_reverse_any_axis_four_methods I0 m p (l1 l2 : list (R * R)) a b (f : list R -> res R) pt :
  m = M_Trapezoidal \/ m = M_GaussLegendre \/ m = M_GaussLegendre2 \/ m = M_AdaptiveSimpson ->
  let J := fun g u v => integrate_named ROps (with_modelled_backends ROps I0) m g u v p in
  nest_nd J (l1 ++ (b, a) :: l2) f pt = rmap Ropp (nest_nd J (l1 ++ (a, b) :: l2) f pt).
Proof. exact (stack_reverse_axis_modelled I0 m p l1 l2 a b f pt). Qed.
Print Assumptions C13_reverse_any_axis_four_methods.

(** "every named one-dimensional method returns the exact integral within that method's accuracy (... 1e-6 for Trapezoidal)" - for "Trapezoidal" on every
    polynomial of degree <= 1 the result IS the integral, for every orientation of the limits, equal limits, every method_parameter, at whatever
    refinement level the loop stops (induction over the loop; the sum over the odd points in closed form by induction over their number) *)
Theorem C13_trapezoidal_exact_on_affine I0 (k0 k1 : R) a b p :
  let g := fun x => k0 + k1 * x in
  integrate_named ROps (with_modelled_backends ROps I0) M_Trapezoidal (okf g) a b p = Ok (RInt g a b).
Proof. exact (trapezoidal_affine_exact k0 k1 I0 a b p). Qed.
Print Assumptions C13_trapezoidal_exact_on_affine.

(** "... (1e-9 relative for Gauss-Legendre ...)" - for "Gauss-Legendre" on every polynomial of degree <= 1: the result is exactly (1 + 2e-20) times the integral
    (the 30 weights as the header writes them in decimal add up to 1 + 2e-20), hence within 1e-9 relative, for every orientation of the limits *)
Theorem C13_gauss_legendre_on_affine I0 (k0 k1 : R) a b p :
  let g := fun x => k0 + k1 * x in
  integrate_named ROps (with_modelled_backends ROps I0) M_GaussLegendre (okf g) a b p
  = Ok (50000000000000000001 / 50000000000000000000 * RInt g a b).
Proof. exact (gauss_legendre_affine k0 k1 I0 a b p). Qed.
Print Assumptions C13_gauss_legendre_on_affine.

Theorem C13_gauss_legendre_accuracy_on_affine I0 (k0 k1 : R) a b p r :
  let g := fun x => k0 + k1 * x in
  integrate_named ROps (with_modelled_backends ROps I0) M_GaussLegendre (okf g) a b p = Ok r ->
  Rabs (r - RInt g a b) <= 1 / 1000000000 * Rabs (RInt g a b).
Proof. exact (gauss_legendre_affine_accuracy k0 k1 I0 a b p r). Qed.
Print Assumptions C13_gauss_legendre_accuracy_on_affine.

(** the sample-count clause of the check for "Gauss-Legendre", over ANY number type (the doubles of the extracted model included): a call that returns has
    evaluated the integrand exactly once at each of the 30 points avg + scale * (+x_i), avg + scale * (-x_i), i = 1..15, in that order, and nowhere else *)
Theorem C13_gauss30_samples {T} (Ops : NumOps T) (f : T -> res T) a b r : gauss30_core Ops f a b = Ok r ->
  let avg := nmul Ops (nadd Ops a b) (half Ops) in
  let scale := nmul Ops (nsub Ops b a) (half Ops) in
  exists fv, List.length fv = 30%nat /\ List.length (gauss_nodes Ops (gauss30_table Ops)) = 30%nat /\
    Forall2 (fun z y => f (nadd Ops avg (nmul Ops scale z)) = Ok y) (gauss_nodes Ops (gauss30_table Ops)) fv.
Proof. exact (gauss30_samples Ops f a b r). Qed.
Print Assumptions C13_gauss30_samples.

(** "each argument of the integrand receives the variable of its own pair of limits" - the variable stays within that pair: over the reals both rules
    evaluate the integrand within [a, b] only (gauss<30>: |x_i| <= 1 for the 15 literals; trapezoidal: a, b and a + j (b-a)/2^k with j odd, 0 < j < 2^k,
    for every refinement level k), so two integrands that agree on [a, b] have the same answer, terminating ones included *)
Theorem C13_gauss30_and_trapezoidal_sample_within_limits (f g : R -> res R) a b : a < b -> (forall x, a <= x <= b -> f x = g x) ->
  boost_gauss30 ROps f a b = boost_gauss30 ROps g a b /\ boost_trapezoidal ROps f a b = boost_trapezoidal ROps g a b.
Proof. exact (fun H1 H2 => conj (gauss30_local f g a b H1 H2) (trapezoidal_local f g a b H1 H2)). Qed.
Print Assumptions C13_gauss30_and_trapezoidal_sample_within_limits.
