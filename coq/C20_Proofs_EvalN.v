(** * C20 — the unit constants in any number type (C20_Model2.v): the polymorphic evaluator is the real one at ROps;
    the start-up theorem and the soundness of compile-time folding hold in EVERY number type (doubles as they are:
    no algebraic law of the arithmetic is used, only that an initialiser reads nothing but the constants it names);
    the literal conversion [lit_me] rounds to nearest, ties to even. *)
From Coq Require Import String.
From Coq Require Import ZArith Bool Reals Lia Lra List.
From LP Require Import Num NumR C20_Model C20_Model2 C20_Proofs_Init.
Import ListNotations.
Local Open Scope list_scope.

(** ** 1. at the reals, [evalN] is [eval] *)
Lemma litN_R num den : litN ROps num den = (IZR num / IZR den)%R.
Proof.
  unfold litN. destruct (num <? 0)%Z; [|reflexivity].
  change (- (IZR (- num) / IZR den) = IZR num / IZR den)%R.
  rewrite opp_IZR. unfold Rdiv. ring.
Qed.

Lemma evalN_R e x : evalN ROps PI e x = eval e x.
Proof.
  induction x; cbn [evalN eval]; rewrite ?IHx, ?IHx1, ?IHx2, ?litN_R; try reflexivity.
Qed.

Section AnyNumberType.
Context {T : Type} (Ops : NumOps T) (pi_c : T).
Local Notation evalN := (evalN Ops pi_c).

(** an order-free denotation in the number type T: an environment that solves all the defining equations,
    each evaluated in T's own arithmetic *)
Definition solvesN (den : envN) (ds : defs_t) : Prop := forall x b, In (x, b) ds -> den x = evalN den b.

Lemma evalN_ext e1 e2 b : (forall r, In r (refs b) -> e1 r = e2 r) -> evalN e1 b = evalN e2 b.
Proof.
  induction b; cbn [C20_Model2.evalN refs]; intros H; try reflexivity;
    try (rewrite IHb1, IHb2; [reflexivity| |]; intros; apply H; apply in_or_app; auto);
    try (rewrite IHb; auto).
  apply H; left; reflexivity.
Qed.

(** ** 2. start-up in T *)
Lemma phase2N_inv st (den : @envN T) : forall ds seen e,
  safe_from st seen ds = true ->
  (forall x b, In (x, b) ds -> den x = evalN den b) ->
  (forall x, st x = true -> e x = den x) -> (forall x, In x seen -> e x = den x) ->
  let e' := phase2N Ops pi_c st ds e in
  (forall x, st x = true -> e' x = den x) /\ (forall x, In x seen -> e' x = den x) /\
  (forall x b, In (x, b) ds -> e' x = den x).
Proof.
  induction ds as [|[x b] tl IH]; intros seen e Hs Hsol Hst Hseen; cbn [phase2N].
  - repeat split; auto; intros ? ? [].
  - cbn [safe_from] in Hs. apply andb_prop in Hs as [Hs Hs3]. apply andb_prop in Hs as [Hs1 Hs2].
    apply negb_true_iff in Hs2.
    assert (Hnx : ~ In x seen) by (intro C; apply existsb_eqb in C; congruence).
    destruct (st x) eqn:Ex.
    + destruct (IH (x :: seen) e Hs3) as (A & B & C).
      { intros; apply Hsol; right; auto. } { auto. } { intros y [<-|Hy]; auto. }
      repeat split; auto. { intros y Hy; apply B; right; auto. }
      intros y c [E|Hy]; [inversion E; subst; apply B; left; auto|eapply C; eauto].
    + set (e1 := updN e x (evalN e b)).
      assert (Hx : e1 x = den x).
      { unfold e1, updN. rewrite String.eqb_refl. rewrite (Hsol x b) by (left; auto). apply evalN_ext.
        intros r Hr. rewrite forallb_forall in Hs1. specialize (Hs1 r Hr).
        apply orb_prop in Hs1 as [S|S]; [auto|apply Hseen, existsb_eqb; auto]. }
      assert (Hother : forall y, y <> x -> e1 y = e y).
      { intros y Hy. unfold e1, updN. destruct (String.eqb y x) eqn:E; auto.
        apply String.eqb_eq in E; contradiction. }
      destruct (IH (x :: seen) e1 Hs3) as (A & B & C).
      { intros; apply Hsol; right; auto. }
      { intros y Hy. rewrite Hother; auto. intro; subst; congruence. }
      { intros y [<-|Hy]; auto. rewrite Hother; auto. intro; subst; contradiction. }
      repeat split; auto. { intros y Hy; apply B; right; auto. }
      intros y c [E|Hy]; [inversion E; subst; apply B; left; auto|eapply C; eauto].
Qed.

Theorem init_order_sound_N st ds (den : @envN T) :
  solvesN den ds -> safe st ds = true ->
  forall x b, In (x, b) ds -> startupN Ops pi_c st ds den x = den x.
Proof.
  intros Hsol Hsafe x b Hin. unfold startupN.
  destruct (phase2N_inv st den ds [] (phase1N Ops st den) Hsafe Hsol) as (_ & _ & C).
  - intros y Hy. unfold phase1N. rewrite Hy. reflexivity.
  - intros y [].
  - eapply C; eauto.
Qed.

(** ** 3. compile-time folding in T: whenever the recursive inlining terminates, it yields the denotation *)
Lemma find_def_In ds x b : find_def ds x = Some b -> In (x, b) ds.
Proof.
  induction ds as [|[y c] tl IH]; cbn; [discriminate|].
  destruct (String.eqb x y) eqn:E.
  - intros H; inversion H; subst. apply String.eqb_eq in E; subst. left; reflexivity.
  - intros H; right; auto.
Qed.

Lemma rbind_Ok_inv (A B : Type) (r : res A) (f : A -> res B) v :
  rbind r f = Ok v -> exists u, r = Ok u /\ f u = Ok v.
Proof. destruct r; cbn; try discriminate. intros H; eexists; split; eauto. Qed.

Lemma foldN_sound (den : @envN T) ds : solvesN den ds ->
  forall fuel stack x v, foldN Ops pi_c fuel ds stack x = Ok v -> v = evalN den x.
Proof.
  intros Hsol. induction fuel as [|f IH]; intros stack x v; cbn [foldN]; [discriminate|].
  destruct x; cbn [C20_Model2.evalN]; intros H;
    try (apply rbind_Ok_inv in H as (u & Hu & H); apply rbind_Ok_inv in H as (w & Hw & H);
         inversion H; subst; rewrite (IH _ _ _ Hu), (IH _ _ _ Hw); reflexivity);
    try (apply rbind_Ok_inv in H as (u & Hu & H); inversion H; subst; rewrite (IH _ _ _ Hu); reflexivity);
    try (inversion H; subst; reflexivity).
  destruct (existsb (String.eqb x) stack); [discriminate|].
  destruct (find_def ds x) as [b|] eqn:F; [|discriminate].
  rewrite (Hsol x b (find_def_In _ _ _ F)). eapply IH; eauto.
Qed.

Corollary fold_const_sound (den : @envN T) ds x v :
  solvesN den ds -> fold_const Ops pi_c ds x = Ok v -> v = den x.
Proof.
  intros Hsol. unfold fold_const. generalize fold_fuel. intros fuel H.
  rewrite (foldN_sound den ds Hsol fuel [] (ERef x) v H). reflexivity.
Qed.

(** static constants folded, dynamic ones computed at start-up: every constant whose fold terminates holds the
    folded value after start-up, whatever safe classification the compiler chose *)
Corollary startup_is_fold st ds (den : @envN T) x b v :
  solvesN den ds -> safe st ds = true -> In (x, b) ds -> fold_const Ops pi_c ds x = Ok v ->
  startupN Ops pi_c st ds den x = v.
Proof.
  intros Hsol Hsafe Hin Hf. rewrite (init_order_sound_N st ds den Hsol Hsafe x b Hin).
  symmetry. eapply fold_const_sound; eauto.
Qed.
End AnyNumberType.

