(** * C09: the value computations of the 1-D queries (coq/C09_Model2.v).
    From the order laws alone (arithmetic uninterpreted, hence valid for doubles with rounding):
    - for located indices 0 <= j <= N-2 no value computation reads outside x_values / function_values / a, b, c, d
      (Interpolate, Derivative, the Integrate loop for every number of segments, the knot scan of Local_* which reads
      x_values[i_2 + 1], the global extrema), by induction over the loops;
    - the knot scan of Local_Minimum (Local_Maximum) returns the least (greatest) of its candidates f_left, f_right and
      prefactor * function_values[i] over the tabulated abscissae i_1 <= i <= i_2 + 1 inside [x_1, x_2], and it is one of them;
    - Global_*: f_min / f_max are the least / greatest entry of function_values, whatever N;
    - step_full is an instance of the generic step: every history theorem applies to it.
    Over the reals: the Integrate loop is linear in the prefactor. *)
From Coq Require Import ZArith List Bool Lia Reals Lra.
From LP Require Import Num NumR OrdLaws C09_Model C09_Model2 C09_Proofs C09_Proofs_Integ.
Import ListNotations.
Local Open Scope Z_scope.

Section EvalBounds.
Context {T : Type} (Ops : NumOps T) (OL : OrdLaws Ops).
Variable N : Z.
Variable xv fv av bv cv dv : Z -> T.
Hypothesis HN : 2 <= N.

Notation seg_value := (seg_value Ops N xv av bv cv dv).
Notation deriv_value := (deriv_value Ops N xv av bv cv).
Notation integ_loop := (integ_loop Ops N xv av bv cv dv).
Notation integ_value := (integ_value Ops N xv av bv cv dv).
Notation ext_scan := (ext_scan Ops N xv fv).
Notation ext_value := (ext_value Ops N xv fv).
Notation glob_value := (glob_value Ops N fv).

Lemma geti_ok n (tab : Z -> T) i : 0 <= i < n -> geti n tab i = Ok (tab i).
Proof.
  intros H. unfold geti.
  replace (0 <=? i) with true by (symmetry; apply Z.leb_le; lia).
  replace (i <? n) with true by (symmetry; apply Z.ltb_lt; lia). reflexivity.
Qed.

(** Interpolate: the bracket is read off segment j *)
Lemma seg_value_ok j x : 0 <= j <= N - 2 ->
  seg_value j x =
  Ok (nadd Ops (nadd Ops (nadd Ops (nmul Ops (av j) (npowi Ops (nsub Ops x (xv j)) 3))
                                   (nmul Ops (bv j) (npowi Ops (nsub Ops x (xv j)) 2)))
                         (nmul Ops (cv j) (nsub Ops x (xv j)))) (dv j)).
Proof.
  intros Hj. unfold C09_Model2.seg_value.
  rewrite !geti_ok by lia. reflexivity.
Qed.

Lemma deriv_value_ok j x k : 0 <= j <= N - 2 -> exists v, deriv_value j x k = Ok v.
Proof.
  intros Hj. unfold C09_Model2.deriv_value. rewrite !geti_ok by lia. cbn [rbind].
  destruct (k =? 1); [|destruct (k =? 2)]; rewrite ?geti_ok by lia; cbn [rbind]; eexists; reflexivity.
Qed.

(** Integrate: the summation loop over any number of segments inside the table *)
Lemma integ_loop_ok x1 x2 p i1 i2 : 0 <= i1 -> forall cnt i acc,
  0 <= i -> i1 + i + Z.of_nat cnt <= N - 1 ->
  exists v, integ_loop cnt i i1 i2 x1 x2 p acc = Ok v.
Proof.
  intros H1. induction cnt as [|c IH]; intros i acc Hi Hb; cbn [C09_Model2.integ_loop].
  - eexists; reflexivity.
  - rewrite !geti_ok by lia. cbn [rbind].
    destruct (i =? i2 - i1).
    + cbn [rbind]. apply IH; lia.
    + rewrite ?geti_ok by lia. cbn [rbind]. apply IH; lia.
Qed.
Lemma integ_value_ok x1 x2 p i1 i2 : 0 <= i1 -> i2 <= N - 2 -> exists v, integ_value i1 i2 x1 x2 p = Ok v.
Proof.
  intros H1 H2. unfold C09_Model2.integ_value. destruct (Z_le_gt_dec i1 (i2 + 1)).
  - apply integ_loop_ok; lia.
  - replace (Z.to_nat (i2 - i1 + 1)) with O by lia. eexists; reflexivity.
Qed.

(** *** the knot scan of Local_Minimum / Local_Maximum, for an abstract choice function *)
Section Scan.
Variable pick : T -> T -> T.
Variable R : T -> T -> Prop.                 (* R r c: r is at least as extreme as c *)
Hypothesis R_trans : forall a b c, R a b -> R b c -> R a c.
Hypothesis R_refl : forall a, R a a.
Hypothesis pick_l : forall m c, R (pick m c) m.
Hypothesis pick_r : forall m c, R (pick m c) c.
Hypothesis pick_sel : forall m c, pick m c = m \/ pick m c = c.

Definition knot_inside (x1 x2 : T) (k : Z) : Prop := ngeb Ops (xv k) x1 && nleb Ops (xv k) x2 = true.

Lemma ext_scan_spec x1 x2 p : forall cnt i m, 0 <= i -> i + Z.of_nat cnt <= N ->
  exists r, ext_scan pick cnt i x1 x2 p m = Ok r /\ R r m /\
    (forall k, i <= k < i + Z.of_nat cnt -> knot_inside x1 x2 k -> R r (nmul Ops p (fv k))) /\
    (r = m \/ exists k, i <= k < i + Z.of_nat cnt /\ knot_inside x1 x2 k /\ r = nmul Ops p (fv k)).
Proof.
  induction cnt as [|c IH]; intros i m Hi Hb; cbn [C09_Model2.ext_scan].
  - exists m. split; [reflexivity|]. split; [apply R_refl|]. split; [intros k Hk; lia|left; reflexivity].
  - rewrite geti_ok by lia. cbn [rbind].
    destruct (ngeb Ops (xv i) x1 && nleb Ops (xv i) x2) eqn:E.
    + rewrite geti_ok by lia. cbn [rbind].
      destruct (IH (i + 1) (pick m (nmul Ops p (fv i)))) as (r & Er & Rm & Rk & Sel); [lia|lia|].
      exists r. split; [exact Er|]. split; [eapply R_trans; [exact Rm|apply pick_l]|]. split.
      * intros k Hk Hin. destruct (Z.eq_dec k i) as [->|Hne].
        -- eapply R_trans; [exact Rm|apply pick_r].
        -- apply Rk; [lia|exact Hin].
      * destruct Sel as [->|(k & Hk & Hin & ->)].
        -- destruct (pick_sel m (nmul Ops p (fv i))) as [->| ->]; [left; reflexivity|].
           right. exists i. split; [lia|]. split; [exact E|reflexivity].
        -- right. exists k. split; [lia|]. split; [exact Hin|reflexivity].
    + destruct (IH (i + 1) m) as (r & Er & Rm & Rk & Sel); [lia|lia|].
      exists r. split; [exact Er|]. split; [exact Rm|]. split.
      * intros k Hk Hin. destruct (Z.eq_dec k i) as [->|Hne].
        -- unfold knot_inside in Hin. congruence.
        -- apply Rk; [lia|exact Hin].
      * destruct Sel as [->|(k & Hk & Hin & ->)]; [left; reflexivity|].
        right. exists k. split; [lia|]. split; [exact Hin|reflexivity].
Qed.
End Scan.

Lemma nmin_l m c : le Ops (nmin Ops m c) m.
Proof. unfold nmin. destruct (nltb Ops c m) eqn:E; [apply (lt_le Ops OL); exact E|apply (le_refl Ops OL)]. Qed.
Lemma nmin_r m c : le Ops (nmin Ops m c) c.
Proof. unfold nmin. destruct (nltb Ops c m) eqn:E; [apply (le_refl Ops OL)|exact E]. Qed.
Lemma nmin_sel m c : nmin Ops m c = m \/ nmin Ops m c = c.
Proof. unfold nmin. destruct (nltb Ops c m); auto. Qed.
Lemma nmax_l m c : le Ops m (nmax Ops m c).
Proof. unfold nmax. destruct (nltb Ops m c) eqn:E; [apply (lt_le Ops OL); exact E|apply (le_refl Ops OL)]. Qed.
Lemma nmax_r m c : le Ops c (nmax Ops m c).
Proof. unfold nmax. destruct (nltb Ops m c) eqn:E; [apply (le_refl Ops OL)|exact E]. Qed.
Lemma nmax_sel m c : nmax Ops m c = m \/ nmax Ops m c = c.
Proof. unfold nmax. destruct (nltb Ops m c); auto. Qed.

(** the candidates of Local_Minimum / Local_Maximum(x_1, x_2) once i_1, i_2 are located *)
Definition candidate (fl fr : T) (i1 i2 : Z) (x1 x2 p c : T) : Prop :=
  c = fl \/ c = fr \/ exists k, i1 <= k <= i2 + 1 /\ knot_inside x1 x2 k /\ c = nmul Ops p (fv k).

Theorem local_minimum_value fl fr i1 i2 x1 x2 p : 0 <= i1 <= N - 2 -> i2 <= N - 2 ->
  exists r, ext_value false fl fr i1 i2 x1 x2 p = Ok r /\ candidate fl fr i1 i2 x1 x2 p r /\
            forall c, candidate fl fr i1 i2 x1 x2 p c -> le Ops r c.
Proof.
  intros H1 H2. unfold C09_Model2.ext_value.
  destruct (ext_scan_spec (nmin Ops) (le Ops) (le_trans Ops OL) (le_refl Ops OL) nmin_l nmin_r nmin_sel
              x1 x2 p (Z.to_nat (i2 + 2 - i1)) i1 (nmin Ops fl fr)) as (r & Er & Rm & Rk & Sel); [lia|lia|].
  exists r. split; [exact Er|]. split.
  - destruct Sel as [->|(k & Hk & Hin & ->)].
    + destruct (nmin_sel fl fr) as [->| ->]; [left; reflexivity|right; left; reflexivity].
    + right; right. exists k. split; [lia|]. split; [exact Hin|reflexivity].
  - intros c [->|[->|(k & Hk & Hin & ->)]].
    + eapply (le_trans Ops OL); [exact Rm|apply nmin_l].
    + eapply (le_trans Ops OL); [exact Rm|apply nmin_r].
    + apply Rk; [lia|exact Hin].
Qed.

Theorem local_maximum_value fl fr i1 i2 x1 x2 p : 0 <= i1 <= N - 2 -> i2 <= N - 2 ->
  exists r, ext_value true fl fr i1 i2 x1 x2 p = Ok r /\ candidate fl fr i1 i2 x1 x2 p r /\
            forall c, candidate fl fr i1 i2 x1 x2 p c -> le Ops c r.
Proof.
  intros H1 H2. unfold C09_Model2.ext_value.
  destruct (ext_scan_spec (nmax Ops) (fun a b => le Ops b a)
              (fun a b c Hab Hbc => le_trans Ops OL c b a Hbc Hab) (le_refl Ops OL) nmax_l nmax_r nmax_sel
              x1 x2 p (Z.to_nat (i2 + 2 - i1)) i1 (nmax Ops fl fr)) as (r & Er & Rm & Rk & Sel); [lia|lia|].
  exists r. split; [exact Er|]. split.
  - destruct Sel as [->|(k & Hk & Hin & ->)].
    + destruct (nmax_sel fl fr) as [->| ->]; [left; reflexivity|right; left; reflexivity].
    + right; right. exists k. split; [lia|]. split; [exact Hin|reflexivity].
  - intros c [->|[->|(k & Hk & Hin & ->)]].
    + eapply (le_trans Ops OL); [apply nmax_l|exact Rm].
    + eapply (le_trans Ops OL); [apply nmax_r|exact Rm].
    + apply Rk; [lia|exact Hin].
Qed.

(** Global_Minimum / Global_Maximum: f_min / f_max are the least / greatest entry of function_values *)
Theorem global_value_spec mx p :
  exists f_min f_max,
    glob_value mx p = Ok ((if mx then nmax Ops else nmin Ops) (nmul Ops p f_min) (nmul Ops p f_max)) /\
    (exists k, 0 <= k < N /\ f_min = fv k) /\ (forall k, 0 <= k < N -> le Ops f_min (fv k)) /\
    (exists k, 0 <= k < N /\ f_max = fv k) /\ (forall k, 0 <= k < N -> le Ops (fv k) f_max).
Proof.
  assert (Hne : fvalues N fv <> []).
  { unfold fvalues, zrange. replace (Z.to_nat N) with (S (Z.to_nat (N - 1))) by lia. cbn. discriminate. }
  assert (Hin : forall v, In v (fvalues N fv) <-> exists k, 0 <= k < N /\ v = fv k).
  { intros v. unfold fvalues. rewrite in_map_iff. split.
    - intros (k & <- & Hk). apply zrange_spec in Hk. exists k; auto.
    - intros (k & Hk & ->). exists k. split; [reflexivity|apply zrange_spec; exact Hk]. }
  destruct (min_element_spec Ops OL _ Hne) as (fm & Em & Im & Lm).
  destruct (max_element_spec Ops OL _ Hne) as (fM & EM & IM & LM).
  exists fm, fM. unfold C09_Model2.glob_value. rewrite Em, EM. cbn [rbind]. split; [reflexivity|].
  split; [apply Hin; exact Im|]. split; [intros k Hk; apply Lm, Hin; exists k; auto|].
  split; [apply Hin; exact IM|]. intros k Hk; apply LM, Hin; exists k; auto.
Qed.

(** no value computation reads outside a vector, for every index Locate can return *)
Theorem values_no_oob :
  (forall j x, 0 <= j <= N - 2 -> exists v, seg_value j x = Ok v) /\
  (forall j x k, 0 <= j <= N - 2 -> exists v, deriv_value j x k = Ok v) /\
  (forall i1 i2 x1 x2 p, 0 <= i1 -> i2 <= N - 2 -> exists v, integ_value i1 i2 x1 x2 p = Ok v) /\
  (forall mx fl fr i1 i2 x1 x2 p, 0 <= i1 <= N - 2 -> i2 <= N - 2 -> exists v, ext_value mx fl fr i1 i2 x1 x2 p = Ok v) /\
  (forall mx p, exists v, glob_value mx p = Ok v).
Proof.
  split; [intros j x Hj; rewrite seg_value_ok by exact Hj; eexists; reflexivity|].
  split; [intros; apply deriv_value_ok; auto|].
  split; [intros; apply integ_value_ok; auto|].
  split.
  - intros [|] fl fr i1 i2 x1 x2 p H1 H2.
    + destruct (local_maximum_value fl fr i1 i2 x1 x2 p H1 H2) as (r & Er & _). exists r; exact Er.
    + destruct (local_minimum_value fl fr i1 i2 x1 x2 p H1 H2) as (r & Er & _). exists r; exact Er.
  - intros mx p. destruct (global_value_spec mx p) as (a & b & E & _). eexists; exact E.
Qed.

(** step_full is the generic step with the value computations plugged in: the history theorems apply *)
Definition full_evals : evals T :=
  mkEvals T (fun j x => ev_unres Ops (seg_value j x))
          (fun j x k => ev_unres Ops (deriv_value j x k))
          (fun i1 i2 x1 x2 p => ev_unres Ops (integ_value i1 i2 x1 x2 p))
          (fun mx fl fr i1 i2 x1 x2 p => ev_unres Ops (ext_value mx fl fr i1 i2 x1 x2 p))
          (fun mx p => ev_unres Ops (glob_value mx p)).
Lemma step_full_is_stepE : step_full Ops N xv fv av bv cv dv = stepE Ops N xv full_evals.
Proof. reflexivity. Qed.
Lemma run_full_is_runE : run_full Ops N xv fv av bv cv dv = runE Ops N xv full_evals.
Proof. reflexivity. Qed.

Theorem full_history_free : increasing Ops N xv -> N <= 1073741824 ->
  forall (h : list (op T)) (q : op T),
    snd (step_full Ops N xv fv av bv cv dv (run_full Ops N xv fv av bv cv dv h (init Ops)) q) =
    snd (step_full Ops N xv fv av bv cv dv (fresh (prefactor_after Ops h (n1 Ops))) q).
Proof.
  intros Hi Hmax h q.
  exact (history_free Ops OL N xv Hi (conj HN Hmax) _ _ _ _ _ h q).
Qed.
End EvalBounds.

(** ** Over the reals: the Integrate loop is linear in the prefactor ("Set_Prefactor and Multiply change all
    outputs by exactly the stated factor", for Integrate; in doubles the statement holds up to the rounding of the
    loop, which the S4 stage bounds a priori). *)
Section IntegReal.
Variable N : Z.
Variable xv av bv cv dv : Z -> R.
Local Open Scope R_scope.

Lemma stem_linear p xj a b c d xq : stem ROps p xj a b c d xq = p * stem ROps 1 xj a b c d xq.
Proof. unfold stem. cbn. ring. Qed.

Lemma integ_loop_linear x1 x2 p i1 i2 : forall cnt i acc,
  integ_loop ROps N xv av bv cv dv cnt i i1 i2 x1 x2 p (p * acc) =
  match integ_loop ROps N xv av bv cv dv cnt i i1 i2 x1 x2 1 acc with
  | Ok v => Ok (p * v) | Exit => Exit | OOB => OOB | Fuel => Fuel end.
Proof.
  induction cnt as [|c IH]; intros i acc; cbn [integ_loop]; [reflexivity|].
  destruct (geti N xv (i1 + i)) as [xj| | |]; cbn [rbind]; try reflexivity.
  destruct (if (i =? i2 - i1)%Z then Ok x2 else geti N xv (i1 + i + 1)) as [xr| | |]; cbn [rbind]; try reflexivity.
  destruct (geti (N - 1) av (i1 + i)) as [a| | |]; cbn [rbind]; try reflexivity.
  destruct (geti (N - 1) bv (i1 + i)) as [b| | |]; cbn [rbind]; try reflexivity.
  destruct (geti (N - 1) cv (i1 + i)) as [c0| | |]; cbn [rbind]; try reflexivity.
  destruct (geti (N - 1) dv (i1 + i)) as [d| | |]; cbn [rbind]; try reflexivity.
  rewrite <- IH. f_equal.
  rewrite (stem_linear p xj a b c0 d xr), (stem_linear p xj a b c0 d). cbn. ring.
Qed.

Theorem integ_value_linear i1 i2 x1 x2 p v :
  integ_value ROps N xv av bv cv dv i1 i2 x1 x2 1 = Ok v ->
  integ_value ROps N xv av bv cv dv i1 i2 x1 x2 p = Ok (p * v).
Proof.
  unfold integ_value. intros H.
  replace (n0 ROps) with (p * 0) by (cbn; ring).
  rewrite integ_loop_linear. change (n0 ROps) with 0 in H. rewrite H. reflexivity.
Qed.
End IntegReal.

(** ** Local_Minimum / Local_Maximum on a fresh object and after a history, for every choice of the value computations *)
Section LocalExt.
Context {T : Type} (Ops : NumOps T) (OL : OrdLaws Ops).
Variable N : Z.
Variable xv : Z -> T.
Hypothesis Hinc : increasing Ops N xv.
Hypothesis HN : size_ok N.
Variable seg_eval : Z -> T -> T.
Variable seg_deriv : Z -> T -> Z -> T.
Variable integ_eval : Z -> Z -> T -> T -> T -> T.
Variable ext_eval : bool -> T -> T -> Z -> Z -> T -> T -> T -> T.
Variable glob_eval : bool -> T -> T.
Notation step := (step Ops N xv seg_eval seg_deriv integ_eval ext_eval glob_eval).
Notation run := (run Ops N xv seg_eval seg_deriv integ_eval ext_eval glob_eval).

Lemma step_local_fresh (mx : bool) p x1 x2 :
  nisnan Ops x1 = false -> nisnan Ops x2 = false -> in_domain Ops N xv x1 -> in_domain Ops N xv x2 ->
  nltb Ops x2 x1 = false ->
  exists i1 i2, snd (step (fresh p) (if mx then OpLocalMax x1 x2 else OpLocalMin x1 x2)) =
                  OValue [i1; i2; i1; i2]
                    (ext_eval mx (nmul Ops p (seg_eval i1 x1)) (nmul Ops p (seg_eval i2 x2)) i1 i2 x1 x2 p) /\
                canon Ops N xv x1 i1 /\ canon Ops N xv x2 i2.
Proof.
  intros Hn1 Hn2 Hd1 Hd2 Hord. destruct HN as [HN2 HNmax].
  destruct (locate_ok_in_domain Ops OL N xv Hinc HN (fresh p) _ (inv_fresh N HN p) Hn1 Hd1) as (s1 & i1 & E1 & I1 & P1 & C1).
  destruct (locate_ok_in_domain Ops OL N xv Hinc HN s1 _ I1 Hn2 Hd2) as (s2 & i2 & E2 & I2 & P2 & C2).
  destruct (locate_ok_in_domain Ops OL N xv Hinc HN s2 _ I2 Hn1 Hd1) as (s3 & k1 & E3 & I3 & P3 & C3).
  destruct (locate_ok_in_domain Ops OL N xv Hinc HN s3 _ I3 Hn2 Hd2) as (s4 & k2 & E4 & I4 & P4 & C4).
  assert (k1 = i1) by (eapply (canon_unique Ops OL N xv Hinc); eauto).
  assert (k2 = i2) by (eapply (canon_unique Ops OL N xv Hinc); eauto). subst k1 k2.
  exists i1, i2. split; [|auto].
  destruct C1 as (R1 & _). destruct C2 as (R2 & _).
  assert (G : snd (step (fresh p) (OpLocalMin x1 x2)) = OValue [i1; i2; i1; i2]
                (ext_eval false (nmul Ops p (seg_eval i1 x1)) (nmul Ops p (seg_eval i2 x2)) i1 i2 x1 x2 p) /\
              snd (step (fresh p) (OpLocalMax x1 x2)) = OValue [i1; i2; i1; i2]
                (ext_eval true (nmul Ops p (seg_eval i1 x1)) (nmul Ops p (seg_eval i2 x2)) i1 i2 x1 x2 p)).
  { cbn [C09_Model.step]. unfold local_ext, interpolate. rewrite Hord.
    rewrite E1. cbn [rbind]. rewrite E2. cbn [rbind]. rewrite E3. cbn [rbind]. rewrite E4. cbn.
    rewrite !i32_id by lia. rewrite P4, P3, P2, P1. cbn. split; reflexivity. }
  destruct mx; tauto.
Qed.

Theorem local_after_history (mx : bool) h x1 x2 :
  nisnan Ops x1 = false -> nisnan Ops x2 = false -> in_domain Ops N xv x1 -> in_domain Ops N xv x2 ->
  nltb Ops x2 x1 = false ->
  exists i1 i2, snd (step (run h (init Ops)) (if mx then OpLocalMax x1 x2 else OpLocalMin x1 x2)) =
                  OValue [i1; i2; i1; i2]
                    (ext_eval mx (nmul Ops (prefactor_after Ops h (n1 Ops)) (seg_eval i1 x1))
                                 (nmul Ops (prefactor_after Ops h (n1 Ops)) (seg_eval i2 x2)) i1 i2 x1 x2
                                 (prefactor_after Ops h (n1 Ops))) /\
                canon Ops N xv x1 i1 /\ canon Ops N xv x2 i2.
Proof.
  intros. rewrite (history_free Ops OL N xv Hinc HN). apply step_local_fresh; auto.
Qed.
End LocalExt.

(** ** The queries of the full model after a history: values made explicit down to the table entries *)
Section FullAfterHistory.
Context {T : Type} (Ops : NumOps T) (OL : OrdLaws Ops).
Variable N : Z.
Variable xv fv av bv cv dv : Z -> T.
Hypothesis Hinc : increasing Ops N xv.
Hypothesis HN : size_ok N.
Notation stepF := (step_full Ops N xv fv av bv cv dv).
Notation runF := (run_full Ops N xv fv av bv cv dv).
Notation sE := (fun j x => ev_unres Ops (seg_value Ops N xv av bv cv dv j x)).
Notation dE := (fun j x k => ev_unres Ops (deriv_value Ops N xv av bv cv j x k)).
Notation iE := (fun i1 i2 x1 x2 p => ev_unres Ops (integ_value Ops N xv av bv cv dv i1 i2 x1 x2 p)).
Notation eE := (fun mx fl fr i1 i2 x1 x2 p => ev_unres Ops (ext_value Ops N xv fv mx fl fr i1 i2 x1 x2 p)).
Notation gE := (fun mx p => ev_unres Ops (glob_value Ops N fv mx p)).

(** the Steffen polynomial of segment j at x, as Interpolate writes it *)
Definition seg_poly (j : Z) (x : T) : T :=
  nadd Ops (nadd Ops (nadd Ops (nmul Ops (av j) (npowi Ops (nsub Ops x (xv j)) 3))
                               (nmul Ops (bv j) (npowi Ops (nsub Ops x (xv j)) 2)))
                     (nmul Ops (cv j) (nsub Ops x (xv j)))) (dv j).

Theorem full_interpolate_after_history h x : nisnan Ops x = false -> in_domain Ops N xv x ->
  exists j, snd (stepF (runF h (init Ops)) (OpInterpolate x)) =
              OValue [j] (nmul Ops (prefactor_after Ops h (n1 Ops)) (seg_poly j x)) /\
            canon Ops N xv x j.
Proof.
  intros Hn Hd. destruct HN as [HN2 HNmax].
  destruct (interpolate_after_history Ops OL N xv Hinc HN sE dE iE eE gE h x Hn Hd) as (j & E & C).
  exists j. split; [|exact C]. unfold step_full, run_full. rewrite E.
  destruct C as (R & _). rewrite (seg_value_ok Ops N xv av bv cv dv j x R). reflexivity.
Qed.

Theorem full_integrate_after_history h x1 x2 :
  nisnan Ops x1 = false -> nisnan Ops x2 = false -> in_domain Ops N xv x1 -> in_domain Ops N xv x2 ->
  exists i1 i2 v, snd (stepF (runF h (init Ops)) (OpIntegrate x1 x2)) = OValue [i1; i2] (nmul Ops (int_sign Ops x1 x2) v) /\
    integ_value Ops N xv av bv cv dv i1 i2 (int_lo Ops x1 x2) (int_hi Ops x1 x2) (prefactor_after Ops h (n1 Ops)) = Ok v /\
    canon Ops N xv (int_lo Ops x1 x2) i1 /\ canon Ops N xv (int_hi Ops x1 x2) i2.
Proof.
  intros Hn1 Hn2 Hd1 Hd2. destruct HN as [HN2 HNmax].
  destruct (integrate_after_history Ops OL N xv Hinc HN sE dE iE eE gE h x1 x2 Hn1 Hn2 Hd1 Hd2) as (i1 & i2 & E & C1 & C2).
  destruct (integ_value_ok Ops N xv av bv cv dv (int_lo Ops x1 x2) (int_hi Ops x1 x2)
              (prefactor_after Ops h (n1 Ops)) i1 i2) as (v & Ev); [destruct C1; lia|destruct C2; lia|].
  exists i1, i2, v. split; [|auto]. unfold step_full, run_full. rewrite E. rewrite Ev. reflexivity.
Qed.

(** Local_Minimum / Local_Maximum(x_1, x_2), x_1 <= x_2 in the domain, after any history: the least / greatest of
    prefactor * S_i1(x_1), prefactor * S_i2(x_2) and prefactor * function_values[k] over the tabulated abscissae
    i_1 <= k <= i_2 + 1 with x_1 <= x_values[k] <= x_2, and one of them; i_1, i_2 THE segments of x_1, x_2. *)
Theorem full_local_minimum_after_history h x1 x2 :
  nisnan Ops x1 = false -> nisnan Ops x2 = false -> in_domain Ops N xv x1 -> in_domain Ops N xv x2 ->
  nltb Ops x2 x1 = false ->
  let p := prefactor_after Ops h (n1 Ops) in
  exists i1 i2 r, snd (stepF (runF h (init Ops)) (OpLocalMin x1 x2)) = OValue [i1; i2; i1; i2] r /\
    canon Ops N xv x1 i1 /\ canon Ops N xv x2 i2 /\
    candidate Ops xv fv (nmul Ops p (seg_poly i1 x1)) (nmul Ops p (seg_poly i2 x2)) i1 i2 x1 x2 p r /\
    forall c, candidate Ops xv fv (nmul Ops p (seg_poly i1 x1)) (nmul Ops p (seg_poly i2 x2)) i1 i2 x1 x2 p c -> le Ops r c.
Proof.
  intros Hn1 Hn2 Hd1 Hd2 Hord p. destruct HN as [HN2 HNmax].
  destruct (local_after_history Ops OL N xv Hinc HN sE dE iE eE gE false h x1 x2 Hn1 Hn2 Hd1 Hd2 Hord) as (i1 & i2 & E & C1 & C2).
  cbv beta iota in E. fold p in E.
  assert (R1 : 0 <= i1 <= N - 2) by (destruct C1; auto). assert (R2 : 0 <= i2 <= N - 2) by (destruct C2; auto).
  rewrite (seg_value_ok Ops N xv av bv cv dv i1 x1 R1), (seg_value_ok Ops N xv av bv cv dv i2 x2 R2) in E.
  cbn [ev_unres] in E. fold (seg_poly i1 x1) (seg_poly i2 x2) in E.
  destruct (local_minimum_value Ops OL N xv fv (nmul Ops p (seg_poly i1 x1)) (nmul Ops p (seg_poly i2 x2)) i1 i2 x1 x2 p)
    as (r & Er & Cr & Lr); [lia|lia|].
  exists i1, i2, r. split; [|auto]. unfold step_full, run_full. rewrite E. rewrite Er. reflexivity.
Qed.

Theorem full_local_maximum_after_history h x1 x2 :
  nisnan Ops x1 = false -> nisnan Ops x2 = false -> in_domain Ops N xv x1 -> in_domain Ops N xv x2 ->
  nltb Ops x2 x1 = false ->
  let p := prefactor_after Ops h (n1 Ops) in
  exists i1 i2 r, snd (stepF (runF h (init Ops)) (OpLocalMax x1 x2)) = OValue [i1; i2; i1; i2] r /\
    canon Ops N xv x1 i1 /\ canon Ops N xv x2 i2 /\
    candidate Ops xv fv (nmul Ops p (seg_poly i1 x1)) (nmul Ops p (seg_poly i2 x2)) i1 i2 x1 x2 p r /\
    forall c, candidate Ops xv fv (nmul Ops p (seg_poly i1 x1)) (nmul Ops p (seg_poly i2 x2)) i1 i2 x1 x2 p c -> le Ops c r.
Proof.
  intros Hn1 Hn2 Hd1 Hd2 Hord p. destruct HN as [HN2 HNmax].
  destruct (local_after_history Ops OL N xv Hinc HN sE dE iE eE gE true h x1 x2 Hn1 Hn2 Hd1 Hd2 Hord) as (i1 & i2 & E & C1 & C2).
  cbv beta iota in E. fold p in E.
  assert (R1 : 0 <= i1 <= N - 2) by (destruct C1; auto). assert (R2 : 0 <= i2 <= N - 2) by (destruct C2; auto).
  rewrite (seg_value_ok Ops N xv av bv cv dv i1 x1 R1), (seg_value_ok Ops N xv av bv cv dv i2 x2 R2) in E.
  cbn [ev_unres] in E. fold (seg_poly i1 x1) (seg_poly i2 x2) in E.
  destruct (local_maximum_value Ops OL N xv fv (nmul Ops p (seg_poly i1 x1)) (nmul Ops p (seg_poly i2 x2)) i1 i2 x1 x2 p)
    as (r & Er & Cr & Lr); [lia|lia|].
  exists i1, i2, r. split; [|auto]. unfold step_full, run_full. rewrite E. rewrite Er. reflexivity.
Qed.

(** Global_Minimum / Global_Maximum after any history: min / max of prefactor * f_min and prefactor * f_max, f_min / f_max
    the least / greatest entry of function_values, the prefactor that of the Set_Prefactor / Multiply calls alone *)
Theorem full_global_after_history (mx : bool) h :
  let p := prefactor_after Ops h (n1 Ops) in
  exists f_min f_max,
    snd (stepF (runF h (init Ops)) (if mx then OpGlobalMax else OpGlobalMin)) =
      OValue [] ((if mx then nmax Ops else nmin Ops) (nmul Ops p f_min) (nmul Ops p f_max)) /\
    (exists k, 0 <= k < N /\ f_min = fv k) /\ (forall k, 0 <= k < N -> le Ops f_min (fv k)) /\
    (exists k, 0 <= k < N /\ f_max = fv k) /\ (forall k, 0 <= k < N -> le Ops (fv k) f_max).
Proof.
  intros p. destruct HN as [HN2 HNmax].
  destruct (global_value_spec Ops OL N fv HN2 mx p) as (fm & fM & E & A).
  exists fm, fM. split; [|exact A].
  unfold step_full, run_full.
  rewrite (history_free Ops OL N xv Hinc HN sE dE iE eE gE h (if mx then OpGlobalMax else OpGlobalMin)).
  fold p. destruct mx; cbn [C09_Model.step snd prefactor fresh]; rewrite E; reflexivity.
Qed.
End FullAfterHistory.

(** non-vacuity on the integer instance of C09_Proofs.v (table x = 10 i, 40 points, f = (i - 20)^2, c = i - 20, a = b = 0,
    d = f): after the history of C09_Proofs.ex_history (prefactor -6) Local_Minimum(55, 172) locates segments 5 and 17
    and returns the least candidate -6 * f[6] = -1176, Local_Maximum the greatest one f_right = -6 * S_17(172) = -18, Global_Minimum
    min(-6 * 0, -6 * 400), and Interpolate(77) the prefactor times the polynomial of segment 7. *)
Definition exe_fv (i : Z) : Z := (i - 20) * (i - 20).
Definition exe_cv (i : Z) : Z := i - 20.
Definition exe_zero (i : Z) : Z := 0.
Example ex_full_values :
  let stp := step_full ZOps 40 ex_xv exe_fv exe_zero exe_zero exe_cv exe_fv in
  let st := run_full ZOps 40 ex_xv exe_fv exe_zero exe_zero exe_cv exe_fv ex_history (init ZOps) in
  snd (stp st (OpLocalMin 55 172)) = OValue [5; 17; 5; 17] (-1176) /\
  snd (stp st (OpLocalMax 55 172)) = OValue [5; 17; 5; 17] (-18) /\
  snd (stp st OpGlobalMin) = OValue [] (-2400) /\
  snd (stp st (OpInterpolate 77)) = OValue [7] (-6 * (-13 * 7 + 169)) /\
  snd (stp st (OpLocalMin 55 172)) = snd (stp (fresh (-6)) (OpLocalMin 55 172)).
Proof. vm_compute. repeat split. Qed.
Example ex_full_hypotheses : OrdLaws ZOps /\ increasing ZOps 40 ex_xv /\ size_ok 40 /\
  nisnan ZOps 55 = false /\ in_domain ZOps 40 ex_xv 55 /\ in_domain ZOps 40 ex_xv 172 /\ nltb ZOps 172 55 = false.
Proof.
  split; [apply ZOps_OrdLaws|]. split; [apply ex_increasing|]. split; [apply ex_size_ok|].
  vm_compute. repeat split.
Qed.
