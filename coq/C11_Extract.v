From Coq Require Import Extraction ExtrOcamlBasic ZArith List.
From LP Require Import Num C11_Model C11_Model2.
Extraction Language OCaml.
Extraction "C11_m.ml" bracket brent find_minimum_full find_minimum find_maximum
  minimize_general minimize_deltas minimize_delta simplex_of
  obj_minimize_general obj_minimize_deltas obj_minimize_delta obj_call fresh_call obj_run fresh_run obj_fresh req_call objs_call obj_put objs_put objs_abandon abandoned_call req_given profile_nm1 profile_fmin default_tol find_minimum_default find_maximum_default Z.of_nat Z.to_nat.
