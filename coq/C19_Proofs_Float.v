(** * C19 proofs valid for the floating-point instance itself.
    (1) facts about every number type [NumOps T] - no law of order or arithmetic is used, so they hold verbatim for IEEE
        doubles, NaN, infinities and rounding included: the number of grid points, the sort behind the median is a
        permutation, object histories keep the data (as a multiset) and answer every call, the median of an odd number
        of data is one of the data;
    (2) facts from [OrdLaws] alone (doubles without NaN, rounding included): the sort is sorted, hence
        Locate_Closest_Location never rejects a vector that a Median call has reordered. *)
From Coq Require Import ZArith List Bool Lia Arith Sorting.Permutation.
From Coq Require Import Reals Lra.
From LP Require Import Num NumR OrdLaws C19_Model C19_Proofs_Lists.
Import ListNotations.

Section AnyOps.
Context {T : Type} (Ops : NumOps T).

(** ** the requested number of points *)
Theorem linear_space_length_any (mn mx : T) (steps : nat) :
  length (linear_space Ops mn mx steps) = if (Nat.ltb steps 2) || neqb Ops mn mx then 1%nat else steps.
Proof.
  unfold linear_space. destruct ((Nat.ltb steps 2) || neqb Ops mn mx); [reflexivity|].
  now rewrite map_length, seq_length.
Qed.

Theorem log_space_length_any (mn mx : T) (steps : nat) :
  length (log_space Ops mn mx steps) = if (Nat.ltb steps 2) || neqb Ops mn mx then 1%nat else steps.
Proof.
  unfold log_space. destruct ((Nat.ltb steps 2) || neqb Ops mn mx); [reflexivity|].
  now rewrite map_length, seq_length.
Qed.

(** ** the sort behind Median *)
Lemma insert_sorted_perm_any (x : T) (l : list T) : Permutation (insert_sorted Ops x l) (x :: l).
Proof.
  induction l as [|a r IH]; [reflexivity|].
  simpl. destruct (nltb Ops x a); [reflexivity|].
  rewrite IH. apply perm_swap.
Qed.

Theorem sort_list_perm_any (l : list T) : Permutation (sort_list Ops l) l.
Proof.
  induction l as [|x l IH]; [reflexivity|].
  change (sort_list Ops (x :: l)) with (insert_sorted Ops x (sort_list Ops l)).
  rewrite insert_sorted_perm_any. now apply perm_skip.
Qed.

Lemma sort_list_length_any (l : list T) : length (sort_list Ops l) = length l.
Proof. apply (Permutation_length (sort_list_perm_any l)). Qed.

(** the median of an odd number of data is one of the data (also for NaN-contaminated data) *)
Theorem median_odd_In_any (l : list T) : Nat.even (length l) = false -> In (median Ops l) l.
Proof.
  intros Hodd. unfold median. rewrite Hodd.
  apply (Permutation_in _ (sort_list_perm_any l)).
  unfold nth0. apply nth_In. rewrite sort_list_length_any.
  destruct l as [|a r]; [discriminate|]. apply Nat.div_lt; simpl; lia.
Qed.

(** ** object histories: the vector stays a permutation of the data, every call is answered *)
Lemma stat_step_any (l0 : list T) (st : list T * list T) (o : stat_op) :
  Permutation (fst st) l0 ->
  Permutation (fst (stat_step Ops st o)) l0 /\ length (snd (stat_step Ops st o)) = S (length (snd st)).
Proof.
  destruct st as [l outs]. simpl fst; simpl snd. intros HP.
  destruct o; simpl; rewrite app_length; simpl; (split; [|lia]); try assumption.
  rewrite sort_list_perm_any. assumption.
Qed.

Lemma stat_fold_any (l0 : list T) (ops : list stat_op) : forall st,
  Permutation (fst st) l0 ->
  Permutation (fst (fold_left (stat_step Ops) ops st)) l0 /\
  length (snd (fold_left (stat_step Ops) ops st)) = (length (snd st) + length ops)%nat.
Proof.
  induction ops as [|o ops IH]; intros st HP; simpl.
  - split; [assumption|lia].
  - destruct (stat_step_any l0 st o HP) as [HP' Hlen].
    destruct (IH _ HP') as [H1 H2]. split; [assumption|]. rewrite H2, Hlen. lia.
Qed.

Theorem stat_history_any (l : list T) (ops : list stat_op) :
  Permutation (fst (stat_history Ops l ops)) l /\ length (snd (stat_history Ops l ops)) = length ops.
Proof.
  unfold stat_history. destruct (stat_fold_any l ops (l, [])) as [H1 H2]; [reflexivity|].
  split; [assumption|]. rewrite H2. reflexivity.
Qed.

(** a second Median call on the reordered vector: the vector is still a permutation of the data *)
Theorem median_twice_perm_any (l : list T) : Permutation (snd (median_twice Ops l)) l.
Proof.
  unfold median_twice, median_state. simpl. rewrite !sort_list_perm_any. reflexivity.
Qed.
End AnyOps.

Section Ord.
Context {T : Type} (Ops : NumOps T) (OL : OrdLaws Ops).

Lemma nlt_asym (a b : T) : nltb Ops a b = true -> nltb Ops b a = false.
Proof.
  intros H. destruct (nltb Ops b a) eqn:E; [|reflexivity].
  pose proof (ol_trans Ops OL _ _ _ H E) as H'. rewrite (ol_irrefl Ops OL) in H'. discriminate.
Qed.

Lemma is_sorted_tail (a : T) (r : list T) : is_sorted Ops (a :: r) = true -> is_sorted Ops r = true.
Proof.
  destruct r as [|b r]; [reflexivity|]. rewrite is_sorted_cons2. destruct (nltb Ops b a); [discriminate|auto].
Qed.

Lemma insert_sorted_head (x a : T) (r : list T) :
  exists r', insert_sorted Ops x (a :: r) = (if nltb Ops x a then x else a) :: r'.
Proof. simpl. destruct (nltb Ops x a); eexists; reflexivity. Qed.

Lemma insert_sorted_sorted_ord (x : T) (l : list T) :
  is_sorted Ops l = true -> is_sorted Ops (insert_sorted Ops x l) = true.
Proof.
  induction l as [|a r IH]; intros Hs; [reflexivity|].
  simpl insert_sorted. destruct (nltb Ops x a) eqn:E.
  - rewrite is_sorted_cons2. rewrite (nlt_asym _ _ E). assumption.
  - specialize (IH (is_sorted_tail _ _ Hs)).
    destruct r as [|b r].
    + simpl. rewrite E. reflexivity.
    + destruct (insert_sorted_head x b r) as [r' Hr']. rewrite Hr' in IH |- *.
      rewrite is_sorted_cons2. rewrite <- Hr'.
      assert (Hab : nltb Ops b a = false).
      { rewrite is_sorted_cons2 in Hs. destruct (nltb Ops b a); [discriminate|reflexivity]. }
      destruct (nltb Ops x b); [rewrite E|rewrite Hab]; rewrite Hr'; exact IH.
Qed.

Theorem sort_list_sorted_ord (l : list T) : is_sorted Ops (sort_list Ops l) = true.
Proof.
  induction l as [|x l IH]; [reflexivity|].
  change (sort_list Ops (x :: l)) with (insert_sorted Ops x (sort_list Ops l)).
  now apply insert_sorted_sorted_ord.
Qed.

(** all pairs in order, not only adjacent ones *)
Theorem sort_list_nth_ord (l : list T) (i j : nat) : (i <= j < length l)%nat ->
  nltb Ops (nth j (sort_list Ops l) (n0 Ops)) (nth i (sort_list Ops l) (n0 Ops)) = false.
Proof.
  intros Hij. apply (proj1 (is_sorted_ord_spec Ops OL (sort_list Ops l)) (sort_list_sorted_ord l)).
  now rewrite sort_list_length_any.
Qed.

(** Locate_Closest_Location accepts the vector a Median call leaves behind (model: the sorted one), for any target *)
Theorem closest_after_median_ord (l : list T) (t : T) : l <> [] ->
  exists i, closest_location Ops (snd (median_state Ops l)) t = Ok i /\ (0 <= i < Z.of_nat (length l))%Z.
Proof.
  intros Hne. simpl snd.
  destruct (closest_location_index Ops (sort_list Ops l) t) as [i [H1 H2]].
  - intros E. apply Hne. apply Permutation_nil. rewrite <- E. apply sort_list_perm_any.
  - apply sort_list_sorted_ord.
  - exists i. split; [assumption|]. now rewrite sort_list_length_any in H2.
Qed.
End Ord.

(** non-vacuity: the hypotheses are satisfiable (the reals obey OrdLaws; an odd-length, a non-empty data set) *)
Example float_hyps_ex : OrdLaws ROps /\ Nat.even (length [3%R; 1%R; 2%R]) = false /\ [2%R; 1%R] <> [] /\
  fst (stat_history ROps [2%R; 1%R] [OpMean; OpMedian]) = [1%R; 2%R].
Proof.
  split; [exact ROps_OrdLaws|]. split; [reflexivity|]. split; [discriminate|].
  unfold stat_history. simpl. unfold sort_list. simpl.
  assert (Rltb 2 1 = false) as -> by (apply Rltb_false; lra). reflexivity.
Qed.

(** ** (3) Linear_Space never goes backwards in floating point.
    [MonoLaws Ops fin]: the conversion from integers, multiplication by a finite factor of known sign and addition to a finite
    number are monotone on the operands called finite.  IEEE-754 round-to-nearest arithmetic has these properties with
    [fin] = "is a finite double" (rounding is monotone; a finite summand or finite factors produce no NaN) - that is a fact
    about IEEE arithmetic, not proved here; the reals satisfy the laws with every number finite ([ROps_MonoLaws]).
    No other law of arithmetic is used, so the theorem below speaks about the rounded grid itself. *)
Record MonoLaws {T : Type} (Ops : NumOps T) (fin : T -> Prop) : Prop := {
  ml_ofZ_fin : forall a : Z, fin (nofZ Ops a);
  ml_ofZ : forall a b : Z, (a <= b)%Z -> nleb Ops (nofZ Ops a) (nofZ Ops b) = true;
  ml_mul_pos : forall s x y, fin s -> fin x -> fin y -> nleb Ops (n0 Ops) s = true -> nleb Ops x y = true ->
                 nleb Ops (nmul Ops x s) (nmul Ops y s) = true;
  ml_mul_neg : forall s x y, fin s -> fin x -> fin y -> nleb Ops s (n0 Ops) = true -> nleb Ops x y = true ->
                 nleb Ops (nmul Ops y s) (nmul Ops x s) = true;
  ml_add : forall a x y, fin a -> nleb Ops x y = true -> nleb Ops (nadd Ops a x) (nadd Ops a y) = true
}.

Lemma ROps_MonoLaws : MonoLaws ROps (fun _ => True).
Proof.
  constructor; cbn; intros; try exact I.
  - apply Rleb_true. now apply IZR_le.
  - apply Rleb_true. apply Rleb_true in H2, H3. nra.
  - apply Rleb_true. apply Rleb_true in H2, H3. nra.
  - apply Rleb_true. apply Rleb_true in H0. lra.
Qed.

Section Mono.
Context {T : Type} (Ops : NumOps T) (fin : T -> Prop) (ML : MonoLaws Ops fin).

Lemma nth_map_seq_any (f : nat -> T) (d : T) (n k : nat) : (k < n)%nat -> nth k (map f (seq 0 n)) d = f k.
Proof.
  intros Hk. rewrite (nth_indep _ d (f 0%nat)) by (now rewrite map_length, seq_length).
  rewrite (map_nth f (seq 0 n) 0%nat k). now rewrite seq_nth.
Qed.

Theorem linear_space_monotone_rounded (mn mx : T) (steps : nat) (d : T) :
  let step := ndiv Ops (nsub Ops mx mn) (nsub Ops (nofZ Ops (Z.of_nat steps)) (n1 Ops)) in
  let l := linear_space Ops mn mx steps in
  (Nat.ltb steps 2) || neqb Ops mn mx = false -> fin mn -> fin step ->
  (nleb Ops (n0 Ops) step = true ->
     forall i j, (i <= j < steps)%nat -> nleb Ops (nth i l d) (nth j l d) = true) /\
  (nleb Ops step (n0 Ops) = true ->
     forall i j, (i <= j < steps)%nat -> nleb Ops (nth j l d) (nth i l d) = true).
Proof.
  intros step l Hnd Hmn Hstep. unfold l, linear_space. rewrite Hnd. fold step.
  split; intros Hsign i j Hij; rewrite !nth_map_seq_any by lia; apply (ml_add Ops fin ML); try assumption.
  - apply (ml_mul_pos Ops fin ML); try assumption; try apply (ml_ofZ_fin Ops fin ML). apply (ml_ofZ Ops fin ML). lia.
  - apply (ml_mul_neg Ops fin ML); try assumption; try apply (ml_ofZ_fin Ops fin ML). apply (ml_ofZ Ops fin ML). lia.
Qed.
End Mono.

Example linear_space_monotone_rounded_ex :
  MonoLaws ROps (fun _ => True) /\ (Nat.ltb 3 2) || neqb ROps 0%R 1%R = false /\
  nleb ROps (n0 ROps) (ndiv ROps (nsub ROps 1 0) (nsub ROps (nofZ ROps (Z.of_nat 3)) (n1 ROps)))%R = true.
Proof.
  split; [exact ROps_MonoLaws|]. cbn. split.
  - assert (Reqb 0 1 = false) as -> by (apply Reqb_false; lra). reflexivity.
  - apply Rleb_true. lra.
Qed.
