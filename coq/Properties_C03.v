(** C03 — property theorems only.  Each is closed by [exact] of a lemma proved in C03_Proofs.v.
    [integrate ROps f a b eps depth] is the model of Integrate(func,a,b,epsilon,maxRecursionDepth)
    (coq/C03_Model.v) at the real-number instance; it returns (value, non-convergence warning, abscissae at
    which the integrand was called).  [val], [wrn], [trc] are the three projections. *)
From Coq Require Import Reals ZArith List Lra Bool Arith.
From Coquelicot Require Import Coquelicot.
From LP Require Import Num NumR C03_Model C03_Proofs C03_Proofs_Remainder C03_Proofs_Seq C03_Proofs_More C03_Proofs_Arith C03_Proofs_Bound C03_Proofs_Post C03_Model2 C03_Proofs_Two.
Import ListNotations.
Local Open Scope R_scope.

(** "returns the exact integral of every polynomial of degree five or less for any epsilon and depth":
    for all six coefficients, all limits in either order (or equal), every epsilon (any sign, also 0) and every
    depth (any integer), the value is the Riemann integral of the polynomial from a to b. *)
Theorem C03_quintic_exact (c0 c1 c2 c3 c4 c5 a b eps : R) (depth : Z) :
  val (integrate ROps (fun x => c0 + c1 * x + c2 * x ^ 2 + c3 * x ^ 3 + c4 * x ^ 4 + c5 * x ^ 5) a b eps depth)
  = RInt (fun x => c0 + c1 * x + c2 * x ^ 2 + c3 * x ^ 3 + c4 * x ^ 4 + c5 * x ^ 5) a b.
Proof. exact (quintic_exact c0 c1 c2 c3 c4 c5 a b eps depth). Qed.
Print Assumptions C03_quintic_exact.

(** ... and that integral has the closed form P(b) - P(a) with P the antiderivative polynomial. *)
Theorem C03_quintic_integral (c0 c1 c2 c3 c4 c5 a b : R) :
  is_RInt (fun x => c0 + c1 * x + c2 * x ^ 2 + c3 * x ^ 3 + c4 * x ^ 4 + c5 * x ^ 5) a b
    ((c0 * b + c1 * b ^ 2 / 2 + c2 * b ^ 3 / 3 + c3 * b ^ 4 / 4 + c4 * b ^ 5 / 5 + c5 * b ^ 6 / 6)
     - (c0 * a + c1 * a ^ 2 / 2 + c2 * a ^ 3 / 3 + c3 * a ^ 4 / 4 + c4 * a ^ 5 / 5 + c5 * a ^ 6 / 6)).
Proof. exact (P5_is_RInt c0 c1 c2 c3 c4 c5 a b). Qed.
Print Assumptions C03_quintic_integral.

(** "Swapping the limits negates the result exactly" (and evaluates the integrand at the same points, with
    the same warning), for every integrand. *)
Theorem C03_swap_negates (f : R -> R) (a b eps : R) (depth : Z) :
  val (integrate ROps f b a eps depth) = - val (integrate ROps f a b eps depth) /\
  wrn (integrate ROps f b a eps depth) = wrn (integrate ROps f a b eps depth) /\
  trc (integrate ROps f b a eps depth) = trc (integrate ROps f a b eps depth).
Proof. exact (swap_negates f a b eps depth). Qed.
Print Assumptions C03_swap_negates.

(** "equal limits give zero" (without evaluating the integrand, without warning). *)
Theorem C03_equal_limits_zero (f : R -> R) (a eps : R) (depth : Z) :
  integrate ROps f a a eps depth = (0, false, []).
Proof. exact (equal_limits_zero f a eps depth). Qed.
Print Assumptions C03_equal_limits_zero.

(** "the sign of epsilon is irrelevant": value, warning and evaluation points coincide. *)
Theorem C03_eps_sign_irrelevant (f : R -> R) (a b eps : R) (depth : Z) :
  integrate ROps f a b (- eps) depth = integrate ROps f a b eps depth.
Proof. exact (eps_sign_irrelevant f a b eps depth). Qed.
Print Assumptions C03_eps_sign_irrelevant.

(** "the integrand is evaluated only inside the closed interval", for every integrand (no regularity). *)
Theorem C03_eval_points_inside (f : R -> R) (a b eps : R) (depth : Z) :
  List.Forall (fun x => Rmin a b <= x <= Rmax a b) (trc (integrate ROps f a b eps depth)).
Proof. exact (eval_points_inside f a b eps depth). Qed.
Print Assumptions C03_eval_points_inside.

(** "... and at most 2^(depth+2)+1 times", for every integrand; a non-positive depth counts as 0. *)
Theorem C03_eval_count (f : R -> R) (a b eps : R) (depth : Z) :
  (length (trc (integrate ROps f a b eps depth)) <= 2 ^ (Z.to_nat depth + 2) + 1)%nat.
Proof. exact (eval_count f a b eps depth). Qed.
Print Assumptions C03_eval_count.

(** "for every integrand whose fourth derivative keeps one sign and varies by at most a factor four over the
    interval the absolute error is at most four times epsilon" — FULL CLAUSE.
    f has derivatives f1, f2, f3, f4 of orders 1..4 on an open interval (lo',hi') containing the integration range
    (limits in either order), and on the range sg * f4 lies in [m, 4m] for a sign sg = +-1 and some m > 0.
    Then, for every depth and epsilon for which Integrate raises no non-convergence warning (a warning means a leaf
    was forced by the depth limit before meeting the acceptance test; no bound in terms of epsilon can hold then),
    |value - RInt f a b| <= 4 |eps|.  No analytic premise: the remainder of Simpson's rule is proved below. *)
Theorem C03_error_bound (f f1 f2 f3 f4 : R -> R) (lo' hi' a b eps m sg : R) (depth : Z) :
  lo' < Rmin a b -> Rmax a b < hi' ->
  (forall x, lo' < x < hi' -> is_derive f x (f1 x)) ->
  (forall x, lo' < x < hi' -> is_derive f1 x (f2 x)) ->
  (forall x, lo' < x < hi' -> is_derive f2 x (f3 x)) ->
  (forall x, lo' < x < hi' -> is_derive f3 x (f4 x)) ->
  sg = 1 \/ sg = -1 -> 0 < m ->
  (forall x, Rmin a b <= x <= Rmax a b -> m <= sg * f4 x <= 4 * m) ->
  wrn (integrate ROps f a b eps depth) = false ->
  Rabs (val (integrate ROps f a b eps depth) - RInt f a b) <= 4 * Rabs eps.
Proof. exact (error_bound f f1 f2 f3 f4 lo' hi' a b eps m sg depth). Qed.
Print Assumptions C03_error_bound.

(** "simpson_remainder": under the same differentiability hypotheses, on every sub-interval [u,v] of [lo,hi]
    RInt f u v - Simpson(f,u,v) = -(v-u)^5/2880 * phi with m <= sg*phi <= 4m (two-sided bound on the error of
    Simpson's rule from bounds on the fourth derivative; proved via positivity of the error on functions with
    non-decreasing third derivative, three applications of the mean value theorem). *)
Theorem C03_simpson_remainder (f f1 f2 f3 f4 : R -> R) (lo' hi' lo hi m sg : R) :
  lo' < lo -> hi < hi' ->
  (forall x, lo' < x < hi' -> is_derive f x (f1 x)) ->
  (forall x, lo' < x < hi' -> is_derive f1 x (f2 x)) ->
  (forall x, lo' < x < hi' -> is_derive f2 x (f3 x)) ->
  (forall x, lo' < x < hi' -> is_derive f3 x (f4 x)) ->
  sg = 1 \/ sg = -1 ->
  (forall x, lo <= x <= hi -> m <= sg * f4 x <= 4 * m) ->
  forall u v, lo <= u -> u < v -> v <= hi ->
  exists phi, m <= sg * phi <= 4 * m /\
    RInt f u v - (v - u) / 6 * (f u + 4 * f ((u + v) / 2) + f v) = - ((v - u) ^ 5 / 2880) * phi.
Proof. exact (simpson_remainder f f1 f2 f3 f4 lo' hi' lo hi m sg). Qed.
Print Assumptions C03_simpson_remainder.

(** The error bound relative to the remainder form alone (no differentiability assumed: any continuous integrand
    for which the remainder form holds on the sub-intervals, with whatever justification). *)
Theorem C03_error_bound_partial (f : R -> R) (a b eps m sg : R) (depth : Z) :
  (forall x, Rmin a b <= x <= Rmax a b -> continuous f x) ->
  sg = 1 \/ sg = -1 -> 0 < m ->
  (forall u v, Rmin a b <= u -> u < v -> v <= Rmax a b ->
     exists phi, m <= sg * phi <= 4 * m /\
       RInt f u v - (v - u) / 6 * (f u + 4 * f ((u + v) / 2) + f v) = - ((v - u) ^ 5 / 2880) * phi) ->
  wrn (integrate ROps f a b eps depth) = false ->
  Rabs (val (integrate ROps f a b eps depth) - RInt f a b) <= 4 * Rabs eps.
Proof. exact (error_bound_partial f a b eps m sg depth). Qed.
Print Assumptions C03_error_bound_partial.

(** The other ways into the same integrator.  Integrate(f,a,b,epsilon) is Integrate(f,a,b,epsilon,20) (default
    argument of the declaration), so every theorem above covers it with depth := 20. *)
Theorem C03_default_depth (f : R -> R) (a b eps : R) :
  integrate_default ROps f a b eps = integrate ROps f a b eps 20.
Proof. exact (default_depth f a b eps). Qed.
Print Assumptions C03_default_depth.

(** Integrate(f,a,b,"Adaptive-Simpson") (epsilon chosen by Find_Epsilon(f,a,b,1e-9), default depth): exact on every
    polynomial of degree five or less, limits in either order or equal. *)
Theorem C03_method_quintic_exact (c0 c1 c2 c3 c4 c5 a b : R) :
  val (integrate_method ROps (fun x => c0 + c1 * x + c2 * x ^ 2 + c3 * x ^ 3 + c4 * x ^ 4 + c5 * x ^ 5) a b)
  = RInt (fun x => c0 + c1 * x + c2 * x ^ 2 + c3 * x ^ 3 + c4 * x ^ 4 + c5 * x ^ 5) a b.
Proof. exact (method_quintic_exact c0 c1 c2 c3 c4 c5 a b). Qed.
Print Assumptions C03_method_quintic_exact.

(** ... swapping its limits negates the result exactly, *)
Theorem C03_method_swap_negates (f : R -> R) (a b : R) :
  val (integrate_method ROps f b a) = - val (integrate_method ROps f a b) /\
  wrn (integrate_method ROps f b a) = wrn (integrate_method ROps f a b) /\
  trc (integrate_method ROps f b a) = trc (integrate_method ROps f a b).
Proof. exact (method_swap_negates f a b). Qed.
Print Assumptions C03_method_swap_negates.

(** ... and all its evaluations (those of Find_Epsilon included) lie in the closed interval, at most 2^22+4 of them. *)
Theorem C03_method_points_inside_and_count (f : R -> R) (a b : R) :
  List.Forall (fun x => Rmin a b <= x <= Rmax a b) (trc (integrate_method ROps f a b)) /\
  (length (trc (integrate_method ROps f a b)) <= 2 ^ 22 + 4)%nat.
Proof. exact (conj (method_points_inside f a b) (method_count f a b)). Qed.
Print Assumptions C03_method_points_inside_and_count.

(** "for any epsilon and depth" includes any call history: in a sequence of calls of Integrate (explicit or default
    depth, string overload) and Find_Epsilon made in one process, the answer at every position is the answer of that
    call made alone ([run_seq] threads the state of section 1.1 of Integration.cpp, which is empty). *)
Theorem C03_history_free (pre post : list (call (T := R))) (c : call (T := R)) :
  List.nth_error (run_seq ROps tt (pre ++ c :: post)) (length pre) = Some (run_call ROps c).
Proof. exact (history_free pre post c). Qed.
Print Assumptions C03_history_free.

Theorem C03_quintic_exact_after_any_history (pre : list (call (T := R))) (c0 c1 c2 c3 c4 c5 a b eps : R) (depth : Z) :
  option_map val (List.nth_error
    (run_seq ROps tt (pre ++ [CInt (fun x => c0 + c1 * x + c2 * x ^ 2 + c3 * x ^ 3 + c4 * x ^ 4 + c5 * x ^ 5) a b eps depth]))
    (length pre))
  = Some (RInt (fun x => c0 + c1 * x + c2 * x ^ 2 + c3 * x ^ 3 + c4 * x ^ 4 + c5 * x ^ 5) a b).
Proof. exact (quintic_exact_after_any_history pre c0 c1 c2 c3 c4 c5 a b eps depth). Qed.
Print Assumptions C03_quintic_exact_after_any_history.

(** A piecewise-defined function integrated piece by piece — consecutive calls in one process whose limits abut exactly
    (the lower limit of a call is the upper limit of the call before), or are related in any other way, each call with
    its own polynomial of degree <= 5, epsilon and depth: every answer is the exact integral of its own piece.
    A piece is ((c0,c1,c2,c3,c4,c5), (a,b), (eps,depth)); [piece_call] is the call
    Integrate(x -> c0 + c1 x + ... + c5 x^5, a, b, eps, depth), [piece_integral] the Riemann integral of that polynomial
    from a to b (C03_Proofs_Seq.v). *)
Theorem C03_piecewise_quintic_exact (ps : list piece) :
  List.map val (run_seq ROps tt (List.map piece_call ps)) = List.map piece_integral ps.
Proof. exact (piecewise_quintic_exact ps). Qed.
Print Assumptions C03_piecewise_quintic_exact.

(** ... and one polynomial integrated over two abutting pieces [a,b], [b,c] (knots in any order, any epsilons and depths)
    gives two answers that add up to its integral from a to c. *)
Theorem C03_abutting_pieces_additive (c0 c1 c2 c3 c4 c5 a b c eps1 eps2 : R) (d1 d2 : Z) :
  val (run_call ROps (CInt (fun x => c0 + c1 * x + c2 * x ^ 2 + c3 * x ^ 3 + c4 * x ^ 4 + c5 * x ^ 5) a b eps1 d1))
  + val (run_call ROps (CInt (fun x => c0 + c1 * x + c2 * x ^ 2 + c3 * x ^ 3 + c4 * x ^ 4 + c5 * x ^ 5) b c eps2 d2))
  = RInt (fun x => c0 + c1 * x + c2 * x ^ 2 + c3 * x ^ 3 + c4 * x ^ 4 + c5 * x ^ 5) a c.
Proof. exact (abutting_pieces_additive c0 c1 c2 c3 c4 c5 a b c eps1 eps2 d1 d2). Qed.
Print Assumptions C03_abutting_pieces_additive.


(** "arbitrary integrands" includes integrands that use the integrator themselves (re-entrant use, as in
    Integrate_2D(...,"Adaptive-Simpson")): [reentrant ROps mk E] is the integrand that at abscissa x makes the call
    [mk x] (Integrate with explicit or default depth, the string overload or Find_Epsilon; integrand, limits, epsilon
    and depth of that call may all depend on x) and returns E x (value of that call).  For the outer call the count
    and location bounds, the negation under swapped limits and the irrelevance of the sign of epsilon hold as for any
    integrand, *)
Theorem C03_reentrant_outer (mk : R -> call (T := R)) (E : R -> R -> R) (a b eps : R) (depth : Z) :
  (length (trc (integrate ROps (reentrant ROps mk E) a b eps depth)) <= 2 ^ (Z.to_nat depth + 2) + 1)%nat /\
  List.Forall (fun x => Rmin a b <= x <= Rmax a b) (trc (integrate ROps (reentrant ROps mk E) a b eps depth)) /\
  val (integrate ROps (reentrant ROps mk E) b a eps depth) = - val (integrate ROps (reentrant ROps mk E) a b eps depth) /\
  integrate ROps (reentrant ROps mk E) a b (- eps) depth = integrate ROps (reentrant ROps mk E) a b eps depth.
Proof. exact (reentrant_outer mk E a b eps depth). Qed.
Print Assumptions C03_reentrant_outer.

(** ... and every inner call, being the call made alone, obeys its own bounds: at most 2^(depth+2)+1 evaluations
    (2^22+1 with the default depth, 2^22+4 for the string overload, 3 for Find_Epsilon), all inside its own limits. *)
Theorem C03_reentrant_inner (mk : R -> call (T := R)) (E : R -> R -> R) (x : R) :
  reentrant ROps mk E x = E x (val (run_call ROps (mk x))) /\
  (length (trc (run_call ROps (mk x))) <= call_bound (mk x))%nat /\
  List.Forall (fun t => Rmin (fst (call_limits (mk x))) (snd (call_limits (mk x))) <= t
                        <= Rmax (fst (call_limits (mk x))) (snd (call_limits (mk x))))
    (trc (run_call ROps (mk x))).
Proof. exact (conj (reentrant_value mk E x) (conj (run_call_count (mk x)) (run_call_inside (mk x)))). Qed.
Print Assumptions C03_reentrant_inner.

(** A nested integral whose inner integrand is a polynomial of degree <= 5 in the inner variable (coefficients, inner
    limits, inner epsilon and depth arbitrary functions of the outer abscissa): the inner call returns the exact
    inner integral at every outer abscissa. *)
Theorem C03_reentrant_inner_quintic_exact (c0 c1 c2 c3 c4 c5 lo hi ieps : R -> R) (idepth : R -> Z) (E : R -> R -> R) (x : R) :
  reentrant ROps (fun x => CInt (fun t => c0 x + c1 x * t + c2 x * t ^ 2 + c3 x * t ^ 3 + c4 x * t ^ 4 + c5 x * t ^ 5)
                             (lo x) (hi x) (ieps x) (idepth x)) E x
  = E x (RInt (fun t => c0 x + c1 x * t + c2 x * t ^ 2 + c3 x * t ^ 3 + c4 x * t ^ 4 + c5 x * t ^ 5) (lo x) (hi x)).
Proof. exact (reentrant_inner_quintic_exact c0 c1 c2 c3 c4 c5 lo hi ieps idepth E x). Qed.
Print Assumptions C03_reentrant_inner_quintic_exact.

(** The string overload under the regularity premises of the error bound: Integrate(f,a,b,"Adaptive-Simpson") chooses the
    tolerance 1e-9 * (Simpson estimate on the ordered limits) itself ([eps_of], Find_Epsilon) and the depth 20; without a
    warning its value is within four times that tolerance of the integral, limits in either order or equal. *)
Theorem C03_method_error_bound (f f1 f2 f3 f4 : R -> R) (lo' hi' a b m sg : R) :
  lo' < Rmin a b -> Rmax a b < hi' ->
  (forall x, lo' < x < hi' -> is_derive f x (f1 x)) ->
  (forall x, lo' < x < hi' -> is_derive f1 x (f2 x)) ->
  (forall x, lo' < x < hi' -> is_derive f2 x (f3 x)) ->
  (forall x, lo' < x < hi' -> is_derive f3 x (f4 x)) ->
  sg = 1 \/ sg = -1 -> 0 < m ->
  (forall x, Rmin a b <= x <= Rmax a b -> m <= sg * f4 x <= 4 * m) ->
  wrn (integrate_method ROps f a b) = false ->
  Rabs (val (integrate_method ROps f a b) - RInt f a b) <= 4 * Rabs (eps_of f (Rmin a b) (Rmax a b)).
Proof. exact (method_error_bound f f1 f2 f3 f4 lo' hi' a b m sg). Qed.
Print Assumptions C03_method_error_bound.

(** ... and the error bound of an explicit call at any position of a sequence of calls made in one process. *)
Theorem C03_error_bound_after_any_history (pre post : list (call (T := R))) (f f1 f2 f3 f4 : R -> R)
    (lo' hi' a b eps m sg : R) (depth : Z) :
  lo' < Rmin a b -> Rmax a b < hi' ->
  (forall x, lo' < x < hi' -> is_derive f x (f1 x)) ->
  (forall x, lo' < x < hi' -> is_derive f1 x (f2 x)) ->
  (forall x, lo' < x < hi' -> is_derive f2 x (f3 x)) ->
  (forall x, lo' < x < hi' -> is_derive f3 x (f4 x)) ->
  sg = 1 \/ sg = -1 -> 0 < m ->
  (forall x, Rmin a b <= x <= Rmax a b -> m <= sg * f4 x <= 4 * m) ->
  exists r, List.nth_error (run_seq ROps tt (pre ++ CInt f a b eps depth :: post)) (length pre) = Some r /\
            (wrn r = false -> Rabs (val r - RInt f a b) <= 4 * Rabs eps).
Proof. exact (error_bound_after_any_history pre post f f1 f2 f3 f4 lo' hi' a b eps m sg depth). Qed.
Print Assumptions C03_error_bound_after_any_history.

(** * The error clause when the non-convergence warning IS raised, and how deep is deep enough (coq/C03_Proofs_Post.v).
    "the absolute error is at most four times epsilon plus rounding" cannot hold as such when a panel is forced by the depth
    limit; what holds for EVERY depth and epsilon, warning or not, under the same regularity premises as C03_error_bound
    (four derivatives on an open interval containing the range, sg * f4 in [m, 4m] on the range), is
        |value - integral| <= 4 |eps| + |b-a|^5 m / (14400 * 16^depth):
    accepted panels contribute at most 4 |eps| in total, every forced panel (width |b-a|/2^depth) at most width^5 m / 14400.
    With eps = 0 this is the convergence rate of the rule in the depth. *)
Theorem C03_error_bound_any_depth (f f1 f2 f3 f4 : R -> R) (lo' hi' a b m sg eps : R) (depth : Z) :
  lo' < Rmin a b -> Rmax a b < hi' ->
  (forall x, lo' < x < hi' -> is_derive f x (f1 x)) ->
  (forall x, lo' < x < hi' -> is_derive f1 x (f2 x)) ->
  (forall x, lo' < x < hi' -> is_derive f2 x (f3 x)) ->
  (forall x, lo' < x < hi' -> is_derive f3 x (f4 x)) ->
  sg = 1 \/ sg = -1 -> 0 < m ->
  (forall x, Rmin a b <= x <= Rmax a b -> m <= sg * f4 x <= 4 * m) ->
  Rabs (val (integrate ROps f a b eps depth) - RInt f a b)
  <= 4 * Rabs eps + (Rmax a b - Rmin a b) ^ 5 * m / (14400 * 16 ^ Z.to_nat depth).
Proof. exact (fun H1 H2 H3 H4 H5 H6 H7 H8 H9 => error_bound_any_depth f f1 f2 f3 f4 lo' hi' a b m sg H1 H2 H3 H4 H5 H6 H7 H8 H9 eps depth). Qed.
Print Assumptions C03_error_bound_any_depth.

(** non-vacuity, in the case C03_error_bound does not cover: x^4 on [0,1] with depth 0 and epsilon 0 raises the warning
    (the only panel is forced), and the bound 24 / 14400 holds *)
Example C03_error_bound_any_depth_with_warning :
  wrn (integrate ROps (fun x => x ^ 4) 0 1 0 0) = true /\
  Rabs (val (integrate ROps (fun x => x ^ 4) 0 1 0 0) - RInt (fun x => x ^ 4) 0 1)
  <= 4 * Rabs 0 + (Rmax 0 1 - Rmin 0 1) ^ 5 * 24 / (14400 * 16 ^ Z.to_nat 0).
Proof. exact error_bound_any_depth_x4. Qed.

(** The error clause read literally - "for every integrand whose fourth derivative keeps one sign and varies by at most a factor
    four over the interval the absolute error is at most four times epsilon", with no proviso about the warning - is FALSE of the
    rule as coded: x^6 on [1,2] (fourth derivative 360 x^2 in [360, 1440]), epsilon 1e-6, depth 0 satisfies every premise of
    C03_error_bound except the absence of the warning, and the error is 1/2688 > 4e-6.  Replayed on the library:
    Integrate(x^6,1,2,1e-6,0) = 18.143229166666664 (integral 18.142857...), with the non-convergence warning on stdout.  This is why
    C03_error_bound carries the hypothesis [wrn = false] and why C03_error_bound_any_depth has the additional term. *)
Theorem C03_error_bound_without_warning_refuted :
  exists (f f1 f2 f3 f4 : R -> R) (lo' hi' a b eps m sg : R) (depth : Z),
    lo' < Rmin a b /\ Rmax a b < hi' /\
    (forall x, lo' < x < hi' -> is_derive f x (f1 x)) /\
    (forall x, lo' < x < hi' -> is_derive f1 x (f2 x)) /\
    (forall x, lo' < x < hi' -> is_derive f2 x (f3 x)) /\
    (forall x, lo' < x < hi' -> is_derive f3 x (f4 x)) /\
    (sg = 1 \/ sg = -1) /\ 0 < m /\
    (forall x, Rmin a b <= x <= Rmax a b -> m <= sg * f4 x <= 4 * m) /\
    wrn (integrate ROps f a b eps depth) = true /\
    ~ Rabs (val (integrate ROps f a b eps depth) - RInt f a b) <= 4 * Rabs eps.
Proof. exact error_bound_without_warning_refuted. Qed.
Print Assumptions C03_error_bound_without_warning_refuted.

(** A depth that is deep enough: when |b-a|^5 m <= 10800 |eps| 16^depth no panel can be forced with a failing test, so no
    warning is raised and the 4 |eps| bound of the property holds unconditionally (every discrepancy |S2 - S| of a panel of
    width w is at most w^5 m / 720). *)
Theorem C03_sufficient_depth_no_warning (f f1 f2 f3 f4 : R -> R) (lo' hi' a b m sg eps : R) (depth : Z) :
  lo' < Rmin a b -> Rmax a b < hi' ->
  (forall x, lo' < x < hi' -> is_derive f x (f1 x)) ->
  (forall x, lo' < x < hi' -> is_derive f1 x (f2 x)) ->
  (forall x, lo' < x < hi' -> is_derive f2 x (f3 x)) ->
  (forall x, lo' < x < hi' -> is_derive f3 x (f4 x)) ->
  sg = 1 \/ sg = -1 -> 0 < m ->
  (forall x, Rmin a b <= x <= Rmax a b -> m <= sg * f4 x <= 4 * m) ->
  (Rmax a b - Rmin a b) ^ 5 * m <= 10800 * Rabs eps * 16 ^ Z.to_nat depth ->
  wrn (integrate ROps f a b eps depth) = false /\
  Rabs (val (integrate ROps f a b eps depth) - RInt f a b) <= 4 * Rabs eps.
Proof. exact (fun H1 H2 H3 H4 H5 H6 H7 H8 H9 => sufficient_depth f f1 f2 f3 f4 lo' hi' a b m sg H1 H2 H3 H4 H5 H6 H7 H8 H9 eps depth). Qed.
Print Assumptions C03_sufficient_depth_no_warning.

Example C03_sufficient_depth_premises :
  wrn (integrate ROps (fun x => x ^ 4) 0 1 (1 / 100) 0) = false /\
  Rabs (val (integrate ROps (fun x => x ^ 4) 0 1 (1 / 100) 0) - RInt (fun x => x ^ 4) 0 1) <= 4 * Rabs (1 / 100).
Proof. exact sufficient_depth_x4. Qed.

(** Where the "factor four" and the "four times epsilon" meet: for a fourth derivative of one sign that varies by at most a
    factor r over the interval, 1 <= r < 16, and no warning, the error is at most 16 (r-1)/(16-r) |eps|.  r = 4 is the clause of the
    property (C03_error_bound), r = 1 says that integrands with constant fourth derivative are integrated exactly by accepted panels. *)
Theorem C03_error_bound_general_ratio (f f1 f2 f3 f4 : R -> R) (lo' hi' a b eps m r sg : R) (depth : Z) :
  lo' < Rmin a b -> Rmax a b < hi' ->
  (forall x, lo' < x < hi' -> is_derive f x (f1 x)) ->
  (forall x, lo' < x < hi' -> is_derive f1 x (f2 x)) ->
  (forall x, lo' < x < hi' -> is_derive f2 x (f3 x)) ->
  (forall x, lo' < x < hi' -> is_derive f3 x (f4 x)) ->
  sg = 1 \/ sg = -1 -> 0 < m -> 1 <= r < 16 ->
  (forall x, Rmin a b <= x <= Rmax a b -> m <= sg * f4 x <= r * m) ->
  wrn (integrate ROps f a b eps depth) = false ->
  Rabs (val (integrate ROps f a b eps depth) - RInt f a b) <= 16 * (r - 1) / (16 - r) * Rabs eps.
Proof. exact (error_bound_ratio f f1 f2 f3 f4 lo' hi' a b eps m r sg depth). Qed.
Print Assumptions C03_error_bound_general_ratio.

Example C03_error_bound_general_ratio_premises :
  Rabs (val (integrate ROps (fun x => x ^ 4) 0 1 (1 / 100) 0) - RInt (fun x => x ^ 4) 0 1) <= 16 * (1 - 1) / (16 - 1) * Rabs (1 / 100).
Proof. exact error_bound_ratio_x4. Qed.

(** An a-posteriori form, again with or without warning: the error is at most 4/15 of the sum of the discrepancies |S2 - S|
    ([disc]) of the panels on which the recursion stops ([panels], the partition of C03_integrate_is_composite_rule). *)
Theorem C03_error_bound_posterior (f f1 f2 f3 f4 : R -> R) (lo' hi' a b m sg eps : R) (depth : Z) :
  lo' < Rmin a b -> Rmax a b < hi' ->
  (forall x, lo' < x < hi' -> is_derive f x (f1 x)) ->
  (forall x, lo' < x < hi' -> is_derive f1 x (f2 x)) ->
  (forall x, lo' < x < hi' -> is_derive f2 x (f3 x)) ->
  (forall x, lo' < x < hi' -> is_derive f3 x (f4 x)) ->
  sg = 1 \/ sg = -1 -> 0 < m ->
  (forall x, Rmin a b <= x <= Rmax a b -> m <= sg * f4 x <= 4 * m) ->
  Rabs (val (integrate ROps f a b eps depth) - RInt f a b)
  <= 4 / 15 * sumR (List.map (disc f) (panels f (Z.to_nat depth) (Rmin a b) (Rmax a b) (Rabs eps))).
Proof. exact (fun H1 H2 H3 H4 H5 H6 H7 H8 H9 => error_bound_posterior f f1 f2 f3 f4 lo' hi' a b m sg H1 H2 H3 H4 H5 H6 H7 H8 H9 eps depth). Qed.
Print Assumptions C03_error_bound_posterior.

(** "stdout non-convergence warning" (observe_at): for every integrand and distinct limits the warning is raised exactly when
    the list [forced_fail] is not empty: the panels of the composite rule of width |b-a|/2^depth, reached with the depth
    exhausted, whose discrepancy exceeds 15 times the tolerance |eps|/2^depth in force there. *)
Theorem C03_warning_iff_forced_failure (f : R -> R) (a b eps : R) (depth : Z) :
  a <> b ->
  let lo := Rmin a b in let hi := Rmax a b in
  let ff := forced_fail f (Z.to_nat depth) lo hi (Rabs eps) in
  (wrn (integrate ROps f a b eps depth) = true <-> ff <> []) /\
  List.Forall (fun q => let '(u, v, e) := q in
                   v - u = (hi - lo) / 2 ^ Z.to_nat depth /\ e = Rabs eps / 2 ^ Z.to_nat depth /\
                   List.In (u, v) (panels f (Z.to_nat depth) lo hi (Rabs eps)) /\
                   15 * e < Rabs (S2of f u v - simp f u v)) ff.
Proof. exact (warning_iff_forced_failure f a b eps depth). Qed.
Print Assumptions C03_warning_iff_forced_failure.

Example C03_forced_failure_nonempty : forced_fail (fun x => x ^ 4) 0 0 1 0 = [(0, 1, 0)].
Proof. exact forced_fail_x4. Qed.

(** "wrong reuse of fa/fb/fc in the recursion" (mechanism): for every integrand, epsilon, depth and pair of limits no abscissa
    is evaluated twice - the end and mid values handed down are the only reuse, and nothing is re-evaluated. *)
Theorem C03_eval_points_distinct (f : R -> R) (a b eps : R) (depth : Z) :
  List.NoDup (trc (integrate ROps f a b eps depth)).
Proof. exact (eval_points_distinct f a b eps depth). Qed.
Print Assumptions C03_eval_points_distinct.

(** Find_Epsilon(f,a,b,precision) (the tolerance of the string overload): precision times the integral for every polynomial
    of degree three or less, and antisymmetric in the limits for every integrand. *)
Theorem C03_find_epsilon (c0 c1 c2 c3 a b p : R) (f : R -> R) :
  find_epsilon ROps (fun x => c0 + c1 * x + c2 * x ^ 2 + c3 * x ^ 3) a b p
  = p * RInt (fun x => c0 + c1 * x + c2 * x ^ 2 + c3 * x ^ 3) a b /\
  find_epsilon ROps f b a p = - find_epsilon ROps f a b p.
Proof. exact (conj (find_epsilon_cubic c0 c1 c2 c3 a b p) (find_epsilon_swap f a b p)). Qed.
Print Assumptions C03_find_epsilon.


(** * Clauses that hold in EVERY arithmetic (C03_Proofs_Arith.v).
    The theorems above are about exact real arithmetic, where an integrand value is always a finite number.  The
    theorems below are about the model over an arbitrary number type [T] with arbitrary operations [Ops]: in particular
    the instance that is extracted and run against the C++ code (IEEE doubles with rounding, infinities, NaN).
    [aval], [awrn], [atrc] are the three projections at type [T]. *)

(** "the integrand is evaluated ... at most 2^(depth+2)+1 times" — for every integrand (whatever it returns: NaN,
    infinities, values that overflow the estimates), every epsilon, every depth, every arithmetic.  No premise. *)
Theorem C03_eval_count_any_arithmetic {T : Type} (Ops : NumOps T) (f : T -> T) (a b eps : T) (depth : Z) :
  (length (atrc (integrate Ops f a b eps depth)) <= 2 ^ (Z.to_nat depth + 2) + 1)%nat.
Proof. exact (integrate_count_any Ops f a b eps depth). Qed.
Print Assumptions C03_eval_count_any_arithmetic.

(** ... more precisely, for limits that do not compare equal the count is 4 L + 1 with 1 <= L <= 2^depth (L accepted or
    forced panels: three first values, two more per node of a binary tree with L leaves); the check evaluates this
    shape on the library's counts (an extra or a saved evaluation anywhere breaks it). *)
Theorem C03_eval_count_shape {T : Type} (Ops : NumOps T) (f : T -> T) (a b eps : T) (depth : Z) :
  neqb Ops a b = false ->
  exists L, (1 <= L <= 2 ^ Z.to_nat depth)%nat /\
            length (atrc (integrate Ops f a b eps depth)) = (4 * L + 1)%nat.
Proof. exact (integrate_count_shape Ops f a b eps depth). Qed.
Print Assumptions C03_eval_count_shape.

(** the same through the string overload (Find_Epsilon's three evaluations first): 4 L + 4 with L <= 2^20 *)
Theorem C03_method_count_shape {T : Type} (Ops : NumOps T) (f : T -> T) (a b : T) :
  neqb Ops a b = false ->
  neqb Ops (if ngtb Ops a b then b else a) (if ngtb Ops a b then a else b) = false ->
  exists L, (1 <= L <= 2 ^ 20)%nat /\ length (atrc (integrate_method Ops f a b)) = (4 * L + 4)%nat.
Proof. exact (method_count_shape Ops f a b). Qed.
Print Assumptions C03_method_count_shape.

(** "equal limits give zero" in every arithmetic: limits that compare equal (for doubles also +0 and -0) are answered
    with zero, no warning and no evaluation. *)
Theorem C03_equal_limits_any_arithmetic {T : Type} (Ops : NumOps T) (f : T -> T) (a b eps : T) (depth : Z) :
  neqb Ops a b = true -> integrate Ops f a b eps depth = (n0 Ops, false, []).
Proof. exact (integrate_equal_limits Ops f a b eps depth). Qed.
Print Assumptions C03_equal_limits_any_arithmetic.

(** "Swapping the limits negates the result exactly" — as a statement about the rounded computation: for two limits
    that do not compare equal and are ordered one way or the other (any two distinct non-NaN doubles), in every
    arithmetic in which (-1) * r = - (1 * r) and - - r = r (IEEE: exact sign operations), Integrate(f,b,a,..) is the
    negation of Integrate(f,a,b,..) — the same bits with the sign flipped —, with the same warning and the same
    evaluation points in the same order.  (Both calls run the recursion on the same ordered limits.) *)
Theorem C03_swap_negates_any_arithmetic {T : Type} (Ops : NumOps T) (f : T -> T) (a b eps : T) (depth : Z) :
  neqb Ops a b = false -> neqb Ops b a = false ->
  nltb Ops a b = negb (nltb Ops b a) ->
  (forall r, nmul Ops (nneg Ops (n1 Ops)) r = nneg Ops (nmul Ops (n1 Ops) r)) ->
  (forall r, nneg Ops (nneg Ops r) = r) ->
  aval (integrate Ops f b a eps depth) = nneg Ops (aval (integrate Ops f a b eps depth)) /\
  awrn (integrate Ops f b a eps depth) = awrn (integrate Ops f a b eps depth) /\
  atrc (integrate Ops f b a eps depth) = atrc (integrate Ops f a b eps depth).
Proof. exact (swap_negates_any Ops f a b eps depth). Qed.
Print Assumptions C03_swap_negates_any_arithmetic.

Example C03_swap_negates_any_arithmetic_premises :
  neqb ROps 0 1 = false /\ neqb ROps 1 0 = false /\ nltb ROps 0 1 = negb (nltb ROps 1 0) /\
  (forall r, nmul ROps (nneg ROps (n1 ROps)) r = nneg ROps (nmul ROps (n1 ROps) r)) /\
  (forall r, nneg ROps (nneg ROps r) = r).
Proof.
  cbn. repeat split.
  - destruct (Reqb_spec 0 1); [lra|reflexivity].
  - destruct (Reqb_spec 1 0); [lra|reflexivity].
  - destruct (Rltb_spec 0 1), (Rltb_spec 1 0); try reflexivity; lra.
  - intros; ring.
  - intros; ring.
Qed.

(** "the sign of epsilon is irrelevant" in every arithmetic with |-eps| = |eps| (IEEE fabs clears the sign bit). *)
Theorem C03_eps_sign_any_arithmetic {T : Type} (Ops : NumOps T) (f : T -> T) (a b eps : T) (depth : Z) :
  nabs Ops (nneg Ops eps) = nabs Ops eps ->
  integrate Ops f a b (nneg Ops eps) depth = integrate Ops f a b eps depth.
Proof. exact (eps_sign_any Ops f a b eps depth). Qed.
Print Assumptions C03_eps_sign_any_arithmetic.

(** "the integrand is evaluated only inside the closed interval" from the order alone: in every arithmetic whose
    comparison <= is transitive and in which the rounded midpoint (x + y) / 2 of two ordered numbers — operands of the
    sum in either order — stays between them (IEEE doubles: whenever x + y does not overflow), every abscissa lies
    between the ordered limits lo <= hi.  [lo], [hi] are the limits as ordered by Check_Integration_Limits. *)
Theorem C03_eval_points_inside_any_order {T : Type} (Ops : NumOps T) (f : T -> T) (a b eps : T) (depth : Z) :
  (forall x y z, nleb Ops x y = true -> nleb Ops y z = true -> nleb Ops x z = true) ->
  (forall x y, nleb Ops x y = true ->
     nleb Ops x (ndiv Ops (nadd Ops x y) (nofZ Ops 2)) = true /\ nleb Ops (ndiv Ops (nadd Ops x y) (nofZ Ops 2)) y = true /\
     nleb Ops x (ndiv Ops (nadd Ops y x) (nofZ Ops 2)) = true /\ nleb Ops (ndiv Ops (nadd Ops y x) (nofZ Ops 2)) y = true) ->
  let lo := if ngtb Ops a b then b else a in
  let hi := if ngtb Ops a b then a else b in
  nleb Ops lo lo = true -> nleb Ops hi hi = true -> nleb Ops lo hi = true ->
  List.Forall (fun x => nleb Ops lo x = true /\ nleb Ops x hi = true) (atrc (integrate Ops f a b eps depth)).
Proof. exact (fun Ht Hm => integrate_inside_any Ops Ht Hm f a b eps depth). Qed.
Print Assumptions C03_eval_points_inside_any_order.

Example C03_eval_points_inside_any_order_premises :
  (forall x y z, nleb ROps x y = true -> nleb ROps y z = true -> nleb ROps x z = true) /\
  (forall x y, nleb ROps x y = true ->
     nleb ROps x (ndiv ROps (nadd ROps x y) (nofZ ROps 2)) = true /\ nleb ROps (ndiv ROps (nadd ROps x y) (nofZ ROps 2)) y = true /\
     nleb ROps x (ndiv ROps (nadd ROps y x) (nofZ ROps 2)) = true /\ nleb ROps (ndiv ROps (nadd ROps y x) (nofZ ROps 2)) y = true).
Proof.
  cbn. split.
  - intros x y z H1 H2. apply Rleb_true in H1, H2. apply Rleb_true. lra.
  - intros x y H. apply Rleb_true in H. repeat split; apply Rleb_true; lra.
Qed.

(** Sequences of calls some of which are abandoned by their integrand (an exception thrown at its k-th evaluation passes
    through the library): a request is a call and k (0 = the integrand never throws).  Every request answers like the
    call made alone, or not at all when the call reaches its k-th evaluation, independently of the requests before it
    ([run_seq_ab] threads the — empty — state through abandoned calls too; the check runs such sequences through the
    library with calls of every kind abandoned at every stage). *)
Theorem C03_history_free_with_abandoned_calls {T : Type} (Ops : NumOps T)
    (pre post : list (call (T := T) * nat)) (c : call (T := T)) :
  List.nth_error (run_seq_ab Ops tt (pre ++ (c, 0%nat) :: post)) (length pre) = Some (Some (run_call Ops c)).
Proof. exact (history_free_ab Ops pre post c). Qed.
Print Assumptions C03_history_free_with_abandoned_calls.

Theorem C03_abandoned_calls_pointwise {T : Type} (Ops : NumOps T) (cs : list (call (T := T) * nat)) :
  run_seq_ab Ops tt cs =
  List.map (fun ck => if ((1 <=? snd ck) && (snd ck <=? length (atrc (run_call Ops (fst ck)))))%nat
                      then None else Some (run_call Ops (fst ck))) cs.
Proof. exact (run_seq_ab_pointwise Ops cs). Qed.
Print Assumptions C03_abandoned_calls_pointwise.

(** Refinement of Integrate to a simple specification (anchors: panel rule, acceptance, Richardson term, recursion on
    halves with inherited values, limit ordering).  For distinct limits, with lo/hi the ordered limits and
    [ps = panels f depth lo hi |eps|] the panels on which the recursion stops (accepted or forced by the depth), left to
    right (C03_Proofs_More.v):
    - the value is +-1 times the sum over the panels of the five-point value S2 + (S2 - S)/15 of that panel
      ([panel_value]; inherited function values and estimates are exactly the ones a fresh evaluation would give),
    - the integrand is evaluated 4 |ps| + 1 times, 1 <= |ps| <= 2^depth,
    - the panels abut (each right end is the next left end), start at lo and end at hi,
    - every panel is [lo,hi] halved k <= depth times.
    Exactness on quintics and the error bound are statements about this composite rule. *)
Theorem C03_integrate_is_composite_rule (f : R -> R) (a b eps : R) (depth : Z) :
  a <> b ->
  let lo := Rmin a b in let hi := Rmax a b in
  let ps := panels f (Z.to_nat depth) lo hi (Rabs eps) in
  val (integrate ROps f a b eps depth) = (if Rltb b a then -1 else 1) * sumR (List.map (panel_value f) ps) /\
  length (trc (integrate ROps f a b eps depth)) = (4 * length ps + 1)%nat /\
  (1 <= length ps <= 2 ^ Z.to_nat depth)%nat /\
  List.map fst ps ++ [hi] = lo :: List.map snd ps /\
  List.Forall (fun p => lo <= fst p /\ fst p < snd p /\ snd p <= hi /\
                        exists k, (k <= Z.to_nat depth)%nat /\ snd p - fst p = (hi - lo) / 2 ^ k) ps.
Proof. exact (integrate_is_composite_rule f a b eps depth). Qed.
Print Assumptions C03_integrate_is_composite_rule.

(** non-vacuity: x^4 on [0,1] with epsilon 1e-4 and depth 1 is split once: two panels *)
Example C03_composite_rule_two_panels :
  panels (fun x => x ^ 4) 1 0 1 (Rabs (1 / 10000)) = [(0, 1 / 2); (1 / 2, 1)].
Proof. exact composite_rule_nonvacuous. Qed.


(** Size of the estimates ("to rounding" at the upper end of the double range: which requests can make an intermediate of the
    rule as written exceed the largest double).  For an integrand bounded by M and ordered limits, the first estimate S and the
    two-panel estimate S2 are at most (b-a) M in modulus, S2 - S at most 2 (b-a) M, and the accepted five-point value
    S2 + (S2 - S)/15 at most (17/15) (b-a) M (coq/C03_Proofs_Bound.v). *)
Theorem C03_leaf_value_bounded (f : R -> R) (M a b : R) :
  a <= b -> (forall x, Rabs (f x) <= M) ->
  Rabs (simp f a b) <= (b - a) * M /\
  Rabs (S2of f a b) <= (b - a) * M /\
  Rabs (S2of f a b - simp f a b) <= 2 * ((b - a) * M) /\
  Rabs (leafval f a b) <= 17 / 15 * ((b - a) * M).
Proof. exact (panel_bounds f M a b). Qed.
Print Assumptions C03_leaf_value_bounded.

(** ... and the value returned by Integrate, for every epsilon, depth and pair of limits, is at most (17/15) |b-a| M. *)
Theorem C03_value_bounded (f : R -> R) (M a b eps : R) (depth : Z) :
  (forall x, Rabs (f x) <= M) ->
  Rabs (val (integrate ROps f a b eps depth)) <= 17 / 15 * (Rabs (b - a) * M).
Proof. exact (integrate_value_bounded f M a b eps depth). Qed.
Print Assumptions C03_value_bounded.

(** non-vacuity: the constant 3 on [0,2] is bounded by 3 and its integral 6 = (b-a) M *)
Example C03_value_bounded_premises :
  (forall x, Rabs ((fun _ : R => 3) x) <= 3) /\ val (integrate ROps (fun _ => 3) 0 2 1 0) = 6.
Proof. exact value_bound_nonvacuous. Qed.


(** * Seventh pass: what Integrate writes besides its value, the method guard, and the nested integrators (coq/C03_Model2.v,
    coq/C03_Proofs_Two.v).  [integrate_report] is Integrate with all its output: ((value, non-convergence warning, abscissae),
    (swap notice of Check_Integration_Limits on stderr, "Result is nan." notice, "Result is inf." notice)); the check compares
    all of it with the library (op diag). *)

(** "observe_at: stdout non-convergence warning" - the report's value, warning and abscissae are those of [integrate], in every
    arithmetic: every theorem above is a theorem about the reported call. *)
Theorem C03_report_is_integrate {T : Type} (Ops : NumOps T) (f : T -> T) (a b eps : T) (depth : Z) :
  fst (integrate_report Ops f a b eps depth) = integrate Ops f a b eps depth.
Proof. exact (report_agrees Ops f a b eps depth). Qed.
Print Assumptions C03_report_is_integrate.

(** "limit ordering, sign flip" (mechanism): the swap notice is printed exactly for a > b; of the two orientations of two
    distinct ordered limits exactly one prints it; in every arithmetic. *)
Theorem C03_swap_notice {T : Type} (Ops : NumOps T) (f : T -> T) (a b eps : T) (depth : Z) :
  fst (fst (snd (integrate_report Ops f a b eps depth))) = negb (neqb Ops a b) && ngtb Ops a b /\
  (neqb Ops a b = false -> neqb Ops b a = false -> nltb Ops a b = negb (nltb Ops b a) ->
   fst (fst (snd (integrate_report Ops f a b eps depth))) = negb (fst (fst (snd (integrate_report Ops f b a eps depth))))).
Proof. exact (conj (swap_notice_iff Ops f a b eps depth) (swap_notice_once Ops f a b eps depth)). Qed.
Print Assumptions C03_swap_notice.

Example C03_swap_notice_premises : neqb ROps 0 1 = false /\ neqb ROps 1 0 = false /\ nltb ROps 0 1 = negb (nltb ROps 1 0).
Proof. exact (conj (proj1 C03_swap_negates_any_arithmetic_premises)
               (conj (proj1 (proj2 C03_swap_negates_any_arithmetic_premises)) (proj1 (proj2 (proj2 C03_swap_negates_any_arithmetic_premises))))). Qed.

(** the nan and inf notices are never both printed, and nothing is printed for limits that compare equal; every arithmetic *)
Theorem C03_diag_exclusive {T : Type} (Ops : NumOps T) (f : T -> T) (a b eps : T) (depth : Z) :
  let '(_, (notice, wnan, winf)) := integrate_report Ops f a b eps depth in
  wnan && winf = false /\ (neqb Ops a b = true -> notice = false /\ wnan = false /\ winf = false).
Proof. exact (diag_exclusive Ops f a b eps depth). Qed.
Print Assumptions C03_diag_exclusive.

(** over the reals: no nan notice, and no inf notice (|result| > DBL_MAX) for an integrand bounded by M when (17/15)|b-a| M does
    not exceed the largest double - the a-priori criterion the check uses for the region "estimate-overflow" *)
Theorem C03_diag_real (f : R -> R) (M a b eps : R) (depth : Z) :
  (forall x, Rabs (f x) <= M) -> 17 / 15 * (Rabs (b - a) * M) <= dbl_max ROps ->
  snd (integrate_report ROps f a b eps depth) = (Rltb b a && negb (Reqb a b), false, false).
Proof. exact (diag_real f M a b eps depth). Qed.
Print Assumptions C03_diag_real.

Example C03_diag_real_premises :
  (forall x, Rabs ((fun _ : R => 3) x) <= 3) /\ 17 / 15 * (Rabs (2 - 0) * 3) <= dbl_max ROps.
Proof. exact diag_real_premises. Qed.

(** the guard of the string overload: an unrecognised method name ends the process whatever the other arguments,
    "Adaptive-Simpson" is answered by [integrate_method]; every arithmetic *)
Theorem C03_method_guard {T : Type} (Ops : NumOps T) (f : T -> T) (a b : T) :
  integrate_named Ops MUnknown f a b = Exit /\
  integrate_named Ops MAdaptiveSimpson f a b = Ok (Some (integrate_method Ops f a b)) /\
  integrate_named Ops MOther f a b <> Exit.
Proof. exact (named_guard Ops f a b). Qed.
Print Assumptions C03_method_guard.

(** Integrate_2D(func,x1,x2,y1,y2,"Adaptive-Simpson") - the integrator nested in itself: "evaluated only inside the closed
    interval and at most ... times" for both variables: every point (x,y) at which func is called lies in the closed rectangle
    and there are at most (2^22+4)^2 of them, for every func. *)
Theorem C03_2d_points_inside_and_count (f : R -> R -> R) (x1 x2 y1 y2 : R) :
  List.Forall (fun p => Rmin x1 x2 <= fst p <= Rmax x1 x2 /\ Rmin y1 y2 <= snd p <= Rmax y1 y2) (trc (integrate_2d ROps f x1 x2 y1 y2)) /\
  (length (trc (integrate_2d ROps f x1 x2 y1 y2)) <= (2 ^ 22 + 4) * (2 ^ 22 + 4))%nat.
Proof. exact (i2d_inside_and_count f x1 x2 y1 y2). Qed.
Print Assumptions C03_2d_points_inside_and_count.

(** ... in every arithmetic each such point is (an abscissa of the outer call, an abscissa of the inner call made there) *)
Theorem C03_2d_points_any_arithmetic {T : Type} (Ops : NumOps T) (f : T -> T -> T) (x1 x2 y1 y2 : T) (p : T * T) :
  List.In p (snd (integrate_2d Ops f x1 x2 y1 y2)) ->
  List.In (fst p) (snd (integrate_method Ops (fun x => fst (fst (integrate_method Ops (fun y => f x y) y1 y2))) x1 x2)) /\
  List.In (snd p) (snd (integrate_method Ops (fun y => f (fst p) y) y1 y2)).
Proof. exact (i2d_points Ops f x1 x2 y1 y2 p). Qed.
Print Assumptions C03_2d_points_any_arithmetic.

(** "exact integral of every polynomial of degree five or less" in two variables: func(x,y) of degree <= 5 in y with
    coefficients c_k(x) such that the inner integral is a polynomial of degree <= 5 in x (e.g. sum c_ij x^i y^j, i,j <= 5):
    Integrate_2D returns the iterated integral; limits in any orientation or equal. *)
Theorem C03_2d_quintic_exact (c0 c1 c2 c3 c4 c5 : R -> R) (d0 d1 d2 d3 d4 d5 x1 x2 y1 y2 : R) :
  (forall x, RInt (fun y => c0 x + c1 x * y + c2 x * y ^ 2 + c3 x * y ^ 3 + c4 x * y ^ 4 + c5 x * y ^ 5) y1 y2
             = d0 + d1 * x + d2 * x ^ 2 + d3 * x ^ 3 + d4 * x ^ 4 + d5 * x ^ 5) ->
  val (integrate_2d ROps (fun x y => c0 x + c1 x * y + c2 x * y ^ 2 + c3 x * y ^ 3 + c4 x * y ^ 4 + c5 x * y ^ 5) x1 x2 y1 y2)
  = RInt (fun x => d0 + d1 * x + d2 * x ^ 2 + d3 * x ^ 3 + d4 * x ^ 4 + d5 * x ^ 5) x1 x2.
Proof. exact (i2d_quintic_exact c0 c1 c2 c3 c4 c5 d0 d1 d2 d3 d4 d5 x1 x2 y1 y2). Qed.
Print Assumptions C03_2d_quintic_exact.

(** non-vacuity: func(x,y) = x y over [0,1] x [0,2]: inner integral 2 x, value 1 *)
Example C03_2d_quintic_xy :
  (forall x, RInt (p5 0 x 0 0 0 0) 0 2 = p5 0 2 0 0 0 0 x) /\
  val (integrate_2d ROps (fun x y => p5 0 x 0 0 0 0 y) 0 1 0 2) = 1.
Proof. exact i2d_quintic_xy. Qed.
