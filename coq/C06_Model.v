(** * C06 model: the gamma-function family of src/Special_Functions.cpp (section 2.1) and the part of
    src/Integration.cpp (Find_Epsilon, Adaptive_Simpson_Integration, Integrate) that GammaQint calls.
    Hand-written, line by line after the C++ (same operation order, comparisons and literals); tied to the
    code by the differential correspondence check (harness/C06.cpp vs the extraction of this file). *)
From Coq Require Import ZArith List Bool.
From LP Require Import Num.
Import ListNotations.
Local Open Scope Z_scope.

(** Fuel of the two [while] loops that have no iteration cap in the source (GammaPser, GammaQcf).
    A closed constant, so that the extracted program builds it once. *)
Definition loop_fuel : nat := Z.to_nat 100000.
(** denominators of the two powers of two below; closed constants for the same reason *)
Definition pow2_52 : Z := 2 ^ 52.
Definition pow2_970 : Z := 2 ^ 970.

Section Model.
Context {T : Type} (Ops : NumOps T).
Declare Scope num_scope.
Local Notation "x + y" := (nadd Ops x y) : num_scope.
Local Notation "x - y" := (nsub Ops x y) : num_scope.
Local Notation "x * y" := (nmul Ops x y) : num_scope.
Local Notation "x / y" := (ndiv Ops x y) : num_scope.
Delimit Scope num_scope with num.
Local Notation "'#' k" := (nofZ Ops k) (at level 1, format "'#' k").
Local Notation lit := (nlit Ops).
Local Notation dec := (ndec Ops).

(** ** Factorial(unsigned int n) with the global memo table  std::vector<double> FactorialList = {1.0} *)
Definition fact_init : list T := [n1 Ops].

(* one execution of   FactorialList.push_back(FactorialList.back() * FactorialList.size()) *)
Definition fact_push (tbl : list T) : list T :=
  tbl ++ [(last tbl (n0 Ops) * #(Z.of_nat (length tbl)))%num].

(* while(FactorialList.size() <= n) push_back(...): exactly n+1-size iterations *)
Fixpoint fact_grow (k : nat) (tbl : list T) : list T :=
  match k with O => tbl | S k' => fact_grow k' (fact_push tbl) end.

(* state -> argument -> state * outcome.  A negative [n] stands for an unsigned value above 170. *)
Definition factorial_step (tbl : list T) (n : Z) : list T * res T :=
  if (n <? 0) || (n >? 170) then (tbl, Exit)
  else if n <? Z.of_nat (length tbl) then (tbl, Ok (nth (Z.to_nat n) tbl (n0 Ops)))
  else
    let tbl' := fact_grow (Z.to_nat n + 1 - length tbl)%nat tbl in
    (tbl', Ok (last tbl' (n0 Ops))).

(* a history of calls: the table is threaded through, the outcomes are collected.  In the C++ process an
   exiting call ends the history; the model keeps the table unchanged and goes on (the harness runs each
   exiting call in a process of its own). *)
Fixpoint factorial_run (tbl : list T) (ns : list Z) : list T * list (res T) :=
  match ns with
  | [] => (tbl, [])
  | n :: r => let '(t1, o) := factorial_step tbl n in
              let '(t2, os) := factorial_run t1 r in (t2, o :: os)
  end.

(** ** GammaLn(x): Lanczos approximation, 14 coefficients *)
Definition lanczos_cof : list T := [
  lit (114312471331725847) 2000000000000000 (4022012525729383) (-46);           (* 57.1562356658629235 *)
  lit (-18624362611086091) 312500000000000 (-524229203220627) (-43);            (* -59.5979603554754912 *)
  lit (141360979747417471) 10000000000000000 (7957915696439969) (-49);          (* 14.1360979747417471 *)
  lit (-491913816097620199) 1000000000000000000 (-2215382878875641) (-52);      (* -0.491913816097620199 *)
  lit (339946499848118887) 10000000000000000000000 (2508362432580637) (-66);    (* .339946499848118887e-4 *)
  lit (116309072317621439) 2500000000000000000000 (6865675809579965) (-67);     (* .465236289270485756e-4 *)
  lit (-491872376524397823) 5000000000000000000000 (-7258755077338295) (-66);   (* -.983744753048795646e-4 *)
  lit (79044351612456247) 500000000000000000000 (5832443698669165) (-65);       (* .158088703224912494e-3 *)
  lit (-210264441724104883) 1000000000000000000000 (-3878694344285979) (-64);   (* -.210264441724104883e-3 *)
  lit (217439618115212643) 1000000000000000000000 (4011052986856467) (-64);     (* .217439618115212643e-3 *)
  lit (-16431810653676389) 100000000000000000000 (-94722939311257) (-59);       (* -.164318106536763890e-3 *)
  lit (844182239838527433) 10000000000000000000000 (6228965491948885) (-66);    (* .844182239838527433e-4 *)
  lit (-261908384015814087) 10000000000000000000000 (-3865085544558851) (-67);  (* -.261908384015814087e-4 *)
  lit (184495913297658117) 50000000000000000000000 (544535823239553) (-67)      (* .368991826595316234e-5 *)
].

(* for(j = 0; j < 14; j++) sum += cof[j] / ++y;   state (y, sum) *)
Definition lanczos_sum (y0 sum0 : T) : T * T :=
  fold_left (fun (st : T * T) (cj : T) =>
               let y := (fst st + n1 Ops)%num in (y, (snd st + cj / y)%num))
            lanczos_cof (y0, sum0).

Definition gammaln (x : T) : res T :=
  if nleb Ops x (n0 Ops) then Exit
  else
    let sum := lit (249999999999999273) 250000000000000000 (4503599627370483) (-52) in   (* 0.999999999999997092 *)
    let tmp := (x + dec 671 128)%num in
    let tmp := ((x + dec 1 2) * nln Ops tmp - tmp)%num in
    let sum := snd (lanczos_sum x sum) in
    Ok (tmp + nln Ops (lit (5013256549262001) 2000000000000000 (2822212540896131) (-50) * sum / x))%num.
                       (* 2.5066282746310005 *)

Definition gamma (x : T) : res T := rmap (nexp Ops) (gammaln x).

(** ** Adaptive Simpson (Integration.cpp), as far as GammaQint uses it *)
Definition find_epsilon (f : T -> T) (a b precision : T) : T :=
  let c := ((a + b) / #2)%num in
  let h := (b - a)%num in
  let fa := f a in let fb := f b in let fc := f c in
  let S := ((h / #6) * (fa + #4 * fc + fb))%num in
  (precision * S)%num.

Fixpoint asr (bottom : nat) (f : T -> T) (a b epsilon S fa fb fc : T) : T :=
  let c := ((a + b) / #2)%num in
  let h := (b - a)%num in
  let d := ((a + c) / #2)%num in
  let e := ((b + c) / #2)%num in
  let fd := f d in
  let fe := f e in
  let Sleft := ((h / #12) * (fa + #4 * fd + fc))%num in
  let Sright := ((h / #12) * (fc + #4 * fe + fb))%num in
  let S2 := (Sleft + Sright)%num in
  match bottom with
  | O => (S2 + (S2 - S) / #15)%num                              (* bottom <= 0 *)
  | S k =>
      if nleb Ops (nabs Ops (S2 - S)%num) (#15 * epsilon)%num then (S2 + (S2 - S) / #15)%num
      else (asr k f a c (epsilon / #2)%num Sleft fa fc fd + asr k f c b (epsilon / #2)%num Sright fc fb fe)%num
  end.

Definition integrate (f : T -> T) (a b epsilon : T) (depth : nat) : T :=
  if neqb Ops a b then n0 Ops
  else
    let swap := ngtb Ops a b in
    let a' := if swap then b else a in
    let b' := if swap then a else b in
    let sign := if swap then nneg Ops (n1 Ops) else n1 Ops in
    let c := ((a' + b') / #2)%num in
    let h := (b' - a')%num in
    let fa := f a' in let fb := f b' in let fc := f c in
    let S := ((h / #6) * (fa + #4 * fc + fb))%num in
    (sign * asr depth f a' b' (nabs Ops epsilon) S fa fb fc)%num.

(** ** GammaQint(x,a): Q(x,a) by quadrature of the density around its peak, panel by panel *)
(* for(double t1 = tMin; t1 < x; t1 += panel_width) gammaP += Integrate(integrand, t1, std::min(x, t1 + panel_width), 1e-8);
   at most 20 sqrt(a) / sqrt(a) (+1) panels; fuel 64 *)
Fixpoint panel_loop (fuel : nat) (f : T -> T) (x w t1 acc : T) : res T :=
  if nltb Ops t1 x then
    match fuel with
    | O => Fuel
    | S k =>
        let acc := (acc + integrate f t1 (nmin Ops x (t1 + w)%num) (dec 1 100000000) 20)%num in
        panel_loop k f x w (t1 + w)%num acc
    end
  else Ok acc.

Definition gammaq_int (x a : T) : res T :=
  (let* gln := gammaln a in
   let N := #10 in
   let tPeak := (a - n1 Ops)%num in
   let tMin := nmax Ops (n0 Ops) (tPeak - N * nsqrt Ops a)%num in
   let tMax := (tPeak + N * nsqrt Ops a)%num in
   let* gammaP :=
     if ngtb Ops x tMax then Ok (n1 Ops)
     else if nltb Ops x tMin then Ok (n0 Ops)
     else
       let integrand := fun t => nexp Ops (nneg Ops gln - t + nln Ops t * (a - n1 Ops))%num in
       let tMin := if nltb Ops x tMin then n0 Ops else tMin in
       let panel_width := nsqrt Ops a in
       panel_loop 64 integrand x panel_width tMin (n0 Ops) in
   (* gammaP = std::min(1.0, std::max(0.0, gammaP)) *)
   let gammaP := nmin Ops (n1 Ops) (nmax Ops (n0 Ops) gammaP) in
   Ok (n1 Ops - gammaP)%num)%res.

(** std::numeric_limits<double>::epsilon() = 2^-52 and min()/epsilon() = 2^-970 *)
Definition dbl_eps : T := lit 1 pow2_52 1 (-52).
Definition dbl_fpmin : T := lit 1 pow2_970 1 (-970).

(** ** GammaPser(x,a): series for P(x,a).  State (ap, del, sum). *)
Fixpoint gser_loop (fuel : nat) (x ap del sum : T) : res (T * T * T) :=
  if ngtb Ops (nabs Ops del) (nabs Ops sum * dbl_eps)%num then
    match fuel with
    | O => Fuel
    | S f =>
        let ap := (ap + n1 Ops)%num in
        let del := (del * (x / ap))%num in
        let sum := (sum + del)%num in
        gser_loop f x ap del sum
    end
  else Ok (ap, del, sum).

Definition gammap_ser (x a : T) : res T :=
  (let* gln := gammaln a in
   let del := (n1 Ops / a)%num in
   let* st := gser_loop loop_fuel x a del del in
   let sum := snd st in
   Ok (sum * nexp Ops (nneg Ops x + a * nln Ops x - gln))%num)%res.

(** ** GammaQcf(x,a): modified Lentz evaluation of the continued fraction for Q(x,a).
    State: (i, b, c, d, h, del); the index i is advanced at the end of the loop body. *)
Record lentz := mkLentz { lz_i : Z; lz_b : T; lz_c : T; lz_d : T; lz_h : T; lz_del : T }.

Definition lentz_body (a : T) (s : lentz) : lentz :=
  let i := lz_i s in
  let an := (nneg Ops (n1 Ops) * #i * (#i - a))%num in
  let b := (lz_b s + #2)%num in
  let d := (an * lz_d s + b)%num in
  let d := if nltb Ops (nabs Ops d) dbl_fpmin then dbl_fpmin else d in
  let c := (b + an / lz_c s)%num in
  let c := if nltb Ops (nabs Ops c) dbl_fpmin then dbl_fpmin else c in
  let d := (n1 Ops / d)%num in
  let del := (d * c)%num in
  let h := (lz_h s * del)%num in
  mkLentz (i + 1) b c d h del.

Fixpoint lentz_loop (fuel : nat) (a : T) (s : lentz) : res lentz :=
  if ngtb Ops (nabs Ops (lz_del s - n1 Ops)%num) dbl_eps then
    match fuel with
    | O => Fuel
    | S f => lentz_loop f a (lentz_body a s)
    end
  else Ok s.

Definition lentz_init (x a : T) : lentz :=
  let b := (x + n1 Ops - a)%num in
  let d := (n1 Ops / b)%num in
  mkLentz 1 b (n1 Ops / dbl_fpmin)%num d d (n0 Ops).

Definition gammaq_cf (x a : T) : res T :=
  (let* gln := gammaln a in
   let* s := lentz_loop loop_fuel a (lentz_init x a) in
   Ok (nexp Ops (nneg Ops x + a * nln Ops x - gln) * lz_h s)%num)%res.

(** ** GammaQ, GammaP: selection of the method *)
Definition gammaq (x a : T) : res T :=
  let aMax := #100 in
  if nltb Ops x (n0 Ops) || nleb Ops a (n0 Ops) then Exit
  else if neqb Ops x (n0 Ops) then Ok (n1 Ops)
  else if ngtb Ops a aMax then gammaq_int x a
  else if nltb Ops x (a + n1 Ops)%num then rmap (fun p => (n1 Ops - p)%num) (gammap_ser x a)
  else gammaq_cf x a.

Definition gammap (x a : T) : res T := rmap (fun q => (n1 Ops - q)%num) (gammaq x a).

(* Gamma(s) * GammaQ(x,s): the two calls are unsequenced in C++; both outcomes are exits when either exits *)
Definition upper_incomplete_gamma (x s : T) : res T :=
  (let* g := gamma s in let* q := gammaq x s in Ok (g * q)%num)%res.
Definition lower_incomplete_gamma (x s : T) : res T :=
  (let* g := gamma s in let* p := gammap x s in Ok (g * p)%num)%res.

(** ** Binomial_Coefficient(int n, int k); uses (and extends) the factorial table *)
Definition binomial_step (tbl : list T) (n k : Z) : list T * res T :=
  if (k <? 0) || (n <? 0) then (tbl, Exit)
  else if n <? k then (tbl, Ok (n0 Ops))
  else if n >? 170 then
    (tbl,
     (let* g1 := gammaln (#n + n1 Ops)%num in
      let* g2 := gammaln (#k + n1 Ops)%num in
      let* g3 := gammaln (#(n - k) + n1 Ops)%num in
      Ok (nfloor Ops (dec 1 2 + nexp Ops (g1 - g2 - g3))%num))%res)
  else
    let '(t1, f1) := factorial_step tbl n in
    let '(t2, f2) := factorial_step t1 k in
    let '(t3, f3) := factorial_step t2 (n - k) in
    (t3,
     (let* f1 := f1 in let* f2 := f2 in let* f3 := f3 in
      Ok (nfloor Ops (dec 1 2 + f1 / f2 / f3)%num))%res).

Definition binomial (n k : Z) : res T := snd (binomial_step fact_init n k).

(** ** Inv_GammaP(p,a): solves P(x,a) = p by Halley's method (12 steps) from one of two initial guesses *)
Section Halley.
Variables (p a gln a1 lna1 afac : T).
Fixpoint halley (n : nat) (x : T) : res T :=
  match n with
  | O => Ok x
  | S k =>
      if nleb Ops x (n0 Ops) then Ok (n0 Ops)
      else
        (let* gp := gammap x a in
         let error := (gp - p)%num in
         let t :=
           if ngtb Ops a (n1 Ops)
           then (afac * nexp Ops (nneg Ops (x - a1) + a1 * (nln Ops x - lna1)))%num
           else nexp Ops (nneg Ops x + a1 * nln Ops x - gln)%num in
         let u := (error / t)%num in
         let t := (u / (n1 Ops - dec 1 2 * nmin Ops (n1 Ops) (u * ((a - n1 Ops) / x - #1))))%num in
         let x := (x - t)%num in
         let x := if nleb Ops x (n0 Ops) then (dec 1 2 * (x + t))%num else x in
         if nltb Ops (nabs Ops t) (dec 1 100000000 * x)%num then Ok x
         else halley k x)%res
  end.
End Halley.

Definition inv_gammap (p a : T) : res T :=
  if nleb Ops a (n0 Ops) then Exit
  else if ngeb Ops p (n1 Ops) then Ok (nmax Ops #100 (a + #100 * nsqrt Ops a)%num)
  else if nleb Ops p (n0 Ops) then Ok (n0 Ops)
  else
    (let* gln := gammaln a in
     let a1 := (a - n1 Ops)%num in
     let lna1 := nln Ops a1 in
     let afac := nexp Ops (a1 * (lna1 - n1 Ops) - gln)%num in
     let x0 :=
       if ngtb Ops a (n1 Ops) then
         let pp := if nltb Ops p (dec 1 2) then p else (n1 Ops - p)%num in
         let t := nsqrt Ops (nneg Ops #2 * nln Ops pp)%num in
         let x := ((dec 230753 100000 + t * dec 27061 100000)
                   / (n1 Ops + t * (dec 99229 100000 + t * dec 4481 100000)) - t)%num in
         let x := if nltb Ops p (dec 1 2) then nneg Ops x else x in
         nmax Ops (dec 1 1000)
              (a * npowi Ops (n1 Ops - n1 Ops / (#9 * a) - x / (#3 * nsqrt Ops a))%num 3)%num
       else
         let t := (n1 Ops - a * (dec 253 1000 + a * dec 12 100))%num in
         if nltb Ops p t then npow Ops (p / t)%num (n1 Ops / a)%num
         else (n1 Ops - nln Ops (n1 Ops - (p - t) / (n1 Ops - t)))%num in
     halley p a gln a1 lna1 afac 12 x0)%res.

Definition inv_gammaq (q a : T) : res T := inv_gammap (n1 Ops - q)%num a.

(** ** Histories of calls to the whole family in one process.
    The only state a call can leave behind in Special_Functions.cpp is the factorial table (FactorialList):
    GammaLn, Gamma, GammaP/Q, Upper/Lower and Inv_GammaP/Q have no statics, members or caches.  A call is therefore a step
    on the table; all but Factorial and Binomial_Coefficient leave it alone. *)
Inductive call : Type :=
| CGammaLn (x : T) | CGamma (x : T)
| CGammaQ (x a : T) | CGammaP (x a : T) | CUpper (x a : T) | CLower (x a : T)
| CInvP (p a : T) | CInvQ (q a : T)
| CFact (n : Z) | CBinom (n k : Z).

Definition call_step (tbl : list T) (c : call) : list T * res T :=
  match c with
  | CGammaLn x => (tbl, gammaln x)
  | CGamma x => (tbl, gamma x)
  | CGammaQ x a => (tbl, gammaq x a)
  | CGammaP x a => (tbl, gammap x a)
  | CUpper x a => (tbl, upper_incomplete_gamma x a)
  | CLower x a => (tbl, lower_incomplete_gamma x a)
  | CInvP p a => (tbl, inv_gammap p a)
  | CInvQ q a => (tbl, inv_gammaq q a)
  | CFact n => factorial_step tbl n
  | CBinom n k => binomial_step tbl n k
  end.

(* the answer of a process that has run nothing before: FactorialList = {1.0} *)
Definition call_fresh (c : call) : res T := snd (call_step fact_init c).

(* a history: the table is threaded through; next to the answer each call gets in the history stands the answer
   a fresh process gives to the same call (the harness asks for both) *)
Fixpoint call_run (tbl : list T) (cs : list call) : list T * list (res T * res T) :=
  match cs with
  | [] => (tbl, [])
  | c :: r => let '(t1, o) := call_step tbl c in
              let '(t2, os) := call_run t1 r in (t2, (o, call_fresh c) :: os)
  end.

End Model.
