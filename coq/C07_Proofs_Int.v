(** C07, sixth pass: the discrete "CDF difference over any interval = sum of the masses over it" at the level of the model
    functions (binomial, Poisson; any interval length), the complete acceptance condition of Perform_KDE's table, the
    specification of the sort it uses, and the invariance of the binned likelihoods under any re-ordering of the bins. *)
From Coq Require Import Reals ZArith List Bool Lra Lia Psatz Permutation Sorted.
From Coquelicot Require Import Coquelicot.
From LP Require Import Num NumR C07_Model C07_Proofs_Cont C07_Proofs_Disc C07_Proofs_Chi C07_Proofs_Kde C07_Proofs_Coh.
Import ListNotations.
Local Open Scope R_scope.

(** ** sums over an interval of counts *)
Lemma sum_interval (f : nat -> R) n d :
  sum_f_R0 f (n + S d) - sum_f_R0 f n = sum_f_R0 (fun i => f (S n + i)%nat) d.
Proof.
  induction d as [|d IH].
  - replace (n + 1)%nat with (S n) by lia. cbn [sum_f_R0]. replace (S n + 0)%nat with (S n) by lia. ring.
  - replace (n + S (S d))%nat with (S (n + S d)) by lia. cbn [sum_f_R0].
    replace (S (n + S d)) with (S n + S d)%nat by lia. lra.
Qed.

Section BinomialInterval.
Variable binom : Z -> Z -> res R.
Hypothesis Hb : forall n k : nat,
  binom (Z.of_nat n) (Z.of_nat k) = Ok (if (n <? k)%nat then 0 else Binomial.C n k).

(* CDF_Binomial(k + d + 1) - CDF_Binomial(k) = sum of PMF_Binomial over k+1 .. k+d+1 *)
Lemma cdf_binomial_interval (n : nat) p (k d : nat) : 0 <= p <= 1 -> (Z.of_nat n < 4294967296)%Z ->
  val (cdf_binomial ROps binom (Z.of_nat n) p (Z.of_nat (k + S d))) - val (cdf_binomial ROps binom (Z.of_nat n) p (Z.of_nat k))
  = sum_f_R0 (fun i => val (pmf_binomial ROps binom (Z.of_nat n) p (Z.of_nat (S k + i)))) d.
Proof.
  intros Hp Hn. rewrite !(cdf_binomial_val binom Hb) by auto. cbn [val].
  rewrite sum_interval. apply sum_eq. intros i _. rewrite (pmf_binomial_val binom Hb) by auto. reflexivity.
Qed.

Lemma cdf_binomial_mono_steps (n : nat) p (k d : nat) : 0 <= p <= 1 -> (Z.of_nat n < 4294967296)%Z ->
  val (cdf_binomial ROps binom (Z.of_nat n) p (Z.of_nat k)) <= val (cdf_binomial ROps binom (Z.of_nat n) p (Z.of_nat (k + d))).
Proof.
  intros Hp Hn. destruct d as [|d]; [rewrite Nat.add_0_r; lra|].
  pose proof (cdf_binomial_interval n p k d Hp Hn) as E.
  assert (0 <= sum_f_R0 (fun i => val (pmf_binomial ROps binom (Z.of_nat n) p (Z.of_nat (S k + i)))) d).
  { apply cond_pos_sum. intros i. rewrite (pmf_binomial_val binom Hb) by auto. cbn [val]. apply pmfv_nonneg; auto. }
  lra.
Qed.

Lemma cdf_binomial_top (n : nat) p (k : nat) : 0 <= p <= 1 -> (Z.of_nat n < 4294967296)%Z -> (n <= k)%nat ->
  cdf_binomial ROps binom (Z.of_nat n) p (Z.of_nat k) = Ok 1.
Proof.
  intros Hp Hn Hk. rewrite (cdf_binomial_val binom Hb) by auto. f_equal.
  replace k with (n + (k - n))%nat by lia. apply pmfv_sum_beyond.
Qed.

Lemma cdf_binomial_range (n : nat) p (k : nat) : 0 <= p <= 1 -> (Z.of_nat n < 4294967296)%Z ->
  0 <= val (cdf_binomial ROps binom (Z.of_nat n) p (Z.of_nat k)) <= 1.
Proof. intros Hp Hn. rewrite (cdf_binomial_val binom Hb) by auto. cbn [val]. apply pmfv_sum_range; auto. Qed.
End BinomialInterval.

(** the success/failure reflection: PMF(n, p, k) = PMF(n, 1-p, n-k) *)
Lemma pmfv_reflect (n : nat) p (k : nat) : (k <= n)%nat -> pmfv n p k = pmfv n (1 - p) (n - k).
Proof.
  intros Hk. unfold pmfv. destruct (Nat.ltb_spec n k); [lia|]. destruct (Nat.ltb_spec n (n - k)); [lia|].
  rewrite <- (Binomial.pascal_step1 n k) by lia. replace (n - (n - k))%nat with k by lia.
  replace (1 - (1 - p)) with p by ring. ring.
Qed.

(** ** Poisson *)
Lemma pmf_poisson_val0 mu (j : nat) : 0 <= mu -> pmf_poisson ROps mu (Z.of_nat (S j)) = Ok (poisv mu (S j)).
Proof.
  intros [H|<-]; [apply pmf_poisson_val; auto|].
  rewrite (proj1 (proj2 pmf_poisson_conventions)) by lia. f_equal. unfold poisv. cbn [pow]. unfold Rdiv. ring.
Qed.

Lemma cdf_poisson_interval gammaQ mu (k d : nat) : 0 <= mu -> (Z.of_nat (k + S d) + 1 < 4294967296)%Z ->
  (forall n : nat, (n <= k + S d)%nat -> gammaQ mu (INR (S n)) = Ok (1 - RInt (fun t => exp (- t) * t ^ n / INR (fact n)) 0 mu)) ->
  val (cdf_poisson ROps gammaQ mu (Z.of_nat (k + S d))) - val (cdf_poisson ROps gammaQ mu (Z.of_nat k))
  = sum_f_R0 (fun i => val (pmf_poisson ROps mu (Z.of_nat (S k + i)))) d /\
  val (cdf_poisson ROps gammaQ mu (Z.of_nat k)) <= val (cdf_poisson ROps gammaQ mu (Z.of_nat (k + S d))).
Proof.
  intros Hmu Hn HQ.
  assert (E : val (cdf_poisson ROps gammaQ mu (Z.of_nat (k + S d))) - val (cdf_poisson ROps gammaQ mu (Z.of_nat k))
              = sum_f_R0 (fun i => val (pmf_poisson ROps mu (Z.of_nat (S k + i)))) d).
  { rewrite !(cdf_poisson_is_sum gammaQ) by (auto; try lia; apply HQ; lia). cbn [val].
    rewrite sum_interval. apply sum_eq. intros i _. change (S k + i)%nat with (S (k + i)). rewrite pmf_poisson_val0 by auto. reflexivity. }
  split; [exact E|].
  assert (0 <= sum_f_R0 (fun i => val (pmf_poisson ROps mu (Z.of_nat (S k + i)))) d).
  { apply cond_pos_sum. intros i. change (S k + i)%nat with (S (k + i)). rewrite pmf_poisson_val0 by auto. cbn [val]. apply poisv_nonneg; auto. }
  lra.
Qed.

(** ** binned likelihoods: any re-ordering of the bins *)
Lemma sum_perm {A} (g : A -> R) l l' : Permutation l l' -> fold_right Rplus 0 (map g l) = fold_right Rplus 0 (map g l').
Proof. intros H; induction H; cbn [map fold_right]; lra. Qed.

Lemma binned_permutation p o b p' o' b' : sizes_ok p o b -> sizes_ok p' o' b' ->
  Permutation (bins p o b) (bins p' o' b') ->
  log_likelihood_poisson_binned ROps p o b = log_likelihood_poisson_binned ROps p' o' b' /\
  likelihood_poisson_binned ROps p o b = likelihood_poisson_binned ROps p' o' b'.
Proof.
  intros H H' HP.
  assert (E : log_likelihood_poisson_binned ROps p o b = log_likelihood_poisson_binned ROps p' o' b').
  { rewrite !binned_log_is_sum by auto. f_equal. apply sum_perm; auto. }
  split; [exact E|]. unfold likelihood_poisson_binned. rewrite E. reflexivity.
Qed.

Example binned_permutation_ex :
  sizes_ok [1; 2; 3] [0%Z; 3%Z; 1%Z] [0; 1; 2] /\ sizes_ok [3; 1; 2] [1%Z; 0%Z; 3%Z] [2; 0; 1] /\
  Permutation (bins [1; 2; 3] [0%Z; 3%Z; 1%Z] [0; 1; 2]) (bins [3; 1; 2] [1%Z; 0%Z; 3%Z] [2; 0; 1]).
Proof.
  repeat split; cbn; auto. unfold bins; cbn.
  apply Permutation_sym. apply (Permutation_cons_app [(1, 0%Z, 0); (2, 3%Z, 1)] []). cbn. apply Permutation_refl.
Qed.

(** ** the sort Perform_KDE relies on (model of std::sort: insertion by value): ascending permutation of the sample *)
Definition le_value (a b : R * R) : Prop := fst a <= fst b.

Lemma insert_dp_perm d l : Permutation (insert_dp ROps d l) (d :: l).
Proof.
  induction l as [|a r IH]; cbn [insert_dp]; [apply Permutation_refl|].
  cbn [nltb ROps]. destruct (Rltb _ _); [apply Permutation_refl|].
  eapply perm_trans; [apply perm_skip; exact IH|apply perm_swap].
Qed.
Lemma sort_dp_perm l : Permutation (sort_dp ROps l) l.
Proof.
  induction l as [|a r IH]; [apply perm_nil|]. unfold sort_dp in *. cbn [fold_right].
  eapply perm_trans; [apply insert_dp_perm|apply perm_skip; exact IH].
Qed.
Lemma insert_dp_sorted d l : StronglySorted le_value l -> StronglySorted le_value (insert_dp ROps d l).
Proof.
  intros H; induction H as [|a r Hr IH Ha]; cbn [insert_dp]; [repeat constructor|].
  cbn [nltb ROps]. destruct (Rltb_spec (fst d) (fst a)) as [L|L].
  - constructor; [constructor; auto|]. constructor; [unfold le_value; lra|].
    eapply Forall_impl; [|exact Ha]. unfold le_value; intros; lra.
  - constructor; [exact IH|]. apply insert_dp_Forall; [unfold le_value; lra|exact Ha].
Qed.
Lemma sort_dp_sorted l : StronglySorted le_value (sort_dp ROps l).
Proof. induction l as [|a r IH]; [constructor|]. unfold sort_dp in *. cbn [fold_right]. apply insert_dp_sorted; auto. Qed.

Lemma wsum_perm l l' : Permutation l l' -> forall a, wsum_of l a = wsum_of l' a.
Proof.
  unfold wsum_of. intros H; induction H; intros acc; cbn [fold_left]; auto.
  - f_equal. ring.
  - rewrite IHPermutation1; auto.
Qed.

(** ** the complete acceptance condition of Perform_KDE's table *)
Lemma kde_inner_returns data npseudo x xmin bw :
  (forall j, 0 <= j < npseudo -> 3 * j < Z.of_nat (length data))%Z ->
  forall rest i kde, (0 <= i)%Z -> exists v, kde_inner ROps PI data rest i npseudo x xmin bw kde = Ok v.
Proof.
  intros Hps rest; induction rest as [|d r IH]; intros i kde Hi; cbn [kde_inner].
  - exists kde; auto.
  - destruct (Z.ltb_spec i npseudo) as [Hlt|Hge].
    + specialize (Hps i ltac:(lia)).
      destruct (getZ_ok data (2 * i)) as [d2 [E2 _]]; [lia|].
      destruct (getZ_ok data (3 * i)) as [d3 [E3 _]]; [lia|].
      rewrite E2, E3. cbn [rbind]. apply IH; lia.
    + apply IH; lia.
Qed.

Lemma kde_table_returns data npseudo xmin dx bw wsum :
  (forall j, 0 <= j < npseudo -> 3 * j < Z.of_nat (length data))%Z ->
  forall n j, exists t, kde_table ROps PI data npseudo xmin dx bw wsum j n = Ok t.
Proof.
  intros Hps n; induction n as [|n IH]; intros j; cbn [kde_table]; [eexists; reflexivity|].
  destruct (kde_inner_returns data npseudo (nadd ROps xmin (nmul ROps (nofZ ROps j) dx)) xmin bw Hps data 0%Z (n0 ROps)) as [v E]; [lia|].
  rewrite E. cbn [rbind]. destruct (IH (j + 1)%Z) as [t Et]. rewrite Et. cbn [rbind]. eexists; reflexivity.
Qed.

Lemma strictly_increasing_true t :
  (forall k, (S k < length t)%nat -> fst (nth k t dflt) < fst (nth (S k) t dflt)) -> strictly_increasing ROps t = true.
Proof.
  induction t as [|a r IH]; intros H; [reflexivity|].
  cbn [strictly_increasing]. destruct r as [|b r']; [reflexivity|].
  cbn [nleb ROps]. destruct (Rleb_spec (fst b) (fst a)) as [L|L].
  - specialize (H 0%nat ltac:(cbn; lia)). cbn in H. lra.
  - apply IH. intros k Hk. apply (H (S k)). cbn in *. lia.
Qed.

Lemma strictly_increasing_false t : forall k, (S k < length t)%nat ->
  fst (nth (S k) t dflt) <= fst (nth k t dflt) -> strictly_increasing ROps t = false.
Proof.
  induction t as [|a r IH]; intros k Hk H; [cbn in Hk; lia|].
  cbn [strictly_increasing]. destruct r as [|b r']; [cbn in Hk; lia|].
  cbn [nleb ROps]. destruct (Rleb_spec (fst b) (fst a)) as [L|L]; [reflexivity|].
  destruct k as [|k]; [cbn in H; lra|].
  apply (IH k); [cbn in *; lia|exact H].
Qed.

Lemma perform_kde_accepts data xmin xmax bw :
  (xmin < xmax -> exists t, perform_kde ROps PI data xmin xmax bw = Ok t /\ length t = 150%nat) /\
  (xmax <= xmin -> perform_kde ROps PI data xmin xmax bw = Exit).
Proof.
  unfold perform_kde.
  set (wsum := fold_left _ data _). set (h := kde_bandwidth ROps data wsum bw).
  set (np := ntrunc ROps _). set (dx := ndiv ROps _ _).
  destruct (kde_table_returns (sort_dp ROps data) np xmin dx h wsum) with (n := Z.to_nat kde_points) (j := 0%Z) as [t Et].
  { intros j Hj. rewrite sort_dp_length. apply trunc_third; auto. }
  rewrite Et. cbn [rbind].
  destruct (kde_table_mixture _ _ _ _ _ _ _ _ _ Et) as [Lt Nt].
  change (Z.to_nat kde_points) with 150%nat in *.
  assert (Edx : dx = (xmax - xmin) / 149) by reflexivity.
  split; intros Hx.
  - rewrite strictly_increasing_true; [eauto|].
    intros k Hk. rewrite !Nt by lia. cbn [fst]. rewrite Edx, Z.add_0_l, Z.add_0_l, Nat2Z.inj_succ, succ_IZR.
    assert (0 < (xmax - xmin) / 149) by (apply Rdiv_lt_0_compat; lra). nra.
  - rewrite (strictly_increasing_false t 0%nat); [reflexivity|lia|].
    rewrite !Nt by lia. cbn [fst]. rewrite Edx. cbn [Z.add Z.of_nat Pos.of_succ_nat].
    assert ((xmax - xmin) / 149 <= 0) by (unfold Rdiv; nra). lra.
Qed.

(** ** binomial: the CDF under exchanging success and failure *)
Lemma sum_reverse (f : nat -> R) N : sum_f_R0 f N = sum_f_R0 (fun i => f (N - i)%nat) N.
Proof.
  revert f; induction N as [|N IH]; intros f; [reflexivity|].
  rewrite decomp_sum by lia. cbn [pred]. rewrite (IH (fun i => f (S i))).
  rewrite tech5. replace (S N - S N)%nat with 0%nat by lia.
  rewrite (sum_eq (fun i => f (S N - i)%nat) (fun i => f (S (N - i)))).
  - ring.
  - intros i Hi. f_equal. lia.
Qed.

Lemma pmfv_cdf_reflect (n : nat) p (x : nat) : (x < n)%nat ->
  sum_f_R0 (pmfv n p) x + sum_f_R0 (pmfv n (1 - p)) (n - x - 1) = 1.
Proof.
  intros Hx. set (m := (n - x - 1)%nat). assert (En : n = (x + S m)%nat) by (unfold m; lia).
  pose proof (pmfv_sum_n n p) as T. rewrite En in T at 2.
  pose proof (sum_interval (pmfv n p) x m) as I.
  rewrite (sum_reverse (pmfv n (1 - p)) m).
  rewrite (sum_eq (fun i => pmfv n (1 - p) (m - i)) (fun i => pmfv n p (S x + i))).
  - lra.
  - intros i Hi. rewrite (pmfv_reflect n p (S x + i)) by lia. f_equal. lia.
Qed.

(** ** chi-square: the CDF is non-decreasing on the whole line and stays in [0,1] *)
Section Chi2Monotone.
Variables (gammaLn : R -> res R) (gammaP : R -> R -> res R) (P : R -> R -> R) (dof G : R).
Hypothesis Hd : 1 / 1000000 <= dof.
Hypothesis HG : 0 < G.
Hypothesis HP : forall t a, gammaP t a = Ok (P t a).
Hypothesis HL : gammaLn (dof / 2) = Ok (ln G).
Hypothesis HD : forall t, 0 < t -> is_derive (fun t => P t (dof / 2)) t (Rpower t (dof / 2 - 1) * exp (- t) / G).
Hypothesis H0 : P 0 (dof / 2) = 0.
Hypothesis HR : forall t, 0 <= t -> 0 <= P t (dof / 2) <= 1.
Let cdf x := val (cdf_chi_square ROps gammaP x dof).

Lemma chi2_cdf_at x : (x < 0 -> cdf x = 0) /\ (0 <= x -> cdf x = P (x / 2) (dof / 2)).
Proof.
  unfold cdf. destruct (chi2_cdf_cases gammaP x dof) as [A [_ C]]. split; intros Hx.
  - rewrite A by auto. reflexivity.
  - rewrite C, HP; auto. rewrite Rabs_pos_eq; lra.
Qed.

Lemma chi2_cdf_range x : 0 <= cdf x <= 1.
Proof.
  destruct (Rlt_le_dec x 0) as [Hx|Hx].
  - rewrite (proj1 (chi2_cdf_at x)) by auto. lra.
  - rewrite (proj2 (chi2_cdf_at x)) by auto. apply HR. lra.
Qed.

Lemma chi2_cdf_monotone x y : x <= y -> cdf x <= cdf y.
Proof.
  intros Hxy. destruct (Rlt_le_dec x 0) as [Hx|Hx].
  - rewrite (proj1 (chi2_cdf_at x)) by auto. apply chi2_cdf_range.
  - destruct Hx as [Hx|<-].
    + pose proof (chi2_is_RInt gammaLn gammaP P dof G x y Hx Hxy Hd HG HP HL HD) as I. fold (cdf y) (cdf x) in I.
      assert (0 <= cdf y - cdf x); [|lra].
      apply (is_RInt_le (fun _ => 0) (fun t => val (pdf_chi_square ROps gammaLn t dof)) x y 0 (cdf y - cdf x) Hxy (is_RInt_zero x y) I).
      intros t _. destruct (pdf_chi_square ROps gammaLn t dof) as [v| | |] eqn:E; cbn [val]; try lra.
      eapply chi2_pdf_nonneg; eauto.
    + rewrite (proj2 (chi2_cdf_at 0)) by lra. replace (0 / 2) with 0 by field. rewrite H0. apply chi2_cdf_range.
Qed.

Lemma chi2_cdf_low x : x <= 0 -> cdf x = 0.
Proof.
  intros [Hx|Hx]; [apply (proj1 (chi2_cdf_at x)); auto|subst x].
  rewrite (proj2 (chi2_cdf_at 0)) by lra. replace (0 / 2) with 0 by field. exact H0.
Qed.

Lemma chi2_cdf_limit : is_lim (fun t => P t (dof / 2)) p_infty 1 -> is_lim cdf p_infty 1.
Proof.
  intros HLim.
  apply (is_lim_ext_loc (fun x => P (x / 2) (dof / 2))).
  { exists 0. intros x Hx. symmetry. apply (proj2 (chi2_cdf_at x)). lra. }
  apply (is_lim_comp (fun t => P t (dof / 2)) (fun x => x / 2) p_infty 1 p_infty); auto.
  - replace p_infty with (Rbar_mult p_infty (/ 2)) at 2.
    + apply (is_lim_ext (fun x => x * / 2)); [intros; reflexivity|]. apply is_lim_scal_r. apply is_lim_id.
    + cbn. destruct (Rle_dec 0 (/ 2)) as [H|H]; [|exfalso; lra]. destruct (Rle_lt_or_eq_dec _ _ H); [reflexivity|lra].
  - exists 0. intros x Hx. discriminate.
Qed.
End Chi2Monotone.

(** ** KDE: a common offset of sample and window moves the accepted table by that offset and leaves the ordinates unchanged *)
Definition shift1 (c : R) (d : R * R) : R * R := (fst d + c, snd d).

Lemma insert_dp_shift c d l : insert_dp ROps (shift1 c d) (shift c l) = shift c (insert_dp ROps d l).
Proof.
  induction l as [|a r IH]; [reflexivity|].
  cbn [shift map insert_dp]. fold (shift c r). cbn [nltb ROps fst shift1].
  destruct (Rltb_spec (fst d + c) (fst a + c)), (Rltb_spec (fst d) (fst a)); try lra.
  - reflexivity.
  - cbn [shift map]. fold (shift c (insert_dp ROps d r)). f_equal. exact IH.
Qed.

Lemma sort_dp_shift c l : sort_dp ROps (shift c l) = shift c (sort_dp ROps l).
Proof.
  induction l as [|a r IH]; [reflexivity|]. unfold sort_dp in *. cbn [shift map fold_right]. fold (shift c r).
  rewrite IH. apply (insert_dp_shift c a).
Qed.

Lemma nth_shift c data k : (k < length data)%nat -> nth k (shift c data) dflt = shift1 c (nth k data dflt).
Proof.
  intros H. unfold shift. rewrite (nth_indep _ dflt (shift1 c dflt)) by (rewrite map_length; exact H).
  apply (map_nth (shift1 c)).
Qed.

Lemma kde_ext_shift c data npseudo xmin :
  (forall j, 0 <= j < npseudo -> 3 * j < Z.of_nat (length data))%Z ->
  forall rest i, (0 <= i)%Z ->
  kde_ext (shift c data) (shift c rest) i npseudo (xmin + c) = shift c (kde_ext data rest i npseudo xmin).
Proof.
  intros Hps rest; induction rest as [|d r IH]; intros i Hi; [reflexivity|].
  cbn [shift map kde_ext]. fold (shift c r). fold (shift c data).
  destruct (Z.ltb_spec i npseudo) as [Hlt|Hge].
  - specialize (Hps i ltac:(lia)).
    rewrite !nth_shift by lia. rewrite IH by lia. cbn [shift map fst snd shift1]. fold (shift c (kde_ext data r (i + 1) npseudo xmin)).
    f_equal. f_equal. f_equal. ring.
  - rewrite IH by lia. reflexivity.
Qed.

Lemma ksum_shift c ext x h : ksum (shift c ext) (x + c) h = ksum ext x h.
Proof.
  induction ext as [|e r IH]; [reflexivity|].
  cbn [shift map ksum fold_right fst snd]. fold (shift c r). fold (ksum (shift c r) (x + c) h). fold (ksum r x h).
  rewrite IH. replace (x + c - (fst e + c)) with (x - fst e) by ring. reflexivity.
Qed.

Lemma kde_bandwidth_shift_any c data bw : wsum_of data 0 <> 0 ->
  kde_bandwidth ROps (shift c data) (wsum_of data 0) bw = kde_bandwidth ROps data (wsum_of data 0) bw.
Proof.
  intros Hw. destruct (Req_dec bw 0) as [->|Hb]; [apply kde_bandwidth_shift; auto|].
  rewrite !kde_bandwidth_manual by auto. reflexivity.
Qed.

Lemma perform_kde_shift c data xmin xmax bw t t' :
  wsum_of data 0 <> 0 ->
  perform_kde ROps PI data xmin xmax bw = Ok t ->
  perform_kde ROps PI (shift c data) (xmin + c) (xmax + c) bw = Ok t' ->
  forall k, (k < 150)%nat -> nth k t' dflt = (fst (nth k t dflt) + c, snd (nth k t dflt)).
Proof.
  intros Hw H H' k Hk.
  destruct (perform_kde_mixture _ _ _ _ _ H) as [N _]. destruct (perform_kde_mixture _ _ _ _ _ H') as [N' _].
  cbv zeta in N, N'. rewrite N, N' by auto. cbn [fst snd]. clear N N' H H'.
  change (fold_left (fun acc d => acc + snd d) (shift c data) 0) with (wsum_of (shift c data) 0).
  change (fold_left (fun acc d => acc + snd d) data 0) with (wsum_of data 0).
  rewrite wsum_of_shift, kde_bandwidth_shift_any, shift_length, sort_dp_shift by auto.
  rewrite kde_ext_shift; [|intros j Hj; rewrite sort_dp_length; apply trunc_third; exact Hj|lia].
  replace (xmin + c + IZR (Z.of_nat k) * ((xmax + c - (xmin + c)) / 149))
    with (xmin + IZR (Z.of_nat k) * ((xmax - xmin) / 149) + c) by (unfold Rdiv; ring).
  rewrite ksum_shift. reflexivity.
Qed.

(** samples without spread (all values equal, any number of them): the automatic bandwidth is 0 *)
Lemma wsum_of_acc l : forall b, wsum_of l b = b + wsum_of l 0.
Proof.
  unfold wsum_of. induction l as [|e l IHl]; intros b; cbn [fold_left]; [ring|]. rewrite (IHl (b + snd e)), (IHl (0 + snd e)). ring.
Qed.
Lemma wmean_const v data : List.Forall (fun d => fst d = v) data -> forall a, wmean_sum data a = a + v * (wsum_of data 0).
Proof.
  intros H; induction H as [|e r Hd Hr IH]; intros a; [unfold wmean_sum, wsum_of; cbn [fold_left]; ring|].
  change (wmean_sum (e :: r) a) with (wmean_sum r (a + snd e * fst e)).
  change (wsum_of (e :: r) 0) with (wsum_of r (0 + snd e)).
  rewrite IH, Hd, (wsum_of_acc r (0 + snd e)). ring.
Qed.
Lemma wvar_const v data wsum : List.Forall (fun d => fst d = v) data -> forall acc, wvar data wsum v acc = acc.
Proof.
  unfold wvar. intros H; induction H as [|e r Hd Hr IH]; intros acc; cbn [fold_left]; [reflexivity|].
  rewrite IH, Hd. replace (v - v) with 0 by ring. rewrite powerRZ_2_sqr. unfold Rsqr, Rdiv. ring.
Qed.
Lemma kde_bandwidth_no_spread v data : List.Forall (fun d => fst d = v) data -> wsum_of data 0 <> 0 ->
  kde_bandwidth ROps data (wsum_of data 0) 0 = 0.
Proof.
  intros H Hw. rewrite kde_bandwidth_auto, (wmean_const v data H).
  replace ((0 + v * wsum_of data 0) / wsum_of data 0) with v by (field; exact Hw).
  rewrite wvar_const by auto. rewrite sqrt_0. ring.
Qed.

(** ** non-vacuity *)
Example ex_binomial_interval :
  val (cdf_binomial ROps binom_R (Z.of_nat 5) (1 / 3) (Z.of_nat (1 + 3))) - val (cdf_binomial ROps binom_R (Z.of_nat 5) (1 / 3) (Z.of_nat 1))
  = sum_f_R0 (fun i => val (pmf_binomial ROps binom_R (Z.of_nat 5) (1 / 3) (Z.of_nat (2 + i)))) 2.
Proof. apply (cdf_binomial_interval binom_R binom_R_spec 5 (1 / 3) 1 2); [lra|lia]. Qed.

Example ex_perform_kde_accepts : exists t, perform_kde ROps PI [(1 / 4, 1); (3 / 4, -1); (1 / 2, 0); (1 / 3, 2)] 0 1 0 = Ok t.
Proof. destruct (proj1 (perform_kde_accepts [(1 / 4, 1); (3 / 4, -1); (1 / 2, 0); (1 / 3, 2)] 0 1 0)) as [t [E _]]; [lra|eauto]. Qed.

Example ex_chi2_monotone x y : x <= y ->
  let gp := fun (t _ : R) => Ok (1 - exp (- t)) in
  val (cdf_chi_square ROps gp x 2) <= val (cdf_chi_square ROps gp y 2) /\ 0 <= val (cdf_chi_square ROps gp x 2) <= 1.
Proof.
  intros Hxy gp.
  assert (HD : forall t, 0 < t -> is_derive (fun t => (fun t _ : R => 1 - exp (- t)) t (2 / 2)) t (Rpower t (2 / 2 - 1) * exp (- t) / 1)).
  { intros t Ht. auto_derive; auto. replace (2 / 2 - 1) with 0 by field. rewrite Rpower_O by auto. field. }
  assert (H0 : (fun t _ : R => 1 - exp (- t)) 0 (2 / 2) = 0) by (cbv beta; rewrite Ropp_0, exp_0; ring).
  assert (HR : forall t, 0 <= t -> 0 <= (fun t _ : R => 1 - exp (- t)) t (2 / 2) <= 1).
  { intros t Ht. cbv beta. pose proof (exp_pos (- t)). pose proof (exp_le_1 (- t) ltac:(lra)). lra. }
  split.
  - apply (chi2_cdf_monotone (fun _ : R => Ok (ln 1)) gp (fun t _ => 1 - exp (- t)) 2 1); auto; try lra.
  - apply (chi2_cdf_range gp (fun t _ => 1 - exp (- t)) 2); auto; try lra.
Qed.

Example ex_perform_kde_shift : exists t t',
  perform_kde ROps PI [(1 / 4, 1); (3 / 4, 2); (1 / 2, 1)] 0 1 0 = Ok t /\
  perform_kde ROps PI (shift 1000000 [(1 / 4, 1); (3 / 4, 2); (1 / 2, 1)]) (0 + 1000000) (1 + 1000000) 0 = Ok t' /\
  wsum_of [(1 / 4, 1); (3 / 4, 2); (1 / 2, 1)] 0 <> 0.
Proof.
  destruct (proj1 (perform_kde_accepts [(1 / 4, 1); (3 / 4, 2); (1 / 2, 1)] 0 1 0)) as [t [E _]]; [lra|].
  destruct (proj1 (perform_kde_accepts (shift 1000000 [(1 / 4, 1); (3 / 4, 2); (1 / 2, 1)]) (0 + 1000000) (1 + 1000000) 0)) as [t' [E' _]]; [lra|].
  exists t, t'. repeat split; auto. unfold wsum_of; cbn. lra.
Qed.

Example ex_no_spread : kde_bandwidth ROps [(1 / 2, 1)] (wsum_of [(1 / 2, 1)] 0) 0 = 0.
Proof. apply (kde_bandwidth_no_spread (1 / 2)); [repeat constructor|unfold wsum_of; cbn; lra]. Qed.

Example ex_binomial_reflect : sum_f_R0 (pmfv 5 (1 / 3)) 1 + sum_f_R0 (pmfv 5 (1 - 1 / 3)) (5 - 1 - 1) = 1.
Proof. apply pmfv_cdf_reflect. lia. Qed.

Example ex_poisson_interval :
  let gq := fun (mu a : R) => Ok (1 - RInt (fun t => exp (- t) * t ^ (Z.to_nat (Int_part a) - 1) / INR (fact (Z.to_nat (Int_part a) - 1))) 0 mu) in
  forall n : nat, gq 1 (INR (S n)) = Ok (1 - RInt (fun t => exp (- t) * t ^ n / INR (fact n)) 0 1).
Proof.
  intros gq n. unfold gq. rewrite <- IZR_of_nat.
  replace (Int_part (IZR (Z.of_nat (S n)))) with (Z.of_nat (S n)).
  - replace (Z.to_nat (Z.of_nat (S n)) - 1)%nat with n by lia. reflexivity.
  - unfold Int_part. rewrite <- (tech_up (IZR (Z.of_nat (S n))) (Z.of_nat (S n) + 1)); [lia| |]; rewrite plus_IZR; lra.
Qed.
