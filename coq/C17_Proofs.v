(** * C17 proofs, part 1: Sign, StepFunction, Relative_Difference, Floats_Equal (translated functions),
    Dawson_Integral (oddness), Erfi (definition), Inv_Erf (accuracy from the root finder's guarantee). *)
From Coq Require Import Reals ZArith Lra Lia Bool List Psatz.
From Coquelicot Require Import Coquelicot.
From LP Require Import Num NumR OrdLaws Gen_C17_Formulas C17_Model C17_Defs.
Import ListNotations.
Local Open Scope R_scope.

(** ** 1. Sign / Sign(x,y) / StepFunction over an abstract strict total order (no arithmetic law is used:
       the statements hold verbatim for IEEE doubles other than NaN).  The only facts about literals that
       are needed are stated as hypotheses of the section: the literal 0.0 and the converted integer 0
       compare like [n0]. *)
Section Order.
Context {T : Type} (Ops : NumOps T) (L : OrdLaws Ops).
Let zero := nlit Ops 0 1 0 0.

Lemma lt_irrefl x : nltb Ops x x = false.  Proof. apply (ol_irrefl Ops L). Qed.
Lemma lt_asym x y : nltb Ops x y = true -> nltb Ops y x = false.
Proof.
  intros H. destruct (nltb Ops y x) eqn:E; auto.
  pose proof (ol_trans Ops L _ _ _ H E) as K. rewrite lt_irrefl in K. discriminate.
Qed.
Lemma eq_not_lt x y : neqb Ops x y = true -> nltb Ops x y = false /\ nltb Ops y x = false.
Proof. apply (ol_eq Ops L). Qed.

(** Sign(arg) is 1, 0 or -1, and each value is characterised by the order relation of arg and 0.0 *)
Lemma gen_sign_cases x :
  (g_Sign Ops x = 1%Z /\ nltb Ops zero x = true) \/
  (g_Sign Ops x = 0%Z /\ neqb Ops x zero = true) \/
  (g_Sign Ops x = (-1)%Z /\ nltb Ops x zero = true).
Proof.
  unfold g_Sign. fold zero.
  destruct (nltb Ops zero x) eqn:E1; [left; auto|].
  destruct (neqb Ops x zero) eqn:E2; [right; left; auto|].
  right; right. split; [reflexivity|].
  destruct (ol_total Ops L x zero) as [H|[H|H]]; congruence.
Qed.

Lemma gen_sign_pos x : nltb Ops zero x = true -> g_Sign Ops x = 1%Z.
Proof. unfold g_Sign; fold zero; intros ->; reflexivity. Qed.
Lemma gen_sign_zero x : neqb Ops x zero = true -> g_Sign Ops x = 0%Z.
Proof.
  intros H. unfold g_Sign; fold zero. destruct (eq_not_lt _ _ H) as [_ H2]. rewrite H2, H. reflexivity.
Qed.
Lemma gen_sign_neg x : nltb Ops x zero = true -> g_Sign Ops x = (-1)%Z.
Proof.
  intros H. unfold g_Sign; fold zero. rewrite (lt_asym _ _ H).
  destruct (neqb Ops x zero) eqn:E; [|reflexivity].
  destruct (eq_not_lt _ _ E) as [H1 _]. congruence.
Qed.

(** the translated Sign agrees with the hand-written [sign1] of Num.v used by the hand models,
    as soon as the literal 0.0 compares like [n0] *)
Lemma gen_sign_is_sign1 x :
  (forall y, nltb Ops zero y = nltb Ops (n0 Ops) y) -> (forall y, neqb Ops y zero = neqb Ops y (n0 Ops)) ->
  g_Sign Ops x = sign1 Ops x.
Proof. intros H1 H2. unfold g_Sign, sign1, ngtb. fold zero. rewrite H1, H2. reflexivity. Qed.

(** Sign(x,y) returns x when the signs agree and -1.0 * x otherwise *)
Lemma gen_sign2_spec x y :
  g_Sign2 Ops x y = if Z.eqb (g_Sign Ops x) (g_Sign Ops y) then x else nmul Ops (nneg Ops (nlit Ops 1 1 1 0)) x.
Proof. reflexivity. Qed.

Lemma gen_sign2_same x y :
  (nltb Ops zero x = true /\ nltb Ops zero y = true) \/ (nltb Ops x zero = true /\ nltb Ops y zero = true) \/
  (neqb Ops x zero = true /\ neqb Ops y zero = true) -> g_Sign2 Ops x y = x.
Proof.
  intros H. rewrite gen_sign2_spec.
  destruct H as [[A B]|[[A B]|[A B]]].
  - rewrite (gen_sign_pos _ A), (gen_sign_pos _ B). reflexivity.
  - rewrite (gen_sign_neg _ A), (gen_sign_neg _ B). reflexivity.
  - rewrite (gen_sign_zero _ A), (gen_sign_zero _ B). reflexivity.
Qed.

Lemma gen_sign2_opposite x y :
  (nltb Ops zero x = true /\ nltb Ops y zero = true) \/ (nltb Ops x zero = true /\ nltb Ops zero y = true) ->
  g_Sign2 Ops x y = nmul Ops (nneg Ops (nlit Ops 1 1 1 0)) x.
Proof.
  intros H. rewrite gen_sign2_spec.
  destruct H as [[A B]|[A B]].
  - rewrite (gen_sign_pos _ A), (gen_sign_neg _ B). reflexivity.
  - rewrite (gen_sign_neg _ A), (gen_sign_pos _ B). reflexivity.
Qed.

(** StepFunction(x) is 1.0 when 0 <= x and 0.0 otherwise (x < 0) *)
Lemma gen_step_spec x :
  (nleb Ops (nofZ Ops 0) x = true /\ g_StepFunction Ops x = nlit Ops 1 1 1 0) \/
  (nltb Ops x (nofZ Ops 0) = true /\ g_StepFunction Ops x = nlit Ops 0 1 0 0).
Proof.
  unfold g_StepFunction. rewrite (ol_le Ops L).
  destruct (nltb Ops x (nofZ Ops 0)); cbn; [right|left]; auto.
Qed.

(** Relative_Difference / Floats_Equal are symmetric for doubles, rounding included: the only arithmetic facts
    used are that a - b and b - a differ by the sign only (exact in IEEE arithmetic) and that two equal
    absolute values are the same number (fabs clears the sign of zero). *)
Lemma nmax_comm_abs a b :
  (forall u v, neqb Ops (nabs Ops u) (nabs Ops v) = true -> nabs Ops u = nabs Ops v) ->
  nmax Ops (nabs Ops a) (nabs Ops b) = nmax Ops (nabs Ops b) (nabs Ops a).
Proof.
  intros HE. unfold nmax.
  destruct (nltb Ops (nabs Ops a) (nabs Ops b)) eqn:E1.
  - rewrite (lt_asym _ _ E1). reflexivity.
  - destruct (nltb Ops (nabs Ops b) (nabs Ops a)) eqn:E2; [reflexivity|].
    apply HE. apply (ol_eq Ops L). split; assumption.
Qed.

Lemma gen_reldiff_sym_order a b :
  (forall u v, nabs Ops (nsub Ops u v) = nabs Ops (nsub Ops v u)) ->
  (forall u v, neqb Ops (nabs Ops u) (nabs Ops v) = true -> nabs Ops u = nabs Ops v) ->
  g_Relative_Difference Ops a b = g_Relative_Difference Ops b a.
Proof.
  intros HS HE. unfold g_Relative_Difference. rewrite (HS a b), (nmax_comm_abs a b HE). reflexivity.
Qed.

(** Floats_Equal is, by definition, Relative_Difference < tol *)
Lemma gen_floats_equal_def a b tol : g_Floats_Equal Ops a b tol = nltb Ops (g_Relative_Difference Ops a b) tol.
Proof. unfold g_Floats_Equal. destruct (nltb Ops _ tol); reflexivity. Qed.
Lemma gen_floats_equal_sym_order a b tol :
  (forall u v, nabs Ops (nsub Ops u v) = nabs Ops (nsub Ops v u)) ->
  (forall u v, neqb Ops (nabs Ops u) (nabs Ops v) = true -> nabs Ops u = nabs Ops v) ->
  g_Floats_Equal Ops a b tol = g_Floats_Equal Ops b a tol.
Proof. intros HS HE. rewrite !gen_floats_equal_def, (gen_reldiff_sym_order a b HS HE). reflexivity. Qed.
End Order.

(** ** 2. The same functions over R *)
Lemma lit0 : nlit ROps 0 1 0 0 = 0.  Proof. cbn. lra. Qed.
Lemma lit1 : nlit ROps 1 1 1 0 = 1.  Proof. cbn. lra. Qed.

Lemma sign_R x : g_Sign ROps x = if Rlt_dec 0 x then 1%Z else if Req_EM_T x 0 then 0%Z else (-1)%Z.
Proof.
  unfold g_Sign. rewrite lit0. cbn. unfold Rltb, Reqb.
  destruct (Rlt_dec 0 x); [reflexivity|]. destruct (Req_EM_T x 0); reflexivity.
Qed.

Lemma sign1_R x : sign1 ROps x = g_Sign ROps x.
Proof.
  rewrite sign_R. unfold sign1, ngtb. cbn. unfold Rltb, Reqb.
  destruct (Rlt_dec 0 x); [reflexivity|]. destruct (Req_EM_T x 0); reflexivity.
Qed.

(** Sign(x,y) over R: x with the sign of y (for y <> 0 and x <> 0 it is |x| * sgn y) *)
Lemma sign2_R x y : x <> 0 -> y <> 0 -> g_Sign2 ROps x y = if Rlt_dec 0 y then Rabs x else - Rabs x.
Proof.
  intros Hx Hy. unfold g_Sign2. rewrite !sign_R, lit1. cbn.
  destruct (Rlt_dec 0 x), (Rlt_dec 0 y); repeat destruct (Req_EM_T _ 0); cbn; try lra;
    try (rewrite Rabs_right by lra; lra); try (rewrite Rabs_left by lra; lra).
Qed.

Lemma sign2_num_R x y : sign2 ROps x y = g_Sign2 ROps x y.
Proof. unfold sign2, g_Sign2. rewrite !sign1_R, lit1. cbn. reflexivity. Qed.

Lemma reldiff_R a b :
  g_Relative_Difference ROps a b = if Req_EM_T (Rmax (Rabs a) (Rabs b)) 0 then 0 else Rabs (a - b) / Rmax (Rabs a) (Rabs b).
Proof.
  unfold g_Relative_Difference. rewrite lit0. cbn.
  assert (E: nmax ROps (Rabs a) (Rabs b) = Rmax (Rabs a) (Rabs b)).
  { unfold nmax. cbn. unfold Rltb, Rmax. destruct (Rlt_dec (Rabs a) (Rabs b)), (Rle_dec (Rabs a) (Rabs b)); lra. }
  rewrite E. unfold Reqb. destruct (Req_EM_T _ 0); reflexivity.
Qed.

Lemma reldiff_sym a b : g_Relative_Difference ROps a b = g_Relative_Difference ROps b a.
Proof.
  rewrite !reldiff_R. rewrite (Rmax_comm (Rabs b)). rewrite (Rabs_minus_sym b a). reflexivity.
Qed.

Lemma reldiff_refl a : g_Relative_Difference ROps a a = 0.
Proof.
  rewrite reldiff_R. destruct (Req_EM_T _ 0); [reflexivity|].
  unfold Rminus. rewrite Rplus_opp_r, Rabs_R0. unfold Rdiv. ring.
Qed.

Lemma reldiff_nonneg a b : 0 <= g_Relative_Difference ROps a b.
Proof.
  rewrite reldiff_R. destruct (Req_EM_T _ 0); [lra|].
  assert (0 <= Rmax (Rabs a) (Rabs b)) by (eapply Rle_trans; [apply Rabs_pos|apply Rmax_l]).
  apply Rmult_le_pos; [apply Rabs_pos|]. left. apply Rinv_0_lt_compat. lra.
Qed.

Lemma floats_equal_sym a b tol : g_Floats_Equal ROps a b tol = g_Floats_Equal ROps b a tol.
Proof. rewrite !gen_floats_equal_def, reldiff_sym. reflexivity. Qed.

Lemma floats_equal_refl a tol : 0 < tol -> g_Floats_Equal ROps a a tol = true.
Proof. intros H. rewrite gen_floats_equal_def, reldiff_refl. cbn. apply Rltb_true. exact H. Qed.

(** Floats_Equal(a,b,tol) holds exactly when |a - b| < tol * max(|a|,|b|), or a = b = 0 *)
Lemma floats_equal_iff a b tol : 0 < tol ->
  g_Floats_Equal ROps a b tol = true <-> (Rabs (a - b) < tol * Rmax (Rabs a) (Rabs b) \/ (a = 0 /\ b = 0)).
Proof.
  intros Ht. rewrite gen_floats_equal_def, reldiff_R. cbn. rewrite Rltb_true.
  assert (P: 0 <= Rmax (Rabs a) (Rabs b)) by (eapply Rle_trans; [apply Rabs_pos|apply Rmax_l]).
  destruct (Req_EM_T _ 0) as [E|E].
  - split; [intros _; right|intros _; lra].
    pose proof (Rmax_l (Rabs a) (Rabs b)). pose proof (Rmax_r (Rabs a) (Rabs b)).
    pose proof (Rabs_pos a). pose proof (Rabs_pos b).
    split.
    + destruct (Req_dec a 0) as [|N]; [assumption|apply Rabs_pos_lt in N; lra].
    + destruct (Req_dec b 0) as [|N]; [assumption|apply Rabs_pos_lt in N; lra].
  - assert (Q: 0 < Rmax (Rabs a) (Rabs b)) by lra. split.
    + intros H. left. apply Rmult_lt_reg_r with (/ Rmax (Rabs a) (Rabs b)); [apply Rinv_0_lt_compat; lra|].
      rewrite Rmult_assoc, Rinv_r by lra. unfold Rdiv in H. lra.
    + intros [H|[-> ->]].
      * unfold Rdiv. apply Rmult_lt_reg_r with (Rmax (Rabs a) (Rabs b)); [lra|].
        rewrite Rmult_assoc, Rinv_l by lra. lra.
      * exfalso. apply E. rewrite Rabs_R0. apply Rmax_left. lra.
Qed.

Lemma step_R x : g_StepFunction ROps x = if Rle_dec 0 x then 1 else 0.
Proof. unfold g_StepFunction. rewrite lit0, lit1. cbn. unfold Rleb. destruct (Rle_dec 0 x); reflexivity. Qed.

(** ** 3. Dawson_Integral: the model is odd, on both branches *)
Lemma dawson_odd x : dawson ROps (- x) = - dawson ROps x.
Proof.
  unfold dawson. cbn [nabs ROps]. rewrite Rabs_Ropp.
  destruct (nltb ROps (Rabs x) (ndec ROps 1 5)) eqn:E.
  - cbn. ring.
  - (* large-argument branch: |x| >= 0.2, so x <> 0; everything but the sign transfer depends on |x| only *)
    assert (Hx: x <> 0).
    { intros ->. cbn in E. apply Rltb_false in E. rewrite Rabs_R0 in E. lra. }
    set (es := daw_big ROps (Rabs x)).
    assert (He: fst es <> 0).
    { unfold es, daw_big. cbn [fst]. cbn [nexp ROps]. apply Rgt_not_eq, exp_pos. }
    rewrite !sign2_num_R. rewrite !sign2_R by lra.
    cbn [nmul ROps].
    destruct (Rlt_dec 0 (- x)), (Rlt_dec 0 x); try lra; ring.
Qed.

(** the mathematical Dawson integral [dawson_def] (bounded form, used by the certified samples S3) and
    [erfi_def] are defined in C17_Defs.v *)

Lemma exp_sq_cont z : continuous (fun t => exp (t * t)) z.
Proof. apply (ex_derive_continuous (V := R_NormedModule)). auto_derive. auto. Qed.

Lemma dawson_def_alt x : dawson_def x = exp (- (x * x)) * RInt (fun t => exp (t * t)) 0 x.
Proof.
  unfold dawson_def. apply is_RInt_unique.
  apply is_RInt_ext with (f := fun t => scal (exp (- (x * x))) (exp (t * t))).
  - intros t _. unfold scal; cbn. unfold mult; cbn. rewrite <- exp_plus. f_equal. ring.
  - apply (is_RInt_scal (V := R_NormedModule)).
    apply (@RInt_correct R_CompleteNormedModule).
    apply (@ex_RInt_continuous R_CompleteNormedModule). intros z _. apply exp_sq_cont.
Qed.

(** Erfi(x) = 2/sqrt(pi) * h * Dawson_Integral(x) * h with h = exp(x^2/2) (two halves, so that the intermediate
    products stay finite as long as erfi(x) does), which over the reals is 2/sqrt(pi) * exp(x^2) * Dawson_Integral(x),
    with pi the real number pi *)
Lemma erfi_model x : erfi ROps PI x = 2 / sqrt PI * exp (x * x) * dawson ROps x.
Proof.
  unfold erfi. cbn [nexp nmul ndiv nsqrt nofZ ndec ROps].
  replace (exp (x * x)) with (exp (1 / 2 * x * x) * exp (1 / 2 * x * x)) by (rewrite <- exp_plus; f_equal; field).
  ring.
Qed.

(** ... which is erfi(x) = 2/sqrt(pi) int_0^x exp(t^2) dt whenever Dawson_Integral returns Dawson's integral;
    in general the relative error of Erfi equals the relative error of Dawson_Integral *)
Lemma erfi_exact_of_dawson_exact x : dawson ROps x = dawson_def x -> erfi ROps PI x = erfi_def x.
Proof.
  intros H. rewrite erfi_model, H, dawson_def_alt. unfold erfi_def.
  rewrite <- Rmult_assoc, (Rmult_assoc (2 / sqrt PI)), <- exp_plus.
  replace (x * x + - (x * x)) with 0 by ring. rewrite exp_0. ring.
Qed.

Lemma erfi_error_of_dawson_error x d :
  dawson ROps x = dawson_def x * (1 + d) -> erfi ROps PI x = erfi_def x * (1 + d).
Proof.
  intros H. rewrite erfi_model, H, dawson_def_alt. unfold erfi_def.
  replace (2 / sqrt PI * exp (x * x) * (exp (- (x * x)) * RInt (fun t => exp (t * t)) 0 x * (1 + d)))
    with (2 / sqrt PI * (exp (x * x) * exp (- (x * x))) * RInt (fun t => exp (t * t)) 0 x * (1 + d)) by ring.
  rewrite <- exp_plus. replace (x * x + - (x * x)) with 0 by ring. rewrite exp_0. ring.
Qed.

Lemma erfi_odd x : erfi ROps PI (- x) = - erfi ROps PI x.
Proof. rewrite !erfi_model, dawson_odd. replace (- x * - x) with (x * x) by ring. ring. Qed.

(** ** Round on containers (Vector / Matrix overloads): element by element, shape preserved *)
Lemma round_list_spec {T} (Ops : NumOps T) (l l' : list T) d : round_list Ops l d = Ok l' ->
  length l' = length l /\ forall i, (i < length l)%nat -> round Ops (nth i l (n0 Ops)) d = Ok (nth i l' (n0 Ops)).
Proof.
  revert l'. induction l as [|x t IH]; intros l' H; cbn in H.
  - injection H as <-. split; [reflexivity|]. intros i Hi. inversion Hi.
  - destruct (round Ops x d) as [r| | |] eqn:E; cbn in H; try discriminate.
    destruct (round_list Ops t d) as [rt| | |] eqn:E2; cbn in H; try discriminate.
    injection H as <-. destruct (IH rt eq_refl) as [L N]. split; [cbn; congruence|].
    intros [|i] Hi; cbn; [exact E|apply N; cbn in Hi; lia].
Qed.

Lemma round_table_spec {T} (Ops : NumOps T) (m m' : list (list T)) d : round_table Ops m d = Ok m' ->
  length m' = length m /\ forall i, (i < length m)%nat -> round_list Ops (nth i m nil) d = Ok (nth i m' nil).
Proof.
  revert m'. induction m as [|x t IH]; intros m' H; cbn in H.
  - injection H as <-. split; [reflexivity|]. intros i Hi. inversion Hi.
  - destruct (round_list Ops x d) as [r| | |] eqn:E; cbn in H; try discriminate.
    destruct (round_table Ops t d) as [rt| | |] eqn:E2; cbn in H; try discriminate.
    injection H as <-. destruct (IH rt eq_refl) as [L N]. split; [cbn; congruence|].
    intros [|i] Hi; cbn; [exact E|apply N; cbn in Hi; lia].
Qed.
