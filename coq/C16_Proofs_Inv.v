(** * C16 proofs, eighth part: "transpose equals inverse" observed with the library's own Matrix::Inverse() (Gauss-Jordan
    elimination with partial pivoting), Matrix::Invertible(), Matrix::Orthogonal() (Transpose() == Inverse()), Matrix::Transpose()
    and Matrix::Norm() (model: C16_Model2.v). *)
From Coq Require Import Reals ZArith List Lra Lia Psatz Bool Arith.
From LP Require Import Num NumR C16_Model C16_Model2 C16_Proofs C16_Proofs_Chain C16_Proofs_Det.
Import ListNotations.
Local Open Scope R_scope.

(** ** the guards, for every number type and every size *)
Section AnyOps.
Context {T : Type} (Ops : NumOps T).
Lemma inverse_guards (m : list (list T)) :
  (mrowsn m <> mcolsn m ->
     minverse Ops m = Exit /\ minvertible Ops m = Ok false /\ morthogonal Ops m = Ok false) /\
  (forall d, mrowsn m = mcolsn m -> mdet Ops m = Ok d -> neqb Ops d (n0 Ops) = true ->
     minverse Ops m = Exit /\ minvertible Ops m = Ok false /\ morthogonal Ops m = Ok false) /\
  (forall n, wf_square n m -> exists b, minvertible Ops m = Ok b).
Proof.
  split; [| split].
  - intros N. apply Nat.eqb_neq in N. unfold morthogonal, minverse, minvertible, msquare. rewrite N. cbn. repeat split; reflexivity.
  - intros d E Dd Z. apply Nat.eqb_eq in E. unfold morthogonal, minverse, minvertible, msquare. rewrite E. cbn [negb]. rewrite Dd. cbn [rbind].
    unfold nneb. rewrite Z. cbn. repeat split; reflexivity.
  - intros n W. destruct (proj1 (mdet_mtrace_guards Ops m) n W) as [d Dd]. destruct (wf_square_dims n m W) as [Er Ec].
    unfold minvertible, msquare. rewrite Er, Ec, Nat.eqb_refl. cbn [negb]. rewrite Dd. cbn [rbind]. eexists; reflexivity.
Qed.

(** Gauss-Jordan never runs out of fuel and never reads out of bounds: Inverse() either returns or ends the process *)
Lemma gj_fold_ok_or_exit n (l : list nat) (acc : res (list (list T))) :
  (acc = Exit \/ exists a, acc = Ok a) ->
  fold_left (gj_step Ops n) l acc = Exit \/ exists a, fold_left (gj_step Ops n) l acc = Ok a.
Proof.
  revert acc. induction l as [| i l IH]; intros acc H; [exact H |]. cbn [fold_left]. apply IH.
  destruct H as [-> | [a ->]]; [left; reflexivity |]. unfold gj_step. cbn [rbind].
  destruct (neqb Ops _ _); [left; reflexivity | right; eexists; reflexivity].
Qed.
Lemma inverse_returns_or_exits (m : list (list T)) n : wf_square n m ->
  minverse Ops m = Exit \/ exists X, minverse Ops m = Ok X.
Proof.
  intros W. destruct (proj1 (mdet_mtrace_guards Ops m) n W) as [d Dd].
  unfold minverse, minvertible. destruct (negb (msquare m)); [left; reflexivity |]. rewrite Dd. cbn [rbind].
  destruct (negb (nneb Ops d (n0 Ops))); [left; reflexivity |].
  destruct (gj_fold_ok_or_exit (mrowsn m) (seq 0 (mrowsn m)) (Ok (maugment Ops m))) as [E | [a E]]; [right; eexists; reflexivity | |];
    rewrite E; cbn [rbind]; [left; reflexivity | right; eexists; reflexivity].
Qed.
End AnyOps.

(** ** every regular 2 x 2 matrix: Inverse() returns the adjugate over the determinant - both pivoting branches of the elimination *)
Lemma nneb_R x : x <> 0 -> nneb ROps x 0 = true.
Proof. intros H. unfold nneb. cbn. destruct (Reqb_spec x 0); [contradiction | reflexivity]. Qed.
Lemma ok2x2 (x1 x2 x3 x4 y1 y2 y3 y4 : R) : x1 = y1 -> x2 = y2 -> x3 = y3 -> x4 = y4 -> Ok [[x1; x2]; [x3; x4]] = Ok [[y1; y2]; [y3; y4]].
Proof. intros; subst; reflexivity. Qed.
Ltac nz D := repeat split; try assumption; let E := fresh "E" in intros E;
  first [ apply D; lra
        | match goal with Hx : ?x <> 0 |- _ =>
            match type of E with context [x * (?u)] =>
              let H := fresh in assert (x * u = 0) as H by lra; apply Rmult_integral in H; destruct H as [H | H]; [contradiction | apply D; lra] end end ].
Lemma minverse_2x2 a b c d : a * d - b * c <> 0 ->
  minverse ROps [[a; b]; [c; d]] = Ok [[d / (a * d - b * c); - b / (a * d - b * c)]; [- c / (a * d - b * c); a / (a * d - b * c)]].
Proof.
  intros D. unfold minverse, minvertible, mdet. cbn -[Reqb Rltb Rabs nneb].
  rewrite (nneb_R _ D). cbn -[Reqb Rltb Rabs].
  destruct (Rltb_spec (Rabs a) (Rabs c)) as [Hlt | Hge]; cbn -[Reqb Rltb Rabs].
  - assert (c <> 0) as Hc. { intros ->. rewrite Rabs_R0 in Hlt. pose proof (Rabs_pos a). lra. }
    destruct (Reqb_spec c 0) as [? | _]; [contradiction |]. cbn -[Reqb Rltb Rabs].
    assert (b - a / c * d <> 0) as Hp. { intros E. apply D. replace (a * d - b * c) with (- c * (b - a / c * d)) by (field; exact Hc). rewrite E. ring. }
    destruct (Reqb_spec (b - a / c * d) 0) as [? | _]; [contradiction |]. cbn -[Reqb Rltb Rabs].
    apply ok2x2; field; nz D.
  - assert (a <> 0) as Ha.
    { intros ->. rewrite Rabs_R0 in Hge. assert (c = 0) as Hc0. { destruct (Req_dec c 0) as [? | Hn]; [assumption | pose proof (Rabs_pos_lt c Hn); lra]. } subst c. apply D. ring. }
    destruct (Reqb_spec a 0) as [? | _]; [contradiction |]. cbn -[Reqb Rltb Rabs].
    assert (d - c / a * b <> 0) as Hp. { intros E. apply D. replace (a * d - b * c) with (a * (d - c / a * b)) by (field; exact Ha). rewrite E. ring. }
    destruct (Reqb_spec (d - c / a * b) 0) as [? | _]; [contradiction |]. cbn -[Reqb Rltb Rabs].
    apply ok2x2; field; nz D.
Qed.
(** ... hence Inverse() * M = M * Inverse() = 1 with the library's own product *)
Lemma minverse_2x2_is_inverse a b c d X : a * d - b * c <> 0 -> minverse ROps [[a; b]; [c; d]] = Ok X ->
  mmul ROps X [[a; b]; [c; d]] = I2 /\ mmul ROps [[a; b]; [c; d]] X = I2.
Proof.
  intros D E. rewrite (minverse_2x2 a b c d D) in E. injection E as <-.
  unfold mmul, mcol, vdot, nth0, I2. cbn. split; list_eq; field; exact D.
Qed.

Lemma meqb_refl_R (m : list (list R)) : meqb ROps m m = true.
Proof.
  unfold meqb. rewrite !Nat.eqb_refl. cbn [negb orb].
  induction m as [| r m IH]; [reflexivity |]. cbn [combine forallb fst snd]. rewrite IH, andb_true_r.
  clear IH. induction r as [| x r IH]; [reflexivity |]. cbn [combine forallb fst snd]. rewrite IH, andb_true_r.
  cbn. destruct (Reqb_spec x x); [reflexivity | contradiction].
Qed.

(** ** the 2-D rotation: Inverse() = Transpose() entry by entry, Orthogonal() says true, Norm() = sqrt 2 - for every angle *)
Lemma rotation2_inverse alpha axis :
  rotation_inverse ROps alpha 2 axis =
    Ok ([[cos alpha; sin alpha]; [- sin alpha; cos alpha]], [[cos alpha; sin alpha]; [- sin alpha; cos alpha]], sqrt 2) /\
  (forall Rm, rotation_matrix ROps alpha 2 axis = Ok Rm ->
     minverse ROps Rm = Ok (mtranspose ROps Rm) /\ minvertible ROps Rm = Ok true /\ morthogonal ROps Rm = Ok true /\ mnorm ROps Rm = sqrt 2).
Proof.
  pose proof (cs1 alpha) as CS.
  assert (cos alpha * cos alpha - - sin alpha * sin alpha <> 0) as D by lra.
  assert (minverse ROps [[cos alpha; - sin alpha]; [sin alpha; cos alpha]] = Ok [[cos alpha; sin alpha]; [- sin alpha; cos alpha]]) as EI.
  { rewrite (minverse_2x2 _ _ _ _ D). replace (cos alpha * cos alpha - - sin alpha * sin alpha) with 1 by lra. list_eq; field. }
  assert (mtranspose ROps [[cos alpha; - sin alpha]; [sin alpha; cos alpha]] = [[cos alpha; sin alpha]; [- sin alpha; cos alpha]]) as ET by reflexivity.
  assert (mnorm ROps [[cos alpha; - sin alpha]; [sin alpha; cos alpha]] = sqrt 2) as EN.
  { unfold mnorm. cbn. f_equal. lra. }
  assert (minvertible ROps [[cos alpha; - sin alpha]; [sin alpha; cos alpha]] = Ok true) as EV.
  { unfold minvertible, mdet. cbn -[nneb]. rewrite (nneb_R _ D). reflexivity. }
  split.
  - unfold rotation_inverse. rewrite rot2_eq. cbn [rbind]. rewrite EI. cbn [rbind]. rewrite ET, EN. reflexivity.
  - intros Rm E. rewrite rot2_eq in E. injection E as <-. rewrite ET. repeat split; try assumption.
    unfold morthogonal. rewrite EV. cbn [rbind negb]. rewrite EI. cbn [rbind]. rewrite ET, meqb_refl_R. reflexivity.
Qed.

(** ** 3-D: Norm() = sqrt 3 for every angle and every non-zero axis, Transpose() is the library's own transpose used in the orthogonality
    theorems, Invertible() says true *)
Lemma mtranspose_3x3 m : is3x3 m -> mtranspose ROps m = mtr m.
Proof. intros H. open3 H. reflexivity. Qed.
Lemma rotation3_norm_transpose alpha a0 a1 a2 Rm : nonzero3 a0 a1 a2 -> rotation_matrix ROps alpha 3 [a0; a1; a2] = Ok Rm ->
  mnorm ROps Rm = sqrt 3 /\ minvertible ROps Rm = Ok true /\
  mmul ROps (mtranspose ROps Rm) Rm = I3 /\ mmul ROps Rm (mtranspose ROps Rm) = I3 /\
  rotation_matrix ROps (- alpha) 3 [a0; a1; a2] = Ok (mtranspose ROps Rm).
Proof.
  intros Hnz E. destruct (rot3_proper alpha [a0; a1; a2]) as (Rm' & E' & (S3 & L & Rr & D)).
  { exists a0, a1, a2. split; [reflexivity | exact Hnz]. }
  rewrite E in E'. injection E' as <-. rewrite (mtranspose_3x3 Rm S3).
  assert (rotation_matrix ROps (- alpha) 3 [a0; a1; a2] = Ok (mtr Rm)) as ET.
  { rewrite rotation3_eq in *. injection E as <-. rewrite cos_neg, sin_neg. unfold rodrigues, mtr. cbn. list_eq; ring. }
  repeat split; try assumption.
  - open3 S3. unfold mmul, mtr, mcol, vdot, nth0, I3 in L. cbn in L. injection L as L1 _ _ _ L2 _ _ _ L3.
    unfold mnorm. cbn. f_equal. lra.
  - unfold minvertible. open3 S3. cbn [msquare mrowsn mcolsn length Nat.eqb negb]. rewrite mdet_3x3 by (repeat eexists). cbn [rbind]. rewrite D.
    rewrite nneb_R by lra. reflexivity.
Qed.

(** ** non-vacuity *)
Example ex_inverse_2x2 : 1 * 4 - 2 * 3 <> 0 /\ minverse ROps [[1; 2]; [3; 4]] = Ok [[-2; 1]; [3 / 2; - (1 / 2)]].
Proof. split; [lra |]. rewrite minverse_2x2 by lra. list_eq; field. Qed.
Example ex_inverse_guard : mrowsn [[1; 2; 3]; [4; 5; 6]] <> mcolsn [[1; 2; 3]; [4; 5; 6]] /\
  mdet ROps [[1; 2]; [2; 4]] = Ok 0 /\ neqb ROps 0 (n0 ROps) = true /\ wf_square 2 [[1; 2]; [2; 4]].
Proof.
  split; [cbn; lia |]. split; [unfold mdet; cbn; f_equal; ring |]. split; [cbn; destruct (Reqb_spec 0 0); [reflexivity | contradiction] |].
  split; [reflexivity | repeat constructor].
Qed.
