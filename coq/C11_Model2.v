(** * C11 model, part 2 (seventh pass): the default tolerance of the two 1-D entry points
    include/libphysica/Numerics.hpp:100-101
      extern double Find_Maximum(std::function<double(double)> func, double xLeft, double xRight, double tol = 3e-8);
      extern double Find_Minimum(std::function<double(double)> func, double xLeft, double xRight, double tol = 3e-8);
    A call without the fourth argument is the call with the literal 3e-8 (exact value 3/10^8; the double is
    4533471823554859 * 2^-77 = 0x1.01b2b29a4692bp-25).  Before this pass the literal lived in the OCaml driver only. *)
From Coq Require Import ZArith List Bool.
From LP Require Import Num C11_Model.
Import ListNotations.

Section Min2.
Context {T : Type} (Ops : NumOps T).

Definition default_tol : T := nlit Ops 3 100000000 4533471823554859 (-77).

(** Find_Minimum(func, xLeft, xRight) *)
Definition find_minimum_default (f : T -> T) (xl xr : T) : res (T * list T) :=
  find_minimum Ops f xl xr default_tol.

(** Find_Maximum(func, xLeft, xRight) *)
Definition find_maximum_default (f : T -> T) (xl xr : T) : res (T * list T) :=
  find_maximum Ops f xl xr default_tol.
End Min2.
