From Coq Require Import Extraction ExtrOcamlBasic ZArith List.
From LP Require Import Num C04_Model C05_Model C05_Model2.
Extraction Language OCaml.
Extraction "C05_m.ml" mat_of_entries determinant invertible inverse inverse_lbl orthogonal srun mrun hrun hmrun m_product transpose wf_mat square Z.of_nat Z.to_nat.
