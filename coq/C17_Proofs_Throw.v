(** C17 - calls abandoned by an exception from the scalar-harmonic back end: (1) a vector-harmonic call whose six neighbour evaluations all
    answer returns exactly what the exception-free model returns (so every theorem about [vsh_vector] applies to it); (2) a call in which a
    needed neighbour evaluation throws is abandoned as a whole; (3) in a history of requests (answered and abandoned ones mixed, any degrees),
    every answer is the answer to that request alone. *)
From Coq Require Import ZArith List Bool Lia.
From LP Require Import Num Gen_C17_Formulas C17_Model.
Import ListNotations.
Local Open Scope Z_scope.
Local Open Scope res_scope.

Section Throw.
Context {T : Type} (Ops : NumOps T).
Local Notation "'#' k" := (nofZ Ops k) (at level 1, format "'#' k").

Definition rsome {A} (r : res A) : res (option A) := match r with Ok a => Ok (Some a) | Exit => Exit | OOB => OOB | Fuel => Fuel end.

(** the six neighbours the loops read *)
Definition needed (l m lh mh : Z) : Prop := (lh = l - 1 \/ lh = l + 1) /\ (mh = m - 1 \/ mh = m \/ mh = m + 1) /\ Z.abs mh <= lh.

Lemma term_x_refines comp (Y : Z -> Z -> option (T * T)) Yt i l m lh mh acc :
  (Z.abs mh <= lh -> Y lh mh = Some (Yt lh mh)) ->
  vsh_term_x Ops comp Y i l m lh mh (rsome acc) = rsome (vsh_term Ops comp Yt i l m lh mh acc).
Proof.
  intros H. unfold vsh_term_x, vsh_term. destruct acc as [a| | |]; cbn; try reflexivity.
  destruct (Z.abs mh <=? lh) eqn:E; [|reflexivity].
  apply Z.leb_le in E. rewrite (H E). destruct (comp i l m lh mh); reflexivity.
Qed.

Lemma sum_x_refines comp (Y : Z -> Z -> option (T * T)) Yt i l m :
  (forall lh mh, needed l m lh mh -> Y lh mh = Some (Yt lh mh)) ->
  vsh_sum_x Ops comp Y i l m = rsome (vsh_sum Ops comp Yt i l m).
Proof.
  intros H. unfold vsh_sum_x, vsh_sum.
  change (Ok (Some (#0, #0))) with (rsome (Ok (#0, #0))).
  do 6 (rewrite (term_x_refines comp Y Yt); [|intros A; apply H; unfold needed; lia]). reflexivity.
Qed.

Theorem vector_x_refines comp (Y : Z -> Z -> option (T * T)) Yt l m :
  (forall lh mh, needed l m lh mh -> Y lh mh = Some (Yt lh mh)) ->
  vsh_vector_x Ops comp Y l m = rsome (vsh_vector Ops comp Yt l m).
Proof.
  intros H. unfold vsh_vector_x, vsh_vector. rewrite !(sum_x_refines comp Y Yt) by exact H.
  destruct (vsh_sum Ops comp Yt 0 l m); cbn; try reflexivity.
  destruct (vsh_sum Ops comp Yt 1 l m); cbn; try reflexivity.
  destruct (vsh_sum Ops comp Yt 2 l m); cbn; reflexivity.
Qed.

(** thrown calls *)
Lemma term_x_none comp (Y : Z -> Z -> option (T * T)) i l m lh mh : vsh_term_x Ops comp Y i l m lh mh (Ok None) = Ok None.
Proof. reflexivity. Qed.

Lemma term_x_total comp (Y : Z -> Z -> option (T * T)) i l m lh mh o :
  (exists c, comp i l m lh mh = Ok c) -> exists o', vsh_term_x Ops comp Y i l m lh mh (Ok o) = Ok o'.
Proof.
  intros [c Hc]. unfold vsh_term_x. cbn. destruct o as [s|]; [|eauto].
  destruct (Z.abs mh <=? lh); [|eauto]. rewrite Hc. cbn. destruct (Y lh mh); eauto.
Qed.

Lemma term_x_throw comp (Y : Z -> Z -> option (T * T)) i l m lh mh o :
  (exists c, comp i l m lh mh = Ok c) -> Z.abs mh <= lh -> Y lh mh = None -> vsh_term_x Ops comp Y i l m lh mh (Ok o) = Ok None.
Proof.
  intros [c Hc] A HY. unfold vsh_term_x. cbn. destruct o as [s|]; [|reflexivity].
  apply Z.leb_le in A. rewrite A, Hc. cbn. rewrite HY. reflexivity.
Qed.

Lemma sum_x_throws comp (Y : Z -> Z -> option (T * T)) i l m lh mh :
  (forall lh mh, exists c, comp i l m lh mh = Ok c) ->
  needed l m lh mh -> Y lh mh = None -> vsh_sum_x Ops comp Y i l m = Ok None.
Proof.
  intros Hc [Hl [Hm A]] HY. unfold vsh_sum_x.
  destruct (term_x_total comp Y i l m (l - 1) (m - 1) (Some (#0, #0)) (Hc _ _)) as [o1 E1].
  destruct Hl as [-> | ->]; destruct Hm as [-> | [-> | ->]].
  - rewrite (term_x_throw comp Y i l m (l - 1) (m - 1) _ (Hc _ _) A HY). reflexivity.
  - rewrite E1. rewrite (term_x_throw comp Y i l m (l - 1) m _ (Hc _ _) A HY). reflexivity.
  - rewrite E1. destruct (term_x_total comp Y i l m (l - 1) m o1 (Hc _ _)) as [o2 E2]. rewrite E2.
    rewrite (term_x_throw comp Y i l m (l - 1) (m + 1) _ (Hc _ _) A HY). reflexivity.
  - rewrite E1. destruct (term_x_total comp Y i l m (l - 1) m o1 (Hc _ _)) as [o2 E2]. rewrite E2.
    destruct (term_x_total comp Y i l m (l - 1) (m + 1) o2 (Hc _ _)) as [o3 E3]. rewrite E3.
    rewrite (term_x_throw comp Y i l m (l + 1) (m - 1) _ (Hc _ _) A HY). reflexivity.
  - rewrite E1. destruct (term_x_total comp Y i l m (l - 1) m o1 (Hc _ _)) as [o2 E2]. rewrite E2.
    destruct (term_x_total comp Y i l m (l - 1) (m + 1) o2 (Hc _ _)) as [o3 E3]. rewrite E3.
    destruct (term_x_total comp Y i l m (l + 1) (m - 1) o3 (Hc _ _)) as [o4 E4]. rewrite E4.
    rewrite (term_x_throw comp Y i l m (l + 1) m _ (Hc _ _) A HY). reflexivity.
  - rewrite E1. destruct (term_x_total comp Y i l m (l - 1) m o1 (Hc _ _)) as [o2 E2]. rewrite E2.
    destruct (term_x_total comp Y i l m (l - 1) (m + 1) o2 (Hc _ _)) as [o3 E3]. rewrite E3.
    destruct (term_x_total comp Y i l m (l + 1) (m - 1) o3 (Hc _ _)) as [o4 E4]. rewrite E4.
    destruct (term_x_total comp Y i l m (l + 1) m o4 (Hc _ _)) as [o5 E5]. rewrite E5.
    rewrite (term_x_throw comp Y i l m (l + 1) (m + 1) _ (Hc _ _) A HY). reflexivity.
Qed.

Theorem vector_x_throws comp (Y : Z -> Z -> option (T * T)) l m lh mh :
  (forall i lh mh, exists c, comp i l m lh mh = Ok c) ->
  needed l m lh mh -> Y lh mh = None -> vsh_vector_x Ops comp Y l m = Ok None.
Proof.
  intros Hc N HY. unfold vsh_vector_x. rewrite (sum_x_throws comp Y 0 l m lh mh (Hc 0) N HY). reflexivity.
Qed.

(** histories *)
Lemma run_x_iff qs outs : vsh_run_x Ops qs = Ok outs <-> Forall2 (fun q a => vsh_call_x Ops q = Ok a) qs outs.
Proof.
  revert outs; induction qs as [|q t IH]; intros outs; cbn.
  - split; intros H; [injection H as <-; constructor|inversion H; reflexivity].
  - split; intros H.
    + destruct (vsh_call_x Ops q) as [a| | |] eqn:E1; cbn in H; try discriminate.
      destruct (vsh_run_x Ops t) as [b| | |] eqn:E2; cbn in H; try discriminate.
      injection H as <-. constructor; [exact E1|]. apply IH. reflexivity.
    + inversion H as [|? a ? b E1 E2]; subst. rewrite E1. cbn. apply IH in E2. rewrite E2. reflexivity.
Qed.

Theorem run_x_independent pre post q outs :
  vsh_run_x Ops (pre ++ q :: post) = Ok outs ->
  length outs = length (pre ++ q :: post) /\ vsh_call_x Ops q = Ok (nth (length pre) outs None).
Proof.
  intros H. apply run_x_iff in H. split.
  - symmetry. clear -H. induction H; cbn; congruence.
  - revert outs H. induction pre as [|p pre IH]; intros outs H; cbn in *.
    + inversion H; subst. assumption.
    + inversion H; subst. cbn. apply IH. assumption.
Qed.
End Throw.
