(** * C14 proofs: Rebin in general, and the refinement of the Vegas grid.
    Rebin(rc, nd, r, xin, xi, j) with arbitrary positive weights r[0..nd) and rc = (r[0] + ... + r[nd-1]) / nd maps an increasing grid
    row in [0,1] to an increasing grid row in [0,1] that ends in 1, never reads r or xi outside their nd entries in use, and its inner
    while loop comes to an end.  Hence the refinement at the end of every Vegas iteration keeps the grid a grid. *)
From Coq Require Import Reals ZArith List Lia Lra Psatz.
From LP Require Import Num NumR C13_Model C14_Model C14_Proofs.
Import ListNotations.
Local Open Scope R_scope.

(** r[0] + ... + r[k-1], in the order in which the while loop of Rebin accumulates it *)
Fixpoint psum (r : list R) (k : nat) : R := match k with O => 0 | S k' => psum r k' + nth k' r 0 end.

Lemma psum_cons a r : forall k, psum (a :: r) (S k) = a + psum r k.
Proof. induction k as [| k IH]; [cbn; ring |]. change (psum (a :: r) (S (S k))) with (psum (a :: r) (S k) + nth k r 0). rewrite IH. cbn [psum]. ring. Qed.

Lemma psum_pos r : forall k, (1 <= k)%nat -> (forall i, (i < k)%nat -> 0 < nth i r 0) -> 0 < psum r k.
Proof.
  induction k as [| k IH]; intros Hk Hp; [lia |]. cbn [psum].
  destruct k as [| k]; [cbn; specialize (Hp 0%nat ltac:(lia)); lra |].
  specialize (IH ltac:(lia) (fun i Hi => Hp i ltac:(lia))). specialize (Hp (S k) ltac:(lia)). lra.
Qed.

(** lb <= x_1 <= x_2 <= ... <= x_m <= ub *)
Fixpoint chain (lb : R) (l : list R) (ub : R) : Prop :=
  match l with [] => lb <= ub | x :: t => lb <= x /\ chain x t ub end.

Lemma chain_bounds l : forall lb ub, chain lb l ub -> lb <= ub.
Proof. induction l as [| x t IH]; intros lb ub H; [exact H |]. destruct H as [H1 H2]. apply IH in H2. lra. Qed.

Lemma chain_snoc l : forall lb ub ub', chain lb l ub -> ub <= ub' -> chain lb (l ++ [ub']) ub'.
Proof.
  induction l as [| x t IH]; intros lb ub ub' H Hu; cbn in *.
  - split; lra.
  - destruct H as [H1 H2]. split; [exact H1 | eapply IH; eassumption].
Qed.

Lemma chain_nth l : forall lb ub, chain lb l ub -> forall i j, (i <= j < length l)%nat ->
  lb <= nth i l 0 /\ nth i l 0 <= nth j l 0 /\ nth j l 0 <= ub.
Proof.
  induction l as [| x t IH]; intros lb ub H i j Hij; [cbn in Hij; lia |].
  destruct H as [H1 H2]. pose proof (chain_bounds _ _ _ H2) as Hb.
  destruct i as [| i], j as [| j]; cbn [nth]; cbn [length] in Hij.
  - lra.
  - destruct (IH x ub H2 j j ltac:(lia)) as (A & _ & C). lra.
  - lia.
  - destruct (IH x ub H2 i j ltac:(lia)) as (A & B & C). lra.
Qed.

Lemma chain_grid_ok l : (1 <= length l)%nat -> chain 0 l 1 -> grid_ok l.
Proof.
  intros Hl H. repeat split.
  - intros i j Hij. apply (chain_nth l 0 1 H i j Hij).
  - apply (chain_nth l 0 1 H 0%nat 0%nat). lia.
  - apply (chain_nth l 0 1 H (length l - 1)%nat (length l - 1)%nat). lia.
Qed.

(** linear interpolation between two grid points *)
Lemma interp_bounds xo xn dr rk : 0 < rk -> 0 <= dr <= rk -> xo <= xn -> xo <= xn - (xn - xo) * dr / rk <= xn.
Proof.
  intros Hr Hd Hx. replace ((xn - xo) * dr / rk) with ((xn - xo) * (dr / rk)) by (field; lra).
  assert (0 <= dr / rk) by (apply Rmult_le_pos; [lra | left; apply Rinv_0_lt_compat; exact Hr]).
  assert (dr / rk <= 1) by (apply Rmult_le_reg_r with rk; [exact Hr |]; replace (dr / rk * rk) with dr by (field; lra); lra).
  nra.
Qed.

Lemma interp_mono xo xn dr1 dr2 rk : 0 < rk -> dr2 <= dr1 -> xo <= xn -> xn - (xn - xo) * dr1 / rk <= xn - (xn - xo) * dr2 / rk.
Proof.
  intros Hr Hd Hx. replace ((xn - xo) * dr1 / rk) with ((xn - xo) * (dr1 / rk)) by (field; lra).
  replace ((xn - xo) * dr2 / rk) with ((xn - xo) * (dr2 / rk)) by (field; lra).
  assert (dr2 / rk <= dr1 / rk) by (apply Rmult_le_compat_r; [left; apply Rinv_0_lt_compat; exact Hr | exact Hd]).
  nra.
Qed.

Lemma nth_firstn_lt {A} (d : A) : forall n (l : list A) i, (i < n)%nat -> nth i (firstn n l) d = nth i l d.
Proof.
  induction n as [| n IH]; intros l i Hi; [lia |]. destruct l as [| a l]; [destruct i; reflexivity |].
  destruct i as [| i]; [reflexivity |]. cbn. apply IH. lia.
Qed.

Section RebinGeneral.
Variable n : nat.                    (* nd, the number of bins in use *)
Variable r row : list R.
Variable rc : R.
Hypothesis n2 : (2 <= n)%nat.
Hypothesis r_len : length r = n.
Hypothesis r_pos : forall i, (i < n)%nat -> 0 < nth i r 0.
Hypothesis row_len : (n <= length row)%nat.
Hypothesis row_mono : forall i j, (i <= j < n)%nat -> nth i row 0 <= nth j row 0.
Hypothesis row_0 : 0 <= nth 0 row 0.
Hypothesis row_1 : nth (n - 1) row 0 <= 1.
Hypothesis rc_pos : 0 < rc.
Hypothesis rc_sum : psum r n = INR n * rc.

(** the left edges of the bins: X 0 = 0, X k = xi[k-1] *)
Definition X (k : nat) : R := match k with O => 0 | S m => nth m row 0 end.

Lemma X_mono i j : (i <= j <= n)%nat -> X i <= X j.
Proof.
  intros H. destruct i as [| a], j as [| b]; cbn [X]; try lra; try lia.
  - eapply Rle_trans; [exact row_0 | apply row_mono; lia].
  - apply row_mono. lia.
Qed.

(** the point of the old grid that corresponds to "dr of the weight of bin k still to go" *)
Definition P (k : nat) (dr : R) : R :=
  match k with O => 0 | S m => X (S m) - (X (S m) - X m) * dr / nth m r 0 end.

(** the while loop: from (k, dr) with dr = r[0] + .. + r[k-1] - tt it stops at the first k' >= k with r[0] + .. + r[k'-1] - tt >= rc,
    reading only r[k] with k < nd, because two more portions rc are still to come (tt + 2 rc <= the whole sum) *)
Lemma while_ok tt : forall fuel kn dr, (n - kn < fuel)%nat -> (kn <= n)%nat -> dr = psum r kn - tt -> tt + 2 * rc <= psum r n ->
  (kn = 0%nat -> dr < rc) -> (forall m, kn = S m -> dr - rc < nth m r 0) ->
  exists m' dr', rebin_while ROps fuel rc r (Z.of_nat kn) dr = Ok (Z.of_nat (S m'), dr') /\ (kn <= S m' <= n)%nat /\
                 dr' = psum r (S m') - tt /\ rc <= dr' /\ dr' - rc < nth m' r 0 /\ (kn = S m' -> dr' = dr).
Proof.
  induction fuel as [| fuel IH]; intros kn dr Hf Hk Hdr Htt H0 Hm; [lia |].
  destruct (Rlt_dec dr rc) as [Hlt | Hge].
  - assert (Hkn : (kn < n)%nat).
    { destruct (Nat.eq_dec kn n) as [E | E]; [| lia]. subst kn. lra. }
    rewrite (rebin_while_step fuel rc r (Z.of_nat kn) dr (nth kn r 0)); [| exact Hlt | rewrite getZ_nth by lia; rewrite Nat2Z.id; reflexivity].
    replace (Z.of_nat kn + 1)%Z with (Z.of_nat (S kn)) by lia.
    assert (A1 : dr + nth kn r 0 = psum r (S kn) - tt) by (cbn [psum]; lra).
    assert (A2 : S kn = 0%nat -> dr + nth kn r 0 < rc) by (intros; lia).
    assert (A3 : forall m, S kn = S m -> dr + nth kn r 0 - rc < nth m r 0) by (intros m Em; injection Em as Em; subst m; lra).
    destruct (IH (S kn) (dr + nth kn r 0) ltac:(lia) ltac:(lia) A1 Htt A2 A3) as (m' & dr' & E & B & D & G & L & _).
    exists m', dr'. repeat split; try assumption; try lia.
  - rewrite rebin_while_stop by exact Hge.
    destruct kn as [| m]; [specialize (H0 eq_refl); contradiction |].
    exists m, dr. repeat split; try lia; try assumption; try lra. apply Hm. reflexivity.
Qed.

Lemma P_step kn dr m' dr'' : (kn <= S m' <= n)%nat -> 0 <= dr -> (forall m, kn = S m -> dr < nth m r 0) ->
  0 <= dr'' < nth m' r 0 -> (kn = S m' -> dr'' <= dr) -> P kn dr <= P (S m') dr''.
Proof.
  intros Hk Hd Hm Hd2 Heq.
  assert (Hr' : 0 < nth m' r 0) by (apply r_pos; lia).
  assert (HX' : X m' <= X (S m')) by (apply X_mono; lia).
  pose proof (interp_bounds (X m') (X (S m')) dr'' (nth m' r 0) Hr' ltac:(lra) HX') as B'.
  destruct kn as [| m].
  - assert (X 0 <= X m') by (apply X_mono; lia). change (X 0) with 0 in H. unfold P. lra.
  - specialize (Hm m eq_refl).
    assert (Hr : 0 < nth m r 0) by (apply r_pos; lia).
    assert (HX : X m <= X (S m)) by (apply X_mono; lia).
    destruct (Nat.eq_dec m m') as [E | E].
    + subst m'. unfold P. apply interp_mono; try assumption. apply Heq. reflexivity.
    + pose proof (interp_bounds (X m) (X (S m)) dr (nth m r 0) Hr ltac:(lra) HX) as B.
      assert (X (S m) <= X m') by (apply X_mono; lia). unfold P. lra.
Qed.

(** the for loop over the new bins: cnt more bins to go, tt = weight consumed so far *)
Lemma loop_ok : forall cnt kn dr tt xo, (kn <= n)%nat -> dr = psum r kn - tt -> tt + INR (S cnt) * rc <= psum r n -> 0 <= dr ->
  (kn = 0%nat -> dr = 0) -> (forall m, kn = S m -> dr < nth m r 0) -> xo = X (kn - 1) ->
  exists out, rebin_loop ROps cnt rc r row (Z.of_nat kn) dr xo = Ok out /\ length out = cnt /\ chain (P kn dr) out (X n).
Proof.
  induction cnt as [| c IH]; intros kn dr tt xo Hk Hdr Htt Hd H0 Hm Hxo.
  - exists []. repeat split. cbn [chain]. destruct kn as [| m]; [cbn [P]; apply (X_mono 0 n); lia |].
    specialize (Hm m eq_refl). assert (0 < nth m r 0) by (apply r_pos; lia).
    pose proof (interp_bounds (X m) (X (S m)) dr (nth m r 0) H ltac:(lra) ltac:(apply X_mono; lia)) as B.
    assert (X (S m) <= X n) by (apply X_mono; lia). unfold P. lra.
  - cbn [rebin_loop]. rewrite r_len.
    assert (Htt2 : tt + 2 * rc <= psum r n).
    { rewrite !S_INR in Htt. pose proof (pos_INR c). nra. }
    assert (W1 : kn = 0%nat -> dr < rc) by (intros E0; rewrite (H0 E0); exact rc_pos).
    assert (W2 : forall m, kn = S m -> dr - rc < nth m r 0) by (intros m Em; specialize (Hm m Em); lra).
    destruct (while_ok tt (S n) kn dr ltac:(lia) Hk Hdr Htt2 W1 W2) as (m' & dr' & E & B & D & G & L & Q).
    rewrite E. cbn [rbind].
    assert (Exo : (if (Z.of_nat (S m') >? 1)%Z then getZ row (Z.of_nat (S m') - 2) else Ok xo) = Ok (X m')).
    { destruct m' as [| m''].
      - change (Z.of_nat 1 >? 1)%Z with false. cbv iota. subst xo. f_equal.
        destruct kn as [| [| kn]]; [reflexivity | reflexivity | lia].
      - replace (Z.of_nat (S (S m'')) >? 1)%Z with true by (symmetry; apply Z.gtb_lt; lia).
        rewrite getZ_nth by lia. replace (Z.to_nat (Z.of_nat (S (S m'')) - 2)) with m'' by lia. reflexivity. }
    rewrite Exo. cbn [rbind].
    assert (Exn : getZ row (Z.of_nat (S m') - 1) = Ok (nth m' row 0)).
    { rewrite getZ_nth by lia. replace (Z.to_nat (Z.of_nat (S m') - 1)) with m' by lia. reflexivity. }
    assert (Erk : getZ r (Z.of_nat (S m') - 1) = Ok (nth m' r 0)).
    { rewrite getZ_nth by lia. replace (Z.to_nat (Z.of_nat (S m') - 1)) with m' by lia. reflexivity. }
    rewrite Exn, Erk. cbn [rbind].
    change (nsub ROps dr' rc) with (dr' - rc).
    assert (I1 : dr' - rc = psum r (S m') - (tt + rc)) by lra.
    assert (I2 : tt + rc + INR (S c) * rc <= psum r n) by (rewrite !S_INR in *; lra).
    assert (I3 : S m' = 0%nat -> dr' - rc = 0) by (intros; lia).
    assert (I4 : forall m, S m' = S m -> dr' - rc < nth m r 0) by (intros m Em; injection Em as Em; subst m; exact L).
    assert (I5 : X m' = X (S m' - 1)) by (f_equal; lia).
    destruct (IH (S m') (dr' - rc) (tt + rc) (X m') ltac:(lia) I1 I2 ltac:(lra) I3 I4 I5) as (rest & E2 & Hlen & Hch).
    + rewrite E2. cbn [rbind]. eexists. split; [reflexivity |]. split; [cbn [length]; lia |].
      cbn [chain]. split; [| exact Hch].
      apply (P_step kn dr m' (dr' - rc)); try assumption; try lra.
      intros Ek. rewrite (Q Ek). lra.
Qed.

(** Rebin on a grid row: it succeeds, the nd entries in use form an increasing grid in [0,1] ending in 1, the rest of the row is kept *)
Lemma rebin_ok : exists out, rebin ROps rc (Z.of_nat n) r row = Ok (out ++ [1] ++ skipn n row) /\ length out = (n - 1)%nat /\ grid_ok (out ++ [1]).
Proof.
  unfold rebin. replace (Z.to_nat (Z.of_nat n - 1)) with (n - 1)%nat by lia.
  assert (L1 : 0 + INR (S (n - 1)) * rc <= psum r n) by (replace (S (n - 1)) with n by lia; rewrite rc_sum; lra).
  assert (L2 : forall m, 0%nat = S m -> 0 < nth m r 0) by (intros; lia).
  destruct (loop_ok (n - 1) 0 0 0 0 ltac:(lia) ltac:(cbn [psum]; lra) L1 ltac:(lra) ltac:(reflexivity) L2 eq_refl) as (out & E & Hlen & Hch).
  - change (Z.of_nat 0) with 0%Z in E. change (n0 ROps) with 0. rewrite E. cbn [rbind]. rewrite Nat2Z.id.
    exists out. split; [reflexivity |]. split; [exact Hlen |].
    apply chain_grid_ok; [rewrite app_length; cbn; lia |].
    cbn [P] in Hch. eapply chain_snoc; [exact Hch |].
    destruct n as [| m]; [lia |]. cbn [X]. replace m with (S m - 1)%nat by lia. exact row_1.
Qed.
End RebinGeneral.

(** the statement with the hypotheses spelled out on the nd entries in use *)
Theorem rebin_keeps_grid (n : nat) (r row : list R) : (2 <= n)%nat -> length r = n -> Forall (fun x => 0 < x) r ->
  (n <= length row)%nat -> grid_ok (firstn n row) ->
  exists row', rebin ROps (psum r n / INR n) (Z.of_nat n) r row = Ok row' /\
               length row' = length row /\ grid_ok (firstn n row') /\ nth (n - 1) row' 0 = 1 /\ skipn n row' = skipn n row.
Proof.
  intros Hn Hr Hpos Hrow (Hmono & H0 & H1).
  assert (Hfl : length (firstn n row) = n) by (rewrite firstn_length; lia).
  assert (Hp : forall i, (i < n)%nat -> 0 < nth i r 0).
  { intros i Hi. rewrite Forall_forall in Hpos. apply Hpos. apply nth_In. lia. }
  assert (HnR : 0 < INR n) by (apply lt_0_INR; lia).
  assert (R1 : forall i j, (i <= j < n)%nat -> nth i row 0 <= nth j row 0).
  { intros i j Hij. specialize (Hmono i j ltac:(lia)). rewrite !nth_firstn_lt in Hmono by lia. exact Hmono. }
  assert (R2 : 0 <= nth 0 row 0) by (rewrite nth_firstn_lt in H0 by lia; exact H0).
  assert (R3 : nth (n - 1) row 0 <= 1) by (rewrite Hfl, nth_firstn_lt in H1 by lia; exact H1).
  assert (R4 : 0 < psum r n / INR n) by (apply Rdiv_lt_0_compat; [apply psum_pos; [lia | exact Hp] | exact HnR]).
  assert (R5 : psum r n = INR n * (psum r n / INR n)) by (field; lra).
  destruct (rebin_ok n r row (psum r n / INR n) Hn Hr Hp Hrow R1 R2 R3 R4 R5) as (out & E & Hlen & Hg).
  - exists (out ++ [1] ++ skipn n row). split; [exact E |].
    assert (Hl1 : length (out ++ [1]) = n) by (rewrite app_length; cbn; lia).
    destruct Hg as (G1 & G2 & G3).
    rewrite app_assoc. repeat split.
    + rewrite app_length, Hl1, skipn_length. lia.
    + rewrite (firstn_app_len n _ _ Hl1). exact G1.
    + rewrite (firstn_app_len n _ _ Hl1). exact G2.
    + rewrite (firstn_app_len n _ _ Hl1). exact G3.
    + rewrite app_nth1 by lia. rewrite app_nth2 by lia. replace (n - 1 - length out)%nat with 0%nat by lia. reflexivity.
    + rewrite <- Hl1 at 1. rewrite skipn_app, skipn_all, Nat.sub_diag. reflexivity.
Qed.

(** ** The refinement of the grid at the end of a Vegas iteration *)
Lemma smooth_rest_length : forall rest xo xn dt, length (fst (smooth_rest ROps xo xn rest dt)) = S (length rest).
Proof.
  induction rest as [| di rest IH]; intros xo xn dt; cbn [smooth_rest]; cbv zeta; [reflexivity |].
  match goal with |- context [smooth_rest ROps ?a ?b rest ?d] => specialize (IH a b d); destruct (smooth_rest ROps a b rest d) as [l dt'] end.
  cbn in *. lia.
Qed.

Lemma smooth_col_ok col : (2 <= length col)%nat -> exists col' dt, smooth_col ROps col = Ok (col', dt) /\ length col' = length col.
Proof.
  intros H. destruct col as [| d0 [| d1 rest]]; cbn in H; try lia.
  cbn [smooth_col]. cbv zeta.
  match goal with |- context [smooth_rest ROps ?a ?b rest ?d] => pose proof (smooth_rest_length rest a b d) as L; destruct (smooth_rest ROps a b rest d) as [l dt'] end.
  eexists; eexists; split; [reflexivity |]. cbn in *. lia.
Qed.

(** the weights r[i] = pow(..., ALPH) are positive (over the reals pow is exp (y ln x)), and rc is their sum *)
Lemma refine_r_spec dt : forall col acc,
  length (fst (refine_r ROps col dt acc)) = length col /\
  snd (refine_r ROps col dt acc) = acc + psum (fst (refine_r ROps col dt acc)) (length col) /\
  Forall (fun x => 0 < x) (fst (refine_r ROps col dt acc)).
Proof.
  induction col as [| di col IH]; intros acc; cbn [refine_r]; cbv zeta.
  - cbn. repeat split; [ring | constructor].
  - match goal with |- context [refine_r ROps col dt ?a] => specialize (IH a); destruct (refine_r ROps col dt a) as [r rc'] end.
    cbn [fst snd length] in *. destruct IH as (L & S & F). repeat split.
    + lia.
    + rewrite psum_cons, S. cbn. ring.
    + constructor; [| exact F]. cbn. unfold Rpower. apply exp_pos.
Qed.

Theorem vegas_refine_keeps_grid (s : @vstate R) (n : nat) : (2 <= n)%nat -> v_nd s = Z.of_nat n -> v_xnd s = INR n ->
  forall d rows, length d = length rows -> Forall (fun col => length col = n) d -> Forall (fun row => grid_ok row /\ length row = n) rows ->
  exists rows', vegas_refine ROps s d rows = Ok rows' /\ length rows' = length rows /\ Forall (fun row => grid_ok row /\ length row = n) rows'.
Proof.
  intros Hn Hnd Hxnd. induction d as [| col d IH]; intros rows Hl Hd Hr.
  - destruct rows; [| discriminate]. exists []. repeat split. constructor.
  - destruct rows as [| row rows]; [discriminate |].
    inversion Hd as [| ? ? Hc Hd']; subst. inversion Hr as [| ? ? [Hg Hrl] Hr']; subst.
    cbn [vegas_refine].
    destruct (smooth_col_ok col ltac:(lia)) as (col' & dt & E & L). rewrite E. cbn [rbind].
    destruct (IH rows ltac:(cbn in Hl; lia) Hd' Hr') as (rest & E2 & L2 & F2).
    assert (Hrow : exists row', (if nleb ROps dt (n0 ROps) then Ok row
                                 else let '(r, rc) := refine_r ROps col' dt (n0 ROps) in rebin ROps (ndiv ROps rc (v_xnd s)) (v_nd s) r row) = Ok row'
                                /\ grid_ok row' /\ length row' = length row).
    { destruct (nleb ROps dt (n0 ROps)); [exists row; split; [reflexivity | split; [exact Hg | reflexivity]] |].
      destruct (refine_r_spec dt col' (n0 ROps)) as (Lr & Sr & Fr).
      destruct (refine_r ROps col' dt (n0 ROps)) as [r rc]. cbn [fst snd] in *.
      destruct (rebin_keeps_grid (length col) r row Hn ltac:(lia) Fr ltac:(lia) ltac:(rewrite <- Hrl, firstn_all; exact Hg)) as (row' & Er & Lr' & Gr & _).
      exists row'. split; [| split; [| exact Lr']].
      - rewrite Hnd, Hxnd, Sr, L. replace (n0 ROps + psum r (length col)) with (psum r (length col)) by (cbn; ring). exact Er.
      - rewrite <- Hrl, <- Lr' in Gr. rewrite firstn_all in Gr. exact Gr. }
    destruct Hrow as (row' & Erow & Grow & Lrow). rewrite Erow. cbn [rbind]. rewrite E2. cbn [rbind].
    exists (row' :: rest). repeat split; [cbn; lia | constructor; [split; [exact Grow | lia] | exact F2]].
Qed.

(** ** Vegas looks at the integrand only inside the region, in every iteration: the grid stays a grid through every refinement *)
Lemma add_at_length : forall (col : list R) i v c, add_at ROps col i v = Ok c -> length c = length col.
Proof.
  induction col as [| a col IH]; intros i v c H; [discriminate |].
  destruct i as [| i]; cbn [add_at] in H; [injection H as <-; reflexivity |].
  destruct (add_at ROps col i v) as [c' | | |] eqn:E; cbn [rbind] in H; try discriminate.
  injection H as <-. cbn. rewrite (IH _ _ _ E). reflexivity.
Qed.

Lemma d_add_cols (n : nat) : forall (d : list (list R)) ias v d', d_add ROps d ias v = Ok d' ->
  Forall (fun col => length col = n) d -> Forall (fun col => length col = n) d' /\ length d' = length d.
Proof.
  induction d as [| col d IH]; intros ias v d' H F.
  - destruct ias; cbn in H; injection H as H; subst d'; (split; [exact F | reflexivity]).
  - destruct ias as [| ia ias]; [cbn in H; injection H as H; subst d'; (split; [exact F | reflexivity]) |].
    cbn [d_add] in H. inversion F as [| ? ? Fc Fd]; subst.
    destruct (if (ia <? 1)%Z then OOB else add_at ROps col (Z.to_nat (ia - 1)) v) as [c | | |] eqn:E; cbn [rbind] in H; try discriminate.
    destruct (d_add ROps d ias v) as [rest | | |] eqn:E2; cbn [rbind] in H; try discriminate.
    injection H as <-. destruct (IH _ _ _ E2 Fd) as [F' L']. split; [| cbn; lia].
    constructor; [| exact F']. destruct (ia <? 1)%Z; [discriminate |]. exact (add_at_length _ _ _ _ E).
Qed.

Lemma kg_advance_ok (ng : Z) : (1 <= ng)%Z -> forall kg, Forall (fun g => (1 <= g <= ng)%Z) kg ->
  Forall (fun g => (1 <= g <= ng)%Z) (fst (kg_advance kg ng)) /\ length (fst (kg_advance kg ng)) = length kg.
Proof.
  intros Hng. induction kg as [| g kg IH]; intros F; [split; [constructor | reflexivity] |].
  inversion F as [| ? ? Hg F']; subst. cbn [kg_advance].
  assert (Hr : (1 <= Z.rem g ng + 1 <= ng)%Z).
  { destruct (Z.eq_dec g ng) as [-> | Ne]; [rewrite Z.rem_same by lia; lia | rewrite Z.rem_small by lia; lia]. }
  destruct (Z.rem g ng + 1 =? 1)%Z.
  - destruct (kg_advance kg ng) as [r dn] eqn:E. destruct (IH F') as [A B]. cbn [fst] in *. split; [constructor; assumption | cbn; lia].
  - cbn [fst]. split; [constructor; assumption | reflexivity].
Qed.

Section VegasInside.
Variable us : Z -> R.
Hypothesis us_open : forall k, 0 < us k < 1.
Variable region : list R.
Variable dxs : list R.
Variables f f' : list R -> R.
(** the two integrands agree on the box spanned by the limits region[j], region[j] + dx[j] *)
Hypothesis f_agree : forall pt, cbox (lows region) (map (fun q => fst q + snd q) (combine (lows region) dxs)) pt -> f pt = f' pt.
Variable n : nat.

(** the statics in use during the iterations of a call: nd = n bins per axis, every grid row increasing in [0,1] *)
Definition vlive_ok (s : @vstate R) : Prop :=
  (2 <= n <= 50)%nat /\ v_nd s = Z.of_nat n /\ v_xnd s = INR n /\ (1 <= v_ng s)%Z /\ v_dxg s = 1 / IZR (v_ng s) * INR n /\
  length (v_xi s) = rdim region /\ Forall (fun row => grid_ok row /\ length row = n) (v_xi s) /\
  v_dx s = dxs /\ length dxs = rdim region /\ Forall (fun d => 0 <= d) dxs.

Definition d_ok (d : list (list R)) : Prop := Forall (fun col => length col = n) d /\ length d = rdim region.
Definition kgs_ok (s : @vstate R) (kgs : list Z) : Prop := Forall (fun g => (1 <= g <= v_ng s)%Z) kgs /\ length kgs = rdim region.

Lemma vegas_cell_ext s : vlive_ok s -> forall kgs, kgs_ok s kgs -> forall m fb f2b d ias pos,
  vegas_cell ROps us m f s (v_xi s) region kgs fb f2b d ias pos = vegas_cell ROps us m f' s (v_xi s) region kgs fb f2b d ias pos.
Proof.
  intros (Hn & Hnd & Hxnd & Hng & Hdxg & Hxl & Hrows & Hdx & Hdl & Hdp) kgs [Hk Hkl].
  induction m as [| m IH]; intros fb f2b d ias pos; [reflexivity |].
  cbn [vegas_cell]. rewrite Hdx, Hdxg, Hxnd.
  destruct (vegas_sample_inside us us_open (v_ng s) n ltac:(lia) Hng kgs (v_xi s) (lows region) dxs (v_xjac s) pos Hk Hrows Hdp
              ltac:(lia) ltac:(rewrite lows_length; lia) ltac:(lia)) as (xs & ias' & w & p & E & Hin & _).
  rewrite E. cbn [rbind]. rewrite (f_agree xs Hin).
  match goal with |- rbind ?a _ = _ => destruct a as [d' | | |] end; cbn [rbind]; try reflexivity.
  apply IH.
Qed.

Lemma vegas_cell_cols s kgs : forall m fb f2b d ias pos fb' f2b' d' ias' pos',
  vegas_cell ROps us m f s (v_xi s) region kgs fb f2b d ias pos = Ok (fb', f2b', d', ias', pos') -> d_ok d -> d_ok d'.
Proof.
  induction m as [| m IH]; intros fb f2b d ias pos fb' f2b' d' ias' pos' H D; cbn [vegas_cell] in H.
  - injection H as _ _ <- _ _. exact D.
  - destruct (vegas_sample ROps us kgs (v_xi s) (lows region) (v_dx s) (v_dxg s) (v_xnd s) (v_xjac s) pos) as [[[[x ias1] wgt] pos1] | | |];
      cbn [rbind] in H; try discriminate.
    destruct (if (v_mds s >=? 0)%Z then _ else _) as [d1 | | |] eqn:E; cbn [rbind] in H; try discriminate.
    apply (IH _ _ _ _ _ _ _ _ _ _ H).
    destruct (v_mds s >=? 0)%Z; [| injection E as <-; exact D].
    destruct D as [D1 D2]. destruct (d_add_cols n _ _ _ _ E D1) as [A B]. split; [exact A | lia].
Qed.

Definition st_ok (s : @vstate R) (st : res (bool * list Z * R * R * list (list R) * Z)) : Prop :=
  match st with Ok (_, kgs, _, _, d, _) => kgs_ok s kgs /\ d_ok d | _ => True end.

Lemma vegas_cells_step_ext s : vlive_ok s -> forall st, st_ok s st ->
  vegas_cells_step ROps us f s (v_xi s) region st = vegas_cells_step ROps us f' s (v_xi s) region st /\
  st_ok s (vegas_cells_step ROps us f s (v_xi s) region st).
Proof.
  intros L st Hst. unfold vegas_cells_step.
  destruct st as [[[[[[dn kgs] ti] tsi] d] pos] | | |]; cbn [rbind]; try (split; [reflexivity | exact I]).
  destruct Hst as [K D]. destruct dn; [split; [reflexivity | split; assumption] |].
  rewrite <- (vegas_cell_ext s L kgs K).
  destruct (vegas_cell ROps us _ f s (v_xi s) region kgs (n0 ROps) (n0 ROps) d [] pos) as [[[[[fb f2b] d1] ias] pos'] | | |] eqn:E;
    cbn [rbind]; try (split; [reflexivity | exact I]).
  split; [reflexivity |].
  pose proof (vegas_cell_cols s kgs _ _ _ _ _ _ _ _ _ _ _ E D) as D1.
  match goal with |- context [if (v_mds s <? 0)%Z then ?a else ?b] => destruct (if (v_mds s <? 0)%Z then a else b) as [d2 | | |] eqn:E2 end;
    cbn [rbind st_ok]; try exact I.
  destruct L as (_ & _ & _ & Hng & _). destruct K as [K1 K2].
  pose proof (kg_advance_ok (v_ng s) Hng (rev kgs) ltac:(apply Forall_rev; exact K1)) as [A B].
  destruct (kg_advance (rev kgs) (v_ng s)) as [kg' dn']. cbn [fst st_ok] in *. split.
  - split; [apply Forall_rev; exact A | rewrite rev_length, B, rev_length; exact K2].
  - destruct (v_mds s <? 0)%Z; [| injection E2 as <-; exact D1].
    destruct D1 as [D11 D12]. destruct (d_add_cols n _ _ _ _ E2 D11) as [A' B']. split; [exact A' | lia].
Qed.

Lemma vegas_cells_iter_ext s : vlive_ok s -> forall (k : N) st, st_ok s st ->
  N.iter k (vegas_cells_step ROps us f s (v_xi s) region) st = N.iter k (vegas_cells_step ROps us f' s (v_xi s) region) st /\
  st_ok s (N.iter k (vegas_cells_step ROps us f s (v_xi s) region) st).
Proof.
  intros L k st Hst. induction k as [| k IH] using N.peano_ind; [split; [reflexivity | exact Hst] |].
  rewrite !N.iter_succ. destruct IH as [E S]. rewrite <- E.
  apply vegas_cells_step_ext; assumption.
Qed.

Lemma vegas_cells_ext s d pos : vlive_ok s -> d_ok d ->
  vegas_cells ROps us f s (v_xi s) region d pos = vegas_cells ROps us f' s (v_xi s) region d pos /\
  match vegas_cells ROps us f s (v_xi s) region d pos with Ok (_, _, d', _) => d_ok d' | _ => True end.
Proof.
  intros L D. unfold vegas_cells.
  assert (S0 : st_ok s (Ok (false, repeat 1%Z (rdim region), n0 ROps, n0 ROps, d, pos))).
  { split; [| exact D]. split; [| apply repeat_length].
    destruct L as (_ & _ & _ & Hng & _). apply Forall_forall. intros g Hg. apply repeat_spec in Hg. subst g. lia. }
  destruct (vegas_cells_iter_ext s L (Z.to_N (zpow (v_ng s) (rdim region))) _ S0) as [E S]. rewrite <- E.
  destruct (N.iter _ _ _) as [[[[[[dn kgs] ti1] tsi1] d1] pos1] | | |]; cbn [rbind]; try (split; [reflexivity | exact I]).
  split; [reflexivity |]. destruct dn; [apply S | exact I].
Qed.

(** all iterations: the same value, the same statics, the same number of draws, for two integrands that agree on the region *)
Theorem vegas_iterations_points_inside : forall itmx s integral pos, vlive_ok s ->
  vegas_iterations ROps us itmx f s region integral pos = vegas_iterations ROps us itmx f' s region integral pos.
Proof.
  induction itmx as [| itmx IH]; intros s integral pos L; [reflexivity |].
  cbn [vegas_iterations].
  pose proof L as (Hn & Hnd & Hxnd & Hng & Hdxg & Hxl & Hrows & Hdx & Hdl & Hdp).
  assert (D0 : d_ok (repeat (repeat (n0 ROps) (Z.to_nat (v_nd s))) (rdim region))).
  { split; [| apply repeat_length]. apply Forall_forall. intros c Hc. apply repeat_spec in Hc. subst c. rewrite repeat_length, Hnd. lia. }
  destruct (vegas_cells_ext s _ pos L D0) as [E D]. rewrite <- E.
  destruct (vegas_cells ROps us f s (v_xi s) region _ pos) as [[[[ti tsi] d] pos1] | | |]; cbn [rbind]; try reflexivity.
  destruct (nisnan ROps _); [reflexivity |].
  destruct D as [D1 D2].
  destruct (vegas_refine_keeps_grid s n ltac:(lia) Hnd Hxnd d (v_xi s) ltac:(lia) D1 Hrows) as (rows' & E2 & L2 & F2).
  rewrite E2. cbn [rbind]. apply IH.
  repeat split; cbn [v_nd v_xnd v_ng v_dxg v_xi v_dx]; try assumption; try lia.
Qed.
End VegasInside.

(** ** The whole call: Integrate_MC_Vegas with init = 0 from any statics *)
Definition widths (region : list R) : list R := map (fun q => snd q - fst q) (combine (lows region) (highs region)).

Lemma dx_jac_fst lo : forall hi x, fst (dx_jac ROps lo hi x) = map (fun q => snd q - fst q) (combine lo hi).
Proof.
  induction lo as [| l lo IH]; intros hi x; [reflexivity |]. destruct hi as [| h hi]; [reflexivity |].
  cbn [dx_jac combine map]. specialize (IH hi (nmul ROps x (nsub ROps h l))).
  destruct (dx_jac ROps lo hi (nmul ROps x (nsub ROps h l))) as [dxs xj]. cbn [fst snd] in *. rewrite IH. reflexivity.
Qed.

Lemma lows_plus_widths lo : forall hi, length lo = length hi ->
  map (fun q => fst q + snd q) (combine lo (map (fun q => snd q - fst q) (combine lo hi))) = hi.
Proof.
  induction lo as [| l lo IH]; intros hi H; destruct hi as [| h hi]; try discriminate; [reflexivity |].
  cbn. rewrite IH by (cbn in H; lia). f_equal. ring.
Qed.

Lemma widths_nonneg lo : forall hi, ordered lo hi -> Forall (fun d => 0 <= d) (map (fun q => snd q - fst q) (combine lo hi)).
Proof.
  induction lo as [| l lo IH]; intros hi H; [constructor |]. destruct hi as [| h hi]; [constructor |].
  cbn in H. destruct H as [H1 H2]. cbn. constructor; [lra | apply IH; exact H2].
Qed.

Lemma unif_chain rc : 0 <= rc -> forall cnt i, chain (IZR i * rc) (unif rc i cnt) (IZR (i + Z.of_nat cnt) * rc).
Proof.
  intros Hrc. induction cnt as [| c IH]; intros i.
  - cbn. rewrite Z.add_0_r. lra.
  - cbn [unif chain]. split; [rewrite plus_IZR; nra |].
    replace (i + Z.of_nat (S c))%Z with (i + 1 + Z.of_nat c)%Z by lia. apply IH.
Qed.

Lemma fresh_row_ok (nd : Z) : (2 <= nd)%Z -> grid_ok (fresh_row nd) /\ length (fresh_row nd) = Z.to_nat nd.
Proof.
  intros H. unfold fresh_row.
  assert (L : length (unif (1 / IZR nd) 0 (Z.to_nat (nd - 1)) ++ [1]) = Z.to_nat nd) by (rewrite app_length, unif_length; cbn; lia).
  assert (Ef : firstn (Z.to_nat nd) (unif (1 / IZR nd) 0 (Z.to_nat (nd - 1)) ++ [1]) = unif (1 / IZR nd) 0 (Z.to_nat (nd - 1)) ++ [1]) by (rewrite <- L; apply firstn_all).
  rewrite Ef. split; [| exact L].
  assert (Hnd : 2 <= IZR nd) by (apply IZR_le in H; exact H).
  assert (Hrc : 0 <= 1 / IZR nd) by (apply Rlt_le, Rdiv_lt_0_compat; lra).
  apply chain_grid_ok; [lia |].
  pose proof (unif_chain (1 / IZR nd) Hrc (Z.to_nat (nd - 1)) 0) as C. rewrite Rmult_0_l in C.
  eapply chain_snoc; [exact C |].
  replace (0 + Z.of_nat (Z.to_nat (nd - 1)))%Z with (nd - 1)%Z by lia. rewrite minus_IZR.
  apply Rmult_le_reg_r with (IZR nd); [lra |]. replace ((IZR nd - 1) * (1 / IZR nd) * IZR nd) with (IZR nd - 1) by (field; lra). lra.
Qed.

Lemma rpower_ge_1 x y : 1 <= x -> 0 <= y -> 1 <= Rpower x y.
Proof.
  intros Hx Hy. unfold Rpower.
  assert (0 <= ln x).
  { destruct (Req_dec x 1) as [-> | Ne]; [rewrite ln_1; lra | left; rewrite <- ln_1; apply ln_increasing; lra]. }
  assert (H0 : 0 <= y * ln x) by nra.
  destruct H0 as [H0 | <-]; [| rewrite exp_0; lra]. left. rewrite <- exp_0. apply exp_increasing. exact H0.
Qed.

Lemma vegas_init_live_ok s region ncall s1 :
  wf_statics s -> (1 <= rdim region <= 10)%nat -> (2 <= ncall)%Z -> ordered (lows region) (highs region) ->
  vegas_init ROps s region 0 ncall = Ok s1 -> exists n, vlive_ok region (widths region) n (vegas_live region s1).
Proof.
  intros [L1 N1] Hd Hnc Hord.
  unfold vegas_init.
  change (0 <=? 0)%Z with true. change (0 <=? 1)%Z with true. change (0 <=? 2)%Z with true. cbv beta iota zeta.
  change (negb (1 =? 0)%Z) with true. cbv beta iota zeta.
  set (ng0 := ntrunc ROps _).
  assert (Hng0 : (1 <= ng0)%Z).
  { unfold ng0. match goal with |- (1 <= ntrunc ROps ?x)%Z =>
      assert (Hx : 1 <= x);
      [ apply rpower_ge_1;
        [ cbn; apply IZR_le in Hnc; lra
        | change (0 <= 1 / IZR (Z.of_nat (rdim region))); left; apply Rdiv_lt_0_compat; [lra | apply IZR_lt; lia] ]
      | destruct (trunc_bounds x ltac:(lra)) as [T1 T2]; apply Z.lt_succ_r, lt_IZR; rewrite succ_IZR; lra ] end. }
  assert (Hw : fst (dx_jac ROps (lows region) (highs region) (ndiv ROps (nofZ ROps 1) (nmul ROps (nofZ ROps (Z.max (Z.quot ncall (zpow ng0 (rdim region))) 2)) (nofZ ROps (zpow ng0 (rdim region)))))) = widths region) by apply dx_jac_fst.
  clear Hw.
  destruct (2 * ng0 - NDMX >=? 0)%Z eqn:G; cbv beta iota zeta.
  all: match goal with |- context [vegas_grid_reset ROps ?nd 1 _ _ _] =>
    destruct (grid_reset_live nd (rdim region) (v_xi s) ltac:(lia) N1) as (xa & Ea & Fa); set (ndv := nd) in * end.
  all: match goal with |- context [dx_jac ROps ?a ?b ?c] => pose proof (dx_jac_fst a b c) as Hw; destruct (dx_jac ROps a b c) as [dx xjac] end; cbn [fst] in Hw.
  all: rewrite Ea; cbn [rbind]; intros H; injection H as <-.
  all: assert (Hndv : (2 <= ndv <= 50)%Z).
  1: { unfold ndv, NDMX in *. apply Z.geb_le in G. assert (P : (25 <= ng0)%Z) by lia.
       rewrite (Z.quot_div_nonneg ng0 50) by lia.
       assert (Q : (0 <= ng0 / 50)%Z) by (apply Z.div_pos; lia).
       rewrite Z.quot_div_nonneg by lia.
       assert (50 * (ng0 / 50) <= ng0)%Z by (apply Z.mul_div_le; lia).
       assert (ng0 < 50 * (ng0 / 50 + 1))%Z by (pose proof (Z.mod_pos_bound ng0 50 ltac:(lia)); pose proof (Z.div_mod ng0 50 ltac:(lia)); lia).
       split; [apply Z.div_le_lower_bound; lia |].
       assert (ng0 / (ng0 / 50 + 1) < 50)%Z by (apply Z.div_lt_upper_bound; lia). lia. }
  2: { unfold ndv, NDMX. lia. }
  all: exists (Z.to_nat ndv); unfold vlive_ok, vegas_live;
       cbn [v_mds v_ndo v_nd v_ng v_npg v_calls v_dv2g v_dxg v_xnd v_xjac v_si v_swgt v_schi v_dx v_xi].
  all: assert (HI : nofZ ROps ndv = INR (Z.to_nat ndv)) by (rewrite INR_IZR_INZ, Z2Nat.id by lia; reflexivity).
  all: assert (Lw : length (widths region) = rdim region) by
         (unfold widths; rewrite map_length, combine_length, lows_length, highs_length; lia).
  all: rewrite Fa, Hw; fold (widths region); rewrite (firstn_app_len (rdim region) (widths region) _ Lw).
  all: repeat split; try lia; try exact HI; try (rewrite repeat_length; reflexivity); try (apply widths_nonneg; exact Hord);
       try (apply Forall_forall; intros row Hrow; apply repeat_spec in Hrow; subst row; apply fresh_row_ok; lia).
  all: try (cbn [ndiv nmul ROps]; rewrite <- HI; reflexivity).
  assert (Q : (0 <= ng0 ÷ NDMX)%Z) by (apply Z.quot_pos; unfold NDMX; lia). nia.
Qed.

(** Integrate_MC_Vegas called with init = 0 from whatever statics looks at the integrand only inside the region, in all its iterations:
    two integrands that agree on the box give the same value and leave the same statics behind *)
Theorem vegas_points_inside (us : Z -> R) (us_open : forall k, 0 < us k < 1) s f f' region ncall itmx :
  wf_statics s -> (1 <= rdim region <= 10)%nat -> (2 <= ncall)%Z -> ordered (lows region) (highs region) ->
  (forall pt, cbox (lows region) (highs region) pt -> f pt = f' pt) ->
  vegas ROps us s f region 0 ncall itmx = vegas ROps us s f' region 0 ncall itmx.
Proof.
  intros W Hd Hnc Hord Hff. unfold vegas.
  destruct (vegas_init ROps s region 0 ncall) as [s1 | | |] eqn:E; cbn [rbind]; try reflexivity.
  destruct (vegas_init_live_ok s region ncall s1 W Hd Hnc Hord E) as (n & L).
  rewrite (vegas_iterations_points_inside us us_open region (widths region) f f') with (n := n); [reflexivity | | exact L].
  intros pt Hpt. apply Hff. unfold widths in Hpt. rewrite lows_plus_widths in Hpt by (rewrite lows_length, highs_length; reflexivity). exact Hpt.
Qed.

Theorem integrate_mc_vegas_points_inside (us : Z -> R) (us_open : forall k, 0 < us k < 1) s f f' region ncalls :
  wf_statics s -> (1 <= rdim region <= 10)%nat -> (2 <= ncalls)%Z -> ordered (lows region) (highs region) ->
  (forall pt, cbox (lows region) (highs region) pt -> f pt = f' pt) ->
  integrate_mc ROps us s M_Vegas f region ncalls = integrate_mc ROps us s M_Vegas f' region ncalls.
Proof. intros. unfold integrate_mc. apply vegas_points_inside; assumption. Qed.

(** non-vacuity *)
Example rebin_example : (2 <= 3)%nat /\ length [1; 2; 3] = 3%nat /\ Forall (fun x => 0 < x) [1; 2; 3] /\ grid_ok (firstn 3 [1 / 4; 1 / 2; 1; 7]).
Proof. repeat split; try lia; try (repeat constructor; lra); cbn; try lra. intros i j H. cbn in H. destruct i as [| [| [| i]]], j as [| [| [| j]]]; cbn; try lra; lia. Qed.
Example vegas_call_example :
  let region := [0; -1; 3; 1; 2; 5] in
  wf_statics (vstate0 ROps) /\ (1 <= rdim region <= 10)%nat /\ (2 <= 1000)%Z /\ ordered (lows region) (highs region).
Proof. split; [exact wf_statics_fresh_process |]. cbn. repeat split; try lra; lia. Qed.
