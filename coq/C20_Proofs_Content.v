(** * C20 — what the reading calls answer is a function of the CONTENT of the file at their path and of their
    arguments, nothing else: not of the calls made before, not of what the path held earlier, not of any other file.
    (The model's calls carry no memory besides the file system; an implementation that remembers a file by its
    path / size / time stamp / entry count and answers from memory differs from this model as soon as the content
    changes under unchanged metadata — the `session:metadata-twins` cases of checks/C20.py aim at exactly that.) *)
From Coq Require Import ZArith Bool List Arith.
From LP Require Import Num C20_Model.
Import ListNotations.

Section Content.
Context {T : Type} (Ops : NumOps T) (fmt6 : T -> T).

(** the calls that read the file at a path *)
Definition reads (o : @io_op T) : option nat :=
  match o with
  | OImportList p _ _ | OImportTable p _ _ | OCountLines p | OFileExists p => Some p
  | _ => None
  end.

(** the answer of one call (the process terminated = [Exit]) *)
Definition answer (fs : @fsys T) (o : @io_op T) : res (@io_out T) :=
  rbind (io_step Ops fmt6 fs o) (fun r => Ok (snd r)).

Lemma read_depends_on_content_only (fs1 fs2 : @fsys T) (o : @io_op T) p :
  reads o = Some p -> fs_get fs1 p = fs_get fs2 p -> answer fs1 o = answer fs2 o.
Proof.
  unfold answer. destruct o; cbn [reads]; intros E H; inversion E; subst; cbn [io_step]; rewrite H;
    try reflexivity; match goal with |- context [rbind ?r _] => destruct r; reflexivity end.
Qed.

Lemma read_leaves_files (fs fs' : @fsys T) (o : @io_op T) p a :
  reads o = Some p -> io_step Ops fmt6 fs o = Ok (fs', a) -> fs' = fs.
Proof.
  destruct o; cbn [reads]; intros E; inversion E; subst; cbn [io_step];
    try (destruct (import_list _ _ _ _); cbn; intros H; inversion H; reflexivity);
    try (destruct (import_table _ _ _ _); cbn; intros H; inversion H; reflexivity);
    intros H; inversion H; reflexivity.
Qed.

(** ... in particular after two sessions of ANY calls from ANY initial file systems, and compared with a fresh
    process whose file system holds nothing but that file *)
Theorem session_read_depends_on_content_only
    (fsA fsB fs1 fs2 : @fsys T) (opsA opsB : list (@io_op T)) outsA outsB (o : @io_op T) p :
  io_run Ops fmt6 fsA opsA = Ok (fs1, outsA) -> io_run Ops fmt6 fsB opsB = Ok (fs2, outsB) ->
  reads o = Some p -> fs_get fs1 p = fs_get fs2 p ->
  answer fs1 o = answer fs2 o.
Proof. intros _ _. apply read_depends_on_content_only. Qed.

Theorem read_as_fresh_process (fs : @fsys T) (o : @io_op T) p f :
  reads o = Some p -> fs_get fs p = Some f -> answer fs o = answer (fs_put [] p f) o.
Proof.
  intros E H. apply (read_depends_on_content_only _ _ o p E). rewrite H. cbn. rewrite Nat.eqb_refl. reflexivity.
Qed.
End Content.

(** non-vacuity / the shape of the claim: a 2 x 3 table, then its transpose (same tokens, same size, same number of
    lines of header and of entries) at the same path: the second import answers the transpose *)
Example twin_example :
  let Ops := {| n0 := 0%Z; n1 := 1%Z; nadd := Z.add; nsub := Z.sub; nmul := Z.mul; ndiv := Z.div; nneg := Z.opp; nabs := Z.abs;
                nsqrt := Z.sqrt; nltb := Z.ltb; nleb := Z.leb; neqb := Z.eqb; nofZ := fun z => z; nisnan := fun _ => false;
                nexp := fun z => z; nln := fun z => z; nlog10 := fun z => z; nsin := fun z => z; ncos := fun z => z; nacos := fun z => z;
                nfloor := fun z => z; nerf := fun z => z; npow := Z.pow; npowi := Z.pow; nlit := fun n _ _ _ => n; ntrunc := fun z => z |} in
  rbind (io_run Ops (fun z => z) []
     [OExportTable 0 [] [[1;2;3];[4;5;6]]%Z []; OImportTable 0 [] 0;
      OExportTable 0 [] [[1;4];[2;5];[3;6]]%Z []; OImportTable 0 [] 0]) (fun r => Ok (snd r)) =
  Ok [RUnit; RTable [[1;2;3];[4;5;6]]%Z; RUnit; RTable [[1;4];[2;5];[3;6]]%Z].
Proof. vm_compute. reflexivity. Qed.
