(** * C04 model, part 5: the stream insertion operators (src/Linear_Algebra.cpp,
    std::ostream& operator<<(std::ostream&, const Vector&) and (std::ostream&, const Matrix&)).
    What the code inserts into the stream is modelled as the list of the items it inserts, in order:
    a number ([PNum x] = `output << v[i]` / `output << M[i][j]`; how the stream formats a double is the
    stream's business and not modelled) or one of the fixed strings of the source.  The entries are read
    through the const operator[] exactly as the code does ([v_at] / [m_at]: exit when the outer index is not
    below dimension / rows, OOB when the storage is shorter than the shape members say).
    The loop bounds `v.Size() - 1`, `M.Columns() - 1`, `M.Rows() - 1` are unsigned subtractions; they are only
    evaluated inside loops that run when the size is at least 1, where they agree with the nat subtraction. *)
From Coq Require Import ZArith List Bool Arith.
From LP Require Import Num C04_Model C04_State.
Import ListNotations.

(** the items inserted into the stream *)
Inductive ptok (T : Type) : Type :=
| PNum (x : T)   (* output << <double> *)
| PLP            (* "("  *)
| PCM            (* " , " *)
| PRP            (* ")"  *)
| PLC | PRC      (* "⌈" , "⌉" : first row *)
| PLF | PRF      (* "⌊" , "⌋" : last row *)
| PBAR           (* "|"  *)
| PTAB           (* "\t" *)
| PNL.           (* std::endl *)
Arguments PNum {T}. Arguments PLP {T}. Arguments PCM {T}. Arguments PRP {T}. Arguments PLC {T}. Arguments PRC {T}.
Arguments PLF {T}. Arguments PRF {T}. Arguments PBAR {T}. Arguments PTAB {T}. Arguments PNL {T}.

(** for(i in l) { insert the items of f i }  - the first exit / out-of-bounds read ends the run *)
Fixpoint pr_seq {A} (f : nat -> res (list A)) (l : list nat) : res (list A) :=
  match l with
  | [] => Ok []
  | i :: r => rbind (f i) (fun a => rbind (pr_seq f r) (fun b => Ok (a ++ b)))
  end.

Section Print.
Context {T : Type}.
Local Open Scope res_scope.

(** operator<<(std::ostream&, const Vector&):
      output << "(";  for(i < v.Size()) { output << v[i]; if(i < (v.Size() - 1)) output << " , "; }  output << ")"; *)
Definition v_print (v : vec T) : res (list (ptok T)) :=
  let* body := pr_seq (fun i => let* x := v_at v i in
                                Ok (PNum x :: (if i <? vdim v - 1 then [PCM] else []))) (seq 0 (vdim v)) in
  Ok (PLP :: body ++ [PRP]).

(** operator<<(std::ostream&, const Matrix&):
      for(i < M.Rows()) {
        if(i == 0) "⌈" else if(i == M.Rows() - 1) "⌊" else "|";
        for(j < M.Columns()) { output << M[i][j];
          if(j < (M.Columns() - 1)) "\t" else if(i == 0) "⌉" else if(i == M.Rows() - 1) "⌋" else "|"; }
        if(i < M.Rows() - 1) output << std::endl; } *)
Definition m_print (M : mat T) : res (list (ptok T)) :=
  pr_seq (fun i =>
    let* row := pr_seq (fun j => let* x := m_at M i j in
                  Ok [PNum x; if j <? mcols M - 1 then PTAB
                              else if i =? 0 then PRC else if i =? mrows M - 1 then PRF else PBAR])
                (seq 0 (mcols M)) in
    Ok ((if i =? 0 then PLC else if i =? mrows M - 1 then PLF else PBAR)
          :: row ++ (if i <? mrows M - 1 then [PNL] else [])))
  (seq 0 (mrows M)).

(** the numbers of a printout, in the order in which they were inserted *)
Definition nums (l : list (ptok T)) : list T :=
  flat_map (fun t => match t with PNum x => [x] | _ => [] end) l.
(** the number of line ends *)
Definition newlines (l : list (ptok T)) : nat :=
  length (filter (fun t => match t with PNL => true | _ => false end) l).
End Print.
