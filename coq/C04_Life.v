(** * C04 model, part 3: the life of several objects in one process.
    A session holds matrices M_0 .. and vectors v_0 ..; a step is one member call on ONE of them whose
    operand is a value built for the call or another live object (possibly the object itself, A += A).
    The data members of the classes are (rows, columns, components) resp. (dimension, components) and
    nothing else (include/libphysica/Linear_Algebra.hpp), so
      - a member that changes its object is a function  old object -> new object   ([m_mut], [v_mut]),
      - a const member (Return_Row/Column, Transpose, Trace, Norm, the predicates, Sub_Matrix, the products,
        operator[] const, ==) is a function of the current value of the object and of its operands alone:
        the driver evaluates the functions of C04_Model.v on [nth k (objects)], it has no way to depend on what was
        called before, nor on which object holds the value.
    ocaml/C04_driver.ml runs [life_m] / [life_v] for the steps of a `life` case (grammar: checks/C04.py). *)
From Coq Require Import ZArith List Bool Arith.
From LP Require Import Num C04_Model C04_State.
Import ListNotations.

Section Life.
Context {T : Type} (Ops : NumOps T).
Local Open Scope res_scope.

(** operand of a member call *)
Inductive marg := MLit (B : mat T) | MObj (k : nat).
Inductive varg := VLit (b : vec T) | VObj (k : nat).
Definition marg_val (ms : list (mat T)) (a : marg) : res (mat T) :=
  match a with MLit B => Ok B | MObj k => get ms k end.
Definition varg_val (vs : list (vec T)) (a : varg) : res (vec T) :=
  match a with VLit b => Ok b | VObj k => get vs k end.

(** the calls that change a Matrix (the statement of harness/C04.cpp next to each) *)
Inductive mmut :=
| MuResize (r c : nat)            (* A.Resize(r, c) *)
| MuAssign (r c : nat) (e : T)    (* A.Assign(r, c, e) *)
| MuDelRow (i : nat)              (* A.Delete_Row(i) *)
| MuDelCol (j : nat)              (* A.Delete_Column(j) *)
| MuSet (i j : nat) (x : T)       (* A[i][j] = x *)
| MuCopy                          (* the object is replaced by Matrix(A) *)
| MuEqChain                       (* Matrix B(..); B = A; Matrix C(..); C = B; A = C *)
| MuSelf                          (* A = A *)
| MuFrom (B : marg)               (* A = B *)
| MuAddAssign (B : marg)          (* A += B *)
| MuSubAssign (B : marg)          (* A -= B *)
| MuPlus (B : marg)               (* A = A + B *)
| MuMinus (B : marg)              (* A = A - B *)
| MuTranspose                     (* A = A.Transpose() *)
| MuMulS (x : T)                  (* A = A * x *)
| MuDivS (x : T)                  (* A = A / x *)
| MuZero (r c : nat)              (* A = Matrix(r, c) *)
| MuDefault.                      (* A = Matrix() *)

Definition m_mut (ms : list (mat T)) (A : mat T) (o : mmut) : res (mat T) :=
  match o with
  | MuResize r c => Ok (m_resize Ops A r c)
  | MuAssign r c e => Ok (m_assign A r c e)
  | MuDelRow i => delete_row A i
  | MuDelCol j => delete_column A j
  | MuSet i j x => m_set A i j x
  | MuCopy => Ok (m_copy A)
  | MuEqChain => let B := m_assign_from (mat_fill 1 1 (n1 Ops)) A in
                 let C := m_assign_from (mat_fill 1 1 (n1 Ops)) B in Ok (m_assign_from A C)
  | MuSelf => Ok (m_assign_from A A)
  | MuFrom B => let* b := marg_val ms B in Ok (m_assign_from A b)
  | MuAddAssign B => let* b := marg_val ms B in m_add_assign Ops A b
  | MuSubAssign B => let* b := marg_val ms B in m_sub_assign Ops A b
  | MuPlus B => let* b := marg_val ms B in let* R := m_op_plus Ops A b in Ok (m_assign_from A R)
  | MuMinus B => let* b := marg_val ms B in let* R := m_op_minus Ops A b in Ok (m_assign_from A R)
  | MuTranspose => let* R := transpose Ops A in Ok (m_assign_from A R)
  | MuMulS x => let* R := m_op_mul_s Ops A x in Ok (m_assign_from A R)
  | MuDivS x => let* R := m_op_div Ops A x in Ok (m_assign_from A R)
  | MuZero r c => Ok (m_assign_from A (m_zero Ops r c))
  | MuDefault => Ok (m_assign_from A (m_default Ops))
  end.

(** one step of the session on matrix object k: the other objects are not touched *)
Definition life_m (ms : list (mat T)) (k : nat) (o : mmut) : res (list (mat T)) :=
  let* A := get ms k in let* A' := m_mut ms A o in Ok (upd k A' ms).

(** the calls that change a Vector *)
Inductive vmut :=
| VuResize (n : nat)              (* v.Resize(n) *)
| VuAssign (n : nat) (e : T)      (* v.Assign(n, e) *)
| VuSet (i : nat) (x : T)         (* v[i] = x *)
| VuCopy | VuEqChain | VuSelf
| VuFrom (b : varg)               (* v = b *)
| VuAddAssign (b : varg)          (* v += b *)
| VuSubAssign (b : varg)          (* v -= b *)
| VuPlus (b : varg)               (* v = v + b *)
| VuMinus (b : varg)              (* v = v - b *)
| VuMulS (x : T)                  (* v = v * x *)
| VuSMul (x : T)                  (* v = x * v *)
| VuDivS (x : T)                  (* v = v / x *)
| VuZero (n : nat)                (* v = Vector(n) *)
| VuDefault                       (* v = Vector() *)
| VuNormalize                     (* v.Normalize() *)
| VuNormalized.                   (* v = v.Normalized() *)

Definition v_mut (vs : list (vec T)) (v : vec T) (o : vmut) : res (vec T) :=
  match o with
  | VuResize n => Ok (v_resize Ops v n)
  | VuAssign n e => Ok (v_assign v n e)
  | VuSet i x => v_set v i x
  | VuCopy => Ok (v_copy v)
  | VuEqChain => let b := v_assign_from (vfill 1 (n1 Ops)) v in
                 let c := v_assign_from (vfill 1 (n1 Ops)) b in Ok (v_assign_from v c)
  | VuSelf => Ok (v_assign_from v v)
  | VuFrom b => let* w := varg_val vs b in Ok (v_assign_from v w)
  | VuAddAssign b => let* w := varg_val vs b in vadd_assign Ops v w
  | VuSubAssign b => let* w := varg_val vs b in vsub_assign Ops v w
  | VuPlus b => let* w := varg_val vs b in let* s := vadd Ops v w in Ok (v_assign_from v s)
  | VuMinus b => let* w := varg_val vs b in let* s := vsub Ops v w in Ok (v_assign_from v s)
  | VuMulS x => Ok (v_assign_from v (vscale Ops v x))
  | VuSMul x => Ok (v_assign_from v (s_mul_v Ops x v))
  | VuDivS x => Ok (v_assign_from v (vdivs Ops v x))
  | VuZero n => Ok (v_assign_from v (v_zero Ops n))
  | VuDefault => Ok (v_assign_from v (v_default Ops))
  | VuNormalize => v_normalize Ops v
  | VuNormalized => let* w := v_normalized Ops v in Ok (v_assign_from v w)
  end.

Definition life_v (vs : list (vec T)) (k : nat) (o : vmut) : res (list (vec T)) :=
  let* v := get vs k in let* v' := v_mut vs v o in Ok (upd k v' vs).

(** ** whole sessions: the live matrices and vectors, and a list of calls that change one of them.
    [life_run] is the fold of [life_step] over the calls of the session in the order they are made; a call that exits
    ends the session ([Exit] is absorbing).  ocaml/C04_driver.ml advances the objects of a `life` case by [life_step]. *)
Inductive lstep := LM (k : nat) (o : mmut) | LV (k : nat) (o : vmut).
Definition lstate := (list (mat T) * list (vec T))%type.
Definition life_step (st : lstate) (s : lstep) : res lstate :=
  match s with
  | LM k o => let* ms := life_m (fst st) k o in Ok (ms, snd st)
  | LV k o => let* vs := life_v (snd st) k o in Ok (fst st, vs)
  end.
Definition life_run (st : lstate) (steps : list lstep) : res lstate :=
  fold_left (fun acc s => let* st := acc in life_step st s) steps (Ok st).
End Life.
