(** * C11 proofs over the reals: what the termination test of Nelder-Mead means for the reported vertex values -
    in absolute terms, and for simplices whose values have both signs (the minimum value of the objective is negative) *)
From Coq Require Import ZArith List Bool Reals Lra Lia Psatz.
From LP Require Import Num NumR OrdLaws C11_Model C11_Proofs C11_Proofs_NM C11_Proofs_Conv.
Import ListNotations.
Local Open Scope R_scope.

Lemma tiny10_R : tiny10 ROps = 1 / 10000000000.
Proof. reflexivity. Qed.

(** the fractional range as the code computes it, over the reals *)
Lemma nm_rtol_R yhi ylo : nm_rtol ROps yhi ylo = 2 * Rabs (yhi - ylo) / (Rabs yhi + Rabs ylo + 1 / 10000000000).
Proof. reflexivity. Qed.

(** rtol < ftol in absolute terms (the denominator is positive) *)
Lemma nm_rtol_lt_abs yhi ylo ftol : lt ROps (nm_rtol ROps yhi ylo) ftol ->
  2 * Rabs (yhi - ylo) < ftol * (Rabs yhi + Rabs ylo + 1 / 10000000000).
Proof.
  unfold lt. rewrite nm_rtol_R. cbn [nltb ROps]. intros H. apply Rltb_true in H.
  pose proof (Rabs_pos yhi). pose proof (Rabs_pos ylo).
  assert (HD : 0 < Rabs yhi + Rabs ylo + 1 / 10000000000) by lra.
  apply (Rmult_lt_compat_r _ _ _ HD) in H. unfold Rdiv in H at 1.
  rewrite Rmult_assoc, Rinv_l in H by lra. lra.
Qed.

(** extreme values of opposite sign: the fractional range is 2 up to TINY, so a test passed with ftol <= 1
    means the two values are within TINY = 1e-10 of each other *)
Lemma nm_rtol_straddle yhi ylo ftol : ylo <= 0 <= yhi -> ftol <= 1 ->
  2 * Rabs (yhi - ylo) < ftol * (Rabs yhi + Rabs ylo + 1 / 10000000000) -> yhi - ylo < 1 / 10000000000.
Proof.
  intros [H1 H2] Hf. rewrite (Rabs_right yhi) by lra. rewrite (Rabs_left1 ylo) by lra. rewrite (Rabs_right (yhi - ylo)) by lra.
  intros H. assert (0 < yhi + - ylo + 1 / 10000000000) by lra. nra.
Qed.

Section Range.
Variable f : list R -> R.

Theorem minimize_range_R ftol pp o : minimize_general ROps f ftol pp = Ok o ->
  exists hi, (hi < length pp)%nat /\ (forall k, (k < length pp)%nat -> nth0 ROps (o_y o) k <= nth0 ROps (o_y o) hi) /\
    2 * (nth0 ROps (o_y o) hi - o_fmin o) < ftol * (Rabs (nth0 ROps (o_y o) hi) + Rabs (o_fmin o) + 1 / 10000000000) /\
    (ftol <= 1 -> o_fmin o <= 0 <= nth0 ROps (o_y o) hi -> nth0 ROps (o_y o) hi - o_fmin o < 1 / 10000000000).
Proof.
  intros H. destruct (minimize_general_range ROps ROps_OrdLaws f ftol pp o H) as (hi & Hhi & Hmax & Hr).
  pose proof (minimize_general_spec ROps ROps_OrdLaws f ftol pp o H) as (_ & _ & _ & _ & _ & Hmin & _).
  exists hi. split; [exact Hhi|]. split.
  - intros k Hk. specialize (Hmax k Hk). unfold le in Hmax. cbn [nltb ROps] in Hmax. apply Rltb_false in Hmax. exact Hmax.
  - apply nm_rtol_lt_abs in Hr. specialize (Hmin hi Hhi). unfold le in Hmin. cbn [nltb ROps] in Hmin. apply Rltb_false in Hmin.
    split.
    + rewrite (Rabs_right (nth0 ROps (o_y o) hi - o_fmin o)) in Hr by lra. exact Hr.
    + intros Hf Hs. exact (nm_rtol_straddle _ _ ftol Hs Hf Hr).
Qed.
End Range.

Ltac cmpR :=
  match goal with
  | |- context [Rltb ?a ?b] => first [ replace (Rltb a b) with true by (symmetry; apply Rltb_true; lra) | replace (Rltb a b) with false by (symmetry; apply Rltb_false; lra) ]
  | |- context [Rleb ?a ?b] => first [ replace (Rleb a b) with true by (symmetry; apply Rleb_true; lra) | replace (Rleb a b) with false by (symmetry; apply Rleb_false; lra) ]
  end.

(** non-vacuity: the objective f(x) = x on the vertices -2e-11, 2e-11 has values of both signs within TINY of each other; with ftol = 1
    the call returns (fractional range 4/7), fmin = -2e-11 <= 0 <= y_hi = 2e-11 and y_hi - fmin = 4e-11 < 1e-10 *)
Example ex_range_signed : exists o,
  minimize_general ROps (fun p => nth 0 p 0) 1 [[- (1 / 50000000000)]; [1 / 50000000000]] = Ok o /\
  o_fmin o = - (1 / 50000000000) /\ o_y o = [- (1 / 50000000000); 1 / 50000000000].
Proof.
  eexists. unfold minimize_general. cbn [length Nat.ltb Nat.leb forallb Nat.eqb andb negb map nth].
  destruct nm_fuel eqn:EF; [vm_compute in EF; discriminate|]. cbn [nm_loop].
  unfold nm_iter, nm_extremes. cbn [nm_y nm_p nm_nfunc nm_tr]. unfold ngtb. cbn [nth0 nth nltb nleb ROps nm_scan fst snd].
  repeat (unfold ngtb; cbn [nltb nleb ROps]; cmpR; cbn [fst snd nth Nat.eqb negb andb]).
  unfold two, tiny10; cbn [ndiv nmul nabs nsub nadd nofZ ndec ROps].
  rewrite (Rabs_right (1 / 50000000000 - _)) by lra. rewrite (Rabs_right (1 / 50000000000)) by lra. rewrite (Rabs_left (- _)) by lra.
  match goal with |- context [Rltb ?a 1] => replace (Rltb a 1) with true by (symmetry; apply Rltb_true; replace a with (4 / 7) by field; lra) end.
  split; [reflexivity|]. split; reflexivity.
Qed.

(** the hypotheses of the both-signs clause are met by that run: ftol = 1 <= 1, fmin = -2e-11 <= 0 <= 2e-11 = y_hi *)
Example ex_straddle_R : (- (1 / 50000000000) <= 0 <= 1 / 50000000000) /\ (1:R) <= 1 /\
  2 * Rabs (1 / 50000000000 - - (1 / 50000000000)) < 1 * (Rabs (1 / 50000000000) + Rabs (- (1 / 50000000000)) + 1 / 10000000000).
Proof.
  rewrite (Rabs_right (1 / 50000000000 - _)) by lra. rewrite (Rabs_right (1 / 50000000000)) by lra. rewrite (Rabs_left (- _)) by lra. lra.
Qed.
