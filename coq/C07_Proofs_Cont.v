(** * C07 proofs, part 1: the closed-form continuous families (uniform, exponential, normal, Maxwell-Boltzmann) *)
From Coq Require Import Reals ZArith List Bool Lra Lia Psatz.
From Coquelicot Require Import Coquelicot.
From LP Require Import Num NumR C07_Model.
Local Open Scope R_scope.

(** value of a call that returned; [returns] says it did *)
Definition val (r : res R) : R := match r with Ok v => v | _ => 0 end.
Definition returns (r : res R) : Prop := exists v, r = Ok v.

Ltac rcases :=
  repeat match goal with
  | |- context [Rltb ?x ?y] => destruct (Rltb_spec x y)
  | |- context [Rleb ?x ?y] => destruct (Rleb_spec x y)
  | |- context [Reqb ?x ?y] => destruct (Reqb_spec x y)
  end.

(** ** Generic calculus lemmas *)
Lemma piece_RInt (f F f' F' : R -> R) u v : u <= v ->
  (forall x, u <= x <= v -> is_derive F' x (f' x)) ->
  (forall x, u <= x <= v -> continuous f' x) ->
  (forall x, u < x < v -> f x = f' x) ->
  F u = F' u -> F v = F' v ->
  is_RInt f u v (F v - F u).
Proof.
  intros Huv HD HC Hf Hu Hv. rewrite Hu, Hv.
  apply (is_RInt_ext f').
  { intros x Hx. rewrite Rmin_left, Rmax_right in Hx by lra. symmetry; apply Hf; lra. }
  change (F' v - F' u) with (minus (F' v) (F' u)).
  apply (is_RInt_derive F' f'); rewrite Rmin_left, Rmax_right by lra; auto.
Qed.

Lemma two_pieces (f F : R -> R) c :
  (forall u v, u <= v -> v <= c -> is_RInt f u v (F v - F u)) ->
  (forall u v, c <= u -> u <= v -> is_RInt f u v (F v - F u)) ->
  forall u v, u <= v -> is_RInt f u v (F v - F u).
Proof.
  intros H1 H2 u v Huv.
  destruct (Rle_dec v c); [apply H1; auto|].
  destruct (Rle_dec c u); [apply H2; auto|].
  replace (F v - F u) with (plus (F c - F u) (F v - F c)) by (unfold plus; cbn; ring).
  apply (is_RInt_Chasles f u c v); [apply H1|apply H2]; lra.
Qed.

Lemma two_pieces_from (f F : R -> R) lo c :
  (forall u v, lo <= u -> u <= v -> v <= c -> is_RInt f u v (F v - F u)) ->
  (forall u v, c <= u -> u <= v -> is_RInt f u v (F v - F u)) ->
  forall u v, lo <= u -> u <= v -> is_RInt f u v (F v - F u).
Proof.
  intros H1 H2 u v Hlo Huv.
  destruct (Rle_dec v c); [apply H1; auto|].
  destruct (Rle_dec c u); [apply H2; auto|].
  replace (F v - F u) with (plus (F c - F u) (F v - F c)) by (unfold plus; cbn; ring).
  apply (is_RInt_Chasles f u c v); [apply H1|apply H2]; lra.
Qed.

Lemma RInt_any_order (f F : R -> R) :
  (forall u v, u <= v -> is_RInt f u v (F v - F u)) -> forall u v, is_RInt f u v (F v - F u).
Proof.
  intros H u v. destruct (Rle_dec u v); [auto|].
  replace (F v - F u) with (opp (F u - F v)) by (unfold opp; cbn; ring).
  apply (@is_RInt_swap R_NormedModule f u v (F u - F v)). apply H; lra.
Qed.

Lemma incr_of_deriv (F f : R -> R) a b : a <= b ->
  (forall x, a <= x <= b -> is_derive F x (f x)) -> (forall x, a <= x <= b -> 0 <= f x) -> F a <= F b.
Proof.
  intros Hab HD Hf.
  destruct (MVT_gen F a b f) as [c [Hc E]].
  - rewrite Rmin_left, Rmax_right by lra. intros; apply HD; lra.
  - rewrite Rmin_left, Rmax_right by lra. intros x Hx. apply continuity_pt_filterlim.
    apply (ex_derive_continuous F). eexists; apply HD; lra.
  - rewrite Rmin_left, Rmax_right in Hc by lra. specialize (Hf c Hc). nra.
Qed.

Lemma loc_above (P : R -> Prop) c x : c < x -> (forall y, c < y -> P y) -> locally x P.
Proof.
  intros Hx H. exists (mkposreal (x - c) ltac:(lra)). intros y Hy. apply H.
  unfold ball in Hy; cbn in Hy; unfold AbsRing_ball, abs, minus, plus, opp in Hy; cbn in Hy.
  apply Rabs_def2 in Hy. lra.
Qed.
Lemma loc_below (P : R -> Prop) c x : x < c -> (forall y, y < c -> P y) -> locally x P.
Proof.
  intros Hx H. exists (mkposreal (c - x) ltac:(lra)). intros y Hy. apply H.
  unfold ball in Hy; cbn in Hy; unfold AbsRing_ball, abs, minus, plus, opp in Hy; cbn in Hy.
  apply Rabs_def2 in Hy. lra.
Qed.
Lemma loc_between (P : R -> Prop) a b x : a < x < b -> (forall y, a < y < b -> P y) -> locally x P.
Proof.
  intros Hx H.
  assert (He : 0 < Rmin (x - a) (b - x)) by (apply Rmin_glb_lt; lra).
  exists (mkposreal _ He). intros y Hy. apply H.
  unfold ball in Hy; cbn in Hy; unfold AbsRing_ball, abs, minus, plus, opp in Hy; cbn in Hy.
  apply Rabs_def2 in Hy.
  pose proof (Rmin_l (x - a) (b - x)). pose proof (Rmin_r (x - a) (b - x)). lra.
Qed.

(** ** 1.1 Uniform distribution on [a,b], a < b *)
Section Uniform.
Variables a b : R.
Hypothesis Hab : a < b.
Let pdf x := pdf_uniform ROps x a b.
Let cdf x := cdf_uniform ROps x a b.

Lemma pdf_u_out x : x < a \/ b < x -> pdf x = 0.
Proof. unfold pdf, pdf_uniform; cbn. unfold ngtb; cbn. rcases; simpl; intros; lra. Qed.
Lemma pdf_u_in x : a <= x <= b -> pdf x = 1 / (b - a).
Proof. unfold pdf, pdf_uniform; cbn. unfold ngtb; cbn. rcases; simpl; intros; lra. Qed.
Lemma cdf_u_low x : x <= a -> cdf x = 0.
Proof.
  unfold cdf, cdf_uniform; cbn. unfold ngtb; cbn. rcases; intros; try lra.
  assert (x = a) by lra; subst. unfold Rdiv; ring.
Qed.
Lemma cdf_u_mid x : a <= x <= b -> cdf x = (x - a) / (b - a).
Proof. unfold cdf, cdf_uniform; cbn. unfold ngtb; cbn. rcases; intros; lra. Qed.
Lemma cdf_u_high x : b <= x -> cdf x = 1.
Proof.
  unfold cdf, cdf_uniform; cbn. unfold ngtb; cbn. rcases; intros; try lra.
  assert (x = b) by lra; subst. field; lra.
Qed.

Lemma uniform_pdf_nonneg x : 0 <= pdf x.
Proof.
  destruct (Rlt_dec x a); [rewrite pdf_u_out; lra|]. destruct (Rlt_dec b x); [rewrite pdf_u_out; lra|].
  rewrite pdf_u_in by lra. apply Rlt_le, Rdiv_lt_0_compat; lra.
Qed.

Lemma uniform_cdf_derive x : x <> a -> x <> b -> is_derive cdf x (pdf x).
Proof.
  intros Ha Hb.
  destruct (Rlt_dec x a) as [H|H].
  - rewrite pdf_u_out by lra. apply (is_derive_ext_loc (fun _ => 0)).
    + apply (loc_below _ a); auto. intros y Hy. symmetry; apply cdf_u_low; lra.
    + apply @is_derive_const.
  - destruct (Rlt_dec b x) as [H'|H'].
    + rewrite pdf_u_out by lra. apply (is_derive_ext_loc (fun _ => 1)).
      * apply (loc_above _ b); auto. intros y Hy. symmetry; apply cdf_u_high; lra.
      * apply @is_derive_const.
    + rewrite pdf_u_in by lra. apply (is_derive_ext_loc (fun y => (y - a) / (b - a))).
      * apply (loc_between _ a b); [lra|]. intros y Hy. symmetry; apply cdf_u_mid; lra.
      * auto_derive; auto; try (field; lra).
Qed.

Lemma uniform_cdf_range x : 0 <= cdf x <= 1.
Proof.
  destruct (Rle_dec x a); [rewrite cdf_u_low; lra|]. destruct (Rle_dec b x); [rewrite cdf_u_high; lra|].
  rewrite cdf_u_mid by lra.
  assert (0 < / (b - a)) by (apply Rinv_0_lt_compat; lra).
  split.
  - unfold Rdiv. apply Rmult_le_pos; lra.
  - apply Rmult_le_reg_r with (b - a); [lra|]. unfold Rdiv. rewrite Rmult_assoc, Rinv_l by lra. lra.
Qed.

Lemma uniform_cdf_monotone x y : x <= y -> cdf x <= cdf y.
Proof.
  intros Hxy.
  destruct (Rle_dec y a). { rewrite !cdf_u_low by lra. lra. }
  destruct (Rle_dec b x). { rewrite !cdf_u_high by lra. lra. }
  destruct (Rle_dec x a). { rewrite (cdf_u_low x) by lra. apply uniform_cdf_range. }
  destruct (Rle_dec b y). { rewrite (cdf_u_high y) by lra. apply uniform_cdf_range. }
  rewrite !cdf_u_mid by lra.
  assert (0 < / (b - a)) by (apply Rinv_0_lt_compat; lra).
  unfold Rdiv. apply Rmult_le_compat_r; lra.
Qed.

Lemma uniform_is_RInt u v : is_RInt pdf u v (cdf v - cdf u).
Proof.
  revert u v. apply RInt_any_order. apply (two_pieces pdf cdf a).
  - intros u v Huv Hv. apply (piece_RInt pdf cdf (fun _ => 0) (fun _ => 0)); auto.
    + intros; apply @is_derive_const.
    + intros; apply continuous_const.
    + intros; apply pdf_u_out; lra.
    + apply cdf_u_low; lra.
    + apply cdf_u_low; lra.
  - apply (two_pieces_from pdf cdf a b).
    + intros u v Hu Huv Hv.
      apply (piece_RInt pdf cdf (fun _ => 1 / (b - a)) (fun y => (y - a) / (b - a))); auto.
      * intros. auto_derive; auto; try (field; lra).
      * intros; apply continuous_const.
      * intros; apply pdf_u_in; lra.
      * apply cdf_u_mid; lra.
      * apply cdf_u_mid; lra.
    + intros u v Hu Huv. apply (piece_RInt pdf cdf (fun _ => 0) (fun _ => 1)); auto.
      * intros; apply @is_derive_const.
      * intros; apply continuous_const.
      * intros; apply pdf_u_out; lra.
      * apply cdf_u_high; lra.
      * apply cdf_u_high; lra.
Qed.
End Uniform.

(** ** 1.6 Exponential distribution, mean m > 0 *)
Section Exponential.
Variable m : R.
Hypothesis Hm : 0 < m.
Let pdf x := val (pdf_exponential ROps x m).
Let cdf x := val (cdf_exponential ROps x m).
Let f' (y : R) := 1 / m * exp (- (1) / m * y).
Let F' (y : R) := 1 - exp (- (1) / m * y).

Lemma expo_returns x : returns (pdf_exponential ROps x m) /\ returns (cdf_exponential ROps x m).
Proof. unfold returns, pdf_exponential, cdf_exponential; cbn. rcases; try lra; split; eexists; reflexivity. Qed.
Lemma pdf_e_neg x : x < 0 -> pdf x = 0.
Proof. unfold pdf, pdf_exponential; cbn. rcases; cbn; intros; lra. Qed.
Lemma pdf_e_pos x : 0 <= x -> pdf x = f' x.
Proof. unfold pdf, pdf_exponential, f'; cbn. rcases; cbn; intros; lra. Qed.
Lemma cdf_e_neg x : x <= 0 -> cdf x = 0.
Proof.
  unfold cdf, cdf_exponential; cbn. rcases; cbn; intros; try lra.
  assert (x = 0) by lra; subst. rewrite Rmult_0_r, exp_0. lra.
Qed.
Lemma cdf_e_pos x : 0 <= x -> cdf x = F' x.
Proof. unfold cdf, cdf_exponential, F'; cbn. rcases; cbn; intros; lra. Qed.

Lemma F'_derive y : is_derive F' y (f' y).
Proof. unfold F', f'. auto_derive; auto. field; lra. Qed.
Lemma f'_cont y : continuous f' y.
Proof. apply (ex_derive_continuous f'). unfold f'. auto_derive; auto. Qed.
Lemma f'_pos y : 0 < f' y.
Proof. unfold f'. apply Rmult_lt_0_compat; [apply Rdiv_lt_0_compat; lra|apply exp_pos]. Qed.
Lemma F'_range y : 0 <= y -> 0 <= F' y < 1.
Proof.
  intros Hy. unfold F'. pose proof (exp_pos (- (1) / m * y)).
  assert (- (1) / m * y <= 0).
  { assert (0 < / m) by (apply Rinv_0_lt_compat; lra). unfold Rdiv. nra. }
  assert (exp (- (1) / m * y) <= 1).
  { destruct H0 as [H0|H0]; [pose proof (exp_increasing _ _ H0) as E; rewrite exp_0 in E; lra|rewrite H0, exp_0; lra]. }
  lra.
Qed.

Lemma expo_guard x : forall m', m' <= 0 -> pdf_exponential ROps x m' = Exit /\ cdf_exponential ROps x m' = Exit.
Proof. intros m' H. unfold pdf_exponential, cdf_exponential; cbn. rcases; try lra; auto. Qed.

Lemma expo_pdf_nonneg x : 0 <= pdf x.
Proof. destruct (Rlt_dec x 0); [rewrite pdf_e_neg; lra|]. rewrite pdf_e_pos by lra. left; apply f'_pos. Qed.

Lemma expo_cdf_derive x : x <> 0 -> is_derive cdf x (pdf x).
Proof.
  intros Hx. destruct (Rlt_dec x 0).
  - rewrite pdf_e_neg by lra. apply (is_derive_ext_loc (fun _ => 0)).
    + apply (loc_below _ 0); auto. intros; symmetry; apply cdf_e_neg; lra.
    + apply @is_derive_const.
  - rewrite pdf_e_pos by lra. apply (is_derive_ext_loc F').
    + apply (loc_above _ 0); [lra|]. intros; symmetry; apply cdf_e_pos; lra.
    + apply F'_derive.
Qed.

Lemma expo_cdf_range x : 0 <= cdf x < 1.
Proof. destruct (Rle_dec x 0); [rewrite cdf_e_neg; lra|]. rewrite cdf_e_pos by lra. apply F'_range; lra. Qed.

Lemma expo_cdf_monotone x y : x <= y -> cdf x <= cdf y.
Proof.
  intros Hxy. destruct (Rle_dec x 0). { rewrite (cdf_e_neg x) by lra. apply expo_cdf_range. }
  rewrite !cdf_e_pos by lra. apply (incr_of_deriv F' f'); auto.
  - intros; apply F'_derive.
  - intros; left; apply f'_pos.
Qed.

Lemma expo_cdf_limit : is_lim cdf p_infty 1.
Proof.
  apply is_lim_spec. intros eps. cbn.
  exists (Rmax 0 (- m * ln eps)). intros x Hx.
  assert (0 < x) by (pose proof (Rmax_l 0 (- m * ln eps)); lra).
  assert (- m * ln eps < x) by (pose proof (Rmax_r 0 (- m * ln eps)); lra).
  rewrite cdf_e_pos by lra. unfold F'.
  replace (1 - exp (- (1) / m * x) - 1) with (- exp (- (1) / m * x)) by ring.
  rewrite Rabs_Ropp, Rabs_pos_eq by (left; apply exp_pos).
  destruct eps as [e He]; cbn in *.
  apply Rlt_le_trans with (exp (ln e)); [|rewrite exp_ln; lra]. apply exp_increasing.
  apply Rmult_lt_reg_r with m; auto.
  replace (- (1) / m * x * m) with (- x) by (field; lra). lra.
Qed.

Lemma expo_is_RInt u v : is_RInt pdf u v (cdf v - cdf u).
Proof.
  revert u v. apply RInt_any_order. apply (two_pieces pdf cdf 0).
  - intros u v Huv Hv. apply (piece_RInt pdf cdf (fun _ => 0) (fun _ => 0)); auto.
    + intros; apply @is_derive_const.
    + intros; apply continuous_const.
    + intros; apply pdf_e_neg; lra.
    + apply cdf_e_neg; lra.
    + apply cdf_e_neg; lra.
  - intros u v Hu Huv. apply (piece_RInt pdf cdf f' F'); auto.
    + intros; apply F'_derive.
    + intros; apply f'_cont.
    + intros; apply pdf_e_pos; lra.
    + apply cdf_e_pos; lra.
    + apply cdf_e_pos; lra.
Qed.
End Exponential.

(** ** The error function of the real instance: [Rerf] is defined by its integral *)
Definition gauss0 (t : R) := exp (- (t * t)).
Lemma gauss0_cont t : continuous gauss0 t.
Proof. apply (ex_derive_continuous gauss0). unfold gauss0. auto_derive. auto. Qed.
Lemma Rerf_derive x : is_derive Rerf x (2 / sqrt PI * exp (- (x * x))).
Proof.
  unfold Rerf. auto_derive.
  - split; [|split; [|exact I]].
    + apply (ex_RInt_continuous gauss0). intros z _. apply gauss0_cont.
    + apply filter_forall. intros y. apply continuity_pt_filterlim. apply gauss0_cont.
  - ring.
Qed.
Lemma Rerf_0 : Rerf 0 = 0.
Proof. unfold Rerf. rewrite RInt_point. unfold zero; cbn. ring. Qed.
Lemma sqrt2_sq : sqrt 2 * sqrt 2 = 2.
Proof. apply sqrt_sqrt; lra. Qed.
Lemma sqrt2_pos : 0 < sqrt 2.
Proof. apply sqrt_lt_R0; lra. Qed.
Lemma sqrtPI_pos : 0 < sqrt PI.
Proof. apply sqrt_lt_R0, PI_RGT_0. Qed.
Lemma sqrt_2PI : sqrt (2 * PI) = sqrt 2 * sqrt PI.
Proof. apply sqrt_mult; [lra|left; apply PI_RGT_0]. Qed.
Lemma sqrt2PI : sqrt (2 / PI) = 2 / sqrt PI / sqrt 2.
Proof.
  pose proof PI_RGT_0. pose proof sqrtPI_pos. pose proof sqrt2_pos. pose proof sqrt2_sq as Hs.
  rewrite sqrt_div_alt by lra. set (s2 := sqrt 2) in *. set (sp := sqrt PI) in *.
  apply Rmult_eq_reg_r with (s2 * sp); [|nra]. field_simplify; [|lra|lra]. nra.
Qed.

Lemma Rerf_odd x : Rerf (- x) = - Rerf x.
Proof.
  set (h := fun y => Rerf y + Rerf (- y)).
  assert (D : forall y, is_derive h y 0).
  { intros y. unfold h.
    replace 0 with (plus (2 / sqrt PI * exp (- (y * y))) (scal (- (1)) (2 / sqrt PI * exp (- (- y * - y))))).
    2:{ unfold plus, scal; cbn; unfold mult; cbn. replace (- y * - y) with (y * y) by ring. ring. }
    apply (is_derive_plus Rerf (fun y => Rerf (- y))); [apply Rerf_derive|].
    apply (is_derive_comp Rerf (fun y => - y)); [apply Rerf_derive|].
    auto_derive; auto; ring. }
  destruct (MVT_gen h 0 x (fun _ => 0)) as [c [_ E]].
  - intros; apply D.
  - intros y _. apply continuity_pt_filterlim. apply (ex_derive_continuous h). eexists; apply D.
  - unfold h in E. rewrite Ropp_0, Rerf_0 in E. lra.
Qed.

Lemma sq_half (A s : R) : s <> 0 -> A / (sqrt 2 * s) * (A / (sqrt 2 * s)) = (A / s) ^ 2 / 2.
Proof.
  intros Hs. pose proof sqrt2_pos.
  replace (A / (sqrt 2 * s) * (A / (sqrt 2 * s))) with (A * A / (s * s) / (sqrt 2 * sqrt 2)) by (field; lra).
  rewrite sqrt2_sq. field; lra.
Qed.

(** ** 1.2 Normal distribution, sigma > 0; M_PI instantiated with PI *)
Section Normal.
Variables mu s : R.
Hypothesis Hs : 0 < s.
Let pdf x := pdf_gauss ROps PI x mu s.
Let cdf x := cdf_gauss ROps x mu s.

Lemma gauss_pdf_pos x : 0 < pdf x.
Proof.
  unfold pdf, pdf_gauss; cbn. pose proof PI_RGT_0.
  apply Rmult_lt_0_compat; [|apply exp_pos].
  apply Rdiv_lt_0_compat; auto. apply Rdiv_lt_0_compat; [lra|]. apply sqrt_lt_R0; lra.
Qed.

Lemma gauss_cdf_derive x : is_derive cdf x (pdf x).
Proof.
  unfold cdf, pdf, cdf_gauss, pdf_gauss; cbn. change (Pos.to_nat 2) with 2%nat. unfold Rerf.
  pose proof sqrt2_pos. pose proof sqrtPI_pos. pose proof sqrt2_sq as H2.
  auto_derive.
  - repeat split; auto.
    + apply (ex_RInt_continuous gauss0). intros z _. apply gauss0_cont.
    + apply filter_forall. intros y. apply continuity_pt_filterlim. apply gauss0_cont.
  - rewrite sqrt_2PI.
    replace (- ((x - mu) / s) ^ 2 / 2) with (- (((x - mu) / s) ^ 2 / 2)) by (unfold Rdiv; ring).
    rewrite <- sq_half by lra. unfold Rminus, Rdiv.
    set (E := exp _). set (s2 := sqrt 2) in *. set (sp := sqrt PI) in *. clearbody E s2 sp.
    field. repeat split; lra.
Qed.

Lemma gauss_cdf_monotone x y : x <= y -> cdf x <= cdf y.
Proof.
  intros. apply (incr_of_deriv cdf pdf); auto.
  - intros; apply gauss_cdf_derive.
  - intros; left; apply gauss_pdf_pos.
Qed.

Lemma gauss_pdf_cont x : continuous pdf x.
Proof.
  apply (ex_derive_continuous pdf). unfold pdf, pdf_gauss; cbn. change (Pos.to_nat 2) with 2%nat.
  auto_derive. repeat split; auto; lra.
Qed.

Lemma gauss_is_RInt u v : is_RInt pdf u v (cdf v - cdf u).
Proof.
  change (cdf v - cdf u) with (minus (cdf v) (cdf u)).
  apply (is_RInt_derive cdf pdf); intros.
  - apply gauss_cdf_derive.
  - apply gauss_pdf_cont.
Qed.

Lemma gauss_cdf_median : cdf mu = 1 / 2.
Proof.
  unfold cdf, cdf_gauss; cbn. replace ((mu - mu) / (sqrt 2 * s)) with 0.
  - rewrite Rerf_0. lra.
  - pose proof sqrt2_pos. field. split; lra.
Qed.
Lemma gauss_cdf_symmetry d : cdf (mu + d) + cdf (mu - d) = 1.
Proof.
  unfold cdf, cdf_gauss; cbn. pose proof sqrt2_pos.
  replace ((mu - d - mu) / (sqrt 2 * s)) with (- ((mu + d - mu) / (sqrt 2 * s))) by (field; split; lra).
  rewrite Rerf_odd. lra.
Qed.
End Normal.

(** ** 1.7 Maxwell-Boltzmann distribution, a > 0 *)
Section MB.
Variable a : R.
Hypothesis Ha : 0 < a.
Let pdf x := val (pdf_maxwell_boltzmann ROps PI x a).
Let cdf x := val (cdf_maxwell_boltzmann ROps PI x a).
Let f' (x : R) := sqrt (2 / PI) * x * x / a / a / a * exp (- x * x / 2 / a / a).
Let F' (x : R) := Rerf (x / sqrt 2 / a) - sqrt (2 / PI) * x / a * exp (- x * x / 2 / a / a).

Lemma mb_returns x : returns (pdf_maxwell_boltzmann ROps PI x a) /\ returns (cdf_maxwell_boltzmann ROps PI x a).
Proof. unfold returns, pdf_maxwell_boltzmann, cdf_maxwell_boltzmann; cbn. rcases; try lra; split; eexists; reflexivity. Qed.
Lemma mb_guard x : forall a', a' <= 0 ->
  pdf_maxwell_boltzmann ROps PI x a' = Exit /\ cdf_maxwell_boltzmann ROps PI x a' = Exit.
Proof. intros a' H. unfold pdf_maxwell_boltzmann, cdf_maxwell_boltzmann; cbn. rcases; try lra; auto. Qed.

Lemma F'0 : F' 0 = 0.
Proof. unfold F'. replace (0 / sqrt 2 / a) with 0 by (unfold Rdiv; ring). rewrite Rerf_0. unfold Rdiv; ring. Qed.
Lemma f'0 : f' 0 = 0.
Proof. unfold f'. unfold Rdiv; ring. Qed.
Lemma pdf_mb_neg x : x <= 0 -> pdf x = 0.
Proof.
  unfold pdf, pdf_maxwell_boltzmann; cbn. rcases; cbn; intros; try lra.
  assert (x = 0) by lra; subst. apply f'0.
Qed.
Lemma pdf_mb_pos x : 0 <= x -> pdf x = f' x.
Proof. unfold pdf, pdf_maxwell_boltzmann, f'; cbn. rcases; cbn; intros; lra. Qed.
Lemma cdf_mb_neg x : x <= 0 -> cdf x = 0.
Proof.
  unfold cdf, cdf_maxwell_boltzmann; cbn. rcases; cbn; intros; try lra.
  assert (x = 0) by lra; subst. apply F'0.
Qed.
Lemma cdf_mb_pos x : 0 <= x -> cdf x = F' x.
Proof. unfold cdf, cdf_maxwell_boltzmann, F'; cbn. rcases; cbn; intros; lra. Qed.

Lemma F'_mb_derive x : is_derive F' x (f' x).
Proof.
  unfold F', f', Rerf.
  pose proof sqrt2_pos as H2.
  auto_derive.
  - repeat split; auto.
    + apply (ex_RInt_continuous gauss0). intros z _. apply gauss0_cont.
    + apply filter_forall. intros y. apply continuity_pt_filterlim. apply gauss0_cont.
  - rewrite sqrt2PI.
    pose proof sqrt2_sq as Hs. pose proof sqrtPI_pos.
    replace (x * / sqrt 2 * / a * (x * / sqrt 2 * / a)) with (x * x / 2 / a / a).
    2:{ rewrite <- Hs at 1. field. split; lra. }
    replace (- x * x / 2 / a / a) with (- (x * x / 2 / a / a)) by (field; lra).
    replace (- x * x * / 2 * / a * / a) with (- (x * x / 2 / a / a)) by (field; lra).
    set (E := exp _). set (s2 := sqrt 2) in *. set (sp := sqrt PI) in *.
    clearbody E s2 sp. field. repeat split; lra.
Qed.
Lemma f'_mb_nonneg x : 0 <= f' x.
Proof.
  unfold f'.
  replace (sqrt (2 / PI) * x * x / a / a / a) with (sqrt (2 / PI) * ((x * x) * (/ a * / a * / a))) by (field; lra).
  assert (0 < / a) by (apply Rinv_0_lt_compat; lra).
  apply Rmult_le_pos; [|left; apply exp_pos].
  apply Rmult_le_pos; [apply sqrt_pos|]. apply Rmult_le_pos; [nra|]. left. repeat apply Rmult_lt_0_compat; auto.
Qed.
Lemma f'_mb_cont x : continuous f' x.
Proof. apply (ex_derive_continuous f'). unfold f'. auto_derive. repeat split; auto; lra. Qed.

Lemma mb_pdf_nonneg x : 0 <= pdf x.
Proof. destruct (Rle_dec x 0); [rewrite pdf_mb_neg; lra|]. rewrite pdf_mb_pos by lra. apply f'_mb_nonneg. Qed.

Lemma mb_cdf_derive x : x <> 0 -> is_derive cdf x (pdf x).
Proof.
  intros Hx. destruct (Rlt_dec x 0).
  - rewrite pdf_mb_neg by lra. apply (is_derive_ext_loc (fun _ => 0)).
    + apply (loc_below _ 0); auto. intros; symmetry; apply cdf_mb_neg; lra.
    + apply @is_derive_const.
  - rewrite pdf_mb_pos by lra. apply (is_derive_ext_loc F').
    + apply (loc_above _ 0); [lra|]. intros; symmetry; apply cdf_mb_pos; lra.
    + apply F'_mb_derive.
Qed.
(* at the support boundary the two one-sided derivatives agree (the density vanishes there) *)
Lemma mb_cdf_derive_0 : is_derive F' 0 0 /\ pdf 0 = 0.
Proof. split; [pose proof (F'_mb_derive 0) as H; rewrite f'0 in H; exact H|apply pdf_mb_neg; lra]. Qed.

Lemma mb_cdf_monotone x y : x <= y -> cdf x <= cdf y.
Proof.
  intros Hxy. destruct (Rle_dec x 0).
  - rewrite (cdf_mb_neg x) by lra. destruct (Rle_dec y 0); [rewrite cdf_mb_neg; lra|].
    rewrite cdf_mb_pos by lra. rewrite <- F'0. apply (incr_of_deriv F' f'); try lra.
    + intros; apply F'_mb_derive.
    + intros; apply f'_mb_nonneg.
  - rewrite !cdf_mb_pos by lra. apply (incr_of_deriv F' f'); auto.
    + intros; apply F'_mb_derive.
    + intros; apply f'_mb_nonneg.
Qed.
Lemma mb_cdf_nonneg x : 0 <= cdf x.
Proof. rewrite <- (cdf_mb_neg 0) by lra. destruct (Rle_dec 0 x); [apply mb_cdf_monotone; auto|]. rewrite !cdf_mb_neg; lra. Qed.

Lemma mb_is_RInt u v : is_RInt pdf u v (cdf v - cdf u).
Proof.
  revert u v. apply RInt_any_order. apply (two_pieces pdf cdf 0).
  - intros u v Huv Hv. apply (piece_RInt pdf cdf (fun _ => 0) (fun _ => 0)); auto.
    + intros; apply @is_derive_const.
    + intros; apply continuous_const.
    + intros; apply pdf_mb_neg; lra.
    + apply cdf_mb_neg; lra.
    + apply cdf_mb_neg; lra.
  - intros u v Hu Huv. apply (piece_RInt pdf cdf f' F'); auto.
    + intros; apply F'_mb_derive.
    + intros; apply f'_mb_cont.
    + intros; apply pdf_mb_pos; lra.
    + apply cdf_mb_pos; lra.
    + apply cdf_mb_pos; lra.
Qed.
End MB.
