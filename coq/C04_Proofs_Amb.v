(** * C04 proofs, part: the ambient floating-point control state (model: C04_Amb.v). *)
From Coq Require Import List Bool Arith.
From LP Require Import C04_Amb.
Import ListNotations.

Lemma foreign_step_id (e : fenv) (c : foreign) : foreign_step e c = e.
Proof. destruct c; reflexivity. Qed.

Lemma foreign_run_id (cs : list foreign) : forall e, foreign_run e cs = e.
Proof.
  induction cs as [|c cs IH]; intro e; [reflexivity|].
  unfold foreign_run; simpl. rewrite foreign_step_id. exact (IH e).
Qed.

Lemma foreign_run_app (cs1 cs2 : list foreign) (e : fenv) :
  foreign_run e (cs1 ++ cs2) = foreign_run (foreign_run e cs1) cs2.
Proof. unfold foreign_run. apply fold_left_app. Qed.

Lemma fenv_diff_zero (a b : fenv) : fenv_diff a b = 0 <-> a = b.
Proof.
  destruct a as [[] [] []], b as [[] [] []]; cbn; split; intro H;
    solve [reflexivity | discriminate H].
Qed.

Lemma amb_answer_pristine (A : Type) (e0 : fenv) (cs : list foreign) (request : fenv -> A) :
  amb_answer e0 cs request = (request e0, request e0, 0).
Proof.
  unfold amb_answer. rewrite foreign_run_id.
  replace (fenv_diff e0 e0) with 0; [reflexivity|].
  symmetry. apply fenv_diff_zero. reflexivity.
Qed.

(** non-vacuity / what the number printed by the driver distinguishes *)
Lemma fenv_diff_instances :
  fenv_diff (mkFenv true false RNearest) fenv_default = 1 /\
  fenv_diff (mkFenv false true RNearest) fenv_default = 2 /\
  fenv_diff (mkFenv false false RTowardZero) fenv_default = 4 /\
  foreign_run fenv_default [FEigenvalues; FIntegrate; FSample] = fenv_default.
Proof. repeat split. Qed.
