(** * C16 proofs, part 2: argument objects with a call history, Angle, and the library's own products.
    [vstep] / [vhistory] / [rotation_of_object] / [spherical_of_object] / [angle] / [vecm] are the terms of C16_Model.v
    that the driver runs for the `hist ...`, `sphang`, `angle`, `rotback`, `rotsph` cases. *)
From Coq Require Import Reals ZArith List Lra Lia Psatz Nsatz Bool.
From Coquelicot Require Import Coquelicot.
From LP Require Import Num NumR C16_Model C16_Proofs.
Import ListNotations.
Local Open Scope R_scope.

(** ** Questions leave the object alone (every number type) *)
Definition vstep_is_question {T} (s : @vstep T) : bool :=
  match s with
  | VCopy | VQNorm | VQDot _ | VQRead _ | VQCross _ | VQAngle _ | VCallSpherical _ _ _ | VCallRotation _ _ => true
  | _ => false
  end.

Lemma keep_ok {A B} (v v' : A) (x : res B) : keep v x = Ok v' -> v' = v.
Proof. unfold keep, rbind. destruct x; congruence. Qed.

Lemma vstep_question_keeps {T} (Ops : NumOps T) hyp (v v' : list T) (s : @vstep T) :
  vstep_is_question s = true -> vstep_apply Ops hyp v s = Ok v' -> v' = v.
Proof.
  destruct s; cbn [vstep_is_question]; try discriminate; intros _; cbn [vstep_apply];
    try (intros [= <-]; reflexivity); apply keep_ok.
Qed.

Lemma vhistory_questions_keep {T} (Ops : NumOps T) hyp (h : list (@vstep T)) : forall (v v' : list T),
  forallb vstep_is_question h = true -> vhistory Ops hyp v h = Ok v' -> v' = v.
Proof.
  induction h as [|s h IH]; cbn [vhistory forallb]; intros v v' Hq H.
  - congruence.
  - apply andb_true_iff in Hq as [Hs Hh].
    destruct (vstep_apply Ops hyp v s) as [v1| | |] eqn:E; cbn [rbind] in H; try discriminate.
    apply (vstep_question_keeps Ops hyp v v1 s Hs) in E. subst v1. exact (IH v v' Hh H).
Qed.

(** histories compose *)
Lemma vhistory_app {T} (Ops : NumOps T) hyp (h1 h2 : list (@vstep T)) : forall v,
  vhistory Ops hyp v (h1 ++ h2) = rbind (vhistory Ops hyp v h1) (fun v1 => vhistory Ops hyp v1 h2).
Proof.
  induction h1 as [|s h1 IH]; intros v; cbn [vhistory app rbind]; [reflexivity|].
  destruct (vstep_apply Ops hyp v s); cbn [rbind]; auto.
Qed.

(** ** The compound assignments give the object the value of the sum / difference (over the reals, 3 components) *)
Lemma add_assign_value hyp a0 a1 a2 w0 w1 w2 :
  vstep_apply ROps hyp [a0; a1; a2] (VAddAssign [w0; w1; w2]) = Ok [a0 + w0; a1 + w1; a2 + w2] /\
  vstep_apply ROps hyp [a0; a1; a2] (VPlus [w0; w1; w2]) = Ok [a0 + w0; a1 + w1; a2 + w2].
Proof. split; reflexivity. Qed.
Lemma sub_assign_value hyp a0 a1 a2 w0 w1 w2 :
  vstep_apply ROps hyp [a0; a1; a2] (VSubAssign [w0; w1; w2]) = Ok [a0 - w0; a1 - w1; a2 - w2] /\
  vstep_apply ROps hyp [a0; a1; a2] (VMinus [w0; w1; w2]) = Ok [a0 - w0; a1 - w1; a2 - w2].
Proof. split; reflexivity. Qed.

(** ** The results depend on the value of the object, not on how it got there *)
Lemma rotation_of_object_value {T} (Ops : NumOps T) hyp alpha dim (s : list T) h a :
  vhistory Ops hyp s h = Ok a -> rotation_of_object Ops hyp alpha dim s h = rotation_matrix Ops alpha dim a.
Proof. unfold rotation_of_object. intros ->. reflexivity. Qed.
Lemma spherical_of_object_value {T} (Ops : NumOps T) hyp r theta phi (s : list T) h a :
  vhistory Ops hyp s h = Ok a -> spherical_of_object Ops hyp r theta phi s h = spherical_axis Ops hyp r theta phi a.
Proof. unfold spherical_of_object. intros ->. reflexivity. Qed.

Lemma history_independent {T} (Ops : NumOps T) hyp (s1 s2 : list T) h1 h2 a :
  vhistory Ops hyp s1 h1 = Ok a -> vhistory Ops hyp s2 h2 = Ok a ->
  (forall alpha dim, rotation_of_object Ops hyp alpha dim s1 h1 = rotation_of_object Ops hyp alpha dim s2 h2) /\
  (forall r theta phi, spherical_of_object Ops hyp r theta phi s1 h1 = spherical_of_object Ops hyp r theta phi s2 h2).
Proof.
  intros H1 H2. split; intros.
  - rewrite (rotation_of_object_value Ops hyp _ _ _ _ _ H1), (rotation_of_object_value Ops hyp _ _ _ _ _ H2). reflexivity.
  - rewrite (spherical_of_object_value Ops hyp _ _ _ _ _ _ H1), (spherical_of_object_value Ops hyp _ _ _ _ _ _ H2). reflexivity.
Qed.

(** a successful 3-D rotation about an object: the object has three components, and the matrix is the proper rotation
    about the value the object has NOW *)
Lemma rotation_of_object_proper (s : list R) (h : list (@vstep R)) alpha Rm :
  rotation_of_object ROps Rhypot alpha 3 s h = Ok Rm ->
  exists a0 a1 a2, vhistory ROps Rhypot s h = Ok [a0; a1; a2] /\
    (nonzero3 a0 a1 a2 ->
       mmul ROps (mtr Rm) Rm = I3 /\ mmul ROps Rm (mtr Rm) = I3 /\ det3 Rm = 1 /\
       mvec ROps Rm [a0; a1; a2] = [a0; a1; a2]).
Proof.
  unfold rotation_of_object. destruct (vhistory ROps Rhypot s h) as [a| | |]; cbn [rbind]; try discriminate.
  intros H.
  destruct a as [|a0 [|a1 [|a2 [|x a]]]]; try (cbn in H; discriminate).
  exists a0, a1, a2. split; [reflexivity|]. intros Hnz.
  destruct (rot3_orthogonal alpha a0 a1 a2 Hnz Rm H) as [O1 O2].
  repeat split; auto.
  - exact (rot3_det alpha a0 a1 a2 Hnz Rm H).
  - exact (rot3_axis_itself_fixed alpha a0 a1 a2 Hnz Rm H).
Qed.

(** Spherical_Coordinates about an object whose value is a non-zero 3-vector: norm r, component r cos(theta) along the
    value the object has NOW *)
Lemma spherical_of_object_spec (s : list R) (h : list (@vstep R)) a0 a1 a2 r theta phi :
  vhistory ROps Rhypot s h = Ok [a0; a1; a2] -> nonzero3 a0 a1 a2 ->
  exists u, spherical_of_object ROps Rhypot r theta phi s h = Ok u /\
    dot3 u u = r * r /\ dot3 u (nhat [a0; a1; a2]) = r * cos theta.
Proof.
  intros H Hnz. rewrite (spherical_of_object_value ROps Rhypot r theta phi s h _ H).
  destruct (spherical_axis_returns a0 a1 a2 Hnz r theta phi) as [u [E _]].
  exists u. split; [exact E|]. split.
  - exact (proj1 (spherical_axis_norm a0 a1 a2 Hnz r theta phi u E)).
  - exact (spherical_axis_polar a0 a1 a2 Hnz r theta phi u E).
Qed.

(** ** Angle(u, axis) of the vector returned by Spherical_Coordinates(r, theta, phi, axis) is theta *)
Lemma dot3_comm a b : dot3 a b = dot3 b a.
Proof. unfold dot3. ring. Qed.

Lemma dot3_nhat u a0 a1 a2 : nonzero3 a0 a1 a2 ->
  dot3 u [a0; a1; a2] = sqrt (dot3 [a0; a1; a2] [a0; a1; a2]) * dot3 u (nhat [a0; a1; a2]).
Proof.
  intros Hnz. pose proof (nonzero3_pos a0 a1 a2 Hnz) as P.
  assert (0 < sqrt (dot3 [a0; a1; a2] [a0; a1; a2])) as LP.
  { apply sqrt_lt_R0. unfold dot3, cx, cy, cz. cbn. exact P. }
  unfold nhat. set (L := sqrt (dot3 [a0; a1; a2] [a0; a1; a2])) in *.
  unfold dot3, cx, cy, cz. cbn. field. lra.
Qed.

Lemma angle_spherical_axis r theta phi a0 a1 a2 u : nonzero3 a0 a1 a2 -> 0 < r -> 0 <= theta <= PI ->
  spherical_axis ROps Rhypot r theta phi [a0; a1; a2] = Ok u ->
  angle ROps u [a0; a1; a2] = Ok theta /\ angle ROps [a0; a1; a2] u = Ok theta.
Proof.
  intros Hnz Hr Ht E.
  destruct (spherical_axis_returns a0 a1 a2 Hnz r theta phi) as [u' [E' Hlen]].
  rewrite E in E'. injection E' as <-.
  destruct (list3 u Hlen) as [u0 [u1 [u2 ->]]].
  pose proof (spherical_axis_norm a0 a1 a2 Hnz r theta phi _ E) as [_ Hn]. specialize (Hn (Rlt_le _ _ Hr)).
  pose proof (spherical_axis_polar a0 a1 a2 Hnz r theta phi _ E) as Hp.
  pose proof (dot3_nhat [u0; u1; u2] a0 a1 a2 Hnz) as Hd. rewrite Hp in Hd.
  pose proof (nonzero3_pos a0 a1 a2 Hnz) as P.
  assert (0 < sqrt (dot3 [a0; a1; a2] [a0; a1; a2])) as LP.
  { apply sqrt_lt_R0. unfold dot3, cx, cy, cz. cbn. exact P. }
  assert (vnorm ROps [a0; a1; a2] = sqrt (dot3 [a0; a1; a2] [a0; a1; a2])) as Na.
  { unfold vnorm. rewrite vdot_dot3. reflexivity. }
  set (L := sqrt (dot3 [a0; a1; a2] [a0; a1; a2])) in *.
  assert (forall c, -1 <= c <= 1 -> nmax ROps (nmin ROps c 1) (- (1)) = c) as CL.
  { intros c Hc. unfold nmax, nmin. cbn [nltb ROps]. destruct (Rltb_spec 1 c); [lra|]. destruct (Rltb_spec c (- (1))); lra. }
  assert (forall d, d = L * (r * cos theta) ->
            acos (nmax ROps (nmin ROps (d / (r * L)) 1) (- (1))) = theta /\ acos (nmax ROps (nmin ROps (d / (L * r)) 1) (- (1))) = theta) as Q.
  { intros d ->. replace (L * (r * cos theta) / (r * L)) with (cos theta) by (field; lra).
    replace (L * (r * cos theta) / (L * r)) with (cos theta) by (field; lra).
    rewrite CL by (pose proof (COS_bound theta); lra).
    split; apply acos_cos; exact Ht. }
  unfold angle, dot. cbn [length Nat.eqb rbind]. rewrite !vdot_dot3, Hn, Na.
  cbn [nacos ndiv nmul nneg n1 ROps].
  destruct (Q _ Hd) as [Q1 Q2]. split.
  - rewrite Q1. reflexivity.
  - rewrite (dot3_comm [a0; a1; a2] [u0; u1; u2]), Q2. reflexivity.
Qed.

(** ** Transpose equals inverse, with the library's own products: (R v) R = R^T (R v) = v *)
Lemma vecm_mvec_3 (m : list (list R)) v0 v1 v2 :
  (exists a b c d e f g h i, m = [[a; b; c]; [d; e; f]; [g; h; i]]) ->
  vecm ROps (mvec ROps m [v0; v1; v2]) m = Ok (mvec ROps (mmul ROps (mtr m) m) [v0; v1; v2]).
Proof.
  intros (a & b & c & d & e & f & g & h & i & ->).
  unfold vecm, mvec, mmul, mtr, mcol, vdot, mrowsn, mcolsn. cbn. list_eq; ring.
Qed.

Lemma rotation_back alpha a0 a1 a2 Rm v0 v1 v2 : nonzero3 a0 a1 a2 ->
  rotation_matrix ROps alpha 3 [a0; a1; a2] = Ok Rm ->
  vecm ROps (mvec ROps Rm [v0; v1; v2]) Rm = Ok [v0; v1; v2].
Proof.
  intros Hnz H. destruct (rot3_orthogonal alpha a0 a1 a2 Hnz Rm H) as [O1 _].
  rewrite vecm_mvec_3.
  - rewrite O1. unfold I3, mvec, vdot. cbn. list_eq; ring.
  - rewrite rotation3_eq in H. injection H as <-. unfold rodrigues. repeat eexists.
Qed.

(** ** Turning the returned vector about the axis by alpha is increasing phi by alpha *)
Lemma rodrigues_in_frame (r st ct phi alpha : R) (e1 e2 n : list R) (Rm : list (list R)) :
  right_handed_frame e1 e2 n ->
  (forall v0 v1 v2, mvec ROps Rm [v0; v1; v2] =
     vplus (vplus (vscal (cos alpha) [v0; v1; v2]) (vscal (sin alpha) (cross3 n [v0; v1; v2])))
           (vscal ((1 - cos alpha) * dot3 n [v0; v1; v2]) n)) ->
  mvec ROps Rm (in_frame r st ct phi e1 e2 n) = in_frame r st ct (phi + alpha) e1 e2 n.
Proof.
  intros (L1 & L2 & L3 & U1 & U2 & U3 & O12 & O13 & O23 & X) Hrod.
  destruct (list3 e1 L1) as [p0 [p1 [p2 ->]]]. destruct (list3 e2 L2) as [q0 [q1 [q2 ->]]].
  destruct (list3 n L3) as [n0 [n1 [n2 ->]]].
  unfold in_frame, vplus, vscal. cbn [map combine fst snd].
  rewrite Hrod. rewrite cos_plus, sin_plus.
  unfold dot3, cross3, cx, cy, cz in *. cbn in *.
  injection X as X0 X1 X2.
  unfold vplus, vscal. cbn [map combine fst snd].
  set (ca := cos alpha). set (sa := sin alpha). set (cp := cos phi). set (sp := sin phi).
  list_eq; nsatz.
Qed.

Lemma rotation_turns_spherical alpha r theta phi a0 a1 a2 Rm u u' : nonzero3 a0 a1 a2 ->
  rotation_matrix ROps alpha 3 [a0; a1; a2] = Ok Rm ->
  spherical_axis ROps Rhypot r theta phi [a0; a1; a2] = Ok u ->
  spherical_axis ROps Rhypot r theta (phi + alpha) [a0; a1; a2] = Ok u' ->
  mvec ROps Rm u = u'.
Proof.
  intros Hnz HR Hu Hu'.
  destruct (spherical_axis_frame a0 a1 a2 Hnz) as (e1 & e2 & F & S).
  destruct (S r theta phi) as (w & Ew & ->). destruct (S r theta (phi + alpha)) as (w' & Ew' & ->).
  rewrite Hu in Ew. injection Ew as ->. rewrite Hu' in Ew'. injection Ew' as ->.
  apply rodrigues_in_frame; [exact F |].
  intros v0 v1 v2. exact (rot3_rodrigues alpha a0 a1 a2 Rm v0 v1 v2 HR).
Qed.

(** ** Non-vacuity: the history of the seeded-change class (asked for its norm, changed by +=, copied), and the hypotheses of
    the Angle theorem *)
Example ex_history :
  vhistory ROps Rhypot [0; 0; 1] [VQNorm; VAddAssign [3; 0; 0]; VCopy] = Ok [3; 0; 1] /\ nonzero3 3 0 1.
Proof. split. - cbn. list_eq; ring. - left; lra. Qed.
Example ex_angle_hypotheses : nonzero3 3 0 1 /\ 0 < 2 /\ 0 <= 0 <= PI.
Proof. split; [left; lra|]. split; [lra|]. pose proof PI_RGT_0. lra. Qed.
