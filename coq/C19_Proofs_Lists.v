(** * C19 proofs, part "Lists": Range, the list templates of List_Manipulations.hpp and
    Locate_Closest_Location.  All theorems are about the model functions of C19_Model.v. *)
From Coq Require Import ZArith List Bool Lia Arith Reals Lra Sorting.Sorted.
From LP Require Import Num NumR OrdLaws C19_Model.
Import ListNotations.
Ltac Zify.zify_post_hook ::= Z.div_mod_to_equations.

(** ** 1. Range(min, max, stepsize) over Z *)
Section RangeZ.
Local Open Scope Z_scope.

(** number of elements: ceil(d / step) for d, step > 0 (and 0 when d <= 0) *)
Definition range_len (d step : Z) : nat := Z.to_nat ((d + step - 1) / step).

Lemma map_seq_shift (f : nat -> Z) s n : map f (seq (S s) n) = map (fun k => f (S k)) (seq s n).
Proof. rewrite <- seq_shift, map_map. reflexivity. Qed.

Lemma range_up_gen max step : 0 < step -> forall fuel i,
  (max - i + step - 1) / step <= Z.of_nat fuel ->
  range_up fuel i max step
  = Some (map (fun k => i + Z.of_nat k * step) (seq 0 (range_len (max - i) step))).
Proof.
  intros Hs fuel; unfold range_len; induction fuel as [|f IH]; intros i Hf.
  - simpl range_up. destruct (i <? max) eqn:E.
    + apply Z.ltb_lt in E. exfalso. simpl in Hf. nia.
    + apply Z.ltb_ge in E.
      replace (Z.to_nat ((max - i + step - 1) / step)) with 0%nat by nia. reflexivity.
  - simpl range_up. destruct (i <? max) eqn:E.
    + apply Z.ltb_lt in E.
      assert (Hq : (max - i + step - 1) / step = (max - (i + step) + step - 1) / step + 1).
      { replace (max - i + step - 1) with ((max - (i + step) + step - 1) + 1 * step) by ring.
        rewrite Z.div_add by lia. reflexivity. }
      rewrite IH by lia.
      assert (Hn : Z.to_nat ((max - i + step - 1) / step)
                   = S (Z.to_nat ((max - (i + step) + step - 1) / step))).
      { rewrite Hq. assert (0 <= (max - (i + step) + step - 1) / step) by nia. lia. }
      rewrite Hn. simpl seq. simpl map. simpl option_map. f_equal. f_equal.
      + ring.
      + rewrite map_seq_shift. apply map_ext. intros k. rewrite Nat2Z.inj_succ. ring.
    + apply Z.ltb_ge in E.
      replace (Z.to_nat ((max - i + step - 1) / step)) with 0%nat by nia. reflexivity.
Qed.

Lemma range_down_gen max step : 0 < step -> forall fuel i,
  (i - max + step - 1) / step <= Z.of_nat fuel ->
  range_down fuel i max step
  = Some (map (fun k => i - Z.of_nat k * step) (seq 0 (range_len (i - max) step))).
Proof.
  intros Hs fuel; unfold range_len; induction fuel as [|f IH]; intros i Hf.
  - simpl range_down. destruct (i >? max) eqn:E.
    + apply Z.gtb_lt in E. exfalso. simpl in Hf. nia.
    + rewrite Z.gtb_ltb in E. apply Z.ltb_ge in E.
      replace (Z.to_nat ((i - max + step - 1) / step)) with 0%nat by nia. reflexivity.
  - simpl range_down. destruct (i >? max) eqn:E.
    + apply Z.gtb_lt in E.
      assert (Hq : (i - max + step - 1) / step = ((i - step) - max + step - 1) / step + 1).
      { replace (i - max + step - 1) with (((i - step) - max + step - 1) + 1 * step) by ring.
        rewrite Z.div_add by lia. reflexivity. }
      rewrite IH by lia.
      assert (Hn : Z.to_nat ((i - max + step - 1) / step)
                   = S (Z.to_nat (((i - step) - max + step - 1) / step))).
      { rewrite Hq. assert (0 <= ((i - step) - max + step - 1) / step) by nia. lia. }
      rewrite Hn. simpl seq. simpl map. simpl option_map. f_equal. f_equal.
      + ring.
      + rewrite map_seq_shift. apply map_ext. intros k. rewrite Nat2Z.inj_succ. ring.
    + rewrite Z.gtb_ltb in E. apply Z.ltb_ge in E.
      replace (Z.to_nat ((i - max + step - 1) / step)) with 0%nat by nia. reflexivity.
Qed.

(** ceil(d/step) <= d: the fuel |max - min| of the model is enough *)
Lemma ceil_le d step : 0 < step -> 0 < d -> (d + step - 1) / step <= d.
Proof. intros Hs Hd. nia. Qed.

(** ceil(d/step) is exact: (n-1) step < d <= n step *)
Lemma range_len_exact d step : 0 < step -> 0 < d ->
  (1 <= range_len d step)%nat /\
  (forall k, (k < range_len d step)%nat -> Z.of_nat k * step < d) /\
  d <= Z.of_nat (range_len d step) * step.
Proof.
  intros Hs Hd. unfold range_len.
  assert (H1 : 1 <= (d + step - 1) / step) by nia.
  split; [lia|]. split.
  - intros k Hk. assert (Z.of_nat k <= (d + step - 1) / step - 1) by lia. nia.
  - rewrite Z2Nat.id by lia. nia.
Qed.

(** ascending: step > 0, min < max *)
Theorem range_up_spec min max step : 0 < step -> min < max ->
  let n := Z.to_nat ((max - min + step - 1) / step) in
  range min max step = Some (map (fun k => min + Z.of_nat k * step) (seq 0 n)) /\
  (1 <= n)%nat /\
  (forall k, (k < n)%nat -> min + Z.of_nat k * step < max) /\
  max <= min + Z.of_nat n * step.
Proof.
  intros Hs Hlt n. split.
  - unfold range.
    assert ((min >? max) = false) as -> by (rewrite Z.gtb_ltb; apply Z.ltb_ge; lia).
    simpl andb. cbv iota. rewrite range_up_gen; [reflexivity|assumption|].
    rewrite Z2Nat.id by lia. rewrite Z.abs_eq by lia. apply ceil_le; lia.
  - destruct (range_len_exact (max - min) step Hs ltac:(lia)) as (H1 & H2 & H3).
    fold n in H1, H2, H3. unfold range_len in *. fold n in H1, H2, H3.
    split; [exact H1|]. split; [intros k Hk; specialize (H2 k Hk); lia | lia].
Qed.

Example range_up_example : range 2 11 3 = Some [2; 5; 8].
Proof. reflexivity. Qed.
Example range_up_example_hyp : 0 < 3 /\ 2 < 11.
Proof. lia. Qed.

(** descending: step > 0, min > max *)
Theorem range_down_spec min max step : 0 < step -> max < min ->
  let n := Z.to_nat ((min - max + step - 1) / step) in
  range min max step = Some (map (fun k => min - Z.of_nat k * step) (seq 0 n)) /\
  (1 <= n)%nat /\
  (forall k, (k < n)%nat -> max < min - Z.of_nat k * step) /\
  min - Z.of_nat n * step <= max.
Proof.
  intros Hs Hlt n. split.
  - unfold range.
    assert ((min >? max) = true) as -> by (apply Z.gtb_lt; lia).
    assert ((step >? 0) = true) as -> by (apply Z.gtb_lt; lia).
    simpl andb. cbv iota. rewrite range_down_gen; [reflexivity|assumption|].
    rewrite Z2Nat.id by lia. rewrite Z.abs_neq by lia.
    replace (- (max - min)) with (min - max) by ring. apply ceil_le; lia.
  - destruct (range_len_exact (min - max) step Hs ltac:(lia)) as (H1 & H2 & H3).
    unfold range_len in *. fold n in H1, H2, H3.
    split; [exact H1|]. split; [intros k Hk; specialize (H2 k Hk); lia | lia].
Qed.

Example range_down_example : range 11 2 3 = Some [11; 8; 5].
Proof. reflexivity. Qed.
Example range_down_example_hyp : 0 < 3 /\ 2 < 11.
Proof. lia. Qed.

(** empty results: min = max with any step; min >= max with a non-positive step *)
Theorem range_empty_spec min max step :
  (min = max \/ (step <= 0 /\ max <= min)) -> range min max step = Some [].
Proof.
  intros H. unfold range.
  assert (Hc : (min >? max) && (step >? 0) = false).
  { destruct H as [->|[Hs Hm]].
    - assert ((max >? max) = false) as -> by (rewrite Z.gtb_ltb; apply Z.ltb_irrefl). reflexivity.
    - assert ((step >? 0) = false) as -> by (rewrite Z.gtb_ltb; apply Z.ltb_ge; lia).
      apply andb_false_r. }
  rewrite Hc.
  assert (Hg : (min <? max) = false) by (apply Z.ltb_ge; lia).
  destruct (Z.to_nat (Z.abs (max - min))); simpl; rewrite Hg; reflexivity.
Qed.

Example range_empty_example : range 4 4 (-2) = Some [] /\ range 7 4 0 = Some [] /\ range 4 4 5 = Some [].
Proof. repeat split; reflexivity. Qed.

(** step <= 0 with min < max: the ascending C++ loop never terminates; the model runs out of fuel *)
Lemma range_up_stuck max step : step <= 0 -> forall fuel i, i < max -> range_up fuel i max step = None.
Proof.
  intros Hs fuel; induction fuel as [|f IH]; intros i Hi; simpl;
    (assert ((i <? max) = true) as -> by (apply Z.ltb_lt; lia)); [reflexivity|].
  rewrite IH by lia. reflexivity.
Qed.

Theorem range_diverges min max step : step <= 0 -> min < max -> range min max step = None.
Proof.
  intros Hs Hlt. unfold range.
  assert ((min >? max) = false) as -> by (rewrite Z.gtb_ltb; apply Z.ltb_ge; lia).
  simpl andb. cbv iota. apply range_up_stuck; assumption.
Qed.

Example range_diverges_example : range 1 5 0 = None /\ range 1 5 (-1) = None.
Proof. split; reflexivity. Qed.

(** all cases of (min, max, step) together *)
Theorem range_spec min max step :
  (0 < step -> min < max ->
     let n := Z.to_nat ((max - min + step - 1) / step) in
     range min max step = Some (map (fun k => min + Z.of_nat k * step) (seq 0 n)) /\
     (1 <= n)%nat /\
     (forall k, (k < n)%nat -> min + Z.of_nat k * step < max) /\
     max <= min + Z.of_nat n * step) /\
  (0 < step -> max < min ->
     let n := Z.to_nat ((min - max + step - 1) / step) in
     range min max step = Some (map (fun k => min - Z.of_nat k * step) (seq 0 n)) /\
     (1 <= n)%nat /\
     (forall k, (k < n)%nat -> max < min - Z.of_nat k * step) /\
     min - Z.of_nat n * step <= max) /\
  (min = max -> range min max step = Some []) /\
  (step <= 0 -> max <= min -> range min max step = Some []) /\
  (step <= 0 -> min < max -> range min max step = None).
Proof.
  split; [apply range_up_spec|]. split; [apply range_down_spec|].
  split; [intros H; apply range_empty_spec; now left|].
  split; [intros H1 H2; apply range_empty_spec; now right|].
  apply range_diverges.
Qed.

(** consequences in the usual reading: membership and length *)
Corollary range_up_In min max step : 0 < step -> min < max ->
  exists l, range min max step = Some l /\
    forall x, In x l <-> (min <= x < max /\ (x - min) mod step = 0).
Proof.
  intros Hs Hlt. destruct (range_up_spec min max step Hs Hlt) as (He & H1 & H2 & H3).
  eexists; split; [exact He|]. intros x. rewrite in_map_iff. split.
  - intros (k & <- & Hk). apply in_seq in Hk. split; [specialize (H2 k ltac:(lia)); nia|].
    replace (min + Z.of_nat k * step - min) with (Z.of_nat k * step) by ring. apply Z_mod_mult.
  - intros [Hx Hm]. exists (Z.to_nat ((x - min) / step)). split.
    + rewrite Z2Nat.id by (apply Z.div_pos; lia). nia.
    + apply in_seq. split; [lia|]. simpl.
      set (n := Z.to_nat ((max - min + step - 1) / step)) in *.
      assert ((x - min) / step < Z.of_nat n); [|lia].
      assert (0 <= (x - min) / step) by (apply Z.div_pos; lia). nia.
Qed.
End RangeZ.

(** ** 2. List templates (List_Manipulations.hpp) *)
Section ListsGen.
Context {A : Type} (eqb : A -> A -> bool).

Lemma flatten_concat_sec (v : list (list A)) : flatten_list v = concat v.
Proof. induction v as [|l r IH]; simpl; [reflexivity|now rewrite IH]. Qed.

Lemma list_contains_existsb_sec (l : list A) (x : A) :
  list_contains eqb l x = existsb (fun a => eqb a x) l.
Proof. induction l as [|a r IH]; simpl; [reflexivity|]. rewrite IH. now destruct (eqb a x). Qed.

(** generalisation over the start index *)
Lemma find_indices_from_spec (d : A) (l : list A) (x : A) : forall s : nat,
  find_indices_from eqb l x (Z.of_nat s)
  = map Z.of_nat (filter (fun i => eqb (nth (i - s) l d) x) (seq s (length l))).
Proof.
  induction l as [|a r IH]; intros s; [reflexivity|].
  cbn [find_indices_from length seq filter].
  replace (Z.of_nat s + 1)%Z with (Z.of_nat (S s)) by lia. rewrite IH.
  assert (Hf : filter (fun i => eqb (nth (i - s) (a :: r) d) x) (seq (S s) (length r))
               = filter (fun i => eqb (nth (i - S s) r d) x) (seq (S s) (length r))).
  { apply filter_ext_in. intros i Hi. apply in_seq in Hi.
    replace (i - s)%nat with (S (i - S s)) by lia. reflexivity. }
  rewrite Hf, Nat.sub_diag. cbn [nth]. destruct (eqb a x); reflexivity.
Qed.

Lemma find_indices_spec_sec (d : A) (l : list A) (x : A) :
  find_indices eqb l x
  = map Z.of_nat (filter (fun i => eqb (nth i l d) x) (seq 0 (length l))).
Proof.
  unfold find_indices. change 0%Z with (Z.of_nat 0). rewrite (find_indices_from_spec d).
  f_equal. apply filter_ext. intros i. now rewrite Nat.sub_0_r.
Qed.

Lemma find_indices_from_sorted (l : list A) (x : A) : forall z : Z,
  StronglySorted Z.lt (find_indices_from eqb l x z) /\
  Forall (fun i => (z <= i)%Z) (find_indices_from eqb l x z).
Proof.
  induction l as [|a r IH]; intros z; simpl; [split; constructor|].
  destruct (IH (z + 1)%Z) as [Hs Hf].
  assert (Hf' : Forall (fun i => (z < i)%Z) (find_indices_from eqb r x (z + 1))).
  { eapply Forall_impl; [|exact Hf]. simpl. intros; lia. }
  destruct (eqb a x).
  - split; constructor; auto. lia. eapply Forall_impl; [|exact Hf']. simpl; intros; lia.
  - split; auto. eapply Forall_impl; [|exact Hf']. simpl; intros; lia.
Qed.

Section WithSpec.
Hypothesis eqb_spec : forall a b, eqb a b = true <-> a = b.

Lemma lists_equal_spec_sec : forall v1 v2, lists_equal eqb v1 v2 = true <-> v1 = v2.
Proof.
  induction v1 as [|a l1 IH]; intros [|b l2]; simpl; try (split; [discriminate|discriminate]).
  - split; reflexivity.
  - destruct (eqb a b) eqn:E.
    + apply eqb_spec in E. subst b. rewrite IH. split; [now intros ->|now intros [= ->]].
    + split; [discriminate|]. intros [= -> _]. 
      assert (eqb b b = true) by now apply eqb_spec. congruence.
Qed.

Lemma list_contains_In_sec (l : list A) (x : A) : list_contains eqb l x = true <-> In x l.
Proof.
  rewrite list_contains_existsb_sec, existsb_exists. split.
  - intros (a & Ha & E). apply eqb_spec in E. now subst.
  - intros H. exists x. split; [assumption|now apply eqb_spec].
Qed.

Lemma find_indices_In_sec (d : A) (l : list A) (x : A) (i : Z) :
  In i (find_indices eqb l x)
  <-> ((0 <= i < Z.of_nat (length l))%Z /\ nth (Z.to_nat i) l d = x).
Proof.
  rewrite (find_indices_spec_sec d), in_map_iff. split.
  - intros (k & <- & Hk). apply filter_In in Hk. destruct Hk as [Hk E].
    apply in_seq in Hk. apply eqb_spec in E. rewrite Nat2Z.id. split; [lia|assumption].
  - intros [Hi E]. exists (Z.to_nat i). split; [lia|]. apply filter_In. split.
    + apply in_seq. lia.
    + now apply eqb_spec.
Qed.
End WithSpec.

(** Sub_List *)
Lemma nth_firstn_lt (d : A) : forall m k (l : list A), (k < m)%nat -> nth k (firstn m l) d = nth k l d.
Proof using Type.
  induction m as [|m IH]; intros k l Hk; [inversion Hk|].
  destruct l as [|a l]; [reflexivity|]. destruct k as [|k]; [reflexivity|].
  simpl. apply IH. now apply Nat.succ_lt_mono.
Qed.

Lemma nth_skipn_add (d : A) : forall s k (l : list A), nth k (skipn s l) d = nth (s + k) l d.
Proof.
  induction s as [|s IH]; intros k l; [reflexivity|].
  destruct l as [|a l]; [simpl; now destruct k|]. simpl. apply IH.
Qed.

(** the model's clamping written with min/max *)
Lemma sub_list_unfold (v : list A) (i1 i2 : Z) :
  let n := Z.of_nat (length v) in
  sub_list v i1 i2 =
  if ((n =? 0) || (Z.max 0 i1 >=? n) || (i2 <? Z.max 0 i1))%Z then []
  else firstn (Z.to_nat (Z.min i2 (n - 1) - Z.max 0 i1 + 1)) (skipn (Z.to_nat (Z.max 0 i1)) v).
Proof.
  intros n. unfold sub_list. fold n.
  assert (H1 : (if (i1 <? 0)%Z then 0%Z else i1) = Z.max 0 i1).
  { destruct (i1 <? 0)%Z eqn:E; [apply Z.ltb_lt in E|apply Z.ltb_ge in E]; lia. }
  rewrite H1.
  assert (H2 : (if (i2 >=? n)%Z then (n - 1)%Z else i2) = Z.min i2 (n - 1)).
  { rewrite Z.geb_leb. destruct (n <=? i2)%Z eqn:E; [apply Z.leb_le in E|apply Z.leb_gt in E]; lia. }
  rewrite H2. reflexivity.
Qed.

Lemma sub_list_guard (n i1 i2 : Z) :
  ((n =? 0) || (Z.max 0 i1 >=? n) || (i2 <? Z.max 0 i1))%Z = true
  <-> (n = 0 \/ Z.max 0 i1 >= n \/ i2 < Z.max 0 i1)%Z.
Proof.
  rewrite !orb_true_iff, Z.eqb_eq, Z.geb_le, Z.ltb_lt. intuition lia.
Qed.

Lemma sub_list_inner_sec (v : list A) (i1 i2 : Z) :
  (0 <= i1 <= i2)%Z -> (i2 < Z.of_nat (length v))%Z ->
  sub_list v i1 i2 = firstn (Z.to_nat (i2 - i1 + 1)) (skipn (Z.to_nat i1) v).
Proof.
  intros H1 H2. rewrite sub_list_unfold. cbv zeta.
  destruct (_ || _ || _)%bool eqn:G.
  - apply sub_list_guard in G. lia.
  - rewrite Z.max_r by lia. rewrite Z.min_l by lia. reflexivity.
Qed.

Lemma sub_list_length_sec (v : list A) (i1 i2 : Z) :
  (0 <= i1 <= i2)%Z -> (i2 < Z.of_nat (length v))%Z ->
  length (sub_list v i1 i2) = Z.to_nat (i2 - i1 + 1).
Proof.
  intros H1 H2. rewrite sub_list_inner_sec by assumption.
  rewrite firstn_length, skipn_length. lia.
Qed.

Lemma sub_list_nth_sec (d : A) (v : list A) (i1 i2 : Z) :
  (0 <= i1 <= i2)%Z -> (i2 < Z.of_nat (length v))%Z ->
  forall k, (k < Z.to_nat (i2 - i1 + 1))%nat ->
    nth k (sub_list v i1 i2) d = nth (Z.to_nat i1 + k) v d.
Proof.
  intros H1 H2 k Hk. rewrite sub_list_inner_sec by assumption.
  rewrite nth_firstn_lt by assumption. apply nth_skipn_add.
Qed.

Lemma sub_list_clamp_sec (v : list A) (i1 i2 : Z) :
  let n := Z.of_nat (length v) in
  (Z.max 0 i1 <= i2)%Z -> (Z.max 0 i1 < n)%Z ->
  sub_list v i1 i2 = sub_list v (Z.max 0 i1) (Z.min i2 (n - 1)).
Proof.
  intros n H1 H2. rewrite (sub_list_unfold v i1 i2).
  rewrite (sub_list_unfold v (Z.max 0 i1) (Z.min i2 (n - 1))). cbv zeta. fold n.
  rewrite (Z.max_r 0 (Z.max 0 i1)) by lia. rewrite (Z.min_l (Z.min i2 (n - 1)) (n - 1)) by lia.
  assert (G1 : ((n =? 0) || (Z.max 0 i1 >=? n) || (i2 <? Z.max 0 i1))%Z = false).
  { apply not_true_is_false. rewrite sub_list_guard. lia. }
  assert (G2 : ((n =? 0) || (Z.max 0 i1 >=? n) || (Z.min i2 (n - 1) <? Z.max 0 i1))%Z = false).
  { apply not_true_is_false. rewrite sub_list_guard. lia. }
  rewrite G1, G2. reflexivity.
Qed.

Lemma sub_list_empty_sec (v : list A) (i1 i2 : Z) :
  let n := Z.of_nat (length v) in
  (n = 0 \/ Z.max 0 i1 >= n \/ i2 < Z.max 0 i1)%Z -> sub_list v i1 i2 = [].
Proof.
  intros n H. rewrite sub_list_unfold. cbv zeta. fold n.
  apply sub_list_guard in H. rewrite H. reflexivity.
Qed.

(** Transpose_Lists *)
Lemma nth_map_seq {B} (f : nat -> B) (m j : nat) (dflt : B) :
  (j < m)%nat -> nth j (map f (seq 0 m)) dflt = f j.
Proof.
  intros H. rewrite (nth_indep _ dflt (f 0%nat)) by (now rewrite map_length, seq_length).
  rewrite map_nth, seq_nth by assumption. reflexivity.
Qed.

Lemma nth_map_lt {B C} (g : B -> C) (l : list B) (i : nat) (db : B) (dc : C) :
  (i < length l)%nat -> nth i (map g l) dc = g (nth i l db).
Proof.
  intros H. rewrite (nth_indep _ dc (g db)) by (now rewrite map_length). apply map_nth.
Qed.

Lemma forallb_length_iff (m : nat) (rest : list (list A)) :
  forallb (fun l => Nat.eqb (length l) m) rest = true <-> Forall (fun l => length l = m) rest.
Proof.
  rewrite forallb_forall, Forall_forall. split; intros H l Hl; specialize (H l Hl);
    [now apply Nat.eqb_eq|now apply Nat.eqb_eq].
Qed.

Lemma transpose_ok_sec (d : A) (l0 : list A) (rest : list (list A)) :
  let lists := l0 :: rest in
  let m := length l0 in
  Forall (fun l => length l = m) lists ->
  exists t, transpose_lists d lists = Ok t /\ length t = m /\
    (forall j, (j < m)%nat -> length (nth j t []) = length lists) /\
    forall i j, (i < length lists)%nat -> (j < m)%nat ->
      nth i (nth j t []) d = nth j (nth i lists []) d.
Proof.
  intros lists m HF. exists (map (column d lists) (seq 0 m)). split.
  - unfold transpose_lists, lists. fold m. inversion HF; subst.
    assert (forallb (fun l => Nat.eqb (length l) m) rest = true) as ->
      by now apply forallb_length_iff.
    reflexivity.
  - split; [now rewrite map_length, seq_length|]. split.
    + intros j Hj. rewrite nth_map_seq by assumption. unfold column. apply map_length.
    + intros i j Hi Hj. rewrite nth_map_seq by assumption. unfold column.
      apply (nth_map_lt (fun l => nth j l d)). assumption.
Qed.

Lemma transpose_ragged_sec (d : A) (l0 : list A) (rest : list (list A)) :
  (exists l, In l rest /\ length l <> length l0) -> transpose_lists d (l0 :: rest) = Exit.
Proof.
  intros (l & Hl & Hne). unfold transpose_lists.
  destruct (forallb _ rest) eqn:E; [|reflexivity].
  rewrite forallb_forall in E. specialize (E l Hl). apply Nat.eqb_eq in E. contradiction.
Qed.

(** the three outcomes are exhaustive: Exit happens exactly for ragged input *)
Lemma transpose_exit_iff_sec (d : A) (lists : list (list A)) :
  transpose_lists d lists = Exit
  <-> exists l0 rest, lists = l0 :: rest /\ exists l, In l rest /\ length l <> length l0.
Proof.
  split.
  - destruct lists as [|l0 rest]; [discriminate|]. unfold transpose_lists.
    destruct (forallb _ rest) eqn:E; [discriminate|]. intros _.
    exists l0, rest. split; [reflexivity|].
    induction rest as [|l r IH]; [discriminate|]. simpl in E.
    destruct (Nat.eqb (length l) (length l0)) eqn:E1.
    + destruct (IH E) as (l' & Hl' & Hne). exists l'. split; [now right|assumption].
    + exists l. split; [now left|]. now apply Nat.eqb_neq.
  - intros (l0 & rest & -> & H). now apply transpose_ragged_sec.
Qed.
End ListsGen.

(** *** closed statements of the list-template theorems *)

(** Lists_Equal decides equality of lists whenever the element comparison decides equality *)
Theorem lists_equal_spec {A : Type} (eqb : A -> A -> bool) :
  (forall a b, eqb a b = true <-> a = b) ->
  forall v1 v2 : list A, lists_equal eqb v1 v2 = true <-> v1 = v2.
Proof. exact (lists_equal_spec_sec eqb). Qed.

Example lists_equal_example_hyp : forall a b : Z, Z.eqb a b = true <-> a = b.
Proof. exact Z.eqb_eq. Qed.
Example lists_equal_example :
  lists_equal Z.eqb [1; 2; 3]%Z [1; 2; 3]%Z = true /\ lists_equal Z.eqb [1; 2; 3]%Z [1; 2]%Z = false
  /\ lists_equal Z.eqb [1; 2]%Z [1; 3]%Z = false.
Proof. repeat split; reflexivity. Qed.

Theorem flatten_concat {A : Type} (v : list (list A)) : flatten_list v = concat v.
Proof. exact (flatten_concat_sec v). Qed.

Example flatten_example : flatten_list [[1; 2]; []; [3]]%Z = [1; 2; 3]%Z.
Proof. reflexivity. Qed.

Theorem list_contains_existsb {A : Type} (eqb : A -> A -> bool) (l : list A) (x : A) :
  list_contains eqb l x = existsb (fun a => eqb a x) l.
Proof. exact (list_contains_existsb_sec eqb l x). Qed.

Theorem list_contains_In {A : Type} (eqb : A -> A -> bool) :
  (forall a b, eqb a b = true <-> a = b) ->
  forall (l : list A) (x : A), list_contains eqb l x = true <-> In x l.
Proof. exact (list_contains_In_sec eqb). Qed.

Example list_contains_example :
  list_contains Z.eqb [4; 5; 6]%Z 5%Z = true /\ list_contains Z.eqb [4; 5; 6]%Z 7%Z = false.
Proof. split; reflexivity. Qed.

(** Find_Indices returns exactly the positions holding x, in increasing order (any default d) *)
Theorem find_indices_spec {A : Type} (eqb : A -> A -> bool) (d : A) (l : list A) (x : A) :
  find_indices eqb l x
  = map Z.of_nat (filter (fun i => eqb (nth i l d) x) (seq 0 (length l))).
Proof. exact (find_indices_spec_sec eqb d l x). Qed.

Theorem find_indices_In {A : Type} (eqb : A -> A -> bool) :
  (forall a b, eqb a b = true <-> a = b) ->
  forall (d : A) (l : list A) (x : A) (i : Z),
    In i (find_indices eqb l x)
    <-> ((0 <= i < Z.of_nat (length l))%Z /\ nth (Z.to_nat i) l d = x).
Proof. exact (find_indices_In_sec eqb). Qed.

(** strictly increasing in the strong sense: every element is below all later ones *)
Theorem find_indices_sorted {A : Type} (eqb : A -> A -> bool) (l : list A) (x : A) :
  StronglySorted Z.lt (find_indices eqb l x).
Proof. exact (proj1 (find_indices_from_sorted eqb l x 0%Z)). Qed.

Corollary find_indices_Sorted {A : Type} (eqb : A -> A -> bool) (l : list A) (x : A) :
  Sorted Z.lt (find_indices eqb l x).
Proof. apply StronglySorted_Sorted, find_indices_sorted. Qed.

Corollary find_indices_NoDup {A : Type} (eqb : A -> A -> bool) (l : list A) (x : A) :
  NoDup (find_indices eqb l x).
Proof.
  pose proof (find_indices_sorted eqb l x) as H.
  induction H as [|a r Hr IH Ha]; constructor; [|assumption].
  intros Hin. rewrite Forall_forall in Ha. specialize (Ha a Hin). apply Z.lt_irrefl in Ha. exact Ha.
Qed.

Example find_indices_example : find_indices Z.eqb [7; 3; 7; 7; 1]%Z 7%Z = [0; 2; 3]%Z.
Proof. reflexivity. Qed.

Theorem combine_app {A : Type} (v1 v2 : list A) : combine_lists v1 v2 = v1 ++ v2.
Proof. reflexivity. Qed.

(** Sub_List *)
Theorem sub_list_inner {A : Type} (v : list A) (i1 i2 : Z) :
  (0 <= i1 <= i2)%Z -> (i2 < Z.of_nat (length v))%Z ->
  sub_list v i1 i2 = firstn (Z.to_nat (i2 - i1 + 1)) (skipn (Z.to_nat i1) v).
Proof. exact (sub_list_inner_sec v i1 i2). Qed.

Theorem sub_list_length {A : Type} (v : list A) (i1 i2 : Z) :
  (0 <= i1 <= i2)%Z -> (i2 < Z.of_nat (length v))%Z ->
  length (sub_list v i1 i2) = Z.to_nat (i2 - i1 + 1).
Proof. exact (sub_list_length_sec v i1 i2). Qed.

Theorem sub_list_nth {A : Type} (d : A) (v : list A) (i1 i2 : Z) :
  (0 <= i1 <= i2)%Z -> (i2 < Z.of_nat (length v))%Z ->
  forall k, (k < Z.to_nat (i2 - i1 + 1))%nat ->
    nth k (sub_list v i1 i2) d = nth (Z.to_nat i1 + k) v d.
Proof. exact (sub_list_nth_sec d v i1 i2). Qed.

Theorem sub_list_clamp {A : Type} (v : list A) (i1 i2 : Z) :
  let n := Z.of_nat (length v) in
  (Z.max 0 i1 <= i2)%Z -> (Z.max 0 i1 < n)%Z ->
  sub_list v i1 i2 = sub_list v (Z.max 0 i1) (Z.min i2 (n - 1)).
Proof. exact (sub_list_clamp_sec v i1 i2). Qed.

Theorem sub_list_empty {A : Type} (v : list A) (i1 i2 : Z) :
  let n := Z.of_nat (length v) in
  (n = 0 \/ Z.max 0 i1 >= n \/ i2 < Z.max 0 i1)%Z -> sub_list v i1 i2 = [].
Proof. exact (sub_list_empty_sec v i1 i2). Qed.

(** all (v, i1, i2): (a) in-range requests, (b) clamping of out-of-range indices, (c) empty results;
    the hypotheses of (b) and (c) are complementary, and (b) reduces to (a) *)
Theorem sub_list_spec {A : Type} (d : A) (v : list A) (i1 i2 : Z) :
  let n := Z.of_nat (length v) in
  ((0 <= i1 <= i2)%Z -> (i2 < n)%Z ->
     sub_list v i1 i2 = firstn (Z.to_nat (i2 - i1 + 1)) (skipn (Z.to_nat i1) v) /\
     length (sub_list v i1 i2) = Z.to_nat (i2 - i1 + 1) /\
     forall k, (k < Z.to_nat (i2 - i1 + 1))%nat ->
       nth k (sub_list v i1 i2) d = nth (Z.to_nat i1 + k) v d) /\
  ((Z.max 0 i1 <= i2)%Z -> (Z.max 0 i1 < n)%Z ->
     sub_list v i1 i2 = sub_list v (Z.max 0 i1) (Z.min i2 (n - 1)) /\
     (0 <= Z.max 0 i1 <= Z.min i2 (n - 1))%Z /\ (Z.min i2 (n - 1) < n)%Z) /\
  ((n = 0 \/ Z.max 0 i1 >= n \/ i2 < Z.max 0 i1)%Z -> sub_list v i1 i2 = []).
Proof.
  intros n. split; [|split].
  - intros H1 H2. split; [now apply sub_list_inner|]. split; [now apply sub_list_length|].
    now apply sub_list_nth.
  - intros H1 H2. split; [now apply sub_list_clamp|]. lia.
  - apply sub_list_empty.
Qed.

Example sub_list_example :
  sub_list [10; 11; 12; 13; 14]%Z 1 3 = [11; 12; 13]%Z /\
  sub_list [10; 11; 12; 13; 14]%Z (-2) 1 = [10; 11]%Z /\
  sub_list [10; 11; 12; 13; 14]%Z 3 99 = [13; 14]%Z /\
  sub_list [10; 11; 12; 13; 14]%Z 5 7 = [] /\
  sub_list [10; 11; 12; 13; 14]%Z 3 2 = [] /\
  sub_list (@nil Z) 0 0 = [].
Proof. repeat split; reflexivity. Qed.
Example sub_list_example_hyp :
  ((0 <= 1 <= 3)%Z /\ (3 < Z.of_nat (length [10; 11; 12; 13; 14]%Z))%Z) /\
  ((Z.max 0 (-2) <= 1)%Z /\ (Z.max 0 (-2) < Z.of_nat (length [10; 11; 12; 13; 14]%Z))%Z) /\
  (Z.max 0 5 >= Z.of_nat (length [10; 11; 12; 13; 14]%Z))%Z.
Proof. simpl. lia. Qed.

(** Transpose_Lists *)
Theorem transpose_ok {A : Type} (d : A) (l0 : list A) (rest : list (list A)) :
  let lists := l0 :: rest in
  let m := length l0 in
  Forall (fun l => length l = m) lists ->
  exists t, transpose_lists d lists = Ok t /\ length t = m /\
    (forall j, (j < m)%nat -> length (nth j t []) = length lists) /\
    forall i j, (i < length lists)%nat -> (j < m)%nat ->
      nth i (nth j t []) d = nth j (nth i lists []) d.
Proof. exact (transpose_ok_sec d l0 rest). Qed.

Theorem transpose_ragged {A : Type} (d : A) (l0 : list A) (rest : list (list A)) :
  (exists l, In l rest /\ length l <> length l0) -> transpose_lists d (l0 :: rest) = Exit.
Proof. exact (transpose_ragged_sec d l0 rest). Qed.

(** the empty list of lists is returned unchanged *)
Theorem transpose_empty {A : Type} (d : A) : transpose_lists d (@nil (list A)) = Ok [].
Proof. reflexivity. Qed.

(** no out-of-bounds access and no unbounded loop, for any input *)
Theorem transpose_no_oob_fuel {A : Type} (d : A) (lists : list (list A)) :
  transpose_lists d lists <> OOB /\ transpose_lists d lists <> Fuel.
Proof.
  destruct lists as [|l0 rest]; [split; discriminate|]. unfold transpose_lists.
  destruct (forallb _ rest); split; discriminate.
Qed.

Theorem transpose_exit_iff {A : Type} (d : A) (lists : list (list A)) :
  transpose_lists d lists = Exit
  <-> exists l0 rest, lists = l0 :: rest /\ exists l, In l rest /\ length l <> length l0.
Proof. exact (transpose_exit_iff_sec d lists). Qed.

Theorem transpose_spec {A : Type} (d : A) (lists : list (list A)) :
  (forall l0 rest, lists = l0 :: rest ->
     let m := length l0 in
     Forall (fun l => length l = m) lists ->
     exists t, transpose_lists d lists = Ok t /\ length t = m /\
       (forall j, (j < m)%nat -> length (nth j t []) = length lists) /\
       forall i j, (i < length lists)%nat -> (j < m)%nat ->
         nth i (nth j t []) d = nth j (nth i lists []) d) /\
  (forall l0 rest, lists = l0 :: rest ->
     (exists l, In l rest /\ length l <> length l0) -> transpose_lists d lists = Exit) /\
  (lists = [] -> transpose_lists d lists = Ok []).
Proof.
  split; [|split].
  - intros l0 rest -> m. apply transpose_ok.
  - intros l0 rest ->. apply transpose_ragged.
  - intros ->. reflexivity.
Qed.

Example transpose_example :
  transpose_lists 0%Z [[1; 2; 3]; [4; 5; 6]]%Z = Ok [[1; 4]; [2; 5]; [3; 6]]%Z /\
  transpose_lists 0%Z [[1; 2; 3]; [4; 5]]%Z = Exit /\
  transpose_lists 0%Z [[]; []] = Ok [].
Proof. repeat split; reflexivity. Qed.
Example transpose_example_hyp :
  Forall (fun l => length l = length [1; 2; 3]%Z) [[1; 2; 3]; [4; 5; 6]]%Z /\
  (exists l, In l [[4; 5]%Z] /\ length l <> length [1; 2; 3]%Z).
Proof.
  split; [repeat constructor|]. exists [4; 5]%Z. split; [now left|discriminate].
Qed.

(** ** 3. Locate_Closest_Location *)

(** *** facts valid for every number type (no law of order or arithmetic is used) *)
Section ClosestAny.
Context {T : Type} (Ops : NumOps T).

Lemma is_sorted_cons2 (a b : T) (r : list T) :
  is_sorted Ops (a :: b :: r) = if nltb Ops b a then false else is_sorted Ops (b :: r).
Proof. reflexivity. Qed.

Lemma upper_bound_le (l : list T) (t : T) : (upper_bound Ops l t <= length l)%nat.
Proof. induction l as [|a r IH]; simpl; [lia|]. destruct (nltb Ops t a); lia. Qed.

(** std::upper_bound as a linear scan: nothing before the returned index is greater than the
    target, the element at the index is *)
Lemma upper_bound_before (l : list T) (t : T) : forall k, (k < upper_bound Ops l t)%nat ->
  nltb Ops t (nth k l (n0 Ops)) = false.
Proof.
  induction l as [|a r IH]; simpl; intros k Hk; [lia|].
  destruct (nltb Ops t a) eqn:E; [lia|]. destruct k as [|k]; [assumption|]. apply IH. lia.
Qed.

Lemma upper_bound_at (l : list T) (t : T) : (upper_bound Ops l t < length l)%nat ->
  nltb Ops t (nth (upper_bound Ops l t) l (n0 Ops)) = true.
Proof.
  induction l as [|a r IH]; simpl; intros H; [lia|].
  destruct (nltb Ops t a) eqn:E; [assumption|]. apply IH. lia.
Qed.

Lemma length_eqb0_nonempty (l : list T) : l <> [] -> Nat.eqb (length l) 0 = false.
Proof. destruct l; [congruence|reflexivity]. Qed.

(** the two guards: the empty list and unsorted input terminate the process, nothing else does *)
Theorem closest_location_exit_iff (l : list T) (t : T) :
  closest_location Ops l t = Exit <-> l = [] \/ is_sorted Ops l = false.
Proof.
  destruct l as [|a r]; [split; [now left|reflexivity]|].
  unfold closest_location. rewrite length_eqb0_nonempty by discriminate.
  destruct (is_sorted Ops (a :: r)); simpl negb; cbv iota.
  - split; [|intros [H|H]; discriminate].
    destruct (Nat.eqb _ _); [discriminate|]. destruct (Nat.eqb _ _); [discriminate|].
    destruct (nltb Ops _ _); discriminate.
  - split; [now right|reflexivity].
Qed.

(** on non-empty sorted input the call returns an index in range *)
Theorem closest_location_index (l : list T) (t : T) :
  l <> [] -> is_sorted Ops l = true ->
  exists i, closest_location Ops l t = Ok i /\ (0 <= i < Z.of_nat (length l))%Z.
Proof.
  intros Hne Hs. unfold closest_location. rewrite length_eqb0_nonempty by assumption.
  rewrite Hs. simpl negb. cbv iota.
  pose proof (upper_bound_le l t) as Hle.
  assert (Hlen : (0 < length l)%nat) by (destruct l; [congruence|simpl; lia]).
  destruct (Nat.eqb_spec (upper_bound Ops l t) (length l)) as [E|E].
  - eexists; split; [reflexivity|lia].
  - destruct (Nat.eqb_spec (upper_bound Ops l t) 0) as [E0|E0].
    + eexists; split; [reflexivity|lia].
    + destruct (nltb Ops (nabs Ops _) (nabs Ops _)); eexists; (split; [reflexivity|lia]).
Qed.

(** the empty list is rejected with a diagnostic (outside the property's quantifier) *)
Theorem closest_location_nil (t : T) : closest_location Ops [] t = Exit.
Proof. reflexivity. Qed.

(** no out-of-bounds access and no unbounded loop, for any input *)
Theorem closest_location_no_oob_fuel (l : list T) (t : T) :
  closest_location Ops l t <> OOB /\ closest_location Ops l t <> Fuel.
Proof.
  unfold closest_location. destruct (Nat.eqb (length l) 0); [split; discriminate|].
  destruct (negb (is_sorted Ops l)); [split; discriminate|].
  destruct (Nat.eqb _ _); [split; discriminate|]. destruct (Nat.eqb _ _); [split; discriminate|].
  destruct (nltb Ops (nabs Ops _) (nabs Ops _)); split; discriminate.
Qed.
End ClosestAny.

(** *** the real-number instance *)
Section ClosestR.
Local Open Scope R_scope.

Lemma is_sorted_false_iff (l : list R) :
  is_sorted ROps l = false <-> exists k, (S k < length l)%nat /\ nth (S k) l 0 < nth k l 0.
Proof.
  induction l as [|a r IH]; [split; [discriminate|intros (k & Hk & _); simpl in Hk; lia]|].
  destruct r as [|b r].
  - split; [discriminate|intros (k & Hk & _); simpl in Hk; lia].
  - rewrite is_sorted_cons2. change (nltb ROps b a) with (Rltb b a).
    destruct (Rltb_spec b a) as [Hba|Hba].
    + split; [intros _|reflexivity]. exists 0%nat. split; [simpl; lia|exact Hba].
    + rewrite IH. split.
      * intros (k & Hk & Hd). exists (S k). split; [simpl in *; lia|exact Hd].
      * intros (k & Hk & Hd). destruct k as [|k]; [simpl in Hd; contradiction|].
        exists k. split; [simpl in *; lia|exact Hd].
Qed.

Lemma is_sorted_adjacent (l : list R) :
  is_sorted ROps l = true <-> forall k, (S k < length l)%nat -> nth k l 0 <= nth (S k) l 0.
Proof.
  split.
  - intros Hs k Hk. apply Rnot_lt_le. intros Hd.
    assert (is_sorted ROps l = false) by (apply is_sorted_false_iff; exists k; split; assumption).
    congruence.
  - intros H. destruct (is_sorted ROps l) eqn:E; [reflexivity|].
    apply is_sorted_false_iff in E. destruct E as (k & Hk & Hd). specialize (H k Hk). lra.
Qed.

(** is_sorted = std::is_sorted: non-decreasing, duplicates allowed *)
Theorem is_sorted_spec (l : list R) :
  is_sorted ROps l = true
  <-> forall i j, (i <= j < length l)%nat -> nth i l 0 <= nth j l 0.
Proof.
  rewrite is_sorted_adjacent. split.
  - intros H i j [Hij Hj]. induction j as [|j IH].
    + replace i with 0%nat by lia. lra.
    + destruct (Nat.eq_dec i (S j)) as [->|Hne]; [lra|].
      apply Rle_trans with (nth j l 0); [apply IH; lia|apply H; lia].
  - intros H k Hk. apply H. lia.
Qed.

Example is_sorted_example :
  is_sorted ROps [1; 2; 2; 5] = true /\ is_sorted ROps [1; 3; 2] = false.
Proof.
  split.
  - apply is_sorted_adjacent. intros k Hk. simpl in Hk.
    destruct k as [|[|[|k]]]; simpl; try lra; lia.
  - apply is_sorted_false_iff. exists 1%nat. split; [simpl; lia|simpl; lra].
Qed.

Theorem closest_location_unsorted (l : list R) (t : R) :
  is_sorted ROps l = false -> closest_location ROps l t = Exit.
Proof. intros H. apply closest_location_exit_iff. now right. Qed.

Theorem closest_location_empty (t : R) : closest_location ROps [] t = Exit.
Proof. reflexivity. Qed.

Theorem is_sorted_false_spec (l : list R) :
  is_sorted ROps l = false <-> exists k, (S k < length l)%nat /\ nth (S k) l 0 < nth k l 0.
Proof. exact (is_sorted_false_iff l). Qed.

Example closest_location_unsorted_example : closest_location ROps [1; 3; 2] 2 = Exit.
Proof. apply closest_location_unsorted, is_sorted_example. Qed.

(** upper_bound on a sorted list splits it into the elements <= t and the elements > t *)
Lemma upper_bound_split (l : list R) (t : R) : is_sorted ROps l = true ->
  let idx := upper_bound ROps l t in
  (idx <= length l)%nat /\
  (forall k, (k < idx)%nat -> nth k l 0 <= t) /\
  (forall k, (idx <= k < length l)%nat -> t < nth k l 0).
Proof.
  intros Hs idx. split; [apply upper_bound_le|]. split.
  - intros k Hk. apply Rltb_false. exact (upper_bound_before ROps l t k Hk).
  - intros k [Hk1 Hk2].
    assert (Hat : t < nth idx l 0).
    { apply Rltb_true. apply (upper_bound_at ROps l t). unfold idx in *. lia. }
    apply Rlt_le_trans with (nth idx l 0); [exact Hat|].
    apply (proj1 (is_sorted_spec l) Hs). lia.
Qed.

Ltac rabs := unfold Rabs in *;
  repeat match goal with
         | |- context [Rcase_abs ?x] => destruct (Rcase_abs x)
         | H : context [Rcase_abs ?x] |- _ => destruct (Rcase_abs x)
         end; lra.

(** the returned index minimises |l[i] - t| over the whole list (ties, targets outside the range
    of the list and exact hits included) *)
Theorem closest_location_spec (l : list R) (t : R) :
  l <> [] -> is_sorted ROps l = true ->
  exists i, closest_location ROps l t = Ok i /\
    (0 <= i < Z.of_nat (length l))%Z /\
    forall j, (j < length l)%nat -> Rabs (nth (Z.to_nat i) l 0 - t) <= Rabs (nth j l 0 - t).
Proof.
  intros Hne Hs.
  destruct (upper_bound_split l t Hs) as (Hle & Hbefore & Hafter).
  pose proof (proj1 (is_sorted_spec l) Hs) as Hmono.
  assert (Hlen : (0 < length l)%nat) by (destruct l; [congruence|simpl; lia]).
  unfold closest_location. rewrite (length_eqb0_nonempty l Hne).
  rewrite Hs. simpl negb. cbv iota. cbv zeta.
  set (idx := upper_bound ROps l t) in *.
  destruct (Nat.eqb_spec idx (length l)) as [E|E].
  - (* t >= every element: the last one *)
    eexists; split; [reflexivity|]. split; [lia|]. intros j Hj.
    replace (Z.to_nat (Z.of_nat (length l) - 1)) with (length l - 1)%nat by lia.
    assert (nth j l 0 <= nth (length l - 1) l 0) by (apply Hmono; lia).
    assert (nth (length l - 1) l 0 <= t) by (apply Hbefore; lia).
    rabs.
  - destruct (Nat.eqb_spec idx 0) as [E0|E0].
    + (* t < every element: the first one *)
      eexists; split; [reflexivity|]. split; [lia|]. intros j Hj.
      change (Z.to_nat 0) with 0%nat.
      assert (nth 0 l 0 <= nth j l 0) by (apply Hmono; lia).
      assert (t < nth 0 l 0) by (apply Hafter; lia).
      rabs.
    + (* l[idx-1] <= t < l[idx] *)
      unfold nth0. cbn [nabs nsub nltb n0 ROps].
      assert (Ha : nth (idx - 1) l 0 <= t) by (apply Hbefore; lia).
      assert (Hb : t < nth idx l 0) by (apply Hafter; lia).
      destruct (Rltb_spec (Rabs (nth (idx - 1) l 0 - t)) (Rabs (nth idx l 0 - t))) as [Hd|Hd].
      * eexists; split; [reflexivity|]. split; [lia|]. intros j Hj.
        replace (Z.to_nat (Z.of_nat idx - 1)) with (idx - 1)%nat by lia.
        destruct (Nat.lt_ge_cases j idx) as [Hj1|Hj1].
        -- assert (nth j l 0 <= nth (idx - 1) l 0) by (apply Hmono; lia). rabs.
        -- assert (nth idx l 0 <= nth j l 0) by (apply Hmono; lia). rabs.
      * eexists; split; [reflexivity|]. split; [lia|]. intros j Hj.
        rewrite Nat2Z.id.
        destruct (Nat.lt_ge_cases j idx) as [Hj1|Hj1].
        -- assert (nth j l 0 <= nth (idx - 1) l 0) by (apply Hmono; lia). rabs.
        -- assert (nth idx l 0 <= nth j l 0) by (apply Hmono; lia). rabs.
Qed.
End ClosestR.

Section ClosestRExamples.
Local Open Scope R_scope.
Ltac rcompute :=
  cbv [closest_location is_sorted upper_bound nth0 nth length Nat.eqb negb nabs nsub nltb n0 ROps Nat.sub];
  repeat (match goal with
          | |- context [Rltb ?a ?b] =>
              destruct (Rltb_spec a b);
              try (exfalso; unfold Rabs in *;
                   repeat match goal with H : context [Rcase_abs ?x] |- _ => destruct (Rcase_abs x) end; lra)
          end); try reflexivity.

(** non-vacuity of [closest_location_spec] and the case list of the property *)
Example closest_location_example_hyp : [1; 3; 7] <> [] /\ is_sorted ROps [1; 3; 7] = true.
Proof. split; [discriminate|rcompute]. Qed.
Example closest_location_examples :
  closest_location ROps [1; 3; 7] 2 = Ok 1%Z (* tie: the upper neighbour *) /\
  closest_location ROps [1; 3; 7] 0 = Ok 0%Z (* below the first element *) /\
  closest_location ROps [1; 3; 7] 9 = Ok 2%Z (* above the last element *) /\
  closest_location ROps [1; 3; 7] 7 = Ok 2%Z (* equal to the last element *) /\
  closest_location ROps [1; 3; 7] 3 = Ok 1%Z (* exact hit *) /\
  closest_location ROps [1; 3; 7] 4 = Ok 1%Z /\
  closest_location ROps [1; 3; 7] 6 = Ok 2%Z /\
  closest_location ROps [2; 2; 2] 2 = Ok 2%Z (* duplicates *) /\
  closest_location ROps [5] 9 = Ok 0%Z.
Proof. repeat split; rcompute. Qed.
End ClosestRExamples.

(** *** order-only statements: any number type satisfying [OrdLaws] (no arithmetic law), hence
    IEEE doubles without NaN, rounding included *)
Section ClosestOrd.
Context {T : Type} (Ops : NumOps T).

(** needs no law at all *)
Theorem is_sorted_false_any (l : list T) :
  is_sorted Ops l = false
  <-> exists k, (S k < length l)%nat /\ nltb Ops (nth (S k) l (n0 Ops)) (nth k l (n0 Ops)) = true.
Proof.
  induction l as [|a r IH]; [split; [discriminate|intros (k & Hk & _); simpl in Hk; lia]|].
  destruct r as [|b r].
  - split; [discriminate|intros (k & Hk & _); simpl in Hk; lia].
  - rewrite is_sorted_cons2. destruct (nltb Ops b a) eqn:Hba.
    + split; [intros _|reflexivity]. exists 0%nat. split; [simpl; lia|exact Hba].
    + rewrite IH. split.
      * intros (k & Hk & Hd). exists (S k). split; [simpl in *; lia|exact Hd].
      * intros (k & Hk & Hd). destruct k as [|k]; [simpl in Hd; congruence|].
        exists k. split; [simpl in *; lia|exact Hd].
Qed.

Hypothesis laws : OrdLaws Ops.

(** t < x and not (y < x) give t < y *)
Lemma lt_nlt_trans (t x y : T) : nltb Ops t x = true -> nltb Ops y x = false -> nltb Ops t y = true.
Proof.
  intros H1 H2. destruct (ol_total Ops laws x y) as [H|[H|H]].
  - exact (ol_trans Ops laws t x y H1 H).
  - rewrite <- (ol_eq_lt_r Ops laws x y t H). exact H1.
  - congruence.
Qed.

(** "not less" is transitive *)
Lemma nlt_trans (a b c : T) : nltb Ops b a = false -> nltb Ops c b = false -> nltb Ops c a = false.
Proof.
  intros H1 H2. destruct (nltb Ops c a) eqn:E; [|reflexivity].
  rewrite (lt_nlt_trans c a b E H1) in H2. discriminate.
Qed.

Theorem is_sorted_ord_spec (l : list T) :
  is_sorted Ops l = true
  <-> forall i j, (i <= j < length l)%nat -> nltb Ops (nth j l (n0 Ops)) (nth i l (n0 Ops)) = false.
Proof.
  split.
  - intros Hs.
    assert (Hadj : forall k, (S k < length l)%nat ->
                     nltb Ops (nth (S k) l (n0 Ops)) (nth k l (n0 Ops)) = false).
    { intros k Hk. destruct (nltb Ops _ _) eqn:E; [|reflexivity].
      assert (is_sorted Ops l = false) by (apply is_sorted_false_any; exists k; split; assumption).
      congruence. }
    intros i j [Hij Hj]. induction j as [|j IH].
    + replace i with 0%nat by lia. apply (ol_irrefl Ops laws).
    + destruct (Nat.eq_dec i (S j)) as [->|Hne]; [apply (ol_irrefl Ops laws)|].
      apply nlt_trans with (nth j l (n0 Ops)); [apply IH; lia|apply Hadj; lia].
  - intros H. destruct (is_sorted Ops l) eqn:E; [reflexivity|].
    apply is_sorted_false_any in E. destruct E as (k & Hk & Hd).
    rewrite (H k (S k)) in Hd by lia. discriminate.
Qed.

(** the returned index is adjacent to the partition point of the sorted list: everything strictly
    to its left is <= t and everything strictly to its right is > t *)
Theorem closest_location_bracket_ord (l : list T) (t : T) :
  l <> [] -> is_sorted Ops l = true ->
  exists i, closest_location Ops l t = Ok i /\
    (0 <= i < Z.of_nat (length l))%Z /\
    (forall k, (k < Z.to_nat i)%nat -> nltb Ops t (nth k l (n0 Ops)) = false) /\
    (forall k, (Z.to_nat i < k < length l)%nat -> nltb Ops t (nth k l (n0 Ops)) = true).
Proof.
  intros Hne Hs.
  pose proof (proj1 (is_sorted_ord_spec l) Hs) as Hmono.
  pose proof (upper_bound_le Ops l t) as Hle.
  pose proof (upper_bound_before Ops l t) as Hbefore.
  pose proof (upper_bound_at Ops l t) as Hat.
  assert (Hafter : forall k, (upper_bound Ops l t <= k < length l)%nat ->
                     nltb Ops t (nth k l (n0 Ops)) = true).
  { intros k Hk. apply lt_nlt_trans with (nth (upper_bound Ops l t) l (n0 Ops)).
    - apply Hat. lia.
    - apply Hmono. lia. }
  assert (Hlen : (0 < length l)%nat) by (destruct l; [congruence|simpl; lia]).
  unfold closest_location. rewrite (length_eqb0_nonempty l Hne).
  rewrite Hs. simpl negb. cbv iota. cbv zeta.
  set (idx := upper_bound Ops l t) in *.
  destruct (Nat.eqb_spec idx (length l)) as [E|E].
  - eexists; split; [reflexivity|]. split; [lia|]. split; intros k Hk; [apply Hbefore|]; lia.
  - destruct (Nat.eqb_spec idx 0) as [E0|E0].
    + eexists; split; [reflexivity|]. split; [lia|]. split; intros k Hk; [|apply Hafter]; lia.
    + clear Hat.
      destruct (nltb Ops (nabs Ops _) (nabs Ops _)); eexists; (split; [reflexivity|]); (split; [lia|]);
        (split; intros k Hk; [apply Hbefore|apply Hafter]; lia).
Qed.
End ClosestOrd.

Example closest_location_bracket_ord_hyp : OrdLaws ROps.
Proof. exact ROps_OrdLaws. Qed.
